(* C05: model of src/alignment_processor.py as far as the accounting of alignments is concerned:
     AlignmentCollector.process            -> process            (clustering by overlap with the running hull, statistics)
     AbstractAlignmentStorage.add_alignment -> cov_of, hull_of   (per-bin coverage, covered region)
     AlignmentCollector.split_coverage_regions -> split_regions  (the nested loops: inner / outer_fix, region_of)
     BAMAlignmentStorage.get_alignments    -> fetch              (htslib fetch of the half-open [lo, hi+1))
     InMemoryAlignmentStorage.add_alignment / fill_index / get_alignments -> raw_start, raw_end, fill_start, fill_end, get_mem
     AlignmentCollector.forward_alignments -> forward
     process_genic / process_intergenic filters -> may_pass / must_pass
     MultimapResolver.find_duplicates      -> dedup  (record level; the index-level loop is Multimap2.v of C08)
   The model describes the code AFTER the three repairs fixes/C05_split_last_bin.diff (outer loop guarded by current_start,
   empty regions not emitted), fixes/C05_inmemory_end_bin.diff (alignment_start_index[end_bin + 1]) and
   fixes/C05_first_subregion_start.diff (the first sub-region starts at genomic_region[0] instead of
   max(COVERAGE_BIN * first_bin + 1, genomic_region[0])): `split_regions`, `forward`.
   The code before the third repair is kept as `split_regions_prev` / `forward_prev` (theorems `..._prev` with the
   `boundary_corner` exemption, witness `boundary_corner_refuted`); the loops as they were before the first two are kept as
   `outer_cur` / `get_mem_cur` / `forward_cur` with `..._refuted` witnesses.
   All constants (COVERAGE_BIN, MAX_REGION_LEN, MIN_READS_TO_SPLIT, ABS_COV_VALLEY, REL_COV_VALLEY = RN/RD) are section
   variables; the instances at the end take them from gen/Tables.v (regenerated from the repository on every run).
   Coordinates: an alignment is (reference_start, reference_end, id) exactly as pysam reports it (0-based, end exclusive);
   regions are 0-based closed intervals (reference_start, reference_end - 1); bins are floor(pos / COVERAGE_BIN). *)
From Coq Require Import ZArith List Bool Lia ZifyBool.
From IQ.gen Require Import Prims Tables.
Import ListNotations. Open Scope Z_scope.
Notation iv := (Z*Z)%type.
Notation aln := (Z*Z*Z)%type.

Definition rs (a:aln) : Z := fst (fst a).
Definition re (a:aln) : Z := snd (fst a).
Definition span (a:aln) : iv := (rs a, re a - 1).
Definition iv_eq (a b:iv) : bool := (fst a =? fst b) && (snd a =? snd b).

(* ================================================================ 1. AlignmentCollector.process: clustering *)
(* storage.region after add_alignment *)
Definition hull_add (h:option iv) (a:aln) : iv :=
  match h with None => span a | Some r => (Z.min (fst r) (rs a), Z.max (snd r) (re a - 1)) end.
(* alignment_is_not_adjacent *)
Definition not_adjacent (h:option iv) (a:aln) : bool :=
  match h with None => false | Some r => negb (py_overlaps r (span a)) end.
(* the loop of process(): `cur` is the storage (reversed), `h` its region; a cluster is flushed when the next alignment
   does not overlap the hull, and once more at the end if the storage is not empty *)
Fixpoint process_aux (cur:list aln) (h:option iv) (l:list aln) : list (list aln) :=
  match l with
  | [] => match h with None => [] | Some _ => [rev cur] end
  | a :: t => if not_adjacent h a then rev cur :: process_aux [a] (Some (hull_add None a)) t
              else process_aux (a :: cur) (Some (hull_add h a)) t
  end.
Definition process (l:list aln) : list (list aln) := process_aux [] None l.

Definition hull_of (l:list aln) : option iv := fold_left (fun h a => Some (hull_add h a)) l None.

Lemma process_aux_concat : forall l cur h, (h = None -> cur = []) -> concat (process_aux cur h l) = rev cur ++ l.
Proof. induction l as [|a t IH]; intros cur h Hh; cbn [process_aux].
  - destruct h; cbn; [rewrite !app_nil_r; reflexivity|rewrite (Hh eq_refl); reflexivity].
  - destruct (not_adjacent h a).
    + cbn [concat]. rewrite IH by discriminate. reflexivity.
    + rewrite IH by discriminate. cbn [rev]. rewrite <- app_assoc. reflexivity. Qed.

(* every alignment is in exactly one cluster, in input order: the clusters concatenate to the input *)
Theorem clusters_partition : forall l, concat (process l) = l.
Proof. intros l. unfold process. rewrite process_aux_concat by reflexivity. reflexivity. Qed.

Lemma process_aux_nonempty : forall l cur h, (h = None -> cur = []) -> (h <> None -> cur <> []) ->
  Forall (fun c => c <> []) (process_aux cur h l).
Proof. induction l as [|a t IH]; intros cur h H0 H1; cbn [process_aux].
  - destruct h; [|constructor]. constructor; [|constructor]. intros E. apply (H1 ltac:(discriminate)).
    destruct cur; [reflexivity|]. cbn in E. destruct (rev cur); discriminate.
  - destruct (not_adjacent h a) eqn:E.
    + constructor.
      * destruct h; [|discriminate]. intros E'. apply (H1 ltac:(discriminate)).
        destruct cur; [reflexivity|]. cbn in E'. destruct (rev cur); discriminate.
      * apply IH; intros; [discriminate|discriminate].
    + apply IH; intros; discriminate. Qed.
Theorem clusters_nonempty : forall l, Forall (fun c => c <> []) (process l).
Proof. intros. apply process_aux_nonempty; [reflexivity|intros H; contradiction]. Qed.

(* the hull carried by the loop is the hull of the stored alignments *)
Lemma hull_of_app l a : hull_of (l ++ [a]) = Some (hull_add (hull_of l) a).
Proof. unfold hull_of. rewrite fold_left_app. reflexivity. Qed.

(* a cluster is cut exactly where the next alignment does not overlap the hull of the cluster so far *)
Inductive cut_ok : list (list aln) -> Prop :=
| cut_nil : cut_ok []
| cut_one c : cut_ok [c]
| cut_cons c a d t : not_adjacent (hull_of c) a = true -> cut_ok ((a :: d) :: t) -> cut_ok (c :: (a :: d) :: t).
(* and inside a cluster every alignment overlaps the hull of its predecessors *)
Fixpoint connected_from (h:option iv) (l:list aln) : Prop :=
  match l with [] => True | a :: t => not_adjacent h a = false /\ connected_from (Some (hull_add h a)) t end.

Lemma process_aux_connected : forall l cur h, h = hull_of (rev cur) -> connected_from None (rev cur) ->
  (h = None -> cur = []) ->
  Forall (connected_from None) (process_aux cur h l).
Proof. induction l as [|a t IH]; intros cur h Hh Hc H0; cbn [process_aux].
  - destruct h; constructor; [exact Hc|constructor].
  - destruct (not_adjacent h a) eqn:E.
    + constructor; [exact Hc|]. apply IH; [reflexivity| cbn; auto |discriminate].
    + apply IH; [cbn [rev]; rewrite hull_of_app, <- Hh; reflexivity| |discriminate].
      cbn [rev]. clear IH H0. subst h. revert E Hc. generalize (rev cur). intros l0.
      unfold hull_of. generalize (@None iv). induction l0 as [|b l0 IHl]; intros h0 E Hc; cbn in *.
      * auto.
      * destruct Hc as [Hc1 Hc2]. split; [exact Hc1|]. apply IHl; assumption. Qed.
Theorem clusters_connected : forall l, Forall (connected_from None) (process l).
Proof. intros. apply process_aux_connected; cbn; auto. Qed.

(* ================================================================ 2. statistics and filters *)
(* a BAM record as far as process() and the filters look at it: (flag, reference_id, mapping_quality) *)
Notation brec := (Z*Z*Z)%type.
Definition b_flag (b:brec) := fst (fst b).
Definition b_ref (b:brec) := snd (fst b).
Definition b_mapq (b:brec) := snd b.
Definition is_secondary (b:brec) := Z.testbit (b_flag b) 8.        (* 0x100 *)
Definition is_supplementary (b:brec) := Z.testbit (b_flag b) 11.   (* 0x800 *)
(* AlignmentType tallies of process(): (primary, secondary, supplementary) *)
Definition stat_step (s:Z*Z*Z) (b:brec) : Z*Z*Z :=
  let '(p, sec, sup) := s in
  if is_secondary b then (p, sec + 1, sup)
  else if is_supplementary b then (p, sec, sup + 1)
  else if negb (b_ref b =? -1) then (p + 1, sec, sup) else s.
Definition stats (l:list brec) : Z*Z*Z := fold_left stat_step l (0, 0, 0).
Definition count (p:brec -> bool) (l:list brec) : Z := Z.of_nat (length (filter p l)).
Definition cat_primary b := negb (is_secondary b) && negb (is_supplementary b) && negb (b_ref b =? -1).
Definition cat_secondary b := is_secondary b.
Definition cat_supplementary b := negb (is_secondary b) && is_supplementary b.

Lemma triple_eq (a b c a' b' c':Z) : a = a' -> b = b' -> c = c' -> (a, b, c) = (a', b', c').
Proof. intros; subst; reflexivity. Qed.
Lemma stats_gen : forall l p s u, fold_left stat_step l (p, s, u) =
  (p + count cat_primary l, s + count cat_secondary l, u + count cat_supplementary l).
Proof. induction l as [|b t IH]; intros p s u; cbn [fold_left].
  - unfold count; cbn [filter length]. apply triple_eq; lia.
  - unfold stat_step at 2. unfold count, cat_primary, cat_secondary, cat_supplementary in *. cbn [filter].
    destruct (is_secondary b); cbn [negb andb].
    + rewrite IH. cbn [length]. apply triple_eq; lia.
    + destruct (is_supplementary b); cbn [negb andb].
      * rewrite IH. cbn [length]. apply triple_eq; lia.
      * destruct (b_ref b =? -1); cbn [negb]; rewrite IH; cbn [length]; apply triple_eq; lia. Qed.
(* the logged statistics are the per-category record counts of the input *)
Theorem stats_are_category_counts : forall l,
  stats l = (count cat_primary l, count cat_secondary l, count cat_supplementary l).
Proof. intros. unfold stats. rewrite stats_gen. reflexivity. Qed.

(* filters of process_genic / process_intergenic that do not depend on the assignment:
   min_mapq = 0 encodes "not given" (Python: `if self.params.min_mapq and ...`) *)
Definition basic_filter (no_secondary:bool) (min_mapq:Z) (b:brec) : bool :=
  negb ((b_ref b =? -1) || is_supplementary b || (no_secondary && is_secondary b))
  && negb (negb (min_mapq =? 0) && (b_mapq b <? min_mapq)).
(* may be reported: passes the unconditional filters; must be reported: additionally primary and above the two
   conditional cut-offs (inconsistent_mapq_cutoff in annotated regions, simple_alignments_mapq_cutoff elsewhere) *)
Definition may_pass := basic_filter.
Definition must_pass (no_secondary:bool) (min_mapq inconsistent_cutoff simple_cutoff:Z) (b:brec) : bool :=
  basic_filter no_secondary min_mapq b && negb (is_secondary b)
  && (inconsistent_cutoff <=? b_mapq b) && (simple_cutoff <=? b_mapq b).
Lemma must_implies_may ns mq ic sc b : must_pass ns mq ic sc b = true -> may_pass ns mq b = true.
Proof. unfold must_pass, may_pass. intros H. do 3 (apply andb_prop in H; destruct H as [H _]). exact H. Qed.

(* ================================================================ 3. duplicate removal (find_duplicates, record level) *)
Section Dedup.
Context {A:Type} (eqb : A -> A -> bool).
(* a record is selected unless an already selected one equals it *)
Fixpoint dedup_acc (kept:list A) (l:list A) : list A :=
  match l with
  | [] => rev kept
  | x :: t => if existsb (fun k => eqb k x) kept then dedup_acc kept t else dedup_acc (x :: kept) t
  end.
Definition dedup (l:list A) : list A := dedup_acc [] l.

(* no two selected records are equal *)
Fixpoint pairwise_distinct (l:list A) : Prop :=
  match l with [] => True | x :: t => Forall (fun y => eqb x y = false) t /\ pairwise_distinct t end.
Lemma pairwise_app_one l x : pairwise_distinct l -> Forall (fun k => eqb k x = false) l -> pairwise_distinct (l ++ [x]).
Proof. induction l as [|y t IH]; cbn; intros H F.
  - split; constructor.
  - destruct H as [H1 H2]. inversion F; subst. split; [apply Forall_app; split; [exact H1|constructor; [assumption|constructor]]|apply IH; assumption]. Qed.
Lemma dedup_acc_distinct : forall l kept, pairwise_distinct (rev kept) -> pairwise_distinct (dedup_acc kept l).
Proof. induction l as [|x t IH]; intros kept H; cbn [dedup_acc]; [exact H|].
  destruct (existsb (fun k => eqb k x) kept) eqn:E; [apply IH; exact H|].
  apply IH. cbn [rev]. apply pairwise_app_one; [exact H|].
  apply Forall_forall. intros k Hk. apply in_rev in Hk.
  destruct (eqb k x) eqn:E2; [|reflexivity].
  assert (existsb (fun k => eqb k x) kept = true) by (apply existsb_exists; exists k; split; assumption). congruence. Qed.
Theorem dedup_removes_identical : forall l, pairwise_distinct (dedup l).
Proof. intros. apply dedup_acc_distinct. exact Logic.I. Qed.

Lemma dedup_acc_in : forall l kept x, In x (dedup_acc kept l) -> In x kept \/ In x l.
Proof. induction l as [|y t IH]; intros kept x H; cbn [dedup_acc] in H.
  - left. apply in_rev. exact H.
  - destruct (existsb (fun k => eqb k y) kept).
    + destruct (IH _ _ H); [left|right; right]; assumption.
    + destruct (IH _ _ H) as [[->|H0]|H0]; [right; left; reflexivity|left; exact H0|right; right; exact H0]. Qed.
Theorem dedup_sound : forall l x, In x (dedup l) -> In x l.
Proof. intros l x H. destruct (dedup_acc_in _ _ _ H) as [[]|H0]; exact H0. Qed.

Lemma dedup_acc_keeps : forall l kept x, In x kept -> In x (dedup_acc kept l).
Proof. induction l as [|y t IH]; intros kept x H; cbn [dedup_acc].
  - apply in_rev in H. exact H.
  - destruct (existsb (fun k => eqb k y) kept); apply IH; [exact H|right; exact H]. Qed.
(* nothing disappears without a selected equal record *)
Lemma dedup_acc_complete : forall l kept x, In x l -> In x (dedup_acc kept l) \/ exists y, In y (dedup_acc kept l) /\ eqb y x = true.
Proof. induction l as [|y t IH]; intros kept x H; [contradiction|]. cbn [dedup_acc]. destruct H as [->|H].
  - destruct (existsb (fun k => eqb k x) kept) eqn:E.
    + right. apply existsb_exists in E. destruct E as [k [Hk Ek]]. exists k. split; [apply dedup_acc_keeps; exact Hk|exact Ek].
    + left. apply dedup_acc_keeps. left; reflexivity.
  - destruct (existsb (fun k => eqb k y) kept); apply IH; exact H. Qed.
Theorem dedup_complete : forall l x, In x l -> In x (dedup l) \/ exists y, In y (dedup l) /\ eqb y x = true.
Proof. intros. apply dedup_acc_complete. assumption. Qed.
End Dedup.

(* BasicReadAssignment.__eq__: read id, chromosome, start, end, isoform list *)
Notation akey := (Z*Z*Z*Z*list Z)%type.
Fixpoint zs_eq (x y:list Z) : bool := match x, y with [], [] => true | a :: s, b :: t => (a =? b) && zs_eq s t | _, _ => false end.
Definition akey_eqb (a b:akey) : bool :=
  let '(r1, c1, s1, e1, i1) := a in let '(r2, c2, s2, e2, i2) := b in
  (r1 =? r2) && (c1 =? c2) && (s1 =? s2) && (e1 =? e2) && zs_eq i1 i2.

(* ================================================================ 4. coverage bins and split_coverage_regions *)
Section Model.
Variables BIN MAXLEN MINREADS ABSV RN RD : Z.   (* REL_COV_VALLEY = RN / RD *)

Definition sbin (a:aln) : Z := rs a / BIN.
Definition ebin (a:aln) : Z := (re a - 1) / BIN.
(* coverage_dict after add_alignment of every element: +1 on every bin from the first to the last covered *)
(* (the bins of every alignment are computed once; evaluation inside Coq would otherwise divide on every look-up) *)
Definition binned (l:list aln) : list (Z*Z) := map (fun a => (sbin a, ebin a)) l.
Definition cov_of (l:list aln) : Z -> Z :=
  let bl := binned l in fun p => Z.of_nat (length (filter (fun b => (fst b <=? p) && (p <=? snd b)) bl)).
Lemma cov_of_eq l p : cov_of l p = Z.of_nat (length (filter (fun a => (sbin a <=? p) && (p <=? ebin a)) l)).
Proof. unfold cov_of, binned. cbv zeta. f_equal. induction l as [|a t IH]; [reflexivity|]. cbn [map filter fst snd].
  destruct ((sbin a <=? p) && (p <=? ebin a)); cbn [length]; rewrite IH; reflexivity. Qed.
(* sorted(coverage_dict.keys())[0] and [-1] *)
Definition first_bin (l:list aln) : Z := match l with [] => 0 | a :: t => fold_left (fun m b => Z.min m (sbin b)) t (sbin a) end.
Definition last_bin (l:list aln) : Z := match l with [] => 0 | a :: t => fold_left (fun m b => Z.max m (ebin b)) t (ebin a) end.

Section Loops.
Variable cov : Z -> Z.
Variable last : Z.
(* coverage_dict[pos] > max(ABS_COV_VALLEY, max_cov * REL_COV_VALLEY), in integers (max_cov * RN / RD < cov) *)
Definition not_valley (pos maxc:Z) : bool := (ABSV <? cov pos) && (maxc * RN <? RD * cov pos).
Definition min_bins : Z := MAXLEN / BIN.        (* int(MAX_REGION_LEN / COVERAGE_BIN), positive operands *)

Fixpoint inner (fuel:nat) (cs pos maxc:Z) : option (Z*Z) :=
  match fuel with
  | O => None
  | S f => if ((pos <=? last) && (pos - cs <? min_bins)) || not_valley pos maxc
           then inner f cs (pos + 1) (Z.max maxc (cov pos)) else Some (pos, maxc)
  end.
(* the loop before the repair: guarded by pos *)
Fixpoint outer_cur (fuel:nat) (cs pos maxc:Z) (acc:list (Z*Z)) : option (list (Z*Z)) :=
  match fuel with
  | O => None
  | S f => if pos <=? last then
             match inner fuel cs pos maxc with
             | Some (pos', _) => outer_cur f pos' (Z.min (pos' + 1) (last + 1)) (cov pos') (acc ++ [(cs, pos')])
             | None => None
             end
           else Some acc
  end.
(* the repaired loop: guarded by current_start; emits the bin range [cs, pos') of every sub-region *)
Fixpoint outer_fix (fuel:nat) (cs pos maxc:Z) (acc:list (Z*Z)) : option (list (Z*Z)) :=
  match fuel with
  | O => None
  | S f => if cs <=? last then
             match inner fuel cs pos maxc with
             | Some (pos', _) => outer_fix f pos' (Z.min (pos' + 1) (last + 1)) (cov pos') (acc ++ [(cs, pos')])
             | None => None
             end
           else Some acc
  end.

Hypothesis cov_beyond : forall p, last < p -> cov p <= ABSV.

Fixpoint tiles (s e:Z) (l:list (Z*Z)) : Prop :=
  match l with [] => s = e | (a, b) :: t => a = s /\ a < b /\ tiles b e t end.
Lemma tiles_le : forall l s e, tiles s e l -> s <= e.
Proof. induction l as [|[x y] t IH]; intros s e H; cbn in H; [lia|]. destruct H as (-> & ? & H). apply IH in H. lia. Qed.
Lemma tiles_app s m e l : tiles s m l -> m < e -> tiles s e (l ++ [(m, e)]).
Proof. revert s; induction l as [|[x y] t IH]; intros s H Hlt; cbn in *.
  - subst. repeat split; auto.
  - destruct H as (H1 & H2 & H3). repeat split; auto. Qed.

Lemma inner_bounds fuel : forall cs pos maxc p m, pos <= last + 1 ->
  inner fuel cs pos maxc = Some (p, m) -> pos <= p <= last + 1.
Proof. induction fuel; intros cs pos maxc p m Hp H; cbn [inner] in H; [discriminate|].
  destruct (((pos <=? last) && (pos - cs <? min_bins)) || not_valley pos maxc) eqn:E.
  - assert (pos <= last).
    { destruct (pos <=? last) eqn:E1; [lia|]. cbn [andb orb] in E. unfold not_valley in E.
      pose proof (cov_beyond pos ltac:(lia)). lia. }
    apply IHfuel in H; lia.
  - inversion H; lia. Qed.
Lemma inner_total fuel : forall cs pos maxc, pos <= last + 1 -> (Z.to_nat (last + 1 - pos) < fuel)%nat ->
  exists p m, inner fuel cs pos maxc = Some (p, m).
Proof. induction fuel; intros cs pos maxc Hp Hf; [lia|]. cbn [inner].
  destruct (((pos <=? last) && (pos - cs <? min_bins)) || not_valley pos maxc) eqn:E.
  - assert (pos <= last).
    { destruct (pos <=? last) eqn:E1; [lia|]. cbn [andb orb] in E. unfold not_valley in E.
      pose proof (cov_beyond pos ltac:(lia)). lia. }
    apply IHfuel; lia.
  - eauto. Qed.

(* repaired loop: terminates within the fuel and tiles the bins [first, last + 1) completely *)
Lemma outer_fix_tiles fuel : forall cs pos maxc acc s res,
  cs <= last + 1 -> (cs <= last -> pos = cs + 1) -> tiles s cs acc ->
  outer_fix fuel cs pos maxc acc = Some res -> tiles s (last + 1) res.
Proof. induction fuel; intros cs pos maxc acc s res Hcs Hpos Ht H; [discriminate|].
  cbn [outer_fix] in H. destruct (cs <=? last) eqn:E.
  - destruct (inner (S fuel) cs pos maxc) as [[p m]|] eqn:Ei; [|discriminate].
    assert (Hb: pos <= p <= last + 1) by (eapply inner_bounds; [|exact Ei]; lia).
    eapply IHfuel; [| | |exact H]; [lia|intros; lia|apply tiles_app; [exact Ht|lia]].
  - inversion H; subst. assert (cs = last + 1) by lia. subst. exact Ht. Qed.
Lemma outer_fix_total fuel : forall cs pos maxc acc,
  cs <= last + 1 -> (cs <= last -> pos = cs + 1) -> (Z.to_nat (last + 1 - cs) < fuel)%nat ->
  exists res, outer_fix fuel cs pos maxc acc = Some res.
Proof. induction fuel; intros cs pos maxc acc Hcs Hpos Hf; [lia|].
  cbn [outer_fix]. destruct (cs <=? last) eqn:E; [|eauto].
  destruct (inner_total (S fuel) cs pos maxc ltac:(lia) ltac:(lia)) as [p [m Hi]]. rewrite Hi.
  assert (Hb: pos <= p <= last + 1) by (eapply inner_bounds; [|exact Hi]; lia).
  apply IHfuel; lia. Qed.

(* the loop before the repair: tiling may stop one bin short, or nothing at all is emitted *)
Lemma outer_cur_tiles fuel : forall cs pos maxc acc s res,
  pos <= last + 1 -> cs < pos -> tiles s cs acc ->
  outer_cur fuel cs pos maxc acc = Some res ->
  exists e, tiles s e res /\ (e = last + 1 \/ (e = last /\ res <> []) \/ (res = acc /\ pos = last + 1)).
Proof. induction fuel; intros cs pos maxc acc s res Hp Hlt Ht H; [discriminate|].
  cbn [outer_cur] in H. destruct (pos <=? last) eqn:E.
  - destruct (inner (S fuel) cs pos maxc) as [[p m]|] eqn:Ei; [|discriminate].
    assert (Hb: pos <= p <= last + 1) by (eapply inner_bounds; [|exact Ei]; lia).
    assert (Ht': tiles s p (acc ++ [(cs, p)])) by (apply tiles_app; [exact Ht|lia]).
    destruct (Z.eq_dec p (last + 1)) as [Hp1|Hp1].
    + subst p. destruct fuel; [discriminate|]. cbn [outer_cur] in H.
      replace (Z.min (last + 1 + 1) (last + 1) <=? last) with false in H by lia.
      inversion H; subst. exists (last + 1). split; auto.
    + destruct (Z.eq_dec p last) as [Hp2|Hp2].
      * subst p. destruct fuel; [discriminate|]. cbn [outer_cur] in H.
        replace (Z.min (last + 1) (last + 1) <=? last) with false in H by lia.
        inversion H; subst. exists last. split; auto. right; left. split; auto. destruct acc; discriminate.
      * eapply IHfuel in H; [| | |exact Ht']; try lia.
        destruct H as (e & He & Hor). exists e. split; auto.
        destruct Hor as [?|[[? ?]|[? ?]]]; [left; auto|right; left; auto|lia].
  - inversion H; subst. exists cs. split; auto. right; right. split; auto. lia. Qed.
End Loops.

(* the coordinates of a sub-region made of the bins [cs, pos) inside the cluster region r *)
Definition region_of (r:iv) (b:Z*Z) : iv := (Z.max (fst b * BIN + 1) (fst r), Z.min (snd b * BIN) (snd r)).
Definition nonempty_iv (x:iv) : bool := fst x <=? snd x.
Definition split_fuel (first last:Z) : nat := S (S (Z.to_nat (last - first))).
Definition split_bins (cov:Z -> Z) (first last:Z) : option (list (Z*Z)) :=
  outer_fix cov last (split_fuel first last) first (first + 1) (cov first) [].
Definition split_bins_cur (cov:Z -> Z) (first last:Z) : option (list (Z*Z)) :=
  outer_cur cov last (split_fuel first last) first (first + 1) (cov first) [].
(* split_coverage_regions(genomic_region, storage): count = storage.get_read_count(), cov = coverage_dict (0 when absent),
   first/last = smallest/largest key; None = the model ran out of fuel (excluded by split_regions_total) *)
(* the repaired body of the outer loop: `region_start = genomic_region[0] if not split_regions else max(...)`;
   `started` = the list split_regions is not empty; a sub-region is appended only if it is not empty *)
Definition region_of_first (r:iv) (b:Z*Z) : iv := (fst r, Z.min (snd b * BIN) (snd r)).
Fixpoint emit_regions (r:iv) (started:bool) (bs:list (Z*Z)) : list iv :=
  match bs with
  | [] => []
  | b :: t => let reg := if started then region_of r b else region_of_first r b in
              if nonempty_iv reg then reg :: emit_regions r true t else emit_regions r started t
  end.
Definition split_regions (r:iv) (count:Z) (cov:Z -> Z) (first last:Z) : option (list iv) :=
  if (py_interval_len r <? MAXLEN) && (count <? MINREADS) then Some [r]
  else option_map (emit_regions r false) (split_bins cov first last).
(* before fixes/C05_first_subregion_start.diff: every sub-region starts at max(bin start + 1, genomic_region[0]) *)
Definition split_regions_prev (r:iv) (count:Z) (cov:Z -> Z) (first last:Z) : option (list iv) :=
  if (py_interval_len r <? MAXLEN) && (count <? MINREADS) then Some [r]
  else option_map (fun bs => filter nonempty_iv (map (region_of r) bs)) (split_bins cov first last).
Definition split_regions_cur (r:iv) (count:Z) (cov:Z -> Z) (first last:Z) : option (list iv) :=
  if (py_interval_len r <? MAXLEN) && (count <? MINREADS) then Some [r]
  else option_map (map (region_of r)) (split_bins_cur cov first last).

(* sub-regions that follow each other without gap or overlap, none empty, covering [lo, hi] *)
Fixpoint chain (lo hi:Z) (regs:list iv) : Prop :=
  match regs with [] => lo = hi + 1 | r :: t => fst r = lo /\ fst r <= snd r /\ snd r <= hi /\ chain (snd r + 1) hi t end.

Hypothesis BIN_pos : 0 < BIN.

Lemma tiles_chain : forall last bs s r,
  tiles s (last + 1) bs -> fst r <= snd r -> last = snd r / BIN -> fst r / BIN <= s -> s <= last ->
  chain (Z.max (s * BIN + 1) (fst r)) (snd r) (filter nonempty_iv (map (region_of r) bs)).
Proof. intros last. induction bs as [|[a b] t IH]; intros s r Ht Hr Hl Hf Hs; cbn [tiles] in Ht; [lia|].
  destruct Ht as (-> & Hab & Ht). cbn [map filter].
  pose proof (Z.mul_div_le (snd r) BIN BIN_pos) as D1. pose proof (Z.mod_pos_bound (snd r) BIN BIN_pos) as D2.
  pose proof (Z.div_mod (snd r) BIN ltac:(lia)) as D3.
  pose proof (Z.mod_pos_bound (fst r) BIN BIN_pos) as D4. pose proof (Z.div_mod (fst r) BIN ltac:(lia)) as D5.
  set (q1 := snd r / BIN) in *. set (q0 := fst r / BIN) in *.
  assert (Hb: b <= last + 1).
  { apply tiles_le in Ht. exact Ht. }
  assert (Hsb: s * BIN + BIN <= b * BIN) by nia.
  assert (Hr0: fst r < (q0 + 1) * BIN) by nia.
  assert (Hr0b: fst r < b * BIN) by nia.
  assert (Ereg: region_of r (s, b) = (Z.max (s * BIN + 1) (fst r), Z.min (b * BIN) (snd r))) by reflexivity.
  unfold nonempty_iv at 1. rewrite Ereg. cbn [fst snd].
  destruct (Z.max (s * BIN + 1) (fst r) <=? Z.min (b * BIN) (snd r)) eqn:E.
  - cbn [chain fst snd]. split; [reflexivity|]. split; [lia|]. split; [lia|].
    destruct (Z.eq_dec b (last + 1)) as [->|Hne].
    + destruct t as [|[x y] t]; cbn [tiles] in Ht; [|destruct Ht as (? & ? & Ht); apply tiles_le in Ht; lia]. cbn [map filter chain].
      assert (snd r < (last + 1) * BIN) by nia. lia.
    + assert (b <= last) by lia. assert (b * BIN <= snd r) by nia.
      replace (Z.min (b * BIN) (snd r) + 1) with (Z.max (b * BIN + 1) (fst r)) by lia.
      apply IH; try assumption; try lia.
  - (* only the last bin can give an empty region, when the cluster ends on its first base *)
    assert (s * BIN + 1 > snd r) by lia. assert (s = last) by nia. subst s.
    assert (b = last + 1) by lia. subst b.
    destruct t as [|[x y] t]; cbn [tiles] in Ht; [|destruct Ht as (? & ? & Ht); apply tiles_le in Ht; lia]. cbn [map filter chain].
    assert (last * BIN <= snd r) by nia. lia. Qed.

(* once a sub-region has been emitted the repaired loop is the previous one *)
Lemma emit_started r : forall bs, emit_regions r true bs = filter nonempty_iv (map (region_of r) bs).
Proof. induction bs as [|b t IH]; [reflexivity|]. cbn [emit_regions map filter]. rewrite IH. reflexivity. Qed.
(* the repaired loop tiles the whole region [r0, r1] *)
Lemma tiles_chain_first : forall last bs r,
  tiles (fst r / BIN) (last + 1) bs -> fst r <= snd r -> last = snd r / BIN -> chain (fst r) (snd r) (emit_regions r false bs).
Proof. intros last bs r Ht Hr Hl. destruct bs as [|[a b] t]; cbn [tiles] in Ht.
  { pose proof (Z.div_le_mono (fst r) (snd r) BIN BIN_pos Hr). lia. }
  destruct Ht as (-> & Hab & Ht).
  pose proof (Z.mul_div_le (snd r) BIN BIN_pos) as D1. pose proof (Z.mod_pos_bound (snd r) BIN BIN_pos) as D2.
  pose proof (Z.div_mod (snd r) BIN ltac:(lia)) as D3.
  pose proof (Z.mod_pos_bound (fst r) BIN BIN_pos) as D4. pose proof (Z.div_mod (fst r) BIN ltac:(lia)) as D5.
  pose proof (Z.div_le_mono (fst r) (snd r) BIN BIN_pos Hr) as D6.
  set (q1 := snd r / BIN) in *. set (q0 := fst r / BIN) in *.
  assert (Hb: b <= last + 1) by (apply tiles_le in Ht; exact Ht).
  assert (Hr0b: fst r < b * BIN) by nia.
  cbn [emit_regions]. unfold region_of_first, nonempty_iv. cbn [fst snd].
  replace (fst r <=? Z.min (b * BIN) (snd r)) with true by lia.
  rewrite emit_started. cbn [chain fst snd]. split; [reflexivity|]. split; [lia|]. split; [lia|].
  destruct (Z.eq_dec b (last + 1)) as [->|Hne].
  - destruct t as [|[x y] t]; cbn [tiles] in Ht; [|destruct Ht as (? & ? & Ht); apply tiles_le in Ht; lia]. cbn [map filter chain].
    assert (snd r < (last + 1) * BIN) by nia. lia.
  - assert (b <= last) by lia. assert (b * BIN <= snd r) by nia.
    replace (Z.min (b * BIN) (snd r) + 1) with (Z.max (b * BIN + 1) (fst r)) by lia.
    apply (tiles_chain last); try assumption; lia. Qed.
(* a region that is not split is a chain as well *)
Lemma chain_single (r:iv) : fst r <= snd r -> chain (fst r) (snd r) [r].
Proof. intros H. cbn [chain]. repeat split; lia. Qed.
Lemma chain_single_inv lo hi (x:iv) : chain lo hi [x] -> x = (lo, hi).
Proof. cbn [chain]. intros (H1 & _ & _ & H2). destruct x as [x0 x1]. cbn [fst snd] in *. f_equal; lia. Qed.

(* every alignment that touches [lo, hi] overlaps at least one sub-region of a chain *)
Lemma chain_covers : forall regs lo hi x, chain lo hi regs -> lo <= hi -> fst x <= snd x -> lo <= snd x -> fst x <= hi ->
  exists r, In r regs /\ py_overlaps r x = true.
Proof. induction regs as [|r t IH]; intros lo hi x Hc Hlh Hw H1 H2; cbn [chain] in Hc; [lia|].
  destruct Hc as (E & Hr & Hh & Ht).
  destruct (Z_le_gt_dec (fst x) (snd r)) as [Hle|Hgt].
  - exists r. split; [left; reflexivity|]. unfold py_overlaps. lia.
  - destruct (IH (snd r + 1) hi x Ht ltac:(lia) Hw ltac:(lia) H2) as [r' [Hr' Hf]]. exists r'. split; [right; exact Hr'|exact Hf]. Qed.
(* and the sub-regions of a chain are pairwise disjoint and inside [lo, hi] *)
Lemma chain_inside : forall regs lo hi r, chain lo hi regs -> In r regs -> lo <= fst r /\ fst r <= snd r /\ snd r <= hi.
Proof. induction regs as [|r0 t IH]; intros lo hi r Hc Hin; [contradiction|]. cbn [chain] in Hc. destruct Hc as (E & Hr & Hh & Ht).
  destruct Hin as [->|Hin]; [lia|]. specialize (IH _ _ _ Ht Hin). lia. Qed.
Lemma chain_disjoint : forall regs lo hi, chain lo hi regs ->
  forall i j ri rj, (i < j)%nat -> nth_error regs i = Some ri -> nth_error regs j = Some rj -> snd ri < fst rj.
Proof. induction regs as [|r0 t IH]; intros lo hi Hc i j ri rj Hij Hi Hj; [destruct i; discriminate|].
  cbn [chain] in Hc. destruct Hc as (E & Hr & Hh & Ht). destruct j; [lia|]. cbn in Hj.
  destruct i; cbn in Hi.
  - inversion Hi; subst. apply nth_error_In in Hj. pose proof (chain_inside _ _ _ _ Ht Hj). lia.
  - eapply IH; [exact Ht| |exact Hi|exact Hj]. lia. Qed.

(* ================================================================ 5. retrieval of the alignments of a sub-region *)
(* BAMOnlineMerger: fetch(chr, region[0], region[1] + 1); htslib returns the records that overlap the half-open interval *)
Definition fetch_half_open (lo hi:Z) (l:list aln) : list aln := filter (fun a => (rs a <? hi) && (lo <? re a)) l.
Definition get_bam (file:list aln) (r:iv) : list aln := fetch_half_open (fst r) (snd r + 1) file.

(* InMemoryAlignmentStorage.add_alignment: index of the first stored alignment that starts (ends) in a bin *)
Fixpoint first_index {A} (p:A -> bool) (l:list A) (i:Z) : option Z :=
  match l with [] => None | a :: t => if p a then Some i else first_index p t (i + 1) end.
(* bl = (start bin, end bin) of the stored alignments, in storage order *)
Definition raw_start (bl:list (Z*Z)) (b:Z) : option Z := first_index (fun x => fst x =? b) bl 0.
Definition raw_end (bl:list (Z*Z)) (b:Z) : option Z := first_index (fun x => snd x =? b) bl 0.
(* range(hi, hi - n, -1) *)
Fixpoint desc (hi:Z) (n:nat) : list Z := match n with O => [] | S k => hi :: desc (hi - 1) k end.
(* fill_index, first loop: the entries written to / kept in alignment_start_index, `cur` = current_index *)
Fixpoint fill_start (raw:Z -> option Z) (cur:Z) (poss:list Z) : list (Z*Z) :=
  match poss with
  | [] => []
  | p :: t => match raw p with None => (p, cur) :: fill_start raw cur t | Some i => (p, i) :: fill_start raw i t end
  end.
(* second loop: alignment_end_index (a running minimum) *)
Fixpoint fill_end (raw:Z -> option Z) (cur:Z) (poss:list Z) : list (Z*Z) :=
  match poss with
  | [] => []
  | p :: t => match raw p with
              | None => (p, cur) :: fill_end raw cur t
              | Some i => if i >? cur then (p, cur) :: fill_end raw cur t else (p, i) :: fill_end raw i t
              end
  end.
Fixpoint assoc (d:list (Z*Z)) (k:Z) : option Z :=
  match d with [] => None | (k', v) :: t => if k' =? k then Some v else assoc t k end.
Definition mem_index (whole:iv) (l:list aln) : list (Z*Z) * list (Z*Z) :=
  let n := Z.of_nat (length l) in let bl := binned l in
  let poss := desc (snd whole / BIN + 1) (Z.to_nat (snd whole / BIN + 1 - fst whole / BIN + 1)) in
  (fill_start (raw_start bl) n poss, fill_end (raw_end bl) n poss).
(* alignment_storage[i] for i in range(s, e) *)
Definition slice (s e:Z) (l:list aln) : list aln := firstn (Z.to_nat (e - s)) (skipn (Z.to_nat s) l).
(* get_alignments(region); off = 1 after the repair, 0 before; None = KeyError *)
Definition get_mem_gen (off:Z) (whole:iv) (l:list aln) (r:iv) : option (list aln) :=
  if iv_eq r whole then Some l else
  let idx := mem_index whole l in
  match assoc (snd idx) (fst r / BIN), assoc (fst idx) (snd r / BIN + off) with
  | Some s, Some e => Some (filter (fun a => py_overlaps r (span a)) (slice s e l))
  | _, _ => None
  end.
Definition get_mem := get_mem_gen 1.
Definition get_mem_cur := get_mem_gen 0.

(* forward_alignments: `file` is what the BAM files hold on this chromosome, `cluster` what the storage holds *)
Inductive mode := Default | HighMem.
Definition retrieve_gen (gm:iv -> list aln -> iv -> option (list aln)) (m:mode) (file cluster:list aln) (whole r:iv) : option (list aln) :=
  match m with Default => Some (get_bam file r) | HighMem => gm whole cluster r end.
Fixpoint retrieve_all_gen gm (m:mode) (file cluster:list aln) (whole:iv) (regs:list iv) : option (list (iv * list aln)) :=
  match regs with
  | [] => Some []
  | r :: t => match retrieve_gen gm m file cluster whole r, retrieve_all_gen gm m file cluster whole t with
              | Some x, Some rest => Some ((r, x) :: rest) | _, _ => None end
  end.
Definition forward_gen (sp:iv -> Z -> (Z -> Z) -> Z -> Z -> option (list iv)) gm (m:mode) (file cluster:list aln) : option (list (iv * list aln)) :=
  match hull_of cluster with
  | None => None
  | Some whole =>
    match sp whole (Z.of_nat (length cluster)) (cov_of cluster) (first_bin cluster) (last_bin cluster) with
    | None => None
    | Some [_] => retrieve_all_gen gm m file cluster whole [whole]      (* get_alignments() without a region *)
    | Some regs => retrieve_all_gen gm m file cluster whole regs
    end
  end.
Definition retrieve := retrieve_gen get_mem.
Definition retrieve_all := retrieve_all_gen get_mem.
(* the code after the three repairs, before the third, and before all of them *)
Definition forward := forward_gen split_regions get_mem.
Definition forward_prev := forward_gen split_regions_prev get_mem.
Definition forward_cur := forward_gen split_regions_cur get_mem_cur.

(* ---------------------------------------------------------------- facts about hulls and bins *)
Lemma div_min x y : Z.min (x / BIN) (y / BIN) = Z.min x y / BIN.
Proof. destruct (Z_le_gt_dec x y).
  - pose proof (Z.div_le_mono x y BIN BIN_pos ltac:(lia)). rewrite !Z.min_l by lia. reflexivity.
  - pose proof (Z.div_le_mono y x BIN BIN_pos ltac:(lia)). rewrite !Z.min_r by lia. reflexivity. Qed.
Lemma div_max x y : Z.max (x / BIN) (y / BIN) = Z.max x y / BIN.
Proof. destruct (Z_le_gt_dec x y).
  - pose proof (Z.div_le_mono x y BIN BIN_pos ltac:(lia)). rewrite !Z.max_r by lia. reflexivity.
  - pose proof (Z.div_le_mono y x BIN BIN_pos ltac:(lia)). rewrite !Z.max_l by lia. reflexivity. Qed.

Lemma hull_fold : forall l h, fold_left (fun h a => Some (hull_add h a)) l (Some h) =
  Some (fold_left (fun m b => Z.min m (rs b)) l (fst h), fold_left (fun m b => Z.max m (re b - 1)) l (snd h)).
Proof. induction l as [|a t IH]; intros h; cbn [fold_left]; [destruct h; reflexivity|]. rewrite IH. reflexivity. Qed.
Lemma fold_min_le : forall l (f:aln -> Z) x, (fold_left (fun m b => Z.min m (f b)) l x <= x) /\
  (forall a, In a l -> fold_left (fun m b => Z.min m (f b)) l x <= f a).
Proof. induction l as [|b t IH]; intros f x; cbn [fold_left]; [split; [lia|contradiction]|].
  destruct (IH f (Z.min x (f b))) as [H1 H2]. split; [lia|]. intros a [->|Ha]; [lia|apply H2, Ha]. Qed.
Lemma fold_max_ge : forall l (f:aln -> Z) x, (x <= fold_left (fun m b => Z.max m (f b)) l x) /\
  (forall a, In a l -> f a <= fold_left (fun m b => Z.max m (f b)) l x).
Proof. induction l as [|b t IH]; intros f x; cbn [fold_left]; [split; [lia|contradiction]|].
  destruct (IH f (Z.max x (f b))) as [H1 H2]. split; [lia|]. intros a [->|Ha]; [lia|apply H2, Ha]. Qed.
Lemma fold_min_div : forall l x, fold_left (fun m b => Z.min m (sbin b)) l (x / BIN) = fold_left (fun m b => Z.min m (rs b)) l x / BIN.
Proof. induction l as [|b t IH]; intros x; cbn [fold_left]; [reflexivity|]. unfold sbin at 2. rewrite div_min. apply IH. Qed.
Lemma fold_max_div : forall l x, fold_left (fun m b => Z.max m (ebin b)) l (x / BIN) = fold_left (fun m b => Z.max m (re b - 1)) l x / BIN.
Proof. induction l as [|b t IH]; intros x; cbn [fold_left]; [reflexivity|]. unfold ebin at 2. rewrite div_max. apply IH. Qed.

(* the region of a non-empty storage: smallest start, largest end; its bins are the smallest / largest coverage keys *)
Lemma hull_spec : forall l, l <> [] -> (forall b, In b l -> rs b < re b) ->
  exists whole, hull_of l = Some whole /\ fst whole <= snd whole /\
    (forall b, In b l -> fst whole <= rs b /\ re b - 1 <= snd whole) /\
    first_bin l = fst whole / BIN /\ last_bin l = snd whole / BIN.
Proof. intros [|a t] Hne Hw; [contradiction|]. unfold hull_of. cbn [fold_left hull_add]. rewrite hull_fold. cbn [fst snd span].
  eexists; split; [reflexivity|]. cbn [fst snd].
  destruct (fold_min_le t rs (rs a)) as [m1 m2]. destruct (fold_max_ge t (fun b => re b - 1) (re a - 1)) as [M1 M2].
  pose proof (Hw a ltac:(left; reflexivity)). split; [lia|]. split.
  - intros b [->|Hb]; [lia|]. specialize (m2 b Hb). specialize (M2 b Hb). cbn beta in M2. lia.
  - unfold first_bin, last_bin. unfold sbin at 2, ebin at 2. rewrite fold_min_div, fold_max_div. split; reflexivity. Qed.

Hypothesis ABSV_nonneg : 0 <= ABSV.
Lemma cov_of_beyond l : forall p, last_bin l < p -> cov_of l p <= ABSV.
Proof. intros p Hp. rewrite cov_of_eq. replace (filter _ l) with (@nil aln); [cbn; lia|]. symmetry.
  destruct l as [|a t]; [reflexivity|].
  assert (H: forall b, In b (a :: t) -> ebin b <= last_bin (a :: t)).
  { unfold last_bin. destruct (fold_max_ge t ebin (ebin a)) as [M1 M2]. intros b [->|Hb]; [exact M1|apply M2, Hb]. }
  revert H. generalize (last_bin (a :: t)) Hp. generalize (a :: t). clear. intros l lb Hp H.
  induction l as [|b t IH]; [reflexivity|]. cbn [filter]. pose proof (H b ltac:(left; reflexivity)).
  replace ((sbin b <=? p) && (p <=? ebin b)) with false by lia. apply IH. intros c Hc. apply H. right; exact Hc. Qed.

(* split_coverage_regions always returns (the model never runs out of fuel) and its sub-regions are consecutive, non-empty
   and tile the cluster region from r0 to r1 -- for every coverage function *)
Theorem split_regions_tile : forall r count cov first last,
  fst r <= snd r -> first = fst r / BIN -> last = snd r / BIN -> (forall p, last < p -> cov p <= ABSV) ->
  exists regs, split_regions r count cov first last = Some regs /\ chain (fst r) (snd r) regs.
Proof. intros r count cov first last Hr Hf Hl Hb. unfold split_regions.
  destruct ((py_interval_len r <? MAXLEN) && (count <? MINREADS)); [eexists; split; [reflexivity|apply chain_single; exact Hr]|].
  assert (Hfl: first <= last) by (subst; apply Z.div_le_mono; lia).
  unfold split_bins.
  destruct (outer_fix_total cov last Hb (split_fuel first last) first (first + 1) (cov first) []) as [bs Hbs];
    [lia|intros; reflexivity|unfold split_fuel; lia|].
  rewrite Hbs. cbn [option_map]. eexists; split; [reflexivity|].
  apply (tiles_chain_first last); try assumption. rewrite <- Hf.
  eapply outer_fix_tiles; [exact Hb| | | |exact Hbs]; [lia|intros; reflexivity|reflexivity]. Qed.
(* before the third repair: from max(first bin start + 1, r0) to r1 *)
Theorem split_regions_tile_prev : forall r count cov first last,
  fst r <= snd r -> first = fst r / BIN -> last = snd r / BIN -> (forall p, last < p -> cov p <= ABSV) ->
  exists regs, split_regions_prev r count cov first last = Some regs /\
    (regs = [r] \/ chain (Z.max (first * BIN + 1) (fst r)) (snd r) regs).
Proof. intros r count cov first last Hr Hf Hl Hb. unfold split_regions_prev.
  destruct ((py_interval_len r <? MAXLEN) && (count <? MINREADS)); [eexists; split; [reflexivity|left; reflexivity]|].
  assert (Hfl: first <= last) by (subst; apply Z.div_le_mono; lia).
  unfold split_bins.
  destruct (outer_fix_total cov last Hb (split_fuel first last) first (first + 1) (cov first) []) as [bs Hbs];
    [lia|intros; reflexivity|unfold split_fuel; lia|].
  rewrite Hbs. cbn [option_map]. eexists; split; [reflexivity|]. right.
  apply (tiles_chain last); try assumption; try lia.
  eapply outer_fix_tiles; [exact Hb| | | |exact Hbs]; [lia|intros; reflexivity|reflexivity]. Qed.

(* ---------------------------------------------------------------- default mode: BAM fetch *)
Lemma get_bam_iff file r a : In a (get_bam file r) <-> In a file /\ rs a <= snd r /\ fst r <= re a - 1.
Proof. unfold get_bam, fetch_half_open. rewrite filter_In. split; intros [H1 H2]; split; auto; lia. Qed.
Lemma get_bam_overlaps file r a : In a (get_bam file r) <-> In a file /\ py_overlaps r (span a) = true.
Proof. rewrite get_bam_iff. unfold py_overlaps, span. cbn [fst snd]. split; intros [H1 H2]; split; auto; lia. Qed.

(* ---------------------------------------------------------------- high-memory mode: the index *)
Fixpoint sorted (l:list aln) : Prop := match l with [] => True | a :: t => Forall (fun b => rs a <= rs b) t /\ sorted t end.
Lemma sorted_nth : forall l i j a b, sorted l -> (i <= j)%nat -> nth_error l i = Some a -> nth_error l j = Some b -> rs a <= rs b.
Proof. induction l as [|x t IH]; intros i j a b Hs Hij Hi Hj; [destruct i; discriminate|]. destruct Hs as [Hs1 Hs2].
  destruct i; cbn in Hi.
  - inversion Hi; subst. destruct j; cbn in Hj; [inversion Hj; lia|]. apply nth_error_In in Hj.
    rewrite Forall_forall in Hs1. apply Hs1, Hj.
  - destruct j; [lia|]. cbn in Hj. eapply IH; [exact Hs2| |exact Hi|exact Hj]. lia. Qed.

Lemma first_index_some : forall {A} (p:A -> bool) l i0 j, first_index p l i0 = Some j ->
  exists k a, j = i0 + Z.of_nat k /\ nth_error l k = Some a /\ p a = true /\
    forall k' a', (k' < k)%nat -> nth_error l k' = Some a' -> p a' = false.
Proof. intros A p. induction l as [|x t IH]; intros i0 j H; cbn [first_index] in H; [discriminate|].
  destruct (p x) eqn:E.
  - inversion H; subst. exists 0%nat, x. repeat split; [lia|assumption|intros; lia].
  - apply IH in H. destruct H as (k & a & -> & Hn & Hp & Hlt). exists (Datatypes.S k), a. repeat split; [lia|exact Hn|exact Hp|].
    intros k' a' Hk Hn'. destruct k'; cbn in Hn'; [inversion Hn'; subst; exact E|]. eapply Hlt; [|exact Hn']. lia. Qed.
Lemma first_index_none : forall {A} (p:A -> bool) l i0, first_index p l i0 = None -> forall a, In a l -> p a = false.
Proof. intros A p. induction l as [|x t IH]; intros i0 H a Ha; [contradiction|]. cbn [first_index] in H.
  destruct (p x) eqn:E; [discriminate|]. destruct Ha as [->|Ha]; [exact E|eapply IH; eassumption]. Qed.

Lemma in_slice : forall l (i:nat) a s e, nth_error l i = Some a -> s <= Z.of_nat i < e -> In a (slice s e l).
Proof. intros l i a s e Hn Hi. unfold slice.
  assert (Hs: (Z.to_nat s <= i)%nat) by lia.
  assert (H1: nth_error (skipn (Z.to_nat s) l) (i - Z.to_nat s) = Some a).
  { revert Hs Hn. generalize (Z.to_nat s). clear. intros n. revert l i. induction n; intros l i Hs Hn; cbn [skipn].
    - rewrite Nat.sub_0_r. exact Hn.
    - destruct l; [destruct i; discriminate|]. destruct i; [lia|]. cbn in Hn. cbn [Nat.sub]. apply IHn; [lia|exact Hn]. }
  assert (H2: (i - Z.to_nat s < Z.to_nat (e - s))%nat) by lia.
  revert H1 H2. generalize (skipn (Z.to_nat s) l) (i - Z.to_nat s)%nat (Z.to_nat (e - s)). clear.
  intros l i n. revert l i. induction n; intros l i H1 H2; [lia|]. destruct l; [destruct i; discriminate|].
  cbn [firstn]. destruct i; cbn in H1; [inversion H1; left; reflexivity|]. right. apply (IHn l i); [exact H1|lia]. Qed.
Lemma slice_incl s e l a : In a (slice s e l) -> In a l.
Proof. unfold slice. intros H.
  assert (H': In a (skipn (Z.to_nat s) l)).
  { revert H. generalize (skipn (Z.to_nat s) l) (Z.to_nat (e - s)). clear. intros l n. revert l.
    induction n; intros l H; [contradiction|]. destruct l; [contradiction|]. cbn [firstn] in H. destruct H as [->|H]; [left; reflexivity|right; apply IHn, H]. }
  clear H. rename H' into H. revert H. generalize (Z.to_nat s). clear. intros n. revert l.
  induction n; intros l H; [exact H|]. destruct l; [exact H|]. right. apply IHn. exact H. Qed.

Section Index.
Variable l : list aln.
Hypothesis l_sorted : sorted l.
Let n := Z.of_nat (length l).
(* what the filled start index guarantees at bin p: every alignment that starts in a bin before p lies before it *)
Definition start_ok (p v:Z) : Prop := forall (i:nat) a, nth_error l i = Some a -> sbin a < p -> Z.of_nat i < v.
(* and the end index: every alignment that ends in bin p or later lies at or after it *)
Definition end_ok (p v:Z) : Prop := forall (i:nat) a, nth_error l i = Some a -> p <= ebin a -> v <= Z.of_nat i.

Lemma fill_start_spec : forall k hi cur, start_ok (hi + 1) cur ->
  forall p, hi - Z.of_nat k < p <= hi -> exists v, assoc (fill_start (raw_start (binned l)) cur (desc hi k)) p = Some v /\ start_ok p v.
Proof. induction k; intros hi cur Hc p Hp; [lia|]. cbn [desc fill_start].
  destruct (raw_start (binned l) hi) as [j|] eqn:E.
  - assert (Hj: start_ok hi j).
    { unfold raw_start in E. apply first_index_some in E. destruct E as (kj & x & -> & Hn & Hpb & _).
      unfold binned in Hn. rewrite nth_error_map in Hn. destruct (nth_error l kj) as [b|] eqn:Hnb; [|discriminate].
      cbn in Hn. inversion Hn; subst x. cbn [fst] in Hpb. rename Hnb into Hn'. clear Hn. rename Hn' into Hn.
      intros i a Ha Hlt. destruct (Nat.lt_ge_cases i kj) as [?|Hge]; [lia|].
      pose proof (sorted_nth l kj i b a l_sorted Hge Hn Ha) as Hle.
      pose proof (Z.div_le_mono _ _ BIN BIN_pos Hle). unfold sbin in *. lia. }
    cbn [assoc]. destruct (hi =? p) eqn:Ep.
    + exists j. split; [reflexivity|]. replace p with hi by lia. exact Hj.
    + apply IHk; [replace (hi - 1 + 1) with hi by lia; exact Hj|lia].
  - assert (Hj: start_ok hi cur) by (intros i a Ha Hlt; apply (Hc i a Ha); lia).
    cbn [assoc]. destruct (hi =? p) eqn:Ep.
    + exists cur. split; [reflexivity|]. replace p with hi by lia. exact Hj.
    + apply IHk; [replace (hi - 1 + 1) with hi by lia; exact Hj|lia]. Qed.

Lemma fill_end_spec : forall k hi cur, end_ok (hi + 1) cur ->
  forall p, hi - Z.of_nat k < p <= hi -> exists v, assoc (fill_end (raw_end (binned l)) cur (desc hi k)) p = Some v /\ end_ok p v.
Proof. induction k; intros hi cur Hc p Hp; [lia|]. cbn [desc fill_end].
  destruct (raw_end (binned l) hi) as [j|] eqn:E.
  - unfold raw_end in E. apply first_index_some in E. destruct E as (kj & b & Ej & Hn & Hpb & Hfirst). rewrite Z.add_0_l in Ej.
    assert (Hfirst': forall (i:nat) a, nth_error l i = Some a -> ebin a = hi -> j <= Z.of_nat i).
    { intros i a Ha He. destruct (Nat.lt_ge_cases i kj) as [Hlt|Hge]; [|lia].
      specialize (Hfirst i (sbin a, ebin a) Hlt (map_nth_error _ _ _ Ha)). cbn [snd] in Hfirst. lia. }
    destruct (j >? cur) eqn:Ej2.
    + assert (Hj: end_ok hi cur).
      { intros i a Ha Hle. destruct (Z.eq_dec (ebin a) hi) as [He|He]; [specialize (Hfirst' i a Ha He); lia|apply (Hc i a Ha); lia]. }
      cbn [assoc]. destruct (hi =? p) eqn:Ep.
      * exists cur. split; [reflexivity|]. replace p with hi by lia. exact Hj.
      * apply IHk; [replace (hi - 1 + 1) with hi by lia; exact Hj|lia].
    + assert (Hj: end_ok hi j).
      { intros i a Ha Hle. destruct (Z.eq_dec (ebin a) hi) as [He|He]; [apply (Hfirst' i a Ha He)|specialize (Hc i a Ha ltac:(lia)); lia]. }
      cbn [assoc]. destruct (hi =? p) eqn:Ep.
      * exists j. split; [reflexivity|]. replace p with hi by lia. exact Hj.
      * apply IHk; [replace (hi - 1 + 1) with hi by lia; exact Hj|lia].
  - assert (Hj: end_ok hi cur).
    { intros i a Ha Hle. apply (Hc i a Ha). apply nth_error_In in Ha.
      pose proof (first_index_none _ _ _ E (sbin a, ebin a) (in_map _ _ _ Ha)) as Hne. cbn [snd] in Hne. lia. }
    cbn [assoc]. destruct (hi =? p) eqn:Ep.
    + exists cur. split; [reflexivity|]. replace p with hi by lia. exact Hj.
    + apply IHk; [replace (hi - 1 + 1) with hi by lia; exact Hj|lia]. Qed.

(* get_alignments(region) of the in-memory storage returns exactly the stored alignments that overlap the region (repaired code) *)
Lemma get_mem_complete : forall whole r, (forall b, In b l -> rs b < re b) -> hull_of l = Some whole -> l <> [] ->
  fst whole <= fst r -> fst r <= snd r -> snd r <= snd whole ->
  exists out, get_mem whole l r = Some out /\ forall a, In a out <-> In a l /\ py_overlaps r (span a) = true.
Proof. intros whole r Hw Hh Hne H1 H2 H3. unfold get_mem, get_mem_gen.
  destruct (hull_spec l Hne Hw) as (w' & Hh' & Hww & Hin & _). rewrite Hh in Hh'. inversion Hh'; subst w'. clear Hh'.
  destruct (iv_eq r whole) eqn:Er.
  - exists l. split; [reflexivity|]. intros a. split; [|tauto]. intros Ha. split; [exact Ha|].
    destruct (Hin a Ha). specialize (Hw a Ha). unfold iv_eq in Er. unfold py_overlaps, span. cbn [fst snd]. lia.
  - unfold mem_index. cbv zeta. cbn [fst snd]. set (first := fst whole / BIN). set (last := snd whole / BIN).
    assert (Hfl: first <= last) by (apply Z.div_le_mono; lia).
    assert (Hb1: first <= fst r / BIN <= last) by (split; apply Z.div_le_mono; lia).
    assert (Hb2: first <= snd r / BIN <= last) by (split; apply Z.div_le_mono; lia).
    destruct (fill_end_spec (Z.to_nat (last + 1 - first + 1)) (last + 1) n) with (p := fst r / BIN) as [s [Es Hs]].
    { intros i a Ha Hle. apply nth_error_In in Ha. destruct (Hin a Ha) as [_ Hle2].
      pose proof (Z.div_le_mono _ _ BIN BIN_pos Hle2) as Hd. unfold ebin in Hle. fold last in Hd. lia. }
    { lia. }
    destruct (fill_start_spec (Z.to_nat (last + 1 - first + 1)) (last + 1) n) with (p := snd r / BIN + 1) as [e [Ee He]].
    { intros i a Ha _. assert (i < length l)%nat by (apply nth_error_Some; congruence). unfold n. lia. }
    { lia. }
    fold n. rewrite Es, Ee. eexists; split; [reflexivity|]. intros a. rewrite filter_In. split.
    + intros [Ha Ho]. split; [eapply slice_incl; exact Ha|exact Ho].
    + intros [Ha Ho]. split; [|exact Ho]. apply In_nth_error in Ha. destruct Ha as [i Hi].
      apply (in_slice l i); [exact Hi|]. unfold py_overlaps, span in Ho. cbn [fst snd] in Ho. split.
      * apply (Hs i a Hi). unfold ebin. apply Z.div_le_mono; lia.
      * apply (He i a Hi). unfold sbin. pose proof (Z.div_le_mono (rs a) (snd r) BIN BIN_pos ltac:(lia)). lia. Qed.
End Index.
(* ---------------------------------------------------------------- forward_alignments: nothing lost, nothing invented *)
(* where the alignments of a sub-region come from: the BAM files (default) or the storage (--high_memory) *)
Definition source (m:mode) (file cluster:list aln) : list aln := match m with Default => file | HighMem => cluster end.

Lemma retrieve_spec m file cluster whole r :
  (m = HighMem -> sorted cluster) -> (forall b, In b cluster -> rs b < re b) -> hull_of cluster = Some whole -> cluster <> [] ->
  fst whole <= fst r -> fst r <= snd r -> snd r <= snd whole ->
  exists x, retrieve m file cluster whole r = Some x /\
    forall a, In a x <-> In a (source m file cluster) /\ py_overlaps r (span a) = true.
Proof. intros Hs Hw Hh Hne H1 H2 H3. unfold retrieve. destruct m; cbn [retrieve_gen source].
  - eexists; split; [reflexivity|]. intros a. apply get_bam_overlaps.
  - apply get_mem_complete; auto. Qed.

Lemma retrieve_all_spec m file cluster whole : forall regs,
  (forall r, In r regs -> exists x, retrieve m file cluster whole r = Some x) ->
  exists out, retrieve_all m file cluster whole regs = Some out /\ map fst out = regs /\
    forall r x, In (r, x) out -> retrieve m file cluster whole r = Some x.
Proof. unfold retrieve_all, retrieve. induction regs as [|r t IH]; intros H; cbn [retrieve_all_gen].
  - exists []. repeat split. intros ? ? [].
  - destruct (H r ltac:(left; reflexivity)) as [x Hx]. rewrite Hx.
    destruct IH as (rest & Hr & Hm & Hi); [intros; apply H; right; assumption|]. rewrite Hr.
    eexists; split; [reflexivity|]. split; [cbn; rewrite Hm; reflexivity|].
    intros r' x' [E|Hin]; [inversion E; subst; exact Hx|apply Hi, Hin]. Qed.

(* the one input shape the sub-regions of the code BEFORE fixes/C05_first_subregion_start.diff do not cover: a one-base
   alignment on the first base of a cluster that starts exactly on a bin boundary (the first sub-region started at
   COVERAGE_BIN * bin + 1) *)
Definition boundary_corner (whole:iv) (a:aln) : Prop := fst whole mod BIN = 0 /\ rs a = fst whole /\ re a = rs a + 1.
Definition lo_prev (whole:iv) : Z := Z.max (fst whole / BIN * BIN + 1) (fst whole).

Lemma not_corner_reaches whole a : fst whole <= rs a -> rs a < re a -> ~ boundary_corner whole a -> lo_prev whole <= re a - 1.
Proof. intros H1 H2 Hc. unfold boundary_corner in Hc. unfold lo_prev.
  pose proof (Z.div_mod (fst whole) BIN ltac:(lia)). pose proof (Z.mod_pos_bound (fst whole) BIN BIN_pos).
  destruct (Z.eq_dec (fst whole mod BIN) 0) as [E|E]; [|nia].
  destruct (Z.eq_dec (rs a) (fst whole)) as [E2|E2]; [|nia].
  destruct (Z.eq_dec (re a) (rs a + 1)) as [E3|E3]; [tauto|nia]. Qed.

(* the list of regions forward_alignments works through *)
Definition processed_regions (whole:iv) (regs:list iv) : list iv := match regs with [_] => [whole] | _ => regs end.

(* forward_alignments for any split function `sp` whose result is the whole region or a chain from `lo_of whole` to its end *)
Section Forward.
Variable sp : iv -> Z -> (Z -> Z) -> Z -> Z -> option (list iv).
Variable lo_of : iv -> Z.
Hypothesis sp_tile : forall r count cov first last,
  fst r <= snd r -> first = fst r / BIN -> last = snd r / BIN -> (forall p, last < p -> cov p <= ABSV) ->
  exists regs, sp r count cov first last = Some regs /\ (regs = [r] \/ chain (lo_of r) (snd r) regs).
Hypothesis lo_ge : forall r, fst r <= lo_of r.
Let fwd := forward_gen sp get_mem.

Theorem forward_spec_gen : forall m file cluster,
  cluster <> [] -> (forall b, In b cluster -> rs b < re b) -> (m = HighMem -> sorted cluster) ->
  exists whole regs out,
    hull_of cluster = Some whole /\
    sp whole (Z.of_nat (length cluster)) (cov_of cluster) (first_bin cluster) (last_bin cluster) = Some regs /\
    (regs = [whole] \/ chain (lo_of whole) (snd whole) regs) /\
    fwd m file cluster = Some out /\ map fst out = processed_regions whole regs /\
    (* returned for a region iff it overlaps the region *)
    (forall reg alns, In (reg, alns) out ->
       forall a, In a alns <-> In a (source m file cluster) /\ py_overlaps reg (span a) = true) /\
    (* every alignment of the cluster that reaches lo_of whole is returned for at least one region *)
    (forall a, In a cluster -> In a (source m file cluster) -> lo_of whole <= re a - 1 ->
       exists reg alns, In (reg, alns) out /\ In a alns) /\
    (forall b, In b cluster -> fst whole <= rs b /\ re b - 1 <= snd whole).
Proof. intros m file cluster Hne Hw Hs.
  destruct (hull_spec cluster Hne Hw) as (whole & Hh & Hww & Hin & Hfb & Hlb).
  destruct (sp_tile whole (Z.of_nat (length cluster)) (cov_of cluster) (first_bin cluster) (last_bin cluster)
              Hww Hfb Hlb (cov_of_beyond cluster)) as (regs & Hsplit & Hshape).
  pose proof (lo_ge whole) as Hlo0.
  set (lo := lo_of whole) in *.
  assert (Hinside: forall r, In r (processed_regions whole regs) -> fst whole <= fst r /\ fst r <= snd r /\ snd r <= snd whole).
  { intros r Hr. destruct Hshape as [->|Hc]; [cbn in Hr; destruct Hr as [<-|[]]; lia|].
    assert (Hr': r = whole \/ In r regs).
    { destruct regs as [|x [|y t]]; cbn [processed_regions] in Hr; [contradiction|destruct Hr as [<-|[]]; left; reflexivity|right; exact Hr]. }
    destruct Hr' as [->|Hr']; [lia|]. pose proof (chain_inside _ _ _ _ Hc Hr'). lia. }
  destruct (retrieve_all_spec m file cluster whole (processed_regions whole regs)) as (out & Hout & Hmap & Hret).
  { intros r Hr. destruct (Hinside r Hr) as (? & ? & ?).
    destruct (retrieve_spec m file cluster whole r Hs Hw Hh Hne) as [x [Hx _]]; auto. exists x; exact Hx. }
  assert (Hfwd: fwd m file cluster = Some out).
  { unfold fwd, forward_gen. rewrite Hh, Hsplit. destruct regs as [|x [|y t]]; exact Hout. }
  assert (Hiff: forall reg alns, In (reg, alns) out -> forall a, In a alns <-> In a (source m file cluster) /\ py_overlaps reg (span a) = true).
  { intros reg alns Hi. assert (Hr: In reg (processed_regions whole regs)) by (rewrite <- Hmap; apply (in_map fst) in Hi; exact Hi).
    destruct (Hinside reg Hr) as (? & ? & ?).
    destruct (retrieve_spec m file cluster whole reg Hs Hw Hh Hne) as [x [Hx Hxs]]; auto.
    rewrite (Hret _ _ Hi) in Hx. inversion Hx; subst. exact Hxs. }
  exists whole, regs, out. repeat (split; [assumption|]). split; [|exact Hin].
  intros a Ha Hsrc Hreach. destruct (Hin a Ha) as [Ha1 Ha2]. specialize (Hw a Ha).
  assert (Hreg: exists reg, In reg (processed_regions whole regs) /\ py_overlaps reg (span a) = true).
  { assert (Hov: py_overlaps whole (span a) = true) by (unfold py_overlaps, span; cbn [fst snd]; lia).
    destruct Hshape as [->|Hc]; [exists whole; split; [left; reflexivity|exact Hov]|].
    destruct (chain_covers regs lo (snd whole) (span a) Hc) as [r [Hr Hor]]; unfold span; cbn [fst snd]; try lia.
    destruct regs as [|x [|y t]]; [contradiction|exists whole; split; [left; reflexivity|exact Hov]|exists r; split; [exact Hr|exact Hor]]. }
  destruct Hreg as [reg [Hr Hor]].
  rewrite <- Hmap in Hr. apply in_map_iff in Hr. destruct Hr as [[reg' alns] [E Hi]]. cbn in E. subst reg'.
  exists reg, alns. split; [exact Hi|]. apply (Hiff reg alns Hi). split; assumption. Qed.

(* an alignment is handed to exactly the regions it overlaps: duplicates arise only across sub-region borders *)
Theorem returned_iff_overlaps_gen : forall m file cluster out reg alns a, cluster <> [] -> (forall b, In b cluster -> rs b < re b) ->
  (m = HighMem -> sorted cluster) -> fwd m file cluster = Some out -> In (reg, alns) out ->
  (In a alns <-> In a (source m file cluster) /\ py_overlaps reg (span a) = true).
Proof. intros m file cluster out reg alns a Hne Hw Hs Hf Hi.
  destruct (forward_spec_gen m file cluster Hne Hw Hs) as (whole & regs & out' & _ & _ & _ & Hf' & _ & Hiff & _).
  rewrite Hf in Hf'. inversion Hf'; subst out'. apply (Hiff reg alns Hi). Qed.
(* and the regions handed out do not overlap each other, so an alignment inside one region is returned exactly once *)
Theorem regions_disjoint_gen : forall m file cluster out i j ri rj xi xj, cluster <> [] -> (forall b, In b cluster -> rs b < re b) ->
  (m = HighMem -> sorted cluster) -> fwd m file cluster = Some out -> (i < j)%nat ->
  nth_error out i = Some (ri, xi) -> nth_error out j = Some (rj, xj) -> snd ri < fst rj.
Proof. intros m file cluster out i j ri rj xi xj Hne Hw Hs Hf Hij Hi Hj.
  destruct (forward_spec_gen m file cluster Hne Hw Hs) as (whole & regs & out' & _ & _ & Hshape & Hf' & Hmap & _ & _).
  rewrite Hf in Hf'. inversion Hf'; subst out'.
  assert (Hi': nth_error (processed_regions whole regs) i = Some ri) by (rewrite <- Hmap; rewrite nth_error_map, Hi; reflexivity).
  assert (Hj': nth_error (processed_regions whole regs) j = Some rj) by (rewrite <- Hmap; rewrite nth_error_map, Hj; reflexivity).
  destruct Hshape as [->|Hc].
  - cbn in Hj'. destruct j; [lia|]. destruct j; discriminate.
  - destruct regs as [|x [|y t]]; cbn [processed_regions] in Hi', Hj'.
    + destruct i; discriminate.
    + destruct j; [lia|]. destruct j; discriminate.
    + eapply chain_disjoint; [exact Hc|exact Hij|exact Hi'|exact Hj']. Qed.
End Forward.

(* the two instances *)
Lemma split_regions_tile_disj : forall r count cov first last,
  fst r <= snd r -> first = fst r / BIN -> last = snd r / BIN -> (forall p, last < p -> cov p <= ABSV) ->
  exists regs, split_regions r count cov first last = Some regs /\ (regs = [r] \/ chain (fst r) (snd r) regs).
Proof. intros r count cov first last H1 H2 H3 H4. destruct (split_regions_tile r count cov first last H1 H2 H3 H4) as [regs [E C]].
  exists regs. split; [exact E|right; exact C]. Qed.
Lemma split_regions_tile_prev_lo : forall r count cov first last,
  fst r <= snd r -> first = fst r / BIN -> last = snd r / BIN -> (forall p, last < p -> cov p <= ABSV) ->
  exists regs, split_regions_prev r count cov first last = Some regs /\ (regs = [r] \/ chain (lo_prev r) (snd r) regs).
Proof. intros r count cov first last H1 H2 H3 H4. destruct (split_regions_tile_prev r count cov first last H1 H2 H3 H4) as [regs [E C]].
  exists regs. split; [exact E|]. unfold lo_prev. rewrite <- H2. exact C. Qed.
Lemma lo_prev_ge r : fst r <= lo_prev r. Proof. unfold lo_prev. lia. Qed.
Lemma lo_fst_ge (r:iv) : fst r <= fst r. Proof. lia. Qed.

(* REPAIRED code: the sub-regions are a chain over the whole cluster region, every alignment is handed out *)
Theorem forward_spec : forall m file cluster,
  cluster <> [] -> (forall b, In b cluster -> rs b < re b) -> (m = HighMem -> sorted cluster) ->
  exists whole regs out,
    hull_of cluster = Some whole /\
    split_regions whole (Z.of_nat (length cluster)) (cov_of cluster) (first_bin cluster) (last_bin cluster) = Some regs /\
    chain (fst whole) (snd whole) regs /\
    forward m file cluster = Some out /\ map fst out = regs /\
    (forall reg alns, In (reg, alns) out ->
       forall a, In a alns <-> In a (source m file cluster) /\ py_overlaps reg (span a) = true) /\
    (forall a, In a cluster -> In a (source m file cluster) -> exists reg alns, In (reg, alns) out /\ In a alns).
Proof. intros m file cluster Hne Hw Hs.
  destruct (forward_spec_gen split_regions fst split_regions_tile_disj lo_fst_ge m file cluster Hne Hw Hs)
    as (whole & regs & out & Hh & Hsp & Hshape & Hf & Hmap & Hiff & Hall & Hin).
  assert (Hww: fst whole <= snd whole).
  { destruct cluster as [|b t]; [contradiction|]. destruct (Hin b ltac:(left; reflexivity)). specialize (Hw b ltac:(left; reflexivity)). lia. }
  assert (Hc: chain (fst whole) (snd whole) regs) by (destruct Hshape as [->|Hc]; [apply chain_single; exact Hww|exact Hc]).
  exists whole, regs, out. repeat (split; [assumption|]). split; [|split; [exact Hiff|]].
  - rewrite Hmap. destruct regs as [|x [|y t]]; try reflexivity. cbn [processed_regions].
    rewrite (chain_single_inv _ _ _ Hc). destruct whole; reflexivity.
  - intros a Ha Hsrc. apply Hall; [exact Ha|exact Hsrc|]. destruct (Hin a Ha). specialize (Hw a Ha). lia. Qed.

(* the two memory modes *)
Theorem no_alignment_lost_default : forall file cluster a, cluster <> [] -> (forall b, In b cluster -> rs b < re b) ->
  incl cluster file -> In a cluster ->
  exists whole out, hull_of cluster = Some whole /\ forward Default file cluster = Some out /\
    exists reg alns, In (reg, alns) out /\ In a alns.
Proof. intros file cluster a Hne Hw Hincl Ha.
  destruct (forward_spec Default file cluster Hne Hw ltac:(discriminate)) as (whole & regs & out & Hh & _ & _ & Hf & _ & _ & Hall).
  exists whole, out. repeat (split; [assumption|]). apply Hall; [exact Ha|apply Hincl, Ha]. Qed.
Theorem no_alignment_lost_highmem : forall file cluster a, cluster <> [] -> (forall b, In b cluster -> rs b < re b) ->
  sorted cluster -> In a cluster ->
  exists whole out, hull_of cluster = Some whole /\ forward HighMem file cluster = Some out /\
    exists reg alns, In (reg, alns) out /\ In a alns.
Proof. intros file cluster a Hne Hw Hs Ha.
  destruct (forward_spec HighMem file cluster Hne Hw ltac:(intros; exact Hs)) as (whole & regs & out & Hh & _ & _ & Hf & _ & _ & Hall).
  exists whole, out. repeat (split; [assumption|]). apply Hall; [exact Ha|exact Ha]. Qed.
Definition returned_iff_overlaps := returned_iff_overlaps_gen split_regions fst split_regions_tile_disj lo_fst_ge.
Definition regions_disjoint := regions_disjoint_gen split_regions fst split_regions_tile_disj lo_fst_ge.

(* the code BEFORE fixes/C05_first_subregion_start.diff: the same with the one-base corner exempted *)
Theorem forward_spec_prev : forall m file cluster,
  cluster <> [] -> (forall b, In b cluster -> rs b < re b) -> (m = HighMem -> sorted cluster) ->
  exists whole regs out,
    hull_of cluster = Some whole /\
    split_regions_prev whole (Z.of_nat (length cluster)) (cov_of cluster) (first_bin cluster) (last_bin cluster) = Some regs /\
    (regs = [whole] \/ chain (lo_prev whole) (snd whole) regs) /\
    forward_prev m file cluster = Some out /\ map fst out = processed_regions whole regs /\
    (forall reg alns, In (reg, alns) out ->
       forall a, In a alns <-> In a (source m file cluster) /\ py_overlaps reg (span a) = true) /\
    (forall a, In a cluster -> In a (source m file cluster) -> ~ boundary_corner whole a ->
       exists reg alns, In (reg, alns) out /\ In a alns).
Proof. intros m file cluster Hne Hw Hs.
  destruct (forward_spec_gen split_regions_prev lo_prev split_regions_tile_prev_lo lo_prev_ge m file cluster Hne Hw Hs)
    as (whole & regs & out & Hh & Hsp & Hshape & Hf & Hmap & Hiff & Hall & Hin).
  exists whole, regs, out. repeat (split; [assumption|]).
  intros a Ha Hsrc Hnc. apply Hall; [exact Ha|exact Hsrc|]. destruct (Hin a Ha). apply not_corner_reaches; auto. Qed.
Theorem no_alignment_lost_default_prev : forall file cluster a, cluster <> [] -> (forall b, In b cluster -> rs b < re b) ->
  incl cluster file -> In a cluster ->
  exists whole out, hull_of cluster = Some whole /\ forward_prev Default file cluster = Some out /\
    (~ boundary_corner whole a -> exists reg alns, In (reg, alns) out /\ In a alns).
Proof. intros file cluster a Hne Hw Hincl Ha.
  destruct (forward_spec_prev Default file cluster Hne Hw ltac:(discriminate)) as (whole & regs & out & Hh & _ & _ & Hf & _ & _ & Hall).
  exists whole, out. repeat (split; [assumption|]). intros Hnc. apply Hall; [exact Ha|apply Hincl, Ha|exact Hnc]. Qed.
Theorem no_alignment_lost_highmem_prev : forall file cluster a, cluster <> [] -> (forall b, In b cluster -> rs b < re b) ->
  sorted cluster -> In a cluster ->
  exists whole out, hull_of cluster = Some whole /\ forward_prev HighMem file cluster = Some out /\
    (~ boundary_corner whole a -> exists reg alns, In (reg, alns) out /\ In a alns).
Proof. intros file cluster a Hne Hw Hs Ha.
  destruct (forward_spec_prev HighMem file cluster Hne Hw ltac:(intros; exact Hs)) as (whole & regs & out & Hh & _ & _ & Hf & _ & _ & Hall).
  exists whole, out. repeat (split; [assumption|]). intros Hnc. apply Hall; [exact Ha|exact Ha|exact Hnc]. Qed.
(* ---------------------------------------------------------------- clusters of a coordinate-sorted file are separated *)
Lemma sorted_app_r : forall l1 l2, sorted (l1 ++ l2) -> sorted l2.
Proof. induction l1 as [|a t IH]; intros l2 H; [exact H|]. cbn in H. destruct H as [_ H]. apply IH, H. Qed.
Lemma sorted_app_l : forall l1 l2, sorted (l1 ++ l2) -> sorted l1.
Proof. induction l1 as [|a t IH]; intros l2 H; [exact Logic.I|]. cbn in H. destruct H as [H1 H2]. cbn. split; [|eapply IH; exact H2].
  apply Forall_app in H1. tauto. Qed.
Lemma sorted_app_le : forall l1 l2 a b, sorted (l1 ++ l2) -> In a l1 -> In b l2 -> rs a <= rs b.
Proof. induction l1 as [|x t IH]; intros l2 a b H Ha Hb; [contradiction|]. cbn in H. destruct H as [H1 H2].
  destruct Ha as [->|Ha]; [|eapply IH; eassumption]. rewrite Forall_forall in H1. apply H1. apply in_or_app. right; exact Hb. Qed.

(* every alignment of an earlier cluster ends before every alignment of a later cluster starts *)
Fixpoint separated (cs:list (list aln)) : Prop :=
  match cs with [] => True | c :: t => (forall a c' b, In a c -> In c' t -> In b c' -> re a - 1 < rs b) /\ separated t end.

Lemma process_aux_separated : forall l cur h, sorted (rev cur ++ l) -> (forall b, In b (rev cur ++ l) -> rs b < re b) ->
  h = hull_of (rev cur) -> (h = None -> cur = []) -> separated (process_aux cur h l).
Proof. induction l as [|a t IH]; intros cur h Hs Hw Hh H0; cbn [process_aux].
  - destruct h; cbn; auto. split; [intros ? ? ? ? []|exact Logic.I].
  - destruct (not_adjacent h a) eqn:E.
    + cbn [separated]. split.
      * intros x c' b Hx Hc' Hb.
        assert (Hb': In b (a :: t)).
        { assert (In b (concat (process_aux [a] (Some (hull_add None a)) t))) by (apply in_concat; exists c'; split; assumption).
          rewrite process_aux_concat in H by discriminate. exact H. }
        destruct h as [hl|]; [|discriminate]. cbn [not_adjacent] in E.
        assert (Hne: rev cur <> []) by (intros En; rewrite En in Hh; discriminate).
        destruct (hull_spec (rev cur) Hne) as (w & Hw1 & Hw2 & Hw3 & _); [intros; apply Hw; apply in_or_app; left; assumption|].
        rewrite <- Hh in Hw1. inversion Hw1; subst w. clear Hw1.
        destruct (Hw3 x Hx) as [Hx1 Hx2].
        pose proof (sorted_app_le _ _ x a Hs Hx ltac:(left; reflexivity)) as Hxa.
        assert (Hab: rs a <= rs b).
        { destruct Hb' as [->|Hb']; [lia|]. apply sorted_app_r in Hs. cbn in Hs. destruct Hs as [Hs _]. rewrite Forall_forall in Hs. apply Hs, Hb'. }
        pose proof (Hw a ltac:(apply in_or_app; right; left; reflexivity)).
        unfold py_overlaps, span in E. cbn [fst snd] in E. lia.
      * apply IH; [cbn; apply sorted_app_r in Hs; exact Hs|cbn; intros; apply Hw; apply in_or_app; right; assumption|reflexivity|discriminate].
    + apply IH; [cbn [rev]; rewrite <- app_assoc; exact Hs|cbn [rev]; rewrite <- app_assoc; exact Hw| |discriminate].
      cbn [rev]. rewrite hull_of_app, <- Hh. reflexivity. Qed.
Theorem clusters_separated : forall file, sorted file -> (forall b, In b file -> rs b < re b) -> separated (process file).
Proof. intros. apply process_aux_separated; cbn; auto. Qed.

Lemma separated_nth : forall cs i j c1 c2 a b, separated cs -> (i < j)%nat ->
  nth_error cs i = Some c1 -> nth_error cs j = Some c2 -> In a c1 -> In b c2 -> re a - 1 < rs b.
Proof. induction cs as [|c t IH]; intros i j c1 c2 a b Hs Hij Hi Hj Ha Hb; [destruct i; discriminate|].
  destruct Hs as [Hs1 Hs2]. destruct j; [lia|]. cbn in Hj. destruct i; cbn in Hi.
  - inversion Hi; subst. apply nth_error_In in Hj. apply (Hs1 a c2 b Ha Hj Hb).
  - eapply IH; [exact Hs2| |exact Hi|exact Hj|exact Ha|exact Hb]. lia. Qed.

(* in default mode the fetch for a region inside the cluster's hull returns members of this cluster only *)
Theorem fetch_only_cluster : forall file c whole r a, sorted file -> (forall b, In b file -> rs b < re b) ->
  In c (process file) -> hull_of c = Some whole -> fst whole <= fst r -> snd r <= snd whole ->
  In a (get_bam file r) -> In a c.
Proof. intros file c whole r a Hs Hw Hc Hh H1 H2 Ha.
  apply get_bam_iff in Ha. destruct Ha as (Haf & Ha1 & Ha2).
  rewrite <- (clusters_partition file) in Haf. apply in_concat in Haf. destruct Haf as [c' [Hc' Hac']].
  assert (Hne: c <> []) by (pose proof (clusters_nonempty file) as F; rewrite Forall_forall in F; apply F, Hc).
  assert (Hwc: forall b, In b c -> rs b < re b).
  { intros b Hb. apply Hw. rewrite <- (clusters_partition file). apply in_concat. exists c; split; assumption. }
  destruct (hull_spec c Hne Hwc) as (w & Hw1 & Hw2 & Hw3 & _). rewrite Hh in Hw1. inversion Hw1; subst w. clear Hw1.
  (* the hull bounds are attained *)
  assert (Hmin: exists b, In b c /\ rs b = fst whole).
  { clear - Hh Hne. destruct c as [|x t]; [contradiction|]. unfold hull_of in Hh. cbn [fold_left hull_add] in Hh. rewrite hull_fold in Hh.
    inversion Hh; subst. cbn [fst snd span]. clear. revert x. induction t as [|y t IH]; intros x; cbn [fold_left].
    - exists x. split; [left; reflexivity|reflexivity].
    - destruct (Z_le_gt_dec (rs x) (rs y)).
      + rewrite Z.min_l by lia. destruct (IH x) as [b [Hb Eb]]. exists b. split; [|exact Eb]. destruct Hb as [->|Hb]; [left; reflexivity|right; right; exact Hb].
      + rewrite Z.min_r by lia. destruct (IH y) as [b [Hb Eb]]. exists b. split; [right; exact Hb|exact Eb]. }
  assert (Hmax: exists b, In b c /\ re b - 1 = snd whole).
  { clear - Hh Hne. destruct c as [|x t]; [contradiction|]. unfold hull_of in Hh. cbn [fold_left hull_add] in Hh. rewrite hull_fold in Hh.
    inversion Hh; subst. cbn [fst snd span]. clear. revert x. induction t as [|y t IH]; intros x; cbn [fold_left].
    - exists x. split; [left; reflexivity|reflexivity].
    - destruct (Z_le_gt_dec (re y - 1) (re x - 1)).
      + rewrite Z.max_l by lia. destruct (IH x) as [b [Hb Eb]]. exists b. split; [|exact Eb]. destruct Hb as [->|Hb]; [left; reflexivity|right; right; exact Hb].
      + rewrite Z.max_r by lia. destruct (IH y) as [b [Hb Eb]]. exists b. split; [right; exact Hb|exact Eb]. }
  destruct Hmin as [b0 [Hb0 Eb0]]. destruct Hmax as [b1 [Hb1 Eb1]].
  apply In_nth_error in Hc. destruct Hc as [i Hi]. apply In_nth_error in Hc'. destruct Hc' as [j Hj].
  pose proof (clusters_separated file Hs Hw) as Hsep.
  destruct (lt_eq_lt_dec i j) as [[Hlt|Heq]|Hgt].
  - pose proof (separated_nth _ _ _ _ _ b1 a Hsep Hlt Hi Hj Hb1 Hac'). lia.
  - subst j. rewrite Hi in Hj. inversion Hj; subst. exact Hac'.
  - pose proof (separated_nth _ _ _ _ _ a b0 Hsep Hgt Hj Hi Hac' Hb0). lia. Qed.

(* every alignment of a coordinate-sorted chromosome is handed to the per-region processing at least once *)
Theorem every_alignment_forwarded : forall m file a, sorted file -> (forall b, In b file -> rs b < re b) -> In a file ->
  exists c whole out, In c (process file) /\ In a c /\ hull_of c = Some whole /\ forward m file c = Some out /\
    exists reg alns, In (reg, alns) out /\ In a alns.
Proof. intros m file a Hs Hw Ha.
  assert (Ha': In a (concat (process file))) by (rewrite clusters_partition; exact Ha).
  apply in_concat in Ha'. destruct Ha' as [c [Hc Hac]].
  assert (Hne: c <> []) by (pose proof (clusters_nonempty file) as F; rewrite Forall_forall in F; apply F, Hc).
  assert (Hincl: incl c file) by (intros b Hb; rewrite <- (clusters_partition file); apply in_concat; exists c; split; assumption).
  assert (Hsc: sorted c).
  { apply in_split in Hc. destruct Hc as (pre & post & E). pose proof (clusters_partition file) as P. rewrite E in P.
    rewrite concat_app in P. cbn [concat] in P. rewrite <- P in Hs. apply sorted_app_r in Hs. apply sorted_app_l in Hs. exact Hs. }
  destruct (forward_spec m file c Hne ltac:(intros; apply Hw, Hincl; assumption) ltac:(intros; exact Hsc))
    as (whole & regs & out & Hh & _ & _ & Hf & _ & _ & Hall).
  exists c, whole, out. repeat (split; [assumption|]). apply Hall; [exact Hac|].
  destruct m; [apply Hincl, Hac|exact Hac]. Qed.
(* and only members of the cluster come back, in either mode *)
Theorem only_cluster_members_returned : forall m file c out reg alns a, sorted file -> (forall b, In b file -> rs b < re b) ->
  In c (process file) -> forward m file c = Some out -> In (reg, alns) out -> In a alns -> In a c.
Proof. intros m file c out reg alns a Hs Hw Hc Hf Hi Ha.
  assert (Hne: c <> []) by (pose proof (clusters_nonempty file) as F; rewrite Forall_forall in F; apply F, Hc).
  assert (Hincl: incl c file) by (intros b Hb; rewrite <- (clusters_partition file); apply in_concat; exists c; split; assumption).
  assert (Hsc: sorted c).
  { pose proof Hc as Hc2. apply in_split in Hc2. destruct Hc2 as (pre & post & E). pose proof (clusters_partition file) as P. rewrite E in P.
    rewrite concat_app in P. cbn [concat] in P. rewrite <- P in Hs. apply sorted_app_r in Hs. apply sorted_app_l in Hs. exact Hs. }
  assert (Hwc: forall b, In b c -> rs b < re b) by (intros; apply Hw, Hincl; assumption).
  destruct (forward_spec m file c Hne Hwc ltac:(intros; exact Hsc)) as (whole & regs & out' & Hh & _ & Hshape & Hf' & Hmap & Hiff & _).
  rewrite Hf in Hf'. inversion Hf'; subst out'.
  apply (Hiff reg alns Hi) in Ha. destruct Ha as [Hsrc Hov]. destruct m; cbn [source] in Hsrc; [|exact Hsrc].
  assert (Hr: In reg regs) by (rewrite <- Hmap; apply (in_map fst) in Hi; exact Hi).
  assert (Hin: fst whole <= fst reg /\ snd reg <= snd whole).
  { pose proof (chain_inside _ _ _ _ Hshape Hr). lia. }
  apply (fetch_only_cluster file c whole reg a Hs Hw Hc Hh); [lia|lia|]. apply get_bam_overlaps. split; assumption. Qed.
End Model.

(* ================================================================ 6. the constants of the repository (gen/Tables.v) *)
Definition iqRN : Z := QArith_base.Qnum AP_REL_COV_VALLEY.
Definition iqRD : Z := Zpos (QArith_base.Qden AP_REL_COV_VALLEY).
(* re-proved whenever the constants are regenerated: the hypotheses of the generic theorems *)
Lemma iq_bin_pos : 0 < AP_COVERAGE_BIN. Proof. reflexivity. Qed.
Lemma iq_absv_nonneg : 0 <= AP_ABS_COV_VALLEY. Proof. discriminate. Qed.

Definition iq_split_regions := split_regions AP_COVERAGE_BIN AP_MAX_REGION_LEN AP_MIN_READS_TO_SPLIT AP_ABS_COV_VALLEY iqRN iqRD.
Definition iq_split_regions_cur := split_regions_cur AP_COVERAGE_BIN AP_MAX_REGION_LEN AP_MIN_READS_TO_SPLIT AP_ABS_COV_VALLEY iqRN iqRD.
Definition iq_forward := forward AP_COVERAGE_BIN AP_MAX_REGION_LEN AP_MIN_READS_TO_SPLIT AP_ABS_COV_VALLEY iqRN iqRD.
Definition iq_forward_cur := forward_cur AP_COVERAGE_BIN AP_MAX_REGION_LEN AP_MIN_READS_TO_SPLIT AP_ABS_COV_VALLEY iqRN iqRD.
Definition iq_split_regions_prev := split_regions_prev AP_COVERAGE_BIN AP_MAX_REGION_LEN AP_MIN_READS_TO_SPLIT AP_ABS_COV_VALLEY iqRN iqRD.
Definition iq_forward_prev := forward_prev AP_COVERAGE_BIN AP_MAX_REGION_LEN AP_MIN_READS_TO_SPLIT AP_ABS_COV_VALLEY iqRN iqRD.
Definition iq_corner := boundary_corner AP_COVERAGE_BIN.
Definition iq_split_regions_tile_prev := split_regions_tile_prev AP_COVERAGE_BIN AP_MAX_REGION_LEN AP_MIN_READS_TO_SPLIT AP_ABS_COV_VALLEY iqRN iqRD iq_bin_pos.
Definition iq_no_alignment_lost_default_prev :=
  no_alignment_lost_default_prev AP_COVERAGE_BIN AP_MAX_REGION_LEN AP_MIN_READS_TO_SPLIT AP_ABS_COV_VALLEY iqRN iqRD iq_bin_pos iq_absv_nonneg.
Definition iq_no_alignment_lost_highmem_prev :=
  no_alignment_lost_highmem_prev AP_COVERAGE_BIN AP_MAX_REGION_LEN AP_MIN_READS_TO_SPLIT AP_ABS_COV_VALLEY iqRN iqRD iq_bin_pos iq_absv_nonneg.

Definition iq_split_regions_tile := split_regions_tile AP_COVERAGE_BIN AP_MAX_REGION_LEN AP_MIN_READS_TO_SPLIT AP_ABS_COV_VALLEY iqRN iqRD iq_bin_pos.
Definition iq_no_alignment_lost_default :=
  no_alignment_lost_default AP_COVERAGE_BIN AP_MAX_REGION_LEN AP_MIN_READS_TO_SPLIT AP_ABS_COV_VALLEY iqRN iqRD iq_bin_pos iq_absv_nonneg.
Definition iq_no_alignment_lost_highmem :=
  no_alignment_lost_highmem AP_COVERAGE_BIN AP_MAX_REGION_LEN AP_MIN_READS_TO_SPLIT AP_ABS_COV_VALLEY iqRN iqRD iq_bin_pos iq_absv_nonneg.
Definition iq_returned_iff_overlaps :=
  returned_iff_overlaps AP_COVERAGE_BIN AP_MAX_REGION_LEN AP_MIN_READS_TO_SPLIT AP_ABS_COV_VALLEY iqRN iqRD iq_bin_pos iq_absv_nonneg.
Definition iq_regions_disjoint :=
  regions_disjoint AP_COVERAGE_BIN AP_MAX_REGION_LEN AP_MIN_READS_TO_SPLIT AP_ABS_COV_VALLEY iqRN iqRD iq_bin_pos iq_absv_nonneg.
Definition iq_every_alignment_forwarded :=
  every_alignment_forwarded AP_COVERAGE_BIN AP_MAX_REGION_LEN AP_MIN_READS_TO_SPLIT AP_ABS_COV_VALLEY iqRN iqRD iq_bin_pos iq_absv_nonneg.
Definition iq_only_cluster_members_returned :=
  only_cluster_members_returned AP_COVERAGE_BIN AP_MAX_REGION_LEN AP_MIN_READS_TO_SPLIT AP_ABS_COV_VALLEY iqRN iqRD iq_bin_pos iq_absv_nonneg.

(* ================================================================ 7. witnesses (real constants) *)
Definition block (s e:Z) (id0:Z) (n:nat) : list aln := map (fun i => (s, e, id0 + Z.of_nat i)) (seq 0 n).
Definition returned_ids (out:option (list (iv * list aln))) : list Z :=
  match out with None => [] | Some o => flat_map (fun ra => map (fun a => snd a) (snd ra)) o end.
Definition out_regions (out:option (list (iv * list aln))) : list iv := match out with None => [] | Some o => map fst o end.

(* two deep blocks joined by one alignment (valley at bin 149), then coverage dropping to 2 of 306 on the last bin (283),
   where alignment 9999 starts: before the repair the last bin gets no region *)
Definition w_tail : list aln :=
  block 5000 38000 0 300 ++ [(37900, 39000, 1000)] ++ block 38900 72000 2000 300 ++ block 71900 72440 3000 4
  ++ [(72300, 72460, 4000); (72450, 72500, 9999)].
Example last_bin_refuted :
  out_regions (iq_forward_cur Default w_tail w_tail) = [(5000, 38144); (38145, 72448)] /\
  existsb (Z.eqb 9999) (returned_ids (iq_forward_cur Default w_tail w_tail)) = false.
Proof. vm_compute. split; reflexivity. Qed.
Example last_bin_repaired :
  out_regions (iq_forward Default w_tail w_tail) = [(5000, 38144); (38145, 72448); (72449, 72499)] /\
  existsb (Z.eqb 9999) (returned_ids (iq_forward Default w_tail w_tail)) = true /\
  existsb (Z.eqb 9999) (returned_ids (iq_forward HighMem w_tail w_tail)) = true.
Proof. vm_compute. repeat split; reflexivity. Qed.
(* the in-memory index before the repair: with correct regions, whatever starts in the last bin of a sub-region is skipped *)
Example inmemory_end_bin_refuted :
  existsb (Z.eqb 9999)
    (returned_ids (forward_gen AP_COVERAGE_BIN iq_split_regions (get_mem_cur AP_COVERAGE_BIN) HighMem w_tail w_tail)) = false.
Proof. vm_compute. reflexivity. Qed.
(* 1100 alignments inside one bin: before the repair no region at all *)
Definition w_pile : list aln := block 4900 5000 0 1100.
Example single_bin_refuted : iq_forward_cur Default w_pile w_pile = Some [] /\ iq_forward_cur HighMem w_pile w_pile = Some [].
Proof. vm_compute. split; reflexivity. Qed.
Example single_bin_repaired : out_regions (iq_forward Default w_pile w_pile) = [(4900, 4999)] /\
  length (returned_ids (iq_forward Default w_pile w_pile)) = 1100%nat /\ length (returned_ids (iq_forward HighMem w_pile w_pile)) = 1100%nat.
Proof. vm_compute. repeat split; reflexivity. Qed.
(* before fixes/C05_first_subregion_start.diff: a one-base alignment on the first base of a cluster that starts on a bin boundary *)
Definition w_corner : list aln :=
  [(5120, 5121, 7777)] ++ block 5120 38000 0 300 ++ [(37900, 39000, 1000)] ++ block 38900 72000 2000 300.
Example boundary_corner_refuted :
  out_regions (iq_forward_prev Default w_corner w_corner) = [(5121, 38144); (38145, 71999)] /\
  existsb (Z.eqb 7777) (returned_ids (iq_forward_prev Default w_corner w_corner)) = false /\
  existsb (Z.eqb 7777) (returned_ids (iq_forward_prev HighMem w_corner w_corner)) = false /\
  iq_corner (5120, 71999) (5120, 5121, 7777).
Proof. vm_compute. repeat split; reflexivity. Qed.
(* after it: the first sub-region starts on the first base of the cluster *)
Example boundary_corner_repaired :
  out_regions (iq_forward Default w_corner w_corner) = [(5120, 38144); (38145, 71999)] /\
  existsb (Z.eqb 7777) (returned_ids (iq_forward Default w_corner w_corner)) = true /\
  existsb (Z.eqb 7777) (returned_ids (iq_forward HighMem w_corner w_corner)) = true.
Proof. vm_compute. repeat split; reflexivity. Qed.
(* a cluster of >= MIN_READS_TO_SPLIT one-base alignments on a bin boundary: before the repair no region at all *)
Definition w_corner_pile : list aln := block 5120 5121 0 1100.
Example boundary_pile_refuted : iq_forward_prev Default w_corner_pile w_corner_pile = Some [].
Proof. vm_compute. reflexivity. Qed.
Example boundary_pile_repaired : out_regions (iq_forward Default w_corner_pile w_corner_pile) = [(5120, 5120)] /\
  length (returned_ids (iq_forward Default w_corner_pile w_corner_pile)) = 1100%nat.
Proof. vm_compute. split; reflexivity. Qed.
