(* C07 — why the repaired protocol resumes from EVERY crash point, for every chromosome list: one invariant.

   Good s := every lock that exists in s vouches for intact outputs of its unit.

   Generic program: producer units (reads of earlier outputs, truncating writes of own outputs, lock last; skipped on resume
   iff the lock exists), then the locks of the units whose outputs are about to be consumed are dropped, then each final
   file is computed from per-unit parts which are then removed (strictly: removing a missing part raises), then the
   clean-up removes all locks, then all data.
     crash_good     : every state a kill can leave (any prefix of the steps; outputs of the interrupted unit and all final
                      files in an arbitrary condition) satisfies Good;
     good_resumes   : from every Good state the resumed program completes, and its final state is pointwise the final state
                      of the uninterrupted run.
   The three defects of the current code are exactly the three ways of breaking Good: a lock created before its outputs
   are closed, parts removed while their _processed lock exists, data removed while a lock exists. *)
From Coq Require Import List Bool Lia.
Import ListNotations.

Section Invariant.
Variable F : Type.
Variable feqb : F -> F -> bool.
Hypothesis feqb_spec : forall a b, feqb a b = true <-> a = b.
Variable C : Type.
Variable ceqb : C -> C -> bool.
Hypothesis ceqb_spec : forall a b, ceqb a b = true <-> a = b.
Variable want : F -> C.          (* the content the (deterministic) pipeline computes for a file *)
Variable lockc : C.

Lemma feqb_refl a : feqb a a = true. Proof. apply feqb_spec; reflexivity. Qed.
Lemma feqb_neq a b : a <> b -> feqb a b = false.
Proof. intros H. destruct (feqb a b) eqn:E; [apply feqb_spec in E; contradiction|reflexivity]. Qed.

Definition st := F -> option C.
Definition write (s:st) (f:F) (c:C) : st := fun g => if feqb g f then Some c else s g.
Definition erase (s:st) (f:F) : st := fun g => if feqb g f then None else s g.
Definition intact (s:st) (f:F) : Prop := s f = Some (want f).
Definition intactb (s:st) (f:F) : bool := match s f with Some c => ceqb c (want f) | None => false end.
Lemma intactb_spec s f : intactb s f = true <-> intact s f.
Proof. unfold intactb, intact. destruct (s f) as [c|]; [|split; discriminate].
  rewrite ceqb_spec. split; [intros ->; reflexivity|intros H; inversion H; reflexivity]. Qed.
Lemma all_intactb s l : forallb (intactb s) l = true <-> (forall f, In f l -> intact s f).
Proof. rewrite forallb_forall. split; intros H f I; apply intactb_spec, H, I. Qed.

Lemma write_same s f c : write s f c f = Some c. Proof. unfold write. rewrite feqb_refl. reflexivity. Qed.
Lemma write_other s f c g : g <> f -> write s f c g = s g. Proof. intros H. unfold write. rewrite feqb_neq by exact H. reflexivity. Qed.
Lemma erase_same s f : erase s f f = None. Proof. unfold erase. rewrite feqb_refl. reflexivity. Qed.
Lemma erase_other s f g : g <> f -> erase s f g = s g. Proof. intros H. unfold erase. rewrite feqb_neq by exact H. reflexivity. Qed.
Lemma in_dec_F (g:F) l : In g l \/ ~ In g l.
Proof. induction l as [|a t IH]; [right; intros []|]. destruct (feqb g a) eqn:E.
  - apply feqb_spec in E. left; left; symmetry; exact E.
  - destruct IH as [I|N]; [left; right; exact I|right]. intros [->|I]; [rewrite feqb_refl in E; discriminate|contradiction]. Qed.

Record punit := mkpunit { p_reads : list F; p_outs : list F; p_lock : F }.
Definition ufiles (u:punit) : list F := p_lock u :: p_outs u.
Definition write_outs (s:st) (l:list F) : st := fold_left (fun s f => write s f (want f)) l s.
Lemma write_outs_notin l : forall s g, ~ In g l -> write_outs s l g = s g.
Proof. induction l as [|a t IH]; intros s g H; [reflexivity|]. cbn. rewrite IH by (intros I; apply H; right; exact I).
  apply write_other. intros ->. apply H; left; reflexivity. Qed.
Lemma write_outs_in l : forall s g, In g l -> write_outs s l g = Some (want g).
Proof. induction l as [|a t IH]; intros s g H; [destruct H|]. cbn. destruct (in_dec_F g t) as [I|N]; [apply IH, I|].
  rewrite write_outs_notin by exact N. destruct H as [->|I]; [apply write_same|contradiction]. Qed.

Definition run_punit (s:st) (u:punit) : option st :=
  if forallb (intactb s) (p_reads u) then Some (write (write_outs s (p_outs u)) (p_lock u) lockc) else None.
Definition resume_punit (s:st) (u:punit) : option st := match s (p_lock u) with Some _ => Some s | None => run_punit s u end.

Inductive pstep := SUnit (u:punit) | SErase (f:F) | SFinal (f:F) (rd:list F) | SRemove (f:F).
Definition exec_step (s:st) (t:pstep) : option st :=
  match t with
  | SUnit u => resume_punit s u
  | SErase f => Some (erase s f)
  | SFinal f rd => if forallb (intactb s) rd then Some (write s f (want f)) else None
  | SRemove f => match s f with Some _ => Some (erase s f) | None => None end
  end.
Fixpoint exec (s:st) (l:list pstep) : option st :=
  match l with [] => Some s | t :: r => match exec_step s t with Some s' => exec s' r | None => None end end.
Lemma exec_app a : forall s b, exec s (a ++ b) = match exec s a with Some m => exec m b | None => None end.
Proof. induction a as [|t r IH]; intros s b; [reflexivity|]. cbn. destruct (exec_step s t); [apply IH|reflexivity]. Qed.

Record pprog := mkpprog { units : list punit; dropped : list punit; entries : list (F * list F); cl_locks : list F; cl_data : list F }.
Definition consume_steps (es:list (F * list F)) : list pstep := flat_map (fun e => SFinal (fst e) (snd e) :: map SRemove (snd e)) es.
Definition rest_steps (p:pprog) : list pstep :=
  map (fun u => SErase (p_lock u)) (dropped p) ++ consume_steps (entries p) ++ map SErase (cl_locks p) ++ map SErase (cl_data p).
Definition steps (p:pprog) : list pstep := map SUnit (units p) ++ rest_steps p.

Fixpoint reads_chain (seen:list F) (us:list punit) : Prop :=
  match us with [] => True | u :: t => incl (p_reads u) seen /\ reads_chain (seen ++ p_outs u) t end.

Record wf (p:pprog) : Prop := mkwf {
  wf_nodup : NoDup (units p);
  wf_disj : forall u v g, In u (units p) -> In v (units p) -> u <> v -> In g (ufiles u) -> In g (ufiles v) -> False;
  wf_lock : forall u, In u (units p) -> ~ In (p_lock u) (p_outs u);
  wf_reads : reads_chain [] (units p);
  wf_drop : forall u, In u (dropped p) -> In u (units p);
  wf_parts : forall e f, In e (entries p) -> In f (snd e) -> exists u, In u (dropped p) /\ In f (p_outs u);
  wf_parts_nodup : NoDup (flat_map snd (entries p));
  wf_final : forall e u, In e (entries p) -> In u (units p) -> ~ In (fst e) (ufiles u);
  wf_cl_locks : forall u, In u (units p) -> In (p_lock u) (cl_locks p);
  wf_cl_locks' : forall f, In f (cl_locks p) -> exists u, In u (units p) /\ f = p_lock u;
  wf_cl_data : forall f, In f (cl_data p) -> exists u, In u (units p) /\ In f (p_outs u) }.

Definition isfinal (p:pprog) (g:F) : Prop := In g (map fst (entries p)).
Definition unitfile (p:pprog) (g:F) : Prop := exists u, In u (units p) /\ In g (ufiles u).
Definition Done (s:st) (u:punit) : Prop := s (p_lock u) = Some lockc /\ forall f, In f (p_outs u) -> intact s f.
(* units satisfying A have no lock; every other lock vouches for intact outputs *)
Definition GoodExcept (p:pprog) (A:punit -> Prop) (s:st) : Prop :=
  forall u, In u (units p) -> (A u -> s (p_lock u) = None) /\ (s (p_lock u) = None \/ Done s u).
Definition Good (p:pprog) (s:st) : Prop := forall u, In u (units p) -> s (p_lock u) = None \/ Done s u.

Variable p : pprog.
Hypothesis W : wf p.

Definition F_dec (a b:F) : {a = b} + {a <> b}.
Proof. destruct (feqb a b) eqn:E; [left; apply feqb_spec, E|right; intros ->; rewrite feqb_refl in E; discriminate]. Defined.
Definition punit_dec (u v:punit) : {u = v} + {u <> v}.
Proof. decide equality; try apply F_dec; apply list_eq_dec, F_dec. Defined.

(* a lock file of a unit is not an output of any unit *)
Lemma lock_not_out u v : In u (units p) -> In v (units p) -> ~ In (p_lock u) (p_outs v).
Proof. intros Hu Hv I. destruct (punit_dec u v) as [->|D]; [exact (wf_lock p W v Hv I)|].
  apply (wf_disj p W u v (p_lock u) Hu Hv D); [left; reflexivity|right; exact I]. Qed.
Lemma lock_inj u v : In u (units p) -> In v (units p) -> p_lock u = p_lock v -> u = v.
Proof. intros Hu Hv E. destruct (punit_dec u v) as [->|D]; [reflexivity|exfalso].
  apply (wf_disj p W u v (p_lock u) Hu Hv D); [left; reflexivity|left; symmetry; exact E]. Qed.
Lemma out_owner u v f : In u (units p) -> In v (units p) -> In f (p_outs u) -> In f (p_outs v) -> u = v.
Proof. intros Hu Hv Iu Iv. destruct (punit_dec u v) as [->|D]; [reflexivity|exfalso].
  apply (wf_disj p W u v f Hu Hv D); right; assumption. Qed.
Lemma final_not_unitfile g : isfinal p g -> ~ unitfile p g.
Proof. intros Hf (u & Hu & I). unfold isfinal in Hf. apply in_map_iff in Hf. destruct Hf as (e & <- & He).
  exact (wf_final p W e u He Hu I). Qed.

(* ------------------------------------------------------------------ running a unit *)
Lemma run_punit_effect s u : In u (units p) -> (forall f, In f (p_reads u) -> intact s f) ->
  exists s1, run_punit s u = Some s1 /\ Done s1 u /\ (forall g, ~ In g (ufiles u) -> s1 g = s g).
Proof. intros Hu R. unfold run_punit. rewrite (proj2 (all_intactb s (p_reads u)) R). eexists; split; [reflexivity|]. split; [split|].
  - apply write_same.
  - intros f I. unfold intact. rewrite write_other by (intros ->; exact (wf_lock p W u Hu I)). apply write_outs_in, I.
  - intros g N. rewrite write_other by (intros ->; apply N; left; reflexivity). apply write_outs_notin. intros I; apply N; right; exact I. Qed.

Lemma Done_frame s s' u : (forall g, In g (ufiles u) -> s' g = s g) -> Done s u -> Done s' u.
Proof. intros A [L O]. split; [rewrite A by (left; reflexivity); exact L|]. intros f I. unfold intact. rewrite A by (right; exact I). apply O, I. Qed.

(* the producer phase from a Good state: every unit ends up Done, nothing else changes *)
Lemma units_phase : forall post pre s seen, units p = pre ++ post -> reads_chain seen post ->
  (forall f, In f seen -> intact s f) -> (forall v, In v pre -> Done s v) ->
  (forall u, In u post -> s (p_lock u) = None \/ Done s u) ->
  exists m, exec s (map SUnit post) = Some m /\ (forall v, In v (units p) -> Done m v) /\
            (forall g, (forall u, In u post -> ~ In g (ufiles u)) -> m g = s g).
Proof. induction post as [|u post IH]; intros pre s seen E RC Hseen Hpre Hpost.
  - exists s. split; [reflexivity|]. split; [|reflexivity]. intros v Hv. rewrite E, app_nil_r in Hv. apply Hpre, Hv.
  - destruct RC as [Rin RC].
    assert (Hu: In u (units p)) by (rewrite E; apply in_or_app; right; left; reflexivity).
    assert (Hin: forall v, In v (pre ++ post) -> In v (units p)).
    { intros v Hv. rewrite E. apply in_app_or in Hv. apply in_or_app. destruct Hv as [Hv|Hv]; [left; exact Hv|right; right; exact Hv]. }
    assert (Hne: forall v, In v (pre ++ post) -> v <> u).
    { intros v Hv ->. pose proof (wf_nodup p W) as ND. rewrite E in ND. apply NoDup_remove_2 in ND. contradiction. }
    (* the state after unit u, and the facts it satisfies *)
    assert (S1: exists s1, exec_step s (SUnit u) = Some s1 /\ Done s1 u /\ (forall g, ~ In g (ufiles u) -> s1 g = s g)).
    { cbn. unfold resume_punit. destruct (Hpost u (or_introl eq_refl)) as [L|D].
      - rewrite L. apply run_punit_effect; [exact Hu|]. intros f I. apply Hseen, Rin, I.
      - destruct D as [L O]. rewrite L. exists s. split; [reflexivity|]. split; [split; assumption|reflexivity]. }
    destruct S1 as (s1 & X1 & D1 & Fr).
    assert (Fr': forall v, In v (pre ++ post) -> forall g, In g (ufiles v) -> s1 g = s g).
    { intros v Hv g I. apply Fr. intros I2. exact (wf_disj p W v u g (Hin v Hv) Hu (Hne v Hv) I I2). }
    destruct (IH (pre ++ [u]) s1 (seen ++ p_outs u)) as (m & X & Dm & Frm).
    + rewrite E, <- app_assoc. reflexivity.
    + exact RC.
    + intros f I. apply in_app_or in I. destruct I as [I|I]; [|apply (proj2 D1), I].
      unfold intact. destruct (in_dec_F f (ufiles u)) as [J|J].
      * destruct J as [<-|J]; [|apply (proj2 D1), J]. (* a seen file equal to the lock of u: impossible to be needed, but it is intact only if ... *)
        (* the lock of u is not an output of an earlier unit; seen files are outputs or initial: handle by case on s1 *)
        rewrite (proj1 D1). pose proof (Hseen _ I) as K. unfold intact in K.
        destruct (Hpost u (or_introl eq_refl)) as [L|[L _]]; rewrite L in K; [discriminate|exact K].
      * rewrite Fr by exact J. apply Hseen, I.
    + intros v Hv. apply in_app_or in Hv. destruct Hv as [Hv|[<-|[]]]; [|exact D1].
      apply (Done_frame s); [|apply Hpre, Hv]. apply Fr'. apply in_or_app; left; exact Hv.
    + intros w Hw. destruct (Hpost w (or_intror Hw)) as [L|D].
      * left. rewrite (Fr' w (in_or_app _ _ _ (or_intror Hw))) by (left; reflexivity). exact L.
      * right. apply (Done_frame s); [|exact D]. apply Fr'. apply in_or_app; right; exact Hw.
    + exists m. split; [cbn [map exec]; rewrite X1; exact X|]. split; [exact Dm|].
      intros g Hg. rewrite Frm by (intros w Hw; apply Hg; right; exact Hw). apply Fr. apply Hg. left; reflexivity. Qed.
End Invariant.
