(* C07 — why the repaired protocol resumes from EVERY crash point, for every chromosome list: one invariant.

   Good s := every lock that exists in s vouches for intact outputs of its unit.

   Generic program: producer units (reads of earlier outputs, truncating writes of own outputs, lock last; skipped on resume
   iff the lock exists), then the locks of the units whose outputs are about to be consumed are dropped, then each final
   file is computed from per-unit parts which are then removed (strictly: removing a missing part raises), then the
   clean-up removes all locks, then all data.
     crash_good     : every state a kill can leave (any prefix of the steps; outputs of the interrupted unit and all final
                      files in an arbitrary condition) satisfies Good;
     good_resumes   : from every Good state the resumed program completes, and its final state is pointwise the final state
                      of the uninterrupted run.
   The three defects of the current code are exactly the three ways of breaking Good: a lock created before its outputs
   are closed, parts removed while their _processed lock exists, data removed while a lock exists. *)
From Coq Require Import List Bool Lia.
Import ListNotations.

Section Invariant.
Variable F : Type.
Variable feqb : F -> F -> bool.
Hypothesis feqb_spec : forall a b, feqb a b = true <-> a = b.
Variable C : Type.
Variable ceqb : C -> C -> bool.
Hypothesis ceqb_spec : forall a b, ceqb a b = true <-> a = b.
Variable want : F -> C.          (* the content the (deterministic) pipeline computes for a file *)
Variable lockc : C.

Lemma feqb_refl a : feqb a a = true. Proof. apply feqb_spec; reflexivity. Qed.
Lemma feqb_neq a b : a <> b -> feqb a b = false.
Proof. intros H. destruct (feqb a b) eqn:E; [apply feqb_spec in E; contradiction|reflexivity]. Qed.

Definition st := F -> option C.
Definition write (s:st) (f:F) (c:C) : st := fun g => if feqb g f then Some c else s g.
Definition erase (s:st) (f:F) : st := fun g => if feqb g f then None else s g.
Definition intact (s:st) (f:F) : Prop := s f = Some (want f).
Definition intactb (s:st) (f:F) : bool := match s f with Some c => ceqb c (want f) | None => false end.
Lemma intactb_spec s f : intactb s f = true <-> intact s f.
Proof. unfold intactb, intact. destruct (s f) as [c|]; [|split; discriminate].
  rewrite ceqb_spec. split; [intros ->; reflexivity|intros H; inversion H; reflexivity]. Qed.
Lemma all_intactb s l : forallb (intactb s) l = true <-> (forall f, In f l -> intact s f).
Proof. rewrite forallb_forall. split; intros H f I; apply intactb_spec, H, I. Qed.

Lemma write_same s f c : write s f c f = Some c. Proof. unfold write. rewrite feqb_refl. reflexivity. Qed.
Lemma write_other s f c g : g <> f -> write s f c g = s g. Proof. intros H. unfold write. rewrite feqb_neq by exact H. reflexivity. Qed.
Lemma erase_same s f : erase s f f = None. Proof. unfold erase. rewrite feqb_refl. reflexivity. Qed.
Lemma erase_other s f g : g <> f -> erase s f g = s g. Proof. intros H. unfold erase. rewrite feqb_neq by exact H. reflexivity. Qed.
Lemma in_dec_F (g:F) l : In g l \/ ~ In g l.
Proof. induction l as [|a t IH]; [right; intros []|]. destruct (feqb g a) eqn:E.
  - apply feqb_spec in E. left; left; symmetry; exact E.
  - destruct IH as [I|N]; [left; right; exact I|right]. intros [->|I]; [rewrite feqb_refl in E; discriminate|contradiction]. Qed.

Record punit := mkpunit { p_reads : list F; p_outs : list F; p_lock : F }.
Definition ufiles (u:punit) : list F := p_lock u :: p_outs u.
Definition write_outs (s:st) (l:list F) : st := fold_left (fun s f => write s f (want f)) l s.
Lemma write_outs_cons s a t : write_outs s (a :: t) = write_outs (write s a (want a)) t.
Proof. reflexivity. Qed.
Lemma write_outs_notin l : forall s g, ~ In g l -> write_outs s l g = s g.
Proof. induction l as [|a t IH]; intros s g H; [reflexivity|]. rewrite write_outs_cons. rewrite IH by (intros I; apply H; right; exact I).
  apply write_other. intros ->. apply H; left; reflexivity. Qed.
Lemma write_outs_in l : forall s g, In g l -> write_outs s l g = Some (want g).
Proof. induction l as [|a t IH]; intros s g H; [destruct H|]. rewrite write_outs_cons. destruct (in_dec_F g t) as [I|N]; [apply IH, I|].
  rewrite write_outs_notin by exact N. destruct H as [->|I]; [apply write_same|contradiction]. Qed.

Definition run_punit (s:st) (u:punit) : option st :=
  if forallb (intactb s) (p_reads u) then Some (write (write_outs s (p_outs u)) (p_lock u) lockc) else None.
Definition resume_punit (s:st) (u:punit) : option st := match s (p_lock u) with Some _ => Some s | None => run_punit s u end.

Inductive pstep := SUnit (u:punit) | SErase (f:F) | SFinal (f:F) (rd:list F) | SRemove (f:F).
Definition exec_step (s:st) (t:pstep) : option st :=
  match t with
  | SUnit u => resume_punit s u
  | SErase f => Some (erase s f)
  | SFinal f rd => if forallb (intactb s) rd then Some (write s f (want f)) else None
  | SRemove f => match s f with Some _ => Some (erase s f) | None => None end
  end.
Fixpoint exec (s:st) (l:list pstep) : option st :=
  match l with [] => Some s | t :: r => match exec_step s t with Some s' => exec s' r | None => None end end.
Lemma exec_app a : forall s b, exec s (a ++ b) = match exec s a with Some m => exec m b | None => None end.
Proof. induction a as [|t r IH]; intros s b; [reflexivity|]. cbn. destruct (exec_step s t); [apply IH|reflexivity]. Qed.

Record pprog := mkpprog { units : list punit; dropped : list punit; entries : list (F * list F); cl_locks : list F; cl_data : list F }.
Definition consume_steps (es:list (F * list F)) : list pstep := flat_map (fun e => SFinal (fst e) (snd e) :: map SRemove (snd e)) es.
Definition rest_steps (p:pprog) : list pstep :=
  map (fun u => SErase (p_lock u)) (dropped p) ++ consume_steps (entries p) ++ map SErase (cl_locks p) ++ map SErase (cl_data p).
Definition steps (p:pprog) : list pstep := map SUnit (units p) ++ rest_steps p.

Fixpoint reads_chain (seen:list F) (us:list punit) : Prop :=
  match us with [] => True | u :: t => incl (p_reads u) seen /\ reads_chain (seen ++ p_outs u) t end.

Record wf (p:pprog) : Prop := mkwf {
  wf_nodup : NoDup (units p);
  wf_disj : forall u v g, In u (units p) -> In v (units p) -> u <> v -> In g (ufiles u) -> In g (ufiles v) -> False;
  wf_lock : forall u, In u (units p) -> ~ In (p_lock u) (p_outs u);
  wf_reads : reads_chain [] (units p);
  wf_drop : forall u, In u (dropped p) -> In u (units p);
  wf_parts : forall e f, In e (entries p) -> In f (snd e) -> exists u, In u (dropped p) /\ In f (p_outs u);
  wf_parts_nodup : NoDup (flat_map snd (entries p));
  wf_final : forall e u, In e (entries p) -> In u (units p) -> ~ In (fst e) (ufiles u);
  wf_cl_locks : forall u, In u (units p) -> In (p_lock u) (cl_locks p);
  wf_cl_locks' : forall f, In f (cl_locks p) -> exists u, In u (units p) /\ f = p_lock u;
  wf_cl_data : forall f, In f (cl_data p) -> exists u, In u (units p) /\ In f (p_outs u) }.

Definition isfinal (p:pprog) (g:F) : Prop := In g (map fst (entries p)).
Definition unitfile (p:pprog) (g:F) : Prop := exists u, In u (units p) /\ In g (ufiles u).
Definition Done (s:st) (u:punit) : Prop := s (p_lock u) = Some lockc /\ forall f, In f (p_outs u) -> intact s f.
(* units satisfying A have no lock; every other lock vouches for intact outputs *)
Definition GoodExcept (p:pprog) (A:punit -> Prop) (s:st) : Prop :=
  forall u, In u (units p) -> (A u -> s (p_lock u) = None) /\ (s (p_lock u) = None \/ Done s u).
Definition Good (p:pprog) (s:st) : Prop := forall u, In u (units p) -> s (p_lock u) = None \/ Done s u.

Variable p : pprog.
Hypothesis W : wf p.

Definition F_dec (a b:F) : {a = b} + {a <> b}.
Proof. destruct (feqb a b) eqn:E; [left; apply feqb_spec, E|right; intros ->; rewrite feqb_refl in E; discriminate]. Defined.
Definition punit_dec (u v:punit) : {u = v} + {u <> v}.
Proof. decide equality; try apply F_dec; apply list_eq_dec, F_dec. Defined.

(* a lock file of a unit is not an output of any unit *)
Lemma lock_not_out u v : In u (units p) -> In v (units p) -> ~ In (p_lock u) (p_outs v).
Proof. intros Hu Hv I. destruct (punit_dec u v) as [->|D]; [exact (wf_lock p W v Hv I)|].
  apply (wf_disj p W u v (p_lock u) Hu Hv D); [left; reflexivity|right; exact I]. Qed.
Lemma lock_inj u v : In u (units p) -> In v (units p) -> p_lock u = p_lock v -> u = v.
Proof. intros Hu Hv E. destruct (punit_dec u v) as [->|D]; [reflexivity|exfalso].
  apply (wf_disj p W u v (p_lock u) Hu Hv D); [left; reflexivity|left; symmetry; exact E]. Qed.
Lemma out_owner u v f : In u (units p) -> In v (units p) -> In f (p_outs u) -> In f (p_outs v) -> u = v.
Proof. intros Hu Hv Iu Iv. destruct (punit_dec u v) as [->|D]; [reflexivity|exfalso].
  apply (wf_disj p W u v f Hu Hv D); right; assumption. Qed.
Lemma final_not_unitfile g : isfinal p g -> ~ unitfile p g.
Proof. intros Hf (u & Hu & I). unfold isfinal in Hf. apply in_map_iff in Hf. destruct Hf as (e & <- & He).
  exact (wf_final p W e u He Hu I). Qed.

(* ------------------------------------------------------------------ running a unit *)
Lemma run_punit_effect s u : In u (units p) -> (forall f, In f (p_reads u) -> intact s f) ->
  exists s1, run_punit s u = Some s1 /\ Done s1 u /\ (forall g, ~ In g (ufiles u) -> s1 g = s g).
Proof. intros Hu R. unfold run_punit. rewrite (proj2 (all_intactb s (p_reads u)) R). eexists; split; [reflexivity|]. split; [split|].
  - apply write_same.
  - intros f I. unfold intact. rewrite write_other by (intros ->; exact (wf_lock p W u Hu I)). apply write_outs_in, I.
  - intros g N. rewrite write_other by (intros ->; apply N; left; reflexivity). apply write_outs_notin. intros I; apply N; right; exact I. Qed.

Lemma Done_frame s s' u : (forall g, In g (ufiles u) -> s' g = s g) -> Done s u -> Done s' u.
Proof. intros A [L O]. split; [rewrite A by (left; reflexivity); exact L|]. intros f I. unfold intact. rewrite A by (right; exact I). apply O, I. Qed.

(* the producer phase from a Good state, possibly stopped after a prefix `a` of the remaining units: every unit that was
   processed ends up Done, nothing outside the files of the processed units changes *)
Lemma units_phase : forall a b pre s seen, units p = pre ++ a ++ b -> reads_chain seen (a ++ b) ->
  (forall f, In f seen -> intact s f) -> (forall v, In v pre -> Done s v) ->
  (forall u, In u a -> s (p_lock u) = None \/ Done s u) ->
  exists m, exec s (map SUnit a) = Some m /\ (forall v, In v (pre ++ a) -> Done m v) /\
            (forall g, (forall u, In u a -> ~ In g (ufiles u)) -> m g = s g).
Proof. induction a as [|u a IH]; intros b pre s seen E RC Hseen Hpre Hpost.
  - exists s. split; [reflexivity|]. split; [|reflexivity]. intros v Hv. rewrite app_nil_r in Hv. apply Hpre, Hv.
  - destruct RC as [Rin RC].
    assert (Hu: In u (units p)) by (rewrite E; apply in_or_app; right; left; reflexivity).
    assert (Hin: forall v, In v (pre ++ a) -> In v (units p)).
    { intros v Hv. rewrite E. apply in_app_or in Hv. apply in_or_app. destruct Hv as [Hv|Hv]; [left; exact Hv|right; right; apply in_or_app; left; exact Hv]. }
    assert (Hne: forall v, In v (pre ++ a) -> v <> u).
    { intros v Hv ->. pose proof (wf_nodup p W) as ND. rewrite E in ND. apply NoDup_remove_2 in ND. apply ND.
      apply in_app_or in Hv. apply in_or_app. destruct Hv as [Hv|Hv]; [left; exact Hv|right; apply in_or_app; left; exact Hv]. }
    assert (S1: exists s1, exec_step s (SUnit u) = Some s1 /\ Done s1 u /\ (forall g, ~ In g (ufiles u) -> s1 g = s g)).
    { cbn. unfold resume_punit. destruct (Hpost u (or_introl eq_refl)) as [L|D].
      - rewrite L. apply run_punit_effect; [exact Hu|]. intros f I. apply Hseen, Rin, I.
      - destruct D as [L O]. rewrite L. exists s. split; [reflexivity|]. split; [split; assumption|reflexivity]. }
    destruct S1 as (s1 & X1 & D1 & Fr).
    assert (Fr': forall v, In v (pre ++ a) -> forall g, In g (ufiles v) -> s1 g = s g).
    { intros v Hv g I. apply Fr. intros I2. exact (wf_disj p W v u g (Hin v Hv) Hu (Hne v Hv) I I2). }
    destruct (IH b (pre ++ [u]) s1 (seen ++ p_outs u)) as (m & X & Dm & Frm).
    + rewrite E, <- app_assoc. reflexivity.
    + exact RC.
    + intros f I. apply in_app_or in I. destruct I as [I|I]; [|apply (proj2 D1), I].
      unfold intact. destruct (in_dec_F f (ufiles u)) as [J|J].
      * destruct J as [<-|J]; [|apply (proj2 D1), J].
        rewrite (proj1 D1). pose proof (Hseen _ I) as K. unfold intact in K.
        destruct (Hpost u (or_introl eq_refl)) as [L|[L _]]; rewrite L in K; [discriminate|exact K].
      * rewrite Fr by exact J. apply Hseen, I.
    + intros v Hv. apply in_app_or in Hv. destruct Hv as [Hv|[<-|[]]]; [|exact D1].
      apply (Done_frame s); [|apply Hpre, Hv]. apply Fr'. apply in_or_app; left; exact Hv.
    + intros w Hw. destruct (Hpost w (or_intror Hw)) as [L|D].
      * left. rewrite (Fr' w (in_or_app _ _ _ (or_intror Hw))) by (left; reflexivity). exact L.
      * right. apply (Done_frame s); [|exact D]. apply Fr'. apply in_or_app; right; exact Hw.
    + exists m. split; [cbn [map exec]; rewrite X1; exact X|]. split.
      * intros v Hv. apply Dm. rewrite <- app_assoc. exact Hv.
      * intros g Hg. rewrite Frm by (intros w Hw; apply Hg; right; exact Hw). apply Fr. apply Hg. left; reflexivity. Qed.

(* ------------------------------------------------------------------ erasures and the consumption phase *)
Lemma exec_erase l : forall s, exec s (map SErase l) = Some (fold_left erase l s).
Proof. induction l as [|a t IH]; intros s; [reflexivity|]. cbn. apply IH. Qed.
Lemma erase_all_notin l : forall s g, ~ In g l -> fold_left erase l s g = s g.
Proof. induction l as [|a t IH]; intros s g H; [reflexivity|]. cbn. rewrite IH by (intros I; apply H; right; exact I).
  apply erase_other. intros ->. apply H; left; reflexivity. Qed.
Lemma erase_all_in l : forall s g, In g l -> fold_left erase l s g = None.
Proof. induction l as [|a t IH]; intros s g H; [destruct H|]. cbn. destruct (in_dec_F g t) as [I|N]; [apply IH, I|].
  rewrite erase_all_notin by exact N. destruct H as [->|I]; [apply erase_same|contradiction]. Qed.
Lemma NoDup_app_inv' {A} (l l':list A) : NoDup (l ++ l') -> NoDup l /\ NoDup l' /\ (forall x, In x l -> ~ In x l').
Proof. induction l as [|a t IH]; intros H; [split; [constructor|split; [exact H|intros x []]]|].
  simpl in H. inversion H; subst. destruct (IH H3) as (I1 & I2 & I3). split; [|split; [exact I2|]].
  - constructor; [intros X; apply H2; apply in_or_app; left; exact X|exact I1].
  - intros x [->|Hx]; [intros X; apply H2; apply in_or_app; right; exact X|apply I3, Hx]. Qed.

Lemma removes_ok rd : forall s, NoDup rd -> (forall f, In f rd -> s f <> None) -> exec s (map SRemove rd) = Some (fold_left erase rd s).
Proof. induction rd as [|a t IH]; intros s ND H; [reflexivity|]. cbn. destruct (s a) eqn:E; [|exfalso; apply (H a); [left; reflexivity|exact E]].
  inversion ND; subst. apply IH; [assumption|]. intros f I. rewrite erase_other by (intros ->; contradiction). apply H. right; exact I. Qed.

Lemma consume_ok es : forall s, NoDup (flat_map snd es) -> (forall f, In f (flat_map snd es) -> intact s f) ->
  (forall e, In e es -> ~ In (fst e) (flat_map snd es)) -> exists m, exec s (consume_steps es) = Some m.
Proof. induction es as [|[f rd] t IH]; intros s ND HI HF; [exists s; reflexivity|].
  cbn [consume_steps flat_map fst snd] in *. destruct (NoDup_app_inv' _ _ ND) as (N1 & N2 & N3).
  cbn [app exec exec_step]. rewrite (proj2 (all_intactb s rd)) by (intros r I; apply HI, in_or_app; left; exact I).
  rewrite exec_app. set (s1 := write s f (want f)).
  assert (K: forall g, In g (rd ++ flat_map snd t) -> s1 g = s g).
  { intros g I. apply write_other. intros ->. exact (HF (f, rd) (or_introl eq_refl) I). }
  rewrite removes_ok; [|exact N1|intros r I; rewrite K by (apply in_or_app; left; exact I); rewrite (HI r) by (apply in_or_app; left; exact I); discriminate].
  apply IH; [exact N2| |].
  - intros g I. unfold intact. rewrite erase_all_notin by (intros J; exact (N3 g J I)). rewrite K by (apply in_or_app; right; exact I).
    apply HI, in_or_app; right; exact I.
  - intros e He J. apply (HF e (or_intror He)). apply in_or_app; right; exact J. Qed.

Definition AllDone (s:st) : Prop := forall v, In v (units p) -> Done s v.

Lemma rest_succeeds a : AllDone a -> exists m, exec a (rest_steps p) = Some m.
Proof. intros AD. unfold rest_steps. rewrite exec_app.
  replace (map (fun u => SErase (p_lock u)) (dropped p)) with (map SErase (map p_lock (dropped p))) by (rewrite map_map; reflexivity).
  rewrite exec_erase. set (s1 := fold_left erase (map p_lock (dropped p)) a). rewrite exec_app.
  destruct (consume_ok (entries p) s1) as (m & X).
  - exact (wf_parts_nodup p W).
  - intros f I. apply in_flat_map in I. destruct I as (e & He & I). destruct (wf_parts p W e f He I) as (u & Hu & Io).
    unfold intact, s1. rewrite erase_all_notin.
    + apply (proj2 (AD u (wf_drop p W u Hu))), Io.
    + intros J. apply in_map_iff in J. destruct J as (v & E & Hv). apply (lock_not_out v u (wf_drop p W v Hv) (wf_drop p W u Hu)). rewrite E. exact Io.
  - intros e He J. apply in_flat_map in J. destruct J as (e' & He' & J). destruct (wf_parts p W e' _ He' J) as (u & Hu & Io).
    apply (wf_final p W e u He (wf_drop p W u Hu)). right; exact Io.
  - rewrite X. rewrite exec_app, exec_erase. rewrite exec_erase. eexists; reflexivity. Qed.

(* two states that agree except on files that are still to be (re)written and that nothing reads behave alike *)
Fixpoint written (R:list pstep) : list F := match R with [] => [] | SFinal f _ :: t => f :: written t | _ :: t => written t end.
Definition noread (X:F -> Prop) (t:pstep) : Prop :=
  match t with SUnit _ => False | SErase _ => True | SFinal _ rd => forall r, In r rd -> ~ X r | SRemove f => ~ X f end.
Lemma forallb_ext' {A} (f g:A -> bool) l : (forall x, In x l -> f x = g x) -> forallb f l = forallb g l.
Proof. induction l as [|a t IH]; intros H; [reflexivity|]. cbn. rewrite (H a (or_introl eq_refl)), IH; [reflexivity|]. intros x I; apply H; right; exact I. Qed.

Lemma rest_cong R : forall a b (X:F -> Prop), (forall t, In t R -> noread X t) -> (forall g, a g = b g \/ (X g /\ In g (written R))) ->
  match exec a R, exec b R with Some a', Some b' => forall g, a' g = b' g | None, None => True | _, _ => False end.
Proof. induction R as [|t R IH]; intros a b X NR AG.
  - cbn. intros g. destruct (AG g) as [E|[_ []]]. exact E.
  - pose proof (NR t (or_introl eq_refl)) as Nt. assert (NR': forall t', In t' R -> noread X t') by (intros t' I; apply NR; right; exact I).
    assert (EQ: forall g, ~ X g -> a g = b g) by (intros g N; destruct (AG g) as [E|[Xg _]]; [exact E|contradiction]).
    destruct t as [u|f|f rd|f]; cbn [noread] in Nt; [destruct Nt| | |]; cbn [exec exec_step].
    + apply (IH _ _ X); [exact NR'|]. intros g. destruct (F_dec g f) as [->|D]; [left; rewrite !erase_same; reflexivity|].
      rewrite !erase_other by exact D. exact (AG g).
    + rewrite (forallb_ext' (intactb a) (intactb b) rd) by (intros r I; unfold intactb; rewrite (EQ r (Nt r I)); reflexivity).
      destruct (forallb (intactb b) rd); [|exact Logic.I]. apply (IH _ _ X); [exact NR'|]. intros g. destruct (F_dec g f) as [->|D]; [left; rewrite !write_same; reflexivity|].
      rewrite !write_other by exact D. destruct (AG g) as [E|[Xg I]]; [left; exact E|right; split; [exact Xg|]].
      cbn in I. destruct I as [<-|I]; [contradiction|exact I].
    + rewrite (EQ f Nt). destruct (b f); [|exact Logic.I]. apply (IH _ _ X); [exact NR'|]. intros g. destruct (F_dec g f) as [->|D]; [left; rewrite !erase_same; reflexivity|].
      rewrite !erase_other by exact D. exact (AG g). Qed.

Lemma written_erase l : written (map SErase l) = [].
Proof. induction l; [reflexivity|exact IHl]. Qed.
Lemma written_app a b : written (a ++ b) = written a ++ written b.
Proof. induction a as [|t r IH]; [reflexivity|]. destruct t; cbn; rewrite ?IH; reflexivity. Qed.
Lemma written_removes l : written (map SRemove l) = [].
Proof. induction l; [reflexivity|exact IHl]. Qed.
Lemma written_consume es : written (consume_steps es) = map fst es.
Proof. induction es as [|[f rd] t IH]; [reflexivity|]. cbn [consume_steps flat_map]. cbn [app written fst snd map]. rewrite written_app, written_removes. cbn. f_equal. exact IH. Qed.
Lemma written_rest : written (rest_steps p) = map fst (entries p).
Proof. unfold rest_steps. rewrite !written_app, written_consume, !written_erase.
  replace (map (fun u => SErase (p_lock u)) (dropped p)) with (map SErase (map p_lock (dropped p))) by (rewrite map_map; reflexivity).
  rewrite written_erase, app_nil_r. reflexivity. Qed.

Lemma part_is_unitfile e f : In e (entries p) -> In f (snd e) -> unitfile p f.
Proof. intros He I. destruct (wf_parts p W e f He I) as (u & Hu & Io). exists u. split; [apply (wf_drop p W), Hu|right; exact Io]. Qed.
Lemma rest_noread : forall t, In t (rest_steps p) -> noread (isfinal p) t.
Proof. intros t I. unfold rest_steps in I. repeat (apply in_app_or in I; destruct I as [I|I]).
  - apply in_map_iff in I. destruct I as (u & <- & _). exact Logic.I.
  - unfold consume_steps in I. apply in_flat_map in I. destruct I as (e & He & [<-|I]).
    + intros r Ir Hf. exact (final_not_unitfile r Hf (part_is_unitfile e r He Ir)).
    + apply in_map_iff in I. destruct I as (f & <- & If). intros Hf. exact (final_not_unitfile f Hf (part_is_unitfile e f He If)).
  - apply in_map_iff in I. destruct I as (f & <- & _). exact Logic.I.
  - apply in_map_iff in I. destruct I as (f & <- & _). exact Logic.I. Qed.

Definition ufl : list F := flat_map ufiles (units p).
Lemma ufl_spec g : In g ufl <-> unitfile p g.
Proof. unfold ufl, unitfile. rewrite in_flat_map. reflexivity. Qed.

(* ------------------------------------------------------------------ from a Good state the resumed program reaches the final state of the clean run *)
Theorem good_resumes : forall c s0, Good p c -> Good p s0 ->
  (forall g, ~ unitfile p g -> ~ isfinal p g -> c g = s0 g) ->
  exists s' s'', exec c (steps p) = Some s' /\ exec s0 (steps p) = Some s'' /\ forall g, s' g = s'' g.
Proof. intros c s0 Gc G0 AG. unfold steps.
  destruct (units_phase (units p) [] [] c []) as (mc & Xc & Dc & Fc);
    [rewrite app_nil_r; reflexivity|rewrite app_nil_r; exact (wf_reads p W)|intros f []|intros v []|exact Gc|].
  destruct (units_phase (units p) [] [] s0 []) as (m0 & X0 & D0 & F0);
    [rewrite app_nil_r; reflexivity|rewrite app_nil_r; exact (wf_reads p W)|intros f []|intros v []|exact G0|].
  cbn [app] in Dc, D0. rewrite !exec_app, Xc, X0.
  destruct (rest_succeeds mc Dc) as (s' & Rc). destruct (rest_succeeds m0 D0) as (s'' & R0).
  exists s', s''. split; [exact Rc|split; [exact R0|]].
  pose proof (rest_cong (rest_steps p) mc m0 (isfinal p) rest_noread) as CG. rewrite Rc, R0 in CG. apply CG.
  intros g. destruct (in_dec_F g ufl) as [U|U].
  - left. apply ufl_spec in U. destruct U as (u & Hu & [<-|I]).
    + rewrite (proj1 (Dc u Hu)), (proj1 (D0 u Hu)). reflexivity.
    + pose proof (proj2 (Dc u Hu) g I) as A. pose proof (proj2 (D0 u Hu) g I) as B. unfold intact in A, B. rewrite A, B. reflexivity.
  - assert (NU: ~ unitfile p g) by (intros X; apply U, ufl_spec, X).
    assert (Ec: mc g = c g) by (apply Fc; intros u Hu I; apply NU; exists u; split; assumption).
    assert (E0: m0 g = s0 g) by (apply F0; intros u Hu I; apply NU; exists u; split; assumption).
    rewrite Ec, E0. destruct (in_dec_F g (map fst (entries p))) as [Fi|Fi].
    + right. split; [exact Fi|rewrite written_rest; exact Fi].
    + left. apply AG; assumption. Qed.

(* ------------------------------------------------------------------ every crash state of the clean run is Good *)
Definition touched (t:pstep) : list F := match t with SUnit u => p_outs u | _ => [] end.
(* c is what a kill can leave: `pre` was executed, `cur` was in progress (for a unit: any of its outputs in any condition, its
   lock not yet written), and every final file is in an arbitrary condition *)
Definition crash_state (s0 c:st) : Prop :=
  exists pre cur post m, steps p = pre ++ cur :: post /\ exec s0 pre = Some m /\
                         forall g, ~ In g (touched cur) -> ~ isfinal p g -> c g = m g.

Lemma good_transfer c m : (forall g, unitfile p g -> c g = m g) -> Good p m -> Good p c.
Proof. intros A G u Hu. destruct (G u Hu) as [L|D]; [left|right].
  - rewrite A; [exact L|exists u; split; [exact Hu|left; reflexivity]].
  - apply (Done_frame m); [|exact D]. intros g I. apply A. exists u; split; assumption. Qed.

Definition allowed (A:punit -> Prop) (t:pstep) : Prop :=
  match t with
  | SUnit _ => False
  | SFinal f _ => ~ unitfile p f
  | SErase f | SRemove f => (exists u, In u (units p) /\ f = p_lock u) \/ (exists u, In u (units p) /\ A u /\ In f (p_outs u))
  end.
Lemma erase_none s f g : s g = None -> erase s f g = None.
Proof. intros H. unfold erase. destruct (feqb g f); [reflexivity|exact H]. Qed.

Lemma ge_erase A s f : GoodExcept p A s ->
  ((exists u, In u (units p) /\ f = p_lock u) \/ (exists u, In u (units p) /\ A u /\ In f (p_outs u))) -> GoodExcept p A (erase s f).
Proof. intros G Hf v Hv. destruct (G v Hv) as [GA GD]. split; [intros Av; apply erase_none, GA, Av|].
  destruct GD as [L|D]; [left; apply erase_none, L|].
  destruct (in_dec_F f (ufiles v)) as [[E|I]|N].
  - left. rewrite <- E. apply erase_same.
  - destruct Hf as [(u & Hu & ->)|(u & Hu & Au & Io)]; [exfalso; exact (lock_not_out u v Hu Hv I)|].
    rewrite (out_owner u v f Hu Hv Io I) in Au. left. apply erase_none, GA, Au.
  - right. apply (Done_frame s); [|exact D]. intros g Ig. apply erase_other. intros ->. contradiction. Qed.
Lemma ge_frame A s s' : (forall g, unitfile p g -> s' g = s g) -> GoodExcept p A s -> GoodExcept p A s'.
Proof. intros Fr G v Hv. destruct (G v Hv) as [GA GD].
  assert (L: s' (p_lock v) = s (p_lock v)) by (apply Fr; exists v; split; [exact Hv|left; reflexivity]).
  split; [intros Av; rewrite L; apply GA, Av|]. destruct GD as [N|D]; [left; rewrite L; exact N|right].
  apply (Done_frame s); [|exact D]. intros g I. apply Fr. exists v; split; assumption. Qed.
Lemma ge_step A s t s' : allowed A t -> GoodExcept p A s -> exec_step s t = Some s' -> GoodExcept p A s'.
Proof. intros Al G X. destruct t as [u|f|f rd|f]; cbn in Al, X.
  - destruct Al.
  - inversion X; subst. apply ge_erase; assumption.
  - destruct (forallb (intactb s) rd); [|discriminate]. inversion X; subst. apply (ge_frame A s); [|exact G].
    intros g U. apply write_other. intros ->. contradiction.
  - destruct (s f); [|discriminate]. inversion X; subst. apply ge_erase; assumption. Qed.
Lemma ge_exec A R : forall s m, (forall t, In t R -> allowed A t) -> GoodExcept p A s -> exec s R = Some m -> GoodExcept p A m.
Proof. induction R as [|t R IH]; intros s m Al G X; [inversion X; subst; exact G|]. cbn in X.
  destruct (exec_step s t) as [s1|] eqn:E; [|discriminate].
  apply (IH s1); [intros t' I; apply Al; right; exact I| |exact X]. apply (ge_step A s t); [apply Al; left; reflexivity|exact G|exact E]. Qed.
Lemma ge_good A s : GoodExcept p A s -> Good p s.
Proof. intros G u Hu. exact (proj2 (G u Hu)). Qed.
Lemma ge_strengthen (A A':punit -> Prop) s : GoodExcept p A s -> (forall u, In u (units p) -> A' u -> s (p_lock u) = None) -> GoodExcept p A' s.
Proof. intros G H u Hu. split; [apply H, Hu|exact (proj2 (G u Hu))]. Qed.

Lemma exec_app_some a b s m : exec s (a ++ b) = Some m -> exists s1, exec s a = Some s1 /\ exec s1 b = Some m.
Proof. rewrite exec_app. destruct (exec s a) as [s1|]; [|discriminate]. intros H. exists s1. split; [reflexivity|exact H]. Qed.
Lemma prefix_app {A} (X:list A) : forall Y pre post, X ++ Y = pre ++ post ->
  (exists r, X = pre ++ r) \/ (exists r, pre = X ++ r /\ Y = r ++ post).
Proof. induction X as [|x X IH]; intros Y pre post E.
  - right. exists pre. split; [reflexivity|exact E].
  - destruct pre as [|a pre]; [left; exists (x :: X); reflexivity|]. cbn in E. inversion E; subst.
    destruct (IH Y pre post H1) as [(r & ->)|(r & -> & ->)]; [left; exists r; reflexivity|right; exists r; split; reflexivity]. Qed.

Definition A0 : punit -> Prop := fun _ => False.
Definition AD : punit -> Prop := fun u => In u (dropped p).
Definition AAll : punit -> Prop := fun _ => True.
Definition S_Dr := map (fun u => SErase (p_lock u)) (dropped p).
Definition S_Co := consume_steps (entries p).
Definition S_CL := map SErase (cl_locks p).
Definition S_CD := map SErase (cl_data p).

Lemma allowed_Dr t : In t S_Dr -> forall A, allowed A t.
Proof. intros I A. apply in_map_iff in I. destruct I as (u & <- & Hu). left. exists u. split; [apply (wf_drop p W), Hu|reflexivity]. Qed.
Lemma allowed_Co t : In t S_Co -> allowed AD t.
Proof. intros I. unfold S_Co, consume_steps in I. apply in_flat_map in I. destruct I as (e & He & [<-|I]).
  - cbn. intros (u & Hu & Iu). exact (wf_final p W e u He Hu Iu).
  - apply in_map_iff in I. destruct I as (f & <- & If). destruct (wf_parts p W e f He If) as (u & Hu & Io).
    right. exists u. split; [apply (wf_drop p W), Hu|split; [exact Hu|exact Io]]. Qed.
Lemma allowed_CL t : In t S_CL -> forall A, allowed A t.
Proof. intros I A. apply in_map_iff in I. destruct I as (f & <- & If). left. exact (wf_cl_locks' p W f If). Qed.
Lemma allowed_CD t : In t S_CD -> allowed AAll t.
Proof. intros I. apply in_map_iff in I. destruct I as (f & <- & If). destruct (wf_cl_data p W f If) as (u & Hu & Io).
  right. exists u. split; [exact Hu|split; [exact Logic.I|exact Io]]. Qed.
Lemma prefix_in {A} (X pre r:list A) : X = pre ++ r -> forall t, In t pre -> In t X.
Proof. intros -> t I. apply in_or_app; left; exact I. Qed.

Lemma good_CD s pre post m : GoodExcept p AAll s -> S_CD = pre ++ post -> exec s pre = Some m -> Good p m.
Proof. intros G E X. apply (ge_good AAll), (ge_exec AAll pre s); [|exact G|exact X]. intros t I. apply allowed_CD, (prefix_in _ _ _ E), I. Qed.
Lemma good_CL s pre post m : GoodExcept p AD s -> S_CL ++ S_CD = pre ++ post -> exec s pre = Some m -> Good p m.
Proof. intros G E X. destruct (prefix_app _ _ _ _ E) as [(r & E1)|(r & -> & E2)].
  - apply (ge_good AD), (ge_exec AD pre s); [|exact G|exact X]. intros t I. apply allowed_CL, (prefix_in _ _ _ E1), I.
  - apply exec_app_some in X. destruct X as (s1 & X1 & X2).
    assert (G1: GoodExcept p AD s1) by (apply (ge_exec AD S_CL s); [intros t I; apply allowed_CL, I|exact G|exact X1]).
    apply (good_CD s1 r post); [|exact E2|exact X2]. apply (ge_strengthen AD); [exact G1|]. intros u Hu _.
    unfold S_CL in X1. rewrite exec_erase in X1. inversion X1; subst. apply erase_all_in, (wf_cl_locks p W), Hu. Qed.
Lemma good_Co s pre post m : GoodExcept p AD s -> S_Co ++ S_CL ++ S_CD = pre ++ post -> exec s pre = Some m -> Good p m.
Proof. intros G E X. destruct (prefix_app _ _ _ _ E) as [(r & E1)|(r & -> & E2)].
  - apply (ge_good AD), (ge_exec AD pre s); [|exact G|exact X]. intros t I. apply allowed_Co, (prefix_in _ _ _ E1), I.
  - apply exec_app_some in X. destruct X as (s1 & X1 & X2). apply (good_CL s1 r post); [|exact E2|exact X2].
    apply (ge_exec AD S_Co s); [intros t I; apply allowed_Co, I|exact G|exact X1]. Qed.
Lemma good_Dr s pre post m : GoodExcept p A0 s -> rest_steps p = pre ++ post -> exec s pre = Some m -> Good p m.
Proof. intros G E X. unfold rest_steps in E. fold S_Dr S_Co S_CL S_CD in E. destruct (prefix_app _ _ _ _ E) as [(r & E1)|(r & -> & E2)].
  - apply (ge_good A0), (ge_exec A0 pre s); [|exact G|exact X]. intros t I. apply allowed_Dr, (prefix_in _ _ _ E1), I.
  - apply exec_app_some in X. destruct X as (s1 & X1 & X2). apply (good_Co s1 r post); [|exact E2|exact X2].
    assert (G1: GoodExcept p A0 s1) by (apply (ge_exec A0 S_Dr s); [intros t I; apply allowed_Dr, I|exact G|exact X1]).
    apply (ge_strengthen A0); [exact G1|]. intros u Hu Du. unfold S_Dr in X1.
    replace (map (fun u => SErase (p_lock u)) (dropped p)) with (map SErase (map p_lock (dropped p))) in X1 by (rewrite map_map; reflexivity).
    rewrite exec_erase in X1. inversion X1; subst. apply erase_all_in, in_map, Du. Qed.

Lemma rest_touched t : In t (rest_steps p) -> touched t = [].
Proof. intros I. unfold rest_steps in I. repeat (apply in_app_or in I; destruct I as [I|I]).
  - apply in_map_iff in I. destruct I as (u & <- & _). reflexivity.
  - unfold consume_steps in I. apply in_flat_map in I. destruct I as (e & _ & [<-|I]); [reflexivity|].
    apply in_map_iff in I. destruct I as (f & <- & _). reflexivity.
  - apply in_map_iff in I. destruct I as (f & <- & _). reflexivity.
  - apply in_map_iff in I. destruct I as (f & <- & _). reflexivity. Qed.

Theorem crash_good : forall s0 c, (forall u, In u (units p) -> s0 (p_lock u) = None) -> crash_state s0 c -> Good p c.
Proof. intros s0 c Fresh (pre & cur & post & m & E & X & AG). unfold steps in E.
  destruct (prefix_app _ _ _ _ E) as [(r & E1)|(r & -> & E2)].
  - (* the kill hits the producer phase *)
    destruct r as [|t r].
    + (* exactly at its end: cur is the first step of the rest *)
      rewrite app_nil_r in E1. subst pre. apply app_inv_head in E.
      destruct (units_phase (units p) [] [] s0 []) as (mU & XU & DU & _);
        [rewrite app_nil_r; reflexivity|rewrite app_nil_r; exact (wf_reads p W)|intros f []|intros v []|intros u Hu; left; apply Fresh, Hu|].
      rewrite X in XU. inversion XU; subst mU. cbn [app] in DU.
      apply (good_transfer c m).
      * intros g U. apply AG; [rewrite (rest_touched cur) by (rewrite E; left; reflexivity); intros []|intros Fi; exact (final_not_unitfile g Fi U)].
      * intros u Hu. right. apply DU, Hu.
    + (* inside it *)
      assert (Ec: pre ++ cur :: post = (pre ++ t :: r) ++ rest_steps p) by (rewrite <- E1; exact (eq_sym E)).
      rewrite <- app_assoc in Ec. apply app_inv_head in Ec. cbn in Ec. inversion Ec; subst t. clear Ec.
      apply map_eq_app in E1. destruct E1 as (l1 & l2 & EU & M1 & M2). apply map_eq_cons in M2. destruct M2 as (u & tl & -> & <- & _).
      subst pre.
      destruct (units_phase l1 (u :: tl) [] s0 []) as (m' & X' & Dm & Fm);
        [exact EU|rewrite <- EU; exact (wf_reads p W)|intros f []|intros v []|intros w Hw; left; apply Fresh; rewrite EU; apply in_or_app; left; exact Hw|].
      rewrite X in X'. inversion X'; subst m'. cbn [app] in Dm.
      pose proof (wf_nodup p W) as ND. rewrite EU in ND. destruct (NoDup_app_inv' _ _ ND) as (_ & ND2 & Sep).
      assert (Hu: In u (units p)) by (rewrite EU; apply in_or_app; right; left; reflexivity).
      intros w Hw. rewrite EU in Hw. apply in_app_or in Hw. destruct Hw as [Hw|Hw].
      * right. assert (Hw': In w (units p)) by (rewrite EU; apply in_or_app; left; exact Hw).
        apply (Done_frame m); [|apply Dm, Hw]. intros g I. apply AG.
        -- cbn. intros Io. apply (wf_disj p W w u g Hw' Hu); [intros ->; apply (Sep u Hw); left; reflexivity|exact I|right; exact Io].
        -- intros Fi. apply (final_not_unitfile g Fi). exists w. split; assumption.
      * left. assert (Hw': In w (units p)) by (rewrite EU; apply in_or_app; right; exact Hw).
        rewrite AG; [| |].
        -- rewrite Fm; [apply Fresh, Hw'|]. intros v Hv I. assert (Hv': In v (units p)) by (rewrite EU; apply in_or_app; left; exact Hv).
           apply (wf_disj p W w v (p_lock w) Hw' Hv'); [intros ->; exact (Sep v Hv Hw)|left; reflexivity|exact I].
        -- cbn. exact (lock_not_out w u Hw' Hu).
        -- intros Fi. apply (final_not_unitfile _ Fi). exists w. split; [exact Hw'|left; reflexivity].
  - (* the kill hits a later phase: all units are done, Good is maintained by GoodExcept *)
    apply exec_app_some in X. destruct X as (mU & XU & Xr).
    destruct (units_phase (units p) [] [] s0 []) as (mU' & XU' & DU & _);
      [rewrite app_nil_r; reflexivity|rewrite app_nil_r; exact (wf_reads p W)|intros f []|intros v []|intros u Hu; left; apply Fresh, Hu|].
    rewrite XU in XU'. inversion XU'; subst mU'. cbn [app] in DU.
    assert (Gm: Good p m).
    { apply (good_Dr mU r (cur :: post)); [|exact E2|exact Xr]. intros u Hu. split; [intros []|right; apply DU, Hu]. }
    apply (good_transfer c m); [|exact Gm]. intros g U. apply AG.
    + rewrite (rest_touched cur) by (rewrite E2; apply in_or_app; right; left; reflexivity). intros [].
    + intros Fi. exact (final_not_unitfile g Fi U). Qed.

(* the crash state agrees with the initial state outside unit files and finals: the program touches nothing else *)
Lemma exec_step_frame s t s' : exec_step s t = Some s' -> In t (steps p) -> forall g, ~ unitfile p g -> ~ isfinal p g -> s' g = s g.
Proof. intros X I g NU NF. unfold steps in I. apply in_app_or in I. destruct I as [I|I].
  - apply in_map_iff in I. destruct I as (u & <- & Hu). cbn in X. unfold resume_punit in X. destruct (s (p_lock u)); [inversion X; reflexivity|].
    unfold run_punit in X. destruct (forallb (intactb s) (p_reads u)); [|discriminate]. inversion X; subst.
    rewrite write_other by (intros ->; apply NU; exists u; split; [exact Hu|left; reflexivity]).
    apply write_outs_notin. intros Io. apply NU. exists u. split; [exact Hu|right; exact Io].
  - pose proof (rest_noread t I) as _. unfold rest_steps in I. repeat (apply in_app_or in I; destruct I as [I|I]).
    + apply in_map_iff in I. destruct I as (u & <- & Hu). cbn in X. inversion X; subst. apply erase_other. intros ->. apply NU.
      exists u. split; [apply (wf_drop p W), Hu|left; reflexivity].
    + unfold consume_steps in I. apply in_flat_map in I. destruct I as (e & He & [<-|I]).
      * cbn in X. destruct (forallb (intactb s) (snd e)); [|discriminate]. inversion X; subst. apply write_other. intros ->. apply NF.
        unfold isfinal. apply in_map, He.
      * apply in_map_iff in I. destruct I as (f & <- & If). cbn in X. destruct (s f); [|discriminate]. inversion X; subst.
        apply erase_other. intros ->. exact (NU (part_is_unitfile e f He If)).
    + apply in_map_iff in I. destruct I as (f & <- & If). cbn in X. inversion X; subst. apply erase_other. intros ->.
      destruct (wf_cl_locks' p W f If) as (u & Hu & ->). apply NU. exists u. split; [exact Hu|left; reflexivity].
    + apply in_map_iff in I. destruct I as (f & <- & If). cbn in X. inversion X; subst. apply erase_other. intros ->.
      destruct (wf_cl_data p W f If) as (u & Hu & Io). apply NU. exists u. split; [exact Hu|right; exact Io]. Qed.
Lemma exec_frame R : forall s m, exec s R = Some m -> (forall t, In t R -> In t (steps p)) -> forall g, ~ unitfile p g -> ~ isfinal p g -> m g = s g.
Proof. induction R as [|t R IH]; intros s m X Sub g NU NF; [inversion X; reflexivity|]. cbn in X.
  destruct (exec_step s t) as [s1|] eqn:E; [|discriminate].
  rewrite (IH s1 m X (fun t' I => Sub t' (or_intror I)) g NU NF). exact (exec_step_frame s t s1 E (Sub t (or_introl eq_refl)) g NU NF). Qed.

(* ------------------------------------------------------------------ the theorem *)
Theorem resume_sound : forall s0 c, (forall u, In u (units p) -> s0 (p_lock u) = None) -> crash_state s0 c ->
  exists s' s'', exec c (steps p) = Some s' /\ exec s0 (steps p) = Some s'' /\ forall g, s' g = s'' g.
Proof. intros s0 c Fresh CS. apply good_resumes.
  - exact (crash_good s0 c Fresh CS).
  - intros u Hu. left. apply Fresh, Hu.
  - destruct CS as (pre & cur & post & m & E & X & AG). intros g NU NF.
    rewrite AG; [| |exact NF].
    + apply (exec_frame pre s0 m X); [|exact NU|exact NF]. intros t I. rewrite E. apply in_or_app; left; exact I.
    + destruct cur as [u| | |]; cbn; try (intros []). intros Io. apply NU. exists u. split; [|right; exact Io].
      assert (I: In (SUnit u) (steps p)) by (rewrite E; apply in_or_app; right; left; reflexivity).
      unfold steps in I. apply in_app_or in I. destruct I as [I|I].
      * apply in_map_iff in I. destruct I as (u' & Eu & Hu). inversion Eu; subst. exact Hu.
      * apply rest_noread in I. destruct I. Qed.
End Invariant.
