(* Theorems about the faithful counter model of CountingCounter.v: the dumped tables are the documented weighted sums
   (with the confirmation rule), the statistics lines are tallies, per-chromosome merge, TPM scaling. *)
From Coq Require Import ZArith NArith QArith Qabs List Bool Lia Lqa Permutation.
From IQ Require Import Counting CountingCounter.
Import ListNotations.
Open Scope Z_scope.

(* ---------------------------------------------------------------- sets of integers *)
Lemma memz_In x l : memz x l = true <-> In x l.
Proof. unfold memz. rewrite existsb_exists. split.
  - intros [y [H1 H2]]. apply Z.eqb_eq in H2. subst. exact H1.
  - intros H. exists x. split; [exact H|apply Z.eqb_refl]. Qed.
Lemma memz_false x l : memz x l = false <-> ~ In x l.
Proof. rewrite <- memz_In. destruct (memz x l); split; intros H.
  - discriminate.
  - exfalso. apply H. reflexivity.
  - intros C. discriminate.
  - reflexivity. Qed.
Lemma memz_addz f x l : memz f (addz x l) = (f =? x) || memz f l.
Proof. unfold addz. destruct (memz x l) eqn:E.
  - destruct (f =? x) eqn:E2; [|reflexivity]. apply Z.eqb_eq in E2. subst. rewrite E. reflexivity.
  - cbn [memz existsb]. reflexivity. Qed.
Lemma memz_add_all f fs : forall l, memz f (add_all l fs) = memz f fs || memz f l.
Proof. unfold add_all. induction fs as [|x t IH]; intros l; cbn [fold_left]; [reflexivity|].
  rewrite IH, memz_addz. cbn [memz existsb]. fold (memz f t). destruct (f =? x), (memz f t), (memz f l); reflexivity. Qed.
Lemma In_nodupz x l : In x (nodupz l) <-> In x l.
Proof. induction l as [|y t IH]; [reflexivity|]. cbn [nodupz]. destruct (memz y t) eqn:E.
  - rewrite IH. split; [intros H; right; exact H|]. intros [H|H]; [subst; apply memz_In; exact E|exact H].
  - cbn [In]. rewrite IH. reflexivity. Qed.
Lemma NoDup_nodupz l : NoDup (nodupz l).
Proof. induction l as [|y t IH]; [constructor|]. cbn [nodupz]. destruct (memz y t) eqn:E; [exact IH|].
  constructor; [|exact IH]. rewrite In_nodupz. apply memz_false. exact E. Qed.
Lemma In_insz x y l : In x (insz y l) <-> x = y \/ In x l.
Proof. induction l as [|h t IH]; cbn [insz]; [cbn; intuition|].
  destruct (y <? h); [cbn; intuition|]. destruct (y =? h) eqn:E.
  - apply Z.eqb_eq in E. subst. cbn. intuition.
  - cbn [In]. rewrite IH. intuition. Qed.
Lemma In_sortz x l : In x (sortz l) <-> In x l.
Proof. unfold sortz. induction l as [|y t IH]; [reflexivity|]. cbn [fold_right]. rewrite In_insz, IH. cbn. intuition. Qed.

(* strictly increasing lists *)
Fixpoint incr (l:list Z) : Prop := match l with [] => True | x :: t => (match t with [] => True | y :: _ => x < y end) /\ incr t end.
Lemma incr_insz x l : incr l -> incr (insz x l).
Proof. induction l as [|h t IH]; intros H; [cbn; auto|]. cbn [insz].
  destruct (x <? h) eqn:E1; [apply Z.ltb_lt in E1; cbn [incr]; split; [exact E1|exact H]|].
  destruct (x =? h) eqn:E2; [exact H|]. apply Z.ltb_ge in E1. apply Z.eqb_neq in E2.
  destruct H as [H1 H2]. specialize (IH H2). cbn [incr]. split; [|exact IH].
  destruct t as [|h2 t2]; cbn [insz]; [lia|]. destruct (x <? h2); [lia|]. destruct (x =? h2); [exact H1|exact H1]. Qed.
Lemma incr_sortz l : incr (sortz l).
Proof. unfold sortz. induction l as [|y t IH]; [exact Logic.I|]. cbn [fold_right]. apply incr_insz, IH. Qed.
Lemma incr_lb x t : incr (x :: t) -> forall y, In y t -> x < y.
Proof. revert x. induction t as [|h t IH]; intros x H y Hy; [destruct Hy|].
  destruct H as [H1 H2]. destruct Hy as [Hy|Hy]; [subst; exact H1|].
  assert (h < y) by (apply IH; assumption). lia. Qed.
Lemma incr_NoDup l : incr l -> NoDup l.
Proof. induction l as [|x t IH]; intros H; [constructor|]. constructor; [|apply IH; apply H].
  intros C. pose proof (incr_lb x t H x C). lia. Qed.
(* a strictly increasing list is determined by its elements: sorted(set) does not depend on the enumeration order *)
Lemma incr_unique : forall a b, incr a -> incr b -> (forall x, In x a <-> In x b) -> a = b.
Proof. induction a as [|x s IH]; intros b Ha Hb E.
  - destruct b as [|y t]; [reflexivity|]. exfalso. apply (E y). left. reflexivity.
  - destruct b as [|y t]; [exfalso; apply (E x); left; reflexivity|].
    assert (x = y).
    { assert (Hx: In x (y :: t)) by (apply E; left; reflexivity). assert (Hy: In y (x :: s)) by (apply E; left; reflexivity).
      destruct Hx as [Hx|Hx]; [congruence|]. destruct Hy as [Hy|Hy]; [congruence|].
      pose proof (incr_lb _ _ Ha y Hy). pose proof (incr_lb _ _ Hb x Hx). lia. }
    subst y. f_equal. apply IH; [apply Ha|apply Hb|].
    intros z. split; intros Hz.
    + assert (In z (x :: t)) by (apply E; right; exact Hz). destruct H as [H|H]; [|exact H].
      subst z. pose proof (incr_lb _ _ Ha x Hz). lia.
    + assert (In z (x :: s)) by (apply E; right; exact Hz). destruct H as [H|H]; [|exact H].
      subst z. pose proof (incr_lb _ _ Hb x Hz). lia. Qed.
Theorem sortz_perm_invariant a b : (forall x, In x a <-> In x b) -> sortz a = sortz b.
Proof. intros H. apply incr_unique; try apply incr_sortz. intros x. rewrite !In_sortz. apply H. Qed.
Lemma sortz_idem l : sortz (sortz l) = sortz l.
Proof. apply sortz_perm_invariant. intros x. apply In_sortz. Qed.

(* ---------------------------------------------------------------- rational sums *)
Lemma qsum'_app a b : (qsum' (a ++ b) == qsum' a + qsum' b)%Q.
Proof. induction a as [|x t IH]; cbn [qsum' app]; [lra|]. rewrite IH. lra. Qed.
Lemma qsum'_ext {A} (f g:A -> Q) l : (forall x, In x l -> (f x == g x)%Q) -> (qsum' (map f l) == qsum' (map g l))%Q.
Proof. induction l as [|x t IH]; intros H; cbn [map qsum']; [lra|]. rewrite (H x) by (left; reflexivity). rewrite IH; [lra|].
  intros y Hy. apply H. right. exact Hy. Qed.
Lemma qsum'_zero {A} (f:A -> Q) l : (forall x, In x l -> (f x == 0)%Q) -> (qsum' (map f l) == 0)%Q.
Proof. induction l as [|x t IH]; intros H; cbn [map qsum']; [lra|]. rewrite (H x) by (left; reflexivity). rewrite IH; [lra|].
  intros y Hy. apply H. right. exact Hy. Qed.

(* ---------------------------------------------------------------- IncrementalDict *)
Lemma get_g_inc_g d g' v g : (get_g (inc_g d g' v) g == get_g d g + (if g' =? g then v else 0))%Q.
Proof. induction d as [|p t IH]; cbn [inc_g get_g fst snd].
  - destruct (g' =? g); lra.
  - destruct (fst p =? g') eqn:E1.
    + apply Z.eqb_eq in E1. cbn [get_g fst snd]. rewrite E1. destruct (g' =? g); lra.
    + cbn [get_g]. destruct (fst p =? g) eqn:E2; [|exact IH].
      apply Z.eqb_eq in E2. apply Z.eqb_neq in E1. assert (g' =? g = false) by (apply Z.eqb_neq; congruence). rewrite H. lra. Qed.
Lemma entries_inc_f c f' g' v f : entries (inc_f c f' g' v) f = if f' =? f then inc_g (entries c f) g' v else entries c f.
Proof. induction c as [|p t IH]; cbn [inc_f entries fst snd].
  - destruct (f' =? f); reflexivity.
  - destruct (fst p =? f') eqn:E1.
    + apply Z.eqb_eq in E1. cbn [entries fst snd]. rewrite E1. destruct (f' =? f); reflexivity.
    + cbn [entries]. destruct (fst p =? f) eqn:E2; [|exact IH].
      apply Z.eqb_eq in E2. apply Z.eqb_neq in E1. assert (f' =? f = false) by (apply Z.eqb_neq; congruence). rewrite H. reflexivity. Qed.
Lemma get_inc_f c f' g' v f g : (get (inc_f c f' g' v) f g == get c f g + (if (f' =? f) && (g' =? g) then v else 0))%Q.
Proof. unfold get. rewrite entries_inc_f. destruct (f' =? f); cbn [andb]; [apply get_g_inc_g|lra]. Qed.
Lemma zcount_cons f x t : zcount f (x :: t) = (if f =? x then 1 else 0) + zcount f t.
Proof. unfold zcount. cbn [filter]. destruct (f =? x); cbn [length]; lia. Qed.
Lemma get_inc_all f g g' v : forall fs c, (get (inc_all c fs g' v) f g == get c f g + (if g' =? g then inject_Z (zcount f fs) * v else 0))%Q.
Proof. unfold inc_all. induction fs as [|x t IH]; intros c; cbn [fold_left].
  - destruct (g' =? g); [|lra]. change (zcount f []) with 0. change (inject_Z 0) with 0%Q. lra.
  - rewrite IH, get_inc_f, zcount_cons. rewrite (Z.eqb_sym f x).
    destruct (g' =? g); [|rewrite andb_false_r; lra]. rewrite andb_true_r.
    destruct (x =? f); rewrite inject_Z_plus; [change (inject_Z 1) with 1%Q|change (inject_Z 0) with 0%Q]; lra. Qed.
Lemma zcount_nodup f l : NoDup l -> zcount f l = if memz f l then 1 else 0.
Proof. induction l as [|x t IH]; intros H; [reflexivity|]. inversion H; subst. rewrite zcount_cons, (IH H3).
  cbn [memz existsb]. fold (memz f t). destruct (f =? x) eqn:E; cbn [orb]; [|reflexivity].
  apply Z.eqb_eq in E. subst. assert (memz x t = false) by (apply memz_false; exact H2). rewrite H0. reflexivity. Qed.

(* ---------------------------------------------------------------- what one event adds to the cell (f, numeric group id) *)
Definition ev_contrib (cf:cfg) (f gid:Z) (ev:event) : Q :=
  match ev with
  | ERead r =>
      if counted r then
        match lookup_gid cf (ra_group r) with
        | Some g' =>
            if g' =? gid then
              let fs := feats_of (c_level cf) r in
              let t := type_of (c_level cf) r in
              match t with
              | Unique | UniqueMinor => match fs with f0 :: _ => if f0 =? f then 1 else 0 | [] => 0 end
              | Ambiguous => inject_Z (zcount f fs) * process_ambiguous (c_fl cf) (length fs)
              | Inconsistent | InconsNonIntronic | InconsAmbiguous => inject_Z (zcount f fs) * process_inconsistent (c_fl cf) t (length fs)
              | _ => 0
              end
            else 0
        | None => 0
        end
      else 0
  | ERaw true fs g =>
      match lookup_gid cf g with
      | Some g' => if g' =? gid then inject_Z (zcount f fs) * (match fs with [_] => 1 | _ => process_ambiguous (c_fl cf) (length fs) end) else 0
      | None => 0
      end
  | _ => 0
  end%Q.

Lemma inv_qk_nonneg k : (0 <= 1 / qk k)%Q.
Proof. destruct k as [|k]; [unfold qk, Qdiv, Qinv, Qle; simpl; lia|]. apply inv_qk_range. lia. Qed.
Lemma pi_nonneg fl t k : (0 <= process_inconsistent fl t k)%Q.
Proof. unfold process_inconsistent. destruct (is_ia t || Nat.ltb 1 k).
  - destruct (use_amb fl && use_inc fl); [apply inv_qk_nonneg|lra].
  - destruct (use_inc fl); [lra|]. destruct (use_inc_minor fl && is_ni t); lra. Qed.
Lemma qpos_false q : qpos q = false -> (q <= 0)%Q.
Proof. unfold qpos. intros H. apply negb_false_iff in H. apply Qle_bool_iff. exact H. Qed.
Lemma qpos_true q : qpos q = true -> (0 < q)%Q.
Proof. unfold qpos. intros H. apply negb_true_iff in H. destruct (Qlt_le_dec 0 q) as [L|L]; [exact L|].
  apply Qle_bool_iff in L. congruence. Qed.

Lemma counted_false_1 r : is_unassigned (ra_type r) || no_matches r = true -> counted r = false.
Proof. unfold counted. intros H. apply orb_true_iff in H. destruct H as [H|H]; rewrite H; [reflexivity|]. rewrite andb_false_r. reflexivity. Qed.
Lemma counted_false_2 r : first_tr_none r = true -> counted r = false.
Proof. unfold counted. intros H. rewrite H. rewrite andb_false_r. reflexivity. Qed.
Lemma counted_true r : is_unassigned (ra_type r) || no_matches r = false -> first_tr_none r = false -> counted r = true.
Proof. unfold counted. intros H1 H2. apply orb_false_iff in H1. destruct H1 as [A B]. rewrite A, B, H2. reflexivity. Qed.

Lemma some_inj {A} (x y:A) : Some x = Some y -> x = y.
Proof. intros H. injection H. auto. Qed.
Lemma step_get cf st ev st' f gid : step cf st ev = Some st' ->
  (get (fcount st') f gid == get (fcount st) f gid + ev_contrib cf f gid ev)%Q.
Proof. destruct st as [a c cfm na nt nn nl]. destruct ev as [|r|h fs g|n|n|fs]; cbn [step].
  - intros H. apply some_inj in H; subst st'. cbn [fcount ev_contrib]. lra.
  - unfold add_read_info. cbn [ev_contrib].
    destruct (is_unassigned (ra_type r) || no_matches r) eqn:E1.
    { intros H. apply some_inj in H; subst st'. rewrite (counted_false_1 r E1). cbn [fcount]. lra. }
    destruct (first_tr_none r) eqn:E2.
    { intros H. apply some_inj in H; subst st'. rewrite (counted_false_2 r E2). cbn [fcount]. lra. }
    rewrite (counted_true r E1 E2).
    destruct (lookup_gid cf (ra_group r)) as [g'|]; [|discriminate].
    cbv zeta.
    destruct (type_of (c_level cf) r) eqn:T.
    + (* unique *) destruct (feats_of (c_level cf) r) as [|f0 fs0]; [discriminate|].
      intros H. apply some_inj in H; subst st'. cbn [fcount]. rewrite get_inc_f. destruct (g' =? gid); [rewrite andb_true_r|rewrite andb_false_r; lra]. destruct (f0 =? f); lra.
    + destruct (feats_of (c_level cf) r) as [|f0 fs0]; [discriminate|].
      intros H. apply some_inj in H; subst st'. cbn [fcount]. rewrite get_inc_f. destruct (g' =? gid); [rewrite andb_true_r|rewrite andb_false_r; lra]. destruct (f0 =? f); lra.
    + (* ambiguous *) intros H. apply some_inj in H; subst st'. cbn [fcount]. rewrite get_inc_all. destruct (g' =? gid); lra.
    + (* inconsistent *)
      destruct (is_ia Inconsistent && Nat.eqb (length (feats_of (c_level cf) r)) 0 && use_amb (c_fl cf) && use_inc (c_fl cf)); [discriminate|].
      destruct (qpos (process_inconsistent (c_fl cf) Inconsistent (length (feats_of (c_level cf) r)))) eqn:P; intros H; apply some_inj in H; subst st'; cbn [fcount].
      * rewrite get_inc_all. destruct (g' =? gid); lra.
      * apply qpos_false in P. pose proof (pi_nonneg (c_fl cf) Inconsistent (length (feats_of (c_level cf) r))) as N.
        destruct (g' =? gid); [|lra]. set (w := process_inconsistent (c_fl cf) Inconsistent (length (feats_of (c_level cf) r))) in *.
        assert (M: (inject_Z (zcount f (feats_of (c_level cf) r)) * w == 0)%Q) by (assert (Z0: (w == 0)%Q) by lra; setoid_rewrite Z0; ring).
        rewrite M. lra.
    + destruct (is_ia InconsNonIntronic && Nat.eqb (length (feats_of (c_level cf) r)) 0 && use_amb (c_fl cf) && use_inc (c_fl cf)); [discriminate|].
      destruct (qpos (process_inconsistent (c_fl cf) InconsNonIntronic (length (feats_of (c_level cf) r)))) eqn:P; intros H; apply some_inj in H; subst st'; cbn [fcount].
      * rewrite get_inc_all. destruct (g' =? gid); lra.
      * apply qpos_false in P. pose proof (pi_nonneg (c_fl cf) InconsNonIntronic (length (feats_of (c_level cf) r))) as N.
        destruct (g' =? gid); [|lra]. set (w := process_inconsistent (c_fl cf) InconsNonIntronic (length (feats_of (c_level cf) r))) in *.
        assert (M: (inject_Z (zcount f (feats_of (c_level cf) r)) * w == 0)%Q) by (assert (Z0: (w == 0)%Q) by lra; setoid_rewrite Z0; ring).
        rewrite M. lra.
    + destruct (is_ia InconsAmbiguous && Nat.eqb (length (feats_of (c_level cf) r)) 0 && use_amb (c_fl cf) && use_inc (c_fl cf)); [discriminate|].
      destruct (qpos (process_inconsistent (c_fl cf) InconsAmbiguous (length (feats_of (c_level cf) r)))) eqn:P; intros H; apply some_inj in H; subst st'; cbn [fcount].
      * rewrite get_inc_all. destruct (g' =? gid); lra.
      * apply qpos_false in P. pose proof (pi_nonneg (c_fl cf) InconsAmbiguous (length (feats_of (c_level cf) r))) as N.
        destruct (g' =? gid); [|lra]. set (w := process_inconsistent (c_fl cf) InconsAmbiguous (length (feats_of (c_level cf) r))) in *.
        assert (M: (inject_Z (zcount f (feats_of (c_level cf) r)) * w == 0)%Q) by (assert (Z0: (w == 0)%Q) by lra; setoid_rewrite Z0; ring).
        rewrite M. lra.
    + intros H. apply some_inj in H; subst st'. cbn [fcount]. destruct (g' =? gid); lra.
    + intros H. apply some_inj in H; subst st'. cbn [fcount]. destruct (g' =? gid); lra.
    + intros H. apply some_inj in H; subst st'. cbn [fcount]. destruct (g' =? gid); lra.
  - unfold add_read_info_raw. cbn [ev_contrib]. destruct (lookup_gid cf g) as [g'|]; [|discriminate].
    destruct h; cbn [negb].
    + destruct fs as [|f0 [|f1 t]]; intros H; apply some_inj in H; subst st'; cbn [fcount].
      * change (zcount f []) with 0. change (inject_Z 0) with 0%Q. destruct (g' =? gid); lra.
      * rewrite get_inc_f, zcount_cons. change (zcount f []) with 0. rewrite (Z.eqb_sym f f0).
        destruct (g' =? gid); [rewrite andb_true_r|rewrite andb_false_r; lra].
        destruct (f0 =? f); [change (inject_Z (1 + 0)) with 1%Q|change (inject_Z (0 + 0)) with 0%Q]; lra.
      * rewrite get_inc_all. destruct (g' =? gid); lra.
    + intros H. apply some_inj in H; subst st'. cbn [fcount]. lra.
  - intros H. apply some_inj in H; subst st'. cbn [fcount ev_contrib]. lra.
  - intros H. apply some_inj in H; subst st'. cbn [fcount ev_contrib]. lra.
  - intros H. apply some_inj in H; subst st'. cbn [fcount ev_contrib]. lra.
Qed.

Lemma run_get cf f gid : forall evs st st', run cf st evs = Some st' ->
  (get (fcount st') f gid == get (fcount st) f gid + qsum' (map (ev_contrib cf f gid) evs))%Q.
Proof. induction evs as [|e t IH]; intros st st' H; cbn [run] in H.
  - inversion H; subst. cbn [map qsum']. lra.
  - destruct (step cf st e) as [st1|] eqn:S; [|discriminate].
    rewrite (IH st1 st' H), (step_get cf st e st1 f gid S). cbn [map qsum']. lra. Qed.

(* ---------------------------------------------------------------- from numeric group ids to group names, from flags to the documented table *)
Definition sel_agrees (cf:cfg) (gid:Z) (gsel:option Z) : Prop :=
  forall grp g', lookup_gid cf grp = Some g' -> (g' =? gid) = gsel_ok gsel grp.

Lemma NoDup_feats lv r : NoDup (feats_of lv r).
Proof. unfold feats_of. apply NoDup_nodupz. Qed.
Lemma memz_nonempty f l : memz f l = true -> (0 < length l)%nat.
Proof. destruct l; [discriminate|cbn; lia]. Qed.

Lemma ev_contrib_spec cf f gid gsel ev : wf_event cf ev = true -> sel_agrees cf gid gsel ->
  (ev_contrib cf f gid ev == spec_contrib (c_strategy cf) (c_level cf) f gsel ev)%Q.
Proof. intros W S. destruct ev as [|r|h fs g|n|n|fs]; cbn [ev_contrib spec_contrib]; try lra.
  - cbn [wf_event] in W. destruct (counted r) eqn:C; cbn [andb negb orb] in *; [|lra].
    destruct (lookup_gid cf (ra_group r)) as [g'|] eqn:L; [|discriminate]. cbn [andb] in W.
    rewrite (S _ _ L). destruct (gsel_ok gsel (ra_group r)); [|rewrite andb_false_r; lra]. rewrite andb_true_r.
    apply andb_true_iff in W. destruct W as [W1 W2].
    assert (ND: NoDup (feats_of (c_level cf) r)) by apply NoDup_feats.
    remember (feats_of (c_level cf) r) as fs eqn:Efs in *. remember (type_of (c_level cf) r) as t eqn:Et in *. clear Efs Et.
    assert (ZC: zcount f fs = if memz f fs then 1 else 0) by (apply zcount_nodup, ND).
    assert (WT: memz f fs = true -> weight_tk (c_fl cf) t (length fs) = documented (c_strategy cf) t (length fs)).
    { intros M. apply weight_table. apply (memz_nonempty f), M. }
    destruct t; cbn [is_unique negb orb] in W1.
    + apply Nat.eqb_eq in W1. destruct fs as [|f0 [|f1 ft]]; try discriminate. cbn [memz existsb]. rewrite (Z.eqb_sym f f0), orb_false_r.
      destruct (f0 =? f); cbn [documented]; lra.
    + apply Nat.eqb_eq in W1. destruct fs as [|f0 [|f1 ft]]; try discriminate. cbn [memz existsb]. rewrite (Z.eqb_sym f f0), orb_false_r.
      destruct (f0 =? f); cbn [documented]; lra.
    + rewrite ZC. destruct (memz f fs) eqn:M; [|change (inject_Z 0) with 0%Q; lra].
      rewrite <- (WT eq_refl). cbn [weight_tk]. change (inject_Z 1) with 1%Q. lra.
    + rewrite ZC. destruct (memz f fs) eqn:M; [|change (inject_Z 0) with 0%Q; lra].
      rewrite <- (WT eq_refl). cbn [weight_tk]. change (inject_Z 1) with 1%Q. lra.
    + rewrite ZC. destruct (memz f fs) eqn:M; [|change (inject_Z 0) with 0%Q; lra].
      rewrite <- (WT eq_refl). cbn [weight_tk]. change (inject_Z 1) with 1%Q. lra.
    + rewrite ZC. destruct (memz f fs) eqn:M; [|change (inject_Z 0) with 0%Q; lra].
      rewrite <- (WT eq_refl). cbn [weight_tk]. change (inject_Z 1) with 1%Q. lra.
    + cbn [documented]. destruct (memz f fs); lra.
    + cbn [documented]. destruct (memz f fs); lra.
    + cbn [documented]. destruct (memz f fs); lra.
  - cbn [wf_event] in W. destruct h; [|lra]. destruct (lookup_gid cf g) as [g'|] eqn:L; [|discriminate].
    rewrite (S _ _ L). destruct (gsel_ok gsel g); [|lra].
    destruct fs as [|f0 [|f1 ft]]; [change (zcount f []) with 0; change (inject_Z 0) with 0%Q; lra|lra|].
    rewrite <- (weight_table (c_strategy cf) Ambiguous (length (f0 :: f1 :: ft))) by (cbn; lia). cbn [weight_tk]. unfold c_fl. lra.
Qed.

Lemma lookup_ungrouped cf grp : c_ignore cf = true -> c_gids cf = [(c_na cf, 0)] -> lookup_gid cf grp = Some 0.
Proof. intros I G. unfold lookup_gid. rewrite I, G. cbn [assoc fst snd]. rewrite Z.eqb_refl. reflexivity. Qed.
Lemma sel_agrees_ungrouped cf : c_ignore cf = true -> c_gids cf = [(c_na cf, 0)] -> sel_agrees cf 0 None.
Proof. intros I G grp g' L. rewrite (lookup_ungrouped cf grp I G) in L. apply some_inj in L. subst. reflexivity. Qed.
Lemma assoc_In a i l : assoc a l = Some i -> In (a, i) l.
Proof. induction l as [|p t IH]; cbn [assoc]; [discriminate|]. destruct (fst p =? a) eqn:E.
  - intros H. apply some_inj in H. apply Z.eqb_eq in E. left. destruct p; cbn in *; congruence.
  - intros H. right. apply IH, H. Qed.
Lemma NoDup_snd_inj (l:list (Z*Z)) a b i : NoDup (map snd l) -> In (a, i) l -> In (b, i) l -> a = b.
Proof. induction l as [|p t IH]; intros ND Ha Hb; [destruct Ha|]. cbn [map] in ND. inversion ND; subst.
  destruct Ha as [Ha|Ha], Hb as [Hb|Hb].
  - congruence.
  - exfalso. apply H1. subst p. cbn [snd]. apply (in_map snd) in Hb. exact Hb.
  - exfalso. apply H1. subst p. cbn [snd]. apply (in_map snd) in Ha. exact Ha.
  - apply IH; assumption. Qed.
Lemma sel_agrees_grouped cf g gid : c_ignore cf = false -> NoDup (map snd (c_gids cf)) -> assoc g (c_gids cf) = Some gid ->
  sel_agrees cf gid (Some g).
Proof. intros I ND A grp g' L. unfold lookup_gid in L. rewrite I in L. cbn [gsel_ok].
  destruct (g =? grp) eqn:E.
  - apply Z.eqb_eq in E. subst grp. rewrite A in L. apply some_inj in L. subst. apply Z.eqb_refl.
  - apply Z.eqb_neq. intros C. subst g'. apply Z.eqb_neq in E. apply E.
    apply (NoDup_snd_inj (c_gids cf) g grp gid ND); apply assoc_In; assumption. Qed.

(* ---------------------------------------------------------------- the confirmed set *)
Definition model_confirms (cf:cfg) (f:Z) (ev:event) : bool :=
  match ev with
  | ERead r => counted r && is_unique (type_of (c_level cf) r) && confirms (c_level cf) r &&
               match feats_of (c_level cf) r with f0 :: _ => f0 =? f | [] => false end
  | EConfirm fs => memz f fs
  | _ => false
  end.
Lemma step_confirmed cf st ev st' f : step cf st ev = Some st' ->
  memz f (confirmed st') = model_confirms cf f ev || memz f (confirmed st).
Proof. destruct st as [a c cfm na nt nn nl]. destruct ev as [|r|h fs g|n|n|fs]; cbn [step model_confirms].
  - intros H. apply some_inj in H. subst st'. reflexivity.
  - unfold add_read_info.
    destruct (is_unassigned (ra_type r) || no_matches r) eqn:E1.
    { intros H. apply some_inj in H. subst st'. rewrite (counted_false_1 r E1). reflexivity. }
    destruct (first_tr_none r) eqn:E2.
    { intros H. apply some_inj in H. subst st'. rewrite (counted_false_2 r E2). reflexivity. }
    rewrite (counted_true r E1 E2). cbn [andb].
    destruct (lookup_gid cf (ra_group r)) as [g'|]; [|discriminate]. cbv zeta.
    destruct (type_of (c_level cf) r) eqn:T; cbn [is_unique andb].
    + destruct (feats_of (c_level cf) r) as [|f0 fs0]; [discriminate|]. intros H. apply some_inj in H. subst st'. cbn [confirmed].
      destruct (confirms (c_level cf) r); [rewrite memz_addz, (Z.eqb_sym f f0); reflexivity|reflexivity].
    + destruct (feats_of (c_level cf) r) as [|f0 fs0]; [discriminate|]. intros H. apply some_inj in H. subst st'. cbn [confirmed].
      destruct (confirms (c_level cf) r); [rewrite memz_addz, (Z.eqb_sym f f0); reflexivity|reflexivity].
    + intros H. apply some_inj in H. subst st'. reflexivity.
    + destruct (is_ia Inconsistent && Nat.eqb (length (feats_of (c_level cf) r)) 0 && use_amb (c_fl cf) && use_inc (c_fl cf)); [discriminate|].
      destruct (qpos _); intros H; apply some_inj in H; subst st'; reflexivity.
    + destruct (is_ia InconsNonIntronic && Nat.eqb (length (feats_of (c_level cf) r)) 0 && use_amb (c_fl cf) && use_inc (c_fl cf)); [discriminate|].
      destruct (qpos _); intros H; apply some_inj in H; subst st'; reflexivity.
    + destruct (is_ia InconsAmbiguous && Nat.eqb (length (feats_of (c_level cf) r)) 0 && use_amb (c_fl cf) && use_inc (c_fl cf)); [discriminate|].
      destruct (qpos _); intros H; apply some_inj in H; subst st'; reflexivity.
    + intros H. apply some_inj in H. subst st'. reflexivity.
    + intros H. apply some_inj in H. subst st'. reflexivity.
    + intros H. apply some_inj in H. subst st'. reflexivity.
  - unfold add_read_info_raw. destruct (lookup_gid cf g) as [g'|]; [|discriminate].
    destruct (negb h); [intros H; apply some_inj in H; subst st'; reflexivity|].
    destruct fs as [|f0 [|f1 t]]; intros H; apply some_inj in H; subst st'; reflexivity.
  - intros H. apply some_inj in H. subst st'. reflexivity.
  - intros H. apply some_inj in H. subst st'. reflexivity.
  - intros H. apply some_inj in H. subst st'. cbn [confirmed]. apply memz_add_all.
Qed.
Lemma run_confirmed cf f : forall evs st st', run cf st evs = Some st' ->
  memz f (confirmed st') = existsb (model_confirms cf f) evs || memz f (confirmed st).
Proof. induction evs as [|e t IH]; intros st st' H; cbn [run] in H.
  - apply some_inj in H. subst. reflexivity.
  - destruct (step cf st e) as [st1|] eqn:S; [|discriminate].
    rewrite (IH st1 st' H), (step_confirmed cf st e st1 f S). cbn [existsb].
    destruct (model_confirms cf f e), (existsb (model_confirms cf f) t), (memz f (confirmed st)); reflexivity. Qed.
Lemma model_confirms_spec cf f ev : wf_event cf ev = true -> model_confirms cf f ev = spec_confirms (c_level cf) f ev.
Proof. intros W. destruct ev as [|r|h fs g|n|n|fs]; cbn [model_confirms spec_confirms]; try reflexivity.
  cbn [wf_event] in W. destruct (counted r); cbn [negb orb andb] in *; [|reflexivity].
  destruct (is_unique (type_of (c_level cf) r)) eqn:U; cbn [andb]; [|reflexivity].
  destruct (confirms (c_level cf) r); cbn [andb]; [|reflexivity].
  apply andb_true_iff in W. destruct W as [W _]. apply andb_true_iff in W. destruct W as [_ W]. cbn [negb orb] in W.
  apply Nat.eqb_eq in W. destruct (feats_of (c_level cf) r) as [|f0 [|f1 t]]; try discriminate.
  cbn [memz existsb]. rewrite orb_false_r. apply Z.eqb_sym. Qed.

(* ---------------------------------------------------------------- dump: zeroing of unconfirmed features *)
Lemma get_zero_g d g : (get_g (zero_g d) g == 0)%Q.
Proof. induction d as [|p t IH]; cbn [zero_g map get_g fst snd]; [lra|]. destruct (fst p =? g); [lra|exact IH]. Qed.
Lemma entries_zeroed st f : entries (zeroed st) f =
  if memz f (all_feats st) && negb (memz f (confirmed st)) then zero_g (entries (fcount st) f) else entries (fcount st) f.
Proof. unfold zeroed. induction (fcount st) as [|p t IH]; cbn [map entries].
  - destruct (memz f (all_feats st) && negb (memz f (confirmed st))); reflexivity.
  - destruct (fst p =? f) eqn:E.
    + apply Z.eqb_eq in E. subst f.
      destruct (memz (fst p) (all_feats st) && negb (memz (fst p) (confirmed st))); cbn [fst snd]; rewrite Z.eqb_refl; reflexivity.
    + destruct (memz (fst p) (all_feats st) && negb (memz (fst p) (confirmed st))); cbn [fst snd]; rewrite E; exact IH. Qed.
Lemma get_zeroed st f g : memz f (all_feats st) = true ->
  (get (zeroed st) f g == if memz f (confirmed st) then get (fcount st) f g else 0)%Q.
Proof. intros A. unfold get. rewrite entries_zeroed, A. cbn [andb]. destruct (memz f (confirmed st)); cbn [negb]; [lra|apply get_zero_g]. Qed.

Lemma existsb_ext {A} (p q:A -> bool) l : (forall x, In x l -> p x = q x) -> existsb p l = existsb q l.
Proof. induction l as [|x t IH]; intros H; [reflexivity|]. cbn [existsb]. rewrite (H x) by (left; reflexivity). rewrite IH; [reflexivity|].
  intros y Hy. apply H. right. exact Hy. Qed.

(* every cell of a dumped table: zero for an unconfirmed feature, otherwise the documented weighted sum over the records of the selected group *)
Theorem cell_is_weighted_sum cf complete evs st f gid gsel :
  run cf (init_state complete) evs = Some st -> forallb (wf_event cf) evs = true -> sel_agrees cf gid gsel ->
  memz f (all_feats st) = true ->
  (get (zeroed st) f gid == spec_cell (c_strategy cf) (c_level cf) evs f gsel)%Q.
Proof. intros R W S A. rewrite (get_zeroed st f gid A), (run_confirmed cf f evs _ _ R). cbn [init_state confirmed memz existsb]. rewrite orb_false_r.
  rewrite forallb_forall in W.
  rewrite (existsb_ext (model_confirms cf f) (spec_confirms (c_level cf) f) evs) by (intros x Hx; apply model_confirms_spec, W, Hx).
  unfold spec_cell. destruct (existsb (spec_confirms (c_level cf) f) evs); [|lra].
  rewrite (run_get cf f gid evs _ _ R). cbn [init_state fcount]. unfold get at 1. cbn [entries get_g].
  rewrite (qsum'_ext (ev_contrib cf f gid) (spec_contrib (c_strategy cf) (c_level cf) f gsel) evs); [lra|].
  intros x Hx. apply ev_contrib_spec; [apply W, Hx|exact S]. Qed.

(* rows of the ungrouped table *)
Definition ungrouped_cfg (cf:cfg) : Prop := c_ignore cf = true /\ c_gids cf = [(c_na cf, 0)].
Lemma mk_counter_ungrouped enum s lv na z fmt : ungrouped_cfg (mk_counter_gen enum s lv na [] z fmt).
Proof. split; reflexivity. Qed.
Theorem table_is_weighted_sum cf complete evs st : ungrouped_cfg cf ->
  run cf (init_state complete) evs = Some st -> forallb (wf_event cf) evs = true ->
  forall f cells, In (f, cells) (dump_ungrouped cf st) ->
  exists v, cells = [v] /\ (v == spec_cell (c_strategy cf) (c_level cf) evs f None)%Q.
Proof. intros [I G] R W f cells H. unfold dump_ungrouped in H. apply in_flat_map in H. destruct H as [f' [Hf H]].
  destruct (negb (c_zeroes cf) && qzero (get (zeroed st) f' (default_gid cf))); [destruct H|].
  destruct H as [H|[]]. inversion H; subst. eexists. split; [reflexivity|].
  unfold default_gid. rewrite G. cbn [snd].
  apply (cell_is_weighted_sum cf complete evs st f 0 None R W (sel_agrees_ungrouped cf I G)).
  apply memz_In. apply (proj1 (In_sortz f (all_feats st))). exact Hf. Qed.
(* with output_zeroes every feature of the complete list is a row *)
Lemma step_all_feats cf st ev st' f : step cf st ev = Some st' -> memz f (all_feats st) = true -> memz f (all_feats st') = true.
Proof. destruct st as [a c cfm na nt nn nl]. intros H A. cbn [all_feats] in A.
  assert (AA: forall fs, memz f (add_all a fs) = true) by (intros fs; rewrite memz_add_all, A; apply orb_true_r).
  assert (A1: forall x, memz f (addz x a) = true) by (intros x; rewrite memz_addz, A; apply orb_true_r).
  destruct ev as [|r|h fs g|n|n|fs]; cbn [step] in H.
  - apply some_inj in H. subst. exact A.
  - unfold add_read_info in H.
    destruct (is_unassigned (ra_type r) || no_matches r); [apply some_inj in H; subst; exact A|].
    destruct (first_tr_none r); [apply some_inj in H; subst; exact A|].
    destruct (lookup_gid cf (ra_group r)) as [g'|]; [|discriminate]. cbv zeta in H.
    destruct (type_of (c_level cf) r).
    + destruct (feats_of (c_level cf) r); [discriminate|]. apply some_inj in H. subst. apply A1.
    + destruct (feats_of (c_level cf) r); [discriminate|]. apply some_inj in H. subst. apply A1.
    + apply some_inj in H. subst. cbn [all_feats]. destruct (qpos _); [apply AA|exact A].
    + destruct (_ && _ && _ && _); [discriminate|]. destruct (qpos _); apply some_inj in H; subst; [apply AA|exact A].
    + destruct (_ && _ && _ && _); [discriminate|]. destruct (qpos _); apply some_inj in H; subst; [apply AA|exact A].
    + destruct (_ && _ && _ && _); [discriminate|]. destruct (qpos _); apply some_inj in H; subst; [apply AA|exact A].
    + apply some_inj in H. subst. exact A.
    + apply some_inj in H. subst. exact A.
    + apply some_inj in H. subst. exact A.
  - unfold add_read_info_raw in H. destruct (lookup_gid cf g) as [g'|]; [|discriminate].
    destruct (negb h); [apply some_inj in H; subst; exact A|].
    destruct fs as [|f0 [|f1 t]]; apply some_inj in H; subst; [exact A|apply A1|apply AA].
  - apply some_inj in H. subst. exact A.
  - apply some_inj in H. subst. exact A.
  - apply some_inj in H. subst. exact A.
Qed.
Lemma run_all_feats cf f : forall evs st st', run cf st evs = Some st' -> memz f (all_feats st) = true -> memz f (all_feats st') = true.
Proof. induction evs as [|e t IH]; intros st st' H A; cbn [run] in H.
  - apply some_inj in H. subst. exact A.
  - destruct (step cf st e) as [st1|] eqn:S; [|discriminate]. apply (IH st1 st' H). apply (step_all_feats cf st e st1 f S A). Qed.
Theorem complete_features_listed cf complete evs st f : c_ignore cf = true -> c_zeroes cf = true ->
  run cf (init_state complete) evs = Some st -> In f complete -> exists cells, In (f, cells) (dump_ungrouped cf st).
Proof. intros I Z R H. eexists. unfold dump_ungrouped. apply in_flat_map. exists f. split.
  - apply In_sortz. apply memz_In. apply (run_all_feats cf f evs _ _ R). cbn [init_state all_feats]. apply memz_In, In_nodupz, H.
  - rewrite Z. cbn [negb andb]. left. reflexivity. Qed.

(* a unique read with a spliced corrected alignment (or on a mono-exonic isoform) confirms its feature: the cell is the full sum *)
Theorem unique_spliced_confirms s evs r f gsel : In (ERead r) evs -> counted r = true -> is_unique (ra_type r) = true ->
  feats_of TranscriptLevel r = [f] -> (1 < ra_nexons r \/ ra_mono r = true) ->
  (spec_cell s TranscriptLevel evs f gsel == qsum' (map (spec_contrib s TranscriptLevel f gsel) evs))%Q.
Proof. intros H C U F X. unfold spec_cell.
  assert (E: existsb (spec_confirms TranscriptLevel f) evs = true).
  { apply existsb_exists. exists (ERead r). split; [exact H|]. cbn [spec_confirms type_of confirms]. rewrite C, U, F. cbn [andb memz existsb].
    rewrite Z.eqb_refl. destruct X as [X|X]; [apply Z.ltb_lt in X; rewrite X, orb_true_r|rewrite X]; reflexivity. }
  rewrite E. lra. Qed.
Theorem unique_gene_confirms s evs r f gsel : In (ERead r) evs -> counted r = true -> is_unique (ra_gtype r) = true ->
  feats_of GeneLevel r = [f] ->
  (spec_cell s GeneLevel evs f gsel == qsum' (map (spec_contrib s GeneLevel f gsel) evs))%Q.
Proof. intros H C U F. unfold spec_cell.
  assert (E: existsb (spec_confirms GeneLevel f) evs = true).
  { apply existsb_exists. exists (ERead r). split; [exact H|]. cbn [spec_confirms type_of confirms]. rewrite C, U, F. cbn [andb memz existsb].
    rewrite Z.eqb_refl. reflexivity. }
  rewrite E. lra. Qed.

(* ---------------------------------------------------------------- statistics lines *)
Definition amb_ind (lv:level) (ev:event) : bool :=
  match ev with ERead r => counted r && match type_of lv r with Ambiguous => true | _ => false end
              | ERaw true (_ :: _ :: _) _ => true | _ => false end.
Definition nf_ind (ev:event) : Z := match ev with ERead r => if counted r then 0 else 1 | ERaw true [] _ => 1 | EUnassigned n => n | _ => 0 end.
Definition na_ind (ev:event) : Z := match ev with ENone => 1 | ERaw false _ _ => 1 | EUnaligned n => n | _ => 0 end.
Definition usable_ind (ev:event) : Z := match ev with ERead r => if counted r then 1 else 0 | ERaw true (_ :: _) _ => 1 | EUnassigned n => n | _ => 0 end.
Lemma sumz_shift l : forall a, fold_left Z.add l a = a + sumz l.
Proof. unfold sumz. induction l as [|x t IH]; intros a; cbn [fold_left]; [lia|]. rewrite (IH (a + x)), (IH (0 + x)). lia. Qed.
Lemma sumz_cons x t : sumz (x :: t) = x + sumz t.
Proof. unfold sumz at 1. cbn [fold_left]. rewrite sumz_shift. lia. Qed.
Lemma sumz_app a b : sumz (a ++ b) = sumz a + sumz b.
Proof. induction a as [|x t IH]; [reflexivity|]. cbn [app]. rewrite !sumz_cons, IH. lia. Qed.
Lemma spec_ambiguous_cons lv e t : spec_ambiguous lv (e :: t) = (if amb_ind lv e then 1 else 0) + spec_ambiguous lv t.
Proof. unfold spec_ambiguous. cbn [filter]. fold (amb_ind lv e). destruct (amb_ind lv e); cbn [length]; lia. Qed.

Lemma step_stats cf st ev st' : step cf st ev = Some st' ->
  n_amb st' = n_amb st + (if amb_ind (c_level cf) ev then 1 else 0) /\ n_noassign st' = n_noassign st + nf_ind ev /\
  n_noalign st' = n_noalign st + na_ind ev /\ n_tpm st' = n_tpm st + usable_ind ev.
Proof. destruct st as [a c cfm na nt nn nl]. destruct ev as [|r|h fs g|n|n|fs]; cbn [step amb_ind nf_ind na_ind usable_ind].
  - intros H. apply some_inj in H. subst st'. cbn. lia.
  - unfold add_read_info.
    destruct (is_unassigned (ra_type r) || no_matches r) eqn:E1.
    { intros H. apply some_inj in H. subst st'. rewrite (counted_false_1 r E1). cbn. lia. }
    destruct (first_tr_none r) eqn:E2.
    { intros H. apply some_inj in H. subst st'. rewrite (counted_false_2 r E2). cbn. lia. }
    rewrite (counted_true r E1 E2). cbn [andb].
    destruct (lookup_gid cf (ra_group r)) as [g'|]; [|discriminate]. cbv zeta.
    destruct (type_of (c_level cf) r).
    + destruct (feats_of (c_level cf) r); [discriminate|]. intros H. apply some_inj in H. subst st'. cbn. lia.
    + destruct (feats_of (c_level cf) r); [discriminate|]. intros H. apply some_inj in H. subst st'. cbn. lia.
    + intros H. apply some_inj in H. subst st'. cbn. lia.
    + destruct (_ && _ && _ && _); [discriminate|]. destruct (qpos _); intros H; apply some_inj in H; subst st'; cbn; lia.
    + destruct (_ && _ && _ && _); [discriminate|]. destruct (qpos _); intros H; apply some_inj in H; subst st'; cbn; lia.
    + destruct (_ && _ && _ && _); [discriminate|]. destruct (qpos _); intros H; apply some_inj in H; subst st'; cbn; lia.
    + intros H. apply some_inj in H. subst st'. cbn. lia.
    + intros H. apply some_inj in H. subst st'. cbn. lia.
    + intros H. apply some_inj in H. subst st'. cbn. lia.
  - unfold add_read_info_raw. destruct (lookup_gid cf g) as [g'|]; [|discriminate].
    destruct h; cbn [negb]; [|intros H; apply some_inj in H; subst st'; cbn; lia].
    destruct fs as [|f0 [|f1 t]]; intros H; apply some_inj in H; subst st'; cbn; lia.
  - intros H. apply some_inj in H. subst st'. cbn. lia.
  - intros H. apply some_inj in H. subst st'. cbn. lia.
  - intros H. apply some_inj in H. subst st'. cbn. lia.
Qed.
Lemma run_stats cf : forall evs st st', run cf st evs = Some st' ->
  n_amb st' = n_amb st + spec_ambiguous (c_level cf) evs /\ n_noassign st' = n_noassign st + spec_no_feature evs /\
  n_noalign st' = n_noalign st + spec_not_aligned evs /\ n_tpm st' = n_tpm st + sumz (map usable_ind evs).
Proof. induction evs as [|e t IH]; intros st st' H; cbn [run] in H.
  - apply some_inj in H. subst. unfold spec_ambiguous, spec_no_feature, spec_not_aligned, sumz. cbn. lia.
  - destruct (step cf st e) as [st1|] eqn:S; [|discriminate].
    destruct (IH st1 st' H) as [A [B [C D]]]. destruct (step_stats cf st e st1 S) as [A1 [B1 [C1 D1]]].
    rewrite spec_ambiguous_cons. unfold spec_no_feature, spec_not_aligned in *. cbn [map]. rewrite !sumz_cons.
    fold (nf_ind e). fold (na_ind e). lia. Qed.
(* the numbers dumped into the .stats file are the tallies of ambiguous / unassigned / unaligned reads *)
Theorem stats_lines_count cf complete evs st : run cf (init_state complete) evs = Some st ->
  n_amb st = spec_ambiguous (c_level cf) evs /\ n_noassign st = spec_no_feature evs /\ n_noalign st = spec_not_aligned evs.
Proof. intros R. destruct (run_stats cf evs _ _ R) as [A [B [C _]]]. cbn [init_state n_amb n_noassign n_noalign] in *. lia. Qed.

(* ---------------------------------------------------------------- per-chromosome merge *)
Definition mentions (lv:level) (f:Z) (ev:event) : bool :=
  match ev with ERead r => memz f (feats_of lv r) | ERaw _ fs _ => memz f fs | EConfirm fs => memz f fs | _ => false end.
Lemma zcount_notin f l : memz f l = false -> zcount f l = 0.
Proof. induction l as [|x t IH]; intros H; [reflexivity|]. cbn [memz existsb] in H. apply orb_false_iff in H. destruct H as [H1 H2].
  rewrite zcount_cons, H1. fold (memz f t) in H2. rewrite (IH H2). reflexivity. Qed.
Lemma unmentioned_contrib s lv f gsel ev : mentions lv f ev = false -> (spec_contrib s lv f gsel ev == 0)%Q.
Proof. destruct ev as [|r|h fs g|n|n|fs]; cbn [mentions spec_contrib]; intros M; try lra.
  - rewrite M, andb_false_r. cbn [andb]. lra.
  - destruct h; [|lra]. rewrite (zcount_notin f fs M). change (inject_Z 0) with 0%Q. destruct (gsel_ok gsel g); lra. Qed.
Lemma unmentioned_confirms lv f ev : mentions lv f ev = false -> spec_confirms lv f ev = false.
Proof. destruct ev as [|r|h fs g|n|n|fs]; cbn [mentions spec_confirms]; intros M; try reflexivity; [rewrite M; apply andb_false_r|exact M]. Qed.
Lemma existsb_false {A} (p:A -> bool) l : (forall x, In x l -> p x = false) -> existsb p l = false.
Proof. induction l as [|x t IH]; intros H; [reflexivity|]. cbn [existsb]. rewrite (H x) by (left; reflexivity). apply IH. intros y Hy. apply H. right. exact Hy. Qed.
(* a feature occurs on one chromosome only: its cell in the table of all records is its cell in that chromosome's table *)
Theorem merge_is_table_of_concat_l s lv e1 e2 f gsel : (forall ev, In ev e2 -> mentions lv f ev = false) ->
  (spec_cell s lv (e1 ++ e2) f gsel == spec_cell s lv e1 f gsel)%Q.
Proof. intros H. unfold spec_cell. rewrite existsb_app, map_app.
  rewrite (existsb_false _ e2) by (intros x Hx; apply unmentioned_confirms, H, Hx). rewrite orb_false_r.
  destruct (existsb (spec_confirms lv f) e1); [|lra]. rewrite qsum'_app.
  rewrite (qsum'_zero _ e2) by (intros x Hx; apply unmentioned_contrib, H, Hx). lra. Qed.
Theorem merge_is_table_of_concat_r s lv e1 e2 f gsel : (forall ev, In ev e1 -> mentions lv f ev = false) ->
  (spec_cell s lv (e1 ++ e2) f gsel == spec_cell s lv e2 f gsel)%Q.
Proof. intros H. unfold spec_cell. rewrite existsb_app, map_app.
  rewrite (existsb_false _ e1) by (intros x Hx; apply unmentioned_confirms, H, Hx). cbn [orb].
  destruct (existsb (spec_confirms lv f) e2); [|lra]. rewrite qsum'_app.
  rewrite (qsum'_zero _ e1) by (intros x Hx; apply unmentioned_contrib, H, Hx). lra. Qed.
Lemma spec_ambiguous_app lv a b : spec_ambiguous lv (a ++ b) = spec_ambiguous lv a + spec_ambiguous lv b.
Proof. unfold spec_ambiguous. rewrite filter_app, app_length. lia. Qed.
(* merge_counts on two chromosomes: rows are concatenated (each row being that chromosome's weighted sum = the whole run's),
   the statistics lines are the tallies over all records, the unmapped count of the BAM overrides __not_aligned when positive *)
Theorem merge_two_chromosomes cf c1 c2 e1 e2 o1 o2 unaligned : ungrouped_cfg cf ->
  run_chr cf (c1, e1) = Some o1 -> run_chr cf (c2, e2) = Some o2 ->
  let m := merge cf [o1; o2] unaligned in
  mg_rows m = o_rows o1 ++ o_rows o2 /\
  mg_stats m = Some (spec_ambiguous (c_level cf) (e1 ++ e2), spec_no_feature (e1 ++ e2),
                     if 0 <? unaligned then unaligned else spec_not_aligned (e1 ++ e2)) /\
  mg_usable m = sumz (map usable_ind (e1 ++ e2)).
Proof. intros [I G] R1 R2. unfold run_chr in *. cbn [fst snd] in *.
  destruct (run cf (init_state c1) e1) as [s1|] eqn:E1; [|discriminate]. destruct (run cf (init_state c2) e2) as [s2|] eqn:E2; [|discriminate].
  apply some_inj in R1. apply some_inj in R2. subst o1 o2.
  destruct (run_stats cf e1 _ _ E1) as [A1 [B1 [C1 D1]]]. destruct (run_stats cf e2 _ _ E2) as [A2 [B2 [C2 D2]]].
  cbn [init_state n_amb n_noassign n_noalign n_tpm] in *.
  unfold merge. rewrite I. cbn [flat_map mg_rows mg_stats mg_usable map]. unfold dump. rewrite I. cbn [o_rows o_stats stats_of fst snd].
  rewrite app_nil_r. split; [reflexivity|]. rewrite !sumz_cons. change (sumz []) with 0.
  rewrite spec_ambiguous_app. unfold spec_no_feature, spec_not_aligned in *. rewrite !map_app, !sumz_app.
  split; [|lia]. f_equal. f_equal; [f_equal; lia|]. destruct (0 <? unaligned); [reflexivity|lia]. Qed.

(* ---------------------------------------------------------------- TPM *)
Lemma qpos_of_lt q : (0 < q)%Q -> qpos q = true.
Proof. intros H. unfold qpos. apply negb_true_iff. destruct (Qle_bool q 0) eqn:E; [|reflexivity]. apply Qle_bool_iff in E. lra. Qed.
Lemma qzero_eq q : qzero q = true -> (q == 0)%Q.
Proof. unfold qzero. apply Qeq_bool_eq. Qed.
Lemma qsum_scaled scale b rows :
  (qsum' (map (col 0) (flat_map (fun r:Z * list Q => let v := scale * col 0 r in if b && qzero v then [] else [(fst r, [v])]) rows))
   == scale * qsum' (map (col 0) rows))%Q.
Proof. induction rows as [|r t IH]; cbn [flat_map map qsum']; [lra|]. cbv zeta. rewrite map_app, qsum'_app, IH.
  destruct (b && qzero (scale * col 0 r)) eqn:E.
  - apply andb_true_iff in E. destruct E as [_ E]. apply qzero_eq in E. cbn [map qsum']. lra.
  - cbn [map qsum']. unfold col at 1. cbn [nth snd]. lra. Qed.
(* simple normalisation of an ungrouped table with a positive total: one common scale factor (all ratios preserved), values sum to 10^6 *)
Lemma tpm_ungrouped_unfold cf u n r0 rt : c_ignore cf = true ->
  tpm cf u n (r0 :: rt) =
  (let rows := r0 :: rt in
   let total := qsum' (map (col 0) rows) in
   let use := u && negb (n =? 0) in
   let scale := if use then (million / inject_Z n)%Q else scale_of total in
   let unas := if use then (million * (1 - total / inject_Z n))%Q else 0%Q in
   (flat_map (fun r => let v := (scale * col 0 r)%Q in if negb (c_zeroes cf) && qzero v then [] else [(fst r, [v])]) rows, Some unas)).
Proof. intros I. unfold tpm. rewrite I. reflexivity. Qed.
Theorem tpm_scales cf n rows total : c_ignore cf = true -> total = qsum' (map (col 0) rows) -> (0 < total)%Q ->
  (qsum' (map (col 0) (fst (tpm cf false n rows))) == million)%Q /\
  (forall f cells, In (f, cells) (fst (tpm cf false n rows)) -> exists r, In r rows /\ fst r = f /\ cells = [(million / total * col 0 r)%Q]) /\
  (c_zeroes cf = true -> forall r, In r rows -> In (fst r, [(million / total * col 0 r)%Q]) (fst (tpm cf false n rows))).
Proof. intros I ET P. destruct rows as [|r0 rt]; [subst total; cbn in P; lra|].
  rewrite (tpm_ungrouped_unfold cf false n r0 rt I). cbv zeta. cbn [andb fst]. rewrite <- ET. unfold scale_of. rewrite (qpos_of_lt total P).
  split; [|split].
  - rewrite qsum_scaled. rewrite <- ET. field. lra.
  - intros f cells H. apply in_flat_map in H. destruct H as [r [Hr H]]. cbv zeta in H.
    destruct (negb (c_zeroes cf) && qzero (million / total * col 0 r)); [destruct H|]. destruct H as [H|[]]. inversion H; subst f cells.
    exists r. split; [exact Hr|split; reflexivity].
  - intros Z r Hr. apply in_flat_map. exists r. split; [exact Hr|]. cbv zeta. rewrite Z. cbn [negb andb]. left. reflexivity. Qed.
(* usable_reads normalisation: the same ratios, and together with the __unassigned line the values add up to 10^6 *)
Theorem tpm_usable_reads cf n rows : c_ignore cf = true -> rows <> [] -> n <> 0 ->
  exists u, snd (tpm cf true n rows) = Some u /\ (qsum' (map (col 0) (fst (tpm cf true n rows))) + u == million)%Q /\
  (forall f cells, In (f, cells) (fst (tpm cf true n rows)) -> exists r, In r rows /\ fst r = f /\ cells = [(million / inject_Z n * col 0 r)%Q]).
Proof. intros I NE N. destruct rows as [|r0 rt]; [contradiction|].
  rewrite (tpm_ungrouped_unfold cf true n r0 rt I). cbv zeta.
  assert (E: (n =? 0) = false) by (apply Z.eqb_neq; exact N). rewrite E. cbn [andb negb fst snd].
  eexists. split; [reflexivity|]. split.
  - rewrite qsum_scaled. field. intros C. apply N. unfold Qeq in C. cbn in C. lia.
  - intros f cells H. apply in_flat_map in H. destruct H as [r [Hr H]]. cbv zeta in H.
    destruct (negb (c_zeroes cf) && qzero (million / inject_Z n * col 0 r)); [destruct H|]. destruct H as [H|[]]. inversion H; subst f cells.
    exists r. split; [exact Hr|split; reflexivity]. Qed.
