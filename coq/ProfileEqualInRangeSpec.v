(* C19: equal_profiles_in_range of src/common.py, regenerated into gen/Loops.v on every check (loop over an unpacked range pair, `continue` and
   `return False` exits), is its declarative reading (ProfileHelpers2.v) for every range inside the profiles; no exception is possible there. *)
From Coq Require Import ZArith List Bool Lia ZifyBool.
From IQ.gen Require Import Prims Loops.
From IQ Require Import LoopsSupport ProfileHelpers ProfileHelpers2 LoopsRangeSupport.
Import ListNotations. Open Scope Z_scope.

Theorem equal_profiles_in_range_spec iso read rg : length iso = length read -> range_ok iso rg = true ->
  py_equal_profiles_in_range iso read rg = spec_equal_in_range iso read rg /\ py_equal_profiles_in_range_pre iso read rg = true.
Proof. intros L R. unfold py_equal_profiles_in_range, py_equal_profiles_in_range_pre, spec_equal_in_range. cbv zeta. split.
  - change (map (fun k_ => Z.add (fst rg) (Z.of_nat k_)) (seq 0 (Z.to_nat (Z.sub (snd rg) (fst rg))))) with (zrange rg).
    set (g := fun (s:option bool) (x y:Z) => match s with Some _ => s | None => if y =? 0 then None else if negb (x =? y) then Some false else None end).
    change (py_equal_profiles_in_range_step iso read rg) with (fun (s:option bool) (i:Z) => g s (py_index iso i 0) (py_index read i 0)).
    rewrite (fold_range_slices g iso read rg None L R).
    induction (combine (slice iso rg) (slice read rg)) as [|x t IH]; [reflexivity|]. cbn [fold_left forallb]. unfold g at 2.
    destruct (snd x =? 0); cbn [orb andb]; [exact IH|]. destruct (fst x =? snd x); cbn [negb andb]; [exact IH|].
    rewrite ProfileHelpers.fold_option_some by (intros; reflexivity). reflexivity.
  - apply forallb_forall. intros i Hi.
    change (map (fun k_ => Z.add (fst rg) (Z.of_nat k_)) (seq 0 (Z.to_nat (Z.sub (snd rg) (fst rg))))) with (zrange rg) in Hi.
    rewrite (range_indices_ok iso rg R i Hi). rewrite (range_indices_ok read rg) by (rewrite <- ?(range_ok_same_length iso read rg L); assumption). reflexivity. Qed.
