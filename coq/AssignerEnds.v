(* C01: lemmas and theorems about the models of AssignerEndsDefs.v (exon elongation subtype, polyA verification) *)
From Coq Require Import ZArith NArith QArith List Bool Lia ZifyBool.
From IQ Require Import CorrSupport Intervals Junctions Assigner.
From IQ Require Export AssignerEndsDefs.
From IQ.gen Require Import Tables Prims.
Require IQ.Corrector.
Require IQ.PolyA2.
Import ListNotations. Open Scope Z_scope.
(* ---------------------------------------------------------------- theorems *)
Lemma emit_side_In P term extra a b c d e : In e (emit_side P term extra a b c d) ->
  (e = xe a extra /\ term = true /\ Z.abs extra <= p_delta P /\ Z.abs extra <= p_minor_ext P) \/
  (e = xe b extra /\ term = true /\ p_delta P < Z.abs extra <= p_minor_ext P) \/
  (e = xe c extra /\ term = true /\ extra > p_minor_ext P) \/
  (e = xe d extra /\ p_delta P < extra <= p_minor_ext P).
Proof. unfold emit_side. intros H. destruct term.
  - apply in_app_or in H. destruct H as [H|H].
    + destruct (Z.abs extra <=? p_minor_ext P) eqn:E1; [|destruct H]. destruct (Z.abs extra <=? p_delta P) eqn:E2; destruct H as [H|[]]; subst e.
      * left. repeat split; lia.
      * right; left. repeat split; lia.
    + destruct (extra >? p_minor_ext P) eqn:E1.
      * destruct H as [H|[]]; subst e. right; right; left. repeat split; lia.
      * destruct (extra >? p_delta P) eqn:E2; [|destruct H]. destruct H as [H|[]]; subst e. right; right; right. repeat split; lia.
  - destruct ((p_minor_ext P >=? extra) && (extra >? p_delta P)) eqn:E1; [|destruct H]. destruct H as [H|[]]; subst e.
    right; right; right. repeat split; lia. Qed.

Lemma emit_In P prange v e : In e (emit P prange v) ->
  (py_overlaps (v_fe v) (v_sf v) = true /\
   In e (emit_side P (v_cfe v =? fst prange) (extra_left v) MES_terminal_site_match_left_precise MES_terminal_site_match_left MES_major_exon_elongation_left MES_exon_elongation_left)) \/
  (py_overlaps (v_le v) (v_sl v) = true /\
   In e (emit_side P (v_cle v =? snd prange - 1) (extra_right v) MES_terminal_site_match_right_precise MES_terminal_site_match_right MES_major_exon_elongation_right MES_exon_elongation_right)).
Proof. unfold emit, emit_left, emit_right. intros H. apply in_app_or in H. destruct H as [H|H].
  - left. destruct (py_overlaps (v_fe v) (v_sf v)); [split; [reflexivity|exact H]|destruct H].
  - right. destruct (py_overlaps (v_le v) (v_sl v)); [split; [reflexivity|exact H]|destruct H]. Qed.

Lemma elongation_ok_inv P split isop prange rp rrange rfeat evs :
  elongation_subtype P split isop prange rp rrange rfeat = Ok evs ->
  exists v, elong_view split isop prange rp rrange rfeat = Ok v /\ evs = emit P prange v.
Proof. unfold elongation_subtype. destruct (elong_view split isop prange rp rrange rfeat) as [v|k]; [|discriminate].
  intros H. injection H as <-. exists v. split; reflexivity. Qed.

(* every emitted event is a terminal-site match or an exon elongation *)
Theorem elongation_types : forall P split isop prange rp rrange rfeat evs,
  elongation_subtype P split isop prange rp rrange rfeat = Ok evs ->
  forall e, In e evs -> In (x_type e) elongation_type_list.
Proof. intros P split isop prange rp rrange rfeat evs H e He. destruct (elongation_ok_inv _ _ _ _ _ _ _ _ H) as [v [_ ->]].
  apply emit_In in He. destruct He as [[_ He]|[_ He]]; apply emit_side_In in He;
    destruct He as [[-> _]|[[-> _]|[[-> _]|[-> _]]]]; cbn [x_type xe elongation_type_list In]; tauto. Qed.

Lemma has_type_app t a b : has_type t (a ++ b) = has_type t a || has_type t b.
Proof. unfold has_type. apply existsb_app. Qed.

Lemma emit_side_major P term extra a b c d : MES_eqb a c = false -> MES_eqb b c = false -> MES_eqb d c = false -> MES_eqb c c = true ->
  has_type c (emit_side P term extra a b c d) = term && (extra >? p_minor_ext P).
Proof. intros Ha Hb Hd Hc. unfold emit_side, has_type, has_ty. destruct term; cbn [andb].
  - rewrite existsb_app. repeat dif; cbn [existsb x_type xe orb]; rewrite ?Ha, ?Hb, ?Hd, ?Hc; reflexivity.
  - dif; cbn [existsb x_type xe orb]; rewrite ?Hd; reflexivity. Qed.
Lemma emit_side_other P term extra a b c d t : MES_eqb a t = false -> MES_eqb b t = false -> MES_eqb c t = false -> MES_eqb d t = false ->
  has_type t (emit_side P term extra a b c d) = false.
Proof. intros Ha Hb Hc Hd. unfold emit_side, has_type, has_ty. destruct term.
  - rewrite existsb_app. repeat dif; cbn [existsb x_type xe orb]; rewrite ?Ha, ?Hb, ?Hc, ?Hd; reflexivity.
  - dif; cbn [existsb x_type xe orb]; rewrite ?Hd; reflexivity. Qed.

Lemma emit_major_left P prange v : has_type MES_major_exon_elongation_left (emit P prange v) = major_left_cond P prange v.
Proof. unfold emit, emit_left, emit_right, major_left_cond. rewrite has_type_app.
  destruct (py_overlaps (v_fe v) (v_sf v)); destruct (py_overlaps (v_le v) (v_sl v)); cbn [andb has_type existsb orb];
    rewrite ?emit_side_major, ?emit_side_other by reflexivity; rewrite ?orb_false_r; reflexivity. Qed.
Lemma emit_major_right P prange v : has_type MES_major_exon_elongation_right (emit P prange v) = major_right_cond P prange v.
Proof. unfold emit, emit_left, emit_right, major_right_cond. rewrite has_type_app.
  destruct (py_overlaps (v_fe v) (v_sf v)); destruct (py_overlaps (v_le v) (v_sl v)); cbn [andb has_type existsb orb];
    rewrite ?emit_side_major, ?emit_side_other by reflexivity; rewrite ?orb_false_l; reflexivity. Qed.

(* a major elongation is reported exactly when the terminal read exon overlaps the common split exon, that exon is the isoform's
   terminal one, and the read extends it by more than minor_exon_extension *)
Theorem elongation_major_iff : forall P split isop prange rp rrange rfeat evs,
  elongation_subtype P split isop prange rp rrange rfeat = Ok evs ->
  exists v, elong_view split isop prange rp rrange rfeat = Ok v /\
    (has_type MES_major_exon_elongation_left evs = true <->
       py_overlaps (v_fe v) (v_sf v) = true /\ v_cfe v = fst prange /\ extra_left v > p_minor_ext P) /\
    (has_type MES_major_exon_elongation_right evs = true <->
       py_overlaps (v_le v) (v_sl v) = true /\ v_cle v = snd prange - 1 /\ extra_right v > p_minor_ext P).
Proof. intros P split isop prange rp rrange rfeat evs H. destruct (elongation_ok_inv _ _ _ _ _ _ _ _ H) as [v [Hv ->]].
  exists v. split; [exact Hv|]. rewrite emit_major_left, emit_major_right. unfold major_left_cond, major_right_cond. split.
  - destruct (py_overlaps (v_fe v) (v_sf v)); cbn [andb]; split; try (intros [? _]; discriminate); try discriminate; intros; [repeat split|]; lia.
  - destruct (py_overlaps (v_le v) (v_sl v)); cbn [andb]; split; try (intros [? _]; discriminate); try discriminate; intros; [repeat split|]; lia. Qed.

(* read ends inside the common exons (up to delta): only terminal-site matches are reported.  The hypothesis delta <= minor_exon_extension
   holds for every preset (Assigner.presets_sane) and is needed: see elongation_inside_consistent_refuted *)
Theorem elongation_inside_consistent : forall P split isop prange rp rrange rfeat evs v,
  p_delta P <= p_minor_ext P ->
  elongation_subtype P split isop prange rp rrange rfeat = Ok evs ->
  elong_view split isop prange rp rrange rfeat = Ok v ->
  extra_left v <= p_delta P -> extra_right v <= p_delta P ->
  forall e, In e evs -> ev_consistent (x_type e) = true.
Proof. intros P split isop prange rp rrange rfeat evs v Hd H Hv Hl Hr e He.
  destruct (elongation_ok_inv _ _ _ _ _ _ _ _ H) as [v' [Hv' ->]]. rewrite Hv in Hv'. injection Hv' as <-.
  apply emit_In in He. destruct He as [[_ He]|[_ He]]; apply emit_side_In in He;
    destruct He as [[-> _]|[[-> _]|[[-> [_ ?]]|[-> ?]]]]; try reflexivity; lia. Qed.

(* a minor exon elongation is longer than delta and at most minor_exon_extension *)
Theorem elongation_minor_bound : forall P split isop prange rp rrange rfeat evs,
  elongation_subtype P split isop prange rp rrange rfeat = Ok evs ->
  forall e, In e evs -> x_type e = MES_exon_elongation_left \/ x_type e = MES_exon_elongation_right ->
  p_delta P < x_info e <= p_minor_ext P.
Proof. intros P split isop prange rp rrange rfeat evs H e He Ht. destruct (elongation_ok_inv _ _ _ _ _ _ _ _ H) as [v [_ ->]].
  apply emit_In in He. destruct He as [[_ He]|[_ He]]; apply emit_side_In in He;
    destruct He as [[-> _]|[[-> _]|[[-> _]|[-> ?]]]]; cbn [x_type xe x_info] in *; try lia; destruct Ht; discriminate. Qed.

(* the model's output satisfies the decidable specification that the correspondence evaluates on the implementation's output *)
Theorem elong_spec_sound : forall P prange v, elong_spec P prange v (emit P prange v) = true.
Proof. intros P prange v. unfold elong_spec. rewrite emit_major_left, emit_major_right, !eqb_reflx. cbn [andb].
  repeat (apply andb_true_intro; split).
  - apply forallb_forall. intros e He. apply emit_In in He. destruct He as [[_ He]|[_ He]]; apply emit_side_In in He;
      destruct He as [[-> _]|[[-> _]|[[-> _]|[-> _]]]]; reflexivity.
  - reflexivity.
  - reflexivity.
  - destruct ((p_delta P <=? p_minor_ext P) && (extra_left v <=? p_delta P) && (extra_right v <=? p_delta P)) eqn:E; [|reflexivity].
    cbn [negb orb]. apply forallb_forall. intros e He. apply emit_In in He. destruct He as [[_ He]|[_ He]]; apply emit_side_In in He;
      destruct He as [[-> _]|[[-> _]|[[-> [_ ?]]|[-> ?]]]]; try reflexivity; lia.
  - apply forallb_forall. intros e He. apply emit_In in He. destruct He as [[_ He]|[_ He]]; apply emit_side_In in He;
      destruct He as [[-> _]|[[-> _]|[[-> _]|[-> ?]]]]; try reflexivity; unfold is_minor_elong, has_ty; cbn [x_type xe x_info negb orb]; cbn; lia. Qed.

(* without delta <= minor_exon_extension a read end inside the tolerance is reported as a MAJOR elongation *)
Example elongation_inside_consistent_refuted :
  let P := mkP 5 0 0 0 0 0 2 6 0 0 0 0 0 0 0 in
  let v := mkV 0 0 (6, 20) (6, 20) (10, 20) (10, 20) in
  elong_view [(10, 20)] [1] (0, 1) [1] (0, 1) [(6, 20)] = Ok v /\ extra_left v <= p_delta P /\ extra_right v <= p_delta P /\
  elongation_subtype P [(10, 20)] [1] (0, 1) [1] (0, 1) [(6, 20)] = Ok [xe MES_major_exon_elongation_left 4; xe MES_terminal_site_match_right_precise 0] /\
  ev_consistent MES_major_exon_elongation_left = false.
Proof. vm_compute. repeat split; intros; discriminate. Qed.

(* the "Odd case" (the code only logs a warning): no common exon -> both indices are -1 and Python's split_exons[-1] is the LAST split
   exon of the gene; -1 never equals a profile-range bound, so the non-terminal branch runs and a minor elongation relative to that
   unrelated exon can be reported.  Second example: objects built by the real constructors (read (8,9),(15,16) with an external polyA
   position 7, which turns the read profile into [0,-2,-2]) *)
Example odd_case_uses_last_split_exon :
  elongation_subtype (params_of MS_default) [(10, 20); (30, 40); (60, 90)] [1; 1; -2] (0, 2) [0; 0; 1] (2, 3) [(50, 95)]
  = Ok [xe MES_exon_elongation_left 10].
Proof. vm_compute. reflexivity. Qed.
Example odd_case_real_objects :
  elongation_subtype (mkP 0 2 4 1 2 1 1 6 2 (1 # 2) 2 1 (1 # 2) 3 1) [(3, 5); (8, 10); (13, 15)] [1; 1; 1] (0, 3) [0; -2; -2] (1, 3) [(8, 9); (15, 16)]
  = Ok [xe MES_exon_elongation_right 1] /\
  common_first [(3, 5); (8, 10); (13, 15)] [1; 1; 1] (0, 3) [0; -2; -2] (1, 3) = Ok (-1).
Proof. vm_compute. split; reflexivity. Qed.

(* ---------------------------------------------------------------- lemmas *)
Lemma MESeqb_refl t : MES_eqb t t = true. Proof. apply MES_eqb_eq. reflexivity. Qed.
Lemma xev_eqb_refl e : xev_eqb e e = true.
Proof. unfold xev_eqb, iv_eqb. rewrite MESeqb_refl, !Z.eqb_refl. reflexivity. Qed.
Lemma xev_eqb_eq a b : xev_eqb a b = true -> a = b.
Proof. destruct a as [t1 [i1 i2] [r1 r2] n1], b as [t2 [j1 j2] [s1 s2] n2]. unfold xev_eqb, iv_eqb. cbn [x_type x_iso x_read x_info fst snd].
  intros H. apply andb_prop in H. destruct H as [H H4]. apply andb_prop in H. destruct H as [H H3]. apply andb_prop in H. destruct H as [H1 H2].
  apply MES_eqb_eq in H1. subst t2. f_equal; [f_equal; lia|f_equal; lia|lia]. Qed.
Lemma xmem_In e l : xmem e l = true <-> In e l.
Proof. unfold xmem. rewrite existsb_exists. split.
  - intros [x [Hx He]]. apply xev_eqb_eq in He. subst x. exact Hx.
  - intros H. exists e. split; [exact H|apply xev_eqb_refl]. Qed.

Lemma remove_last_sub f l e : In e (remove_last f l) -> In e l.
Proof. induction l as [|a t IH]; cbn [remove_last]; [tauto|]. destruct (f a && negb (existsb f t)); cbn [In]; tauto. Qed.
Lemma remove_last_keeps f l e : In e l -> In e (remove_last f l) \/ f e = true.
Proof. induction l as [|a t IH]; cbn [remove_last In]; [tauto|]. intros [->|H].
  - destruct (f e && negb (existsb f t)) eqn:E; [right; apply andb_prop in E; tauto|left; left; reflexivity].
  - destruct (f a && negb (existsb f t)); [left; exact H|]. destruct (IH H); [left; right; assumption|right; assumption]. Qed.
Lemma remove_last_none f l : existsb f l = false -> remove_last f l = l.
Proof. induction l as [|a t IH]; cbn [remove_last existsb]; [reflexivity|]. intros H. apply orb_false_elim in H. destruct H as [H1 H2].
  rewrite H1. cbn [andb]. rewrite (IH H2). reflexivity. Qed.

Lemma shape_refl f evs : shape f evs evs.
Proof. exists evs, []. rewrite app_nil_r. repeat split; [left; reflexivity|constructor]. Qed.

Lemma check_if_close_inv P iso_end ext int evs ty r : check_if_close P iso_end ext int evs ty = Some r -> exists x, r = evs ++ [xe ty x].
Proof. unfold check_if_close. repeat dif; intros H; try discriminate; injection H as <-; eexists; reflexivity. Qed.

Lemma Forall_tem (t:MES) (g:Z -> Z) l : mem t polya_new_types = true -> Forall (fun e => new_type e = true) (map (fun i => tem t (g i)) l).
Proof. intros H. apply Forall_forall. intros e He. apply in_map_iff in He. destruct He as [i [<- _]]. exact H. Qed.

Lemma beyond_polya_inv P iso ext int evs : exists added, fst (fst (beyond_polya P iso ext int evs)) = evs ++ added /\ Forall (fun e => new_type e = true) added.
Proof. unfold beyond_polya. repeat dif; cbn [fst];
    first [exists []; rewrite app_nil_r; split; [reflexivity|constructor]
          |eexists; split; [reflexivity|apply (Forall_tem MES_terminal_exon_misalignment_right (fun i => lenz iso - 2 - i)); reflexivity]]. Qed.
Lemma before_polyt_inv P iso ext int evs : exists added, fst (fst (before_polyt P iso ext int evs)) = evs ++ added /\ Forall (fun e => new_type e = true) added.
Proof. unfold before_polyt. repeat dif; cbn [fst];
    first [exists []; rewrite app_nil_r; split; [reflexivity|constructor]
          |eexists; split; [reflexivity|apply (Forall_tem MES_terminal_exon_misalignment_left (fun i => i)); reflexivity]]. Qed.

Lemma final_event_new P a b c : new_type (final_event P a b c MES_alternative_polya_site_right MES_correct_polya_site_right) = true /\
                                new_type (final_event P a b c MES_alternative_polya_site_left MES_correct_polya_site_left) = true.
Proof. unfold final_event, new_type. cbn [x_type xe]. split; dif; reflexivity. Qed.

Lemma verify_polya_shape P iso rex pa evs out : verify_polya P iso rex pa evs = Ok out ->
  exists added, out = remove_last is_elong_right evs ++ added /\ added <> [] /\ Forall (fun e => new_type e = true) added.
Proof. unfold verify_polya. destruct iso as [|i0 iso']; [discriminate|]. set (iso := i0 :: iso').
  destruct (check_if_close P (snd (last iso (0, 0))) (pa_ext_a pa) (pa_int_a pa) (remove_last is_elong_right evs) MES_correct_polya_site_right) as [r|] eqn:E1.
  - intros H. injection H as <-. apply check_if_close_inv in E1. destruct E1 as [x ->]. eexists. split; [reflexivity|]. split; [discriminate|]. repeat constructor.
  - dif; [discriminate|]. cbv zeta.
    set (c := if 0 <? countz (has_ty MES_terminal_exon_misalignment_right) evs then _ else _).
    assert (H2: exists added, fst (fst c) = remove_last is_elong_right evs ++ added /\ Forall (fun e => new_type e = true) added).
    { subst c. dif; [exists []; rewrite app_nil_r; split; [reflexivity|constructor]|apply beyond_polya_inv]. }
    destruct H2 as [added [-> Hadd]].
    destruct (check_if_close P (snd (last iso (0, 0))) (snd (fst c)) (snd c) (remove_last is_elong_right evs ++ added) MES_correct_polya_site_right) as [r|] eqn:E3.
    + intros H. injection H as <-. apply check_if_close_inv in E3. destruct E3 as [x ->]. rewrite <- app_assoc. eexists. split; [reflexivity|].
      split; [destruct added; discriminate|]. apply Forall_app. split; [exact Hadd|repeat constructor].
    + intros H. injection H as <-. rewrite <- app_assoc. eexists. split; [reflexivity|].
      split; [destruct added; discriminate|]. apply Forall_app. split; [exact Hadd|]. constructor; [apply final_event_new|constructor]. Qed.

Lemma verify_polyt_shape P iso rex pa evs out : verify_polyt P iso rex pa evs = Ok out ->
  exists added, out = remove_last is_elong_left evs ++ added /\ added <> [] /\ Forall (fun e => new_type e = true) added.
Proof. unfold verify_polyt. destruct iso as [|i0 iso']; [discriminate|]. set (iso := i0 :: iso').
  destruct (check_if_close P (fst (hd (0, 0) iso)) (pa_ext_t pa) (pa_int_t pa) (remove_last is_elong_left evs) MES_correct_polya_site_left) as [r|] eqn:E1.
  - intros H. injection H as <-. apply check_if_close_inv in E1. destruct E1 as [x ->]. eexists. split; [reflexivity|]. split; [discriminate|]. repeat constructor.
  - dif; [discriminate|]. cbv zeta.
    set (c := if 0 <? countz (has_ty MES_terminal_exon_misalignment_left) evs then _ else _).
    assert (H2: exists added, fst (fst c) = remove_last is_elong_left evs ++ added /\ Forall (fun e => new_type e = true) added).
    { subst c. dif; [exists []; rewrite app_nil_r; split; [reflexivity|constructor]|apply before_polyt_inv]. }
    destruct H2 as [added [-> Hadd]].
    destruct (check_if_close P (fst (hd (0, 0) iso)) (snd (fst c)) (snd c) (remove_last is_elong_left evs ++ added) MES_correct_polya_site_left) as [r|] eqn:E3.
    + intros H. injection H as <-. apply check_if_close_inv in E3. destruct E3 as [x ->]. rewrite <- app_assoc. eexists. split; [reflexivity|].
      split; [destruct added; discriminate|]. apply Forall_app. split; [exact Hadd|repeat constructor].
    + intros H. injection H as <-. rewrite <- app_assoc. eexists. split; [reflexivity|].
      split; [destruct added; discriminate|]. apply Forall_app. split; [exact Hadd|]. constructor; [apply final_event_new|constructor]. Qed.

Lemma mem_In x l : mem x l = true -> In x l.
Proof. unfold mem. intros H. apply existsb_exists in H. destruct H as [y [Hy He]]. apply MES_eqb_eq in He. subst y. exact Hy. Qed.

Lemma check_internal_inv t_ir t_new int evs : mem t_new polya_new_types = true ->
  (check_internal t_ir t_new int evs = (evs, false)) \/
  (int <> -1 /\ exists e, In e evs /\ has_ty t_ir e = true /\ check_internal t_ir t_new int evs = (evs ++ [mkx t_new (x_iso e) undefined_region int], true)).
Proof. intros Hn. unfold check_internal. destruct (int =? -1) eqn:E; [left; reflexivity|].
  destruct (find (has_ty t_ir) evs) as [e|] eqn:F; [|left; reflexivity].
  right. split; [lia|]. exists e. apply find_some in F. destruct F as [F1 F2]. repeat split; assumption. Qed.

Lemma verify_body_shape P strand iso rex pa evs out : verify_body P strand iso rex pa evs = Ok out ->
  shape (elong_side strand) evs out /\ (out = [] -> evs = []).
Proof. unfold verify_body, elong_side. destruct (strand =? 1) eqn:S1; [|destruct (strand =? -1) eqn:S2].
  - destruct (check_internal_inv MES_incomplete_intron_retention_right MES_internal_polya_right (pa_int_a pa) evs eq_refl) as [->|[Hi [e [_ [_ ->]]]]].
    + cbn [negb andb]. dif.
      * intros H. apply verify_polya_shape in H. destruct H as [added [-> [Hne Hadd]]]. split.
        -- exists (remove_last is_elong_right evs), added. repeat split; [right; reflexivity|exact Hadd].
        -- intros H. apply app_eq_nil in H. destruct H as [_ H]. contradiction.
      * intros H. injection H as <-. split; [apply shape_refl|tauto].
    + cbn [negb andb]. intros H. injection H as <-. split.
      * exists evs, [mkx MES_internal_polya_right (x_iso e) undefined_region (pa_int_a pa)]. repeat split; [left; reflexivity|repeat constructor].
      * intros H. apply app_eq_nil in H. destruct H as [_ H]. discriminate.
  - destruct (check_internal_inv MES_incomplete_intron_retention_left MES_internal_polya_left (pa_int_t pa) evs eq_refl) as [->|[Hi [e [_ [_ ->]]]]].
    + cbn [negb andb]. dif.
      * intros H. apply verify_polyt_shape in H. destruct H as [added [-> [Hne Hadd]]]. split.
        -- exists (remove_last is_elong_left evs), added. repeat split; [right; reflexivity|exact Hadd].
        -- intros H. apply app_eq_nil in H. destruct H as [_ H]. contradiction.
      * intros H. injection H as <-. split; [apply shape_refl|tauto].
    + cbn [negb andb]. intros H. injection H as <-. split.
      * exists evs, [mkx MES_internal_polya_left (x_iso e) undefined_region (pa_int_t pa)]. repeat split; [left; reflexivity|repeat constructor].
      * intros H. apply app_eq_nil in H. destruct H as [_ H]. discriminate.
  - intros H. injection H as <-. split; [apply shape_refl|tauto]. Qed.

Lemma verify_shape P strand iso rex pa evs out : verify_read_ends P true strand iso rex pa evs = Ok out ->
  shape (elong_side strand) evs out /\ out <> [].
Proof. unfold verify_read_ends. cbn [negb]. destruct (verify_body P strand iso rex pa evs) as [o|k] eqn:E; [|discriminate].
  apply verify_body_shape in E. destruct E as [Hs Hnil]. destruct o as [|a o'].
  - intros H. injection H as <-. split; [|discriminate]. rewrite (Hnil eq_refl). exists [], [xe MES_none_ 0]. repeat split; [left; reflexivity|repeat constructor].
  - intros H. injection H as <-. split; [exact Hs|discriminate]. Qed.

(* an isoform was given: the returned list is never empty *)
Theorem verify_nonempty : forall P strand iso rex pa evs out,
  verify_read_ends P true strand iso rex pa evs = Ok out -> out <> [].
Proof. intros P strand iso rex pa evs out H. apply verify_shape in H. tauto. Qed.
(* isoform_id None: the list is returned as it is, even if it is empty *)
Example verify_nonempty_without_isoform_refuted : verify_read_ends (params_of MS_default) false 1 [(1, 10)] [(1, 10)] (mkPA 10 (-1) (-1) (-1)) [] = Ok [].
Proof. vm_compute. reflexivity. Qed.

(* no polyA / polyT position: nothing changes (an empty list becomes [none]) *)
Theorem verify_no_polya_identity : forall P strand iso rex evs,
  verify_read_ends P true strand iso rex (mkPA (-1) (-1) (-1) (-1)) evs = Ok (match evs with [] => [xe MES_none_ 0] | _ => evs end).
Proof. intros P strand iso rex evs. unfold verify_read_ends, verify_body, check_internal. cbn [negb pa_ext_a pa_ext_t pa_int_a pa_int_t Z.eqb andb orb].
  destruct (strand =? 1); [|destruct (strand =? -1)]; cbn [negb andb orb]; destruct evs; reflexivity. Qed.

(* only polyA-related changes: every event of the result is an input event or a polyA / terminal-exon-misalignment / none event;
   the only input event that may disappear is an exon elongation of the polyA side *)
Theorem verify_only_polya_changes : forall P strand iso rex pa evs out,
  verify_read_ends P true strand iso rex pa evs = Ok out ->
  (forall e, In e out -> In e evs \/ In (x_type e) polya_new_types) /\
  (forall e, In e evs -> ~ In e out -> elong_side strand e = true).
Proof. intros P strand iso rex pa evs out H. apply verify_shape in H. destruct H as [[base [added [-> [Hb Hadd]]]] _]. split.
  - intros e He. apply in_app_or in He. destruct He as [He|He].
    + left. destruct Hb as [->| ->]; [exact He|exact (remove_last_sub _ _ _ He)].
    + right. rewrite Forall_forall in Hadd. apply mem_In. exact (Hadd e He).
  - intros e He Hn. destruct Hb as [->| ->].
    + exfalso. apply Hn. apply in_or_app. left. exact He.
    + destruct (remove_last_keeps (elong_side strand) evs e He) as [H|H]; [|exact H]. exfalso. apply Hn. apply in_or_app. left. exact H. Qed.

(* no event added by the polyA verification is an intronic inconsistency *)
Lemma new_types_not_intronic : forallb (fun t => negb (ev_intronic t)) polya_new_types = true. Proof. vm_compute. reflexivity. Qed.
Theorem verify_adds_no_intronic : forall P strand iso rex pa evs out,
  verify_read_ends P true strand iso rex pa evs = Ok out ->
  forall e, In e out -> ~ In e evs -> ev_intronic (x_type e) = false.
Proof. intros P strand iso rex pa evs out H e He Hn. destruct (verify_only_polya_changes _ _ _ _ _ _ _ H) as [H1 _].
  destruct (H1 e He) as [H2|H2]; [contradiction|]. pose proof new_types_not_intronic as T. rewrite forallb_forall in T.
  specialize (T _ H2). destruct (ev_intronic (x_type e)); [discriminate|reflexivity]. Qed.

Lemma close_check P iso_end ext int evs ty : close_to P iso_end ext int = true ->
  exists x, check_if_close P iso_end ext int evs ty = Some (evs ++ [xe ty x]).
Proof. unfold check_if_close, close_to, dist_to, le_fin, le_inf. intros H.
  destruct (ext =? -1) eqn:E1; destruct (int =? -1) eqn:E2; cbn [negb andb orb] in *; repeat dif; try (eexists; reflexivity); try discriminate; lia. Qed.

(* external polyA within apa_delta of the isoform's 3' end, no internal polyA: the last right elongation event (if any) is replaced by
   correct_polya_site_right carrying the external position *)
Theorem polya_at_isoform_end_consistent : forall P iso rex pa evs,
  iso <> [] -> pa_int_a pa = -1 -> pa_ext_a pa <> -1 -> Z.abs (snd (last iso (0,0)) - pa_ext_a pa) <= p_apa_delta P ->
  verify_read_ends P true 1 iso rex pa evs = Ok (remove_last is_elong_right evs ++ [xe MES_correct_polya_site_right (pa_ext_a pa)]).
Proof. intros P iso rex pa evs Hi Hint Hext Hd. unfold verify_read_ends, verify_body, check_internal. rewrite Hint.
  change (-1 =? -1) with true. change (1 =? 1) with true. change (-1 =? 1) with false. cbn [negb andb orb].
  replace (pa_ext_a pa =? -1) with false by lia. cbn [negb orb]. unfold verify_polya. destruct iso as [|i0 iso']; [contradiction|].
  unfold check_if_close, dist_to. rewrite Hint. replace (pa_ext_a pa =? -1) with false by lia. change (-1 =? -1) with true. cbn [le_fin le_inf andb negb].
  replace (Z.abs (snd (last (i0 :: iso') (0, 0)) - pa_ext_a pa) <=? p_apa_delta P) with true by lia.
  destruct (remove_last is_elong_right evs); reflexivity. Qed.
Theorem polyt_at_isoform_start_consistent : forall P iso rex pa evs,
  iso <> [] -> pa_int_t pa = -1 -> pa_ext_t pa <> -1 -> Z.abs (fst (hd (0,0) iso) - pa_ext_t pa) <= p_apa_delta P ->
  verify_read_ends P true (-1) iso rex pa evs = Ok (remove_last is_elong_left evs ++ [xe MES_correct_polya_site_left (pa_ext_t pa)]).
Proof. intros P iso rex pa evs Hi Hint Hext Hd. unfold verify_read_ends, verify_body, check_internal. rewrite Hint.
  change (-1 =? -1) with true. change (1 =? 1) with true. change (-1 =? 1) with false. cbn [negb andb orb].
  replace (pa_ext_t pa =? -1) with false by lia. cbn [negb orb]. unfold verify_polyt. destruct iso as [|i0 iso']; [contradiction|].
  unfold check_if_close, dist_to. rewrite Hint. replace (pa_ext_t pa =? -1) with false by lia. change (-1 =? -1) with true. cbn [le_fin le_inf andb negb].
  replace (Z.abs (fst (hd (0, 0) (i0 :: iso')) - pa_ext_t pa) <=? p_apa_delta P) with true by lia.
  destruct (remove_last is_elong_left evs); reflexivity. Qed.

(* a polyA position (external or internal) within apa_delta of the isoform's 3' end: no alternative_polya_site event is added *)
Theorem polya_close_adds_no_apa : forall P strand iso rex pa evs out,
  polya_close P strand iso pa = true ->
  verify_read_ends P true strand iso rex pa evs = Ok out ->
  forall e, In e out -> is_apa e = true -> In e evs.
Proof. intros P strand iso rex pa evs out Hc H e He Ha.
  assert (K: forall base x t, (t = MES_correct_polya_site_right \/ t = MES_correct_polya_site_left \/ t = MES_internal_polya_right \/ t = MES_internal_polya_left \/ t = MES_none_) ->
             (forall y, In y base -> In y evs) -> forall i r, In e (base ++ [mkx t i r x]) -> In e evs).
  { intros base x t Ht Hb i r Hin. apply in_app_or in Hin. destruct Hin as [Hin|[<-|[]]]; [exact (Hb _ Hin)|].
    exfalso. unfold is_apa, has_ty in Ha. cbn [x_type] in Ha. destruct Ht as [->|[->|[->|[->| ->]]]]; discriminate Ha. }
  unfold verify_read_ends in H. cbn [negb] in H. unfold polya_close in Hc. unfold verify_body in H.
  destruct (strand =? 1) eqn:S1; [|destruct (strand =? -1) eqn:S2; [|discriminate]].
  - destruct (check_internal_inv MES_incomplete_intron_retention_right MES_internal_polya_right (pa_int_a pa) evs eq_refl) as [Hci|[Hi [e0 [_ [_ Hci]]]]]; rewrite Hci in H; cbn [negb andb] in H.
    + assert (Hany: negb (pa_ext_a pa =? -1) || negb (pa_int_a pa =? -1) = true) by (unfold close_to in Hc; lia). rewrite Hany in H.
      unfold verify_polya in H. destruct iso as [|i0 iso']; [discriminate|].
      destruct (close_check P _ _ _ (remove_last is_elong_right evs) MES_correct_polya_site_right Hc) as [x Hx]. rewrite Hx in H.
      assert (out = remove_last is_elong_right evs ++ [xe MES_correct_polya_site_right x]) as -> by (destruct (remove_last is_elong_right evs); injection H as <-; reflexivity).
      apply (K (remove_last is_elong_right evs) x MES_correct_polya_site_right) with (i := undefined_region) (r := undefined_region); [tauto|apply remove_last_sub|exact He].
    + assert (out = evs ++ [mkx MES_internal_polya_right (x_iso e0) undefined_region (pa_int_a pa)]) as -> by (destruct evs; injection H as <-; reflexivity).
      apply (K evs (pa_int_a pa) MES_internal_polya_right) with (i := x_iso e0) (r := undefined_region); [tauto|tauto|exact He].
  - destruct (check_internal_inv MES_incomplete_intron_retention_left MES_internal_polya_left (pa_int_t pa) evs eq_refl) as [Hci|[Hi [e0 [_ [_ Hci]]]]]; rewrite Hci in H; cbn [negb andb] in H.
    + assert (Hany: negb (pa_ext_t pa =? -1) || negb (pa_int_t pa =? -1) = true) by (unfold close_to in Hc; lia). rewrite Hany in H.
      unfold verify_polyt in H. destruct iso as [|i0 iso']; [discriminate|].
      destruct (close_check P _ _ _ (remove_last is_elong_left evs) MES_correct_polya_site_left Hc) as [x Hx]. rewrite Hx in H.
      assert (out = remove_last is_elong_left evs ++ [xe MES_correct_polya_site_left x]) as -> by (destruct (remove_last is_elong_left evs); injection H as <-; reflexivity).
      apply (K (remove_last is_elong_left evs) x MES_correct_polya_site_left) with (i := undefined_region) (r := undefined_region); [tauto|apply remove_last_sub|exact He].
    + assert (out = evs ++ [mkx MES_internal_polya_left (x_iso e0) undefined_region (pa_int_t pa)]) as -> by (destruct evs; injection H as <-; reflexivity).
      apply (K evs (pa_int_t pa) MES_internal_polya_left) with (i := x_iso e0) (r := undefined_region); [tauto|tauto|exact He]. Qed.

(* the model's output satisfies the decidable specification that the correspondence evaluates on the implementation's output *)
Theorem verify_spec_sound : forall P strand iso rex pa evs out,
  verify_read_ends P true strand iso rex pa evs = Ok out -> verify_spec P strand iso pa evs out = true.
Proof. intros P strand iso rex pa evs out H. unfold verify_spec.
  destruct (verify_only_polya_changes _ _ _ _ _ _ _ H) as [H1 H2]. repeat (apply andb_true_intro; split).
  - pose proof (verify_nonempty _ _ _ _ _ _ _ H). destruct out; [contradiction|reflexivity].
  - apply forallb_forall. intros e He. destruct (H1 e He) as [K|K].
    + apply xmem_In in K. rewrite K. reflexivity.
    + apply orb_true_iff. right. unfold new_type, mem. apply existsb_exists. exists (x_type e). split; [exact K|apply MESeqb_refl].
  - apply forallb_forall. intros e He. destruct (xmem e out) eqn:X; [reflexivity|]. cbn [orb]. apply H2; [exact He|]. intros K. apply xmem_In in K. congruence.
  - destruct (polya_close P strand iso pa) eqn:C; [|reflexivity]. cbn [negb orb]. apply forallb_forall. intros e He.
    destruct (is_apa e) eqn:A; [|reflexivity]. cbn [negb orb]. apply xmem_In. exact (polya_close_adds_no_apa _ _ _ _ _ _ _ C H e He A). Qed.

(* witnesses: an alternative polyA site; missed terminal isoform exons; the assertion of correct_polya_positions *)
Example verify_apa_example :
  verify_read_ends (params_of MS_default) true 1 [(100, 200); (300, 400); (500, 900)] [(100, 200); (300, 400); (500, 600)] (mkPA 600 (-1) (-1) (-1))
                   [xe MES_none_ 0; xe MES_terminal_site_match_left_precise 0]
  = Ok [xe MES_none_ 0; xe MES_terminal_site_match_left_precise 0; xe MES_alternative_polya_site_right 600].
Proof. vm_compute. reflexivity. Qed.
Example verify_missed_terminal_exon_example :
  verify_read_ends (params_of MS_default) true 1 [(100, 200); (300, 400); (500, 520)] [(100, 200); (300, 420)] (mkPA 420 (-1) (-1) (-1)) [xe MES_none_ 0]
  = Ok [xe MES_none_ 0; tem MES_terminal_exon_misalignment_right 1; xe MES_correct_polya_site_right 520].
Proof. vm_compute. reflexivity. Qed.
Example verify_assert_example :
  verify_read_ends (params_of MS_default) true 1 [(100, 200); (300, 900)] [(100, 200)] (mkPA 200 (-1) (-1) (-1)) [xe MES_fake_terminal_exon_right 0]
  = Raises AssertionError.
Proof. vm_compute. reflexivity. Qed.

