(* C11: mirror theorems for the pairs modelled in MirrorPairs.v *)
From Coq Require Import ZArith NArith List Bool Lia ZifyBool.
From IQ.gen Require Import Prims Tables.
From IQ Require Import CorrSupport Mirror MirrorProofs PolyA PolyA2 MirrorPairs.
Import ListNotations. Open Scope Z_scope.

(* ================================================================ select_similar_isoforms *)
(* the penalty for a read reaching beyond the transcript's LEFT end has no counterpart on the right: extra_right tests the read's START *)
Lemma extra_right_fix_is_mirror L delta rr tr : extra_right_fix delta (rf L rr) (rf L tr) = extra_left delta rr tr.
Proof. unfold extra_right_fix, extra_left, rf. cbn [fst snd]. destruct (fst rr + delta <? fst tr) eqn:E1, (L + 1 - fst rr - delta >? L + 1 - fst tr) eqn:E2; lia. Qed.
Lemma extra_left_is_mirror_of_fix L delta rr tr : extra_left delta (rf L rr) (rf L tr) = extra_right_fix delta rr tr.
Proof. unfold extra_right_fix, extra_left, rf. cbn [fst snd]. destruct (snd rr - delta >? snd tr) eqn:E1, (L + 1 - snd rr + delta <? L + 1 - snd tr) eqn:E2; lia. Qed.
Example extra_right_mirror_refuted :
  (* read 160-200, transcript 150-190, delta 4: the read overhangs the RIGHT end by 10 - no penalty; its mirror image (L = 1000) overhangs the
     LEFT end by 10 - penalty 1; with a second candidate at intron difference 4 the selection changes *)
  extra_left 4 (160, 200) (150, 190) + extra_right_cur 4 (160, 200) (150, 190) = 0 /\
  extra_left 4 (rf 1000 (160, 200)) (rf 1000 (150, 190)) + extra_right_cur 4 (rf 1000 (160, 200)) (rf 1000 (150, 190)) = 1 /\
  best_candidates 4 (160, 200) [(1, 0, (150, 190)); (2, 4, (150, 210))] = [1] /\
  best_candidates 4 (rf 1000 (160, 200)) [(1, 0, rf 1000 (150, 190)); (2, 4, rf 1000 (150, 210))] = [1; 2].
Proof. vm_compute. repeat split; reflexivity. Qed.
(* the mirror image of extra_left (which the candidate repair fixes/C11_extra_right_typo.diff installs) gives a symmetric selection score *)
Lemma candidate_score_mirror L delta rr tr :
  extra_right_fix delta (rf L rr) (rf L tr) + extra_left delta (rf L rr) (rf L tr) = extra_right_fix delta rr tr + extra_left delta rr tr.
Proof. rewrite extra_right_fix_is_mirror, extra_left_is_mirror_of_fix. lia. Qed.
Theorem best_candidates_fix_mirror L delta rr cands :
  best_candidates_fix delta (rf L rr) (map (fun c => let '(id, diff, tr) := c in (id, diff, rf L tr)) cands) = best_candidates_fix delta rr cands.
Proof. unfold best_candidates_fix, best_candidates_gen. rewrite map_map.
  assert (E: map (fun x => let '(id, diff, tr) := let '(id, diff, tr) := x in (id, diff, rf L tr) in
                     (id, diff + extra_right_fix delta (rf L rr) tr + extra_left delta (rf L rr) tr)) cands =
             map (fun c => let '(id, diff, tr) := c in (id, diff + extra_right_fix delta rr tr + extra_left delta rr tr)) cands).
  { apply map_ext. intros [[id diff] tr]. f_equal. pose proof (candidate_score_mirror L delta rr tr). lia. }
  rewrite E. reflexivity. Qed.

(* ================================================================ thread_ends / thread_starts *)
(* an untrusted read end up to apa_delta beyond the rightmost known end is threaded to it; the mirror image - a read start up to apa_delta
   before the leftmost known start - is not: thread_starts tests `start >= leftmost_start[1]` without `- apa_delta` *)
Example thread_mirror_refuted :
  thread_ends 50 6 [] [5000] [] 5020 false = Some (1, 5000) /\
  thread_starts 50 6 [] [10000 + 1 - 5000] [] (10000 + 1 - 5020) false = None.
Proof. vm_compute. split; reflexivity. Qed.
(* for trusted ends (a polyA tail / polyT head was found) the two halves agree on the same configuration *)
Example thread_mirror_trusted_example :
  thread_ends 50 6 [] [5000] [] 5020 true = Some (1, 5000) /\
  thread_starts 50 6 [] [10000 + 1 - 5000] [] (10000 + 1 - 5020) true = Some (1, 10000 + 1 - 5000).
Proof. vm_compute. split; reflexivity. Qed.

(* ================================================================ is_start_internal / is_end_internal *)
Lemma existsb_rev {A} (p:A -> bool) l : existsb p (rev l) = existsb p l.
Proof. induction l as [|a t IH]; [reflexivity|]. cbn [rev]. rewrite existsb_app, IH. cbn [existsb]. rewrite orb_false_r. apply orb_comm. Qed.
Theorem is_start_internal_mirror L delta outgoing read_end :
  is_start_internal delta (rfl L outgoing) (L + 1 - read_end) = is_end_internal delta outgoing read_end.
Proof. unfold is_start_internal, is_end_internal, rfl. rewrite existsb_rev. induction outgoing as [|o t IH]; [reflexivity|]. cbn [map existsb]. rewrite IH. f_equal.
  unfold rf. cbn [snd]. lia. Qed.
Theorem is_end_internal_mirror L delta incoming read_start :
  is_end_internal delta (rfl L incoming) (L + 1 - read_start) = is_start_internal delta incoming read_start.
Proof. unfold is_start_internal, is_end_internal, rfl. rewrite existsb_rev. induction incoming as [|o t IH]; [reflexivity|]. cbn [map existsb]. rewrite IH. f_equal.
  unfold rf. cbn [fst]. lia. Qed.

(* ================================================================ categorize_exon_elongation_subtype *)
(* when the read and the isoform share no split exon inside the scanned range both searches return -1 and Python's split_exons[-1]
   is the LAST split exon on both sides ("Odd case for exon elongation" in the log): not a mirror-symmetric choice *)
Example elongation_no_common_exon_refuted :
  let E := mkep 50 300 6 in
  categorize_elongation E [(100, 200); (300, 400)] [1; 1] [-1; -1] (0, 2) (0, 2) [(95, 200); (300, 420)] =
    Some [mk_ev MES_exon_elongation_right undef_region undef_region 20] /\
  categorize_elongation E (rfl 1000 [(100, 200); (300, 400)]) [1; 1] [-1; -1] (0, 2) (0, 2) (rfl 1000 [(95, 200); (300, 420)]) = Some [].
Proof. vm_compute. split; reflexivity. Qed.

(* ================================================================ PolyAVerifier: the polyT side on the mirrored input = mirror image of the polyA side *)
Module VerifierMirror.
Import MirrorProofs.PolyAMirror.

Lemma MES_eqb_swap a b : MES_eqb (swap_mes a) (swap_mes b) = MES_eqb a b.
Proof. destruct a; destruct b; reflexivity. Qed.
Lemma abs_mirror L a b : Z.abs (L + 1 - a - (L + 1 - b)) = Z.abs (a - b).
Proof. lia. Qed.

Section V.
Variables (n L : Z).
Notation me := (mev n L).
Lemma ev_type_me e : ev_type (me e) = swap_mes (ev_type e). Proof. reflexivity. Qed.
Lemma is_type_me t e : is_type (swap_mes t) (me e) = is_type t e.
Proof. unfold is_type. rewrite ev_type_me. apply MES_eqb_swap. Qed.

Lemma scan_step_me tM tm tf tx acc e :
  scan_step (swap_mes tM) (swap_mes tm) (swap_mes tf) (swap_mes tx) acc (me e) = scan_step tM tm tf tx acc e.
Proof. unfold scan_step. destruct acc as [[[i rm] fake] mis]. rewrite !is_type_me. reflexivity. Qed.
Lemma scan_me tM tm tf tx events :
  scan (swap_mes tM) (swap_mes tm) (swap_mes tf) (swap_mes tx) (map me events) = scan tM tm tf tx events.
Proof. unfold scan. generalize (0, -1, 0, 0). induction events as [|e t IH]; intros acc; [reflexivity|]. cbn [map fold_left]. rewrite scan_step_me. apply IH. Qed.
Lemma scan_bounds tM tm tf tx : forall events i rm fake mis, 0 <= i -> -1 <= rm < i -> 0 <= fake ->
  let '(i', rm', fake', mis') := fold_left (scan_step tM tm tf tx) events (i, rm, fake, mis) in 0 <= fake' /\ -1 <= rm' < i' /\ i' = i + Z.of_nat (length events).
Proof. induction events as [|e t IH]; intros i rm fake mis Hi Hrm Hf; [cbn; lia|]. cbn [fold_left length]. unfold scan_step at 2.
  destruct (is_type tM e || is_type tm e); [specialize (IH (i + 1) i fake mis ltac:(lia) ltac:(lia) Hf)|
  destruct (is_type tf e); [specialize (IH (i + 1) rm (fake + 1) mis ltac:(lia) ltac:(lia) ltac:(lia))|
  destruct (is_type tx e); [specialize (IH (i + 1) rm fake (mis + 1) ltac:(lia) ltac:(lia) Hf)|specialize (IH (i + 1) rm fake mis ltac:(lia) ltac:(lia) Hf)]]];
  destruct (fold_left _ t _) as [[[i' rm'] fake'] mis']; lia. Qed.

Lemma remove_nth_map {A B} (f:A -> B) : forall k l, remove_nth k (map f l) = map f (remove_nth k l).
Proof. induction k as [|k IH]; intros [|a t]; cbn; try reflexivity. rewrite IH. reflexivity. Qed.
Lemma del_event_me rm events : del_event rm (map me events) = map me (del_event rm events).
Proof. unfold del_event. destruct (rm =? -1); [reflexivity|apply remove_nth_map]. Qed.

(* positions that are either the sentinel or reflect to a non-sentinel *)
Definition pos_ok (p:Z) : Prop := p = -1 \/ (p <> -1 /\ L + 1 - p <> -1).
Lemma dist_opt_mirror E p : pos_ok p -> dist_opt (L + 1 - E) (rfp L p) = dist_opt E p.
Proof. unfold dist_opt, rfp, pos_ok. intros [->|[H1 H2]]; [reflexivity|]. replace (p =? -1) with false by lia. replace (L + 1 - p =? -1) with false by lia. f_equal. lia. Qed.

Lemma check_if_close_mirror P E ext int events t : pos_ok ext -> pos_ok int -> is_polya_pos_type t = true ->
  check_if_close P (L + 1 - E) (rfp L ext) (rfp L int) (map me events) (swap_mes t) = option_map (map me) (check_if_close P E ext int events t).
Proof. intros He Hi Ht. unfold check_if_close. rewrite !dist_opt_mirror by assumption.
  assert (Hnew: forall x, mk_ev (swap_mes t) undef_region undef_region (rfp L x) = me (mk_ev t undef_region undef_region x)).
  { intros x. unfold mev, mk_ev, ev_type, ev_iso, ev_read, ev_info. cbn [fst snd]. rewrite Ht.
    replace (is_term_mis_type t) with false; [reflexivity|]. destruct t; try reflexivity; discriminate Ht. }
  destruct (le_fin (dist_opt E int) (apa_delta P) && le_inf (dist_opt E int) (dist_opt E ext)).
  - cbn [option_map]. rewrite map_app. cbn [map]. rewrite Hnew. reflexivity.
  - destruct (le_fin (dist_opt E ext) (apa_delta P) && negb (le_inf (dist_opt E int) (dist_opt E ext))); [|reflexivity].
    cbn [option_map]. rewrite map_app. cbn [map]. rewrite Hnew. reflexivity. Qed.

(* ---------- detect_reference_exons_before_polyt vs detect_reference_exons_beyond_polya ---------- *)
Lemma last_In_ne {A} : forall (l:list A) d, l <> [] -> In (last l d) l.
Proof. induction l as [|a t IH]; intros d H; [congruence|]. destruct t as [|b t']; [left; reflexivity|]. right. change (last (a :: b :: t') d) with (last (b :: t') d). apply IH. discriminate. Qed.
Lemma last_map_ne {A B} (f:A -> B) : forall l d d', l <> [] -> last (map f l) d = f (last l d').
Proof. induction l as [|a t IH]; intros d d' H; [congruence|]. destruct t as [|b t']; [reflexivity|]. change (last (map f (a :: b :: t')) d) with (last (map f (b :: t')) d).
  change (last (a :: b :: t') d') with (last (b :: t') d'). apply IH. discriminate. Qed.
Lemma count_while_map {A B} (f:A -> B) p : forall l, count_while p (map f l) = count_while (fun a => p (f a)) l.
Proof. induction l as [|a t IH]; [reflexivity|]. cbn [map count_while]. rewrite IH. reflexivity. Qed.
Lemma count_while_ext {A} (p q:A -> bool) : (forall a, p a = q a) -> forall l, count_while p l = count_while q l.
Proof. intros H. induction l as [|a t IH]; [reflexivity|]. cbn [count_while]. rewrite H, IH. reflexivity. Qed.
Lemma count_while_le {A} (p:A -> bool) : forall l, (count_while p l <= length l)%nat.
Proof. induction l as [|a t IH]; [cbn; lia|]. cbn [count_while length]. destruct (p a); lia. Qed.
Lemma sum_len_app l1 l2 : sum_len (l1 ++ l2) = sum_len l1 + sum_len l2.
Proof. induction l1 as [|a t IH]; [reflexivity|]. cbn [app sum_len]. rewrite IH. lia. Qed.
Lemma sum_len_rev l : sum_len (rev l) = sum_len l.
Proof. induction l as [|a t IH]; [reflexivity|]. cbn [rev]. rewrite sum_len_app, IH. cbn [sum_len]. lia. Qed.
Lemma sum_len_rf l : sum_len (map (rf L) l) = sum_len l.
Proof. induction l as [|a t IH]; [reflexivity|]. cbn [map sum_len]. rewrite IH, py_interval_len_mirror. reflexivity. Qed.

(* the sentinel -1 enters the distance computation of both functions as if it were a coordinate; it must not be the closer one *)
Definition sent_ok (iso:list iv) (ext int:Z) : Prop :=
  (ext = -1 -> Forall (fun e => Z.abs (snd e - int) <= Z.abs (snd e + 1) /\ Z.abs (snd e - int) <= Z.abs (L + 1 - snd e + 1)) iso) /\
  (int = -1 -> Forall (fun e => Z.abs (snd e - ext) <= Z.abs (snd e + 1) /\ Z.abs (snd e - ext) <= Z.abs (L + 1 - snd e + 1)) iso).

Lemma new_events_me c :
  map (fun i => mk_ev MES_terminal_exon_misalignment_left (i, i) undef_region 0) (iota c) =
  map me (map (fun i => mk_ev MES_terminal_exon_misalignment_right (n - 2 - i, n - 2 - i) undef_region 0) (iota c)).
Proof. rewrite map_map. apply map_ext. intros i.
  assert (E: forall x, me (mk_ev MES_terminal_exon_misalignment_right (x, x) undef_region 0) = mk_ev MES_terminal_exon_misalignment_left (n - 2 - x, n - 2 - x) undef_region 0) by reflexivity.
  rewrite E. replace (n - 2 - (n - 2 - i)) with i by lia. reflexivity. Qed.

Lemma detect_mirror P iso ext int events : n = Z.of_nat (length iso) -> pos_ok ext -> pos_ok int -> ~ (ext = -1 /\ int = -1) ->
  Forall (fun e => 0 <= snd e <= L) iso -> sent_ok iso ext int ->
  detect_before_polyt P (rfl L iso) (rfp L ext) (rfp L int) (map me events) =
  let '(ev', x, i) := detect_beyond_polya P iso ext int events in (map me ev', rfp L x, rfp L i).
Proof. intros Hn He Hi Hboth Hco Hs. unfold detect_before_polyt, detect_beyond_polya. cbv zeta. rewrite rfl_length.
  set (pp := if negb (int =? -1) then int else ext).
  assert (R1: rfp L (-1) = -1) by reflexivity.
  assert (R2: forall p, p <> -1 -> rfp L p = L + 1 - p) by (intros p Hp; unfold rfp; destruct (Z.eqb_spec p (-1)); [contradiction|reflexivity]).
  assert (Hpp: (if negb (rfp L int =? -1) then rfp L int else rfp L ext) = L + 1 - pp /\ pp <> -1).
  { unfold pp. destruct Hi as [->|[Hi1 Hi2]].
    - rewrite R1. change (-1 =? -1) with true. cbn [negb]. destruct He as [->|[He1 He2]]; [exfalso; apply Hboth; split; reflexivity|].
      rewrite (R2 ext He1). split; [reflexivity|assumption].
    - rewrite (R2 int Hi1). replace (L + 1 - int =? -1) with false by lia. replace (int =? -1) with false by lia. cbn [negb]. split; [reflexivity|assumption]. }
  destruct Hpp as [Hpp Hne]. rewrite Hpp.
  assert (Hc: count_while (fun e => snd e <=? L + 1 - pp) (rfl L iso) = count_while (fun e => fst e >=? pp) (rev iso)).
  { unfold rfl. rewrite <- map_rev, count_while_map. apply count_while_ext. intros a. unfold rf. cbn [snd]. lia. }
  rewrite Hc. set (c := count_while (fun e => fst e >=? pp) (rev iso)).
  assert (Hcl: (c <= length iso)%nat) by (unfold c; rewrite <- (rev_length iso); apply count_while_le).
  rewrite (orb_comm (c =? 0)%nat).
  destruct ((c =? length iso)%nat || (c =? 0)%nat) eqn:Ec; [reflexivity|].
  apply orb_false_elim in Ec. destruct Ec as [Ec1 Ec2]. apply Nat.eqb_neq in Ec1. apply Nat.eqb_neq in Ec2.
  assert (Hlen: sum_len (firstn c (rfl L iso)) = sum_len (skipn (length iso - c) iso)).
  { unfold rfl. rewrite firstn_rev, map_length, skipn_map, sum_len_rev, sum_len_rf. reflexivity. }
  rewrite Hlen.
  assert (Hnth: (c < length iso)%nat) by lia.
  rewrite (nth_rfl L iso c Hnth). replace (length iso - Datatypes.S c)%nat with (length iso - c - 1)%nat by lia.
  set (a := nth (length iso - c - 1) iso (0, 0)).
  assert (Hin: In a iso) by (apply nth_In; lia).
  assert (Hdist: Z.min (Z.abs (fst (rf L a) - rfp L ext)) (Z.abs (fst (rf L a) - rfp L int)) = Z.min (Z.abs (snd a - ext)) (Z.abs (snd a - int))).
  { unfold rf. cbn [fst]. destruct Hs as [Hs1 Hs2].
    destruct He as [->|[He1 He2]], Hi as [->|[Hi1 Hi2]]; try (exfalso; apply Hboth; split; reflexivity).
    - specialize (Hs1 eq_refl). rewrite Forall_forall in Hs1. specialize (Hs1 a Hin). rewrite R1, (R2 int Hi1). lia.
    - specialize (Hs2 eq_refl). rewrite Forall_forall in Hs2. specialize (Hs2 a Hin). rewrite R1, (R2 ext He1). lia.
    - rewrite (R2 int Hi1), (R2 ext He1). lia. }
  rewrite Hdist.
  destruct (short_exons_ok P (sum_len (skipn (length iso - c) iso)) (Z.min (Z.abs (snd a - ext)) (Z.abs (snd a - int)))); [|reflexivity].
  rewrite map_app, new_events_me.
  assert (Hhd: fst (hd (0, 0) (rfl L iso)) = L + 1 - snd (last iso (0, 0))).
  { unfold rfl. rewrite hd_rev_last. rewrite (last_map_ne (rf L) iso (0, 0) (0, 0)) by (intros ->; cbn in Hnth; lia). reflexivity. }
  rewrite Hhd. rewrite Hn.
  assert (Hlast: rfp L (snd (last iso (0, 0))) = L + 1 - snd (last iso (0, 0))).
  { unfold rfp. rewrite Forall_forall in Hco. assert (In (last iso (0, 0)) iso) by (apply last_In_ne; intros ->; cbn in Hnth; lia).
    specialize (Hco _ H). replace (snd (last iso (0, 0)) =? -1) with false by lia. reflexivity. }
  rewrite Hlast. reflexivity. Qed.

(* ---------- verify_polyt vs verify_polya ---------- *)
Lemma rfp_eqb p : pos_ok p -> (rfp L p =? -1) = (p =? -1).
Proof. unfold rfp, pos_ok. intros [->|[H1 H2]]; [reflexivity|]. replace (p =? -1) with false by lia. lia. Qed.
Lemma rfp_val p : p <> -1 -> rfp L p = L + 1 - p.
Proof. intros Hp. unfold rfp. destruct (Z.eqb_spec p (-1)); [contradiction|reflexivity]. Qed.
Lemma hd_rfl iso : iso <> [] -> fst (hd (0, 0) (rfl L iso)) = L + 1 - snd (last iso (0, 0)).
Proof. intros H. unfold rfl. rewrite hd_rev_last, (last_map_ne (rf L) iso (0, 0) (0, 0) H). reflexivity. Qed.
Lemma detect_beyond_cases P iso ext int events :
  detect_beyond_polya P iso ext int events = (events, ext, int) \/
  exists new, detect_beyond_polya P iso ext int events = (events ++ new, snd (last iso (0, 0)), snd (last iso (0, 0))).
Proof. unfold detect_beyond_polya. cbv zeta. destruct (_ || _); [left; reflexivity|]. destruct (short_exons_ok _ _ _); [right; eexists; reflexivity|left; reflexivity]. Qed.
Lemma new_event_me t x : is_polya_pos_type t = true -> mk_ev (swap_mes t) undef_region undef_region (rfp L x) = me (mk_ev t undef_region undef_region x).
Proof. intros Ht. unfold mev, mk_ev, ev_type, ev_iso, ev_read, ev_info. cbn [fst snd]. rewrite Ht.
  replace (is_term_mis_type t) with false; [reflexivity|]. destruct t; try reflexivity; discriminate Ht. Qed.

(* the positions recomputed by shift_polya stay distinguishable from the sentinel, also after reflection *)
Definition shifted_ok (read:list iv) (ps:list Z) : Prop := forall c p, In p ps -> 0 < c < Z.of_nat (length read) -> p <> -1 ->
  shift_polya read c p <> -1 /\ L + 1 - shift_polya read c p <> -1.

Theorem verify_polyt_mirror P iso read ext int events : n = Z.of_nat (length iso) -> iso <> [] ->
  pos_ok ext -> pos_ok int -> Forall (fun e => 0 <= snd e <= L) iso -> shifted_ok read [ext; int] ->
  (forall c, sent_ok iso (shift_polya read c ext) (shift_polya read c int)) ->
  verify_polyt P (rfl L iso) (rfl L read) (rfp L ext) (rfp L int) (map me events) =
  match verify_polya P iso read ext int events with Ok l => Ok (map me l) | Raises k => Raises k end.
Proof. intros Hn Hne He Hi Hco Hsh Hs. unfold verify_polyt, verify_polya.
  rewrite (rfp_eqb ext He), (rfp_eqb int Hi).
  destruct ((ext =? -1) && (int =? -1)) eqn:Eboth; [reflexivity|].
  assert (Hboth: ~ (ext = -1 /\ int = -1)) by (intros [-> ->]; discriminate Eboth).
  rewrite (hd_rfl iso Hne). set (E := snd (last iso (0, 0))).
  assert (HE: 0 <= E <= L) by (rewrite Forall_forall in Hco; apply Hco; apply last_In_ne; exact Hne).
  assert (HEok: pos_ok E) by (right; lia).
  change MES_major_exon_elongation_left with (swap_mes MES_major_exon_elongation_right).
  change MES_exon_elongation_left with (swap_mes MES_exon_elongation_right).
  change MES_fake_terminal_exon_left with (swap_mes MES_fake_terminal_exon_right).
  change MES_terminal_exon_misalignment_left with (swap_mes MES_terminal_exon_misalignment_right).
  change MES_correct_polya_site_left with (swap_mes MES_correct_polya_site_right).
  change MES_alternative_polya_site_left with (swap_mes MES_alternative_polya_site_right).
  rewrite scan_me.
  pose proof (scan_bounds MES_major_exon_elongation_right MES_exon_elongation_right MES_fake_terminal_exon_right MES_terminal_exon_misalignment_right events 0 (-1) 0 0 ltac:(lia) ltac:(lia) ltac:(lia)) as Hb.
  unfold scan. destruct (fold_left _ events (0, -1, 0, 0)) as [[[i0 rm] fake] mis]. destruct Hb as (Hfake & _ & _).
  rewrite del_event_me.
  rewrite (check_if_close_mirror P E ext int (del_event rm events) MES_correct_polya_site_right He Hi eq_refl).
  destruct (check_if_close P E ext int (del_event rm events) MES_correct_polya_site_right) as [r|]; [reflexivity|]. cbn [option_map].
  rewrite rfl_length. destruct (negb (fake <? Z.of_nat (length read))) eqn:Efk; [reflexivity|].
  assert (Hfl: fake < Z.of_nat (length read)) by lia.
  (* the shifted positions *)
  assert (Hshift: forall p, In p [ext; int] -> pos_ok p -> shift_polyt (rfl L read) fake (rfp L p) = rfp L (shift_polya read fake p) /\ pos_ok (shift_polya read fake p) /\ (shift_polya read fake p = -1 -> p = -1)).
  { intros p Hin Hp. assert (Hp': p <> -1 -> L + 1 - p <> -1) by (destruct Hp as [->|[? ?]]; [congruence|auto]).
    rewrite (shift_polyt_mirror L read fake p ltac:(lia) Hp').
    destruct ((fake =? 0) || (fake =? Z.of_nat (length read)) || (p =? -1)) eqn:Ec.
    - assert (Es: shift_polya read fake p = p) by (unfold shift_polya; rewrite Ec; reflexivity). rewrite Es. repeat split; auto.
    - apply orb_false_elim in Ec. destruct Ec as [Ec Ep]. apply orb_false_elim in Ec. destruct Ec as [E0 E1].
      destruct (Hsh fake p Hin ltac:(lia) ltac:(lia)) as [S1 S2]. rewrite (rfp_val _ S1). repeat split; [right; split; assumption|congruence]. }
  destruct (Hshift ext (or_introl eq_refl) He) as (Sx & Okx & Nx). destruct (Hshift int (or_intror (or_introl eq_refl)) Hi) as (Si & Oki & Ni). rewrite Sx, Si.
  set (ext2 := shift_polya read fake ext) in *. set (int2 := shift_polya read fake int) in *.
  assert (Hboth2: ~ (ext2 = -1 /\ int2 = -1)) by (intros [A B]; apply Hboth; split; auto).
  (* events2 / ext3 / int3 on both sides *)
  assert (Hmid: (if 0 <? mis then (map me (del_event rm events), L + 1 - E, L + 1 - E)
                 else detect_before_polyt P (rfl L iso) (rfp L ext2) (rfp L int2) (map me (del_event rm events))) =
                let '(e2, x3, i3) := (if 0 <? mis then (del_event rm events, E, E) else detect_beyond_polya P iso ext2 int2 (del_event rm events)) in
                (map me e2, rfp L x3, rfp L i3)).
  { destruct (0 <? mis); [rewrite (rfp_val E) by lia; reflexivity|]. apply detect_mirror; auto. apply Hs. }
  rewrite Hmid.
  assert (Hout: let '(e2, x3, i3) := (if 0 <? mis then (del_event rm events, E, E) else detect_beyond_polya P iso ext2 int2 (del_event rm events)) in
                pos_ok x3 /\ pos_ok i3 /\ ~ (x3 = -1 /\ i3 = -1)).
  { destruct (0 <? mis); [repeat split; auto; intros [A _]; lia|].
    destruct (detect_beyond_cases P iso ext2 int2 (del_event rm events)) as [Ed|[new Ed]]; rewrite Ed; fold E; repeat split; auto. intros [A _]; lia. }
  destruct (if 0 <? mis then (del_event rm events, E, E) else detect_beyond_polya P iso ext2 int2 (del_event rm events)) as [[e2 x3] i3].
  destruct Hout as (Ox & Oi & Nb).
  rewrite (check_if_close_mirror P E x3 i3 e2 MES_correct_polya_site_right Ox Oi eq_refl).
  destruct (check_if_close P E x3 i3 e2 MES_correct_polya_site_right) as [r|]; [reflexivity|]. cbn [option_map].
  rewrite (rfp_eqb i3 Oi).
  set (pos := if i3 =? -1 then x3 else i3).
  assert (Hpos: (if i3 =? -1 then rfp L x3 else rfp L i3) = rfp L pos /\ pos <> -1 /\ L + 1 - pos <> -1).
  { unfold pos. destruct (Z.eqb_spec i3 (-1)) as [->|Ni3].
    - split; [reflexivity|]. destruct Ox as [->|[? ?]]; [exfalso; apply Nb; split; reflexivity|split; assumption].
    - split; [reflexivity|]. destruct Oi as [->|[? ?]]; [congruence|split; assumption]. }
  destruct Hpos as (Hp1 & Hp2 & Hp3). rewrite Hp1, (rfp_val pos Hp2).
  rewrite abs_mirror.
  rewrite <- (rfp_val pos Hp2).
  destruct (Z.abs (pos - E) >? apa_delta P); rewrite map_app; cbn [map]; rewrite new_event_me by reflexivity; reflexivity. Qed.
End V.
End VerifierMirror.

(* the hypotheses of the pair theorems are satisfiable (a read ending at 398 on an isoform ending at 400, polyA found at 398) *)
Lemma hypotheses_satisfiable :
  VerifierMirror.pos_ok 5000 398 /\ VerifierMirror.pos_ok 5000 (-1) /\ IntervalsMirror.hull_ok [(10, 20); (30, 40)] /\
  VerifierMirror.sent_ok 5000 [(100, 200); (300, 400)] 398 (-1) /\ VerifierMirror.shifted_ok 5000 [(100, 200); (300, 398)] [398; -1] /\
  verify_polya (mkvp 50 40 100 6) [(100, 200); (300, 400)] [(100, 200); (300, 398)] 398 (-1) [] =
    Ok [mk_ev MES_correct_polya_site_right undef_region undef_region 398].
Proof. split; [right; split; discriminate|]. split; [left; reflexivity|]. split; [cbn; lia|]. split; [|split; [|vm_compute; reflexivity]].
  - split; [intros H; discriminate H|]. intros _. repeat constructor; cbn; lia.
  - intros c p Hin Hc Hp. cbn in Hc. assert (c = 1) as -> by lia. destruct Hin as [<-|[<-|[]]]; [|congruence]. vm_compute. split; discriminate. Qed.

(* categorize_exon_elongation_subtype IS its own mirror image whenever the searched ranges contain a common split exon:
   the left part on the mirrored input = mirror image of the right part *)
Module ElongationMirror.
Import Intervals.
Lemma nthz_rev {A} (l:list A) i d : 0 <= i < Z.of_nat (length l) -> nthz (rev l) i d = nthz l (Z.of_nat (length l) - 1 - i) d.
Proof. intros H. unfold nthz. rewrite rev_nth by lia. f_equal. lia. Qed.
Section E.
Variables (ip rp:list Z) (n:Z).
Hypothesis Hip : Z.of_nat (length ip) = n.
Hypothesis Hrp : Z.of_nat (length rp) = n.
Definition midx (r:Z) : Z := if r =? -1 then -1 else n - 1 - r.
Lemma both_one_rev i : 0 <= i < n -> both_one (rev ip) (rev rp) i = both_one ip rp (n - 1 - i).
Proof. intros H. unfold both_one. rewrite !nthz_rev by lia. rewrite Hip, Hrp. reflexivity. Qed.
Lemma last_common_range : forall f m r, last_common f ip rp m = r -> r = -1 \/ 0 <= r <= m.
Proof. induction f as [|f IH]; intros m r H; [cbn in H; lia|]. cbn [last_common] in H. destruct (0 <=? m) eqn:E; [|lia].
  destruct (both_one ip rp m); [lia|]. apply IH in H. lia. Qed.
Lemma first_last_common : forall d i f1 f2, Z.of_nat d = n - i -> 0 <= i -> (d <= f1)%nat -> (d <= f2)%nat ->
  first_common f1 (rev ip) (rev rp) i n = midx (last_common f2 ip rp (n - 1 - i)).
Proof. induction d as [|d IH]; intros i f1 f2 Hd Hi H1 H2.
  - assert (i = n) by lia. subst i. replace (n - 1 - n) with (-1) by lia.
    destruct f1; destruct f2; cbn [first_common last_common]; replace (n <? n) with false by lia; reflexivity.
  - destruct f1 as [|f1]; [lia|]. destruct f2 as [|f2]; [lia|]. cbn [first_common last_common].
    replace (i <? n) with true by lia. replace (0 <=? n - 1 - i) with true by lia. rewrite both_one_rev by lia.
    destruct (both_one ip rp (n - 1 - i)); [unfold midx; replace (n - 1 - i =? -1) with false by lia; lia|].
    replace (n - 1 - i - 1) with (n - 1 - (i + 1)) by lia. apply IH; lia. Qed.
End E.

Lemma pyidx_rfl L (l:list iv) i : 0 <= i < Z.of_nat (length l) -> pyidx (rfl L l) (Z.of_nat (length l) - 1 - i) = option_map (rf L) (pyidx l i).
Proof. intros H. unfold pyidx. rewrite rfl_length.
  replace ((0 <=? Z.of_nat (length l) - 1 - i) && (Z.of_nat (length l) - 1 - i <? Z.of_nat (length l))) with true by lia.
  replace ((0 <=? i) && (i <? Z.of_nat (length l))) with true by lia.
  rewrite (nth_error_nth' _ (0, 0)) by (rewrite rfl_length; lia). rewrite (nth_error_nth' l (0, 0)) by lia. cbn [option_map]. f_equal.
  rewrite MirrorProofs.nth_rfl0 by lia. f_equal. f_equal. lia. Qed.

Theorem elong_left_is_mirror_of_elong_right E L sx ip rp ir rr read_last :
  let n := Z.of_nat (length sx) in
  Z.of_nat (length ip) = n -> Z.of_nat (length rp) = n -> 0 <= snd ir <= n -> 0 <= snd rr <= n ->
  last_common (Datatypes.S (length sx)) ip rp (Z.min (snd ir - 1) (snd rr - 1)) <> -1 ->
  elong_left E (rfl L sx) (rev ip) (rev rp) (n - snd ir, n - fst ir) (n - snd rr, n - fst rr) (rf L read_last) =
  option_map (map (mev 0 L)) (elong_right E sx ip rp ir rr read_last).
Proof. intros n Hip Hrp Hir Hrr Hc. unfold elong_left, elong_right. cbv zeta. rewrite rfl_length. cbn [fst snd]. fold n.
  set (m := Z.min (snd ir - 1) (snd rr - 1)) in *.
  replace (Z.max (n - snd ir) (n - snd rr)) with (n - 1 - m) by (unfold m; lia).
  assert (Hm: -1 <= m < n) by (unfold m; lia).
  rewrite (first_last_common ip rp n Hip Hrp (Z.to_nat (m + 1)) (n - 1 - m) (length sx) (Datatypes.S (length sx))) by (unfold n in *; lia).
  replace (n - 1 - (n - 1 - m)) with m by lia.
  set (cl := last_common (Datatypes.S (length sx)) ip rp m) in *.
  destruct (last_common_range ip rp _ _ _ (eq_refl cl)) as [Hcl|Hcl]; [contradiction|].
  unfold midx. replace (cl =? -1) with false by lia.
  unfold n at 1. rewrite pyidx_rfl by (fold n; lia).
  destruct (pyidx sx cl) as [x|]; [|reflexivity]. cbn [option_map]. rewrite py_overlaps_mirror.
  destruct (negb (py_overlaps read_last x)); [reflexivity|].
  unfold rf. cbn [fst snd]. replace (L + 1 - snd x - (L + 1 - snd read_last)) with (snd read_last - snd x) by lia.
  replace (n - 1 - cl =? n - snd ir) with (cl =? snd ir - 1) by lia.
  set (extra := snd read_last - snd x).
  destruct (cl =? snd ir - 1); cbn [option_map].
  - f_equal. rewrite map_app. f_equal.
    + destruct (Z.abs extra <=? minor_ext E); [|reflexivity]. destruct (Z.abs extra <=? edelta E); reflexivity.
    + destruct (extra >? minor_ext E); [reflexivity|]. destruct (extra >? edelta E); reflexivity.
  - destruct ((minor_ext E >=? extra) && (extra >? edelta E)); reflexivity. Qed.
End ElongationMirror.
