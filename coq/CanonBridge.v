(* C18: tie between the splice-site sets of the hand-written model Canon.v and the sets of the source.
   The lemma is stated for arbitrary lists F, R; props/C18.v instantiates it with CANONICAL_FWD_SITES / CANONICAL_REV_SITES of
   gen/Extra.v (regenerated from src/common.py on every check by tools/translate_extra.py) and discharges the two equalities by
   eq_refl, i.e. by conversion: an edit of the source's sets makes that theorem, and only it, fail. *)
From Coq Require Import ZArith List Bool.
From IQ Require Import Ids Canon.
Import ListNotations. Open Scope Z_scope.

Lemma site_sets_bridge (F R : list (str * str)) : Canon.fwd_sites = F -> Canon.rev_sites = R ->
  Canon.fwd_sites = F /\ Canon.rev_sites = R /\
  (forall st, sites st = match st with Plus => F | _ => R end) /\
  R = map mirror F /\
  (forall p, In p F -> In p R -> False).
Proof. intros HF HR. subst F R. split; [reflexivity|]. split; [reflexivity|]. split; [intros st; destruct st; reflexivity|].
  split; [exact rev_sites_generated|]. intros p. rewrite <- !in_sites_In. apply sites_disjoint. Qed.
