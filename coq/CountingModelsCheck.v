(* Decidable comparisons for the unit correspondence of the transcript-model bookkeeping (C02): the real GraphBasedModelConstructor
   methods save_assigned_read / delete_from_storage / assign_reads_to_models / forward_counts and GFFPrinter.dump_read_assignments run
   on generated step sequences against the model of CountingModels.v (check_m), and the specification evaluated on the implementation's
   own output: the dumped transcript-model tables must be what transcript_model_reads.tsv says (prop_m: counts_ok, stats_ok, grouped_ok
   on the call sequence reconstructed from the implementation's lines - the statement of model_reads_table_matches_counts). *)
From Coq Require Import ZArith NArith QArith Qabs List Bool Lia.
From IQ Require Import Counting CountingCounter CountingCheck CountingModels.
Import ListNotations.
Open Scope Z_scope.

Definition event_eqb (a b:event) : bool :=
  match a, b with
  | ERaw h1 f1 g1, ERaw h2 f2 g2 => Bool.eqb h1 h2 && zs_eq f1 f2 && (g1 =? g2)
  | EUnassigned n, EUnassigned m => n =? m
  | EUnaligned n, EUnaligned m => n =? m
  | EConfirm x, EConfirm y => zs_eq x y
  | ENone, ENone => true
  | _, _ => false
  end.
Definition pair_eqb (a b:Z * Z) : bool := (fst a =? fst b) && (snd a =? snd b).
Definition tri_eqb (a b:list (Z * list (Z * Z))) : bool := all2 (fun p q => (fst p =? fst q) && all2 pair_eqb (snd p) (snd q)) a b.
Definition line_eqb (a b:Z * option Z) : bool :=
  (fst a =? fst b) && match snd a, snd b with Some x, Some y => x =? y | None, None => true | _, _ => false end.
Definition nonempty_lists (t:list (Z * list (Z * Z))) := filter (fun p => match snd p with [] => false | _ => true end) t.

(* what was observed on the implementation: bookkeeping after forward_counts, the counter calls, the dumped tables, the r2t lines *)
Record mobs := mkmobs { o_tri : list (Z * list (Z * Z)); o_rac : list (Z * Z); o_models : list Z; o_events : list event;
                        o_rows : list (Z * list Q); o_stats : list Z; o_lines : list (Z * option Z);
                        o_ghdr : list Z; o_grows : list (Z * list Q); o_glinear : list (Z * Z * Q) }.
(* case: strategy, code of NA, group universe handed to the grouped counter ([] = no grouped counter), ground-truth group of every read, the steps *)
Record mcase := mkmcase { k_s : strategy; k_mna : Z; k_groups : list Z; k_truth : list (Z * Z); k_ops : list op }.

Definition cfg_u (k:mcase) : cfg := mk_counter (k_s k) TranscriptLevel (k_mna k) [] false (true, true).
Definition cfg_g (k:mcase) : cfg := mk_counter (k_s k) TranscriptLevel (k_mna k) (k_groups k) false (true, true).
Definition check_m (c:mcase * mobs) : bool :=
  let (k, o) := c in
  let st := process (k_ops k) in
  let evs := forward_counts st in
  legalb ms_empty (k_ops k) &&                      (* the generated sequence is one the theorems speak about *)
  tri_eqb (nonempty_lists (m_tri st)) (o_tri o) && all2 pair_eqb (fc_rac st) (o_rac o) && zs_eq (m_models st) (o_models o) &&
  all2 event_eqb evs (o_events o) && all2 line_eqb (r2t_lines st) (o_lines o) &&
  match run (cfg_u k) (init_state []) evs with
  | Some s1 => rows_close tol_cell (o_rows o) (dump_ungrouped (cfg_u k) s1) && zs_eq (o_stats o) [n_amb s1; n_noassign s1; n_noalign s1]
  | None => false end &&
  match k_groups k with
  | [] => true
  | _ => match run (cfg_g k) (init_state []) evs with
         | Some s2 => zs_eq (o_ghdr o) (c_ordered (cfg_g k)) && rows_close tol_cell (o_grows o) (dump_matrix (cfg_g k) s2) &&
                      linear_close tol_cell (o_glinear o) (dump_linear (cfg_g k) s2)
         | None => false end
  end.

(* every read of the region is either listed with its models or listed as unassigned ('*'), once: the reads that occur in the steps *)
Definition op_reads (o:op) : list Z := match o with OSave r _ _ => [r] | OAssign res => map (fun x => fst (fst x)) res | _ => [] end.
Definition all_reads_listed (k:mcase) (lines:list (Z * option Z)) : bool :=
  stars lines + Z.of_nat (length (nodup_first (line_reads lines))) =? Z.of_nat (length (nodupz (flat_map op_reads (k_ops k)))).
Definition truth_group (k:mcase) (r:Z) : Z := match assoc r (k_truth k) with Some g => g | None => k_mna k end.
Definition prop_m (c:mcase * mobs) : bool :=
  let (k, o) := c in
  let evs := events_from_r2t (o_lines o) (truth_group k) (o_models o) in
  let univ := nodupz (o_models o ++ flat_map (fun l => opt_list (snd l)) (o_lines o)) in
  counts_ok (k_s k) TranscriptLevel evs univ (o_rows o) && stats_ok TranscriptLevel evs 0 (o_stats o) && all_reads_listed k (o_lines o) &&
  match k_groups k with
  | [] => true
  | _ => grouped_ok (k_s k) TranscriptLevel evs (true, true) (o_ghdr o) (o_grows o) (o_rows o) (o_glinear o)
  end.
