(* IdsMulti.v — identifiers across chromosomes (property C17).
   Every chromosome is processed by its own worker: its own FeatureIdStorage(SimpleIDDistributor(), genedb, chr_id) and its own
   ExcludingIdDistributor(genedb, chr_id), each of which reads the reference features of ITS chromosome only.
   The id constructors are injective for every chromosome name (Ids.exon_id_inj, transcript_id_inj, novel_gene_id_inj: the number
   is the last / first field and decimal numerals contain neither '.' nor '_'), so generated ids of different chromosomes never
   collide.  What is left is a generated id of chromosome c against a REFERENCE id that sits on another chromosome c': the worker
   of c never sees it.  This file gives the exact side conditions, the witnesses when they fail, and the fact that an annotation
   written by IsoQuant itself satisfies them. *)
From Coq Require Import ZArith NArith List Bool Lia ZifyBool Sorted.
From IQ Require Import Ids.
Import ListNotations. Open Scope Z_scope.

Definition key_chr (k:key) : str := fst (fst (fst k)).
Definition ref_ids (fs:list ref_feature) : list str := flat_map (fun f => opt_list (snd f)) fs.

(* ------------------------------------------------------------------ where a returned exon id comes from *)
Definition vals_ok (s:store) := 0 <= counter s /\ forall k v, lookup k (dict s) = Some v ->
  In v (reserved s) \/ exists n, 0 < n /\ v = exon_id (key_chr k) n.
Lemma fresh_num_ge chr res : forall fuel n, n <= fresh_num fuel chr res n.
Proof. induction fuel as [|f IH]; intros n; cbn [fresh_num]; [lia|]. destruct (smem (exon_id chr n) res); [specialize (IH (n + 1)); lia|lia]. Qed.
Lemma get_id_reserved s k : reserved (fst (get_id s k)) = reserved s.
Proof. unfold get_id. destruct (lookup k (dict s)); reflexivity. Qed.
Lemma get_id_vals_ok s k : vals_ok s -> vals_ok (fst (get_id s k)) /\
  (In (snd (get_id s k)) (reserved s) \/ exists n, 0 < n /\ snd (get_id s k) = exon_id (key_chr k) n).
Proof. intros (Hc & He). unfold get_id. destruct (lookup k (dict s)) as [v|] eqn:El; cbn [fst snd].
  - split; [split; assumption|apply He, El].
  - pose proof (fresh_num_ge (fst (fst (fst k))) (reserved s) (Datatypes.S (length (reserved s))) (counter s + 1)) as G.
    set (n := fresh_num _ _ _ _) in *. split; [|right; exists n; split; [lia|reflexivity]].
    split; cbn [counter dict reserved]; [lia|]. intros k' v' H. cbn [lookup] in H. destruct (key_eqb k' k) eqn:Ek.
    + apply key_eqb_eq in Ek. subst k'. inversion H; subst. right. exists n. split; [lia|reflexivity].
    + apply He, H. Qed.
Lemma run_origin : forall ks s j k v, vals_ok s -> nth_error ks j = Some k -> nth_error (snd (run get_id s ks)) j = Some v ->
  In v (reserved s) \/ exists n, 0 < n /\ v = exon_id (key_chr k) n.
Proof. induction ks as [|k0 t IH]; intros s j k v Hs Hj Hv; [destruct j; discriminate|].
  cbn [run] in Hv. destruct (get_id_vals_ok s k0 Hs) as (Hs1 & O). pose proof (get_id_reserved s k0) as R.
  destruct (get_id s k0) as [s1 v0]. cbn [fst snd] in *. specialize (IH s1). destruct (run get_id s1 t) as [s2 vs]. cbn [snd] in *.
  destruct j as [|j]; cbn [nth_error] in Hj, Hv.
  - inversion Hj; inversion Hv; subst. exact O.
  - rewrite <- R. eapply IH; eauto. Qed.

Lemma preload_reserved_In chr : forall fs s v, In v (reserved (preload chr fs s)) <-> In v (ref_ids fs) \/ In v (reserved s).
Proof. unfold ref_ids. induction fs as [|[[[st en] sd] [w|]] t IH]; intros s v; cbn [preload flat_map snd opt_list app In].
  - tauto.
  - rewrite IH. cbn [reserved In]. intuition.
  - rewrite IH. tauto. Qed.
Lemma preload_vals_ok chr : forall fs s, (0 <= counter s /\ forall k v, lookup k (dict s) = Some v -> In v (reserved s)) ->
  0 <= counter (preload chr fs s) /\ forall k v, lookup k (dict (preload chr fs s)) = Some v -> In v (reserved (preload chr fs s)).
Proof. induction fs as [|[[[st en] sd] [w|]] t IH]; intros s H; cbn [preload]; [exact H| |apply IH, H].
  apply IH. cbn [counter dict reserved]. split; [apply H|]. intros k v. cbn [lookup]. destruct (key_eqb k (chr, st, en, sd)); intros E; [inversion E; left; reflexivity|right; eapply H; exact E]. Qed.
Lemma init_store_vals_ok chr fs : vals_ok (init_store chr fs).
Proof. destruct (preload_vals_ok chr fs empty_store) as (A & B); [split; [cbn; lia|cbn; discriminate]|]. split; [exact A|]. intros k v H. left. eapply B, H. Qed.
Lemma init_store_reserved chr fs v : In v (reserved (init_store chr fs)) <-> In v (ref_ids fs).
Proof. unfold init_store. rewrite preload_reserved_In. cbn. tauto. Qed.

(* every id a chromosome's storage returns is an exon_id attribute of the reference ON THAT CHROMOSOME, or <chr of the key>.<n>, n > 0 *)
Theorem returned_exon_id_origin chr fs ks j k v : nth_error ks j = Some k ->
  nth_error (snd (run get_id (init_store chr fs) ks)) j = Some v ->
  In v (ref_ids fs) \/ exists n, 0 < n /\ v = exon_id (key_chr k) n.
Proof. intros Hj Hv. destruct (run_origin ks _ j k v (init_store_vals_ok chr fs) Hj Hv) as [H|H]; [left; apply (proj1 (init_store_reserved chr fs v)), H|right; exact H]. Qed.

(* ------------------------------------------------------------------ exon ids across chromosomes *)
(* the two side conditions, both about the reference's own exon_id attributes (nothing is required of the chromosome names):
   (1) the two chromosomes of the reference share no exon_id;  (2) no exon_id found on one chromosome is <other chromosome>.<n> *)
Definition cross_clean (c1 c2:str) (fs1 fs2:list ref_feature) : Prop :=
  (forall v, In v (ref_ids fs1) -> In v (ref_ids fs2) -> False) /\
  (forall n, 0 < n -> ~ In (exon_id c1 n) (ref_ids fs2)) /\ (forall n, 0 < n -> ~ In (exon_id c2 n) (ref_ids fs1)).

Theorem exon_ids_across_chromosomes c1 c2 fs1 fs2 ks1 ks2 i j k1 k2 v :
  c1 <> c2 -> cross_clean c1 c2 fs1 fs2 ->
  nth_error ks1 i = Some k1 -> key_chr k1 = c1 -> nth_error ks2 j = Some k2 -> key_chr k2 = c2 ->
  nth_error (snd (run get_id (init_store c1 fs1) ks1)) i = Some v ->
  nth_error (snd (run get_id (init_store c2 fs2) ks2)) j = Some v -> False.
Proof. intros Hc (H1 & H2 & H3) Hi C1 Hj C2 V1 V2.
  destruct (returned_exon_id_origin _ _ _ _ _ _ Hi V1) as [R1|(n & Hn & E1)], (returned_exon_id_origin _ _ _ _ _ _ Hj V2) as [R2|(m & Hm & E2)].
  - exact (H1 v R1 R2).
  - subst v. rewrite C2 in R1. exact (H3 m Hm R1).
  - subst v. rewrite C1 in R2. exact (H2 n Hn R2).
  - subst v. rewrite C1, C2 in E2. apply exon_id_inj in E2; [|lia|lia]. destruct E2 as [E _]. exact (Hc E). Qed.

(* a reference without exon_id attributes on these chromosomes: no condition at all, whatever the chromosome names *)
Corollary exon_ids_across_chromosomes_no_reference_ids c1 c2 fs1 fs2 : ref_ids fs1 = [] -> ref_ids fs2 = [] -> cross_clean c1 c2 fs1 fs2.
Proof. intros E1 E2. unfold cross_clean. rewrite E1, E2. cbn. tauto. Qed.
(* an annotation written by IsoQuant (every exon_id on chromosome c is c.<n>): the conditions hold for any two different names *)
Definition isoquant_made (c:str) (fs:list ref_feature) : Prop := forall v, In v (ref_ids fs) -> exists n, 0 <= n /\ v = exon_id c n.
Corollary exon_ids_across_chromosomes_isoquant_made c1 c2 fs1 fs2 :
  c1 <> c2 -> isoquant_made c1 fs1 -> isoquant_made c2 fs2 -> cross_clean c1 c2 fs1 fs2.
Proof. intros Hc I1 I2. split; [|split].
  - intros v A B. destruct (I1 v A) as (n & Hn & E1), (I2 v B) as (m & Hm & E2). subst v. apply exon_id_inj in E2; [|lia|lia]. apply Hc, E2.
  - intros n Hn B. destruct (I2 _ B) as (m & Hm & E). apply exon_id_inj in E; [|lia|lia]. apply Hc, E.
  - intros n Hn A. destruct (I1 _ A) as (m & Hm & E). apply exon_id_inj in E; [|lia|lia]. apply Hc. symmetry. apply E. Qed.
(* foreign ids (ENSE..., anything that does not end in .<decimal>) can only clash by being repeated in the reference itself *)
Definition no_generated_shape (fs:list ref_feature) : Prop := forall v c n, In v (ref_ids fs) -> 0 <= n -> v <> exon_id c n.
Corollary exon_ids_across_chromosomes_foreign_ids c1 c2 fs1 fs2 :
  no_generated_shape fs1 -> no_generated_shape fs2 -> (forall v, In v (ref_ids fs1) -> In v (ref_ids fs2) -> False) -> cross_clean c1 c2 fs1 fs2.
Proof. intros N1 N2 D. split; [exact D|]. split; intros n Hn K; [eapply (N2 _ c1 n K)|eapply (N1 _ c2 n K)]; try lia; reflexivity. Qed.

(* both conditions are needed.  (2): the reference gives an exon of chrA the id "chrB.1"; the worker of chrB reads only the
   features of chrB, does not reserve it, and issues chrB.1 for its first new exon *)
Definition chrA : str := [99;104;114;65].
Definition chrB : str := [99;104;114;66].
Definition ENSE7 : str := [69;78;83;69;55].
Example exon_ids_cross_chromosome_refuted :
  let fsA := [(100, 200, plus, Some (exon_id chrB 1))] in let fsB := [(500, 600, plus, Some ENSE7)] in
  ref_injective fsA /\ ref_injective fsB /\ (forall v, In v (ref_ids fsA) -> In v (ref_ids fsB) -> False) /\
  snd (run get_id (init_store chrA fsA) [(chrA, 100, 200, plus)]) = [exon_id chrB 1] /\
  snd (run get_id (init_store chrB fsB) [(chrB, 700, 800, plus)]) = [exon_id chrB 1].
Proof. cbv zeta. split; [intros st en sd st' en' sd' v [H|[]] [H'|[]]; congruence|]. split; [intros st en sd st' en' sd' v [H|[]] [H'|[]]; congruence|].
  split; [intros v [<-|[]] [E|[]]; vm_compute in E; discriminate|]. split; vm_compute; reflexivity. Qed.
(* (1): the reference itself repeats an exon_id on two chromosomes (both are preserved) *)
Example exon_ids_shared_reference_id_refuted :
  snd (run get_id (init_store chrA [(100, 200, plus, Some ENSE7)]) [(chrA, 100, 200, plus)]) = [ENSE7] /\
  snd (run get_id (init_store chrB [(100, 200, plus, Some ENSE7)]) [(chrB, 100, 200, plus)]) = [ENSE7].
Proof. split; vm_compute; reflexivity. Qed.
(* chromosome names that contain the separator are harmless: "chr1" / "chr1.2" *)
Definition chr1 : str := [99;104;114;49].
Definition chr1_2 : str := [99;104;114;49;46;50].
Example dotted_chromosome_names :
  snd (run get_id (init_store chr1 []) [(chr1, 10, 20, plus); (chr1, 30, 40, plus); (chr1, 50, 60, plus)]) = [exon_id chr1 1; exon_id chr1 2; exon_id chr1 3] /\
  snd (run get_id (init_store chr1_2 []) [(chr1_2, 10, 20, plus); (chr1_2, 30, 40, plus)]) = [exon_id chr1_2 1; exon_id chr1_2 2] /\
  exon_id chr1 2 = chr1_2 /\ exon_id chr1_2 1 = [99;104;114;49;46;50;46;49] /\ cross_clean chr1 chr1_2 [] [].
Proof. repeat split; try (vm_compute; reflexivity); cbn; tauto. Qed.

(* ------------------------------------------------------------------ transcript and gene ids against the WHOLE reference *)
(* the reference annotation by chromosome: (name, (gene ids, transcript ids)) *)
Notation refdb := (list (str * (list str * list str))).
(* ids of the generated shape sit on the chromosome they name (true of every annotation IsoQuant writes) *)
Definition home_ok (ref:refdb) : Prop := forall c' g' t', In (c', (g', t')) ref ->
  (forall n c s, 0 <= n -> In (transcript_id n c s) t' -> c = c') /\ (forall n c, 0 <= n -> In (novel_gene_id c n) g' -> c = c').

Lemma assoc_unique {B} (l:list (str * B)) c x y : NoDup (map fst l) -> In (c, x) l -> In (c, y) l -> x = y.
Proof. induction l as [|[c0 z] t IH]; intros N Hx Hy; [destruct Hx|]. cbn [map fst] in N. inversion N; subst.
  destruct Hx as [Hx|Hx], Hy as [Hy|Hy].
  - congruence.
  - inversion Hx; subst. exfalso. apply H1. change c with (fst (c, y)). apply in_map, Hy.
  - inversion Hy; subst. exfalso. apply H1. change c with (fst (c, x)). apply in_map, Hx.
  - apply IH; assumption. Qed.

(* an id built from a number issued on chromosome c occurs nowhere in the reference — on c because its number is forbidden there
   (Ids.novel_id_not_in_reference), elsewhere because of home_ok *)
Theorem novel_ids_not_in_whole_reference (ref:refdb) c genes transcripts v k x s :
  NoDup (map fst ref) -> home_ok ref -> In (c, (genes, transcripts)) ref -> 0 <= v ->
  In x (issue (forbidden_ids genes transcripts) v k) ->
  forall c' g' t', In (c', (g', t')) ref -> ~ In (transcript_id x c s) t' /\ ~ In (novel_gene_id c x) g'.
Proof. intros N Hh Hc Hv Hx c' g' t' Hc'.
  pose proof (issue_above (forbidden_ids genes transcripts) k v) as F. rewrite Forall_forall in F. destruct (F x Hx) as [Hlt _]. assert (Hx0: 0 <= x) by lia.
  destruct (Hh _ _ _ Hc') as (HT & HG). split; intros K.
  - pose proof (HT _ _ _ Hx0 K) as E. subst c'. pose proof (assoc_unique ref c _ _ N Hc Hc') as E. inversion E; subst.
    exact (proj1 (novel_id_not_in_reference g' t' v k x c s Hv Hx) K).
  - pose proof (HG _ _ Hx0 K) as E. subst c'. pose proof (assoc_unique ref c _ _ N Hc Hc') as E. inversion E; subst.
    exact (proj2 (novel_id_not_in_reference g' t' v k x c false Hv Hx) K). Qed.

(* without home_ok: the reference puts "transcript1.chrB.nic" and "novel_gene_chrB_2" on chrA; the distributor of chrB reads the
   ids of chrB only, forbids nothing and issues 1, 2 *)
Definition ENST1 : str := [69;78;83;84;49].
Example novel_ids_cross_chromosome_refuted :
  let ref : refdb := [(chrA, ([novel_gene_id chrB 2], [transcript_id 1 chrB true])); (chrB, ([], [ENST1]))] in
  NoDup (map fst ref) /\ issue (forbidden_ids [] [ENST1]) 0 2 = [1; 2] /\
  In (transcript_id 1 chrB true) [transcript_id 1 chrB true] /\ In (novel_gene_id chrB 2) [novel_gene_id chrB 2] /\
  forbidden_ids [novel_gene_id chrB 2] [transcript_id 1 chrB true] = [2; 1].
Proof. cbv zeta. split; [repeat constructor; cbn; intuition discriminate|]. repeat split; try (vm_compute; reflexivity); left; reflexivity. Qed.

(* ------------------------------------------------------------------ the ids of a whole output file *)
(* one worker per chromosome: its reference ids and what model construction asks of the distributor, in order (Ids.allocate) *)
Notation world := (list (str * (list str * list str) * list alloc)).
Definition w_ref (w:world) : refdb := map fst w.
Definition w_novel_tids (e:str * (list str * list str) * list alloc) : list str :=
  let '(c, (genes, transcripts), l) := e in out_tids (snd (allocate (forbidden_ids genes transcripts) c 0 l)).
Definition w_novel_gids (e:str * (list str * list str) * list alloc) : list str :=
  let '(c, (genes, transcripts), l) := e in out_gids (snd (allocate (forbidden_ids genes transcripts) c 0 l)).
Definition ref_tids (w:world) : list str := concat (map (fun e => snd (snd (fst e))) w).
Definition ref_gids (w:world) : list str := concat (map (fun e => fst (snd (fst e))) w).

Lemma nodup_app {A} (a b:list A) : NoDup a -> NoDup b -> (forall x, In x a -> In x b -> False) -> NoDup (a ++ b).
Proof. intros Na Nb D. induction Na as [|x a Hx Na IH]; [exact Nb|]. cbn [app]. constructor.
  - rewrite in_app_iff. intros [K|K]; [exact (Hx K)|exact (D x (or_introl eq_refl) K)].
  - apply IH. intros y Hy. apply D. right; exact Hy. Qed.
Lemma pairs_of_nodup_names (w:world) (P:_ -> _ -> Prop) : NoDup (map (fun e => fst (fst e)) w) ->
  (forall a b, In a w -> In b w -> fst (fst a) <> fst (fst b) -> P a b) -> ForallOrdPairs P w.
Proof. induction w as [|a t IH]; intros N H; [constructor|]. cbn [map] in N. inversion N; subst. constructor.
  - rewrite Forall_forall. intros b Hb. apply H; [left; reflexivity|right; exact Hb|]. intros E. apply H2. rewrite E. apply in_map with (f := fun e => fst (fst e)), Hb.
  - apply IH; [exact H3|]. intros x y Hx Hy. apply H; right; assumption. Qed.
Lemma FOP_map {A B} (f:A -> B) (P:B -> B -> Prop) l : ForallOrdPairs (fun a b => P (f a) (f b)) l -> ForallOrdPairs P (map f l).
Proof. induction 1 as [|a l Ha _ IH]; cbn [map]; constructor; [rewrite Forall_map; exact Ha|exact IH]. Qed.

(* extended_annotation.gtf (every reference transcript + every novel transcript of every chromosome): transcript ids pairwise
   distinct, gene ids of novel genes distinct from one another and from every reference gene id.  Hypotheses: chromosome names
   distinct, the reference's own transcript ids distinct (gffutils' primary key), home_ok. *)
Theorem extended_file_ids_unique (w:world) :
  NoDup (map (fun e => fst (fst e)) w) -> home_ok (w_ref w) -> NoDup (ref_tids w) ->
  NoDup (ref_tids w ++ concat (map w_novel_tids w)) /\
  NoDup (concat (map w_novel_gids w)) /\ (forall g, In g (concat (map w_novel_gids w)) -> ~ In g (ref_gids w)).
Proof. intros N Hh NR.
  assert (Nref: NoDup (map fst (w_ref w))) by (unfold w_ref; rewrite map_map; exact N).
  assert (Shape: forall e, In e w -> let '(c, (genes, transcripts), l) := e in
            Forall (fun t => exists n nic, 0 < n /\ ~ In n (forbidden_ids genes transcripts) /\ t = transcript_id n c nic) (w_novel_tids e) /\
            Forall (fun g => exists n, 0 < n /\ ~ In n (forbidden_ids genes transcripts) /\ g = novel_gene_id c n) (w_novel_gids e)).
  { intros [[c [genes transcripts]] l] _. destruct (allocate_above (forbidden_ids genes transcripts) c l 0) as (_ & T & G). split; assumption. }
  assert (DisjT: ForallOrdPairs (fun a b => forall x, In x a -> In x b -> False) (map w_novel_tids w)).
  { apply FOP_map, pairs_of_nodup_names; [exact N|]. intros a b Ha Hb Hab x Xa Xb.
    pose proof (Shape a Ha) as Sa. pose proof (Shape b Hb) as Sb. destruct a as [[ca [ga ta]] la], b as [[cb [gb tb]] lb]. cbn [fst] in Hab.
    destruct Sa as (Sa & _), Sb as (Sb & _). rewrite Forall_forall in Sa, Sb. destruct (Sa x Xa) as (n & s & Hn & _ & E), (Sb x Xb) as (m & s' & Hm & _ & E'). subst x.
    apply transcript_id_inj in E'; [|lia|lia]. destruct E' as (_ & E' & _). exact (Hab E'). }
  assert (DisjG: ForallOrdPairs (fun a b => forall x, In x a -> In x b -> False) (map w_novel_gids w)).
  { apply FOP_map, pairs_of_nodup_names; [exact N|]. intros a b Ha Hb Hab x Xa Xb.
    pose proof (Shape a Ha) as Sa. pose proof (Shape b Hb) as Sb. destruct a as [[ca [ga ta]] la], b as [[cb [gb tb]] lb]. cbn [fst] in Hab.
    destruct Sa as (_ & Sa), Sb as (_ & Sb). rewrite Forall_forall in Sa, Sb. destruct (Sa x Xa) as (n & Hn & _ & E), (Sb x Xb) as (m & Hm & _ & E'). subst x.
    apply novel_gene_id_inj in E'; [|lia|lia]. destruct E' as (E' & _). exact (Hab E'). }
  split; [|split].
  - apply nodup_app; [exact NR| |].
    + apply nodup_concat_disjoint; [|exact DisjT]. rewrite Forall_map, Forall_forall. intros [[c [genes transcripts]] l] _. apply allocated_ids_distinct. lia.
    + intros x Xr Xn. apply in_concat in Xr. destruct Xr as (ts & Hts & Xr). apply in_map_iff in Hts. destruct Hts as (e' & <- & He').
      apply in_concat in Xn. destruct Xn as (ns & Hns & Xn). apply in_map_iff in Hns. destruct Hns as (e & <- & He).
      pose proof (Shape e He) as S. destruct e as [[c [genes transcripts]] l], e' as [[c' [genes' transcripts']] l']. cbn [fst snd] in Xr.
      destruct S as (S & _). rewrite Forall_forall in S. destruct (S x Xn) as (n & s & Hn & Hf & ->).
      assert (Hr': In (c', (genes', transcripts')) (w_ref w)) by (unfold w_ref; apply in_map_iff; exists (c', (genes', transcripts'), l'); auto).
      assert (Hr: In (c, (genes, transcripts)) (w_ref w)) by (unfold w_ref; apply in_map_iff; exists (c, (genes, transcripts), l); auto).
      destruct (Hh _ _ _ Hr') as (HT & _). assert (E: c = c') by (eapply HT; [|exact Xr]; lia). subst c'.
      pose proof (assoc_unique _ c _ _ Nref Hr Hr') as E. inversion E; subst. apply Hf. unfold forbidden_ids. apply in_or_app. right.
      apply in_flat_map. exists (transcript_id n c s). split; [exact Xr|]. apply in_opt_list, transcript_forbidden_generated. lia.
  - apply nodup_concat_disjoint; [|exact DisjG]. rewrite Forall_map, Forall_forall. intros [[c [genes transcripts]] l] _. apply allocated_ids_distinct. lia.
  - intros x Xn Xr. apply in_concat in Xr. destruct Xr as (ts & Hts & Xr). apply in_map_iff in Hts. destruct Hts as (e' & <- & He').
    apply in_concat in Xn. destruct Xn as (ns & Hns & Xn). apply in_map_iff in Hns. destruct Hns as (e & <- & He).
    pose proof (Shape e He) as S. destruct e as [[c [genes transcripts]] l], e' as [[c' [genes' transcripts']] l']. cbn [fst snd] in Xr.
    destruct S as (_ & S). rewrite Forall_forall in S. destruct (S x Xn) as (n & Hn & Hf & ->).
    assert (Hr': In (c', (genes', transcripts')) (w_ref w)) by (unfold w_ref; apply in_map_iff; exists (c', (genes', transcripts'), l'); auto).
    assert (Hr: In (c, (genes, transcripts)) (w_ref w)) by (unfold w_ref; apply in_map_iff; exists (c, (genes, transcripts), l); auto).
    destruct (Hh _ _ _ Hr') as (_ & HG). assert (E: c = c') by (eapply HG; [|exact Xr]; lia). subst c'.
    pose proof (assoc_unique _ c _ _ Nref Hr Hr') as E. inversion E; subst. apply Hf. unfold forbidden_ids. apply in_or_app. left.
    apply in_flat_map. exists (novel_gene_id c n). split; [exact Xr|]. apply in_opt_list, gene_forbidden_generated. lia. Qed.

(* an annotation none of whose ids has the generated shape (a first run against GENCODE / Ensembl) satisfies home_ok vacuously;
   so does an annotation written by IsoQuant for the same chromosome names.  Instance: second-generation run, two chromosomes *)
Example extended_file_ids_example :
  let w : world := [(chrA, ([novel_gene_id chrA 2], [ENST1; transcript_id 1 chrA true]), [WithRefGene true; WithNovelGene false]);
                    (chrB, ([], [transcript_id 1 chrB false]), [WithNovelGene true])] in
  home_ok (w_ref w) /\ NoDup (map (fun e => fst (fst e)) w) /\ NoDup (ref_tids w) /\
  concat (map w_novel_tids w) = [transcript_id 3 chrA true; transcript_id 4 chrA false; transcript_id 2 chrB true] /\
  concat (map w_novel_gids w) = [novel_gene_id chrA 5; novel_gene_id chrB 3].
Proof. cbv zeta. split; [|split; [|split; [|split; vm_compute; reflexivity]]].
  - intros c' g' t' [H|[H|[]]]; inversion H; subst; clear H; split.
    + intros n c s Hn [K|[K|[]]]; [vm_compute in K; destruct (print_dec n) as [|d r]; discriminate|].
      apply transcript_id_inj in K; [symmetry; apply K|lia|lia].
    + intros n c Hn [K|[]]. apply novel_gene_id_inj in K; [symmetry; apply K|lia|lia].
    + intros n c s Hn [K|[]]. apply transcript_id_inj in K; [symmetry; apply K|lia|lia].
    + intros n c Hn [].
  - repeat constructor; cbn; intuition discriminate.
  - repeat constructor; cbn; intuition discriminate. Qed.

Print Assumptions exon_ids_across_chromosomes.
Print Assumptions exon_ids_across_chromosomes_isoquant_made.
Print Assumptions novel_ids_not_in_whole_reference.
Print Assumptions extended_file_ids_unique.
