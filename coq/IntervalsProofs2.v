(* C19: merge_ranges — the union of two start-sorted interval lists, for ALL lists (by induction on the fuel of the sweep).
   Nothing here changes Intervals.v / IntervalsSpec.v / IntervalsProofs.v. *)
From Coq Require Import ZArith NArith List Bool Lia ZifyBool ZifyN.
From IQ.gen Require Import Prims.
From IQ Require Import CorrSupport Intervals IntervalsSpec IntervalsProofs.
Import ListNotations. Open Scope Z_scope.

(* ---------- cover algebra ---------- *)
Lemma cover_nil p : cover [] p = false. Proof. reflexivity. Qed.
Lemma cover_cons x l p : cover (x :: l) p = inb x p || cover l p. Proof. reflexivity. Qed.
Lemma cover_app l1 l2 p : cover (l1 ++ l2) p = cover l1 p || cover l2 p. Proof. unfold cover. apply existsb_app. Qed.
Lemma cover_rev l p : cover (rev l) p = cover l p.
Proof. induction l as [|x t IH]; [reflexivity|]. cbn [rev]. rewrite cover_app, IH, !cover_cons, cover_nil.
  destruct (inb x p), (cover t p); reflexivity. Qed.
Lemma cover_true_iff l p : cover l p = true <-> exists a, In a l /\ fst a <= p <= snd a.
Proof. unfold cover. rewrite existsb_exists. split; intros (a & Ha & H); exists a; (split; [exact Ha|]); unfold inb in *; lia. Qed.

Ltac batoms := rewrite ?cover_cons; repeat match goal with
  | |- context [inb ?x ?p] => destruct (inb x p)
  | |- context [cover ?l ?p] => destruct (cover l p) end; try reflexivity.

Lemma cover_upd x0 x1 e r p : x0 <= x1 -> cover ((x0, Z.max x1 e) :: r) p = cover ((x0, x1) :: r) p || ((x0 <=? p) && (p <=? e)).
Proof. intros H. rewrite !cover_cons. unfold inb. cbn [fst snd]. destruct (cover r p); lia. Qed.

Definition hd_ge (lo:Z) (l:list iv) : Prop := match l with x :: _ => lo <= fst x | [] => True end.
Lemma mono_hd a t : mono (a :: t) -> hd_ge (fst a) t.
Proof. intros (_ & H & _). destruct t; exact H. Qed.
Lemma mono_tl a t : mono (a :: t) -> mono t.
Proof. intros (_ & _ & H). exact H. Qed.
Lemma mono_wf a t : mono (a :: t) -> fst a <= snd a.
Proof. intros (H & _). exact H. Qed.
Lemma hd_ge_le lo lo' l : lo' <= lo -> hd_ge lo l -> hd_ge lo' l.
Proof. destruct l; simpl; intros; lia. Qed.
Lemma sd_mono l : sd l -> mono l.
Proof. induction l as [|a t IH]; [exact id|]. intros (Ha & Hn & Ht). split; [exact Ha|]. split; [|exact (IH Ht)].
  destruct t as [|b t']; [exact Logic.I|]. lia. Qed.

(* ---------- the invariant of the sweep (cover part): what the `included` flags mean ----------
   The last block of the union (head of the reversed accumulator) starts no later than everything still to be read;
   when the head of a list is flagged included, every position from the start of that last block up to the end of the
   flagged interval is already covered by the accumulator. *)
Definition flagged (f:bool) (L acc:list iv) : Prop :=
  f = true -> match L, acc with a :: _, last :: _ => fst last <= snd last /\ forall p, fst last <= p <= snd a -> cover acc p = true | _, _ => False end.
Definition mrI (A B:list iv) (i1 i2:bool) (acc:list iv) : Prop :=
  (i1 = true -> i2 = true -> False) /\
  (match acc with last :: _ => hd_ge (fst last) A /\ hd_ge (fst last) B | [] => True end) /\
  flagged i1 A acc /\ flagged i2 B acc.

Lemma flagged_false L acc : flagged false L acc. Proof. intros H; discriminate. Qed.

Lemma mr_f_cover : forall n A B i1 i2 acc, (length A + length B < n)%nat -> mono A -> mono B -> mrI A B i1 i2 acc ->
  exists l, mr_f n A B i1 i2 acc = Some l /\ forall p, cover l p = cover acc p || (cover A p || cover B p).
Proof.
  induction n as [|n IH]; intros A B i1 i2 acc Hn HA HB (Hx & HL & H1 & H2); [lia|].
  destruct A as [|a A'].
  { cbn [mr_f]. eexists; split; [reflexivity|]. intros p. rewrite cover_app, cover_rev, cover_nil.
    destruct i2; [|batoms].
    specialize (H2 eq_refl). destruct B as [|b B']; [destruct H2|]. destruct acc as [|last r]; [destruct H2|].
    destruct H2 as (Hw & H2). destruct HL as (_ & HLb). cbn [hd_ge] in HLb. cbn [tl]. rewrite (cover_cons b B').
    destruct (inb b p) eqn:Eb; [|batoms]. rewrite (H2 p) by (unfold inb in Eb; lia). reflexivity. }
  destruct B as [|b B'].
  { cbn [mr_f]. eexists; split; [reflexivity|]. intros p. rewrite cover_app, cover_rev, cover_nil.
    destruct i1; [|batoms].
    specialize (H1 eq_refl). destruct acc as [|last r]; [destruct H1|].
    destruct H1 as (Hw & H1). destruct HL as (HLa & _). cbn [hd_ge] in HLa. cbn [tl]. rewrite (cover_cons a A').
    destruct (inb a p) eqn:Ea; [|batoms]. rewrite (H1 p) by (unfold inb in Ea; lia). batoms. }
  cbn [mr_f].
  pose proof (mono_wf _ _ HA) as Ha. pose proof (mono_wf _ _ HB) as Hb.
  pose proof (mono_tl _ _ HA) as HA'. pose proof (mono_tl _ _ HB) as HB'.
  pose proof (mono_hd _ _ HA) as HgA. pose proof (mono_hd _ _ HB) as HgB.
  cbn [length] in Hn.
  destruct (py_overlaps a b) eqn:Eo; unfold py_overlaps in Eo.
  - destruct i1, i2.
    + exfalso; apply Hx; reflexivity.
    + (* a is included: take the extra bite from b *)
      cbn [andb negb].
      specialize (H1 eq_refl). destruct acc as [|[l0 l1] r]; [destruct H1|]. destruct H1 as (Hw & H1). cbn [fst snd] in Hw, H1.
      destruct HL as (HLa & HLb). cbn [hd_ge fst] in HLa, HLb. cbn [upd_last fst snd].
      assert (Hc: forall p, cover ((l0, Z.max l1 (snd b)) :: r) p = cover ((l0, l1) :: r) p || inb b p).
      { intros p. rewrite (cover_upd l0 l1 (snd b) r p Hw).
        destruct (cover ((l0, l1) :: r) p) eqn:Ec; [reflexivity|]. cbn [orb]. unfold inb.
        destruct (Z_le_gt_dec p (snd a)) as [Hp|Hp]; [|lia].
        destruct (Z_le_gt_dec l0 p) as [Hq|Hq]; [|lia]. rewrite (H1 p) in Ec by lia. discriminate. }
      destruct (snd b <? snd a) eqn:E1.
      * destruct (IH (a :: A') B' true false ((l0, Z.max l1 (snd b)) :: r)) as (l & Hl & Hcov); [cbn [length]; lia|exact HA|exact HB'| |].
        { split; [intros _ H; discriminate|]. split; [cbn [fst hd_ge]; split; [exact HLa|eapply hd_ge_le; [|exact HgB]; lia]|].
          split; [|apply flagged_false]. intros _. cbn [fst snd]. split; [lia|]. intros p Hp. rewrite Hc, (H1 p Hp). reflexivity. }
        exists l; split; [exact Hl|]. intros p. rewrite Hcov, Hc, (cover_cons b B'). batoms.
      * destruct (IH A' (b :: B') false true ((l0, Z.max l1 (snd b)) :: r)) as (l & Hl & Hcov); [cbn [length]; lia|exact HA'|exact HB| |].
        { split; [intros H; discriminate|]. split; [cbn [fst hd_ge]; split; [eapply hd_ge_le; [|exact HgA]; lia|exact HLb]|].
          split; [apply flagged_false|]. intros _. cbn [fst snd]. split; [lia|]. intros p Hp.
          rewrite (cover_upd l0 l1 (snd b) r p Hw). destruct (cover ((l0, l1) :: r) p); [reflexivity|]. cbn [orb]. lia. }
        exists l; split; [exact Hl|]. intros p. rewrite Hcov, Hc, (cover_cons a A').
        destruct (inb a p) eqn:Ea; [|batoms]. rewrite (H1 p) by (unfold inb in Ea; lia). batoms.
    + (* b is included: take the extra bite from a *)
      cbn [andb negb].
      specialize (H2 eq_refl). destruct acc as [|[l0 l1] r]; [destruct H2|]. destruct H2 as (Hw & H2). cbn [fst snd] in Hw, H2.
      destruct HL as (HLa & HLb). cbn [hd_ge fst] in HLa, HLb. cbn [upd_last fst snd].
      assert (Hc: forall p, cover ((l0, Z.max l1 (snd a)) :: r) p = cover ((l0, l1) :: r) p || inb a p).
      { intros p. rewrite (cover_upd l0 l1 (snd a) r p Hw).
        destruct (cover ((l0, l1) :: r) p) eqn:Ec; [reflexivity|]. cbn [orb]. unfold inb.
        destruct (Z_le_gt_dec p (snd b)) as [Hp|Hp]; [|lia].
        destruct (Z_le_gt_dec l0 p) as [Hq|Hq]; [|lia]. rewrite (H2 p) in Ec by lia. discriminate. }
      destruct (snd b <? snd a) eqn:E1.
      * destruct (IH (a :: A') B' true false ((l0, Z.max l1 (snd a)) :: r)) as (l & Hl & Hcov); [cbn [length]; lia|exact HA|exact HB'| |].
        { split; [intros _ H; discriminate|]. split; [cbn [fst hd_ge]; split; [exact HLa|eapply hd_ge_le; [|exact HgB]; lia]|].
          split; [|apply flagged_false]. intros _. cbn [fst snd]. split; [lia|]. intros p Hp.
          rewrite (cover_upd l0 l1 (snd a) r p Hw). destruct (cover ((l0, l1) :: r) p); [reflexivity|]. cbn [orb]. lia. }
        exists l; split; [exact Hl|]. intros p. rewrite Hcov, Hc, (cover_cons b B').
        destruct (inb b p) eqn:Eb; [|batoms]. rewrite (H2 p) by (unfold inb in Eb; lia). batoms.
      * destruct (IH A' (b :: B') false true ((l0, Z.max l1 (snd a)) :: r)) as (l & Hl & Hcov); [cbn [length]; lia|exact HA'|exact HB| |].
        { split; [intros H; discriminate|]. split; [cbn [fst hd_ge]; split; [eapply hd_ge_le; [|exact HgA]; lia|exact HLb]|].
          split; [apply flagged_false|]. intros _. cbn [fst snd]. split; [lia|]. intros p Hp. rewrite Hc, (H2 p Hp). reflexivity. }
        exists l; split; [exact Hl|]. intros p. rewrite Hcov, Hc, (cover_cons a A'). batoms.
    + (* neither counted: a new block, the hull of the two overlapping intervals *)
      cbn [andb negb].
      assert (Hc: forall p, cover ((Z.min (fst a) (fst b), Z.max (snd a) (snd b)) :: acc) p = (inb a p || inb b p) || cover acc p).
      { intros p. rewrite cover_cons. unfold inb. cbn [fst snd]. destruct (cover acc p); lia. }
      assert (HL': forall X Y, hd_ge (fst a) X -> hd_ge (fst b) Y ->
                hd_ge (Z.min (fst a) (fst b)) X /\ hd_ge (Z.min (fst a) (fst b)) Y).
      { intros X Y HX HY. split; [eapply hd_ge_le; [|exact HX]|eapply hd_ge_le; [|exact HY]]; lia. }
      destruct (snd b <? snd a) eqn:E1.
      * destruct (IH (a :: A') B' true false ((Z.min (fst a) (fst b), Z.max (snd a) (snd b)) :: acc)) as (l & Hl & Hcov); [cbn [length]; lia|exact HA|exact HB'| |].
        { split; [intros _ H; discriminate|]. split; [cbn [fst]; apply HL'; [cbn [hd_ge]; lia|exact HgB]|].
          split; [|apply flagged_false]. intros _. cbn [fst snd]. split; [lia|]. intros p Hp.
          rewrite cover_cons. unfold inb. cbn [fst snd]. destruct (cover acc p); lia. }
        exists l; split; [exact Hl|]. intros p. rewrite Hcov, Hc, (cover_cons b B'), (cover_cons a A'). batoms.
      * destruct (IH A' (b :: B') false true ((Z.min (fst a) (fst b), Z.max (snd a) (snd b)) :: acc)) as (l & Hl & Hcov); [cbn [length]; lia|exact HA'|exact HB| |].
        { split; [intros H; discriminate|]. split; [cbn [fst]; apply HL'; [exact HgA|cbn [hd_ge]; lia]|].
          split; [apply flagged_false|]. intros _. cbn [fst snd]. split; [lia|]. intros p Hp.
          rewrite cover_cons. unfold inb. cbn [fst snd]. destruct (cover acc p); lia. }
        exists l; split; [exact Hl|]. intros p. rewrite Hcov, Hc, (cover_cons b B'), (cover_cons a A'). batoms.
  - destruct (py_left_of b a) eqn:E1; unfold py_left_of in E1.
    + (* b entirely left of a: emit b unless already counted *)
      destruct i2.
      * assert (i1 = false) by (destruct i1; [exfalso; apply Hx; reflexivity|reflexivity]). subst i1.
        specialize (H2 eq_refl). destruct acc as [|[l0 l1] r]; [destruct H2|]. destruct H2 as (Hw & H2). cbn [fst snd] in Hw, H2.
        destruct HL as (HLa & HLb). cbn [hd_ge fst] in HLa, HLb.
        destruct (IH (a :: A') B' false false ((l0, l1) :: r)) as (l & Hl & Hcov); [cbn [length]; lia|exact HA|exact HB'| |].
        { split; [intros H; discriminate|]. split; [cbn [fst hd_ge]; split; [exact HLa|eapply hd_ge_le; [|exact HgB]; lia]|].
          split; apply flagged_false. }
        exists l; split; [exact Hl|]. intros p. rewrite Hcov, (cover_cons b B').
        destruct (inb b p) eqn:Eb; [|batoms]. rewrite (H2 p) by (unfold inb in Eb; lia). reflexivity.
      * destruct (IH (a :: A') B' i1 false (b :: acc)) as (l & Hl & Hcov); [cbn [length]; lia|exact HA|exact HB'| |].
        { split; [intros _ H; discriminate|]. split; [cbn [fst hd_ge]; split; [lia|exact HgB]|].
          split; [|apply flagged_false]. intros Hi. specialize (H1 Hi). destruct acc as [|[l0 l1] r]; [destruct H1|].
          destruct H1 as (Hw & H1). cbn [fst snd] in Hw, H1. destruct HL as (HLa & HLb). cbn [hd_ge fst] in HLa, HLb.
          split; [exact Hb|]. intros p Hp. rewrite cover_cons. destruct (inb b p) eqn:Eb; [reflexivity|].
          cbn [orb]. apply H1. unfold inb in Eb. lia. }
        exists l; split; [exact Hl|]. intros p. rewrite Hcov, (cover_cons b B'), (cover_cons b acc). batoms.
    + (* a entirely left of b: emit a unless already counted *)
      destruct i1.
      * assert (i2 = false) by (destruct i2; [exfalso; apply Hx; reflexivity|reflexivity]). subst i2.
        specialize (H1 eq_refl). destruct acc as [|[l0 l1] r]; [destruct H1|]. destruct H1 as (Hw & H1). cbn [fst snd] in Hw, H1.
        destruct HL as (HLa & HLb). cbn [hd_ge fst] in HLa, HLb.
        destruct (IH A' (b :: B') false false ((l0, l1) :: r)) as (l & Hl & Hcov); [cbn [length]; lia|exact HA'|exact HB| |].
        { split; [intros H; discriminate|]. split; [cbn [fst hd_ge]; split; [eapply hd_ge_le; [|exact HgA]; lia|exact HLb]|].
          split; apply flagged_false. }
        exists l; split; [exact Hl|]. intros p. rewrite Hcov, (cover_cons a A').
        destruct (inb a p) eqn:Ea; [|batoms]. rewrite (H1 p) by (unfold inb in Ea; lia). reflexivity.
      * destruct (IH A' (b :: B') false i2 (a :: acc)) as (l & Hl & Hcov); [cbn [length]; lia|exact HA'|exact HB| |].
        { split; [intros H; discriminate|]. split; [cbn [fst hd_ge]; split; [exact HgA|lia]|].
          split; [apply flagged_false|]. intros Hi. specialize (H2 Hi). destruct acc as [|[l0 l1] r]; [destruct H2|].
          destruct H2 as (Hw & H2). cbn [fst snd] in Hw, H2. destruct HL as (HLa & HLb). cbn [hd_ge fst] in HLa, HLb.
          split; [exact Ha|]. intros p Hp. rewrite cover_cons. destruct (inb a p) eqn:Ea; [reflexivity|].
          cbn [orb]. apply H2. unfold inb in Ea. lia. }
        exists l; split; [exact Hl|]. intros p. rewrite Hcov, (cover_cons a A'), (cover_cons a acc). batoms.
Qed.

(* ---------- the union is strictly increasing and disjoint when both inputs are ---------- *)
Fixpoint rsd (acc:list iv) : Prop :=      (* the reversed accumulator is sd *)
  match acc with [] => True | x :: t => fst x <= snd x /\ match t with y :: _ => snd y < fst x | [] => True end /\ rsd t end.
Definition hd_gt (hi:Z) (l:list iv) : Prop := match l with x :: _ => hi < fst x | [] => True end.
Lemma sd_hd a t : sd (a :: t) -> hd_gt (snd a) t.
Proof. intros (_ & H & _). destruct t; exact H. Qed.
Lemma sd_wf a t : sd (a :: t) -> fst a <= snd a.
Proof. intros (H & _). exact H. Qed.
Lemma sd_cons_hd a t : fst a <= snd a -> hd_gt (snd a) t -> sd t -> sd (a :: t).
Proof. intros H1 H2 H3. split; [exact H1|]. split; [destruct t; exact H2|exact H3]. Qed.
Lemma rsd_app acc : forall l, rsd acc -> sd l -> match acc with x :: _ => hd_gt (snd x) l | [] => True end -> sd (rev acc ++ l).
Proof. induction acc as [|x t IH]; intros l Hr Hs Hh; [exact Hs|]. cbn [rev]. rewrite <- app_assoc. cbn [app].
  destruct Hr as (Hx & Hn & Hr). apply IH; [exact Hr|apply sd_cons_hd; assumption|]. destruct t as [|y t']; [exact Logic.I|exact Hn]. Qed.

Definition mrJ (A B:list iv) (i1 i2:bool) (acc:list iv) : Prop :=
  rsd acc /\ (i1 = true -> i2 = true -> False) /\
  (i1 = false -> i2 = false -> match acc with last :: _ => hd_gt (snd last) A /\ hd_gt (snd last) B | [] => True end) /\
  (i1 = true -> match A, acc with a :: _, last :: _ => snd last = snd a /\ hd_ge (fst a) B | _, _ => False end) /\
  (i2 = true -> match B, acc with b :: _, last :: _ => snd last = snd b /\ hd_ge (fst b) A | _, _ => False end).

Lemma hd_gt_ge hi lo l : lo <= hi -> hd_gt hi l -> hd_ge lo l.
Proof. destruct l; simpl; intros; lia. Qed.
Lemma hd_gt_le hi hi' l : hi' <= hi -> hd_gt hi l -> hd_gt hi' l.
Proof. destruct l; simpl; intros; lia. Qed.

Lemma mr_f_sd : forall n A B i1 i2 acc l, sd A -> sd B -> mrJ A B i1 i2 acc -> mr_f n A B i1 i2 acc = Some l -> sd l.
Proof.
  induction n as [|n IH]; intros A B i1 i2 acc l HA HB (Hr & Hx & Hff & H1 & H2) Hl; [discriminate|].
  destruct A as [|a A'].
  { cbn [mr_f] in Hl. inversion Hl; subst l; clear Hl.
    assert (i1 = false) by (destruct i1; [destruct (H1 eq_refl)|reflexivity]). subst i1.
    destruct i2.
    - specialize (H2 eq_refl). destruct B as [|b B']; [destruct H2|]. destruct acc as [|last r]; [destruct H2|].
      destruct H2 as (H2 & _). cbn [tl]. apply rsd_app; [exact Hr|exact (sd_tail _ _ HB)|]. rewrite H2. exact (sd_hd _ _ HB).
    - apply rsd_app; [exact Hr|exact HB|]. specialize (Hff eq_refl eq_refl). destruct acc as [|last r]; [exact Logic.I|apply Hff]. }
  destruct B as [|b B'].
  { cbn [mr_f] in Hl. inversion Hl; subst l; clear Hl.
    assert (i2 = false) by (destruct i2; [destruct (H2 eq_refl)|reflexivity]). subst i2.
    destruct i1.
    - specialize (H1 eq_refl). destruct acc as [|last r]; [destruct H1|].
      destruct H1 as (H1 & _). cbn [tl]. apply rsd_app; [exact Hr|exact (sd_tail _ _ HA)|]. rewrite H1. exact (sd_hd _ _ HA).
    - apply rsd_app; [exact Hr|exact HA|]. specialize (Hff eq_refl eq_refl). destruct acc as [|last r]; [exact Logic.I|apply Hff]. }
  cbn [mr_f] in Hl.
  pose proof (sd_wf _ _ HA) as Ha. pose proof (sd_wf _ _ HB) as Hb.
  pose proof (sd_tail _ _ HA) as HA'. pose proof (sd_tail _ _ HB) as HB'.
  pose proof (sd_hd _ _ HA) as HgA. pose proof (sd_hd _ _ HB) as HgB.
  destruct (py_overlaps a b) eqn:Eo; unfold py_overlaps in Eo.
  - destruct i1, i2.
    + exfalso; apply Hx; reflexivity.
    + cbn [andb negb] in Hl.
      specialize (H1 eq_refl). destruct acc as [|[l0 l1] r]; [destruct H1|]. destruct H1 as (H1 & H1b). cbn [fst snd hd_ge] in H1, H1b.
      cbn [upd_last fst snd] in Hl. destruct Hr as (Hw & Hn & Hr). cbn [fst snd] in Hw, Hn.
      destruct (snd b <? snd a) eqn:E1; (eapply IH; [| | |exact Hl]); try assumption.
      * split; [cbn [rsd fst snd]; split; [lia|split; assumption]|]. split; [intros _ H; discriminate|]. split; [intros H; discriminate|].
        split; [|intros H; discriminate]. intros _. cbn [fst snd]. split; [lia|]. eapply hd_gt_ge; [|exact HgB]. lia.
      * split; [cbn [rsd fst snd]; split; [lia|split; assumption]|]. split; [intros H; discriminate|]. split; [intros H; discriminate|].
        split; [intros H; discriminate|]. intros _. cbn [fst snd]. split; [lia|]. eapply hd_gt_ge; [|exact HgA]. lia.
    + cbn [andb negb] in Hl.
      specialize (H2 eq_refl). destruct acc as [|[l0 l1] r]; [destruct H2|]. destruct H2 as (H2 & H2b). cbn [fst snd hd_ge] in H2, H2b.
      cbn [upd_last fst snd] in Hl. destruct Hr as (Hw & Hn & Hr). cbn [fst snd] in Hw, Hn.
      destruct (snd b <? snd a) eqn:E1; (eapply IH; [| | |exact Hl]); try assumption.
      * split; [cbn [rsd fst snd]; split; [lia|split; assumption]|]. split; [intros _ H; discriminate|]. split; [intros H; discriminate|].
        split; [|intros H; discriminate]. intros _. cbn [fst snd]. split; [lia|]. eapply hd_gt_ge; [|exact HgB]. lia.
      * split; [cbn [rsd fst snd]; split; [lia|split; assumption]|]. split; [intros H; discriminate|]. split; [intros H; discriminate|].
        split; [intros H; discriminate|]. intros _. cbn [fst snd]. split; [lia|]. eapply hd_gt_ge; [|exact HgA]. lia.
    + cbn [andb negb] in Hl. specialize (Hff eq_refl eq_refl).
      assert (Hr': rsd ((Z.min (fst a) (fst b), Z.max (snd a) (snd b)) :: acc)).
      { cbn [rsd fst snd]. split; [lia|]. split; [|exact Hr]. destruct acc as [|last r]; [exact Logic.I|].
        destruct Hff as (F1 & F2). cbn [hd_gt] in F1, F2. lia. }
      destruct (snd b <? snd a) eqn:E1; (eapply IH; [| | |exact Hl]); try assumption.
      * split; [exact Hr'|]. split; [intros _ H; discriminate|]. split; [intros H; discriminate|].
        split; [|intros H; discriminate]. intros _. cbn [fst snd]. split; [lia|]. eapply hd_gt_ge; [|exact HgB]. lia.
      * split; [exact Hr'|]. split; [intros H; discriminate|]. split; [intros H; discriminate|].
        split; [intros H; discriminate|]. intros _. cbn [fst snd]. split; [lia|]. eapply hd_gt_ge; [|exact HgA]. lia.
  - destruct (py_left_of b a) eqn:E1; unfold py_left_of in E1.
    + destruct i2.
      * assert (i1 = false) by (destruct i1; [exfalso; apply Hx; reflexivity|reflexivity]). subst i1.
        specialize (H2 eq_refl). destruct acc as [|[l0 l1] r]; [destruct H2|]. destruct H2 as (H2 & H2b). cbn [fst snd hd_ge] in H2, H2b.
        eapply IH; [| | |exact Hl]; try assumption.
        split; [exact Hr|]. split; [intros H; discriminate|]. split; [|split; intros H; discriminate].
        intros _ _. cbn [snd]. split; [cbn [hd_gt]; lia|]. eapply hd_gt_le; [|exact HgB]. lia.
      * assert (i1 = false).
        { destruct i1; [|reflexivity]. specialize (H1 eq_refl). destruct acc as [|last r]; [destruct H1|].
          destruct H1 as (_ & H1b). cbn [hd_ge] in H1b. lia. } subst i1.
        specialize (Hff eq_refl eq_refl).
        eapply IH; [| | |exact Hl]; try assumption.
        split; [cbn [rsd]; split; [exact Hb|]; split; [|exact Hr]; destruct acc as [|last r]; [exact Logic.I|]; destruct Hff as (_ & F2); exact F2|].
        split; [intros H; discriminate|]. split; [|split; intros H; discriminate].
        intros _ _. split; [cbn [hd_gt]; lia|exact HgB].
    + destruct i1.
      * assert (i2 = false) by (destruct i2; [exfalso; apply Hx; reflexivity|reflexivity]). subst i2.
        specialize (H1 eq_refl). destruct acc as [|[l0 l1] r]; [destruct H1|]. destruct H1 as (H1 & H1b). cbn [fst snd hd_ge] in H1, H1b.
        eapply IH; [| | |exact Hl]; try assumption.
        split; [exact Hr|]. split; [intros H; discriminate|]. split; [|split; intros H; discriminate].
        intros _ _. cbn [snd]. split; [eapply hd_gt_le; [|exact HgA]; lia|cbn [hd_gt]; lia].
      * assert (i2 = false).
        { destruct i2; [|reflexivity]. specialize (H2 eq_refl). destruct acc as [|last r]; [destruct H2|].
          destruct H2 as (_ & H2b). cbn [hd_ge] in H2b. lia. } subst i2.
        specialize (Hff eq_refl eq_refl).
        eapply IH; [| | |exact Hl]; try assumption.
        split; [cbn [rsd]; split; [exact Ha|]; split; [|exact Hr]; destruct acc as [|last r]; [exact Logic.I|]; destruct Hff as (F1 & _); exact F1|].
        split; [intros H; discriminate|]. split; [|split; intros H; discriminate].
        intros _ _. split; [exact HgA|cbn [hd_gt]; lia].
Qed.

(* ---------- merge_ranges: final statements ---------- *)
Lemma mrI_init A B : mrI A B false false [].
Proof. split; [intros H; discriminate|]. split; [exact Logic.I|]. split; apply flagged_false. Qed.
Lemma mrJ_init A B : mrJ A B false false [].
Proof. split; [exact Logic.I|]. split; [intros H; discriminate|]. split; [intros _ _; exact Logic.I|]. split; intros H; discriminate. Qed.

(* for start-sorted well-formed lists (not necessarily disjoint) neither assert fires and the result covers exactly the union *)
Theorem merge_ranges_cover A B : mono A -> mono B -> (A <> [] \/ B <> []) ->
  exists l, merge_ranges A B = Ok l /\ forall p, cover l p = cover A p || cover B p.
Proof. intros HA HB Hne. unfold merge_ranges.
  destruct (mr_f_cover (Datatypes.S (length A + length B)) A B false false [] ltac:(lia) HA HB (mrI_init A B)) as (l & Hl & Hc).
  rewrite Hl. assert (Hnn: l <> []).
  { intros ->. destruct Hne as [Hne|Hne]; [destruct A as [|a t]; [congruence|]; specialize (Hc (fst a)); pose proof (mono_wf _ _ HA)
                                          |destruct B as [|b t]; [congruence|]; specialize (Hc (fst b)); pose proof (mono_wf _ _ HB)];
    rewrite cover_nil in Hc; cbn [orb] in Hc; rewrite (cover_cons _ t) in Hc; unfold inb in Hc;
    [destruct (cover t (fst a)), (cover B (fst a))|destruct (cover t (fst b)), (cover A (fst b))]; lia. }
  destruct l as [|x l']; [congruence|]. eexists; split; [reflexivity|]. intros p. rewrite Hc, cover_nil. reflexivity. Qed.

Theorem merge_ranges_sd A B l : sd A -> sd B -> merge_ranges A B = Ok l -> sd l.
Proof. intros HA HB. unfold merge_ranges.
  destruct (mr_f (Datatypes.S (length A + length B)) A B false false []) as [l0|] eqn:E; [|discriminate].
  pose proof (mr_f_sd _ _ _ _ _ _ _ HA HB (mrJ_init A B) E) as Hs.
  destruct l0; [discriminate|]. intros H; inversion H; subst. exact Hs. Qed.

(* the property as stated: union as a sorted non-overlapping list, asserts unreachable *)
Theorem merge_ranges_union A B : sd A -> sd B -> (A <> [] \/ B <> []) ->
  exists l, merge_ranges A B = Ok l /\ sd l /\ forall p, cover l p = true <-> cover A p = true \/ cover B p = true.
Proof. intros HA HB Hne. destruct (merge_ranges_cover A B (sd_mono _ HA) (sd_mono _ HB) Hne) as (l & Hl & Hc).
  exists l. split; [exact Hl|]. split; [exact (merge_ranges_sd A B l HA HB Hl)|]. intros p. rewrite Hc. apply orb_true_iff. Qed.

(* the first assert (both heads flagged) is unreachable for EVERY input: from (false,false) the flags are never both set *)
Lemma mr_f_flags_total : forall n A B i1 i2 acc, (length A + length B < n)%nat -> i1 && i2 = false -> mr_f n A B i1 i2 acc <> None.
Proof. induction n as [|n IH]; intros A B i1 i2 acc Hn Hf; [lia|].
  destruct A as [|a A']; [cbn [mr_f]; discriminate|]. destruct B as [|b B']; [cbn [mr_f]; discriminate|].
  cbn [mr_f]. rewrite Hf. cbn [length] in Hn.
  destruct (py_overlaps a b); [destruct (snd b <? snd a)|destruct (py_left_of b a)]; apply IH; cbn [length]; try lia; try reflexivity.
Qed.
Theorem merge_ranges_first_assert_unreachable A B : mr_f (Datatypes.S (length A + length B)) A B false false [] <> None.
Proof. apply mr_f_flags_total; [lia|reflexivity]. Qed.
(* the final `assert len(union) != 0` fires exactly on two empty lists *)
Example merge_ranges_empty : merge_ranges [] [] = Raises AssertionError. Proof. reflexivity. Qed.
(* start order is needed: on an unsorted second list the "extra bite" skips positions *)
Example merge_ranges_unsorted_refuted :
  merge_ranges [(5,8)] [(6,6);(3,5)] = Ok [(5,8)] /\ cover [(6,6);(3,5)] 3 = true /\ cover [(5,8)] 3 = false.
Proof. vm_compute. repeat split. Qed.
(* for merely start-sorted (overlapping) inputs the cover equation holds but the output need not be disjoint *)
Example merge_ranges_overlapping_input_not_sd : merge_ranges [] [(1,1);(2,3);(3,4)] = Ok [(1,1);(2,3);(3,4)].
Proof. reflexivity. Qed.
Example merge_ranges_example : merge_ranges [(1,4);(8,9);(20,30)] [(3,8);(12,13)] = Ok [(1,9);(12,13);(20,30)].
Proof. vm_compute. reflexivity. Qed.
Print Assumptions merge_ranges_union.
