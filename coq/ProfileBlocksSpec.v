(* C19: get_blocks_from_profile of src/common.py, regenerated into gen/Loops.v on every check, is its declarative reading (ProfileHelpers.v). *)
From Coq Require Import ZArith List Bool Lia ZifyBool.
From IQ.gen Require Import Prims Loops.
From IQ Require Import LoopsSupport ProfileHelpers.
Import ListNotations. Open Scope Z_scope.

Theorem get_blocks_from_profile_spec features profile : py_get_blocks_from_profile_pre features profile = true ->
  py_get_blocks_from_profile features profile = spec_blocks features profile.
Proof. intros H. apply Nat.eqb_eq in H. unfold py_get_blocks_from_profile, spec_blocks. cbv zeta.
  change (py_get_blocks_from_profile_step features profile) with
    (fun (s:list (Z * Z)) (i:nat) => (fun s y x => if y =? 1 then s ++ [x] else s) s (nth i profile 0) (nth i features (0, 0))).
  rewrite fold_seq_nth2 by (symmetry; exact H).
  assert (G: forall (l1:list (Z * Z)) (l2:list Z) acc, length l1 = length l2 ->
            fold_left (fun (s:list (Z * Z)) (p:Z * (Z * Z)) => if fst p =? 1 then s ++ [snd p] else s) (combine l2 l1) acc =
            acc ++ map fst (filter (fun p => snd p =? 1) (combine l1 l2))).
  { induction l1 as [|x t IH]; intros l2 acc L; destruct l2 as [|y u]; try (simpl in L; lia); [cbn; rewrite app_nil_r; reflexivity|].
    cbn [combine fold_left filter fst snd]. rewrite IH by (simpl in L; lia). destruct (y =? 1); [cbn [map fst]; rewrite <- app_assoc|]; reflexivity. }
  rewrite (G features profile [] H). reflexivity. Qed.
