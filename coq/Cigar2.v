(* C16: the full get_read_blocks (with cigar-index blocks), concat_gapless_blocks, correct_bam_coords,
   move_ref_coord_alogn_alignment and the sliding-window polyA search.  Cigar.v holds the two-output model and
   the theorem blocks_are_sam_blocks; here the three-output model used by the correspondence is shown to project
   onto it, so the theorem transfers. *)
From Coq Require Import ZArith NArith List Bool Lia ZifyBool.
From IQ Require Import Cigar.
Import ListNotations. Open Scope Z_scope.

(* ---------- get_read_blocks with the third output (cigar index blocks) ---------- *)
Record st3 := mk3 { rp3 : Z; fp3 : Z; ci3 : Z; cur3 : option (Z*Z*Z); hm3 : bool; out3 : list (iv*iv*iv) }.

Definition close3 (s:st3) : st3 :=
  match cur3 s with
  | Some (f0, r0, c0) => mk3 (rp3 s) (fp3 s) (ci3 s) None false
                        (if hm3 s then out3 s ++ [((f0, fp3 s - 1), (r0, rp3 s - 1), (c0, ci3 s - 1))] else out3 s)
  | None => s
  end.

Definition bump (s:st3) : st3 := mk3 (rp3 s) (fp3 s) (ci3 s + 1) (cur3 s) (hm3 s) (out3 s).

Definition step3 (s:st3) (c:cop) : st3 :=
  let '(o, n) := c in
  bump
  match cur3 s with
  | None =>
    if is_idm o then
      let cu := Some (fp3 s, rp3 s, ci3 s) in
      match o with
      | I => mk3 (rp3 s + n) (fp3 s) (ci3 s) cu (hm3 s) (out3 s)
      | D => mk3 (rp3 s) (fp3 s + n) (ci3 s) cu (hm3 s) (out3 s)
      | _ => mk3 (rp3 s + n) (fp3 s + n) (ci3 s) cu true (out3 s)
      end
    else match o with
      | N => mk3 (rp3 s) (fp3 s + n) (ci3 s) None (hm3 s) (out3 s)
      | S => mk3 (rp3 s + n) (fp3 s) (ci3 s) None (hm3 s) (out3 s)
      | _ => s end
  | Some _ =>
    if is_match o then mk3 (rp3 s + n) (fp3 s + n) (ci3 s) (cur3 s) true (out3 s)
    else match o with
      | I => mk3 (rp3 s + n) (fp3 s) (ci3 s) (cur3 s) (hm3 s) (out3 s)
      | D => mk3 (rp3 s) (fp3 s + n) (ci3 s) (cur3 s) (hm3 s) (out3 s)
      | N => let s' := close3 s in mk3 (rp3 s') (fp3 s' + n) (ci3 s') (cur3 s') (hm3 s') (out3 s')
      | S => let s' := close3 s in mk3 (rp3 s' + n) (fp3 s') (ci3 s') (cur3 s') (hm3 s') (out3 s')
      | _ => s end
  end.

Definition get_read_blocks3 (ref_start:Z) (ops:list cop) : list (iv*iv*iv) :=
  out3 (close3 (fold_left step3 ops (mk3 0 (ref_start+1) 0 None false []))).

(* projection onto the two-output model of Cigar.v *)
Definition proj (s:st3) : st :=
  mk (rp3 s) (fp3 s) (match cur3 s with Some (f, r, _) => Some (f, r) | None => None end) (hm3 s) (map fst (out3 s)).

Lemma proj_close s : proj (close3 s) = close (proj s).
Proof. unfold close3, close, proj. destruct (cur3 s) as [[[f r] c]|] eqn:E; cbn; rewrite ?E; [|reflexivity].
  destruct (hm3 s); cbn; [rewrite map_app|]; reflexivity. Qed.

Lemma proj_step s c : proj (step3 s c) = step (proj s) c.
Proof. destruct c as [o n]. unfold step3, step.
  destruct (cur3 s) as [[[f r] ci]|] eqn:E.
  - unfold proj at 2. cbn [cur]. rewrite E.
    destruct o; cbn [is_match is_idm]; unfold bump, proj; cbn; rewrite ?E; try reflexivity.
    + (* N *) unfold close3, close. cbn. rewrite E. destruct (hm3 s); cbn; rewrite ?map_app; reflexivity.
    + (* S *) unfold close3, close. cbn. rewrite E. destruct (hm3 s); cbn; rewrite ?map_app; reflexivity.
  - unfold proj at 2. cbn [cur]. rewrite E.
    destruct o; cbn [is_match is_idm]; unfold bump, proj; cbn; rewrite ?E; reflexivity.
Qed.

Lemma proj_fold ops : forall s, proj (fold_left step3 ops s) = fold_left step ops (proj s).
Proof. induction ops as [|c t IH]; intros s; [reflexivity|]. cbn [fold_left]. rewrite IH, proj_step. reflexivity. Qed.

Theorem blocks3_project ref_start ops :
  map fst (get_read_blocks3 ref_start ops) = get_read_blocks ref_start ops.
Proof. unfold get_read_blocks3, get_read_blocks.
  change (map fst (out3 ?s)) with (out (proj s)).
  rewrite proj_close, proj_fold. reflexivity. Qed.

(* ---------- exons are increasing when every operation has positive length ---------- *)
Definition pos_ops (ops:list cop) := Forall (fun c => 0 < snd c) ops.

(* ---------- correct_bam_coords ---------- *)
Definition correct_bam_coords (l:list iv) : list iv := map (fun x => (fst x + 1, snd x)) l.

(* ---------- concat_gapless_blocks (legacy helper; blocks are pysam get_blocks(): 0-based half-open M-runs) ---------- *)
Record cg := mkcg { cblocks : list iv; ccur : option iv; cdel : Z; cres : list iv }.
Definition cg_step (s:cg) (c:cop) : cg :=
  match cblocks s with
  | [] => s                                       (* loop guard: block_index < len(blocks) *)
  | b :: bt =>
    let '(o, n) := c in
    match ccur s with
    | None =>
      if is_match o then mkcg bt (Some (fst b - cdel s, snd b)) 0 (cres s)
      else match o with D => mkcg (cblocks s) None n (cres s) | _ => s end
    | Some cb =>
      match o with
      | N => mkcg (cblocks s) None (cdel s) (cres s ++ [cb])
      | D => mkcg (cblocks s) (Some (fst cb, snd cb + n)) (cdel s) (cres s)
      | _ => if is_match o then mkcg bt (Some (fst cb, snd b)) (cdel s) (cres s) else s
      end
    end
  end.
Definition concat_gapless_blocks (blocks:list iv) (ops:list cop) : list iv :=
  let s := fold_left cg_step ops (mkcg blocks None 0 []) in
  match ccur s with Some cb => cres s ++ [cb] | None => cres s end.

(* pysam get_blocks(): one half-open block per M/=/X operation *)
Fixpoint pysam_blocks (pos:Z) (ops:list cop) : list iv :=
  match ops with
  | [] => []
  | (o, n) :: t => if is_match o then (pos, pos + n) :: pysam_blocks (pos + n) t
                   else match o with D | N => pysam_blocks (pos + n) t | _ => pysam_blocks pos t end
  end.

(* ---------- move_ref_coord_alogn_alignment ---------- *)
Definition opcode (o:op) : Z := match o with M => 0 | I => 1 | D => 2 | N => 3 | S => 4 | H => 5 | P => 6 | EQ => 7 | X => 8 end.
Definition is_clip o := match o with S | H => true | _ => false end.

(* walk over the operations in the chosen direction, starting after the leading clips *)
Fixpoint mv_walk (ops:list cop) (shift readc refc:Z) : Z :=
  match ops with
  | [] => refc
  | (o, n) :: t =>
    if readc <? shift then
      match o with
      | I => mv_walk t shift (readc + n) refc
      | D | N => mv_walk t shift readc (refc + n)
      | M | EQ | X => let rem := shift - readc in
                      if n <? rem then mv_walk t shift (readc + n) (refc + n) else mv_walk t shift (readc + rem) (refc + rem)
      | S | H => refc
      | P => mv_walk t shift readc refc       (* "unexpected event": the real code raises TypeError while logging; excluded by the harness *)
      end
    else refc
  end.
Definition skip_clips (ops:list cop) : list cop :=
  match ops with
  | (H, _) :: (S, _) :: t => t
  | (o, _) :: t => if is_clip o then t else ops
  | [] => []
  end.
Definition move_ref_coord (ops:list cop) (shift:Z) : Z :=
  if shift =? 0 then 0
  else let l := if 0 <? shift then skip_clips ops else skip_clips (rev ops) in
       mv_walk l (Z.abs shift + 1) 0 0 - 1.

(* ---------- PolyAFinder.find_polya on a sequence given as "is this base an A" ---------- *)
Fixpoint count_true (l:list bool) : Z := match l with [] => 0 | b :: t => (if b then 1 else 0) + count_true t end.
Fixpoint find_aa (l:list bool) (i:Z) : option Z :=
  match l with
  | true :: ((true :: _) as t) => Some i
  | _ :: t => find_aa t (i + 1)
  | [] => None
  end.
(* sliding window; w = window size, need = polyA_count.  s is the remaining sequence starting at position i. *)
Fixpoint fp_loop (fuel:nat) (w need:Z) (s:list bool) (i len acount:Z) : option (Z * list bool) :=
  match fuel with
  | O => None
  | Datatypes.S f =>
    if i <? len - w then
      if acount >=? need then Some (i, s)
      else let first := hd false s in
           let nw := nth (Z.to_nat w) s false in
           let new_base := (i + w <? len) && nw in
           let acount' := if first && negb new_base then acount - 1 else if negb first && new_base then acount + 1 else acount in
           fp_loop f w need (tl s) (i + 1) len acount'
    else Some (i, s)
  end.
Definition find_polya (w need:Z) (s:list bool) : Z :=
  let len := Z.of_nat (length s) in
  if len <? w then -1
  else match fp_loop (Datatypes.S (length s)) w need s 0 len (count_true (firstn (Z.to_nat w) s)) with
       | None => -2
       | Some (i, rest) => if i >=? len - w then -1 else i + match find_aa rest 0 with Some k => k | None => 0 end
       end.

(* ---------- reported exons are well-formed, increasing and disjoint when every operation has positive length ---------- *)
Fixpoint inc_blocks (lo:Z) (l:list (iv*iv)) : Prop :=
  match l with [] => True | b :: t => lo <= fst (fst b) /\ fst (fst b) <= snd (fst b) /\ inc_blocks (snd (fst b) + 1) t end.

Lemma sumf_reflen_nonneg l : Forall (fun c : cop => 0 < snd c) l -> 0 <= sumf reflen l.
Proof. induction 1 as [|c t Hc Ht IH]; cbn [sumf]; [lia|]. unfold reflen at 1. destruct (fst c); lia. Qed.
Lemma sumf_reflen_pos l : Forall (fun c : cop => 0 < snd c) l -> has_match l = true -> 0 < sumf reflen l.
Proof. induction 1 as [|c t Hc Ht IH]; cbn [sumf has_match existsb]; [discriminate|]. intros H.
  pose proof (sumf_reflen_nonneg t Ht) as Hn. fold (has_match t) in H.
  destruct (is_match (fst c)) eqn:E.
  - unfold reflen at 1. destruct (fst c); cbn in E; try discriminate; lia.
  - cbn [orb] in H. specialize (IH H). unfold reflen at 1. destruct (fst c); lia. Qed.
Lemma inc_blocks_weaken lo lo' l : lo' <= lo -> inc_blocks lo l -> inc_blocks lo' l.
Proof. destruct l as [|b t]; cbn [inc_blocks]; [auto|]. intros H (H1 & H2 & H3). repeat split; auto; lia. Qed.

Definition runs_pos (rs:list (list cop * option cop)) :=
  Forall (fun x => Forall (fun c : cop => 0 < snd c) (fst x) /\ match snd x with Some c => 0 < snd c | None => True end) rs.

Lemma blocks_of_inc rs : forall f r, runs_pos rs -> inc_blocks f (blocks_of f r rs).
Proof. induction rs as [|[run sep] t IH]; intros f r H; cbn [blocks_of]; [exact Logic.I|].
  inversion H as [|x y [Hrun Hsep] Ht]; subst. cbn [fst snd] in *.
  pose proof (sumf_reflen_nonneg run Hrun) as Hn.
  assert (Hs: 0 <= match sep with Some c => reflen c | None => 0 end).
  { destruct sep as [c|]; [|lia]. unfold reflen. destruct (fst c); lia. }
  specialize (IH (f + sumf reflen run + match sep with Some c => reflen c | None => 0 end)
                 (r + sumf qrylen run + match sep with Some c => qrylen c | None => 0 end) Ht).
  destruct (has_match run) eqn:Em; cbn [app].
  - pose proof (sumf_reflen_pos run Hrun Em). cbn [inc_blocks fst snd]. repeat split; try lia.
    eapply inc_blocks_weaken; [|exact IH]. lia.
  - eapply inc_blocks_weaken; [|exact IH]. lia. Qed.

Lemma runs_aux_pos l : forall acc, Forall (fun c : cop => 0 < snd c) acc -> Forall (fun c : cop => 0 < snd c) l -> runs_pos (runs_aux acc l).
Proof. induction l as [|c t IH]; intros acc Ha Hl; cbn [runs_aux].
  - constructor; [|constructor]. cbn [fst snd]. split; [|exact Logic.I]. apply Forall_forall. intros x Hx. rewrite Forall_forall in Ha. apply Ha, in_rev, Hx.
  - inversion Hl; subst. destruct (is_sep (fst c)).
    + constructor; [|apply IH; [constructor|assumption]]. cbn [fst snd]. split; [|assumption].
      apply Forall_forall. intros x Hx. rewrite Forall_forall in Ha. apply Ha, in_rev, Hx.
    + apply IH; [constructor; assumption|assumption]. Qed.

Theorem exons_increasing_disjoint ref_start ops : pos_ops ops -> inc_blocks (ref_start + 1) (get_read_blocks ref_start ops).
Proof. intros H. rewrite blocks_are_sam_blocks. unfold sam_blocks, runs. apply blocks_of_inc, runs_aux_pos; [constructor|exact H]. Qed.

(* ---------- PolyAFinder.find_polya_tail / find_polyt_head (bases: 0=A 1=C 2=G 3=T 4=other, case-insensitive) ---------- *)
From IQ Require Import CorrSupport.
Definition tail_clip (ops:list cop) : Z :=
  match rev ops with
  | (H, _) :: (S, n) :: _ => n
  | (S, n) :: _ => n
  | _ => 0
  end.
Definition head_clip (ops:list cop) : Z :=
  match ops with
  | (H, _) :: (S, n) :: _ => n
  | (S, n) :: _ => n
  | _ => 0
  end.
Definition slice {A} (l:list A) (a b:Z) : list A := firstn (Z.to_nat (b - a)) (skipn (Z.to_nat a) l).   (* 0 <= a <= b *)
Definition ref_len (ops:list cop) : Z := sumf reflen ops.

Section Finder.
Variables w need : Z.       (* window size, int(window * fraction) *)
Variables fnum fden : Z.    (* min_polya_fraction as a ratio (0.75 = 3/4, exact in binary) *)

Definition reliable (sub:list bool) (pos:Z) : Z :=
  if pos =? -1 then -1
  else let tail := skipn (Z.to_nat pos) sub in
       if fden * count_true tail <? fnum * Z.of_nat (length tail) then -1 else pos.

Definition find_polya_tail (seq:list Z) (ops:list cop) (ref_start from_pos to_pos:Z) (entire:bool) : outcome Z :=
  let len := Z.of_nat (length seq) in
  let clip := tail_clip ops in
  if len =? 0 then Ok (-1)
  else if negb (clip <? len) then Raises 2
  else
    let mend := len - clip in
    let cs := Z.max 0 (mend - from_pos) in
    let ce := Z.min len (mend + to_pos + 1) in
    let sub := map (fun b => Z.eqb b 0) (slice seq cs ce) in
    let pos0 := find_polya w need sub in
    let pos1 := if entire then reliable sub pos0 else pos0 in
    if pos1 =? -1 then Ok (-1)
    else let pos := cs + pos1 in
         let ref_end := ref_start + ref_len ops in
         if pos >=? mend then Ok (ref_end + (pos - mend))
         else Ok (ref_end - move_ref_coord ops (pos - mend)).

Definition find_polyt_head (seq:list Z) (ops:list cop) (ref_start from_pos to_pos:Z) (entire:bool) : outcome Z :=
  let len := Z.of_nat (length seq) in
  let clip := head_clip ops in
  if len =? 0 then Ok (-1)
  else if negb (clip <? len) then Raises 2
  else
    let mstart := clip in
    let cs := Z.max 0 (mstart - to_pos) in
    let ce := Z.min len (mstart + from_pos + 1) in
    let sub := map (fun b => Z.eqb b 3) (rev (slice seq cs ce)) in      (* reverse complement: A where the read has T *)
    let pos0 := find_polya w need sub in
    let pos1 := if entire then reliable sub pos0 else pos0 in
    if pos1 =? -1 then Ok (-1)
    else let pos := ce - pos1 - 1 in
         if pos <=? mstart then Ok (Z.max 1 (ref_start - (mstart - pos)))
         else Ok (Z.max 1 (ref_start + move_ref_coord ops (pos - mstart))).
End Finder.
