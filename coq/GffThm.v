(* GffThm.v — theorems about the model in Gff.v (property C03). *)
From Coq Require Import ZArith NArith List Bool Lia ZifyBool Permutation.
From IQ Require Import CorrSupport Exons Gff.
Import ListNotations. Open Scope Z_scope.

(* ------------------------------------------------------------------ small list facts *)
Lemma zmem_In x l : zmem x l = true <-> In x l.
Proof. unfold zmem. rewrite existsb_exists. split; [intros (y & Hy & E); apply Z.eqb_eq in E; subst; exact Hy|intros H; exists x; split; [exact H|apply Z.eqb_refl]]. Qed.

Lemma last_cons_ne {A} (a:A) l d : l <> [] -> last (a :: l) d = last l d.
Proof. destruct l; [congruence|reflexivity]. Qed.

(* ------------------------------------------------------------------ hull of disjoint exons = (first start, last end) *)
Lemma sd_tail a t : sd (a :: t) -> sd t.
Proof. cbn [sd]. tauto. Qed.
Lemma sd_ends_upper l : sd l -> Forall (fun x => snd x <= snd (last l (0,0))) l.
Proof. induction l as [|a t IH]; [constructor|]. intros Hs. pose proof (sd_tail _ _ Hs) as Ht. specialize (IH Ht).
  destruct t as [|b t'].
  - constructor; [cbn; lia|constructor].
  - rewrite last_cons_ne by discriminate. constructor; [|exact IH].
    cbn [sd] in Hs. destruct Hs as (Ha & Hab & Hb & _). inversion IH; subst. cbn [sd] in Ht. lia. Qed.
Lemma fold_min_lower x l : Forall (fun y => x <= y) l -> fold_right Z.min x l = x.
Proof. induction 1 as [|y l Hy _ IH]; [reflexivity|]. cbn [fold_right]. rewrite IH. lia. Qed.
Lemma fold_max_bounds i l m : i <= m -> Forall (fun y => y <= m) l -> In m (i :: l) -> fold_right Z.max i l = m.
Proof. intros Hi Hf Hin. assert (U: fold_right Z.max i l <= m) by (clear Hin; induction Hf; cbn [fold_right]; lia).
  assert (L: m <= fold_right Z.max i l).
  { destruct Hin as [->|Hin]; [clear; induction l; cbn [fold_right]; lia|].
    clear U Hf Hi. induction l as [|y l IH]; [destruct Hin|]. cbn [fold_right]. destruct Hin as [->|Hin]; [lia|specialize (IH Hin); lia]. }
  lia. Qed.

(* the transcript line (first start, last end) is the hull of the exons when they are disjoint and increasing *)
Theorem transcript_spans_exons ex : sd ex -> ex <> [] -> tregion ex = hull ex.
Proof. intros Hs Hne. unfold tregion, hull. f_equal.
  - symmetry. apply fold_min_lower. pose proof (sd_starts_lower ex Hs) as L. rewrite Forall_forall in *. intros y Hy.
    apply in_map_iff in Hy. destruct Hy as (x & <- & Hx). apply L, Hx.
  - symmetry. apply fold_max_bounds.
    + pose proof (sd_ends_upper ex Hs) as U. rewrite Forall_forall in U. apply (U (hd (0,0) ex)). destruct ex; [congruence|left; reflexivity].
    + pose proof (sd_ends_upper ex Hs) as U. rewrite Forall_forall in *. intros y Hy. apply in_map_iff in Hy. destruct Hy as (x & <- & Hx). apply U, Hx.
    + right. apply in_map. destruct ex as [|a t]; [congruence|]. clear. revert a. induction t as [|b t IH]; intros a; [left; reflexivity|].
      rewrite last_cons_ne by discriminate. right. apply IH. Qed.

(* validate_exons alone is too weak for that: sorted but nested exons pass, and the printed transcript line is not their hull *)
Example transcript_spans_exons_needs_disjointness :
  validate_exons [(1,10);(2,3)] = true /\ tregion [(1,10);(2,3)] = (1,3) /\ hull [(1,10);(2,3)] = (1,10) /\ ~ sd [(1,10);(2,3)].
Proof. repeat split; try (vm_compute; reflexivity). cbn. lia. Qed.
Example validate_accepts_empty : validate_exons [] = true.
Proof. reflexivity. Qed.

(* ------------------------------------------------------------------ end correction *)
Lemma sd_set_first a t x : sd (a :: t) -> fst x <= snd x -> snd x = snd a -> sd (set_first (a :: t) x).
Proof. cbn [set_first sd]. intros (Ha & Hn & Ht) Hx E. rewrite E in Hx |- *. tauto. Qed.
Lemma sd_set_last l x : sd l -> fst x <= snd x -> fst x = fst (last l (0,0)) -> sd (set_last l x).
Proof. induction l as [|a t IH]; [auto|]. intros Hs Hx E. destruct t as [|b t'].
  - cbn [set_last sd]. auto.
  - rewrite last_cons_ne in E by discriminate. change (set_last (a :: b :: t') x) with (a :: set_last (b :: t') x).
    pose proof (sd_tail _ _ Hs) as Ht. specialize (IH Ht Hx E).
    cbn [sd] in Hs. destruct Hs as (Ha & Hab & _). cbn [sd]. split; [exact Ha|]. split; [|exact IH].
    destruct t' as [|c t'']; cbn [set_last].
    + cbn [last] in E. rewrite E. exact Hab.
    + exact Hab. Qed.
Lemma last_set_first a t x d : t <> [] -> last (set_first (a :: t) x) d = last (a :: t) d.
Proof. intros H. cbn [set_first]. rewrite !last_cons_ne by exact H. reflexivity. Qed.
Lemma jfb_set_first a t x : snd x = snd a -> jfb (set_first (a :: t) x) = jfb (a :: t).
Proof. intros E. cbn [set_first]. destruct t; cbn [jfb]; [reflexivity|]. rewrite E. reflexivity. Qed.
Lemma jfb_set_last l x : fst x = fst (last l (0,0)) -> jfb (set_last l x) = jfb l.
Proof. induction l as [|a t IH]; [reflexivity|]. intros E. destruct t as [|b t']; [reflexivity|].
  rewrite last_cons_ne in E by discriminate. specialize (IH E).
  change (set_last (a :: b :: t') x) with (a :: set_last (b :: t') x).
  destruct t' as [|c t''].
  - cbn [set_last jfb]. cbn [last] in E. rewrite E. reflexivity.
  - change (set_last (b :: c :: t'') x) with (b :: set_last (c :: t'') x) in *.
    cbn [jfb] in *. f_equal. exact IH. Qed.
Lemma length_set_last l x : length (set_last l x) = length l.
Proof. induction l as [|a t IH]; [reflexivity|]. destruct t; [reflexivity|]. change (set_last (a :: p :: t) x) with (a :: set_last (p :: t) x). cbn [length]. f_equal. exact IH. Qed.
Lemma hd_set_last l x : (length l > 1)%nat -> hd (0,0) (set_last l x) = hd (0,0) l.
Proof. destruct l as [|a [|b t]]; cbn [length]; try lia. reflexivity. Qed.
Lemma last_set_last l x : l <> [] -> last (set_last l x) (0,0) = x.
Proof. induction l as [|a t IH]; [congruence|]. intros _. destruct t as [|b t']; [reflexivity|].
  change (set_last (a :: b :: t') x) with (a :: set_last (b :: t') x). rewrite last_cons_ne; [apply IH; discriminate|].
  destruct t'; cbn [set_last]; discriminate. Qed.

Lemma find_some_prop {A} (f:A -> bool) l x : find f l = Some x -> f x = true.
Proof. intros H. apply find_some in H. tauto. Qed.

(* the step that moves the start *)
Definition start_step (apa:Z) (ex:list iv) (reads:list iv) : list iv :=
  match new_start apa ex reads with
  | Some s => if negb (s =? 0) && (s <? snd (hd (0,0) ex)) then set_first ex (s, snd (hd (0,0) ex)) else ex
  | None => ex end.
Lemma correct_ends_unfold apa ex reads :
  correct_ends apa ex reads =
  let ex1 := start_step apa ex reads in
  match new_end apa ex reads with
  | Some e => if negb (e =? 0) && (fst (last ex1 (0,0)) <? e) then set_last ex1 (fst (last ex1 (0,0)), e) else ex1
  | None => ex1 end.
Proof. reflexivity. Qed.
Lemma new_start_gt apa ex reads s : new_start apa ex reads = Some s -> fst (hd (0,0) ex) < s.
Proof. unfold new_start. destruct (fold_left _ _ _) as [[[ss starts] es] ends]. destruct ss; [discriminate|].
  intros H. apply find_some_prop in H. lia. Qed.
Lemma new_end_lt apa ex reads e : new_end apa ex reads = Some e -> e < snd (last ex (0,0)).
Proof. unfold new_end. destruct (fold_left _ _ _) as [[[ss starts] es] ends]. destruct es; [discriminate|].
  intros H. apply find_some_prop in H. lia. Qed.

Lemma start_step_spec apa ex reads : sd ex ->
  let ex1 := start_step apa ex reads in
  sd ex1 /\ jfb ex1 = jfb ex /\ length ex1 = length ex /\ fst (hd (0,0) ex) <= fst (hd (0,0) ex1) /\ snd (last ex1 (0,0)) = snd (last ex (0,0))
  /\ (ex <> [] -> ex1 <> []).
Proof. intros Hs. unfold start_step. destruct (new_start apa ex reads) as [s|] eqn:N; [|repeat split; auto; lia].
  destruct (negb (s =? 0) && (s <? snd (hd (0,0) ex))) eqn:G; [|repeat split; auto; lia].
  pose proof (new_start_gt _ _ _ _ N) as Hgt.
  destruct ex as [|a t]; [repeat split; auto; cbn; lia|]. cbn [hd] in *.
  split; [apply sd_set_first; [exact Hs|cbn [fst snd]; lia|reflexivity]|].
  split; [apply jfb_set_first; reflexivity|]. split; [reflexivity|]. split; [cbn; lia|]. split; [|intros _; cbn; discriminate].
  destruct t as [|b t']; [reflexivity|]. rewrite last_set_first by discriminate. reflexivity. Qed.

(* correct_novel_transcript_ends keeps disjoint exons disjoint, never changes an intron or the number of exons, and only moves the
   two outer ends inwards *)
Theorem end_correction_preserves_wf apa ex reads : sd ex ->
  let ex' := correct_ends apa ex reads in
  sd ex' /\ jfb ex' = jfb ex /\ length ex' = length ex /\
  fst (hd (0,0) ex) <= fst (hd (0,0) ex') /\ snd (last ex' (0,0)) <= snd (last ex (0,0)).
Proof. intros Hs. rewrite correct_ends_unfold. cbv zeta.
  destruct (start_step_spec apa ex reads Hs) as (S1 & J1 & L1 & H1 & E1 & NE1). set (ex1 := start_step apa ex reads) in *.
  destruct (new_end apa ex reads) as [e|] eqn:N; [|repeat split; auto; lia].
  destruct (negb (e =? 0) && (fst (last ex1 (0,0)) <? e)) eqn:G; [|repeat split; auto; lia].
  pose proof (new_end_lt _ _ _ _ N) as Hlt.
  split; [apply sd_set_last; [exact S1|cbn [fst snd]; lia|reflexivity]|].
  split; [rewrite jfb_set_last by reflexivity; exact J1|]. split; [rewrite length_set_last; exact L1|].
  destruct ex1 as [|a [|b t]] eqn:EX.
  - destruct ex as [|x0 xt]; [cbn; split; lia|cbn in L1; discriminate L1].
  - cbn [set_last hd last fst snd] in *. split; lia.
  - rewrite hd_set_last by (cbn [length]; lia). rewrite last_set_last by discriminate. cbn [snd]. split; lia. Qed.

(* known models are never end-corrected *)
Theorem known_models_not_corrected apa reads_of m : t_known m = true -> correct_model apa reads_of m = m.
Proof. unfold correct_model. intros ->. reflexivity. Qed.

(* ------------------------------------------------------------------ novel exon lists: get_exons + end correction *)
Lemma jfb_lower_all a t : mono (a :: t) -> Forall (fun e => fst a < fst e) (jfb (a :: t)).
Proof. apply jfb_lower. Qed.
Lemma mono_with_sentinels r introns : mono introns ->
  Forall (fun i => fst r - 1 <= fst i /\ fst i <= snd r + 1) introns -> fst r <= snd r + 2 ->
  mono ((fst r - 1, fst r - 1) :: introns ++ [(snd r + 1, snd r + 1)]).
Proof. intros Hm Hf Hr.
  assert (M: mono (introns ++ [(snd r + 1, snd r + 1)])).
  { clear Hr. induction introns as [|i t IH]; [cbn; lia|].
    inversion Hf; subst. cbn [mono] in Hm. destruct Hm as (Hi & Hit & Hmt). specialize (IH Hmt H2).
    cbn [app mono]. split; [exact Hi|]. split; [|exact IH]. destruct t as [|j t']; cbn [app]; [cbn; lia|exact Hit]. }
  cbn [mono]. split; [cbn; lia|]. split; [|exact M].
  destruct introns as [|i t]; cbn [app]; [cbn; lia|]. inversion Hf; subst. cbn. lia. Qed.

(* exons of a novel spliced model: built by get_exons from the intron path, then end-corrected.  When the path is ordered by
   start and starts inside the transcript range (+-1) they are well-formed, strictly increasing, disjoint, start after the
   range start, and therefore pass validate_exons *)
Theorem novel_exons_disjoint r introns apa reads : mono introns ->
  Forall (fun i => fst r - 1 <= fst i /\ fst i <= snd r + 1) introns -> fst r <= snd r + 2 ->
  sd (correct_ends apa (get_exons r introns) reads).
Proof. intros Hm Hf Hr. apply end_correction_preserves_wf. apply get_exons_wf; assumption. Qed.

Theorem novel_exons_validate r introns apa reads : mono introns ->
  Forall (fun i => fst r - 1 <= fst i /\ fst i <= snd r + 1) introns -> fst r <= snd r + 2 -> 0 < fst r ->
  get_exons r introns <> [] ->
  validate_exons (correct_ends apa (get_exons r introns) reads) = true.
Proof. intros Hm Hf Hr H0 Hne.
  pose proof (get_exons_wf r introns Hm Hf Hr) as Hs.
  destruct (end_correction_preserves_wf apa _ reads Hs) as (S & _ & _ & Hh & _).
  apply sd_validates; [exact S|].
  assert (L: Forall (fun e => fst r - 1 < fst e) (get_exons r introns)).
  { unfold get_exons. apply (jfb_lower_all (fst r - 1, fst r - 1)). apply mono_with_sentinels; assumption. }
  destruct (get_exons r introns) as [|a t]; [congruence|]. inversion L; subst. cbn [hd] in *. lia. Qed.

(* sortedness is not enough: an unordered intron path gives overlapping exons that still pass validate_exons *)
Example unordered_introns_overlap :
  get_exons (1, 100) [(30, 40); (20, 25)] = [(1, 29); (26, 100)] /\ validate_exons [(1, 29); (26, 100)] = true /\ ~ sd [(1, 29); (26, 100)].
Proof. repeat split; try (vm_compute; reflexivity). cbn. lia. Qed.

(* ------------------------------------------------------------------ reference models *)
Lemma ifind_some tid l i : ifind tid l = Some i -> In i l /\ i_id i = tid.
Proof. induction l as [|j t IH]; [discriminate|]. cbn [ifind]. destruct (i_id j =? tid) eqn:E.
  - intros H; inversion H; subst. split; [left; reflexivity|lia].
  - intros H. destruct (IH H). split; [right; assumption|assumption]. Qed.

(* from_reference_transcript copies exons, strand, gene and the other features of the annotation; the model is `known` *)
Theorem reference_models_verbatim ri tid m : from_reference_transcript ri tid = Some m ->
  exists i, In i (ri_isoforms ri) /\ i_id i = tid /\ t_id m = tid /\
    t_exons m = i_exons i /\ t_strand m = i_strand i /\ t_gene m = i_gene i /\ t_other m = i_other i /\ t_chr m = ri_chr ri /\ t_known m = true.
Proof. unfold from_reference_transcript. destruct (ifind tid (ri_isoforms ri)) as [i|] eqn:E; [|discriminate].
  intros H; inversion H; subst. destruct (ifind_some _ _ _ E) as (Hin & Hid). exists i. cbn. repeat split; auto. Qed.

(* create_extended_storage: every annotated isoform once, in order, then exactly the novel models *)
Theorem extended_is_reference_plus_novel ri novel :
  create_extended_storage (Some ri) novel = map (model_of_iso (ri_chr ri)) (ri_isoforms ri) ++ novel /\
  create_extended_storage None novel = novel /\
  (forall m, In m (create_extended_storage (Some ri) novel) <->
     (exists i, In i (ri_isoforms ri) /\ m = model_of_iso (ri_chr ri) i) \/ In m novel) /\
  (forall i, In i (ri_isoforms ri) -> from_reference_transcript ri (i_id i) <> None).
Proof. split; [reflexivity|]. split; [reflexivity|]. split.
  - intros m. cbn [create_extended_storage]. rewrite in_app_iff, in_map_iff. split; intros [H|H]; auto; left; destruct H as (i & A & B); exists i; auto.
  - intros i Hi. unfold from_reference_transcript. destruct (ifind (i_id i) (ri_isoforms ri)) eqn:E; [discriminate|].
    exfalso. induction (ri_isoforms ri) as [|j t IH]; [destruct Hi|]. cbn [ifind] in E. destruct (i_id j =? i_id i) eqn:F; [discriminate|].
    destruct Hi as [->|Hi]; [lia|auto]. Qed.

(* ------------------------------------------------------------------ dump: table invariants *)
Definition model_ok (gi:ginfo) (g:Z) (m:tmodel) : Prop :=
  validate_exons (t_exons m) = true /\ t_exons m <> [] /\ t_gene m = g /\ t_chr m = g_chr gi.
Definition rec_ok (gi:ginfo) (storage:list tmodel) (r:grec) : Prop :=
  r_models r <> [] /\ r_chr r = g_chr gi /\
  (forall m, In m (r_models r) -> In m storage /\ model_ok gi (r_gene r) m /\ contains (r_range r) (tregion (t_exons m))) /\
  (g_empty gi = false -> forall rg, assoc (r_gene r) (g_regions gi) = Some rg -> contains (r_range r) rg).
Definition tab_ok (gi:ginfo) (storage:list tmodel) (tab:list grec) : Prop :=
  NoDup (map r_gene tab) /\ Forall (rec_ok gi storage) tab.

Lemma gfind_none g l : gfind g l = None -> ~ In g (map r_gene l).
Proof. induction l as [|r t IH]; [auto|]. cbn [gfind map]. destruct (r_gene r =? g) eqn:E; [discriminate|]. intros H [A|A]; [lia|exact (IH H A)]. Qed.
Lemma gfind_some g l r : gfind g l = Some r -> In r l /\ r_gene r = g.
Proof. induction l as [|q t IH]; [discriminate|]. cbn [gfind]. destruct (r_gene q =? g) eqn:E.
  - intros H; inversion H; subst. split; [left; reflexivity|lia].
  - intros H. destruct (IH H). split; [right; assumption|assumption]. Qed.
Lemma greplace_genes r' l : map r_gene (greplace r' l) = map r_gene l.
Proof. induction l as [|q t IH]; [reflexivity|]. cbn [greplace]. destruct (r_gene q =? r_gene r') eqn:E; cbn [map]; [f_equal; lia|f_equal; exact IH]. Qed.
Lemma greplace_In r' l x : In x (greplace r' l) -> x = r' \/ In x l.
Proof. induction l as [|q t IH]; [intros []|]. cbn [greplace]. destruct (r_gene q =? r_gene r'); intros [A|A]; auto.
  - right; right; exact A.
  - right; left; exact A.
  - destruct (IH A); auto. right; right; assumption. Qed.
Lemma max_range_contains_l a b : contains (max_range a b) a.
Proof. unfold contains, max_range. cbn [fst snd]. lia. Qed.
Lemma max_range_contains_r a b : contains (max_range a b) b.
Proof. unfold contains, max_range. cbn [fst snd]. lia. Qed.
Lemma contains_trans a b c : contains a b -> contains b c -> contains a c.
Proof. unfold contains. lia. Qed.

Lemma NoDup_app_single {A} (l:list A) x : NoDup l -> ~ In x l -> NoDup (l ++ [x]).
Proof. induction 1 as [|y l Hy Hl IH]; intros Hx; [constructor; [intros []|constructor]|].
  cbn [app]. constructor; [|apply IH; intros K; apply Hx; right; exact K].
  rewrite in_app_iff. intros [K|[K|[]]]; [exact (Hy K)|apply Hx; left; symmetry; exact K]. Qed.
Lemma storage_mono gi s1 s2 r : (forall m, In m s1 -> In m s2) -> rec_ok gi s1 r -> rec_ok gi s2 r.
Proof. intros Hsub (A & B & C & D). split; [exact A|]. split; [exact B|]. split; [|exact D].
  intros m Hm. destruct (C m Hm) as (X & Y & Z). split; [apply Hsub, X|]. split; assumption. Qed.

Lemma add_model_ok gi storage acc m acc' : In m storage -> tab_ok gi storage acc -> add_model gi acc m = Ok acc' -> tab_ok gi storage acc'.
Proof. intros Hin [Hnd Hall]. unfold add_model.
  destruct (negb (validate_exons (t_exons m))) eqn:V; [intros H; inversion H; subst; split; assumption|].
  destruct (t_exons m) as [|e0 et] eqn:EX; [discriminate|]. rewrite <- EX in *.
  assert (Hne: t_exons m <> []) by (rewrite EX; discriminate).
  apply negb_false_iff in V.
  destruct (gfind (t_gene m) acc) as [r|] eqn:F.
  - destruct (negb (t_chr m =? r_chr r)) eqn:C; [discriminate|]. intros H; inversion H; subst; clear H.
    destruct (gfind_some _ _ _ F) as (Hr & Hg). rewrite Forall_forall in Hall. pose proof (Hall r Hr) as (R1 & R2 & R3 & R4).
    split; [rewrite greplace_genes; exact Hnd|]. rewrite Forall_forall. intros x Hx. apply greplace_In in Hx. destruct Hx as [->|Hx]; [|apply Hall, Hx].
    unfold rec_ok. cbn [r_models r_chr r_range r_gene]. split; [destruct (r_models r); discriminate|]. split; [lia|]. split.
    + intros m' Hm'. apply in_app_iff in Hm'. destruct Hm' as [Hm'|[<-|[]]].
      * destruct (R3 m' Hm') as (X & Y & Z). split; [exact X|]. split; [rewrite <- Hg; exact Y|]. eapply contains_trans; [apply max_range_contains_l|exact Z].
      * split; [exact Hin|]. split; [unfold model_ok; repeat split; auto; lia|apply max_range_contains_r].
    + intros He rg Hrg. rewrite <- Hg in Hrg. eapply contains_trans; [apply max_range_contains_l|apply R4; assumption].
  - destruct (negb (t_chr m =? g_chr gi)) eqn:C; [discriminate|]. intros H; inversion H; subst; clear H.
    split.
    + rewrite map_app. cbn [map r_gene]. apply NoDup_app_single; [exact Hnd|apply gfind_none, F].
    + apply Forall_app. split; [exact Hall|]. constructor; [|constructor].
      unfold rec_ok. cbn [r_models r_chr r_range r_gene]. split; [discriminate|]. split; [lia|]. split.
      * intros m' [<-|[]]. split; [exact Hin|]. split; [unfold model_ok; repeat split; auto; lia|].
        destruct (if g_empty gi then None else assoc (t_gene m) (g_regions gi)); [apply max_range_contains_r|unfold contains; lia].
      * intros He rg Hrg. rewrite He, Hrg. apply max_range_contains_l. Qed.

Lemma build_table_ok gi storage rest : forall acc tab, (forall m, In m rest -> In m storage) -> tab_ok gi storage acc ->
  build_table gi acc rest = Ok tab -> tab_ok gi storage tab.
Proof. induction rest as [|a rest IH]; intros acc tab Hsub Hok H; cbn [build_table] in H; [inversion H; subst; exact Hok|].
  destruct (add_model gi acc a) as [acc'|k] eqn:E; [|discriminate].
  eapply IH; [intros m Hm; apply Hsub; right; exact Hm| |exact H].
  eapply add_model_ok; [apply Hsub; left; reflexivity|exact Hok|exact E]. Qed.

(* ------------------------------------------------------------------ dump: what is written *)
Definition glines (ls:list line) : list Z := flat_map (fun l => match l with GeneL _ _ _ _ g _ => [g] | _ => [] end) ls.
Definition is_gene_line (l:line) : Prop := match l with GeneL _ _ _ _ _ _ => True | _ => False end.

Lemma emit_model_lines m l : In l (emit_model m) ->
  l = TrL (t_chr m) (fst (tregion (t_exons m))) (snd (tregion (t_exons m))) (t_strand m) (t_gene m) (t_id m) \/
  exists k s e ty, l = FeatL (t_chr m) ty s e (t_strand m) (t_gene m) (t_id m) k /\ In (s, e, ty) (features m).
Proof. unfold emit_model. intros [H|H]; [left; symmetry; exact H|right].
  apply in_map_iff in H. destruct H as ([k [[s e] ty]] & <- & Hin). exists k, s, e, ty. split; [reflexivity|].
  clear -Hin. revert Hin. generalize 1 as k0. induction (features m) as [|f l IH]; intros k0 Hin; [destruct Hin|].
  cbn [number] in Hin. destruct Hin as [Hin|Hin]; [inversion Hin; subst; left; reflexivity|right; eapply IH; exact Hin]. Qed.
Lemma emit_model_no_gene m l : In l (emit_model m) -> ~ is_gene_line l.
Proof. intros H. destruct (emit_model_lines m l H) as [->|(k & s & e & ty & -> & _)]; cbn; auto. Qed.
Lemma glines_app a b : glines (a ++ b) = glines a ++ glines b.
Proof. unfold glines. apply flat_map_app. Qed.
Lemma glines_none ls : (forall l, In l ls -> ~ is_gene_line l) -> glines ls = [].
Proof. induction ls as [|l t IH]; intros H; [reflexivity|]. unfold glines in *. cbn [flat_map]. rewrite IH by (intros x Hx; apply H; right; exact Hx).
  specialize (H l (or_introl eq_refl)). destruct l; cbn in *; tauto. Qed.
Lemma glines_models ms : glines (flat_map emit_model ms) = [].
Proof. apply glines_none. intros l H. apply in_flat_map in H. destruct H as (m & _ & H). eapply emit_model_no_gene, H. Qed.
Lemma glines_In g ls : In g (glines ls) <-> exists c s e st n, In (GeneL c s e st g n) ls.
Proof. unfold glines. rewrite in_flat_map. split.
  - intros (l & Hl & Hg). destruct l; cbn in Hg; try tauto. destruct Hg as [<-|[]]. do 5 eexists. exact Hl.
  - intros (c & s & e & st & n & H). eexists. split; [exact H|]. left; reflexivity. Qed.

(* every line comes from a gene record not yet printed, or from a model of the table *)
Lemma emit_genes_In order : forall printed p ls l, emit_genes printed order = (p, ls) -> In l ls ->
  (exists r, In r order /\ l = gene_line r /\ ~ In (r_gene r) printed) \/ (exists r m, In r order /\ In m (r_models r) /\ In l (emit_model m)).
Proof. induction order as [|r t IH]; intros printed p ls l H Hin; cbn [emit_genes] in H; [inversion H; subst; destruct Hin|].
  destruct (emit_genes (if negb (zmem (r_gene r) printed) then r_gene r :: printed else printed) t) as [p' ls'] eqn:E.
  inversion H; subst; clear H. rewrite !in_app_iff in Hin. destruct Hin as [Hin|[Hin|Hin]].
  - destruct (negb (zmem (r_gene r) printed)) eqn:Z; [|destruct Hin]. destruct Hin as [<-|[]]. left. exists r. split; [left; reflexivity|]. split; [reflexivity|].
    apply negb_true_iff in Z. intros K. apply zmem_In in K. congruence.
  - right. apply in_flat_map in Hin. destruct Hin as (m & Hm & Hl). exists r, m. split; [left; reflexivity|]. split; assumption.
  - destruct (IH _ _ _ _ E Hin) as [(r' & A & B & C)|(r' & m & A & B & C)].
    + left. exists r'. split; [right; exact A|]. split; [exact B|]. intros K. apply C. destruct (negb (zmem (r_gene r) printed)); [right; exact K|exact K].
    + right. exists r', m. split; [right; exact A|]. split; assumption. Qed.

Ltac base4 := split; [constructor|split; [intros ? []|split; [auto|intros ? []]]].
(* gene lines of one call: never a gene printed before, no gene twice, all remembered *)
Lemma emit_genes_glines order : forall printed p ls, emit_genes printed order = (p, ls) ->
  NoDup (glines ls) /\ (forall g, In g (glines ls) -> ~ In g printed) /\ (forall g, In g printed -> In g p) /\ (forall g, In g (glines ls) -> In g p).
Proof. induction order as [|r t IH]; intros printed p ls H; cbn [emit_genes] in H; [inversion H; subst; base4|].
  destruct (emit_genes (if negb (zmem (r_gene r) printed) then r_gene r :: printed else printed) t) as [p' ls'] eqn:E.
  inversion H; subst; clear H. destruct (IH _ _ _ E) as (N & A & B & C).
  rewrite !glines_app, glines_models. cbn [app].
  destruct (negb (zmem (r_gene r) printed)) eqn:Z.
  - apply negb_true_iff in Z. assert (Hr: ~ In (r_gene r) printed) by (intros K; apply zmem_In in K; congruence).
    cbn [glines flat_map gene_line app]. repeat split.
    + constructor; [|exact N]. intros K. apply (A _ K). left; reflexivity.
    + intros g [<-|K]; [exact Hr|]. intros K'. apply (A _ K). right; exact K'.
    + intros g K. apply B. right; exact K.
    + intros g [<-|K]; [apply B; left; reflexivity|apply C, K].
  - cbn [glines flat_map app]. repeat split; auto. Qed.

Lemma NoDup_map_inj {A} (f:A -> Z) l x y : NoDup (map f l) -> In x l -> In y l -> f x = f y -> x = y.
Proof. induction l as [|a t IH]; intros N Hx Hy E; [destruct Hx|]. cbn [map] in N. inversion N; subst.
  destruct Hx as [->|Hx], Hy as [->|Hy]; auto.
  - exfalso. apply H1. rewrite E. apply in_map, Hy.
  - exfalso. apply H1. rewrite <- E. apply in_map, Hx. Qed.

Lemma dump_table printed gi storage p ls : dump printed gi storage = Ok (p, ls) -> storage <> [] ->
  exists tab, tab_ok gi storage tab /\ emit_genes printed (gene_order tab) = (p, ls).
Proof. unfold dump. destruct storage as [|m0 st]; [congruence|]. intros H _.
  destruct (build_table gi [] (m0 :: st)) as [tab|k] eqn:B; [|discriminate]. exists tab. split.
  - eapply build_table_ok; [intros m Hm; exact Hm| |exact B]. split; [constructor|constructor].
  - inversion H. destruct (emit_genes printed (gene_order tab)). reflexivity. Qed.
Lemma gene_order_In r tab : In r (gene_order tab) <-> In r tab.
Proof. apply isort_In. Qed.

(* every transcript and feature line written by a dump call belongs to a model of the storage that passed validate_exons:
   its exon list is sorted in tuple order with 0 < start <= end, is not empty, the transcript line is (first start, last end),
   and the exon lines are exactly the exons of the model (as a set; their order is by coordinate, descending on '-') *)
Theorem printed_transcripts_valid printed gi storage p ls : dump printed gi storage = Ok (p, ls) ->
  forall l, In l ls -> ~ is_gene_line l ->
  exists m, In m storage /\ lex_sorted (t_exons m) /\ coords_ok (t_exons m) /\ t_exons m <> [] /\
    (l = TrL (t_chr m) (fst (tregion (t_exons m))) (snd (tregion (t_exons m))) (t_strand m) (t_gene m) (t_id m) \/
     exists k s e ty, l = FeatL (t_chr m) ty s e (t_strand m) (t_gene m) (t_id m) k /\
        (In (s, e, ty) (t_other m) \/ (ty = 2 /\ In (s, e) (t_exons m)))).
Proof. intros H l Hl Hng. destruct storage as [|m0 st] eqn:ST; [cbn in H; inversion H; subst; destruct Hl|]. rewrite <- ST in *.
  destruct (dump_table _ _ _ _ _ H) as (tab & (Hnd & Hall) & E); [rewrite ST; discriminate|].
  destruct (emit_genes_In _ _ _ _ _ E Hl) as [(r & _ & -> & _)|(r & m & Hr & Hm & Hlm)]; [exfalso; apply Hng; exact Logic.I|].
  apply (proj1 (gene_order_In _ _)) in Hr. rewrite Forall_forall in Hall. destruct (Hall r Hr) as (_ & _ & R3 & _).
  destruct (R3 m Hm) as (Hin & (V & Hne & _ & _) & _). apply validate_exons_spec in V. destruct V as (V1 & V2).
  exists m. split; [exact Hin|]. split; [exact V1|]. split; [exact V2|]. split; [exact Hne|].
  destruct (emit_model_lines m l Hlm) as [->|(k & s & e & ty & -> & Hf)]; [left; reflexivity|right].
  exists k, s, e, ty. split; [reflexivity|]. unfold features in Hf.
  assert (K: In (s, e, ty) (t_other m ++ map (fun x => (fst x, snd x, 2)) (t_exons m))).
  { destruct (t_strand m =? 1); [apply in_rev in Hf|]; apply isort_In in Hf; exact Hf. }
  apply in_app_iff in K. destruct K as [K|K]; [left; exact K|right]. apply in_map_iff in K. destruct K as ([a b] & Eq & Hab). inversion Eq; subst. split; [reflexivity|exact Hab]. Qed.

(* conversely every exon of a printed model is written *)
Lemma features_exons m x : In x (t_exons m) -> In (fst x, snd x, 2) (features m).
Proof. intros H. unfold features.
  assert (K: In (fst x, snd x, 2) (t_other m ++ map (fun x => (fst x, snd x, 2)) (t_exons m))) by (apply in_app_iff; right; apply in_map_iff; exists x; auto).
  destruct (t_strand m =? 1); [apply -> in_rev|]; apply isort_In; exact K. Qed.

(* within one dump call the gene line contains every transcript line of that gene (and the annotated range of the gene),
   on the same chromosome *)
Theorem gene_range_contains_transcripts printed gi storage p ls : dump printed gi storage = Ok (p, ls) ->
  forall c s e st g n, In (GeneL c s e st g n) ls ->
  (forall c' s' e' st' t, In (TrL c' s' e' st' g t) ls -> c' = c /\ s <= s' /\ e' <= e) /\
  (g_empty gi = false -> forall rg, assoc g (g_regions gi) = Some rg -> s <= fst rg /\ snd rg <= e) /\
  ~ In g printed.
Proof. intros H c s e st g n Hg. destruct storage as [|m0 st0] eqn:ST; [cbn in H; inversion H; subst; destruct Hg|]. rewrite <- ST in *.
  destruct (dump_table _ _ _ _ _ H) as (tab & (Hnd & Hall) & E); [rewrite ST; discriminate|].
  rewrite Forall_forall in Hall.
  destruct (emit_genes_In _ _ _ _ _ E Hg) as [(r & Hr & Hl & Hnp)|(r & m & _ & _ & Hlm)]; [|exfalso; eapply emit_model_no_gene; [exact Hlm|exact Logic.I]].
  apply (proj1 (gene_order_In _ _)) in Hr. unfold gene_line in Hl. inversion Hl; subst; clear Hl. destruct (Hall r Hr) as (_ & Rc & R3 & R4).
  split; [|split; [|exact Hnp]].
  - intros c' s' e' st' t Ht.
    destruct (emit_genes_In _ _ _ _ _ E Ht) as [(r' & _ & Hl & _)|(r' & m & Hr' & Hm & Hlm)]; [unfold gene_line in Hl; discriminate|].
    apply (proj1 (gene_order_In _ _)) in Hr'. destruct (Hall r' Hr') as (_ & _ & R3' & _). destruct (R3' m Hm) as (_ & (_ & _ & Gm & Cm) & Ct).
    destruct (emit_model_lines m _ Hlm) as [Eq|(k & s0 & e0 & ty & Eq & _)]; [|discriminate]. inversion Eq; subst; clear Eq.
    assert (r' = r) by (eapply (NoDup_map_inj r_gene); eauto; congruence). subst r'.
    unfold contains in Ct. split; [congruence|exact Ct].
  - intros He rg Hrg. specialize (R4 He rg Hrg). exact R4. Qed.

(* a printer writes the gene line of a gene at most once over all its dump calls *)
Theorem gene_once_per_printer calls : forall printed p ls, dumps printed calls = Ok (p, ls) ->
  NoDup (glines ls) /\ (forall g, In g (glines ls) -> ~ In g printed) /\ (forall g, In g printed -> In g p) /\ (forall g, In g (glines ls) -> In g p).
Proof. induction calls as [|[gi st] t IH]; intros printed p ls H; cbn [dumps] in H.
  - inversion H; subst. base4.
  - destruct (dump printed gi st) as [[p1 l1]|k] eqn:D; [|discriminate].
    destruct (dumps p1 t) as [[p2 l2]|k] eqn:D2; [|discriminate]. inversion H; subst; clear H.
    destruct (IH _ _ _ D2) as (N2 & A2 & B2 & C2).
    assert (X: NoDup (glines l1) /\ (forall g, In g (glines l1) -> ~ In g printed) /\ (forall g, In g printed -> In g p1) /\ (forall g, In g (glines l1) -> In g p1)).
    { unfold dump in D. destruct st as [|m0 st']; [inversion D; subst; base4|].
      destruct (build_table gi [] (m0 :: st')) as [tab|k]; [|discriminate]. inversion D as [D']. apply (emit_genes_glines (gene_order tab)).
      destruct (emit_genes printed (gene_order tab)). inversion D'; subst. reflexivity. }
    destruct X as (N1 & A1 & B1 & C1). rewrite glines_app. repeat split.
    + clear -N1 N2 A2 C1. induction (glines l1) as [|g l IHl]; [exact N2|]. inversion N1; subst. cbn [app]. constructor.
      * rewrite in_app_iff. intros [K|K]; [exact (H1 K)|]. apply (A2 _ K). apply C1. left; reflexivity.
      * apply IHl; [exact H2|]. intros g' Hg'. apply C1. right; exact Hg'.
    + intros g Hg. apply in_app_iff in Hg. destruct Hg as [Hg|Hg]; [apply A1, Hg|]. intros K. apply (A2 _ Hg). apply B1, K.
    + intros g Hg. apply B2, B1, Hg.
    + intros g Hg. apply in_app_iff in Hg. destruct Hg as [Hg|Hg]; [apply B2, C1, Hg|apply C2, Hg]. Qed.

(* ...but the containment theorem is per call: the faithful model reproduces finding #24 (gene line from the first call only) *)
Example gene_line_first_dump_refuted :
  let gi := mkG 0 false [(7, (10001, 80000))] in
  let known := mkT 0 0 1 7 true [(10001,10300);(12001,12300);(14001,14500)] [] in
  let late := mkT 0 0 2 7 false [(70001,70300);(72001,72300);(79501,81000)] [] in
  exists p ls, dumps [] [(gi, [known]); (gi, [late])] = Ok (p, ls) /\
    In (GeneL 0 10001 80000 0 7 1) ls /\ In (TrL 0 70001 81000 0 7 2) ls /\ glines ls = [7].
Proof. eexists. eexists. split; [vm_compute; reflexivity|]. repeat split; cbn; auto 20. Qed.

(* ------------------------------------------------------------------ merge_files *)
Lemma merge_sorted_nocopy first l : merge_sorted false first l = flat_map (fun p => if p_exists p then drop_header (p_lines p) else []) l.
Proof. revert first. induction l as [|p t IH]; intros first; [reflexivity|]. cbn [merge_sorted flat_map]. rewrite IH. reflexivity. Qed.
Lemma Permutation_flat_map' {A B} (f:A -> list B) l l' : Permutation l l' -> Permutation (flat_map f l) (flat_map f l').
Proof. induction 1; cbn [flat_map]; [constructor|apply Permutation_app_head; assumption| |eapply Permutation_trans; eassumption].
  rewrite !app_assoc. apply Permutation_app_tail, Permutation_app_comm. Qed.
(* without header copying the merged file holds every non-header line of every existing part exactly once *)
Theorem merge_files_no_loss parts :
  Permutation (merge_files false parts) (flat_map (fun p => if p_exists p then drop_header (p_lines p) else []) parts).
Proof. unfold merge_files. rewrite merge_sorted_nocopy. apply Permutation_flat_map', Permutation_sym, isort_perm. Qed.

(* ------------------------------------------------------------------ the joiner never moves a known model to another gene *)
Lemma assoc_In {B} k (l:list (Z*B)) v : assoc k l = Some v -> In (k, v) l.
Proof. induction l as [|[k' v'] t IH]; [discriminate|]. cbn [assoc]. destruct (k' =? k) eqn:E; [intros H; inversion H; subst; left; f_equal; lia|intros H; right; auto]. Qed.
Lemma In_assoc {B} k (l:list (Z*B)) v : NoDup (map fst l) -> In (k, v) l -> assoc k l = Some v.
Proof. induction l as [|[k' v'] t IH]; [intros _ []|]. cbn [map fst assoc]. intros N [H|H].
  - inversion H; subst. rewrite Z.eqb_refl. reflexivity.
  - inversion N; subst. destruct (k' =? k) eqn:E; [|auto]. exfalso. apply H2. assert (k' = k) by lia. subst. change k with (fst (k, v)). apply in_map, H. Qed.
Lemma assoc_aset_same {B} k (v:B) l : assoc k (aset k v l) = Some v.
Proof. induction l as [|[k' v'] t IH]; cbn [aset assoc]; [rewrite Z.eqb_refl; reflexivity|].
  destruct (k' =? k) eqn:E; cbn [assoc]; [rewrite Z.eqb_refl; reflexivity|rewrite E; exact IH]. Qed.
Lemma assoc_aset_other {B} k k' (v:B) l : k' <> k -> assoc k' (aset k v l) = assoc k' l.
Proof. intros N. induction l as [|[k0 v0] t IH]; cbn [aset assoc].
  - destruct (k =? k') eqn:E; [lia|reflexivity].
  - destruct (k0 =? k) eqn:E; cbn [assoc].
    + destruct (k =? k') eqn:F; [lia|]. destruct (k0 =? k') eqn:G; [lia|reflexivity].
    + destruct (k0 =? k'); [reflexivity|exact IH]. Qed.
Lemma assoc_adel_other {B} k k' (l:list (Z*B)) : k' <> k -> assoc k' (adel k l) = assoc k' l.
Proof. intros N. unfold adel. induction l as [|[k0 v0] t IH]; [reflexivity|]. cbn [filter fst assoc].
  destruct (k0 =? k) eqn:E; cbn [negb assoc].
  - destruct (k0 =? k') eqn:F; [lia|exact IH].
  - destruct (k0 =? k'); [reflexivity|exact IH]. Qed.
Lemma assoc_adel_same {B} k (l:list (Z*B)) : assoc k (adel k l) = None.
Proof. unfold adel. induction l as [|[k0 v0] t IH]; [reflexivity|]. cbn [filter fst]. destruct (k0 =? k) eqn:E; cbn [negb]; [exact IH|].
  cbn [assoc]. rewrite E. exact IH. Qed.
Lemma aset_keys {B} k (v:B) l : map fst (aset k v l) = if zmem k (map fst l) then map fst l else map fst l ++ [k].
Proof. induction l as [|[k0 v0] t IH]; [reflexivity|]. cbn [aset map fst]. unfold zmem in *. cbn [existsb].
  destruct (k0 =? k) eqn:E.
  - rewrite (Z.eqb_sym k k0), E. cbn [orb map fst]. f_equal. lia.
  - rewrite (Z.eqb_sym k k0), E. cbn [orb map fst]. rewrite IH. destruct (existsb (Z.eqb k) (map fst t)); reflexivity. Qed.
Lemma nodup_aset {B} k (v:B) l : NoDup (map fst l) -> NoDup (map fst (aset k v l)).
Proof. intros N. rewrite aset_keys. destruct (zmem k (map fst l)) eqn:Z; [exact N|]. apply NoDup_app_single; [exact N|]. intros K. apply zmem_In in K. congruence. Qed.
Lemma nodup_adel {B} k (l:list (Z*B)) : NoDup (map fst l) -> NoDup (map fst (adel k l)).
Proof. unfold adel. induction l as [|[k0 v0] t IH]; [auto|]. cbn [map fst filter]. intros N. inversion N; subst. destruct (negb (k0 =? k)); [|auto].
  cbn [map fst]. constructor; [|auto]. intros K. apply H1. apply in_map_iff in K. destruct K as (x & E & Hx). apply filter_In in Hx. rewrite <- E. apply in_map, Hx. Qed.

Lemma zset_union_In a b x : In x (zset_union a b) <-> In x a \/ In x b.
Proof. unfold zset_union. revert a. induction b as [|y b' IH]; intros a; cbn [fold_left]; [cbn [In]; tauto|].
  rewrite (IH (if zmem y a then a else a ++ [y])). destruct (zmem y a) eqn:Z.
  - apply zmem_In in Z. cbn [In]. intuition; subst; auto.
  - rewrite in_app_iff. cbn [In]. intuition. Qed.
Lemma aget_tids_In g g2t x : In x (aget_tids g g2t) <-> exists tids, assoc g g2t = Some tids /\ In x tids.
Proof. unfold aget_tids. destruct (assoc g g2t) as [v|]; split; [intros H; exists v; auto|intros (t & E & H); inversion E; subst; exact H|intros []|intros (t & E & _); discriminate]. Qed.

(* "tid is owned by gene g0 only" *)
Definition own (tid g0:Z) (l:list (Z*list Z)) : Prop :=
  In tid (aget_tids g0 l) /\ (forall g, g <> g0 -> ~ In tid (aget_tids g l)).
Definition unowned (tid:Z) (l:list (Z*list Z)) : Prop := forall g, ~ In tid (aget_tids g l).

Lemma aget_aset_same g v l : aget_tids g (aset g v l) = v.
Proof. unfold aget_tids. rewrite assoc_aset_same. reflexivity. Qed.
Lemma aget_aset_other g g' v l : g' <> g -> aget_tids g' (aset g v l) = aget_tids g' l.
Proof. intros N. unfold aget_tids. rewrite assoc_aset_other by exact N. reflexivity. Qed.
Lemma aget_adel_same g l : aget_tids g (adel g l) = [].
Proof. unfold aget_tids. rewrite assoc_adel_same. reflexivity. Qed.
Lemma aget_adel_other g g' l : g' <> g -> aget_tids g' (adel g l) = aget_tids g' l.
Proof. intros N. unfold aget_tids. rewrite assoc_adel_other by exact N. reflexivity. Qed.

Definition add_tid (g t:Z) (l:list (Z*list Z)) := aset g (zset_union (aget_tids g l) [t]) l.
Lemma own_add_other tid g0 g t l : t <> tid -> own tid g0 l -> own tid g0 (add_tid g t l).
Proof. intros Nt (A & B). unfold add_tid. split.
  - destruct (Z.eq_dec g g0) as [->|N]; [rewrite aget_aset_same; apply zset_union_In; left; exact A|rewrite aget_aset_other by congruence; exact A].
  - intros g' Ng'. destruct (Z.eq_dec g' g) as [->|N]; [|rewrite aget_aset_other by exact N; apply B, Ng'].
    rewrite aget_aset_same. rewrite zset_union_In. cbn [In]. intros [K|[K|[]]]; [exact (B g Ng' K)|congruence]. Qed.
Lemma unowned_add_other tid g t l : t <> tid -> unowned tid l -> unowned tid (add_tid g t l).
Proof. intros Nt U g'. unfold add_tid. destruct (Z.eq_dec g' g) as [->|N]; [|rewrite aget_aset_other by exact N; apply U].
  rewrite aget_aset_same, zset_union_In. cbn [In]. intros [K|[K|[]]]; [exact (U g K)|congruence]. Qed.
Lemma own_add_self tid g0 l : unowned tid l -> own tid g0 (add_tid g0 tid l).
Proof. intros U. unfold add_tid. split; [rewrite aget_aset_same; apply zset_union_In; right; left; reflexivity|].
  intros g N. rewrite aget_aset_other by exact N. apply U. Qed.

(* reference side of __init__ *)
Definition g2t_ref (ref_tr:list (Z*(Z*list iv))) (l:list (Z*list Z)) := fold_left (fun l t => add_tid (fst (snd t)) (fst t) l) ref_tr l.
Lemma jinit_ref_g2t ref_genes ref_tr : s_g2t (jinit_ref ref_genes ref_tr) = g2t_ref ref_tr [] /\ s_ref (jinit_ref ref_genes ref_tr) = map fst ref_genes.
Proof. unfold jinit_ref. cbn [s_g2t s_ref]. split; [|reflexivity]. unfold g2t_ref.
  generalize (map (fun g : Z * (Z * iv) => (fst g, mkJ (fst (snd g)) (snd (snd g)) [])) ref_genes) as props. generalize (@nil (Z * list Z)) as l.
  induction ref_tr as [|t r IH]; intros l props; [reflexivity|]. cbn [fold_left]. rewrite IH. reflexivity. Qed.
Lemma g2t_ref_nodup ref_tr : forall l, NoDup (map fst l) -> NoDup (map fst (g2t_ref ref_tr l)).
Proof. induction ref_tr as [|t r IH]; intros l N; [exact N|]. cbn [g2t_ref fold_left]. apply IH. unfold add_tid. apply nodup_aset, N. Qed.
Lemma g2t_ref_own_keep tid g0 ref_tr : forall l, ~ In tid (map fst ref_tr) -> own tid g0 l -> own tid g0 (g2t_ref ref_tr l).
Proof. induction ref_tr as [|t r IH]; intros l N O; [exact O|]. cbn [g2t_ref fold_left]. cbn [map In] in N. apply IH; [tauto|]. apply own_add_other; [tauto|exact O]. Qed.
Lemma g2t_ref_own tid g0 ins ref_tr : forall l, NoDup (map fst ref_tr) -> assoc tid ref_tr = Some (g0, ins) -> unowned tid l -> own tid g0 (g2t_ref ref_tr l).
Proof. induction ref_tr as [|[t [g i]] r IH]; intros l N A U; [discriminate|]. cbn [map fst] in N. inversion N; subst.
  cbn [g2t_ref fold_left fst snd]. cbn [assoc] in A. destruct (t =? tid) eqn:E.
  - inversion A; subst. assert (t = tid) by lia. subst t. apply g2t_ref_own_keep; [exact H1|]. apply own_add_self, U.
  - apply IH; [exact H2|exact A|]. apply unowned_add_other; [lia|exact U]. Qed.

(* model side of __init__ *)
Lemma jadd_model_g2t st m st' : jadd_model st m = Ok st' ->
  s_ref st' = s_ref st /\ (s_g2t st' = s_g2t st /\ t_known m = true \/ s_g2t st' = add_tid (t_gene m) (t_id m) (s_g2t st) /\ t_known m = false).
Proof. unfold jadd_model. destruct (t_known m); [intros H; inversion H; subst; auto|].
  destruct (assoc (t_gene m) (s_props st)) as [p|]; [destruct (negb (j_strand p =? t_strand m)); [discriminate|]|]; intros H; inversion H; subst; cbn [s_ref s_g2t]; auto. Qed.
Lemma jinit_models_own tid g0 storage : forall st st', jinit_models st storage = Ok st' ->
  (forall m', In m' storage -> t_known m' = false -> t_id m' <> tid) ->
  NoDup (map fst (s_g2t st)) -> own tid g0 (s_g2t st) ->
  s_ref st' = s_ref st /\ NoDup (map fst (s_g2t st')) /\ own tid g0 (s_g2t st').
Proof. induction storage as [|m t IH]; intros st st' H Hn N O; cbn [jinit_models] in H; [inversion H; subst; auto|].
  destruct (jadd_model st m) as [st1|k] eqn:E; [|discriminate]. destruct (jadd_model_g2t _ _ _ E) as (R & [(G & K)|(G & K)]).
  - destruct (IH _ _ H (fun m' Hm' => Hn m' (or_intror Hm'))) as (R' & X); [rewrite G; exact N|rewrite G; exact O|]. split; [congruence|exact X].
  - destruct (IH _ _ H (fun m' Hm' => Hn m' (or_intror Hm'))) as (R' & X).
    + rewrite G. unfold add_tid. apply nodup_aset, N.
    + rewrite G. apply own_add_other; [apply Hn; [left; reflexivity|exact K]|exact O].
    + split; [congruence|exact X]. Qed.

(* merging *)
Lemma own_merge tid g0 g1 g2 l : g2 <> g0 -> own tid g0 l ->
  own tid g0 (adel g2 (aset g1 (zset_union (aget_tids g1 l) (aget_tids g2 l)) l)).
Proof. intros N2 (A & B). split.
  - rewrite aget_adel_other by congruence. destruct (Z.eq_dec g1 g0) as [->|N1]; [rewrite aget_aset_same; apply zset_union_In; left; exact A|rewrite aget_aset_other by congruence; exact A].
  - intros g Ng. destruct (Z.eq_dec g g2) as [->|Ng2]; [rewrite aget_adel_same; intros []|]. rewrite aget_adel_other by exact Ng2.
    destruct (Z.eq_dec g g1) as [->|Ng1]; [|rewrite aget_aset_other by exact Ng1; apply B, Ng].
    rewrite aget_aset_same, zset_union_In. intros [K|K]; [exact (B g1 Ng K)|exact (B g2 N2 K)]. Qed.

Definition scores_ok (ref:list Z) (scores:list score) : Prop :=
  forall s, In s scores -> ~ (In (fst (fst s)) ref /\ In (snd (fst s)) ref).
Lemma merge_genes_spec st g1 g2 scores st' scores' : merge_genes st g1 g2 scores = (st', scores') ->
  s_ref st' = s_ref st /\ s_g2t st' = adel g2 (aset g1 (zset_union (aget_tids g1 (s_g2t st)) (aget_tids g2 (s_g2t st))) (s_g2t st)) /\
  (scores_ok (s_ref st) scores -> scores_ok (s_ref st) scores').
Proof. unfold merge_genes. intros H. inversion H; subst; clear H. cbn [s_ref s_g2t]. split; [reflexivity|]. split; [reflexivity|].
  intros S s Hs. apply in_flat_map in Hs. destruct Hs as ([[a b] f] & Hin & Hs). specialize (S _ Hin). cbn [fst snd] in *.
  destruct ((a =? g2) || (b =? g2)); [destruct Hs|]. destruct ((a =? g1) || (b =? g1)); destruct Hs as [<-|[]]; exact S. Qed.
Lemma best_score_In b l : In (best_score b l) (b :: l).
Proof. revert b. induction l as [|s t IH]; intros b; [left; reflexivity|]. cbn [best_score].
  destruct (IH (if frac_ltb (snd b) (snd s) then s else b)) as [K|K]; [|right; right; exact K].
  destruct (frac_ltb (snd b) (snd s)); [right; left; exact K|left; exact K]. Qed.

Lemma join_loop_own tid g0 fuel : forall st scores, In g0 (s_ref st) -> scores_ok (s_ref st) scores ->
  NoDup (map fst (s_g2t st)) -> own tid g0 (s_g2t st) ->
  NoDup (map fst (s_g2t (join_loop fuel st scores))) /\ own tid g0 (s_g2t (join_loop fuel st scores)).
Proof. induction fuel as [|n IH]; intros st scores Hr S N O; [cbn; auto|]. cbn [join_loop].
  destruct scores as [|s0 [|s1 rest]]; [auto|auto|]. set (scores := s0 :: s1 :: rest) in *.
  set (b := best_score s0 scores). destruct (frac_ltb (snd b) (1, 10)); [auto|].
  assert (Hb: In b scores). { destruct (best_score_In s0 scores) as [K|K]; [left; exact K|exact K]. }
  pose proof (S b Hb) as Sb. destruct (fst b) as [a c] eqn:Eb. cbn [fst snd] in Sb.
  destruct (zmem a (s_ref st)) eqn:Za.
  - destruct (merge_genes st a c scores) as [st' scores'] eqn:M. destruct (merge_genes_spec _ _ _ _ _ _ M) as (R & G & S').
    apply zmem_In in Za. assert (c <> g0) by (intros ->; tauto).
    apply IH; [rewrite R; exact Hr|rewrite R; apply S', S|rewrite G; apply nodup_adel, nodup_aset, N|rewrite G; apply own_merge; assumption].
  - destruct (merge_genes st c a scores) as [st' scores'] eqn:M. destruct (merge_genes_spec _ _ _ _ _ _ M) as (R & G & S').
    assert (a <> g0) by (intros ->; apply zmem_In in Hr; congruence).
    apply IH; [rewrite R; exact Hr|rewrite R; apply S', S|rewrite G; apply nodup_adel, nodup_aset, N|rewrite G; apply own_merge; assumption]. Qed.

Lemma count_scores_ok st : scores_ok (s_ref st) (count_scores st).
Proof. unfold count_scores. set (keys := map fst (s_g2t st)).
  assert (G: forall l1 acc, scores_ok (s_ref st) acc -> scores_ok (s_ref st)
     (fold_left (fun acc g1 => fold_left (fun acc g2 =>
        if (g1 =? g2) || (zmem g1 (s_ref st) && zmem g2 (s_ref st)) then acc else
        let p := (Z.min g1 g2, Z.max g1 g2) in if has_pair p acc then acc else acc ++ [(p, count_score st g1 g2)]) keys acc) l1 acc)).
  { induction l1 as [|g1 l1 IH]; intros acc A; [exact A|]. cbn [fold_left]. apply IH. clear IH.
    generalize keys as l2. intros l2. revert acc A. induction l2 as [|g2 l2 IH2]; intros acc A; [exact A|]. cbn [fold_left]. apply IH2.
    destruct ((g1 =? g2) || (zmem g1 (s_ref st) && zmem g2 (s_ref st))) eqn:C; [exact A|]. cbv zeta.
    destruct (has_pair (Z.min g1 g2, Z.max g1 g2) acc); [exact A|]. intros s Hs. apply in_app_iff in Hs. destruct Hs as [Hs|[<-|[]]]; [apply A, Hs|].
    cbn [fst snd]. apply orb_false_iff in C. destruct C as (_ & C). intros (K1 & K2). apply zmem_In in K1, K2.
    assert (zmem g1 (s_ref st) = true /\ zmem g2 (s_ref st) = true).
    { destruct (Z.le_gt_cases g1 g2) as [L|L].
      - rewrite Z.min_l in K1 by lia. rewrite Z.max_r in K2 by lia. split; assumption.
      - rewrite Z.min_r in K1 by lia. rewrite Z.max_l in K2 by lia. split; assumption. }
    destruct H as (H1 & H2). rewrite H1, H2 in C. discriminate. }
  apply G. intros s []. Qed.

Lemma new_gene_own tid g0 l : NoDup (map fst l) -> own tid g0 l -> new_gene l tid = Some g0.
Proof. intros N (A & B). unfold new_gene.
  assert (U: forall g tids, In (g, tids) l -> In tid tids -> g = g0).
  { intros g tids Hin Ht. destruct (Z.eq_dec g g0) as [E|E]; [exact E|]. exfalso. apply (B g E). apply aget_tids_In. exists tids. split; [apply In_assoc; assumption|exact Ht]. }
  apply aget_tids_In in A. destruct A as (tids & A & Hin).
  assert (G: forall l' acc, (forall g ts, In (g, ts) l' -> In tid ts -> g = g0) -> (acc = None \/ acc = Some g0) ->
     fold_left (fun acc kv => if zmem tid (snd kv) then Some (fst kv) else acc) l' acc = Some g0 \/
     (fold_left (fun acc kv => if zmem tid (snd kv) then Some (fst kv) else acc) l' acc = acc /\ forall x, In x l' -> zmem tid (snd x) = false)).
  { induction l' as [|[g ts] t IH]; intros acc U' Hacc; [right; split; [reflexivity|intros x []]|].
    cbn [fold_left fst snd]. destruct (zmem tid ts) eqn:Z.
    - assert (g = g0) by (apply (U' g ts); [left; reflexivity|apply zmem_In, Z]). subst g.
      destruct (IH (Some g0) (fun g' ts' Hx => U' g' ts' (or_intror Hx)) (or_intror eq_refl)) as [K|(K & _)]; left; exact K.
    - destruct (IH acc (fun g' ts' Hx => U' g' ts' (or_intror Hx)) Hacc) as [K|(K & Nn)]; [left; exact K|right].
      split; [exact K|]. intros x [<-|Hx]; [exact Z|apply Nn, Hx]. }
  destruct (G l None U (or_introl eq_refl)) as [K|(_ & Nn)]; [exact K|].
  exfalso. apply assoc_In in A. specialize (Nn _ A). cbn [snd] in Nn. apply zmem_In in Hin. congruence. Qed.

Lemma relabel_In g2t storage out m : relabel g2t storage = Ok out -> In m storage -> exists g, new_gene g2t (t_id m) = Some g /\ In (set_gene m g) out.
Proof. revert out. induction storage as [|a t IH]; intros out H Hin; [destruct Hin|]. cbn [relabel] in H.
  destruct (new_gene g2t (t_id a)) as [g|] eqn:E; [|discriminate]. destruct (relabel g2t t) as [r|k] eqn:R; [|discriminate]. inversion H; subst.
  destruct Hin as [->|Hin]; [exists g; split; [exact E|left; reflexivity]|]. destruct (IH _ eq_refl Hin) as (g' & A & B). exists g'. split; [exact A|right; exact B]. Qed.

(* a known model (its id is a transcript of the annotation, and no novel model carries that id) leaves the joiner with the gene
   the annotation gives it, whatever genes are merged *)
Theorem joiner_keeps_reference_gene ref_genes ref_tr storage out m g0 ins :
  join_transcripts ref_genes ref_tr storage = Ok out ->
  NoDup (map fst ref_tr) -> assoc (t_id m) ref_tr = Some (g0, ins) -> In g0 (map fst ref_genes) ->
  (forall m', In m' storage -> t_known m' = false -> t_id m' <> t_id m) ->
  In m storage -> In (set_gene m g0) out.
Proof. unfold join_transcripts, joiner_final. intros H Nd A Hg Hn Hin.
  destruct (jinit_models (jinit_ref ref_genes ref_tr) storage) as [st|k] eqn:J; [|discriminate].
  destruct (jinit_ref_g2t ref_genes ref_tr) as (G0 & R0).
  destruct (jinit_models_own (t_id m) g0 storage _ _ J Hn) as (R & N & O).
  - rewrite G0. apply g2t_ref_nodup. constructor.
  - rewrite G0. eapply g2t_ref_own; [exact Nd|exact A|]. intros g K. unfold aget_tids in K. cbn in K. exact K.
  - destruct (join_loop_own (t_id m) g0 (Datatypes.S (length (s_g2t st))) st (count_scores st)) as (N' & O'); [rewrite R, R0; exact Hg|apply count_scores_ok|exact N|exact O|].
    destruct (relabel_In _ _ _ _ H Hin) as (g & E & Hout). rewrite (new_gene_own _ _ _ N' O') in E. inversion E; subst. exact Hout. Qed.
