(* C19: declarative readings of further profile helpers of src/common.py that have no hand-written model, as functions of the zipped
   profiles restricted to a range [a, b) (slice), of the positions of the first / last 1.  Their Gallina text is REGENERATED from the
   source (gen/Loops.v); Profile<Name>Spec.v proves that the regenerated function is this reading. *)
From Coq Require Import ZArith List Bool Lia ZifyBool.
From IQ Require Import LoopsSupport ProfileHelpers.
Import ListNotations. Open Scope Z_scope.

(* l[a:b] for 0 <= a <= b <= len(l) *)
Definition slice {A} (l:list A) (rg:Z * Z) : list A := firstn (Z.to_nat (snd rg - fst rg)) (skipn (Z.to_nat (fst rg)) l).
Definition range_ok {A} (l:list A) (rg:Z * Z) : bool := (0 <=? fst rg) && (fst rg <=? snd rg) && (snd rg <=? Z.of_nat (length l)).
Definition whole {A} (l:list A) : Z * Z := (0, Z.of_nat (length l)).

(* has_overlapping_features: some position of the range where both profiles are 1 *)
Definition spec_overlapping (p1 p2:list Z) (rg:Z * Z) : bool := existsb both_present (combine (slice p1 rg) (slice p2 rg)).
(* equal_profiles_in_range: no position of the range where the read profile is non-zero and differs from the isoform profile *)
Definition spec_equal_in_range (iso read:list Z) (rg:Z * Z) : bool :=
  forallb (fun p => (snd p =? 0) || (fst p =? snd p)) (combine (slice iso rg) (slice read rg)).
(* difference_in_present_features without limit: number of positions of the range where both are non-zero and differ *)
Definition differs (p:Z * Z) : bool := negb (fst p =? 0) && negb (snd p =? 0) && negb (fst p =? snd p).
Definition spec_difference (p1 p2:list Z) (rg:Z * Z) : Z := Z.of_nat (length (filter differs (combine (slice p1 rg) (slice p2 rg)))).
(* find_matching_positions: 1 where the profiles agree, 0 elsewhere *)
Definition spec_matching (p1 p2:list Z) : list Z := map (fun p => if fst p =? snd p then 1 else 0) (combine p1 p2).
(* position of the first / last occurrence *)
Fixpoint first_pos (l:list Z) (x:Z) : option Z := match l with [] => None | y :: t => if y =? x then Some 0 else option_map Z.succ (first_pos t x) end.
Definition last_pos (l:list Z) (x:Z) : option Z := option_map (fun k => Z.of_nat (length l) - 1 - k) (first_pos (rev l) x).
(* left_truncated / right_truncated: true when a profile has no 1; else the read's first 1 is to the right of / its last 1 is to the left of the isoform's *)
Definition spec_left_truncated (read iso:list Z) : bool :=
  match first_pos read 1, first_pos iso 1 with Some a, Some b => a >? b | _, _ => true end.
Definition spec_right_truncated (read iso:list Z) : bool :=
  match last_pos read 1, last_pos iso 1 with Some a, Some b => a <? b | _, _ => true end.
