From Coq Require Import ZArith NArith List Bool Lia ZifyBool ZifyN.
Import ListNotations.
From IQ Require Import Codec0.
Open Scope N_scope.

(* ---------- more combinators ---------- *)
Definition c_map {A B} (f:A->B) (g:B->A) (c:codec A) : codec B :=
 {| enc := fun b => enc c (g b);
    dec := fun l => match dec c l with Some (a, r) => Some (f a, r) | None => None end;
    dom := fun b => dom c (g b) /\ f (g b) = b |}.
Lemma rt_map {A B} (f:A->B) (g:B->A) c : rt c -> rt (c_map f g c).
Proof. intros H b rest [D E]. simpl. rewrite H by exact D. rewrite E. reflexivity. Qed.

(* restrict the domain (e.g. enum membership, positivity) *)
Definition c_sub {A} (P:A->Prop) (c:codec A) : codec A := {| enc := enc c; dec := dec c; dom := fun a => dom c a /\ P a |}.
Lemma rt_sub {A} P (c:codec A) : rt c -> rt (c_sub P c).
Proof. intros H a rest [D _]. apply H, D. Qed.

(* raw bytes with a 2-byte length prefix = write_string on ASCII strings (1 byte per char) *)
Fixpoint take_n (n:nat) (l:list byte) : option (list byte * list byte) :=
  match n with O => Some ([], l) | S n' => match l with [] => None | b::t =>
    match take_n n' t with Some (x, r) => Some (b::x, r) | None => None end end end.
Lemma take_n_app s rest : take_n (length s) (s ++ rest) = Some (s, rest).
Proof. induction s as [|b t IH]; simpl; [reflexivity|]. rewrite IH. reflexivity. Qed.

Definition c_string : codec (list byte) :=
 {| enc := fun s => enc_be 2 (N.of_nat (length s)) ++ s;
    dec := fun l => match dec_be 2 l with Some (n, r) => take_n (N.to_nat n) r | None => None end;
    dom := fun s => N.of_nat (length s) < 65536 |}.
Lemma rt_string : rt c_string.
Proof. intros s rest D. cbn [enc dec c_string]. rewrite <- app_assoc, be_roundtrip by exact D.
  rewrite Nnat.Nat2N.id. apply take_n_app. Qed.

(* write_string_or_none: length 65535 is the None marker *)
Definition c_string_opt : codec (option (list byte)) :=
 {| enc := fun o => match o with None => enc_be 2 65535 | Some s => enc_be 2 (N.of_nat (length s)) ++ s end;
    dec := fun l => match dec_be 2 l with
                    | Some (n, r) => if n =? 65535 then Some (None, r)
                                     else match take_n (N.to_nat n) r with Some (s, r') => Some (Some s, r') | None => None end
                    | None => None end;
    dom := fun o => match o with None => True | Some s => N.of_nat (length s) < 65535 end |}.
Lemma rt_string_opt : rt c_string_opt.
Proof. intros [s|] rest D; cbn [enc dec c_string_opt].
 - simpl in D. rewrite <- app_assoc, be_roundtrip by (change (256 ^ N.of_nat 2) with 65536; lia).
   destruct (N.of_nat (length s) =? 65535) eqn:E; [lia|]. rewrite Nnat.Nat2N.id, take_n_app. reflexivity.
 - rewrite be_roundtrip by (vm_compute; reflexivity). reflexivity. Qed.

(* the collision the code has at exactly 65535 characters *)
Lemma string_opt_len65535_refuted : forall s, N.of_nat (length s) = 65535 ->
  dec c_string_opt (enc c_string_opt (Some s)) <> Some (Some s, []).
Proof. intros s H. cbn [enc dec c_string_opt]. rewrite H.
  rewrite be_roundtrip by (vm_compute; reflexivity). rewrite N.eqb_refl. discriminate. Qed.

(* sign-bit integers as a codec *)
Definition c_neg : codec Z := {| enc := enc_neg; dec := dec_neg; dom := fun v => (-2147483648 < v < 2147483648)%Z |}.
Lemma rt_neg : rt c_neg. Proof. intros v rest D. apply neg_roundtrip, D. Qed.

(* bool array of up to 8 flags in one byte: here the 3-flag version used by ReadAssignment *)
Definition b2n (b:bool) : N := if b then 1 else 0.
Definition c_bool3 : codec (bool*bool*bool) :=
 {| enc := fun '(a,b,c) => [b2n a + 2 * b2n b + 4 * b2n c];
    dec := fun l => match l with [] => None | x::r => Some ((N.testbit x 0, N.testbit x 1, N.testbit x 2), r) end;
    dom := fun _ => True |}.
Lemma rt_bool3 : rt c_bool3.
Proof. intros [[a b] c] rest _. destruct a, b, c; reflexivity. Qed.

(* ---------- MatchEvent ---------- *)
Record match_event := { ev_type : N; ev_iso : N*N; ev_read : N*N; ev_info : Z }.
Definition c_event_raw := c_pair (c_int 2) (c_pair (c_pair (c_int 4) (c_int 4)) (c_pair (c_pair (c_int 4) (c_int 4)) c_neg)).
Definition c_event : codec match_event :=
  c_map (fun '(t,(i,(r,x))) => {| ev_type := t; ev_iso := i; ev_read := r; ev_info := x |})
        (fun e => (ev_type e, (ev_iso e, (ev_read e, ev_info e)))) c_event_raw.
Lemma rt_event : rt c_event.
Proof. apply rt_map. repeat apply rt_pair; try apply rt_int; apply rt_neg. Qed.

(* ---------- IsoformMatch ---------- *)
Record iso_match := { m_gene : option (list byte); m_tr : option (list byte); m_strand : list byte;
                      m_class : N; m_penalty : N (* fixed point, units of 2^-20 *); m_events : list match_event }.
Definition c_match_raw := c_pair c_string_opt (c_pair c_string_opt (c_pair c_string (c_pair (c_int 2) (c_pair (c_int 4) (c_list c_event))))).
Definition c_match : codec iso_match :=
  c_map (fun '(g,(t,(s,(c,(p,e))))) => {| m_gene := g; m_tr := t; m_strand := s; m_class := c; m_penalty := p; m_events := e |})
        (fun m => (m_gene m, (m_tr m, (m_strand m, (m_class m, (m_penalty m, m_events m)))))) c_match_raw.
Lemma rt_match : rt c_match.
Proof. apply rt_map. repeat apply rt_pair; try apply rt_int; try apply rt_string; try apply rt_string_opt.
  apply rt_list, rt_event. Qed.

(* skipping reader: decode and forget; it consumes exactly the bytes the full decoder consumes *)
Definition skip {A} (c:codec A) (l:list byte) : option (list byte) := match dec c l with Some (_, r) => Some r | None => None end.
Lemma skip_aligned {A} (c:codec A) : rt c -> forall a rest, dom c a -> skip c (enc c a ++ rest) = Some rest.
Proof. intros H a rest D. unfold skip. rewrite H by exact D. reflexivity. Qed.

Print Assumptions rt_match.
Print Assumptions string_opt_len65535_refuted.
