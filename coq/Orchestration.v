(* Orchestration of an IsoQuant run (src/dataset_processor.py, src/file_utils.py, src/stats.py, isoquant.py):
     1. chromosome-level fan-out over worker processes (ProcessPoolExecutor.map, chunksize 1) with per-worker carried state, results
        collected in submission order;
     2. natural sort of the per-chromosome part names and merge_files;
     3. the pieces of process-wide state a worker / the main process carries from one chromosome (one experiment) to the next:
        GraphBasedModelConstructor.detected_known_isoforms, ReadAssignment.assignment_id_generator, FeatureInfo.feature_id_counter
        (a key of ProfileFeatureCounter), the gene list of a feature row (list(set)), the args fields mutated by process_sample,
        DatasetProcessor.alignment_stat_counter;
     4. experiments as a fold over that state (process_all_samples), current code and repaired code;
     5. combine_counts (pandas outer merge of the per-experiment tables).
   Definitions and executable checkers only; proofs are in OrchestrationProofs.v.  Strings are lists of code points. *)
From Coq Require Import ZArith List Bool Lia Permutation Sorting.Sorted.
From IQ Require Import GroupedGroupers.
Import ListNotations.
Open Scope Z_scope.

(* ================================================================ 1. fan-out *)
Section Fanout.
  Context {C S O : Type}.
  Variable ceqb : C -> C -> bool.
  (* f c s : what processing chromosome c in a worker whose process-level state is s writes, and the state it leaves behind
     (collect_reads_in_parallel / construct_models_in_parallel) *)
  Variable f : C -> S -> O * S.

  (* one worker process runs the chromosomes it happens to get one after the other *)
  Fixpoint worker (cs : list C) (s : S) : list (C * O) * S :=
    match cs with
    | [] => ([], s)
    | c :: t => let '(o, s1) := f c s in let '(r, s2) := worker t s1 in ((c, o) :: r, s2)
    end.
  (* a schedule: for every worker process the list of chromosomes it executed, in execution order; every worker is forked from the
     main process and starts in the main process's state s0 *)
  Definition run_workers (s0 : S) (sch : list (list C)) : list (C * O) := flat_map (fun cs => fst (worker cs s0)) sch.
  Fixpoint lookup (c : C) (l : list (C * O)) : option O :=
    match l with [] => None | (c', o) :: t => if ceqb c c' then Some o else lookup c t end.
  (* Executor.map yields the results in the order of the submitted arguments, whatever the completion order `finished` was *)
  Definition collect (chr_ids : list C) (finished : list (C * O)) : list (option O) := map (fun c => lookup c finished) chr_ids.
  (* --threads 1: builtin map in the main process *)
  Definition sequential (chr_ids : list C) (s0 : S) : list (option O) * S :=
    let '(r, s) := worker chr_ids s0 in (map (fun p => Some (snd p)) r, s).
End Fanout.

(* ================================================================ 2. natural sort, merge_files *)
Section Lex.
  Context {A : Type} (cmp : A -> A -> comparison).
  (* Python's comparison of lists / strings: the first differing element decides, a proper prefix is smaller *)
  Fixpoint lex (x y : list A) : comparison :=
    match x, y with
    | [], [] => Eq | [], _ :: _ => Lt | _ :: _, [] => Gt
    | a :: s, b :: t => match cmp a b with Eq => lex s t | c => c end
    end.
End Lex.

Definition is_digit (c : Z) : bool := (48 <=? c) && (c <=? 57).
Definition lower_c (c : Z) : Z := if (65 <=? c) && (c <=? 90) then c + 32 else c.
Definition lower (s : str) : str := map lower_c s.
Definition int_of (digits : str) : Z := fold_left (fun a c => 10 * a + (c - 48)) digits 0.
Inductive token := TS (s : str) | TI (n : Z).
(* [int(t) if t.isdigit() else t.lower() for t in re.split('(\d+)', s)]: non-digit runs (possibly empty at both ends) alternate with
   digit runs; cur is the reversed current run *)
Fixpoint tokens_go (s cur : str) (indigit : bool) : list token :=
  match s with
  | [] => if indigit then [TI (int_of (rev cur)); TS []] else [TS (lower (rev cur))]
  | c :: t =>
    if is_digit c then (if indigit then tokens_go t (c :: cur) true else TS (lower (rev cur)) :: tokens_go t [c] true)
    else (if indigit then TI (int_of (rev cur)) :: tokens_go t [c] false else tokens_go t (c :: cur) false)
  end.
Definition tokens (s : str) : list token := tokens_go s [] false.
(* int/str comparisons raise TypeError in Python; they never happen (tokens_alternate), any answer will do *)
Definition tok_cmp (a b : token) : comparison :=
  match a, b with
  | TS x, TS y => lex Z.compare x y
  | TI x, TI y => Z.compare x y
  | TI _, TS _ => Lt
  | TS _, TI _ => Gt
  end.
Definition key_cmp (a b : str) : comparison := lex tok_cmp (tokens a) (tokens b).
Definition nat_le (a b : str) : bool := match key_cmp a b with Gt => false | _ => true end.

(* list.sort(key=...) is stable: an element is placed in front of the first element of the sorted tail that is not smaller *)
Section Sort.
  Context {A : Type} (le : A -> A -> bool).
  Fixpoint insert (x : A) (l : list A) : list A :=
    match l with [] => [x] | y :: t => if le x y then x :: l else y :: insert x t end.
  Fixpoint isort (l : list A) : list A := match l with [] => [] | x :: t => insert x (isort t) end.
End Sort.
Definition nsort (names : list str) : list str := isort nat_le names.
Definition nsort_by {A} (name : A -> str) (l : list A) : list A := isort (fun a b => nat_le (name a) (name b)) l.

(* a text file: its lines, each with its terminator (the last one possibly without) *)
Definition is_header (l : str) : bool := match l with 35 :: _ => true | _ => false end.
Fixpoint drop_header (ls : list str) : list str :=
  match ls with l :: t => if is_header l then drop_header t else ls | [] => [] end.
Fixpoint merge_go (copy_header : bool) (i : nat) (parts : list (option (list str))) : list str :=
  match parts with
  | [] => []
  | p :: t => (match p with
               | None => []                                                    (* `if not os.path.exists(file_name): continue` *)
               | Some c => if copy_header && Nat.eqb i 0 then c else drop_header c
               end) ++ merge_go copy_header (Datatypes.S i) t
  end.
(* merge_files: parts = (part file name, its content or None when it does not exist), in chr_ids order;
   result: what is appended to the merged handle, the names in removal order, and whether os.remove raises FileNotFoundError *)
Definition merge_files (copy_header : bool) (parts : list (str * option (list str))) : list str * list str * bool :=
  let sorted := nsort_by fst parts in
  (merge_go copy_header 0 (map snd sorted), map fst sorted, existsb (fun p => match snd p with None => true | Some _ => false end) sorted).

(* merge_file_list: rreplace(fname, label, label + "_" + chr_id) replaces the LAST occurrence of label in the whole path *)
Fixpoint last_occ (d s : str) (i : nat) (best : option nat) : option nat :=
  match s with
  | [] => if is_prefix d s then Some i else best
  | _ :: t => last_occ d t (Datatypes.S i) (if is_prefix d s then Some i else best)
  end.
Definition rreplace (s old new : str) : str :=
  match old with
  | [] => s ++ new                                  (* s.rsplit("", 1) raises ValueError in Python; never used *)
  | _ => match last_occ old s 0 None with
         | None => s
         | Some i => firstn i s ++ new ++ skipn (i + length old) s
         end
  end.
Definition part_name (fname label chr_id : str) : str := rreplace fname label (label ++ [95] ++ chr_id).
(* repaired (fixes/C06_merge_part_names.diff): the label at the start of the file name is replaced; the old rule is the fall-back *)
Definition part_name_fix (fname label chr_id : str) : str :=
  let b := basename fname in
  if is_prefix label b then firstn (length fname - length b) fname ++ label ++ [95] ++ chr_id ++ skipn (length label) b
  else part_name fname label chr_id.
(* the name the per-chromosome writer really uses: SampleData(prefix = label_chr) + the same suffix *)
Definition written_part_name (dir label chr_id suffix : str) : str := dir ++ label ++ [95] ++ chr_id ++ suffix.

(* ================================================================ 3. carried state *)
(* ---- 3a. detected_known_isoforms: a chromosome is a list of processing regions, each offering the known isoforms that pass the
   thresholds, in the order the constructor meets them; one is reported unless its id is already in the class-level set *)
Definition memz (x : Z) (l : list Z) : bool := existsb (Z.eqb x) l.
Fixpoint report_known (cands : list Z) (detected : list Z) : list Z * list Z :=
  match cands with
  | [] => ([], detected)
  | i :: t => if memz i detected then report_known t detected
              else let '(r, d) := report_known t (i :: detected) in (i :: r, d)
  end.
Fixpoint chr_known (regions : list (list Z)) (detected : list Z) : list (list Z) * list Z :=
  match regions with
  | [] => ([], detected)
  | cands :: t => let '(r, d) := report_known cands detected in let '(rs, d') := chr_known t d in (r :: rs, d')
  end.
(* repaired (fixes/C10_reset_class_state.diff): construct_models_in_parallel starts every chromosome with an empty set *)
Definition chr_known_fix (regions : list (list Z)) (detected : list Z) : list (list Z) * list Z := chr_known regions [].

(* ---- 3b. assignment ids: stage 1 numbers the records of a chromosome a+1, a+2, ... (a = the worker's counter on entry), the resolved
   multi-mapper entries carry the same numbers; stage 2 looks a record up by (read id, assignment id) among the entries of its
   chromosome, the last hit wins *)
Definition number_from (a : Z) {A} (l : list A) : list (Z * A) := combine (map (fun k => a + 1 + Z.of_nat k) (seq 0 (length l))) l.
Fixpoint find_resolved {T} (read aid : Z) (entries : list (Z * Z * T)) (best : option T) : option T :=
  match entries with
  | [] => best
  | (r, a, t) :: rest => find_resolved read aid rest (if (r =? read) && (a =? aid) then Some t else best)
  end.
(* records: (read id, assignment id); entries: (read id, assignment id, resolved type) *)
Definition resolve_all {T} (records : list (Z * Z)) (entries : list (Z * Z * T)) : list (option T) :=
  map (fun ra => find_resolved (fst ra) (snd ra) entries None) records.
Definition rename_records (r : Z -> Z) (records : list (Z * Z)) := map (fun ra => (fst ra, r (snd ra))) records.
Definition rename_entries {T} (r : Z -> Z) (entries : list (Z * Z * T)) := map (fun e => (fst (fst e), r (snd (fst e)), snd e)) entries.

(* ---- 3c. ProfileFeatureCounter (exon / intron counts): FeatureInfo.id (class-level counter) is the key of an insertion-ordered
   dictionary; an event = (feature id, printed feature text, group, +1 inclusion / -1 exclusion) *)
Record fevent := mkfe { fe_id : Z; fe_name : Z; fe_group : Z; fe_incl : bool }.
Fixpoint first_seen (ids : list Z) (seen : list Z) : list Z :=
  match ids with [] => [] | i :: t => if memz i seen then first_seen t seen else i :: first_seen t (i :: seen) end.
Definition fcount (evs : list fevent) (fid g : Z) (incl : bool) : Z :=
  Z.of_nat (length (filter (fun e => (fe_id e =? fid) && (fe_group e =? g) && Bool.eqb (fe_incl e) incl) evs)).
Definition fname (evs : list fevent) (fid : Z) : Z :=
  match filter (fun e => fe_id e =? fid) evs with e :: _ => fe_name e | [] => 0 end.
(* dump: for every feature in first-seen order, for every group in sorted order, a row unless both counts are zero;
   groups = sorted(group_numeric_ids.keys()) is passed in *)
Definition fdump (sorted_groups : list Z) (evs : list fevent) : list (Z * Z * Z * Z) :=
  flat_map (fun fid => flat_map (fun g => let i := fcount evs fid g true in let x := fcount evs fid g false in
                                          if (0 <? i) || (0 <? x) then [(fname evs fid, g, i, x)] else []) sorted_groups)
           (first_seen (map fe_id evs) []).
Definition rename_fevents (r : Z -> Z) (evs : list fevent) := map (fun e => mkfe (r (fe_id e)) (fe_name e) (fe_group e) (fe_incl e)) evs.

(* ---- 3d. the gene list of a feature row: FeatureInfo(..., list(gene_ids)) with gene_ids a set of strings; `enum` is the order in
   which the set happens to be enumerated (a function of PYTHONHASHSEED); gene ids are interned order-preservingly *)
Definition gene_list_cur (enum : list Z) : list Z := enum.
Definition gene_list_fix (enum : list Z) : list Z := isort Z.leb enum.           (* fixes/C06_sorted_gene_list.diff: sorted(gene_ids) *)

(* ================================================================ 4. experiments *)
Inductive polya_strategy := PAuto | PNever | PAlways.
Definition set_strategy (flag : bool) (st : polya_strategy) : bool := match st with PAuto => flag | PNever => false | PAlways => true end.

(* what the main process carries from one experiment to the next *)
Record gstate := mkg {
  g_mono_intronic : bool;            (* args.require_monointronic_polya *)
  g_mono_exonic : bool;              (* args.require_monoexonic_polya *)
  g_unaligned : Z;                   (* DatasetProcessor.alignment_stat_counter[unaligned] *)
  g_detected : list Z;               (* GraphBasedModelConstructor.detected_known_isoforms of the main process *)
  g_replicas : bool                  (* args.use_technical_replicas: preset by isoquant.py, re-derived by process_sample for every experiment *)
}.
Record experiment := mke {
  e_polya_high : bool;               (* polyA fraction >= polya_percentage_threshold *)
  e_unmapped : Z;                    (* sum of bam.unmapped over the experiment's files *)
  e_stat_not_aligned : Z;            (* sum of the per-chromosome __not_aligned statistics (always 0 in the code) *)
  e_chroms : list (list (list Z));   (* per chromosome, per region: the known isoforms that pass the thresholds *)
  e_nfiles : Z                       (* len(sample.file_list) *)
}.
(* what is observable of one experiment: the three construction flags, the __not_aligned line, the reported known isoforms, the replica flag *)
Record eout := mko { o_requires : bool; o_mono_intronic : bool; o_mono_exonic : bool; o_not_aligned : Z; o_known : list (list (list Z));
                     o_replicas : bool (* use_technical_replicas as the model constructor sees it: the replica filter for novel transcripts *) }.

Fixpoint known_seq (chroms : list (list (list Z))) (d : list Z) : list (list (list Z)) * list Z :=
  match chroms with [] => ([], d) | c :: t => let '(r, d1) := chr_known c d in let '(rs, d2) := known_seq t d1 in (r :: rs, d2) end.
Definition not_aligned_line (unaligned stat : Z) : Z := if 0 <? unaligned then unaligned else stat.

(* current code; pool = (threads > 1): forked workers start from the main process's set and the main process never learns theirs.  In pool
   mode every chromosome is given the main process's set: that a worker's own additions (isoforms of the chromosomes it ran before) have no
   effect is the frame lemma detected_frame / detected_schedule_independent, isoform ids being unique in the annotation *)
(* rgfn: args.read_group == "file_name" (an option of the invocation, never modified while experiments are processed);
   args.use_technical_replicas = rgfn and len(sample.file_list) > 1 is derived from it for every experiment, not from its previous value *)
Definition replicas_flag (rgfn : bool) (e : experiment) : bool := rgfn && (1 <? e_nfiles e).
Definition process_sample_cur (st : polya_strategy) (rgfn : bool) (pool : bool) (e : experiment) (g : gstate) : eout * gstate :=
  let requires := set_strategy (e_polya_high e) st in
  let mi := set_strategy (g_mono_intronic g || requires) st in
  let me := set_strategy (g_mono_exonic g || requires) st in
  let un := g_unaligned g + e_unmapped e in
  let '(known, d) := if pool then (map (fun c => fst (chr_known c (g_detected g))) (e_chroms e), g_detected g)
                     else known_seq (e_chroms e) (g_detected g) in
  (mko requires mi me (not_aligned_line un (e_stat_not_aligned e)) known (replicas_flag rgfn e), mkg mi me un d (replicas_flag rgfn e)).
(* repaired: fixes/C10_sticky_flags.diff (the strategy's own defaults dflt_mi, dflt_me are or-ed in, not the previous experiment's
   result), fixes/C10_unaligned_per_sample.diff (the counter is reset per experiment), fixes/C10_reset_class_state.diff *)
Definition process_sample_fix (dflt_mi dflt_me : bool) (st : polya_strategy) (rgfn : bool) (pool : bool) (e : experiment) (g : gstate) : eout * gstate :=
  let requires := set_strategy (e_polya_high e) st in
  let mi := set_strategy (dflt_mi || requires) st in
  let me := set_strategy (dflt_me || requires) st in
  let un := e_unmapped e in
  let known := map (fun c => fst (chr_known_fix c (g_detected g))) (e_chroms e) in
  (mko requires mi me (not_aligned_line un (e_stat_not_aligned e)) known (replicas_flag rgfn e), mkg mi me un (g_detected g) (replicas_flag rgfn e)).
Section Samples.
  Context {E G Out : Type} (step : E -> G -> Out * G).
  Fixpoint run_samples (es : list E) (g : G) : list Out :=
    match es with [] => [] | e :: t => let '(o, g') := step e g in o :: run_samples t g' end.
End Samples.
(* set_data_dependent_options presets args.use_technical_replicas = (read_group == "file_name") *)
Definition init_state (dflt_mi dflt_me rgfn : bool) : gstate := mkg dflt_mi dflt_me 0 [] rgfn.

(* ================================================================ 5. combine_counts *)
(* a table: rows (feature, value) in file order; feature ids interned order-preservingly, values scaled to integers.
   transform_counts: df[:-3] unless full *)
Definition transform (full : bool) (t : list (Z * Z)) : list (Z * Z) := if full then t else firstn (length t - 3) t.
Fixpoint zlookup (k : Z) (t : list (Z * Z)) : option Z := match t with [] => None | (k', v) :: r => if k =? k' then Some v else zlookup k r end.
Fixpoint zinsert (x : Z) (l : list Z) : list Z := match l with [] => [x] | y :: t => if x <? y then x :: l else if x =? y then l else y :: zinsert x t end.
Definition sorted_union (keys : list Z) : list Z := fold_right zinsert [] keys.
(* pd.merge(..., on='#feature_id', how='outer') folded over the experiments, for tables without repeated features: the keys of the
   union in sorted order, one cell per experiment (empty when the feature is not in that experiment's table) *)
Definition combine_tables (full : bool) (tables : list (list (Z * Z))) : list (Z * list (option Z)) :=
  let ts := map (transform full) tables in
  map (fun k => (k, map (zlookup k) ts)) (sorted_union (flat_map (map fst) ts)).
(* the decidable specification evaluated on the real files: the combined table has exactly one row per feature of the union and cell
   (feature, i) is the value of that feature in experiment i's own table (order of rows free) *)
Definition oz_eqb (a b : option Z) : bool := match a, b with Some x, Some y => x =? y | None, None => true | _, _ => false end.
Fixpoint nodupb (l : list Z) : bool := match l with [] => true | x :: t => negb (memz x t) && nodupb t end.
Fixpoint zs_eqb (x y : list Z) : bool := match x, y with [], [] => true | p :: s, q :: t => (p =? q) && zs_eqb s t | _, _ => false end.
Fixpoint ozs_eqb (x y : list (option Z)) : bool := match x, y with [], [] => true | p :: s, q :: t => oz_eqb p q && ozs_eqb s t | _, _ => false end.
Definition combined_ok (full : bool) (header labels : list Z) (tables : list (list (Z * Z))) (comb : list (Z * list (option Z))) : bool :=
  let ts := map (transform full) tables in
  zs_eqb header labels &&
  nodupb (map fst comb) &&
  forallb (fun row => ozs_eqb (snd row) (map (zlookup (fst row)) ts) && existsb (fun t => memz (fst row) (map fst t)) ts) comb &&
  forallb (fun t => forallb (fun kv => memz (fst kv) (map fst comb)) t) ts.
