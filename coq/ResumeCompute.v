(* C07 — the operation-level model evaluated at EVERY crash point of families of small configurations (vm_compute).
   The model and its general theorems are in ResumeProgram.v. *)
From Coq Require Import NArith List Bool Lia.
From IQ Require Import Resume ResumeInvariant ResumeProgram ResumeFull.
Import ListNotations. Open Scope N_scope.

(* ================================================================== configurations of the harness, generated *)
(* Output kinds (numbering shared with harness/props/c07.py KINDS):
   0 corrected_reads.bed, 1 read_assignments.tsv, 2-4 gene counts/stats/tpm, 5-7 transcript counts/stats/tpm,
   8-10 transcript_model counts/stats/tpm, 11-13 gene_grouped counts/linear/tpm, 14-16 transcript_grouped, 17-19 transcript_model_grouped,
   20 transcript_models.gtf, 21 transcript_model_reads.tsv, 22 extended_annotation.gtf.
   gen_cfg mirrors ReadAssignmentAggregator.__init__ / construct_models_in_parallel / merge_assignments / merge_transcript_models
   for: with or without --genedb, with or without read groups, transcript model construction on. *)
Definition gen_creation (genedb grouped:bool) : list cstep :=
  [COpen 0] ++ (if genedb then [COpen 1; CTouch 2; CTouch 5] else []) ++ [CTouch 8] ++
  (if grouped && genedb then [CTouch 11; CTouch 12; CTouch 14; CTouch 15] else []) ++
  (if grouped then [CTouch 17; CTouch 18] else []) ++
  [COpen 20; COpen 21] ++ (if genedb then [COpen 22] else []).
Definition gen_dumps (genedb grouped:bool) : list dstep :=
  (if genedb then [DCounterU 2 3; DCounterU 5 6] else []) ++ (if grouped && genedb then [DCounterG 11 12; DCounterG 14 15] else []) ++
  [DReadStat; DCounterU 8 9] ++ (if grouped then [DCounterG 17 18] else []) ++ [DTrStat].
Definition gen_merges (genedb grouped:bool) : list mstep :=
  [MPrinter 20; MPrinter 21; MCounterU 8 9 10] ++ (if grouped then [MCounterG 17 18 19] else []) ++
  (if genedb then [MPrinter 22; MPrinter 1] else []) ++ [MPrinter 0] ++
  (if genedb then [MCounterU 2 3 4; MCounterU 5 6 7] else []) ++ (if grouped && genedb then [MCounterG 11 12 13; MCounterG 14 15 16] else []).

(* clean-up order under lexicographic glob order (chromosome c is the c-th processed; mo lists the chromosomes by name) *)
Definition cleanup_current (mo rg:list N) (dropped_proc:bool) : list fname :=
  flat_map (fun c => [Save c; Bamstat c; Collected c; Groups c] ++ (if dropped_proc then [] else [Processed c]) ++ [ReadStat c; TrStat c]) mo ++
  [Info; SaveLock] ++ map Multi mo ++ map RGPart rg ++ [RGLock].
Definition cleanup_repaired (chrs mo rg:list N) (dropped_proc:bool) : list fname :=
  [RGLock; SaveLock] ++ (if dropped_proc then [] else map Processed chrs) ++ map Collected chrs ++
  flat_map (fun c => [Save c; Bamstat c; Groups c; ReadStat c; TrStat c]) mo ++ [Info] ++ map Multi mo ++ map RGPart rg.

Definition gen_cfg (setup_:list N) (mo rg:list N) (rgfile genedb grouped keep fc fp fcl:bool) : cfg :=
  let chrs_ := map N.of_nat (seq 0 (length mo)) in
  mkcfg setup_ rg rgfile chrs_ mo (gen_creation genedb grouped) (gen_dumps genedb grouped) (gen_merges genedb grouped) true keep
        (if keep then [] else if fcl then cleanup_repaired chrs_ mo rg fp else cleanup_current mo rg fp) fc fp false.

(* ------------------------------------------------------------------ verdicts at every crash point *)
Definition outcomes (cf:cfg) : list (nat * outcome * outcome) :=
  let clean := fs (clean_run cf) in
  map (fun k => (k, verdict clean (resume_run cf k false), verdict clean (resume_run cf k true))) (seq 1 (n_mutations cf)).
Definition tick_is (p:fname -> bool) (kind:N) (t:N * fname * list fname) : bool := (fst (fst t) =? kind) && p (snd (fst t)).
Fixpoint first_idx {A} (p:A -> bool) (l:list A) (i:nat) : nat := match l with [] => O | x::t => if p x then i else first_idx p t (S i) end.
Fixpoint last_idx {A} (p:A -> bool) (l:list A) (i:nat) (acc:nat) : nat := match l with [] => acc | x::t => last_idx p t (S i) (if p x then i else acc) end.
Definition is_part f := match f with Part _ _ => true | _ => false end.
Definition is_processed f := match f with Processed _ => true | _ => false end.
(* number (from 1) of the first removal of a per-chromosome output, and of the last removal of a _processed lock; 0 = none *)
Definition first_part_removal (cf:cfg) : nat := first_idx (tick_is is_part 2) (ticks cf) 1.
Definition last_processed_removal (cf:cfg) : nat := last_idx (tick_is is_processed 2) (ticks cf) 1 0.

(* p = number of mutations executed when the run dies *)
Definition executed (k:nat) (after:bool) : nat := if after then k else pred k.
Definition in_window (a b:nat) (k:nat) (after:bool) : bool :=
  let p := executed k after in negb (Nat.eqb a 0) && Nat.leb a p && (Nat.eqb b 0 || (Nat.ltb a b && Nat.ltb p b)).
Definition in_merge_window (cf:cfg) (k:nat) (after:bool) : bool := in_window (first_part_removal cf) (last_processed_removal cf) k after.

Definition oc_all (p:nat -> bool -> outcome -> bool) (cf:cfg) : bool :=
  forallb (fun e : nat * outcome * outcome => let '(k, ob, oa) := e in p k false ob && p k true oa) (outcomes cf).

Lemma oc_all_spec p cf : oc_all p cf = true ->
  forall k after, (1 <= k <= n_mutations cf)%nat -> p k after (outcome_of cf k after) = true.
Proof. unfold oc_all, outcomes. intros H k after Hk. rewrite forallb_forall in H.
  specialize (H (k, verdict (fs (clean_run cf)) (resume_run cf k false), verdict (fs (clean_run cf)) (resume_run cf k true))).
  cbn zeta in H. assert (I: In k (seq 1 (n_mutations cf))) by (apply in_seq; lia).
  specialize (H (in_map _ _ _ I)). cbn in H. apply andb_true_iff in H. destruct H as [H1 H2]. unfold outcome_of. destruct after; assumption. Qed.

(* the families the computed theorems range over: 1 to 3 chromosomes (for 2 and 3 also with a name order that differs from the
   processing order), with / without --genedb, without read groups / with a read-group file, with / without --keep_tmp *)
Definition orders : list (list N) := [[0]; [0;1]; [1;0]; [0;1;2]; [1;2;0]].
Definition family (fc fp fcl:bool) : list cfg :=
  flat_map (fun mo : list N => flat_map (fun genedb : bool => flat_map (fun grouped : bool => map (fun keep : bool =>
     gen_cfg [0;1;2;3] mo (if grouped then mo else []) grouped genedb grouped keep fc fp fcl) [false; true]) [false; true]) [false; true]) orders.

(* current code: every crash BEFORE a mutation up to the first removal of a per-chromosome file resumes to identical outputs *)
Definition ok_before_merge (cf:cfg) : bool :=
  let a := first_part_removal cf in oc_all (fun k after o => after || negb (Nat.leb k a) || outcome_eqb o Identical) cf.
(* current code: inside the window the resumed run FAILS - it never completes with different content *)
Definition window_fails (cf:cfg) : bool :=
  let a := first_part_removal cf in let b := last_processed_removal cf in
  oc_all (fun k after o => negb (in_window a b k after) || outcome_eqb o Fails) cf.
(* repaired code: every crash point, before or right after any mutation, resumes to identical outputs *)
Definition all_identical (cf:cfg) : bool := oc_all (fun _ _ o => outcome_eqb o Identical) cf.

Lemma family_current_ok_before_merge : forallb ok_before_merge (family false false false) = true.
Proof. vm_cast_no_check (eq_refl true). Qed.
Lemma family_current_window_fails : forallb window_fails (family false false false) = true.
Proof. vm_cast_no_check (eq_refl true). Qed.
Lemma family_repaired_all_identical : forallb all_identical (family true true true) = true.
Proof. vm_cast_no_check (eq_refl true). Qed.
(* each repair is needed: with any one of them missing some crash point of the family does not resume to identical outputs *)
(* --read_assignments <saves of a --keep_tmp run> (no read groups from a file there: that combination aborts, C15) *)
Definition as_reuse (cf:cfg) : cfg :=
  mkcfg (setup cf) [] false (chrs cf) (merge_order cf) (creation cf) (dumps cf) (merges cf) (has_models cf) false [] (fix_close cf) (fix_proc cf) true.
Definition reuse_family (fc fp:bool) : list cfg := map as_reuse (filter (fun cf => negb (keep_tmp cf) && negb (rg_file cf)) (family fc fp true)).
Lemma reuse_family_repaired_all_identical : forallb all_identical (reuse_family true true) = true.
Proof. vm_cast_no_check (eq_refl true). Qed.
(* without dropping the _processed locks (which sit next to the SUPPLIED prefix) the merge window is fatal in this mode too *)
Lemma reuse_family_window_fails : forallb window_fails (reuse_family true false) = true /\ forallb all_identical (reuse_family true false) = false.
Proof. split; [vm_cast_no_check (eq_refl true)|vm_cast_no_check (eq_refl false)]. Qed.

Lemma family_each_fix_needed :
  forallb all_identical (family false true true) = false /\ forallb all_identical (family true false true) = false /\
  forallb all_identical (family true true false) = false.
Proof. repeat split; vm_cast_no_check (eq_refl false). Qed.

Lemma outcome_eqb_spec a b : outcome_eqb a b = true -> a = b.
Proof. destruct a, b; cbn; intros H; try discriminate; reflexivity. Qed.
Lemma forallb_In {A} (p:A -> bool) l x : forallb p l = true -> In x l -> p x = true.
Proof. intros H I. rewrite forallb_forall in H. apply H, I. Qed.

(* ------------------------------------------------------------------ the computed theorems, as statements *)
Theorem resume_ok_before_merge_program : forall cf, In cf (family false false false) ->
  forall k, (1 <= k <= first_part_removal cf)%nat -> (k <= n_mutations cf)%nat -> outcome_of cf k false = Identical.
Proof. intros cf I k Hk Hn. pose proof (forallb_In _ _ _ family_current_ok_before_merge I) as H. unfold ok_before_merge in H.
  pose proof (oc_all_spec _ _ H k false ltac:(lia)) as E. cbn [orb] in E.
  destruct (Nat.leb k (first_part_removal cf)) eqn:L; [cbn in E; apply outcome_eqb_spec, E|apply PeanoNat.Nat.leb_gt in L; lia]. Qed.

Theorem resume_merge_refuted : forall cf, In cf (family false false false) ->
  forall k after, (1 <= k <= n_mutations cf)%nat -> in_merge_window cf k after = true -> outcome_of cf k after = Fails.
Proof. intros cf I k after Hk W. pose proof (forallb_In _ _ _ family_current_window_fails I) as H. unfold window_fails in H.
  pose proof (oc_all_spec _ _ H k after Hk) as E. cbn beta in E. unfold in_merge_window in W. rewrite W in E. apply outcome_eqb_spec, E. Qed.

Theorem resume_any_crash_point_small : forall cf, In cf (family true true true ++ reuse_family true true) ->
  forall k after, (1 <= k <= n_mutations cf)%nat -> outcome_of cf k after = Identical.
Proof. intros cf I k after Hk. apply outcome_eqb_spec. apply in_app_or in I. destruct I as [I|I].
  - exact (oc_all_spec _ _ (forallb_In _ _ _ family_repaired_all_identical I) k after Hk).
  - exact (oc_all_spec _ _ (forallb_In _ _ _ reuse_family_repaired_all_identical I) k after Hk). Qed.


(* ------------------------------------------------------------------ the two levels agree *)
(* the state of the operation-level clean run when stage 2 has finished (just before the first removal) gives every file of
   every unit exactly the content the unit-level run gives it *)
Definition first_removal (cf:cfg) : nat := first_idx (fun t : N * fname * list fname => fst (fst t) =? 2) (ticks cf) 1.
Definition units_state_matches (cf:cfg) : bool :=
  let x := crash_run cf (first_removal cf) false in
  let u := u_run_all (fun _ => None) (pipeline_units cf) in
  forallb (fun f => match u f, get (fs x) f with
                    | Some c, Some v => toks_eqb c (fcontent v) && negb (torn v)
                    | None, None => true
                    | _, _ => false
                    end) (flat_map (files fname content) (pipeline_units cf)).
Lemma family_units_state_matches : forallb units_state_matches (family false false false ++ family true true true) = true.
Proof. vm_cast_no_check (eq_refl true). Qed.

(* ------------------------------------------------------------------ the abstract program of ResumeFull.v is the operation-level program *)
(* lock creations and removals, in order: at the abstract level (erasing a file that is already gone is no event) ... *)
Fixpoint abs_events (l:list (pstep fname)) (gone:list fname) : list (N * fname) :=
  match l with
  | [] => []
  | SUnit _ u :: t => (0, p_lock fname u) :: abs_events t gone
  | SErase _ f :: t | SRemove _ f :: t => if existsb (fname_eqb f) gone then abs_events t gone else (2, f) :: abs_events t (f :: gone)
  | SFinal _ _ _ :: t => abs_events t gone
  end.
(* ... and in the mutation trace of the operation-level program *)
Definition op_events (cf:cfg) : list (N * fname) :=
  flat_map (fun t : N * fname * list fname => let k := fst (fst t) in let f := snd (fst t) in
            if (k =? 2) || ((k =? 0) && is_lock f) then [(k, f)] else []) (ticks cf).
Definition data_of_cleanup (cf:cfg) : list fname := filter (fun f => negb (is_lock f)) (cleanup cf).
Definition ev_eqb (a b:N * fname) : bool := (fst a =? fst b) && fname_eqb (snd a) (snd b).
Fixpoint evs_eqb (a b:list (N * fname)) : bool := match a, b with [], [] => true | x::s, y::t => ev_eqb x y && evs_eqb s t | _, _ => false end.
(* for configurations with the clean-up: same lock creations, same removals, same order; and the side conditions of
   resume_any_crash_point hold *)
Definition abstract_matches (cf:cfg) : bool :=
  keep_tmp cf || (evs_eqb (abs_events (steps fname (repaired_prog cf (data_of_cleanup cf))) []) (op_events cf) && layout_ok cf && rg_ok cf &&
                  forallb (fun f => existsb (fun u => existsb (fname_eqb f) (p_outs fname u)) (p_units cf)) (data_of_cleanup cf)).
Lemma family_abstract_matches : forallb abstract_matches (family true true true) = true.
Proof. vm_cast_no_check (eq_refl true). Qed.

(* ------------------------------------------------------------------ a fresh start in a folder that holds the leftovers of a killed earlier run *)
Definition n_over (early:bool) (s0:fsys) (cf:cfg) : nat := length (tlog (run_over early s0 cf)).
(* the uninterrupted fresh run is not influenced by the leftovers *)
Definition uninterrupted_ok (cf:cfg) (s0:fsys) : bool := outcome_eqb (verdict (fs (clean_run cf)) (run_over false s0 cf)) Identical.
(* every kill point of the fresh run from its `from`-th mutation on (its parameters are saved by then) resumes to the outputs of a clean run *)
Definition over_all (early:bool) (cf:cfg) (s0:fsys) (from:nat) : bool :=
  let clean := fs (clean_run cf) in
  forallb (fun k => outcome_eqb (verdict clean (resume_over early s0 cf k false)) Identical &&
                    outcome_eqb (verdict clean (resume_over early s0 cf k true)) Identical) (seq from (n_over early s0 cf + 1 - from)).
Definition cfA : cfg := gen_cfg [0;1;2;3] [0] [] false true false false true true true.
Definition cfB : cfg := gen_cfg [0;1;2;3] [1;0] [1;0] true true true false true true true.
Definition both (p:nat -> bool -> bool) (l:list nat) : bool := forallb (fun k => p k false && p k true) l.

(* leftovers of the earlier run killed at ANY of its mutation points (cfA) / at the end of stage 2, in the merge phase and in the clean-up (cfB) *)
Lemma fresh_start_uninterrupted :
  both (fun k1 a1 => uninterrupted_ok cfA (leftovers cfA k1 a1)) (seq 1 (n_mutations cfA)) &&
  both (fun k1 a1 => uninterrupted_ok cfB (leftovers cfB k1 a1)) (seq 1 (n_mutations cfB)) = true.
Proof. vm_cast_no_check (eq_refl true). Qed.
Lemma fresh_start_early_cleaning_ok :
  both (fun k1 a1 => over_all true cfA (leftovers cfA k1 a1) 5) (seq 1 (n_mutations cfA)) &&
  both (fun k1 a1 => over_all true cfB (leftovers cfB k1 a1) 5) [first_removal cfB; first_part_removal cfB + 2; n_mutations cfB - 4]%nat = true.
Proof. vm_cast_no_check (eq_refl true). Qed.
(* current code: killed right after .params was rewritten (mutation 5) the resumed run trusts the stale locks and completes with stale content *)
Lemma fresh_start_current_refuted :
  verdict (fs (clean_run cfA)) (resume_over false (leftovers cfA (first_removal cfA) false) cfA 5 false) = Differs /\
  over_all false cfA (leftovers cfA (first_removal cfA) false) 5 = false.
Proof. split; [vm_cast_no_check (eq_refl Differs)|vm_cast_no_check (eq_refl false)]. Qed.
