(* IdsMultiSpec.v — decidable forms of the cross-chromosome statements of IdsMulti.v, evaluated by the check on the
   implementation's output (harness/props/c17.py, correspondences "exon-ids-across-chromosomes", "distributors-across-chromosomes"). *)
From Coq Require Import ZArith NArith List Bool Lia ZifyBool.
From IQ Require Import CorrSupport Ids IdsSpec IdsMulti.
Import ListNotations. Open Scope Z_scope.

(* ------------------------------------------------------------------ FeatureIdStorage, one per chromosome, one database *)
(* case: ((database, [(chromosome, keys queried of its storage)]), ids returned per chromosome) *)
Definition cross_storage_check (c:(list db_exon * list (str * list key)) * list (list str)) : bool :=
  let '(db, qs) := fst c in list_eqb strs_eqb (map (fun q => snd (run get_id (storage_init true (fst q) db) (snd q))) qs) (snd c).
Definition generated_for (c v:str) : bool := match is_exon_id_of c v with Some n => 0 <? n | None => false end.
Definition cross_clean_b (c1 c2:str) (fs1 fs2:list ref_feature) : bool :=
  forallb (fun v => negb (smem v (ref_ids fs2))) (ref_ids fs1) &&
  forallb (fun v => negb (generated_for c1 v)) (ref_ids fs2) && forallb (fun v => negb (generated_for c2 v)) (ref_ids fs1).
Definition rows_of (chr:str) (ks:list key) (ids:list str) : list (key * str) := filter (fun r => str_eqb (key_chr (fst r)) chr) (combine ks ids).
(* ids returned for keys of two different chromosomes differ whenever cross_clean holds of the two chromosomes' reference features *)
Definition cross_storage_prop (c:(list db_exon * list (str * list key)) * list (list str)) : bool :=
  let '(db, qs) := fst c in
  let rows := combine qs (snd c) in
  Nat.eqb (length qs) (length (snd c)) &&
  forallb (fun a => forallb (fun b =>
     let c1 := fst (fst a) in let c2 := fst (fst b) in
     str_eqb c1 c2 || negb (cross_clean_b c1 c2 (ref_features c1 db) (ref_features c2 db)) ||
     forallb (fun ra => forallb (fun rb => negb (str_eqb (snd ra) (snd rb))) (rows_of c2 (snd (fst b)) (snd b))) (rows_of c1 (snd (fst a)) (snd a))) rows) rows.
(* for the coverage counter: the hypothesis holds for some pair of different chromosomes *)
Definition cross_storage_hyp (db:list db_exon) (chrs:list str) : bool :=
  existsb (fun c1 => existsb (fun c2 => negb (str_eqb c1 c2) && cross_clean_b c1 c2 (ref_features c1 db) (ref_features c2 db)) chrs) chrs.

Lemma digits_lack sep s : is_digit sep = false -> forallb is_digit s = true -> lacks sep s = true.
Proof. intros Hs. induction s as [|a s IH]; simpl; intros H; [reflexivity|]. apply andb_prop in H. destruct H as [H1 H2]. rewrite IH by exact H2.
  destruct (a =? sep) eqn:E; [assert (a = sep) by lia; subst; congruence|reflexivity]. Qed.
Lemma digits_num_print_dec n : 0 <= n -> digits_num (print_dec n) = Some n.
Proof. intros Hn. unfold digits_num. destruct (print_dec n) as [|d r] eqn:E; [exfalso; eapply print_dec_nonnil; eauto|]. rewrite <- E, print_dec_digits. apply py_int_print_dec, Hn. Qed.
Lemma is_exon_id_of_exon_id c n : 0 <= n -> is_exon_id_of c (exon_id c n) = Some n.
Proof. intros Hn. unfold is_exon_id_of. unfold exon_id at 1. rewrite last_field_app by (apply digits_lack; [reflexivity|apply print_dec_digits]).
  rewrite digits_num_print_dec by exact Hn. rewrite str_eqb_refl. reflexivity. Qed.
(* the decidable condition implies the hypothesis of C17_exon_ids_across_chromosomes *)
Theorem cross_clean_b_sound c1 c2 fs1 fs2 : cross_clean_b c1 c2 fs1 fs2 = true -> cross_clean c1 c2 fs1 fs2.
Proof. unfold cross_clean_b. rewrite !andb_true_iff, !forallb_forall. intros ((A & B) & C). split; [|split].
  - intros v H1 H2. specialize (A v H1). apply negb_true_iff in A. apply smem_In in H2. congruence.
  - intros n Hn K. specialize (B _ K). unfold generated_for in B. rewrite is_exon_id_of_exon_id in B by lia. apply negb_true_iff in B. lia.
  - intros n Hn K. specialize (C _ K). unfold generated_for in C. rewrite is_exon_id_of_exon_id in C by lia. apply negb_true_iff in C. lia. Qed.
Print Assumptions cross_clean_b_sound.

(* ------------------------------------------------------------------ ExcludingIdDistributor, one per chromosome, one database *)
(* case: ((database, [(chromosome, number of increment() calls)]), numbers issued per chromosome) *)
Definition cross_distributor_check (c:(list db_feature * list (str * Z)) * list (list Z)) : bool :=
  let '(db, qs) := fst c in list_eqb zs_eqb (map (fun q => issue (db_forbidden true (fst q) db) 0 (Z.to_nat (snd q))) qs) (snd c).
(* ids of the generated shape sit on the chromosome they name (IdsMulti.home_ok, per database feature) *)
Definition home_tr_b (sid id:str) : bool :=
  match parse_transcript_id id with Some (n, c, nic) => negb (str_eqb (transcript_id n c nic) id) || str_eqb c sid | None => true end.
Definition home_gene_b (sid id:str) : bool :=
  if starts_with novel_gene_prefix id then
    match digits_num (last_field 95 id) with
    | Some n => let c := drop_last_n (Datatypes.S (length (last_field 95 id))) (skipn (length novel_gene_prefix) id) in
                negb (str_eqb (novel_gene_id c n) id) || str_eqb c sid
    | None => true
    end
  else true.
Definition home_ok_b (db:list db_feature) : bool :=
  forallb (fun f => let '(sid, kind, id) := f in
     if kind =? 0 then home_gene_b sid id else if (kind =? 1) || (kind =? 2) then home_tr_b sid id else true) db.
(* no id built from an issued number (either suffix) is a gene / transcript id of the database, on ANY chromosome *)
Definition cross_distributor_prop (c:(list db_feature * list (str * Z)) * list (list Z)) : bool :=
  let '(db, qs) := fst c in
  Nat.eqb (length qs) (length (snd c)) &&
  (negb (home_ok_b db) ||
   forallb (fun qi => let chr := fst (fst qi) in
      forallb (fun x => (0 <? x) &&
        forallb (fun f => let '(sid, kind, id) := f in
           if kind =? 0 then negb (str_eqb id (novel_gene_id chr x))
           else if (kind =? 1) || (kind =? 2) then negb (str_eqb id (transcript_id x chr true)) && negb (str_eqb id (transcript_id x chr false))
           else true) db) (snd qi)) (combine qs (snd c))).

Example home_ok_b_examples :
  home_ok_b [(chrA, 1, transcript_id 1 chrA true); (chrA, 0, novel_gene_id chrA 2); (chrB, 1, ENST1); (chrB, 3, transcript_id 1 chrA true)] = true /\
  home_ok_b [(chrA, 1, transcript_id 1 chrB true)] = false /\ home_ok_b [(chrA, 0, novel_gene_id chrB 2)] = false /\
  cross_clean_b chrA chrB [(100, 200, plus, Some (exon_id chrB 1))] [(500, 600, plus, Some ENSE7)] = false /\
  cross_clean_b chrA chrB [(100, 200, plus, Some (exon_id chrA 1))] [(500, 600, plus, Some (exon_id chrB 1))] = true.
Proof. vm_compute. repeat split; reflexivity. Qed.
