(* C01: decision-layer theorems ("layer 1") of the consistent path of LongReadAssigner.assign_to_isoform, proved on the executable
   model AssignerMatch.v for ANY instantiation of the abstracted score arithmetic.
   Every hypothesis is about a value the model computes (read profiles, candidate lists, event lists); a second file derives these
   hypotheses from the geometry of the read and of the isoform.
     1. clean_profiles_reach_consistent        profiles without -1 / 0 entries send assign to match_consistent
     2. unique_compatible_reports_T(_unspliced) one profile-compatible isoform with consistent events: (unique, [T])
     3. compatible_reports_T(_unspliced)       several compatible isoforms, T survives the tie-breaks: consistent type, T reported
     4. match_events_consistent_of_parts       the events of T are consistent when match event, elongation events and polyA are
     5. major_blocks_consistent_path           match_consistent only ever returns a consistent assignment type, without major events
     6. resolve_keeps_best_Q                   exact rational scores: the best-scoring isoform with a NON-NEGATIVE score survives
                                               resolve_by_nucleotide_score (refuted for scores in [-1/2, 0)) *)
From Coq Require Import ZArith NArith QArith List Bool Lia ZifyBool.
From IQ Require Import CorrSupport Intervals Junctions JunctionsProofs Assigner AssignerEnds AssignerPath AssignerMatch.
From IQ.gen Require Import Tables Prims.
Import ListNotations. Open Scope Z_scope.

(* ---------------------------------------------------------------- generic list / outcome lemmas *)
Lemma filter_sub {A} (f:A -> bool) l : incl (filter f l) l.
Proof. intros x Hx. apply filter_In in Hx. tauto. Qed.

Lemma omap_ext {A B} (f h:A -> outcome B) l : (forall x, f x = h x) -> omap f l = omap h l.
Proof. intros H. induction l as [|a t IH]; [reflexivity|]. cbn [omap]. rewrite H, IH. reflexivity. Qed.

Lemma omap_defined {A B} (f:A -> outcome B) l : (forall x, In x l -> exists y, f x = Ok y) -> exists ys, omap f l = Ok ys.
Proof. induction l as [|a t IH]; intros H; [exists []; reflexivity|].
  destruct (H a (or_introl eq_refl)) as [y Hy]. destruct IH as [ys Hys]; [intros x Hx; apply H; right; exact Hx|].
  exists (y :: ys). cbn [omap]. rewrite Hy, Hys. reflexivity. Qed.

Lemma omap_inv {A B} (f:A -> outcome B) l ys : omap f l = Ok ys -> Forall2 (fun x y => f x = Ok y) l ys.
Proof. revert ys. induction l as [|a t IH]; intros ys H.
  - injection H as <-. constructor.
  - cbn [omap] in H. destruct (f a) as [y|k] eqn:Ea; [|discriminate]. destruct (omap f t) as [r|k] eqn:Et; [|discriminate].
    injection H as <-. constructor; [exact Ea|apply IH; reflexivity]. Qed.

(* ---------------------------------------------------------------- classification facts *)
Definition classified (t:MES) : bool := ev_consistent t || ev_minor t || ev_major t.

Lemma classify_all_cons amb tys : (forall t, In t tys -> ev_consistent t = true) ->
  classify amb tys = if amb then RAT_ambiguous else RAT_unique.
Proof. intros H. unfold classify. replace (forallb ev_consistent tys) with true; [reflexivity|]. symmetry. apply forallb_forall. exact H. Qed.

(* on classified event types classify_assignment never answers `noninformative`: consistent or inconsistent *)
Lemma classify_classified amb tys : (forall t, In t tys -> classified t = true) ->
  rmem (classify amb tys) RAT_is_inconsistent = false -> type_consistent (classify amb tys) = true.
Proof. intros Hc. unfold classify. destruct (forallb ev_consistent tys) eqn:E1; [destruct amb; reflexivity|].
  destruct (existsb ev_major tys) eqn:E2.
  - destruct amb; [discriminate|]. destruct (existsb ev_intronic tys); discriminate.
  - destruct (existsb ev_minor tys) eqn:E3; [destruct amb; reflexivity|]. intros _. exfalso.
    assert (F: forallb ev_consistent tys = true).
    { apply forallb_forall. intros t Ht. specialize (Hc t Ht). unfold classified in Hc.
      assert (ev_major t = false).
      { destruct (ev_major t) eqn:M; [|reflexivity]. assert (existsb ev_major tys = true) by (apply existsb_exists; exists t; split; assumption). congruence. }
      assert (ev_minor t = false).
      { destruct (ev_minor t) eqn:M; [|reflexivity]. assert (existsb ev_minor tys = true) by (apply existsb_exists; exists t; split; assumption). congruence. }
      rewrite H, H0 in Hc. destruct (ev_consistent t); [reflexivity|discriminate]. }
    congruence. Qed.

Lemma major_classified_inconsistent amb tys : existsb ev_major tys = true -> rmem (classify amb tys) RAT_is_inconsistent = true.
Proof. intros H. unfold classify.
  assert (E: forallb ev_consistent tys = false).
  { destruct (forallb ev_consistent tys) eqn:E; [|reflexivity]. rewrite forallb_forall in E. apply existsb_exists in H. destruct H as [x [Hx Hm]].
    rewrite (consistent_not_major x (E x Hx)) in Hm. discriminate. }
  rewrite E, H. destruct amb; [reflexivity|]. destruct (existsb ev_intronic tys); reflexivity. Qed.

Lemma elongation_types_classified : forallb classified elongation_type_list = true. Proof. vm_compute. reflexivity. Qed.
Lemma polya_new_types_classified : forallb classified polya_new_types = true. Proof. vm_compute. reflexivity. Qed.

(* ---------------------------------------------------------------- add_subclassification *)
Lemma add_sub_In l e x : In x (add_sub l e) -> In x l \/ x = e.
Proof. unfold add_sub. destruct l as [|a [|b l']].
  - cbn. intros [H|[]]. right. symmetry. exact H.
  - destruct (is_none a || MES_eqb (x_type a) MES_undefined).
    + intros [H|[]]. right. symmetry. exact H.
    + intros H. apply in_app_or in H. destruct H as [H|[H|[]]]; [left; exact H|right; symmetry; exact H].
  - intros H. apply in_app_or in H. destruct H as [H|[H|[]]]; [left; exact H|right; symmetry; exact H]. Qed.
Lemma add_sub_nonempty l e : add_sub l e <> [].
Proof. unfold add_sub. destruct l as [|a [|b l']]; [discriminate| |discriminate].
  destruct (is_none a || MES_eqb (x_type a) MES_undefined); discriminate. Qed.
(* the list built by check_read_ends only contains the match event and elongation events *)
Lemma add_sub_fold_In el : forall acc x, In x (fold_left add_sub el acc) -> In x acc \/ In x el.
Proof. induction el as [|e t IH]; intros acc x H; [left; exact H|]. cbn [fold_left] in H. apply IH in H. destruct H as [H|H].
  - apply add_sub_In in H. destruct H as [H| ->]; [left; exact H|right; left; reflexivity].
  - right. right. exact H. Qed.
Lemma add_sub_fold_nonempty el : forall acc, acc <> [] -> fold_left add_sub el acc <> [].
Proof. induction el as [|e t IH]; intros acc H; [exact H|]. cbn [fold_left]. apply IH. apply add_sub_nonempty. Qed.

(* ---------------------------------------------------------------- the match event *)
Lemma splice_match_event_cases ri r t ev : splice_match_event ri r t = Ok ev ->
  In ev [MES_mono_exon_match; MES_fsm; MES_ism_internal; MES_ism_left; MES_ism_right; MES_none_].
Proof. unfold splice_match_event. destruct ((length (rp ri) =? 0)%nat || (length (i_introns t) =? 0)%nat).
  - intros H. injection H as <-. cbn. tauto.
  - destruct (intron_span t) as [s|k]; [|discriminate]. destruct (py_contains (r_region r) s).
    + intros H. injection H as <-. cbn. tauto.
    + cbv zeta. destruct (fst s <? fst (r_region r)); destruct (snd s >? snd (r_region r)); cbn [andb]; intros H; injection H as <-; cbn; tauto. Qed.
Lemma splice_match_event_consistent ri r t ev : splice_match_event ri r t = Ok ev -> ev_consistent ev = true.
Proof. intros H. apply splice_match_event_cases in H. cbn [In] in H.
  destruct H as [<-|[<-|[<-|[<-|[<-|[<-|[]]]]]]]; vm_compute; reflexivity. Qed.
Lemma unspliced_match_event_consistent t : ev_consistent (unspliced_match_event t) = true.
Proof. unfold unspliced_match_event. destruct (length (i_exons t) =? 1)%nat; vm_compute; reflexivity. Qed.

(* ---------------------------------------------------------------- the polyA verification is defined in the three situations of polya_ok *)
Lemma verify_defined P strand iso rex pa evs : polya_ok P strand iso pa -> exists out, verify_read_ends P true strand iso rex pa evs = Ok out.
Proof. intros [->|[[-> [Hi [Hint [Hext Hd]]]]|[-> [Hi [Hint [Hext Hd]]]]]].
  - rewrite verify_no_polya_identity. eexists. reflexivity.
  - rewrite (polya_at_isoform_end_consistent P iso rex pa _ Hi Hint Hext Hd). eexists. reflexivity.
  - rewrite (polyt_at_isoform_start_consistent P iso rex pa _ Hi Hint Hext Hd). eexists. reflexivity. Qed.

(* ================================================================ layer 1 *)
Section L1.
Variable P : params.
Variable absd : Z.
Variable arm : ARM.
Variable SC : Type.
Variable sc_make : (Z * Z) -> (Z * Z) -> SC.
Variable sc_lt : SC -> SC -> bool.
Variable sc_ge_min : SC -> bool.
Variable sc_keeps : SC -> SC -> bool.
Variable select_min : list (Z * list xev) -> option (list Z).

Notation A := (assign P absd arm SC sc_make sc_lt sc_ge_min sc_keeps select_min).
Notation MC := (match_consistent P arm SC sc_make sc_lt sc_ge_min sc_keeps).
Notation MI := (match_inconsistent P SC sc_make sc_lt sc_ge_min sc_keeps select_min).
Notation RES := (resolve P SC sc_make sc_lt sc_ge_min sc_keeps).

(* the read's profiles send assign_to_isoform to match_consistent *)
Definition profiles_clean (ri rs:rprof) : bool :=
  negb (forallb (fun v => negb (v =? 1)) (rp rs) || forallb (fun v => (v =? 0) || (v =? -2)) (gp rs)) &&
  negb (has_v (-1) (rp ri) || has_v (-1) (rp rs)) && negb (has_v 0 (rp ri) || has_v 0 (rp rs)).
(* the isoforms whose profiles are compatible with the read: containing, overlapping, intron profile equal in the read's range *)
Definition compatible_ids (g:gene) (ri rs:rprof) (r:read) : list Z :=
  find_matching (intron_prof g) g ri (find_overlapping g rs (find_containing P g r (ids_of g))).
(* the events the consistent path attaches to isoform t: match event, elongation events (add_subclassification), polyA verification *)
Definition consistent_events (g:gene) (ri rs:rprof) (r:read) (t:isof) (spliced:bool) : outcome (list xev) :=
  match (if spliced then splice_match_event ri r t else Ok (unspliced_match_event t)) with
  | Raises k => Raises k
  | Ok ev => match elong P g rs r t with
             | Raises k => Raises k
             | Ok el => verify P r t (fold_left add_sub el [xe ev 0])
             end
  end.
Definition events_all_consistent (o:outcome (list xev)) : Prop :=
  exists evs, o = Ok evs /\ forall e, In e evs -> ev_consistent (x_type e) = true.

(* ---------------------------------------------------------------- 1. unfolding of assign *)
Theorem clean_profiles_reach_consistent : forall g r ri rs,
  g_isos g <> [] -> intron_rprof P absd g r = Ok ri -> split_rprof P g r = Ok rs -> profiles_clean ri rs = true ->
  A g r = match MC g ri rs r with Ok (Some res) => Ok res | Ok None => MI g ri rs r | Raises k => Raises k end.
Proof. intros g r ri rs Hg Hi Hs Hc. unfold assign. destruct (g_isos g); [contradiction|]. rewrite Hi, Hs. unfold profiles_clean in Hc.
  apply andb_prop in Hc. destruct Hc as [Hc H3]. apply andb_prop in Hc. destruct Hc as [H1 H2].
  apply negb_true_iff in H1, H2, H3. rewrite H1, H2, H3. reflexivity. Qed.

(* ---------------------------------------------------------------- match_consistent in two stages: selection, then events *)
Definition any_fsm (g:gene) (r:read) : list Z -> outcome bool :=
  fix any_fsm (l:list Z) : outcome bool :=
    match l with [] => Ok false
    | id :: t => match is_fsm r (find_iso g id) with Ok true => Ok true | Ok false => any_fsm t | Raises k => Raises k end end.

(* the finally matched isoforms and the spliced flag, as a function of the compatible isoforms *)
Definition matched (g:gene) (ri rs:rprof) (r:read) : outcome (list Z * bool) :=
  let consistent := compatible_ids g ri rs r in
  if (length (rp ri) =? 0)%nat then
    (if (1 <? Z.of_nat (length consistent)) && negb (match arm with ARM_none_ => true | _ => false end)
     then match RES true false r g consistent with Ok l => Ok (l, false) | Raises k => Raises k end
     else Ok (consistent, false))
  else
    let m1 := if (1 <? Z.of_nat (length consistent))
              then match find_matching (split_prof g) g rs consistent with [] => consistent | em => em end
              else consistent in
    if (1 <? Z.of_nat (length m1)) then
      match (match arm with
             | ARM_all_ => Ok true
             | ARM_monoexon_and_fsm => any_fsm g r m1
             | _ => Ok false end) with
      | Raises k => Raises k
      | Ok true => match RES true false r g m1 with Ok l => Ok (l, true) | Raises k => Raises k end
      | Ok false => Ok (m1, true)
      end
    else Ok (m1, true).

Definition ev_of (g:gene) (ri rs:rprof) (r:read) (spliced:bool) (id:Z) : outcome (Z * list xev) :=
  match consistent_events g ri rs r (find_iso g id) spliced with Ok evs => Ok (id, evs) | Raises k => Raises k end.

Definition finish (g:gene) (ri rs:rprof) (r:read) (m:outcome (list Z * bool)) : outcome (option result) :=
  match m with
  | Raises k => Raises k
  | Ok ([], _) => Ok None
  | Ok (ids, spliced) =>
    match omap (ev_of g ri rs r spliced) ids with
    | Raises k => Raises k
    | Ok ms => let ty := classify (1 <? Z.of_nat (length ms)) (types_of ms) in
               if rmem ty RAT_is_inconsistent then Ok None else Ok (Some (report ty ms))
    end
  end.

Lemma MC_unfold g ri rs r : MC g ri rs r = finish g ri rs r (matched g ri rs r).
Proof. unfold match_consistent, finish, matched, compatible_ids, any_fsm. cbv zeta.
  destruct (find_containing P g r (ids_of g)) as [|c0 cs] eqn:Ec.
  - cbn. destruct (length (rp ri) =? 0)%nat; reflexivity.
  - destruct (find_overlapping g rs (c0 :: cs)) as [|o0 os] eqn:Eo.
    + cbn. destruct (length (rp ri) =? 0)%nat; reflexivity.
    + match goal with |- match ?m with _ => _ end = _ => destruct m as [[ids sp]|k] end; [|reflexivity].
      destruct ids as [|i0 ids]; [reflexivity|].
      match goal with |- match omap ?F ?l with _ => _ end = _ => rewrite (omap_ext F (ev_of g ri rs r sp) l) end; [reflexivity|].
      intros id. unfold ev_of, consistent_events.
      destruct (if sp then splice_match_event ri r (find_iso g id) else Ok (unspliced_match_event (find_iso g id))) as [ev|k]; [|reflexivity].
      destruct (elong P g rs r (find_iso g id)) as [el|k]; reflexivity. Qed.

Lemma ev_of_inv g ri rs r sp ids : forall ms, omap (ev_of g ri rs r sp) ids = Ok ms ->
  map fst ms = ids /\ forall m, In m ms -> In (fst m) ids /\ consistent_events g ri rs r (find_iso g (fst m)) sp = Ok (snd m).
Proof. induction ids as [|a t IH]; intros ms H.
  - injection H as <-. split; [reflexivity|intros m []].
  - cbn [omap] in H. unfold ev_of at 1 in H. destruct (consistent_events g ri rs r (find_iso g a) sp) as [evs|k] eqn:Ea; [|discriminate].
    destruct (omap (ev_of g ri rs r sp) t) as [rr|k] eqn:Et; [|discriminate]. injection H as <-.
    destruct (IH rr eq_refl) as [I1 I2]. split; [cbn [map fst]; rewrite I1; reflexivity|].
    intros m [<-|Hm]; [cbn [fst snd]; split; [left; reflexivity|exact Ea]|]. destruct (I2 m Hm) as [J1 J2]. split; [right; exact J1|exact J2]. Qed.

(* all finally matched isoforms have consistent events only: the path answers unique / ambiguous and reports exactly these isoforms *)
Lemma finish_consistent g ri rs r ids sp : ids <> [] ->
  (forall id, In id ids -> events_all_consistent (consistent_events g ri rs r (find_iso g id) sp)) ->
  exists ms, finish g ri rs r (Ok (ids, sp)) = Ok (Some ((if 1 <? Z.of_nat (length ids) then RAT_ambiguous else RAT_unique), ms)) /\ map fst ms = ids.
Proof. intros Hne Hev.
  destruct (omap_defined (ev_of g ri rs r sp) ids) as [ms Hms].
  { intros id Hid. destruct (Hev id Hid) as [evs [He _]]. exists (id, evs). unfold ev_of. rewrite He. reflexivity. }
  destruct (ev_of_inv _ _ _ _ _ _ _ Hms) as [Hfst Hall].
  assert (Hc: forall t, In t (types_of ms) -> ev_consistent t = true).
  { intros t Ht. unfold types_of in Ht. apply in_flat_map in Ht. destruct Ht as [m [Hm Ht]]. apply in_map_iff in Ht. destruct Ht as [e [<- He]].
    destruct (Hall m Hm) as [Hid Hce]. destruct (Hev _ Hid) as [evs [He1 He2]]. rewrite Hce in He1. injection He1 as <-. exact (He2 e He). }
  exists (map (fun m => (fst m, map x_type (snd m))) ms). split.
  - unfold finish. destruct ids as [|i0 ids']; [contradiction|]. rewrite Hms. cbv zeta. rewrite (classify_all_cons _ _ Hc).
    rewrite <- Hfst, map_length. destruct (1 <? Z.of_nat (length ms)); reflexivity.
  - rewrite map_map. exact Hfst. Qed.

(* ---------------------------------------------------------------- 2. one compatible isoform *)
Lemma unique_matched g ri rs r tid : compatible_ids g ri rs r = [tid] ->
  matched g ri rs r = Ok ([tid], negb (length (rp ri) =? 0)%nat).
Proof. intros H. unfold matched. rewrite H. destruct (length (rp ri) =? 0)%nat; reflexivity. Qed.

Lemma finish_single g ri rs r tid sp evs : consistent_events g ri rs r (find_iso g tid) sp = Ok evs ->
  (forall e, In e evs -> ev_consistent (x_type e) = true) ->
  finish g ri rs r (Ok ([tid], sp)) = Ok (Some (RAT_unique, [(tid, map x_type evs)])).
Proof. intros He Hc. unfold finish. cbn [omap]. unfold ev_of. rewrite He. cbv zeta.
  rewrite (classify_all_cons _ (types_of [(tid, evs)])).
  - reflexivity.
  - intros t Ht. unfold types_of in Ht. cbn [flat_map snd] in Ht. rewrite app_nil_r in Ht. apply in_map_iff in Ht.
    destruct Ht as [e [<- Hin]]. exact (Hc e Hin). Qed.

Theorem unique_compatible_reports_T : forall g r ri rs tid t,
  g_isos g <> [] -> intron_rprof P absd g r = Ok ri -> split_rprof P g r = Ok rs -> profiles_clean ri rs = true ->
  rp ri <> [] -> compatible_ids g ri rs r = [tid] -> t = find_iso g tid ->
  events_all_consistent (consistent_events g ri rs r t true) ->
  exists evs, consistent_events g ri rs r t true = Ok evs /\ A g r = Ok (RAT_unique, [(tid, map x_type evs)]).
Proof. intros g r ri rs tid t Hg Hi Hs Hc Hrp Hcomp -> [evs [He Hall]]. exists evs. split; [exact He|].
  rewrite (clean_profiles_reach_consistent g r ri rs Hg Hi Hs Hc), MC_unfold, (unique_matched _ _ _ _ _ Hcomp).
  replace (length (rp ri) =? 0)%nat with false by (destruct (rp ri); [contradiction|reflexivity]). cbn [negb].
  rewrite (finish_single _ _ _ _ _ _ _ He Hall). reflexivity. Qed.

Theorem unique_compatible_reports_T_unspliced : forall g r ri rs tid t,
  g_isos g <> [] -> intron_rprof P absd g r = Ok ri -> split_rprof P g r = Ok rs -> profiles_clean ri rs = true ->
  rp ri = [] -> compatible_ids g ri rs r = [tid] -> t = find_iso g tid ->
  events_all_consistent (consistent_events g ri rs r t false) ->
  exists evs, consistent_events g ri rs r t false = Ok evs /\ A g r = Ok (RAT_unique, [(tid, map x_type evs)]).
Proof. intros g r ri rs tid t Hg Hi Hs Hc Hrp Hcomp -> [evs [He Hall]]. exists evs. split; [exact He|].
  rewrite (clean_profiles_reach_consistent g r ri rs Hg Hi Hs Hc), MC_unfold, (unique_matched _ _ _ _ _ Hcomp).
  rewrite Hrp. cbn [length Nat.eqb negb].
  rewrite (finish_single _ _ _ _ _ _ _ He Hall). reflexivity. Qed.

(* ---------------------------------------------------------------- 3. several compatible isoforms *)
Lemma any_fsm_defined g r l : (forall id, In id l -> exists b, is_fsm r (find_iso g id) = Ok b) -> exists b, any_fsm g r l = Ok b.
Proof. induction l as [|a t IH]; intros H; [exists false; reflexivity|].
  destruct (H a (or_introl eq_refl)) as [b Hb]. destruct IH as [b' Hb']; [intros id Hid; apply H; right; exact Hid|].
  change (any_fsm g r (a :: t)) with (match is_fsm r (find_iso g a) with Ok true => Ok true | Ok false => any_fsm g r t | Raises k => Raises k end).
  rewrite Hb. destruct b; [exists true; reflexivity|exists b'; exact Hb']. Qed.

Lemma scores_of_fst jac r g ids : forall sc, scores_of P SC sc_make jac r g ids = Ok sc -> map fst sc = ids.
Proof. induction ids as [|a t IH]; intros sc H.
  - injection H as <-. reflexivity.
  - cbn [scores_of] in H. destruct (score_of P SC sc_make jac r (find_iso g a)) as [s|k]; destruct (scores_of P SC sc_make jac r g t) as [l|k']; try discriminate.
    injection H as <-. cbn [map fst]. rewrite (IH l eq_refl). reflexivity. Qed.

(* resolve_by_nucleotide_score only filters its input *)
Lemma resolve_sub jac f0 r g l l' : RES jac f0 r g l = Ok l' -> incl l' l.
Proof. unfold resolve. destruct l as [|a t]; [intros H; injection H as <-; apply incl_refl|].
  destruct (scores_of P SC sc_make jac r g (a :: t)) as [sc|k] eqn:E; [|discriminate].
  apply scores_of_fst in E. destruct sc as [|[i0 s0] sc']; [intros H; injection H as <-; intros x []|].
  cbv zeta. set (flt := filter _ _). intros H. injection H as <-. rewrite <- E. intros x Hx. apply in_map_iff in Hx. destruct Hx as [y [<- Hy]].
  apply in_map. unfold flt in Hy. exact (filter_sub _ _ _ Hy). Qed.

Lemma matched_spliced g ri rs r tid : rp ri <> [] -> In tid (compatible_ids g ri rs r) ->
  (let em := find_matching (split_prof g) g rs (compatible_ids g ri rs r) in em = [] \/ In tid em) ->
  (forall l, incl l (compatible_ids g ri rs r) -> In tid l -> exists l', RES true false r g l = Ok l' /\ In tid l') ->
  (forall id, In id (compatible_ids g ri rs r) -> exists b, is_fsm r (find_iso g id) = Ok b) ->
  exists ids, matched g ri rs r = Ok (ids, true) /\ In tid ids /\ incl ids (compatible_ids g ri rs r).
Proof. intros Hrp Hin Hexon Hscore Hfsm. unfold matched. cbv zeta in *.
  replace (length (rp ri) =? 0)%nat with false by (destruct (rp ri); [contradiction|reflexivity]).
  set (C := compatible_ids g ri rs r) in *.
  set (m1 := if 1 <? Z.of_nat (length C) then match find_matching (split_prof g) g rs C with [] => C | em => em end else C).
  assert (Hm1: In tid m1 /\ incl m1 C).
  { unfold m1. destruct (1 <? Z.of_nat (length C)); [|split; [exact Hin|apply incl_refl]].
    destruct (find_matching (split_prof g) g rs C) as [|e0 em] eqn:Em.
    - split; [exact Hin|apply incl_refl].
    - split; [destruct Hexon as [H|H]; [discriminate|exact H]|]. rewrite <- Em. unfold find_matching. apply filter_sub. }
  destruct Hm1 as [Hin1 Hsub1].
  assert (Hres: exists l', RES true false r g m1 = Ok l' /\ In tid l' /\ incl l' C).
  { destruct (Hscore m1 Hsub1 Hin1) as [l' [H1 H2]]. exists l'. repeat split; [exact H1|exact H2|].
    intros x Hx. apply Hsub1. exact (resolve_sub _ _ _ _ _ _ H1 x Hx). }
  destruct (1 <? Z.of_nat (length m1)); [|exists m1; tauto].
  destruct Hres as [l' [R1 [R2 R3]]].
  destruct arm.
  - exists m1. tauto.
  - exists m1. tauto.
  - destruct (any_fsm_defined g r m1) as [b Hb]; [intros id Hid; apply Hfsm, Hsub1; exact Hid|]. rewrite Hb.
    destruct b; [rewrite R1; exists l'; tauto|exists m1; tauto].
  - rewrite R1. exists l'. tauto. Qed.

Lemma matched_unspliced g ri rs r tid : rp ri = [] -> In tid (compatible_ids g ri rs r) ->
  (arm <> ARM_none_ -> exists l', RES true false r g (compatible_ids g ri rs r) = Ok l' /\ In tid l') ->
  exists ids, matched g ri rs r = Ok (ids, false) /\ In tid ids /\ incl ids (compatible_ids g ri rs r).
Proof. intros Hrp Hin Hscore. unfold matched. cbv zeta. rewrite Hrp. cbn [length Nat.eqb].
  set (C := compatible_ids g ri rs r) in *.
  destruct (1 <? Z.of_nat (length C)); cbn [andb]; [|exists C; repeat split; [exact Hin|apply incl_refl]].
  destruct arm eqn:Ea; cbn [negb]; try (exists C; repeat split; [exact Hin|apply incl_refl]);
    (destruct Hscore as [l' [R1 R2]]; [discriminate|]; rewrite R1; exists l'; repeat split; [exact R2|exact (resolve_sub _ _ _ _ _ _ R1)]). Qed.

(* the general form: the score hypothesis is only needed for sub-lists of the compatible isoforms *)
Theorem compatible_reports_T_incl : forall g r ri rs tid,
  g_isos g <> [] -> intron_rprof P absd g r = Ok ri -> split_rprof P g r = Ok rs -> profiles_clean ri rs = true ->
  rp ri <> [] -> In tid (compatible_ids g ri rs r) ->
  (let em := find_matching (split_prof g) g rs (compatible_ids g ri rs r) in em = [] \/ In tid em) ->
  (forall l, incl l (compatible_ids g ri rs r) -> In tid l -> exists l', RES true false r g l = Ok l' /\ In tid l') ->
  (forall id, In id (compatible_ids g ri rs r) -> exists b, is_fsm r (find_iso g id) = Ok b) ->
  (forall id, In id (compatible_ids g ri rs r) -> events_all_consistent (consistent_events g ri rs r (find_iso g id) true)) ->
  exists ty ms, A g r = Ok (ty, ms) /\ type_consistent ty = true /\ In tid (map fst ms) /\ incl (map fst ms) (compatible_ids g ri rs r).
Proof. intros g r ri rs tid Hg Hi Hs Hc Hrp Hin Hexon Hscore Hfsm Hev.
  destruct (matched_spliced g ri rs r tid Hrp Hin Hexon Hscore Hfsm) as [ids [Hm [Hin' Hsub]]].
  destruct (finish_consistent g ri rs r ids true) as [ms [Hf Hfst]].
  { intros E. rewrite E in Hin'. exact Hin'. }
  { intros id Hid. apply Hev, Hsub. exact Hid. }
  eexists. exists ms. rewrite (clean_profiles_reach_consistent g r ri rs Hg Hi Hs Hc), MC_unfold, Hm, Hf.
  split; [reflexivity|]. split; [destruct (1 <? Z.of_nat (length ids)); reflexivity|]. rewrite Hfst. split; [exact Hin'|exact Hsub]. Qed.

Theorem compatible_reports_T : forall g r ri rs tid,
  g_isos g <> [] -> intron_rprof P absd g r = Ok ri -> split_rprof P g r = Ok rs -> profiles_clean ri rs = true ->
  rp ri <> [] -> In tid (compatible_ids g ri rs r) ->
  (let em := find_matching (split_prof g) g rs (compatible_ids g ri rs r) in em = [] \/ In tid em) ->
  (forall l, In tid l -> exists l', RES true false r g l = Ok l' /\ In tid l') ->
  (forall id, In id (compatible_ids g ri rs r) -> exists b, is_fsm r (find_iso g id) = Ok b) ->
  (forall id, In id (compatible_ids g ri rs r) -> events_all_consistent (consistent_events g ri rs r (find_iso g id) true)) ->
  exists ty ms, A g r = Ok (ty, ms) /\ type_consistent ty = true /\ In tid (map fst ms).
Proof. intros g r ri rs tid Hg Hi Hs Hc Hrp Hin Hexon Hscore Hfsm Hev.
  destruct (compatible_reports_T_incl g r ri rs tid Hg Hi Hs Hc Hrp Hin Hexon (fun l _ => Hscore l) Hfsm Hev) as [ty [ms [H1 [H2 [H3 _]]]]].
  exists ty, ms. tauto. Qed.

Theorem compatible_reports_T_unspliced : forall g r ri rs tid,
  g_isos g <> [] -> intron_rprof P absd g r = Ok ri -> split_rprof P g r = Ok rs -> profiles_clean ri rs = true ->
  rp ri = [] -> In tid (compatible_ids g ri rs r) ->
  (arm <> ARM_none_ -> exists l', RES true false r g (compatible_ids g ri rs r) = Ok l' /\ In tid l') ->
  (forall id, In id (compatible_ids g ri rs r) -> events_all_consistent (consistent_events g ri rs r (find_iso g id) false)) ->
  exists ty ms, A g r = Ok (ty, ms) /\ type_consistent ty = true /\ In tid (map fst ms) /\ incl (map fst ms) (compatible_ids g ri rs r).
Proof. intros g r ri rs tid Hg Hi Hs Hc Hrp Hin Hscore Hev.
  destruct (matched_unspliced g ri rs r tid Hrp Hin Hscore) as [ids [Hm [Hin' Hsub]]].
  destruct (finish_consistent g ri rs r ids false) as [ms [Hf Hfst]].
  { intros E. rewrite E in Hin'. exact Hin'. }
  { intros id Hid. apply Hev, Hsub. exact Hid. }
  eexists. exists ms. rewrite (clean_profiles_reach_consistent g r ri rs Hg Hi Hs Hc), MC_unfold, Hm, Hf.
  split; [reflexivity|]. split; [destruct (1 <? Z.of_nat (length ids)); reflexivity|]. rewrite Hfst. split; [exact Hin'|exact Hsub]. Qed.

(* ---------------------------------------------------------------- 4. the events of one isoform from their three parts *)
Lemma events_consistent_of_parts g ri rs r t (sp:bool) ev el :
  (if sp then splice_match_event ri r t else Ok (unspliced_match_event t)) = Ok ev -> ev_consistent ev = true ->
  elong P g rs r t = Ok el -> (forall e, In e el -> ev_consistent (x_type e) = true) ->
  polya_ok P (i_strand t) (i_exons t) (r_polya r) ->
  events_all_consistent (consistent_events g ri rs r t sp).
Proof. intros Hev Hc Hel Hcel Hpa. unfold events_all_consistent, consistent_events. rewrite Hev, Hel. unfold verify.
  destruct (verify_defined P (i_strand t) (i_exons t) (r_exons r) (r_polya r) (fold_left add_sub el [xe ev 0]) Hpa) as [out Hout].
  exists out. split; [exact Hout|].
  apply (verify_keeps_consistent P (i_strand t) (i_exons t) (r_exons r) (r_polya r) (fold_left add_sub el [xe ev 0]) out); [| |exact Hpa|exact Hout].
  - apply add_sub_fold_nonempty. discriminate.
  - intros e He. apply add_sub_fold_In in He. destruct He as [[<-|[]]|He]; [exact Hc|exact (Hcel e He)]. Qed.

Theorem match_events_consistent_of_parts : forall g ri rs r t ev el,
  splice_match_event ri r t = Ok ev -> elong P g rs r t = Ok el -> (forall e, In e el -> ev_consistent (x_type e) = true) ->
  polya_ok P (i_strand t) (i_exons t) (r_polya r) ->
  events_all_consistent (consistent_events g ri rs r t true).
Proof. intros g ri rs r t ev el Hev Hel Hcel Hpa.
  exact (events_consistent_of_parts g ri rs r t true ev el Hev (splice_match_event_consistent _ _ _ _ Hev) Hel Hcel Hpa). Qed.

Theorem unspliced_events_consistent_of_parts : forall g ri rs r t el,
  elong P g rs r t = Ok el -> (forall e, In e el -> ev_consistent (x_type e) = true) ->
  polya_ok P (i_strand t) (i_exons t) (r_polya r) ->
  events_all_consistent (consistent_events g ri rs r t false).
Proof. intros g ri rs r t el Hel Hcel Hpa.
  exact (events_consistent_of_parts g ri rs r t false _ el eq_refl (unspliced_match_event_consistent t) Hel Hcel Hpa). Qed.

(* the finally matched isoforms are always among the compatible ones *)
Lemma matched_sub g ri rs r ids sp : matched g ri rs r = Ok (ids, sp) -> incl ids (compatible_ids g ri rs r).
Proof. unfold matched. cbv zeta. set (C := compatible_ids g ri rs r).
  destruct (length (rp ri) =? 0)%nat.
  - destruct ((1 <? Z.of_nat (length C)) && negb (match arm with ARM_none_ => true | _ => false end)).
    + destruct (RES true false r g C) as [l|k] eqn:E; [|discriminate]. intros H. injection H as <- _. exact (resolve_sub _ _ _ _ _ _ E).
    + intros H. injection H as <- _. apply incl_refl.
  - set (m1 := if 1 <? Z.of_nat (length C) then match find_matching (split_prof g) g rs C with [] => C | em => em end else C).
    assert (Hsub1: incl m1 C).
    { unfold m1. destruct (1 <? Z.of_nat (length C)); [|apply incl_refl].
      destruct (find_matching (split_prof g) g rs C) as [|e0 em] eqn:Em; [apply incl_refl|]. rewrite <- Em. unfold find_matching. apply filter_sub. }
    destruct (1 <? Z.of_nat (length m1)); [|intros H; injection H as <- _; exact Hsub1].
    match goal with |- match ?x with _ => _ end = _ -> _ => destruct x as [[|]|k] end; [| |discriminate].
    + destruct (RES true false r g m1) as [l|k] eqn:E; [|discriminate]. intros H. injection H as <- _.
      intros x Hx. apply Hsub1. exact (resolve_sub _ _ _ _ _ _ E x Hx).
    + intros H. injection H as <- _. exact Hsub1. Qed.

(* ---------------------------------------------------------------- 5. the consistent path only returns consistent types *)
(* every event the consistent path can attach is consistent, a minor error or a major inconsistency - never an unclassified type *)
Lemma consistent_events_classified g ri rs r t sp evs : consistent_events g ri rs r t sp = Ok evs ->
  forall e, In e evs -> classified (x_type e) = true.
Proof. unfold consistent_events. intros H e He.
  destruct (if sp then splice_match_event ri r t else Ok (unspliced_match_event t)) as [ev|k] eqn:Eev; [|discriminate].
  assert (Hev: ev_consistent ev = true).
  { destruct sp; [exact (splice_match_event_consistent _ _ _ _ Eev)|injection Eev as <-; apply unspliced_match_event_consistent]. }
  destruct (elong P g rs r t) as [el|k] eqn:Eel; [|discriminate]. unfold verify in H.
  destruct (verify_only_polya_changes _ _ _ _ _ _ _ H) as [H1 _]. destruct (H1 e He) as [Hin|Hin].
  - apply add_sub_fold_In in Hin. destruct Hin as [[<-|[]]|Hin].
    + cbn [x_type xe]. unfold classified. rewrite Hev. reflexivity.
    + unfold elong in Eel. pose proof (elongation_types _ _ _ _ _ _ _ _ Eel e Hin) as Ht.
      pose proof elongation_types_classified as T. rewrite forallb_forall in T. exact (T _ Ht).
  - pose proof polya_new_types_classified as T. rewrite forallb_forall in T. exact (T _ Hin). Qed.

Lemma finish_some_inv g ri rs r m ty ms : finish g ri rs r m = Ok (Some (ty, ms)) ->
  exists ids sp ms', m = Ok (ids, sp) /\ ids <> [] /\ omap (ev_of g ri rs r sp) ids = Ok ms' /\
    ty = classify (1 <? Z.of_nat (length ms')) (types_of ms') /\ rmem ty RAT_is_inconsistent = false /\
    ms = map (fun m => (fst m, map x_type (snd m))) ms'.
Proof. unfold finish. destruct m as [[ids sp]|k]; [|discriminate]. destruct ids as [|i0 ids]; [discriminate|].
  destruct (omap (ev_of g ri rs r sp) (i0 :: ids)) as [ms'|k] eqn:E; [|discriminate]. cbv zeta.
  destruct (rmem (classify (1 <? Z.of_nat (length ms')) (types_of ms')) RAT_is_inconsistent) eqn:Er; [discriminate|].
  unfold report. intros H. injection H as <- <-. exists (i0 :: ids), sp, ms'. repeat split; [discriminate|exact E|exact Er]. Qed.

Theorem major_blocks_consistent_path : forall g ri rs r ty ms, MC g ri rs r = Ok (Some (ty, ms)) ->
  rmem ty RAT_is_inconsistent = false /\ type_consistent ty = true /\
  (forall m t, In m ms -> In t (snd m) -> ev_major t = false) /\
  incl (map fst ms) (compatible_ids g ri rs r).
Proof. intros g ri rs r ty ms H. rewrite MC_unfold in H. apply finish_some_inv in H.
  destruct H as [ids [sp [ms' [Hm [Hne [Ho [-> [Hr ->]]]]]]]]. destruct (ev_of_inv _ _ _ _ _ _ _ Ho) as [Hfst Hall].
  split; [exact Hr|]. split; [|split].
  - apply classify_classified; [|exact Hr]. intros t Ht. unfold types_of in Ht. apply in_flat_map in Ht. destruct Ht as [m [Hm' Ht]].
    apply in_map_iff in Ht. destruct Ht as [e [<- He]]. destruct (Hall m Hm') as [_ Hce]. exact (consistent_events_classified _ _ _ _ _ _ _ Hce e He).
  - intros m t Hm' Ht. apply in_map_iff in Hm'. destruct Hm' as [m' [<- Hm']]. cbn [snd] in Ht.
    destruct (ev_major t) eqn:M; [|reflexivity]. exfalso.
    rewrite (major_classified_inconsistent (1 <? Z.of_nat (length ms')) (types_of ms')) in Hr; [discriminate|].
    apply existsb_exists. exists t. split; [|exact M]. unfold types_of. apply in_flat_map. exists m'. split; [exact Hm'|exact Ht].
  - rewrite map_map. cbn [fst]. intros id Hid. apply in_map_iff in Hid. destruct Hid as [m [<- Hm']]. destruct (Hall m Hm') as [Hid _].
    exact (matched_sub _ _ _ _ _ _ Hm _ Hid). Qed.
End L1.

(* ================================================================ 6. exact rational scores *)
Definition q_make (a b:Z*Z) : Q := ((fst a # Z.to_pos (snd a)) - (fst b # Z.to_pos (snd b)))%Q.
Definition q_lt (a b:Q) : bool := negb (Qle_bool b a).                 (* a < b *)
Definition q_ge_min (x:Q) : bool := Qle_bool (-1 # 2) x.                (* x >= minimal_score *)
Definition q_keeps (x b:Q) : bool := Qle_bool b (x * (3 # 2))%Q.        (* x * top_scored_factor >= best *)

Section QScores.
Variable P : params.
Notation scoreQ := (score_of P Q q_make).
Notation scoresQ := (scores_of P Q q_make).
Notation resolveQ := (resolve P Q q_make q_lt q_ge_min q_keeps).

Lemma best_score_le (l:list (Z * Q)) : forall d M, (d <= M)%Q -> (forall x, In x l -> (snd x <= M)%Q) -> (best_score Q q_lt l d <= M)%Q.
Proof. induction l as [|a t IH]; intros d M Hd H; [exact Hd|].
  change (best_score Q q_lt (a :: t) d) with (best_score Q q_lt t (if q_lt d (snd a) then snd a else d)).
  apply IH; [destruct (q_lt d (snd a)); [apply H; left; reflexivity|exact Hd]|intros x Hx; apply H; right; exact Hx]. Qed.

Lemma scores_defined jac r g l : (forall id, In id l -> exists s, scoreQ jac r (find_iso g id) = Ok s) -> exists sc, scoresQ jac r g l = Ok sc.
Proof. induction l as [|a t IH]; intros H; [exists []; reflexivity|].
  destruct (H a (or_introl eq_refl)) as [s Hs]. destruct IH as [sc Hsc]; [intros id Hid; apply H; right; exact Hid|].
  exists ((a, s) :: sc). cbn [scores_of]. rewrite Hs, Hsc. reflexivity. Qed.

Lemma scores_inv jac r g l : forall sc, scoresQ jac r g l = Ok sc ->
  (forall x, In x sc -> In (fst x) l /\ scoreQ jac r (find_iso g (fst x)) = Ok (snd x)) /\
  (forall id s, In id l -> scoreQ jac r (find_iso g id) = Ok s -> In (id, s) sc).
Proof. induction l as [|a t IH]; intros sc H.
  - injection H as <-. split; [intros x []|intros id s []].
  - cbn [scores_of] in H. destruct (scoreQ jac r (find_iso g a)) as [s|k] eqn:Ea; destruct (scoresQ jac r g t) as [l|k'] eqn:Et; try discriminate.
    injection H as <-. destruct (IH l eq_refl) as [I1 I2]. split.
    + intros x [<-|Hx]; [cbn [fst snd]; split; [left; reflexivity|exact Ea]|]. destruct (I1 x Hx) as [J1 J2]. split; [right; exact J1|exact J2].
    + intros id s' [<-|Hid] Hs'; [left; rewrite Ea in Hs'; injection Hs' as <-; reflexivity|right; exact (I2 id s' Hid Hs')]. Qed.

(* the best-scoring isoform survives resolve_by_nucleotide_score when its score is not negative *)
Theorem resolve_keeps_best_Q : forall r g l tid stid,
  In tid l -> scoreQ true r (find_iso g tid) = Ok stid ->
  (forall id, In id l -> exists s, scoreQ true r (find_iso g id) = Ok s /\ (s <= stid)%Q) ->
  (0 <= stid)%Q ->
  exists l', resolveQ true false r g l = Ok l' /\ In tid l'.
Proof. intros r g l tid stid Hin Hst Hall H0.
  destruct (scores_defined true r g l) as [sc Hsc]. { intros id Hid. destruct (Hall id Hid) as [s [Hs _]]. exists s. exact Hs. }
  destruct (scores_inv true r g l sc Hsc) as [I1 I2]. pose proof (I2 tid stid Hin Hst) as Hmem.
  assert (Hle: forall x, In x sc -> (snd x <= stid)%Q).
  { intros x Hx. destruct (I1 x Hx) as [J1 J2]. destruct (Hall _ J1) as [s [Hs Hs']]. rewrite J2 in Hs. injection Hs as <-. exact Hs'. }
  unfold resolve. destruct l as [|a t]; [destruct Hin|]. rewrite Hsc. destruct sc as [|[i0 s0] sc']; [destruct Hmem|]. cbv zeta.
  set (b := best_score Q q_lt ((i0, s0) :: sc') s0).
  assert (Hb: (b <= stid)%Q). { apply best_score_le; [exact (Hle (i0, s0) (or_introl eq_refl))|exact Hle]. }
  eexists. split; [reflexivity|]. apply in_map_iff. exists (tid, stid). split; [reflexivity|]. apply filter_In. split; [exact Hmem|]. cbn [snd].
  apply andb_true_intro. split.
  - unfold q_keeps. apply Qle_bool_iff. apply Qle_trans with stid; [exact Hb|].
    assert (H: (1 * stid <= (3 # 2) * stid)%Q) by (apply Qmult_le_compat_r; [apply Qle_bool_iff; reflexivity|exact H0]).
    rewrite Qmult_1_l in H. rewrite (Qmult_comm (3 # 2)) in H. exact H.
  - unfold q_ge_min. apply Qle_bool_iff. apply Qle_trans with 0%Q; [apply Qle_bool_iff; reflexivity|exact H0]. Qed.
(* hence hypothesis (Hscore) of compatible_reports_T_incl for the best-scoring compatible isoform *)
Corollary hscore_of_best_Q : forall r g C tid stid,
  scoreQ true r (find_iso g tid) = Ok stid ->
  (forall id, In id C -> exists s, scoreQ true r (find_iso g id) = Ok s /\ (s <= stid)%Q) -> (0 <= stid)%Q ->
  forall l, incl l C -> In tid l -> exists l', resolveQ true false r g l = Ok l' /\ In tid l'.
Proof. intros r g C tid stid Hst Hall H0 l Hsub Hin. apply (resolve_keeps_best_Q r g l tid stid Hin Hst); [|exact H0].
  intros id Hid. apply Hall, Hsub. exact Hid. Qed.
End QScores.

(* ================================================================ examples (exact rational scores, no penalty selection needed) *)
Definition gene_of (isos:list isof) : gene := match mk_gene isos with Some g => g | None => mkGene [] [] [] (0, 0) end.
Definition no_polya : polya := mkPA (-1) (-1) (-1) (-1).
Definition exP : params := params_of MS_default.
Notation assignQ := (assign exP 20 ARM_monoexon_and_fsm Q q_make q_lt q_ge_min q_keeps (fun _ => None)).

(* resolve_keeps_best_Q with `-1/2 <= score` in place of `0 <= score` is false: a single candidate (trivially the best one) whose
   score is -0.148 passes the minimal-score test but not its own top-score test, -0.148 * 1.5 < -0.148: the result is empty *)
Definition exg1 : gene := gene_of [mkIso 1 1 [(600, 1000)]].
Definition exr1 : read := mkRead [(1, 1000)] no_polya.
Example resolve_keeps_best_Q_refuted :
  exists stid, score_of exP Q q_make true exr1 (find_iso exg1 1) = Ok stid /\ (-1 # 2 <= stid)%Q /\ In 1 [1] /\
    (forall id, In id [1] -> exists s, score_of exP Q q_make true exr1 (find_iso exg1 id) = Ok s /\ (s <= stid)%Q) /\
    resolve exP Q q_make q_lt q_ge_min q_keeps true false exr1 exg1 [1] = Ok [].
Proof. eexists. split; [vm_compute; reflexivity|]. split; [apply Qle_bool_iff; vm_compute; reflexivity|]. split; [left; reflexivity|].
  split; [|vm_compute; reflexivity]. intros id [<-|[]]. eexists. split; [vm_compute; reflexivity|apply Qle_refl]. Qed.

(* theorem 2: one isoform (100,200) (300,400) (500,900) on '+', the read (150,200) (300,400) (500,880) without polyA *)
Definition exg2 : gene := gene_of [mkIso 1 1 [(100, 200); (300, 400); (500, 900)]].
Definition exr2 : read := mkRead [(150, 200); (300, 400); (500, 880)] no_polya.
Example unique_compatible_hypotheses_satisfiable :
  exists ri rs, g_isos exg2 <> [] /\ intron_rprof exP 20 exg2 exr2 = Ok ri /\ split_rprof exP exg2 exr2 = Ok rs /\ profiles_clean ri rs = true /\
    rp ri <> [] /\ compatible_ids exP exg2 ri rs exr2 = [1] /\
    (exists evs, consistent_events exP exg2 ri rs exr2 (find_iso exg2 1) true = Ok evs /\
                 map x_type evs = [MES_fsm; MES_terminal_site_match_left; MES_terminal_site_match_right]) /\
    events_all_consistent (consistent_events exP exg2 ri rs exr2 (find_iso exg2 1) true).
Proof. exists (mkRP [1; 1] [1; 1] (0, 2)), (mkRP [1; 1; 1] [1; 1; 1] (0, 3)).
  split; [vm_compute; discriminate|]. split; [vm_compute; reflexivity|]. split; [vm_compute; reflexivity|]. split; [vm_compute; reflexivity|].
  split; [vm_compute; discriminate|]. split; [vm_compute; reflexivity|]. split.
  - eexists. split; vm_compute; reflexivity.
  - eexists. split; [vm_compute; reflexivity|]. intros e He. cbn [In] in He. destruct He as [<-|[<-|[<-|[]]]]; vm_compute; reflexivity. Qed.
Example unique_compatible_computed :
  assignQ exg2 exr2 = Ok (RAT_unique, [(1, [MES_fsm; MES_terminal_site_match_left; MES_terminal_site_match_right])]).
Proof. vm_compute. reflexivity. Qed.
(* the same equation obtained from the theorem instead of by running the model *)
Example unique_compatible_by_theorem :
  assignQ exg2 exr2 = Ok (RAT_unique, [(1, [MES_fsm; MES_terminal_site_match_left; MES_terminal_site_match_right])]).
Proof. destruct unique_compatible_hypotheses_satisfiable as [ri [rs [Hg [Hi [Hs [Hc [Hrp [Hcomp [[evs [He Hty]] Hall]]]]]]]]].
  destruct (unique_compatible_reports_T exP 20 ARM_monoexon_and_fsm Q q_make q_lt q_ge_min q_keeps (fun _ => None)
              exg2 exr2 ri rs 1 _ Hg Hi Hs Hc Hrp Hcomp eq_refl Hall) as [evs' [He' HA]].
  rewrite He in He'. injection He' as <-. rewrite HA, Hty. reflexivity. Qed.

(* theorem 3: three isoforms, two of them compatible with the read (1 and 3; isoform 2 has an extra intron inside the read's last
   exon); both are full splice matches, the Jaccard resolution keeps both: ambiguous *)
Definition exg3 : gene := gene_of [mkIso 1 1 [(100, 200); (300, 400); (500, 900)]; mkIso 2 1 [(100, 200); (300, 400); (500, 700); (800, 900)];
                                   mkIso 3 1 [(50, 200); (300, 400); (500, 900)]].
Example several_compatible_computed :
  (match intron_rprof exP 20 exg3 exr2, split_rprof exP exg3 exr2 with
   | Ok ri, Ok rs => profiles_clean ri rs && list_eqb Z.eqb (compatible_ids exP exg3 ri rs exr2) [1; 3] | _, _ => false end) = true /\
  assignQ exg3 exr2 = Ok (RAT_ambiguous, [(1, [MES_fsm; MES_terminal_site_match_left; MES_terminal_site_match_right]);
                                          (3, [MES_fsm; MES_terminal_site_match_right])]).
Proof. split; vm_compute; reflexivity. Qed.

(* theorem 5: the consistent path can return unique_minor_difference - the read starts 8 bases before the isoform (delta = 6): the elongation
   event is a minor error, there is no major event, and the type is still a consistent one *)
Definition exr4 : read := mkRead [(92, 200); (300, 400); (500, 880)] no_polya.
Example consistent_path_minor_difference :
  match intron_rprof exP 20 exg2 exr4, split_rprof exP exg2 exr4 with
  | Ok ri, Ok rs => match_consistent exP ARM_monoexon_and_fsm Q q_make q_lt q_ge_min q_keeps exg2 ri rs exr4
  | _, _ => Raises 0%N end
  = Ok (Some (RAT_unique_minor_difference, [(1, [MES_fsm; MES_terminal_site_match_left; MES_exon_elongation_left; MES_terminal_site_match_right])])).
Proof. vm_compute. reflexivity. Qed.

Print Assumptions clean_profiles_reach_consistent.
Print Assumptions unique_compatible_reports_T.
Print Assumptions unique_compatible_reports_T_unspliced.
Print Assumptions resolve_sub.
Print Assumptions compatible_reports_T_incl.
Print Assumptions compatible_reports_T.
Print Assumptions compatible_reports_T_unspliced.
Print Assumptions splice_match_event_consistent.
Print Assumptions add_sub_fold_In.
Print Assumptions match_events_consistent_of_parts.
Print Assumptions unspliced_events_consistent_of_parts.
Print Assumptions major_blocks_consistent_path.
Print Assumptions resolve_keeps_best_Q.
Print Assumptions hscore_of_best_Q.
Print Assumptions resolve_keeps_best_Q_refuted.
Print Assumptions unique_compatible_hypotheses_satisfiable.
Print Assumptions unique_compatible_computed.
Print Assumptions unique_compatible_by_theorem.
Print Assumptions several_compatible_computed.
Print Assumptions consistent_path_minor_difference.
