(* C20 / C12 — decidable comparisons used by harness/props/c20.py and c12.py: model output = implementation output
   (`…_check`) and the property's specification holds of the implementation output (`…_prop`). *)
From Coq Require Import ZArith NArith List Bool Lia.
From IQ Require Import CorrSupport Cache.
Import ListNotations. Open Scope Z_scope.

Definition oz_eqb := opt_eqb Z.eqb.
Definition ob_eqb := opt_eqb Bool.eqb.

(* ---------------------------------------------------------------- hit predicates on real files *)
(* find_converted_db: (files, dictionary, gtf, complete_genedb, what the implementation returned) *)
Definition fcd_case := (list (path * fstat) * dict * path * bool * outcome (option path))%type.
Definition fcd_check (k : fcd_case) : bool :=
  let '(fsl, d, g, c, impl) := k in outcome_eqb oz_eqb (find_converted_db d g c (fs_of_list fsl)) impl.
(* the right-hand side of cache_hit_sound, as a boolean *)
Definition hit_spec (d : dict) (g : path) (c : bool) (fs : fsys) (r : path) : bool :=
  match dget d g with
  | Some e => oz_eqb (e_genedb e) (Some r) && mtime_is fs g (e_gtf_mtime e) && mtime_is fs r (e_db_mtime e) && ob_eqb (e_complete e) (Some c)
  | None => false
  end.
Definition fcd_prop (k : fcd_case) : bool :=
  let '(fsl, d, g, c, impl) := k in
  match impl with Ok (Some r) => hit_spec d g c (fs_of_list fsl) r | _ => true end.

(* compare_stored_gtf: (repaired?, files, dictionary, gtf, db, returned) *)
Definition csg_case := (bool * list (path * fstat) * dict * path * path * bool)%type.
Definition csg_check (k : csg_case) : bool :=
  let '(cp, fsl, d, g, db, impl) := k in Bool.eqb (compare_stored_gtf cp d g db (fs_of_list fsl)) impl.
Definition csg_spec (d : dict) (g db : path) (fs : fsys) : bool :=
  opath_eqb (field d g e_genedb) db && mtime_is fs g (field d g e_gtf_mtime) && mtime_is fs db (field d g e_db_mtime).
Definition csg_prop (k : csg_case) : bool :=
  let '(cp, fsl, d, g, db, impl) := k in if impl then csg_spec d g db (fs_of_list fsl) else true.

(* the db2gtf branch of convert_db: (repaired?, files, dictionary, db, the GTF convert_db reused or None) *)
Definition fcg_case := (bool * list (path * fstat) * dict * path * option path)%type.
Definition fcg_check (k : fcg_case) : bool :=
  let '(cp, fsl, d, db, impl) := k in oz_eqb (find_converted_gtf cp d db (fs_of_list fsl)) impl.
Definition fcg_prop (k : fcg_case) : bool :=
  let '(cp, fsl, d, db, impl) := k in match impl with Some g => csg_spec d g db (fs_of_list fsl) | None => true end.

(* ---------------------------------------------------------------- schedule replay *)
Definition aentry := (path * (option path * bool * bool * option bool))%type.
Record rcase := mkrcase {
  r_file : fstate; r_fs : list (path * fstat); r_clock : Z; r_procs : list proc; r_sched : list nat;
  r_status : list (Z * Z);                     (* observed: (1, returned path) | (2, exception class) *)
  r_obsfile : option (option (list aentry));   (* observed final cache file: absent | unparseable | entries *)
  r_trace : list (nat * Z);                    (* observed sequence of (process, event) *)
  r_contents : list (option (Z * bool));       (* what the returned database holds: (annotation, built without inference) *)
  r_isrun : bool }.                            (* convert_db replay (contents are meaningful) *)

Definition zz_eqb (a b : Z * Z) := (fst a =? fst b) && (snd a =? snd b).
Definition nz_eqb (a b : nat * Z) := Nat.eqb (fst a) (fst b) && (snd a =? snd b).
Definition aentry_eqb (a b : aentry) : bool :=
  let '(k1, (r1, g1, d1, c1)) := a in let '(k2, (r2, g2, d2, c2)) := b in
  (k1 =? k2) && oz_eqb r1 r2 && Bool.eqb g1 g2 && Bool.eqb d1 d2 && ob_eqb c1 c2.
Definition r_world (c : rcase) : world := mkworld (mkshared (r_file c) (fs_of_list (r_fs c)) (r_clock c)) (r_procs c).
Definition replay_check (c : rcase) : bool :=
  let w := run (r_world c) (r_sched c) in
  list_eqb zz_eqb (map abs_status (w_procs w)) (r_status c) &&
  opt_eqb (opt_eqb (list_eqb aentry_eqb)) (abs_file (w_sh w)) (r_obsfile c) &&
  list_eqb nz_eqb (trace (r_world c) (r_sched c)) (r_trace c).

(* the statement of C20 on one observed run: every process ended normally, the file parses, and every process got a
   database that holds its own annotation converted with its own flag *)
Definition expected_content (c : rcase) (p : proc) : option (Z * bool) :=
  match fs_of_list (r_fs c) (p_gtf p) with Some (mkstat _ (Gtf a)) => Some (a, p_complete p) | _ => None end.
Definition zb_eqb (a b : Z * bool) := (fst a =? fst b) && Bool.eqb (snd a) (snd b).
Definition replay_prop (c : rcase) : bool :=
  forallb (fun s => (fst s =? 1) && (0 <=? snd s)) (r_status c) &&
  match r_obsfile c with Some (Some _) => true | _ => false end &&
  (if r_isrun c then list_eqb (opt_eqb zb_eqb) (map (expected_content c) (r_procs c)) (r_contents c) else true).

(* ---------------------------------------------------------------- the caches of read_mapper on real files *)
(* find_stored_index: (files, dictionary, reference, k-mer size asked for, returned index or None) *)
Definition fsi_case := (list (path * fstat) * list (path * ientry) * path * Z * option path)%type.
Definition fsi_check (k : fsi_case) : bool :=
  let '(fsl, d, ref, kmer, impl) := k in oz_eqb (find_stored_index d ref kmer (fs_of_list fsl)) impl.
Definition fsi_prop (k : fsi_case) : bool :=
  let '(fsl, d, ref, kmer, impl) := k in let fs := fs_of_list fsl in
  match impl with
  | Some r => match aget d ref with
              | Some e => oz_eqb (i_index e) (Some r) && mtime_is fs ref (i_ref_mtime e) && mtime_is fs r (i_index_mtime e) && oz_is kmer (i_kmer e)
              | None => false
              end
  | None => true
  end.
(* find_stored_bed: (files, dictionary, database, returned BED or None) *)
Definition fsb_case := (list (path * fstat) * list (path * bentry) * path * option path)%type.
Definition fsb_check (k : fsb_case) : bool :=
  let '(fsl, d, db, impl) := k in oz_eqb (find_stored_bed d db (fs_of_list fsl)) impl.
Definition fsb_prop (k : fsb_case) : bool :=
  let '(fsl, d, db, impl) := k in let fs := fs_of_list fsl in
  match impl with
  | Some r => match aget d db with
              | Some e => oz_eqb (b_bed e) (Some r) && mtime_is fs db (b_ref_mtime e) && mtime_is fs r (b_bed_mtime e)
              | None => false
              end
  | None => true
  end.
(* find_stored_alignment: (files, dictionary, key id, reads, index, annotation, outcome) *)
Definition fsa_case := (list (path * fstat) * list (path * alentry) * path * path * path * option path * outcome (option path))%type.
Definition fsa_check (k : fsa_case) : bool :=
  let '(fsl, d, key, fastq, index, ann, impl) := k in outcome_eqb oz_eqb (find_stored_alignment d key fastq index ann (fs_of_list fsl)) impl.
Definition fsa_prop (k : fsa_case) : bool :=
  let '(fsl, d, key, fastq, index, ann, impl) := k in let fs := fs_of_list fsl in
  match impl with
  | Ok (Some r) => match aget d key with
                   | Some e => oz_eqb (a_bam e) (Some r) && mtime_is fs index (a_index_mtime e) && mtime_is fs fastq (a_fastq_mtime e) && mtime_is fs r (a_bam_mtime e)
                               && match ann with Some ap => mtime_is fs ap (a_ann_mtime e) | None => true end
                   | None => false
                   end
  | _ => true
  end.

(* ---------------------------------------------------------------- replay of the directory creation step *)
(* (directory present at the start, processes, schedule, observed: failed with FileExistsError?, directory present at the end, events) *)
Definition dcase := (bool * list dproc * list nat * list bool * bool * list (nat * Z))%type.
Definition dir_check (c : dcase) : bool :=
  let '(dir, ps, sched, failed, dir_end, tr) := c in
  let st := drun dir ps sched in
  list_eqb Bool.eqb (map d_failed (snd st)) failed && Bool.eqb (fst st) dir_end && list_eqb nz_eqb (dtrace dir ps sched) tr.
Definition dir_prop (c : dcase) : bool :=
  let '(dir, ps, sched, failed, dir_end, tr) := c in forallb negb failed && dir_end.
