(* C19: has_inconsistent_features of src/common.py, regenerated into gen/Loops.v on every check, is its declarative reading (ProfileHelpers.v). *)
From Coq Require Import ZArith List Bool Lia ZifyBool.
From IQ.gen Require Import Prims Loops.
From IQ Require Import LoopsSupport ProfileHelpers.
Import ListNotations. Open Scope Z_scope.

Theorem has_inconsistent_features_spec read gene : py_has_inconsistent_features_pre read gene = true ->
  py_has_inconsistent_features read gene = spec_inconsistent read gene.
Proof. intros H. apply pre_len in H. unfold py_has_inconsistent_features, spec_inconsistent. cbv zeta.
  set (g := fun (s:option bool) (x y:Z) => match s with Some _ => s | None => if negb (x =? y) && negb (x =? 0) then Some true else None end).
  change (py_has_inconsistent_features_step read gene) with (fun (s:option bool) (i:nat) => g s (nth i read 0) (nth i gene 0)).
  rewrite fold_seq_nth2 by exact H.
  induction (combine read gene) as [|x t IH]; [reflexivity|]. cbn [fold_left existsb]. unfold g at 2.
  destruct (negb (fst x =? snd x) && negb (fst x =? 0)); cbn [orb]; [|exact IH].
  rewrite fold_option_some by (intros; reflexivity). reflexivity. Qed.

