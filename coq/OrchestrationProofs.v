(* Proofs about the orchestration model (Orchestration.v). *)
From Coq Require Import ZArith List Bool Lia Permutation Sorting.Sorted.
From IQ Require Import GroupedGroupers Orchestration.
Import ListNotations.
Open Scope Z_scope.

Lemma NoDup_app_l {A} (l l' : list A) : NoDup (l ++ l') -> NoDup l.
Proof. induction l as [|a l IH]; intros H; [constructor|]. inversion H; subst. constructor; [intro Hi; apply H2; apply in_or_app; left; exact Hi|apply IH; assumption]. Qed.
Lemma NoDup_app_r {A} (l l' : list A) : NoDup (l ++ l') -> NoDup l'.
Proof. induction l as [|a l IH]; intros H; [exact H|]. inversion H; subst. apply IH; assumption. Qed.

(* ================================================================ 1. fan-out: the result does not depend on the schedule *)
Section FanoutProofs.
  Context {C S O : Type}.
  Variable ceqb : C -> C -> bool.
  Hypothesis ceqb_eq : forall a b, ceqb a b = true <-> a = b.
  Variable f : C -> S -> O * S.
  (* Inv h s: s is a state a worker process can be in after having processed exactly the chromosomes h *)
  Variable Inv : list C -> S -> Prop.
  Variable s0 : S.
  Hypothesis Inv0 : Inv [] s0.
  Hypothesis Inv_step : forall h s c, Inv h s -> ~ In c h -> Inv (c :: h) (snd (f c s)).
  (* the frame condition: what is written for c does not depend on the carried state *)
  Hypothesis frame : forall h s c, Inv h s -> ~ In c h -> fst (f c s) = fst (f c s0).

  Lemma worker_cons c t s : worker f (c :: t) s = ((c, fst (f c s)) :: fst (worker f t (snd (f c s))), snd (worker f t (snd (f c s)))).
  Proof. cbn [worker]. destruct (f c s) as [o s1]. cbn [fst snd]. destruct (worker f t s1) as [r s2]. reflexivity. Qed.

  Lemma worker_frame : forall cs h s, Inv h s -> NoDup cs -> (forall c, In c cs -> ~ In c h) ->
    fst (worker f cs s) = map (fun c => (c, fst (f c s0))) cs.
  Proof.
    induction cs as [|c t IH]; intros h s HI ND Hd; [reflexivity|].
    rewrite worker_cons. cbn [fst map]. inversion ND as [|? ? Hn ND']; subst.
    rewrite (frame h s c HI (Hd c (or_introl eq_refl))). f_equal.
    apply (IH (c :: h)); [apply Inv_step; [exact HI|apply Hd; left; reflexivity]|exact ND'|].
    intros c' Hc' [E|Hh]; [subst; contradiction|exact (Hd c' (or_intror Hc') Hh)].
  Qed.

  Lemma run_workers_frame : forall sch, NoDup (concat sch) ->
    run_workers f s0 sch = map (fun c => (c, fst (f c s0))) (concat sch).
  Proof.
    induction sch as [|cs rest IH]; intros ND; [reflexivity|].
    cbn [concat] in ND. cbn [run_workers flat_map concat]. rewrite map_app.
    f_equal; [|apply IH; apply NoDup_app_r in ND; exact ND].
    apply (worker_frame cs [] s0 Inv0); [|intros ? ? []].
    apply NoDup_app_l in ND. exact ND.
  Qed.

  Lemma lookup_in : forall (l : list (C * O)) c o, NoDup (map fst l) -> In (c, o) l -> lookup ceqb c l = Some o.
  Proof.
    induction l as [|[c' o'] t IH]; intros c o ND Hi; [destruct Hi|].
    cbn [lookup]. cbn [map fst] in ND. inversion ND as [|? ? Hn ND']; subst. destruct Hi as [E|Hi].
    - inversion E; subst. rewrite (proj2 (ceqb_eq c c) eq_refl). reflexivity.
    - destruct (ceqb c c') eqn:Ec; [|apply IH; assumption].
      apply ceqb_eq in Ec; subst. exfalso. apply Hn. apply (in_map fst) in Hi. exact Hi.
  Qed.

  (* for ALL assignments of the chromosomes to any number of worker processes (sch: one list per worker, in the order that worker ran
     them) and ALL completion orders (finished: any permutation of what the workers produced), Executor.map hands the main process
     exactly what processing every chromosome in a fresh worker gives *)
  Theorem schedule_independent : forall chr_ids sch finished,
    NoDup chr_ids -> Permutation (concat sch) chr_ids -> Permutation finished (run_workers f s0 sch) ->
    collect ceqb chr_ids finished = map (fun c => Some (fst (f c s0))) chr_ids.
  Proof.
    intros chr_ids sch finished ND P Pf.
    assert (NDc : NoDup (concat sch)) by (apply Permutation_sym in P; exact (Permutation_NoDup P ND)).
    rewrite (run_workers_frame sch NDc) in Pf.
    assert (NDf : NoDup (map fst finished)).
    { apply Permutation_sym in Pf. apply (Permutation_map fst) in Pf. rewrite map_map in Pf. cbn [fst] in Pf. rewrite map_id in Pf.
      exact (Permutation_NoDup Pf NDc). }
    unfold collect. apply map_ext_in. intros c Hc. apply lookup_in; [exact NDf|].
    apply Permutation_sym in Pf. apply (Permutation_in _ Pf). apply in_map_iff. exists c. split; [reflexivity|].
    apply Permutation_sym in P. exact (Permutation_in _ P Hc).
  Qed.

  (* --threads 1 (builtin map in the main process) is the one-worker schedule *)
  Theorem sequential_is_a_schedule : forall chr_ids, NoDup chr_ids ->
    fst (sequential f chr_ids s0) = map (fun c => Some (fst (f c s0))) chr_ids.
  Proof.
    intros chr_ids ND. unfold sequential. destruct (worker f chr_ids s0) as [r s] eqn:E. cbn [fst].
    assert (H := worker_frame chr_ids [] s0 Inv0 ND (fun _ _ F => F)). rewrite E in H. cbn [fst] in H. subst r.
    rewrite map_map. reflexivity.
  Qed.
End FanoutProofs.

(* ================================================================ 2. natural sort *)
Section LexProofs.
  Context {A : Type} (cmp : A -> A -> comparison).
  Hypothesis cmp_opp : forall a b, cmp a b = CompOpp (cmp b a).
  Hypothesis cmp_eq : forall a b, cmp a b = Eq -> a = b.
  Hypothesis cmp_lt_trans : forall a b c, cmp a b = Lt -> cmp b c = Lt -> cmp a c = Lt.

  Lemma cmp_refl a : cmp a a = Eq.
  Proof. assert (H := cmp_opp a a). destruct (cmp a a); try reflexivity; discriminate. Qed.
  Lemma lex_opp : forall x y, lex cmp x y = CompOpp (lex cmp y x).
  Proof. induction x as [|a s IH]; destruct y as [|b t]; cbn [lex CompOpp]; try reflexivity.
    rewrite (cmp_opp a b). destruct (cmp b a); cbn [CompOpp]; [apply IH|reflexivity|reflexivity]. Qed.
  Lemma lex_eq : forall x y, lex cmp x y = Eq -> x = y.
  Proof. induction x as [|a s IH]; destruct y as [|b t]; cbn [lex]; intros H; try reflexivity; try discriminate.
    destruct (cmp a b) eqn:E; try discriminate. apply cmp_eq in E. subst. f_equal. apply IH. exact H. Qed.
  Lemma lex_refl x : lex cmp x x = Eq.
  Proof. induction x as [|a s IH]; cbn [lex]; [reflexivity|]. rewrite cmp_refl. exact IH. Qed.
  Lemma lex_lt_trans : forall x y z, lex cmp x y = Lt -> lex cmp y z = Lt -> lex cmp x z = Lt.
  Proof.
    induction x as [|a s IH]; destruct y as [|b t]; destruct z as [|c u]; cbn [lex]; intros H1 H2; try reflexivity; try discriminate.
    destruct (cmp a b) eqn:Eab; try discriminate.
    - apply cmp_eq in Eab; subst b. destruct (cmp a c) eqn:Eac; try discriminate; [apply (IH t u); assumption|reflexivity].
    - destruct (cmp b c) eqn:Ebc; try discriminate.
      + apply cmp_eq in Ebc; subst c. rewrite Eab. reflexivity.
      + rewrite (cmp_lt_trans a b c Eab Ebc). reflexivity.
  Qed.
End LexProofs.

Lemma Zcmp_opp a b : (a ?= b) = CompOpp (b ?= a). Proof. apply Z.compare_antisym. Qed.
Lemma Zcmp_eq a b : (a ?= b) = Eq -> a = b. Proof. apply Z.compare_eq. Qed.
Lemma Zcmp_lt_trans a b c : (a ?= b) = Lt -> (b ?= c) = Lt -> (a ?= c) = Lt.
Proof. rewrite !Z.compare_lt_iff. lia. Qed.

Lemma tok_cmp_opp a b : tok_cmp a b = CompOpp (tok_cmp b a).
Proof. destruct a, b; cbn [tok_cmp CompOpp]; try reflexivity; [apply (lex_opp Z.compare Zcmp_opp)|apply Zcmp_opp]. Qed.
Lemma tok_cmp_eq a b : tok_cmp a b = Eq -> a = b.
Proof. destruct a, b; cbn [tok_cmp]; intros H; try discriminate; f_equal; [apply (lex_eq Z.compare Zcmp_eq); exact H|apply Zcmp_eq; exact H]. Qed.
Lemma tok_cmp_lt_trans a b c : tok_cmp a b = Lt -> tok_cmp b c = Lt -> tok_cmp a c = Lt.
Proof. destruct a, b, c; cbn [tok_cmp]; intros H1 H2; try reflexivity; try discriminate;
  [exact (lex_lt_trans Z.compare Zcmp_eq Zcmp_lt_trans _ _ _ H1 H2)|exact (Zcmp_lt_trans _ _ _ H1 H2)]. Qed.

Lemma key_cmp_opp a b : key_cmp a b = CompOpp (key_cmp b a).
Proof. apply (lex_opp tok_cmp tok_cmp_opp). Qed.
Lemma key_cmp_lt_trans a b c : key_cmp a b = Lt -> key_cmp b c = Lt -> key_cmp a c = Lt.
Proof. apply (lex_lt_trans tok_cmp tok_cmp_eq tok_cmp_lt_trans). Qed.
Lemma key_cmp_eq a b : key_cmp a b = Eq -> tokens a = tokens b.
Proof. apply (lex_eq tok_cmp tok_cmp_eq). Qed.

Lemma nat_le_total a b : nat_le a b = true \/ nat_le b a = true.
Proof. unfold nat_le. rewrite (key_cmp_opp b a). destruct (key_cmp a b); cbn [CompOpp]; auto. Qed.
Lemma nat_le_trans a b c : nat_le a b = true -> nat_le b c = true -> nat_le a c = true.
Proof.
  unfold nat_le. destruct (key_cmp a b) eqn:E1; try discriminate; destruct (key_cmp b c) eqn:E2; try discriminate; intros _ _.
  - unfold key_cmp in *. apply (lex_eq tok_cmp tok_cmp_eq) in E1. rewrite E1, E2. reflexivity.
  - unfold key_cmp in *. apply (lex_eq tok_cmp tok_cmp_eq) in E1. rewrite E1, E2. reflexivity.
  - unfold key_cmp in *. apply (lex_eq tok_cmp tok_cmp_eq) in E2. rewrite <- E2, E1. reflexivity.
  - rewrite (key_cmp_lt_trans a b c E1 E2). reflexivity.
Qed.
Lemma nat_le_antisym a b : nat_le a b = true -> nat_le b a = true -> tokens a = tokens b.
Proof. unfold nat_le. rewrite (key_cmp_opp b a). destruct (key_cmp a b) eqn:E; cbn [CompOpp]; try discriminate. intros _ _. apply key_cmp_eq. exact E. Qed.

(* the ordering used by merge_files is a total preorder on names and a total order on their keys *)
Theorem natural_sort_total_order :
  (forall a b, nat_le a b = true \/ nat_le b a = true) /\
  (forall a b c, nat_le a b = true -> nat_le b c = true -> nat_le a c = true) /\
  (forall a b, nat_le a b = true -> nat_le b a = true -> tokens a = tokens b).
Proof. split; [exact nat_le_total|]. split; [exact nat_le_trans|exact nat_le_antisym]. Qed.

(* generic facts about the stable insertion sort *)
Section SortProofs.
  Context {A : Type} (le : A -> A -> bool).
  Hypothesis le_total : forall a b, le a b = true \/ le b a = true.
  Hypothesis le_trans : forall a b c, le a b = true -> le b c = true -> le a c = true.
  Let leP (a b : A) : Prop := le a b = true.

  Lemma insert_perm x : forall l, Permutation (x :: l) (insert le x l).
  Proof. induction l as [|y t IH]; cbn [insert]; [apply Permutation_refl|]. destruct (le x y); [apply Permutation_refl|].
    eapply perm_trans; [apply perm_swap|]. apply perm_skip. exact IH. Qed.
  Lemma isort_perm : forall l, Permutation l (isort le l).
  Proof. induction l as [|x t IH]; cbn [isort]; [constructor|]. eapply perm_trans; [apply perm_skip; exact IH|apply insert_perm]. Qed.
  Lemma insert_sorted x : forall l, StronglySorted leP l -> StronglySorted leP (insert le x l).
  Proof.
    induction l as [|y t IH]; intros Hs; cbn [insert]; [repeat constructor|].
    inversion Hs as [|? ? Hst Hall]; subst. destruct (le x y) eqn:E.
    - constructor; [exact Hs|]. constructor; [exact E|]. eapply Forall_impl; [|exact Hall]. intros z Hz. exact (le_trans x y z E Hz).
    - constructor; [apply IH; exact Hst|].
      assert (Hyx : le y x = true) by (destruct (le_total x y) as [H|H]; [congruence|exact H]).
      apply (Permutation_Forall (insert_perm x t)). constructor; assumption.
  Qed.
  Lemma isort_sorted : forall l, StronglySorted leP (isort le l).
  Proof. induction l as [|x t IH]; cbn [isort]; [constructor|apply insert_sorted; exact IH]. Qed.

  (* two sorted arrangements of the same elements coincide when no two distinct elements tie *)
  Lemma sorted_perm_unique : forall l l', StronglySorted leP l -> StronglySorted leP l' -> Permutation l l' ->
    (forall x y, In x l -> In y l -> le x y = true -> le y x = true -> x = y) -> l = l'.
  Proof.
    induction l as [|a l IH]; intros l' S1 S2 P Hanti.
    - apply Permutation_nil in P. subst. reflexivity.
    - destruct l' as [|b l']; [apply Permutation_sym in P; apply Permutation_nil in P; discriminate|].
      inversion S1 as [|? ? S1' F1]; subst. inversion S2 as [|? ? S2' F2]; subst.
      assert (Hab : a = b).
      { assert (Ha : In a (b :: l')) by (apply (Permutation_in _ P); left; reflexivity).
        assert (Hb : In b (a :: l)) by (apply Permutation_sym in P; apply (Permutation_in _ P); left; reflexivity).
        destruct Ha as [E|Ha]; [congruence|]. destruct Hb as [E|Hb]; [congruence|].
        apply Hanti; [left; reflexivity|right; exact Hb| |].
        - rewrite Forall_forall in F1. apply F1. exact Hb.
        - rewrite Forall_forall in F2. apply F2. exact Ha. }
      subst b. f_equal. apply IH; [exact S1'|exact S2'|exact (Permutation_cons_inv P)|].
      intros x y Hx Hy. apply Hanti; right; assumption.
  Qed.
  Theorem isort_deterministic : forall l l', Permutation l l' ->
    (forall x y, In x l -> In y l -> le x y = true -> le y x = true -> x = y) -> isort le l = isort le l'.
  Proof.
    intros l l' P Hanti. apply sorted_perm_unique; [apply isort_sorted|apply isort_sorted| |].
    - eapply perm_trans; [apply Permutation_sym; apply isort_perm|]. eapply perm_trans; [exact P|apply isort_perm].
    - intros x y Hx Hy. apply Hanti; apply (Permutation_in _ (Permutation_sym (isort_perm l))); assumption.
  Qed.
End SortProofs.

(* the merged order is sorted, a rearrangement of the parts, and - when no two part names have the same key - the same for every
   order in which the chromosomes are listed *)
Theorem natural_sort_sorted : forall l, StronglySorted (fun a b => nat_le a b = true) (nsort l) /\ Permutation l (nsort l).
Proof. intros l. split; [apply (isort_sorted nat_le nat_le_total nat_le_trans)|apply isort_perm]. Qed.
Theorem natural_sort_deterministic : forall l l', Permutation l l' ->
  (forall x y, In x l -> In y l -> tokens x = tokens y -> x = y) -> nsort l = nsort l'.
Proof.
  intros l l' P Hinj. apply (isort_deterministic nat_le nat_le_total nat_le_trans); [exact P|].
  intros x y Hx Hy H1 H2. apply Hinj; [exact Hx|exact Hy|exact (nat_le_antisym x y H1 H2)].
Qed.
Theorem nsort_by_deterministic {A} (name : A -> str) : forall l l', Permutation l l' ->
  (forall x y, In x l -> In y l -> tokens (name x) = tokens (name y) -> x = y) -> nsort_by name l = nsort_by name l'.
Proof.
  intros l l' P Hinj. unfold nsort_by. apply isort_deterministic; [intros; apply nat_le_total|intros a b c; apply nat_le_trans|exact P|].
  intros x y Hx Hy H1 H2. apply Hinj; [exact Hx|exact Hy|exact (nat_le_antisym _ _ H1 H2)].
Qed.

(* re.split('(\d+)', s) alternates non-digit and digit runs, so position parity decides whether a key element is a str or an int:
   comparing two keys never compares an int with a str (no TypeError, and the arbitrary answer of tok_cmp is never used) *)
Definition is_TS (t : token) : bool := match t with TS _ => true | TI _ => false end.
Lemma tokens_go_kind : forall s cur ind i t, nth_error (tokens_go s cur ind) i = Some t ->
  is_TS t = (if ind then Nat.odd i else Nat.even i).
Proof.
  induction s as [|c s IH]; intros cur ind i t H.
  - cbn [tokens_go] in H. destruct ind.
    + destruct i as [|[|i]]; cbn in H; [inversion H; subst; reflexivity|inversion H; subst; reflexivity|destruct i; discriminate].
    + destruct i as [|i]; cbn in H; [inversion H; subst; reflexivity|destruct i; discriminate].
  - cbn [tokens_go] in H. destruct (is_digit c); destruct ind.
    + exact (IH _ _ _ _ H).
    + destruct i as [|i]; cbn [nth_error] in H; [inversion H; subst; reflexivity|].
      rewrite (IH _ _ _ _ H). rewrite Nat.even_succ. reflexivity.
    + destruct i as [|i]; cbn [nth_error] in H; [inversion H; subst; reflexivity|].
      rewrite (IH _ _ _ _ H). rewrite Nat.odd_succ. reflexivity.
    + exact (IH _ _ _ _ H).
Qed.
Theorem tokens_alternate : forall a b i x y, nth_error (tokens a) i = Some x -> nth_error (tokens b) i = Some y -> is_TS x = is_TS y.
Proof. intros a b i x y Hx Hy. unfold tokens in *. rewrite (tokens_go_kind _ _ _ _ _ Hx), (tokens_go_kind _ _ _ _ _ Hy). reflexivity. Qed.

(* ================================================================ merge_files *)
(* all parts present, no header copied (every call in dataset_processor.py): the merged text is the concatenation, in natural order of
   the part names, of the parts without their leading '#' lines; nothing raises *)
Theorem merge_files_all_present : forall (parts : list (str * list str)),
  merge_files false (map (fun p => (fst p, Some (snd p))) parts) =
  (flat_map (fun p => drop_header (snd p)) (nsort_by fst parts), map fst (nsort_by fst parts), false).
Proof.
  intros parts. unfold merge_files, nsort_by.
  assert (Hs : forall l : list (str * list str),
     isort (fun a b : str * option (list str) => nat_le (fst a) (fst b)) (map (fun p => (fst p, Some (snd p))) l)
     = map (fun p => (fst p, Some (snd p))) (isort (fun a b => nat_le (fst a) (fst b)) l)).
  { induction l as [|x t IH]; [reflexivity|]. cbn [map isort]. rewrite IH. generalize (isort (fun a b : str * list str => nat_le (fst a) (fst b)) t) as u.
    induction u as [|y u IHu]; [reflexivity|]. cbn [map insert fst]. destruct (nat_le (fst x) (fst y)); [reflexivity|]. cbn [map]. rewrite <- IHu. reflexivity. }
  rewrite Hs. generalize (isort (fun a b : str * list str => nat_le (fst a) (fst b)) parts) as u. intros u.
  f_equal; [f_equal|].
  - rewrite map_map. cbn [snd]. induction u as [|y u IHu] using list_ind; [reflexivity|].
    cbn [map merge_go flat_map andb]. f_equal.
    clear IHu. revert y. generalize 1%nat as i. induction u as [|z u IHu]; intros i y; [reflexivity|].
    cbn [map merge_go flat_map andb]. f_equal. apply IHu. exact y.
  - rewrite map_map. reflexivity.
  - induction u as [|y u IHu]; [reflexivity|]. cbn [map existsb snd]. exact IHu.
Qed.

Section MergedOutput.
  Context {C S : Type}.
  Variable ceqb : C -> C -> bool.
  Hypothesis ceqb_eq : forall a b, ceqb a b = true <-> a = b.
  Variable f : C -> S -> list str * S.
  Variable Inv : list C -> S -> Prop.
  Variable s0 : S.
  Hypothesis Inv0 : Inv [] s0.
  Hypothesis Inv_step : forall h s c, Inv h s -> ~ In c h -> Inv (c :: h) (snd (f c s)).
  Hypothesis frame : forall h s c, Inv h s -> ~ In c h -> fst (f c s) = fst (f c s0).
  Variable name : C -> str.                           (* the part file of a chromosome *)

  (* the merged file is the same for every schedule, every completion order and every order in which the chromosomes are listed, and it
     is the natural-order concatenation of what a fresh worker writes for each chromosome *)
  Theorem merged_output_schedule_independent : forall chr_ids chr_ids' sch finished copy_header,
    NoDup chr_ids -> Permutation (concat sch) chr_ids -> Permutation finished (run_workers f s0 sch) ->
    Permutation chr_ids chr_ids' ->
    (forall x y, In x chr_ids -> In y chr_ids -> tokens (name x) = tokens (name y) -> x = y) ->
    merge_files copy_header (map (fun c => (name c, lookup ceqb c finished)) chr_ids)
    = merge_files copy_header (map (fun c => (name c, Some (fst (f c s0)))) chr_ids').
  Proof.
    intros chr_ids chr_ids' sch finished copy ND P Pf Pc Hinj.
    assert (H := schedule_independent ceqb ceqb_eq f Inv s0 Inv0 Inv_step frame chr_ids sch finished ND P Pf).
    unfold collect in H.
    assert (E : map (fun c => (name c, lookup ceqb c finished)) chr_ids = map (fun c => (name c, Some (fst (f c s0)))) chr_ids).
    { clear - H. induction chr_ids as [|c t IH]; [reflexivity|]. cbn [map] in *. inversion H. f_equal. apply IH. assumption. }
    rewrite E. unfold merge_files.
    rewrite (nsort_by_deterministic fst _ _ (Permutation_map (fun c => (name c, Some (fst (f c s0)))) Pc)); [reflexivity|].
    intros x y Hx Hy Ht. apply in_map_iff in Hx. apply in_map_iff in Hy. destruct Hx as [c1 [E1 H1]]. destruct Hy as [c2 [E2 H2]].
    subst x y. cbn [fst] in Ht. rewrite (Hinj c1 c2 H1 H2 Ht). reflexivity.
  Qed.
End MergedOutput.

(* ================================================================ 3a. detected_known_isoforms *)
Lemma memz_cons x i l : memz x (i :: l) = (x =? i) || memz x l. Proof. reflexivity. Qed.
Lemma memz_app x l l' : memz x (l ++ l') = memz x l || memz x l'.
Proof. unfold memz. apply existsb_app. Qed.
Lemma memz_In x l : memz x l = true <-> In x l.
Proof. unfold memz. rewrite existsb_exists. split; [intros [y [Hy E]]; apply Z.eqb_eq in E; subst; exact Hy|intros H; exists x; split; [exact H|apply Z.eqb_refl]]. Qed.
Lemma memz_false x l : memz x l = false <-> ~ In x l.
Proof. rewrite <- memz_In. destruct (memz x l); split; intros; congruence. Qed.

Lemma report_known_agree : forall cands D1 D2, (forall i, In i cands -> memz i D1 = memz i D2) ->
  fst (report_known cands D1) = fst (report_known cands D2).
Proof.
  induction cands as [|i t IH]; intros D1 D2 H; [reflexivity|]. cbn [report_known].
  rewrite <- (H i (or_introl eq_refl)). destruct (memz i D1) eqn:E.
  - apply IH. intros j Hj. apply H. right. exact Hj.
  - assert (IH' := IH (i :: D1) (i :: D2)). destruct (report_known t (i :: D1)) as [r1 d1]. destruct (report_known t (i :: D2)) as [r2 d2].
    cbn [fst] in *. f_equal. apply IH'. intros j Hj. rewrite !memz_cons. rewrite (H j (or_intror Hj)). reflexivity.
Qed.
Lemma report_known_set : forall cands D x, memz x (snd (report_known cands D)) = memz x D || memz x cands.
Proof.
  induction cands as [|i t IH]; intros D x; cbn [report_known snd]; [cbn; rewrite orb_false_r; reflexivity|].
  destruct (memz i D) eqn:E.
  - rewrite IH. rewrite memz_cons. destruct (x =? i) eqn:Ex; [apply Z.eqb_eq in Ex; subst; rewrite E; reflexivity|reflexivity].
  - assert (IH' := IH (i :: D) x). destruct (report_known t (i :: D)) as [r d]. cbn [snd] in *. rewrite IH'. rewrite !memz_cons.
    destruct (x =? i), (memz x D); reflexivity.
Qed.
Lemma chr_known_agree : forall regions D1 D2, (forall i, In i (concat regions) -> memz i D1 = memz i D2) ->
  fst (chr_known regions D1) = fst (chr_known regions D2).
Proof.
  induction regions as [|c t IH]; intros D1 D2 H; [reflexivity|]. cbn [chr_known].
  assert (Hc : forall i, In i c -> memz i D1 = memz i D2) by (intros i Hi; apply H; cbn [concat]; apply in_or_app; left; exact Hi).
  assert (E := report_known_agree c D1 D2 Hc).
  assert (S1 := report_known_set c D1). assert (S2 := report_known_set c D2).
  destruct (report_known c D1) as [r1 d1]. destruct (report_known c D2) as [r2 d2]. cbn [fst snd] in *.
  assert (IH' := IH d1 d2). destruct (chr_known t d1) as [rs1 e1]. destruct (chr_known t d2) as [rs2 e2]. cbn [fst] in *.
  subst r2. f_equal. apply IH'. intros i Hi. rewrite S1, S2. rewrite (H i); [reflexivity|]. cbn [concat]. apply in_or_app. right. exact Hi.
Qed.
Lemma chr_known_set : forall regions D x, memz x (snd (chr_known regions D)) = memz x D || memz x (concat regions).
Proof.
  induction regions as [|c t IH]; intros D x; cbn [chr_known concat]; [cbn; rewrite orb_false_r; reflexivity|].
  assert (S1 := report_known_set c D x). destruct (report_known c D) as [r d]. cbn [snd] in *.
  assert (IH' := IH d x). destruct (chr_known t d) as [rs e]. cbn [snd] in *. rewrite IH', S1, memz_app, orb_assoc. reflexivity.
Qed.
(* frame lemma: a set that holds no isoform of this chromosome has no effect on what is reported for it *)
Theorem detected_frame : forall regions D, (forall i, In i (concat regions) -> ~ In i D) ->
  fst (chr_known regions D) = fst (chr_known regions []).
Proof. intros regions D H. apply chr_known_agree. intros i Hi. cbn. apply memz_false. apply H. exact Hi. Qed.
(* and the set only grows by isoforms of the chromosomes processed *)
Theorem detected_grows : forall regions D x, In x (snd (chr_known regions D)) <-> In x D \/ In x (concat regions).
Proof. intros. rewrite <- !memz_In. rewrite chr_known_set. apply orb_true_iff. Qed.

(* the pool of workers with the class-level set as carried state: chromosomes with pairwise disjoint isoform ids (ids are primary keys of
   the annotation database, so an id belongs to one chromosome) are reported identically under every schedule *)
Section DetectedSchedule.
  Variable ids : nat -> list (list Z).               (* chromosome index -> regions -> candidate known isoforms *)
  Hypothesis ids_disjoint : forall c c' x, In x (concat (ids c)) -> In x (concat (ids c')) -> c = c'.
  Let f (c : nat) (D : list Z) := chr_known (ids c) D.
  Let Inv (h : list nat) (D : list Z) : Prop := forall x, In x D -> exists c, In c h /\ In x (concat (ids c)).
  Theorem detected_schedule_independent : forall chr_ids sch finished,
    NoDup chr_ids -> Permutation (concat sch) chr_ids -> Permutation finished (run_workers f [] sch) ->
    collect Nat.eqb chr_ids finished = map (fun c => Some (fst (chr_known (ids c) []))) chr_ids.
  Proof.
    apply (schedule_independent Nat.eqb Nat.eqb_eq f Inv []).
    - intros x [].
    - intros h D c HI Hn x Hx. unfold f in Hx. apply detected_grows in Hx. destruct Hx as [Hx|Hx].
      + destruct (HI x Hx) as [c' [Hc' Hi]]. exists c'. split; [right; exact Hc'|exact Hi].
      + exists c. split; [left; reflexivity|exact Hx].
    - intros h D c HI Hn. unfold f. apply detected_frame. intros i Hi HD. destruct (HI i HD) as [c' [Hc' Hi']].
      rewrite (ids_disjoint c c' i Hi Hi') in Hn. contradiction.
  Qed.
End DetectedSchedule.
(* after fixes/C10_reset_class_state.diff the frame condition holds for every carried set *)
Theorem detected_frame_fix : forall regions D, fst (chr_known_fix regions D) = fst (chr_known_fix regions []).
Proof. reflexivity. Qed.
(* the current code: a set that already holds an isoform of the chromosome (the same annotation processed before in this process)
   suppresses it *)
Example detected_leak_witness : fst (chr_known [[1; 2]; [3]] [1; 3]) = [[2]; []] /\ fst (chr_known [[1; 2]; [3]] []) = [[1; 2]; [3]].
Proof. split; reflexivity. Qed.

(* ================================================================ 3b. assignment ids are only keys *)
Lemma find_resolved_rename {T} (r : Z -> Z) : (forall a b, r a = r b -> a = b) ->
  forall (entries : list (Z * Z * T)) read aid best,
  find_resolved read (r aid) (rename_entries r entries) best = find_resolved read aid entries best.
Proof.
  intros Hinj. induction entries as [|[[rd a] t] rest IH]; intros read aid best; [reflexivity|].
  cbn [rename_entries map find_resolved fst snd]. fold (rename_entries r rest). rewrite IH.
  replace (r a =? r aid) with (a =? aid); [reflexivity|].
  destruct (a =? aid) eqn:E; [apply Z.eqb_eq in E; subst; symmetry; apply Z.eqb_refl|].
  symmetry. apply Z.eqb_neq. intros Hr. apply Hinj in Hr. apply Z.eqb_neq in E. contradiction.
Qed.
(* whatever value the class-level counter had when the worker started the chromosome (any injective renumbering of the ids, in
   particular a shift), stage 2 attaches the same resolved entry to every record *)
Theorem assignment_ids_only_keys {T} : forall (r : Z -> Z), (forall a b, r a = r b -> a = b) ->
  forall records (entries : list (Z * Z * T)), resolve_all (rename_records r records) (rename_entries r entries) = resolve_all records entries.
Proof.
  intros r Hinj records entries. unfold resolve_all, rename_records. rewrite map_map. apply map_ext. intros [rd a]. cbn [fst snd].
  apply find_resolved_rename. exact Hinj.
Qed.
Lemma number_from_shift {A} (l : list A) a k : number_from (a + k) l = map (fun p => (fst p + k, snd p)) (number_from a l).
Proof.
  unfold number_from. generalize (seq 0 (length l)) as ks. intros ks. revert l. induction ks as [|j ks IH]; intros l; [reflexivity|].
  destruct l as [|x l]; [reflexivity|]. cbn [map combine fst snd]. rewrite IH. f_equal. f_equal. lia.
Qed.

(* ================================================================ 3c. feature ids are only keys *)
Section FeatureIds.
  Variable r : Z -> Z.
  Hypothesis r_inj : forall a b, r a = r b -> a = b.
  Lemma r_eqb a b : (r a =? r b) = (a =? b).
  Proof. destruct (a =? b) eqn:E; [apply Z.eqb_eq in E; subst; apply Z.eqb_refl|]. apply Z.eqb_neq. intros H. apply r_inj in H. apply Z.eqb_neq in E. contradiction. Qed.
  Lemma memz_map_r x l : memz (r x) (map r l) = memz x l.
  Proof. induction l as [|y t IH]; [reflexivity|]. cbn [map]. rewrite !memz_cons, r_eqb, IH. reflexivity. Qed.
  Lemma first_seen_rename : forall ids seen, first_seen (map r ids) (map r seen) = map r (first_seen ids seen).
  Proof. induction ids as [|i t IH]; intros seen; [reflexivity|]. cbn [map first_seen]. rewrite memz_map_r. destruct (memz i seen); [apply IH|].
    cbn [map]. f_equal. apply (IH (i :: seen)). Qed.
  Lemma filter_rename (p q : fevent -> bool) evs : (forall e, p (mkfe (r (fe_id e)) (fe_name e) (fe_group e) (fe_incl e)) = q e) ->
    filter p (rename_fevents r evs) = rename_fevents r (filter q evs).
  Proof. intros H. induction evs as [|e t IH]; [reflexivity|]. cbn [rename_fevents map filter]. fold (rename_fevents r t). rewrite H.
    destruct (q e); [cbn [map]; fold (rename_fevents r (filter q t)); f_equal; exact IH|exact IH]. Qed.
  Lemma fcount_rename evs fid g incl : fcount (rename_fevents r evs) (r fid) g incl = fcount evs fid g incl.
  Proof. unfold fcount. rewrite (filter_rename _ (fun e => (fe_id e =? fid) && (fe_group e =? g) && Bool.eqb (fe_incl e) incl)).
    - unfold rename_fevents. rewrite map_length. reflexivity.
    - intros e. cbn [fe_id fe_group fe_incl]. rewrite r_eqb. reflexivity. Qed.
  Lemma fname_rename evs fid : fname (rename_fevents r evs) (r fid) = fname evs fid.
  Proof. unfold fname. rewrite (filter_rename _ (fun e => fe_id e =? fid)).
    - destruct (filter (fun e => fe_id e =? fid) evs); reflexivity.
    - intros e. cbn [fe_id]. apply r_eqb. Qed.
  Lemma flat_map_map {A B D} (h : A -> B) (k : B -> list D) l : flat_map k (map h l) = flat_map (fun x => k (h x)) l.
  Proof. induction l as [|x t IH]; [reflexivity|]. cbn [map flat_map]. rewrite IH. reflexivity. Qed.
  (* FeatureInfo.feature_id_counter is process-wide, so the ids a chromosome's features get depend on what the worker did before;
     the dumped rows do not: they are the same under every injective renumbering *)
  Theorem feature_ids_only_keys : forall groups evs, fdump groups (rename_fevents r evs) = fdump groups evs.
  Proof.
    intros groups evs. unfold fdump.
    assert (E : map fe_id (rename_fevents r evs) = map r (map fe_id evs)) by (unfold rename_fevents; rewrite !map_map; reflexivity).
    rewrite E. change (@nil Z) with (map r []) at 1. rewrite first_seen_rename, flat_map_map.
    apply flat_map_ext. intros fid. apply flat_map_ext. intros g. rewrite !fcount_rename, fname_rename. reflexivity.
  Qed.
End FeatureIds.

(* ================================================================ 3d. the gene list of a feature row *)
Lemma Zleb_total a b : (a <=? b) = true \/ (b <=? a) = true. Proof. rewrite !Z.leb_le. lia. Qed.
Lemma Zleb_trans a b c : (a <=? b) = true -> (b <=? c) = true -> (a <=? c) = true. Proof. rewrite !Z.leb_le. lia. Qed.
(* repaired: every enumeration order of the set (every hash seed) prints the same list *)
Theorem gene_list_perm_invariant : forall e1 e2, Permutation e1 e2 -> gene_list_fix e1 = gene_list_fix e2.
Proof. intros e1 e2 P. unfold gene_list_fix. apply (isort_deterministic Z.leb Zleb_total Zleb_trans); [exact P|].
  intros x y _ _ H1 H2. apply Z.leb_le in H1. apply Z.leb_le in H2. lia. Qed.
(* current code: two enumerations of the same two-gene set print different rows *)
Example gene_list_current_code_refuted : Permutation [1; 2] [2; 1] /\ gene_list_cur [1; 2] <> gene_list_cur [2; 1].
Proof. split; [apply perm_swap|discriminate]. Qed.

(* ================================================================ 4. experiments *)
Lemma run_samples_map {E G Out} (step : E -> G -> Out * G) (out : E -> Out) :
  (forall e g, fst (step e g) = out e) -> forall es g, run_samples step es g = map out es.
Proof. intros H. induction es as [|e t IH]; intros g; [reflexivity|]. cbn [run_samples map]. rewrite <- (H e g). destruct (step e g) as [o g']. cbn [fst]. f_equal. apply IH. Qed.
(* repaired code: what is produced for an experiment does not depend on the state left by the experiments before it, nor on the
   process-pool mode; so a run over any sequence gives every experiment its stand-alone output *)
Theorem samples_independent : forall dmi dme st rgfn pool pool' es g,
  run_samples (process_sample_fix dmi dme st rgfn pool) es g = map (fun e => fst (process_sample_fix dmi dme st rgfn pool' e (init_state dmi dme rgfn))) es.
Proof. intros. apply run_samples_map. intros e g'. reflexivity. Qed.
Theorem samples_order_irrelevant : forall dmi dme st rgfn pool es es' g g' e,
  In e es -> In e es' ->
  exists o, In o (run_samples (process_sample_fix dmi dme st rgfn pool) es g) /\ In o (run_samples (process_sample_fix dmi dme st rgfn pool) es' g') /\
            o = fst (process_sample_fix dmi dme st rgfn pool e (init_state dmi dme rgfn)).
Proof.
  intros. exists (fst (process_sample_fix dmi dme st rgfn pool e (init_state dmi dme rgfn))).
  rewrite (samples_independent dmi dme st rgfn pool pool es g), (samples_independent dmi dme st rgfn pool pool es' g').
  split; [apply in_map_iff; exists e; auto|split; [apply in_map_iff; exists e; auto|reflexivity]].
Qed.
(* current code, what the flags really are: the or over the experiments processed so far *)
Theorem sticky_flags_characterisation : forall st rgfn pool es dmi dme,
  map o_mono_intronic (run_samples (process_sample_cur st rgfn pool) es (init_state dmi dme rgfn))
  = map (fun k => set_strategy (dmi || existsb (fun e => set_strategy (e_polya_high e) st) (firstn (Datatypes.S k) es)) st) (seq 0 (length es)).
Proof.
  intros st rgfn pool es dmi dme. unfold init_state. generalize rgfn at 2 as rp. generalize (@nil Z) as d. generalize 0 as un.
  assert (G : forall es mi me un d rp, set_strategy mi st = mi \/ mi = dmi ->
     map o_mono_intronic (run_samples (process_sample_cur st rgfn pool) es (mkg mi me un d rp))
     = map (fun k => set_strategy (mi || existsb (fun e => set_strategy (e_polya_high e) st) (firstn (Datatypes.S k) es)) st) (seq 0 (length es))).
  { clear es. induction es as [|e t IH]; intros mi me un d rp Hmi; [reflexivity|].
    cbn [run_samples length seq map]. unfold process_sample_cur at 1. cbn [g_mono_intronic g_mono_exonic g_unaligned g_detected].
    destruct (if pool then _ else _) as [known d'] eqn:Ek. cbn [map o_mono_intronic firstn existsb]. rewrite orb_false_r. f_equal.
    rewrite IH; [|left; destruct st; reflexivity].
    rewrite <- seq_shift, map_map. apply map_ext. intros k. cbn [firstn existsb].
    destruct st; cbn [set_strategy]; try reflexivity. rewrite orb_assoc. reflexivity. }
  intros un d rp. apply G. right. reflexivity.
Qed.
(* the three leaks of the current code, each on a two-experiment sequence: the second experiment's output differs from its stand-alone
   output *)
Definition ex_high := mke true 0 0 [[[1; 2]]] 1.
Definition ex_low := mke false 0 0 [[[1; 2]]] 1.
Definition ex_replicas := mke false 0 0 [[[1; 2]]] 2.
Definition ex_unmapped := mke false 7 0 [[[1; 2]]] 1.
Example samples_independent_refuted_sticky_flags :
  run_samples (process_sample_cur PAuto false true) [ex_high; ex_low] (init_state false false false)
  <> map (fun e => fst (process_sample_cur PAuto false true e (init_state false false false))) [ex_high; ex_low].
Proof. vm_compute. discriminate. Qed.
Example samples_independent_refuted_unaligned :
  run_samples (process_sample_cur PAuto false true) [ex_unmapped; ex_low] (init_state true true false)
  <> map (fun e => fst (process_sample_cur PAuto false true e (init_state true true false))) [ex_unmapped; ex_low].
Proof. vm_compute. discriminate. Qed.
Example samples_independent_refuted_detected_threads1 :
  run_samples (process_sample_cur PAuto false false) [ex_low; ex_low] (init_state true true false)
  <> map (fun e => fst (process_sample_cur PAuto false false e (init_state true true false))) [ex_low; ex_low]
  /\ run_samples (process_sample_cur PAuto false true) [ex_low; ex_low] (init_state true true false)
  = map (fun e => fst (process_sample_cur PAuto false true e (init_state true true false))) [ex_low; ex_low].
Proof. split; [vm_compute; discriminate|reflexivity]. Qed.
Example samples_independent_fix_on_the_witnesses :
  run_samples (process_sample_fix false false PAuto true false) [ex_high; ex_unmapped; ex_low; ex_low; ex_replicas; ex_low] (init_state false false true)
  = map (fun e => fst (process_sample_fix false false PAuto true true e (init_state false false true))) [ex_high; ex_unmapped; ex_low; ex_low; ex_replicas; ex_low].
Proof. reflexivity. Qed.

(* args.use_technical_replicas is per-experiment derived state: whatever value the previous experiments left (and in both modes, for both code
   variants), the model constructor of an experiment sees read_group == "file_name" and more than one file *)
Theorem use_technical_replicas_frame : forall dmi dme st rgfn pool e g g',
  o_replicas (fst (process_sample_fix dmi dme st rgfn pool e g)) = replicas_flag rgfn e /\
  o_replicas (fst (process_sample_cur st rgfn pool e g)) = replicas_flag rgfn e /\
  o_replicas (fst (process_sample_fix dmi dme st rgfn pool e g)) = o_replicas (fst (process_sample_fix dmi dme st rgfn pool e g')).
Proof.
  intros. unfold process_sample_fix, process_sample_cur. cbn [fst o_replicas]. split; [reflexivity|]. split; [|reflexivity].
  destruct (if pool then _ else _). reflexivity.
Qed.
(* a one-file experiment before a two-file one, reads grouped by file name: the second still gets the replica filter *)
Example use_technical_replicas_example :
  map o_replicas (run_samples (process_sample_fix true true PAuto true false) [ex_low; ex_replicas; ex_low; ex_replicas] (init_state true true true)) = [false; true; false; true].
Proof. reflexivity. Qed.
(* ================================================================ 5. combine_counts *)
Lemma zinsert_mem x y l : memz x (zinsert y l) = (x =? y) || memz x l.
Proof.
  induction l as [|z t IH]; cbn [zinsert]; [reflexivity|]. destruct (y <? z) eqn:E1; [reflexivity|]. destruct (y =? z) eqn:E2.
  - apply Z.eqb_eq in E2. subst. rewrite memz_cons. destruct (x =? z); reflexivity.
  - rewrite !memz_cons, IH. destruct (x =? y), (x =? z); reflexivity.
Qed.
Lemma sorted_union_mem x keys : memz x (sorted_union keys) = memz x keys.
Proof. induction keys as [|k t IH]; [reflexivity|]. cbn [sorted_union fold_right]. fold (sorted_union t). rewrite zinsert_mem, IH. reflexivity. Qed.
Lemma zinsert_sorted y l : StronglySorted Z.lt l -> StronglySorted Z.lt (zinsert y l).
Proof.
  induction l as [|z t IH]; intros Hs; cbn [zinsert]; [repeat constructor|]. inversion Hs as [|? ? Hst Hall]; subst.
  destruct (y <? z) eqn:E1.
  - apply Z.ltb_lt in E1. constructor; [exact Hs|]. constructor; [exact E1|]. eapply Forall_impl; [|exact Hall]. intros; lia.
  - destruct (y =? z) eqn:E2; [exact Hs|]. apply Z.ltb_ge in E1. apply Z.eqb_neq in E2. constructor; [apply IH; exact Hst|].
    rewrite Forall_forall in *. intros w Hw. apply memz_In in Hw. rewrite zinsert_mem in Hw. apply orb_true_iff in Hw. destruct Hw as [Hw|Hw].
    + apply Z.eqb_eq in Hw. lia.
    + apply Hall. apply memz_In. exact Hw.
Qed.
Lemma sorted_union_sorted keys : StronglySorted Z.lt (sorted_union keys).
Proof. induction keys as [|k t IH]; [constructor|]. cbn [sorted_union fold_right]. apply zinsert_sorted. exact IH. Qed.
Lemma sorted_nodupb l : StronglySorted Z.lt l -> nodupb l = true.
Proof. induction 1 as [|x t Hs IH Hall]; [reflexivity|]. cbn [nodupb]. rewrite IH, andb_true_r. apply negb_true_iff. apply memz_false. intros Hi.
  rewrite Forall_forall in Hall. specialize (Hall x Hi). lia. Qed.
Lemma nodupb_NoDup l : nodupb l = true -> NoDup l.
Proof. induction l as [|x t IH]; intros H; [constructor|]. cbn [nodupb] in H. apply andb_true_iff in H. destruct H as [H1 H2].
  constructor; [apply memz_false; apply negb_true_iff; exact H1|apply IH; exact H2]. Qed.
Lemma zs_eqb_eq x y : zs_eqb x y = true <-> x = y.
Proof. revert y. induction x as [|a s IH]; destruct y as [|b t]; cbn [zs_eqb]; split; intros H; try reflexivity; try discriminate.
  - apply andb_true_iff in H. destruct H as [H1 H2]. apply Z.eqb_eq in H1. apply IH in H2. congruence.
  - inversion H; subst. rewrite Z.eqb_refl. apply IH. reflexivity. Qed.
Lemma oz_eqb_eq a b : oz_eqb a b = true <-> a = b.
Proof. destruct a, b; cbn [oz_eqb]; split; intros H; try reflexivity; try discriminate; [apply Z.eqb_eq in H; congruence|inversion H; apply Z.eqb_refl]. Qed.
Lemma ozs_eqb_eq x y : ozs_eqb x y = true <-> x = y.
Proof. revert y. induction x as [|a s IH]; destruct y as [|b t]; cbn [ozs_eqb]; split; intros H; try reflexivity; try discriminate.
  - apply andb_true_iff in H. destruct H as [H1 H2]. apply oz_eqb_eq in H1. apply IH in H2. congruence.
  - inversion H; subst. rewrite (proj2 (oz_eqb_eq b b) eq_refl). apply IH. reflexivity. Qed.
Lemma zlookup_in t : forall k v, NoDup (map fst t) -> In (k, v) t -> zlookup k t = Some v.
Proof.
  induction t as [|[k' v'] r IH]; intros k v ND Hi; [destruct Hi|]. cbn [zlookup]. cbn [map fst] in ND. inversion ND; subst. destruct Hi as [E|Hi].
  - inversion E; subst. rewrite Z.eqb_refl. reflexivity.
  - destruct (k =? k') eqn:Ek; [|apply IH; assumption]. apply Z.eqb_eq in Ek. subst. exfalso. apply H1. apply (in_map fst) in Hi. exact Hi.
Qed.
Lemma zlookup_none k t : ~ In k (map fst t) -> zlookup k t = None.
Proof. induction t as [|[k' v'] r IH]; intros H; [reflexivity|]. cbn [zlookup]. cbn [map fst] in H. destruct (k =? k') eqn:E.
  - apply Z.eqb_eq in E. subst. exfalso. apply H. left. reflexivity.
  - apply IH. intros Hi. apply H. right. exact Hi. Qed.
Lemma union_keys_in k (ts : list (list (Z * Z))) : In k (flat_map (map fst) ts) <-> exists t, In t ts /\ In k (map fst t).
Proof. rewrite in_flat_map. reflexivity. Qed.

(* the model of combine_table: one row per feature of the union of the experiments' (transformed) tables, no feature twice, and cell i of a
   feature's row is that feature's value in experiment i's own table (empty when the experiment does not have the feature) *)
Theorem combined_tables_are_columns : forall full tables,
  let ts := map (transform full) tables in
  let comb := combine_tables full tables in
  NoDup (map fst comb) /\
  (forall k, In k (map fst comb) <-> exists t, In t ts /\ In k (map fst t)) /\
  (forall k row, In (k, row) comb -> row = map (zlookup k) ts) /\
  (forall t k v, In t ts -> NoDup (map fst t) -> In (k, v) t -> zlookup k t = Some v) /\
  (forall t k, In t ts -> ~ In k (map fst t) -> zlookup k t = None).
Proof.
  intros full tables ts comb.
  assert (Ek : map fst comb = sorted_union (flat_map (map fst) ts)) by (unfold comb, combine_tables; rewrite map_map; cbn [fst]; apply map_id).
  split; [rewrite Ek; apply nodupb_NoDup; apply sorted_nodupb; apply sorted_union_sorted|].
  split; [intros k; rewrite Ek, <- memz_In, sorted_union_mem, memz_In; apply union_keys_in|].
  split; [intros k row H; unfold comb, combine_tables in H; apply in_map_iff in H; destruct H as [k' [E _]]; inversion E; subst; reflexivity|].
  split; [intros t k v _; apply zlookup_in|intros t k _; apply zlookup_none].
Qed.
Theorem combine_tables_satisfies_combined_ok : forall full labels tables, combined_ok full labels labels tables (combine_tables full tables) = true.
Proof.
  intros full labels tables. destruct (combined_tables_are_columns full tables) as [H1 [H2 [H3 _]]]. cbn zeta in *.
  unfold combined_ok. set (ts := map (transform full) tables) in *. set (comb := combine_tables full tables) in *.
  assert (Ek : map fst comb = sorted_union (flat_map (map fst) ts)) by (unfold comb, combine_tables; rewrite map_map; cbn [fst]; apply map_id).
  rewrite (proj2 (zs_eqb_eq labels labels) eq_refl). cbn [andb].
  rewrite Ek at 1. rewrite (sorted_nodupb _ (sorted_union_sorted _)). cbn [andb].
  apply andb_true_iff. split.
  - apply forallb_forall. intros [k row] Hr. cbn [fst snd]. rewrite (H3 k row Hr). rewrite (proj2 (ozs_eqb_eq _ _) eq_refl). cbn [andb].
    apply existsb_exists. apply (in_map fst) in Hr. cbn [fst] in Hr. apply H2 in Hr. destruct Hr as [t [Ht Hk]]. exists t. split; [exact Ht|apply memz_In; exact Hk].
  - apply forallb_forall. intros t Ht. apply forallb_forall. intros [k v] Hkv. cbn [fst]. apply memz_In. apply H2. exists t. split; [exact Ht|].
    apply (in_map fst) in Hkv. exact Hkv.
Qed.
(* soundness of the checker evaluated on the real combined_* files *)
Theorem combined_ok_sound : forall full header labels tables comb, combined_ok full header labels tables comb = true ->
  let ts := map (transform full) tables in
  header = labels /\ NoDup (map fst comb) /\
  (forall k row, In (k, row) comb -> row = map (zlookup k) ts) /\
  (forall k, In k (map fst comb) <-> exists t, In t ts /\ In k (map fst t)).
Proof.
  intros full header labels tables comb H ts. unfold combined_ok in H. fold ts in H.
  apply andb_true_iff in H. destruct H as [H H4]. apply andb_true_iff in H. destruct H as [H H3]. apply andb_true_iff in H. destruct H as [H1 H2].
  split; [apply zs_eqb_eq; exact H1|]. split; [apply nodupb_NoDup; exact H2|].
  rewrite forallb_forall in H3. rewrite forallb_forall in H4.
  split.
  - intros k row Hr. specialize (H3 _ Hr). cbn [fst snd] in H3. apply andb_true_iff in H3. destruct H3 as [H3 _]. apply ozs_eqb_eq. exact H3.
  - intros k. split.
    + intros Hk. apply in_map_iff in Hk. destruct Hk as [[k' row] [E Hr]]. cbn [fst] in E. subst k'. specialize (H3 _ Hr). cbn [fst snd] in H3.
      apply andb_true_iff in H3. destruct H3 as [_ H3]. apply existsb_exists in H3. destruct H3 as [t [Ht Hm]]. exists t. split; [exact Ht|apply memz_In; exact Hm].
    + intros [t [Ht Hk]]. specialize (H4 _ Ht). rewrite forallb_forall in H4. apply in_map_iff in Hk. destruct Hk as [[k' v] [E Hkv]]. cbn [fst] in E. subst k'.
      specialize (H4 _ Hkv). cbn [fst] in H4. apply memz_In. exact H4.
Qed.

(* ================================================================ merge_file_list: the part name that is looked for vs the one written *)
Lemma last_occ_none d : forall s i best, occurs d s = false -> last_occ d s i best = best.
Proof.
  induction s as [|x t IH]; intros i best H; cbn [last_occ occurs] in *.
  - rewrite orb_false_r in H. rewrite H. reflexivity.
  - apply orb_false_iff in H. destruct H as [H1 H2]. rewrite H1. apply IH. exact H2.
Qed.
Lemma last_occ_app d : forall a s i best, s <> [] -> exists best', last_occ d (a ++ s) i best = last_occ d s (i + length a) best'.
Proof.
  induction a as [|x a IH]; intros s i best Hs.
  - exists best. cbn [app length]. rewrite Nat.add_0_r. reflexivity.
  - cbn [app last_occ length]. destruct (IH s (Datatypes.S i) (if is_prefix d (x :: a ++ s) then Some i else best) Hs) as [b' E].
    exists b'. rewrite E. f_equal. lia.
Qed.
(* merge_files looks for the part the per-chromosome writer really wrote exactly when the experiment name does not occur again to the
   right of its own position in <dir><name><suffix> *)
Theorem part_name_correct : forall dir label chr_id suffix, label <> [] -> occurs label (tl (label ++ suffix)) = false ->
  part_name (dir ++ label ++ suffix) label chr_id = written_part_name dir label chr_id suffix.
Proof.
  intros dir label chr_id suffix Hl Hn. unfold part_name, rreplace, written_part_name.
  destruct label as [|x l]; [contradiction|]. cbn [tl app] in Hn.
  destruct (last_occ_app (x :: l) dir ((x :: l) ++ suffix) 0%nat None) as [b' E]; [discriminate|]. rewrite E. cbn [app last_occ Nat.add].
  assert (Hp : is_prefix (x :: l) (x :: l ++ suffix) = true) by apply (is_prefix_refl_app (x :: l) suffix).
  rewrite Hp. rewrite (last_occ_none (x :: l) (l ++ suffix) _ _ Hn).
  rewrite firstn_app, firstn_all, Nat.sub_diag. cbn [firstn]. rewrite app_nil_r.
  rewrite skipn_app. replace (length dir + length (x :: l) - length dir)%nat with (length (x :: l)) by lia.
  rewrite (skipn_all2 dir) by lia. cbn [app].
  change (x :: l ++ suffix) with ((x :: l) ++ suffix). rewrite skipn_app, skipn_all, Nat.sub_diag. cbn [skipn app].
  rewrite <- !app_assoc. reflexivity.
Qed.
(* experiment "S" with --sqanti_output: the name occurs again in ".novel_vs_known.SQANTI-like.tsv" *)
Example part_name_refuted :
  part_name [47; 83; 47; 83; 46; 83; 81] [83] [99] = [47; 83; 47; 83; 46; 83; 95; 99; 81] /\
  written_part_name [47; 83; 47] [83] [99] [46; 83; 81] = [47; 83; 47; 83; 95; 99; 46; 83; 81].
Proof. split; reflexivity. Qed.

(* the repaired rule finds the written part for every experiment name (dir = the output directory with its final '/', no '/' in the name) *)
Definition no_slash (s : str) : bool := forallb (fun c => negb (c =? 47)) s.
Lemma after_last_slash_noslash : forall x acc, no_slash x = true -> after_last_slash x acc = acc.
Proof. induction x as [|c t IH]; intros acc H; [reflexivity|]. cbn [no_slash forallb] in H. apply andb_true_iff in H. destruct H as [H1 H2].
  cbn [after_last_slash]. apply negb_true_iff in H1. rewrite H1. apply IH. exact H2. Qed.
Lemma after_last_slash_app : forall d x acc, no_slash x = true -> after_last_slash (d ++ [47] ++ x) acc = x.
Proof. induction d as [|c t IH]; intros x acc H.
  - cbn [app after_last_slash]. rewrite Z.eqb_refl. apply after_last_slash_noslash. exact H.
  - cbn [app after_last_slash]. destruct (c =? 47); apply IH; exact H. Qed.
Theorem part_name_fix_correct : forall dir label chr_id suffix, no_slash (label ++ suffix) = true ->
  part_name_fix (dir ++ [47] ++ label ++ suffix) label chr_id = written_part_name (dir ++ [47]) label chr_id suffix.
Proof.
  intros dir label chr_id suffix H. unfold part_name_fix, written_part_name, basename.
  rewrite (after_last_slash_app dir (label ++ suffix) _ H). rewrite is_prefix_refl_app.
  set (d := dir ++ [47]). replace (dir ++ [47] ++ label ++ suffix) with (d ++ (label ++ suffix)) by (unfold d; rewrite <- app_assoc; reflexivity).
  rewrite app_length, Nat.add_sub. rewrite firstn_app, firstn_all, Nat.sub_diag. cbn [firstn]. rewrite app_nil_r.
  rewrite skipn_app, skipn_all, Nat.sub_diag. cbn [skipn app]. reflexivity.
Qed.
Example part_name_fix_on_the_witness : part_name_fix [47; 83; 47; 83; 46; 83; 81] [83] [99] = [47; 83; 47; 83; 95; 99; 46; 83; 81].
Proof. reflexivity. Qed.
