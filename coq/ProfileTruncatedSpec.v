(* C19: left_truncated, rindex and right_truncated of src/common.py, regenerated into gen/Loops.v on every check (membership tests, .index(),
   a descending range with `return i` from inside and a final `raise`), are their declarative readings (ProfileHelpers2.v: positions of the first /
   last 1); no exception is possible. *)
From Coq Require Import ZArith List Bool Lia ZifyBool.
From IQ.gen Require Import Prims Loops.
From IQ Require Import LoopsSupport LoopsIndexSupport ProfileHelpers ProfileHelpers2 LoopsRangeSupport.
Import ListNotations. Open Scope Z_scope.

Lemma first_pos_index l x : first_pos l x = if existsb (Z.eqb x) l then Some (py_list_index l x) else None.
Proof. induction l as [|y t IH]; [reflexivity|]. cbn [first_pos existsb py_list_index]. rewrite (Z.eqb_sym x y).
  destruct (y =? x); cbn [orb]; [reflexivity|]. rewrite IH. destruct (existsb (Z.eqb x) t); cbn [option_map]; [f_equal; lia|reflexivity]. Qed.

Theorem left_truncated_spec read iso : py_left_truncated read iso = spec_left_truncated read iso /\ py_left_truncated_pre read iso = true.
Proof. unfold py_left_truncated, py_left_truncated_pre, spec_left_truncated. rewrite !first_pos_index.
  destruct (existsb (Z.eqb 1) read), (existsb (Z.eqb 1) iso); split; reflexivity. Qed.

(* the descending scan of rindex *)
Definition gr (N el:Z) (s:option Z) (k:nat) (y:Z) : option Z := match s with Some _ => s | None => if y =? el then Some (N - 1 - Z.of_nat k) else None end.
Lemma gr_fold N el : forall l pre s0, s0 = None ->
  fold_left (fun s k => gr N el s k (nth k (pre ++ l) 0)) (seq (length pre) (length l)) s0 =
  option_map (fun j => N - 1 - Z.of_nat (length pre) - j) (first_pos l el).
Proof. induction l as [|y t IH]; intros pre s0 ->; [reflexivity|]. cbn [length seq fold_left first_pos]. rewrite nth_pre. unfold gr at 2.
  destruct (y =? el).
  - cbn [option_map]. rewrite Z.sub_0_r.
    assert (F: forall (ks:list nat) v, fold_left (fun s k => gr N el s k (nth k (pre ++ y :: t) 0)) ks (Some v) = Some v)
      by (induction ks as [|k ks IHk]; intros v; [reflexivity|apply IHk]).
    apply F.
  - rewrite (app_cons_assoc pre t y). rewrite <- (length_snoc pre y). rewrite IH by reflexivity.
    destruct (first_pos t el); cbn [option_map]; [f_equal; rewrite length_snoc; lia|reflexivity]. Qed.

Lemma rindex_fold l el :
  fold_left (py_rindex_step l el) (map (fun k_ => Z.sub (Z.sub (Z.of_nat (length l)) 1) (Z.of_nat k_)) (seq 0 (Z.to_nat (Z.sub (Z.sub (Z.of_nat (length l)) 1) (-1))))) None = last_pos l el.
Proof. rewrite fold_left_map. replace (Z.to_nat (Z.sub (Z.sub (Z.of_nat (length l)) 1) (-1))) with (length (rev l)) by (rewrite rev_length; lia).
  rewrite (fold_left_ext_in _ (fun s k => gr (Z.of_nat (length l)) el s k (nth k ([] ++ rev l) 0))).
  - pose proof (gr_fold (Z.of_nat (length l)) el (rev l) [] None eq_refl) as G. cbn [length] in G. rewrite G. unfold last_pos. destruct (first_pos (rev l) el); cbn [option_map]; [f_equal; lia|reflexivity].
  - intros k Hk s. apply in_seq in Hk. rewrite rev_length in Hk. unfold py_rindex_step, gr. cbn [app].
    replace (Z.sub (Z.sub (Z.of_nat (length l)) 1) (Z.of_nat k)) with (Z.of_nat (length l - 1 - k)) by lia.
    rewrite py_index_nonneg, nth_rev_index by lia. destruct s; [reflexivity|]. replace (Z.of_nat (length l - 1 - k)) with (Z.of_nat (length l) - 1 - Z.of_nat k) by lia. reflexivity. Qed.

Theorem rindex_spec l el :
  (py_rindex_pre l el = match last_pos l el with Some _ => true | None => false end) /\
  forall k, last_pos l el = Some k -> py_rindex l el = k.
Proof. unfold py_rindex, py_rindex_pre. cbv zeta. rewrite rindex_fold. split.
  - destruct (last_pos l el); [|reflexivity]. cbn [andb]. apply forallb_forall. intros i Hi. apply in_map_iff in Hi. destruct Hi as [k [<- Hk]]. apply in_seq in Hk.
    unfold py_index_ok. lia.
  - intros k ->. reflexivity. Qed.

Lemma last_pos_some l x : existsb (Z.eqb x) l = true -> exists k, last_pos l x = Some k.
Proof. intros H. unfold last_pos. rewrite first_pos_index. replace (existsb (Z.eqb x) (rev l)) with true; [eexists; reflexivity|].
  symmetry. apply existsb_exists. apply existsb_exists in H. destruct H as [y [Hy E]]. exists y. split; [apply in_rev; rewrite rev_involutive; exact Hy|exact E]. Qed.
Lemma last_pos_none l x : existsb (Z.eqb x) l = false -> last_pos l x = None.
Proof. intros H. unfold last_pos. rewrite first_pos_index. replace (existsb (Z.eqb x) (rev l)) with false; [reflexivity|].
  symmetry. apply not_true_is_false. intros E. apply existsb_exists in E. destruct E as [y [Hy E]]. apply in_rev in Hy.
  assert (existsb (Z.eqb x) l = true) by (apply existsb_exists; exists y; split; assumption). congruence. Qed.

Theorem right_truncated_spec read iso : py_right_truncated read iso = spec_right_truncated read iso /\ py_right_truncated_pre read iso = true.
Proof. unfold py_right_truncated, py_right_truncated_pre, spec_right_truncated.
  destruct (existsb (Z.eqb 1) read) eqn:E1; [|rewrite (last_pos_none read 1 E1); split; reflexivity].
  destruct (existsb (Z.eqb 1) iso) eqn:E2; [|rewrite (last_pos_none iso 1 E2); destruct (last_pos read 1); split; reflexivity].
  destruct (last_pos_some read 1 E1) as [a Ha]. destruct (last_pos_some iso 1 E2) as [b Hb]. cbn [negb orb].
  destruct (rindex_spec read 1) as [P1 V1]. destruct (rindex_spec iso 1) as [P2 V2]. rewrite Ha in P1. rewrite Hb in P2.
  rewrite (V1 a Ha), (V2 b Hb), P1, P2, Ha, Hb. split; reflexivity. Qed.
