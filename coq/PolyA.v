From Coq Require Import ZArith List Bool Lia ZifyBool.
Import ListNotations. Open Scope Z_scope.
Notation iv := (Z*Z)%type.

Section P.
Variable max_fake : Z.

(* count_polya_exons: scan from the LAST exon backwards; argument is the reversed exon list *)
Definition is_polya_exon (pos:Z) (e:iv) : bool :=
  let len_to := pos - fst e in (len_to <=? 0) || ((len_to <=? max_fake) && (snd e - pos >? 2 * len_to)).
Fixpoint cpa_rev (pos:Z) (l:list iv) : nat :=
  match l with [] => O | e::t => if snd e <=? pos then O else ((if is_polya_exon pos e then 1 else 0) + cpa_rev pos t)%nat end.
Definition count_polya (exons:list iv) (pos:option Z) : nat := match pos with None => O | Some p => cpa_rev p (rev exons) end.

(* count_polyt_exons: scan from the FIRST exon forwards *)
Definition is_polyt_exon (pos:Z) (e:iv) : bool :=
  let len_to := snd e - pos in (len_to <=? 0) || ((len_to <=? max_fake) && (2 * len_to <? pos - fst e)).
Fixpoint cpt (pos:Z) (l:list iv) : nat :=
  match l with [] => O | e::t => if fst e >=? pos then O else ((if is_polyt_exon pos e then 1 else 0) + cpt pos t)%nat end.
Definition count_polyt (exons:list iv) (pos:option Z) : nat := match pos with None => O | Some p => cpt p exons end.

(* reflection x -> -x *)
Definition mir (e:iv) : iv := (- snd e, - fst e).
Definition mirl (l:list iv) : list iv := rev (map mir l).

Lemma is_polyt_mir pos e : is_polyt_exon (- pos) (mir e) = is_polya_exon pos e.
Proof. unfold is_polyt_exon, is_polya_exon, mir. cbn [fst snd]. cbv zeta.
  destruct ((pos - fst e <=? 0) || (pos - fst e <=? max_fake) && (snd e - pos >? 2 * (pos - fst e))) eqn:E; lia. Qed.
Lemma cpt_mir pos l : cpt (- pos) (map mir l) = cpa_rev pos l.
Proof. induction l as [|e t IH]; cbn [map cpt cpa_rev]; [reflexivity|]. rewrite IH, is_polyt_mir.
  unfold mir at 1. cbn [fst snd].
  destruct (snd e <=? pos) eqn:E1; destruct (- snd e >=? - pos) eqn:E2; try lia; reflexivity. Qed.

(* the two scans are mirror images of each other *)
Theorem count_polyt_is_mirror_of_count_polya exons pos :
  count_polyt (mirl exons) (option_map Z.opp pos) = count_polya exons pos.
Proof. destruct pos as [p|]; simpl; [|reflexivity]. unfold mirl. rewrite <- map_rev. apply cpt_mir. Qed.

(* counts never exceed the number of exons *)
Lemma cpa_rev_le pos l : (cpa_rev pos l <= length l)%nat.
Proof. induction l as [|e t IH]; simpl; [lia|]. destruct (snd e <=? pos); [lia|]. destruct (is_polya_exon pos e); lia. Qed.
Lemma cpt_le pos l : (cpt pos l <= length l)%nat.
Proof. induction l as [|e t IH]; simpl; [lia|]. destruct (fst e >=? pos); [lia|]. destruct (is_polyt_exon pos e); lia. Qed.

(* correct_read_info (for >= 2 exons): both counts are decremented when they add up to the number of exons.
   Counts are Z here because the code lets one of them become -1. *)
Definition correct_read_info (exons:list iv) (pa pt:option Z) : Z * Z :=
  match exons with
  | [_] => (0, 0)
  | _ => let a := Z.of_nat (count_polya exons pa) in let t := Z.of_nat (count_polyt exons pt) in
         if a + t =? Z.of_nat (length exons) then (a - 1, t - 1) else (a, t)
  end.

(* add_polya_info slicing: drop a exons at the end (if a > 0), then t exons at the front (if t > 0) *)
Definition trim (exons:list iv) (a t:Z) : list iv :=
  let l1 := if 0 <? a then firstn (length exons - Z.to_nat a) exons else exons in
  if 0 <? t then skipn (Z.to_nat t) l1 else l1.

(* what the code needs for a non-empty result *)
Theorem trim_nonempty exons a t : exons <> [] -> Z.max 0 a + Z.max 0 t < Z.of_nat (length exons) -> trim exons a t <> [].
Proof. intros Hne H. unfold trim.
  assert (L: forall l : list iv, (0 < length l)%nat -> l <> []) by (intros l Hl E; subst; simpl in Hl; lia).
  apply L. destruct (0 <? a) eqn:Ea, (0 <? t) eqn:Et; rewrite ?skipn_length, ?firstn_length; lia. Qed.

(* the trimmed list is a contiguous part of the input: exons = front ++ trim ++ back *)
Theorem trim_contiguous exons a t : exists front back, exons = front ++ trim exons a t ++ back.
Proof. unfold trim. destruct (0 <? a) eqn:Ea, (0 <? t) eqn:Et.
  - exists (firstn (Z.to_nat t) (firstn (length exons - Z.to_nat a) exons)), (skipn (length exons - Z.to_nat a) exons).
    rewrite app_assoc, firstn_skipn, firstn_skipn. reflexivity.
  - exists [], (skipn (length exons - Z.to_nat a) exons). simpl. rewrite firstn_skipn. reflexivity.
  - exists (firstn (Z.to_nat t) exons), []. rewrite app_nil_r, firstn_skipn. reflexivity.
  - exists [], []. rewrite app_nil_r. reflexivity. Qed.
End P.

(* with free positions the hypothesis of trim_nonempty can fail: the configuration of DESIGN §6 #14 *)
Example correct_read_info_can_exceed :
  correct_read_info 40 [(100,120);(200,230);(300,330)] (Some 90) (Some 115) = (3, 1) /\
  trim [(100,120);(200,230);(300,330)] 3 1 = [].
Proof. vm_compute. split; reflexivity. Qed.
Print Assumptions count_polyt_is_mirror_of_count_polya.
Print Assumptions trim_contiguous.
