From Coq Require Import NArith ZArith List Bool Lia Permutation.
Import ListNotations. Open Scope nat_scope.

(* position of a group name in a list (the "numeric id") *)
Fixpoint idx (l:list N) (g:N) : nat := match l with [] => 0 | x::t => if N.eqb x g then 0 else S (idx t g) end.
Lemma nth_idx l g d : In g l -> nth (idx l g) l d = g.
Proof. induction l as [|x t IH]; intros H; [destruct H|]. cbn [idx]. destruct (N.eqb x g) eqn:E; [apply N.eqb_eq in E; exact E|].
  destruct H as [H|H]; [apply N.eqb_neq in E; congruence|]. cbn [nth]. apply IH, H. Qed.
Lemma idx_inj l a b : In a l -> In b l -> idx l a = idx l b -> a = b.
Proof. intros Ha Hb H. rewrite <- (nth_idx l a 0%N Ha), <- (nth_idx l b 0%N Hb), H. reflexivity. Qed.

(* reads carry a feature and a group; counts are per (feature, numeric id) *)
Notation read := (N * N)%type.      (* feature, group *)
Definition count (enum:list N) (reads:list read) (f:N) (id:nat) : nat :=
  length (filter (fun r => N.eqb (fst r) f && Nat.eqb (idx enum (snd r)) id) reads).

(* matrix cell: look the group's numeric id up again *)
Definition matrix (enum:list N) (reads:list read) (f g:N) : nat := count enum reads f (idx enum g).
(* linear row for numeric id `id`: label taken from the SORTED list (current code), or from the enumeration itself (repaired) *)
Definition linear_label_cur (ordered:list N) (id:nat) : N := nth id ordered 0%N.
Definition linear_label_fix (enum:list N) (id:nat) : N := nth id enum 0%N.

Definition truth (reads:list read) (f g:N) : nat := length (filter (fun r => N.eqb (fst r) f && N.eqb (snd r) g) reads).

(* the matrix does not depend on the enumeration order of the group set *)
Theorem matrix_is_truth enum reads f g : In g enum -> Forall (fun r => In (snd r) enum) reads ->
  matrix enum reads f g = truth reads f g.
Proof. intros Hg Hr. unfold matrix, count, truth. induction reads as [|r t IH]; [reflexivity|].
  inversion Hr; subst. cbn [filter].
  assert (E: Nat.eqb (idx enum (snd r)) (idx enum g) = N.eqb (snd r) g).
  { destruct (N.eqb (snd r) g) eqn:E1.
    - apply N.eqb_eq in E1. rewrite E1. apply Nat.eqb_refl.
    - apply Nat.eqb_neq. intros C. apply N.eqb_neq in E1. apply E1. eapply idx_inj; eauto. }
  rewrite E. destruct (N.eqb (fst r) f && N.eqb (snd r) g); cbn [length]; rewrite IH by assumption; reflexivity. Qed.
Corollary matrix_perm_invariant e1 e2 reads f g : Permutation e1 e2 -> In g e1 -> Forall (fun r => In (snd r) e1) reads ->
  matrix e1 reads f g = matrix e2 reads f g.
Proof. intros P Hg Hr. rewrite (matrix_is_truth e1 reads f g Hg Hr). symmetry. apply matrix_is_truth.
  - eapply Permutation_in; eauto.
  - eapply Forall_impl; [|exact Hr]. simpl. intros r H. eapply Permutation_in; eauto. Qed.

(* repaired code (ids taken from the sorted list itself, i.e. enum := ordered): every linear row carries the right label and value *)
Theorem linear_eq_matrix_fix ordered reads f g : In g ordered -> Forall (fun r => In (snd r) ordered) reads ->
  linear_label_fix ordered (idx ordered g) = g /\ count ordered reads f (idx ordered g) = matrix ordered reads f g.
Proof. intros Hg Hr. split; [apply nth_idx, Hg|reflexivity]. Qed.

(* current code: ids from the set's enumeration, labels from the sorted list *)
Example linear_mislabels_cur :
  let enum := [3; 1; 2]%N in let ordered := [1; 2; 3]%N in let reads := [(7,3); (7,3); (7,1)]%N in
  linear_label_cur ordered (idx enum 3%N) = 1%N /\ count enum reads 7%N (idx enum 3%N) = 2 /\ matrix enum reads 7%N 1%N = 1.
Proof. vm_compute. repeat split. Qed.

(* per-feature partition: the groups' cells add up to the ungrouped count *)
Fixpoint sum_over (gs:list N) (c:N->nat) : nat := match gs with [] => 0 | g::t => c g + sum_over t c end.
Lemma sum_over_zero gs : sum_over gs (fun _ => 0) = 0.
Proof. induction gs as [|g t IH]; [reflexivity|exact IH]. Qed.
Lemma sum_over_ext gs (a b:N->nat) : (forall g, a g = b g) -> sum_over gs a = sum_over gs b.
Proof. intros H. induction gs as [|g t IH]; [reflexivity|]. cbn [sum_over]. rewrite H, IH. reflexivity. Qed.
Lemma sum_over_plus gs (a b:N->nat) : sum_over gs (fun g => a g + b g) = sum_over gs a + sum_over gs b.
Proof. induction gs as [|g t IH]; [reflexivity|]. cbn [sum_over]. rewrite IH. lia. Qed.
Definition ind (f:N) (r:read) (g:N) : nat := if N.eqb (fst r) f && N.eqb (snd r) g then 1 else 0.
Lemma truth_cons r t f g : truth (r::t) f g = ind f r g + truth t f g.
Proof. unfold truth, ind. cbn [filter]. destruct (N.eqb (fst r) f && N.eqb (snd r) g); reflexivity. Qed.
Lemma sum_ind gs f r : NoDup gs -> sum_over gs (ind f r) = if N.eqb (fst r) f && existsb (N.eqb (snd r)) gs then 1 else 0.
Proof. induction gs as [|g gs IHg]; intros NDg; [cbn; rewrite andb_false_r; reflexivity|].
  inversion NDg; subst. cbn [sum_over existsb]. rewrite (IHg H2). unfold ind.
  destruct (N.eqb (fst r) f); cbn [andb]; [|reflexivity].
  destruct (N.eqb (snd r) g) eqn:E; cbn [orb]; [|reflexivity].
  apply N.eqb_eq in E. subst g. destruct (existsb (N.eqb (snd r)) gs) eqn:E2; [|reflexivity].
  apply existsb_exists in E2. destruct E2 as [x [Hx Ex]]. apply N.eqb_eq in Ex. subst x. contradiction. Qed.

Theorem groups_partition_ungrouped gs reads f : NoDup gs -> Forall (fun r => In (snd r) gs) reads ->
  sum_over gs (truth reads f) = length (filter (fun r => N.eqb (fst r) f) reads).
Proof. intros ND Hr. induction reads as [|r t IH]; [apply sum_over_zero|].
  inversion Hr; subst. specialize (IH H2).
  rewrite (sum_over_ext gs _ _ (truth_cons r t f)), sum_over_plus, IH, (sum_ind gs f r ND).
  assert (E: existsb (N.eqb (snd r)) gs = true) by (apply existsb_exists; exists (snd r); split; [exact H1|apply N.eqb_refl]).
  rewrite E, andb_true_r. cbn [filter]. destruct (N.eqb (fst r) f); cbn [length]; lia. Qed.
Print Assumptions matrix_perm_invariant.
Print Assumptions groups_partition_ungrouped.
