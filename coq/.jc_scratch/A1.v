From Coq Require Import ZArith NArith QArith List Bool Lia ZifyBool.
From IQ Require Import CorrSupport Exons Corrector Corrector2 Junctions JunctionsProofs JunctionsTyping.
From IQ.gen Require Import Tables Prims.
Import ListNotations. Open Scope Z_scope.

(* ================================================================ definitions *)
Definition comparator_cin (P:params) (K:list iv) (greg:iv) (exons:list iv) (ireg:iv) (II:list iv) (extra:list event)
    (orc:list Corrector.errs) : Corrector.cin :=
  Corrector.mkcin exons false true
    (compare_junctions_gene P K greg (Corrector.hull exons) (jfb exons) ireg II ++ extra) K ireg II orc (p_delta P).
Definition no_read_region (e:event) : Prop := e_read e = undefined_region.
Definition sizes_ok (d:Z) (exons:list iv) : bool :=
  forallb (fun e => 2 * d <? py_interval_len e) exons && forallb (fun i => d <? py_interval_len i) (jfb exons).

Lemma jfb_same : forall l, Intervals.jfb l = Exons.jfb l.
Proof. induction l as [|a t IH]; [reflexivity|]. destruct t as [|b t']; [reflexivity|].
  change (Intervals.jfb (a :: b :: t')) with ((if snd a + 1 <? fst b then [(snd a + 1, fst b - 1)] else []) ++ Intervals.jfb (b :: t')).
  rewrite IH. reflexivity. Qed.
Lemma absent_same : Corrector.absent_position = absent. Proof. reflexivity. Qed.
Lemma undefined_same : (Corrector.undefined_position, Corrector.undefined_position) = undefined_region. Proof. reflexivity. Qed.

(* ================================================================ generic list lemmas *)
Lemma J_nth (l:list iv) k : J l k = nth (Z.to_nat k) l (0,0). Proof. reflexivity. Qed.

Lemma py_nth_J (l:list iv) i : 0 <= i < lenz l -> py_nth l i = Some (J l i).
Proof. unfold lenz. intros H. unfold py_nth. destruct ((0 <=? i) && (i <? Z.of_nat (length l))) eqn:C; [|lia].
  rewrite J_nth. apply nth_error_nth'. lia. Qed.

Lemma in_czrange_n : forall m a k, In k (Corrector.zrange_n a m) <-> a <= k < a + Z.of_nat m.
Proof. induction m as [|m IH]; intros a k; cbn [Corrector.zrange_n In].
  - lia.
  - rewrite IH. lia. Qed.

Lemma all_some_map {A B} (g:A -> option B) (f:A -> B) zs : (forall k, In k zs -> g k = Some (f k)) ->
  all_some (map g zs) = Some (map f zs).
Proof. induction zs as [|z t IH]; intros H; [reflexivity|]. cbn [map all_some]. rewrite (H z (or_introl eq_refl)).
  rewrite IH by (intros; apply H; right; assumption). reflexivity. Qed.

Definition run (l:list iv) (a b:Z) : list iv := map (J l) (Corrector.zrange a (b + 1)).

Lemma py_slice_J (l:list iv) a b : 0 <= a <= b -> b < lenz l -> py_slice l a b = Some (run l a b).
Proof. intros Hab Hb. unfold py_slice, run. unfold lenz in Hb. destruct (2 * Z.of_nat (length l) <? b + 1 - a) eqn:C; [lia|].
  apply all_some_map. intros k Hk. unfold Corrector.zrange in Hk. apply in_czrange_n in Hk. apply py_nth_J. unfold lenz. lia. Qed.

Lemma run_Forall (Q:iv -> Prop) l a b : (forall k, a <= k <= b -> Q (J l k)) -> Forall Q (run l a b).
Proof. intros H. unfold run. apply Forall_forall. intros x Hx. apply in_map_iff in Hx. destruct Hx as (k & <- & Hk).
  unfold Corrector.zrange in Hk. apply in_czrange_n in Hk. apply H. lia. Qed.

Lemma map_zrange_mono (f:Z -> iv) : forall m a, (forall k, a <= k < a + Z.of_nat m -> fst (f k) <= snd (f k)) ->
  (forall k, a <= k -> k + 1 < a + Z.of_nat m -> fst (f k) <= fst (f (k + 1))) -> mono (map f (Corrector.zrange_n a m)).
Proof. induction m as [|m IH]; intros a H1 H2; [exact I|]. cbn [Corrector.zrange_n map]. cbn [mono].
  split; [apply H1; lia|]. split.
  - destruct m as [|m']; cbn [Corrector.zrange_n map]; [exact I|]. apply H2; lia.
  - apply IH; intros; [apply H1|apply H2]; lia. Qed.

Lemma run_mono l a b : (forall k, a <= k <= b -> fst (J l k) <= snd (J l k)) ->
  (forall k, a <= k -> k + 1 <= b -> fst (J l k) <= fst (J l (k + 1))) -> mono (run l a b).
Proof. intros H1 H2. unfold run, Corrector.zrange. apply map_zrange_mono; intros; [apply H1|apply H2]; lia. Qed.

Lemma mono_cons_Forall (m:iv) l : fst m <= snd m -> Forall (fun x => fst m <= fst x) l -> mono l -> mono (m :: l).
Proof. intros H1 H2 H3. cbn [mono]. split; [exact H1|]. split; [|exact H3]. destruct l; [exact I|]. inversion H2; assumption. Qed.

Lemma mono_app l1 l2 : mono l1 -> mono l2 -> (forall x y, In x l1 -> In y l2 -> fst x <= fst y) -> mono (l1 ++ l2).
Proof. induction l1 as [|a t IH]; intros H1 H2 H; [exact H2|]. cbn [app]. cbn [mono] in H1. destruct H1 as (Ha & Hn & Ht).
  apply mono_cons_Forall; [exact Ha| |apply IH; [exact Ht|exact H2|intros; apply H; [right|]; assumption]].
  apply Forall_app. split.
  - assert (G: forall t0 a0, mono (a0 :: t0) -> Forall (fun x => fst a0 <= fst x) t0) by (intros; apply mono_lower; assumption).
    apply G. cbn [mono]. auto.
  - apply Forall_forall. intros y Hy. apply H; [left; reflexivity|exact Hy]. Qed.

Lemma Forall2_nth {A B} (Q:A -> B -> Prop) l1 l2 : Forall2 Q l1 l2 ->
  length l1 = length l2 /\ forall k d1 d2, (k < length l1)%nat -> Q (nth k l1 d1) (nth k l2 d2).
Proof. induction 1 as [|x y l1 l2 Hxy H IH]; [split; [reflexivity|intros; cbn in *; lia]|].
  destruct IH as (IH1 & IH2). split; [cbn; congruence|]. intros [|k] d1 d2 Hk; [exact Hxy|]. cbn [nth]. apply IH2. cbn in Hk. lia. Qed.

Lemma forallb_nth {A} (f:A -> bool) l d k : forallb f l = true -> (k < length l)%nat -> f (nth k l d) = true.
Proof. intros H Hk. rewrite forallb_forall in H. apply H. apply nth_In. exact Hk. Qed.

Lemma skipn_cons_facts {A} (l:list A) : forall k x t d, skipn k l = x :: t -> nth k l d = x /\ skipn (Datatypes.S k) l = t /\ (k < length l)%nat.
Proof. induction l as [|a l IH]; intros k x t d H; [destruct k; discriminate|]. destruct k as [|k].
  - cbn in H. inversion H; subst. cbn. repeat split. lia.
  - cbn [skipn] in H. destruct (IH k x t d H) as (H1 & H2 & H3). cbn [nth length]. repeat split; [exact H1|exact H2|lia]. Qed.

(* ================================================================ exons with gaps and their junctions *)
Lemma sdg_nth : forall l d k, sdg_b l = true -> (k < length l)%nat ->
  fst (nth k l d) <= snd (nth k l d) /\ ((Datatypes.S k < length l)%nat -> snd (nth k l d) + 1 < fst (nth (Datatypes.S k) l d)).
Proof. induction l as [|a t IH]; intros d k H Hk; [cbn in Hk; lia|]. cbn [sdg_b] in H. rewrite !andb_true_iff in H. destruct H as ((Ha & Hn) & Ht).
  destruct k as [|k].
  - cbn [nth]. split; [lia|]. intros Hk2. destruct t as [|b t']; [cbn in Hk2; lia|]. cbn [nth]. lia.
  - cbn [nth]. cbn [length] in Hk. destruct (IH d k Ht ltac:(lia)) as (I1 & I2). split; [exact I1|]. intros Hk2. apply I2. cbn [length] in Hk2. lia. Qed.

Lemma jfb_sdg : forall l d d', sdg_b l = true ->
  length (jfb l) = pred (length l) /\
  forall k, (Datatypes.S k < length l)%nat -> nth k (jfb l) d' = (snd (nth k l d) + 1, fst (nth (Datatypes.S k) l d) - 1).
Proof. induction l as [|a t IH]; intros d d' H; [split; [reflexivity|intros; cbn in *; lia]|].
  destruct t as [|b t']; [split; [reflexivity|intros; cbn in *; lia]|].
  assert (Ht: sdg_b (b :: t') = true) by (cbn [sdg_b] in H |- *; lia).
  assert (Hab: snd a + 1 <? fst b = true) by (cbn [sdg_b] in H; lia).
  change (jfb (a :: b :: t')) with ((if snd a + 1 <? fst b then [(snd a + 1, fst b - 1)] else []) ++ jfb (b :: t')).
  rewrite Hab. cbn [app]. destruct (IH d d' Ht) as (I1 & I2). split; [cbn [length] in *; lia|].
  intros [|k] Hk; [reflexivity|]. cbn [nth]. apply I2. cbn [length] in *. lia. Qed.

Lemma last_nth_pred {A} (l:list A) d : last l d = nth (pred (length l)) l d.
Proof. induction l as [|a t IH]; [reflexivity|]. destruct t as [|b t']; [reflexivity|].
  change (last (a :: b :: t') d) with (last (b :: t') d). rewrite IH. reflexivity. Qed.
