From Coq Require Import ZArith NArith QArith List Bool Lia ZifyBool.
From IQ Require Import CorrSupport Exons Corrector Corrector2 Junctions JunctionsProofs JunctionsTyping.
From IQ.gen Require Import Tables Prims.
From JC Require Import A1 A2 A3 A4 A5.
Import ListNotations. Open Scope Z_scope.

(* ================================================================ assembling *)
Lemma jwf_nth : forall l d k, junctions_wf l = true -> (k < length l)%nat ->
  fst (nth k l d) <= snd (nth k l d) /\ ((Datatypes.S k < length l)%nat -> snd (nth k l d) + 1 < fst (nth (Datatypes.S k) l d)).
Proof. induction l as [|a t IH]; intros d k H Hk; [cbn in Hk; lia|]. rewrite junctions_wf_cons in H. rewrite !andb_true_iff in H. destruct H as ((Ha & Hn) & Ht).
  destruct k as [|k].
  - cbn [nth]. split; [lia|]. intros Hk2. destruct t as [|b t']; [cbn in Hk2; lia|]. cbn [nth]. lia.
  - cbn [nth]. cbn [length] in Hk. destruct (IH d k Ht ltac:(lia)) as (I1 & I2). split; [exact I1|]. intros Hk2. apply I2. cbn [length] in Hk2. lia. Qed.

Lemma exon_fst reg l k : k <> 0 -> fst (exon reg l k) = snd (J l (k - 1)) + 1.
Proof. intros H. unfold exon. cbn [fst]. destruct (k =? 0) eqn:C; [lia|reflexivity]. Qed.
Lemma exon_snd reg l k : k <> lenz l -> snd (exon reg l k) = fst (J l k) - 1.
Proof. intros H. unfold exon. cbn [snd]. destruct (k =? lenz l) eqn:C; [lia|reflexivity]. Qed.
Lemma exon_LE (L E:Z -> Z) n R : lenz R = n -> (forall k, 0 <= k < n -> J R k = (E k + 1, L (k + 1) - 1)) ->
  forall k, 0 <= k <= n -> exon (L 0, E n) R k = (L k, E k).
Proof. intros HRlen HR k Hk. unfold exon. rewrite HRlen. cbn [fst snd]. f_equal.
  - destruct (k =? 0) eqn:C; [f_equal; lia|]. rewrite (HR (k - 1)) by lia. cbn [snd]. replace (k - 1 + 1) with k by lia. lia.
  - destruct (k =? n) eqn:C; [f_equal; lia|]. rewrite (HR k) by lia. cbn [fst]. lia. Qed.

Definition wf_b (k:iv) : bool := fst k <=? snd k.
(* the extra hypothesis found during the proof (witness w4): with both flags on, the first read exon is longer than
   max_fake_terminal_exon_len, or no isoform intron lies well inside it *)
Definition left_end_ok (P:params) (fl:Corrector.flags) (exons II:list iv) : bool :=
  negb (Corrector.f_fake_terminal fl && Corrector.f_microintron fl) ||
  (p_max_fake_terminal_exon_len P <? py_interval_len (hd (0,0) exons)) ||
  forallb (fun m => negb (py_contains_well_inside (hd (0,0) exons) m (p_minimal_exon_overlap P))) II.


Lemma ev_good_gp P (L E:Z -> Z) n R ireg II e : 1 <= n -> lenz R = n ->
  (forall k, 0 <= k < n -> J R k = (E k + 1, L (k + 1) - 1)) ->
  ev_good P (L 0, E n) R ireg II e -> fst (e_read e) <> absent ->
  gp (p_delta P) (p_max_fake_terminal_exon_len P) n L E II e.
Proof. intros Hn HRlen HR (_ & Hg) Ha. specialize (Hg Ha). rewrite HRlen in Hg. destruct Hg as (Gab & Gb & G1 & G2 & G3 & G4 & G5).
  pose proof (exon_LE L E n R HRlen HR) as HX.
  unfold gp. cbv zeta. split; [exact Gab|]. split; [exact Gb|]. split; [|split; [|split; [|split]]].
  - intros T. destruct (G1 T) as (A1 & A2 & A3). rewrite (HX 0) in A3 by lia. unfold py_interval_len in A3. cbn [fst snd] in A3. lia.
  - exact G2.
  - intros T. destruct (G3 T) as (A1 & A2 & A3 & A4 & A5 & A6 & A7). rewrite (HR 0) in A6, A7 by lia.
    unfold py_overlaps in A6. cbn [fst snd] in A6, A7. replace (0 + 1) with 1 in * by lia. repeat split; lia.
  - intros T. destruct (G4 T) as (A1 & A2 & A3 & A4 & A5 & A6 & A7). rewrite (HR (n - 1)) in A6, A7 by lia.
    unfold py_overlaps in A6. cbn [fst snd] in A6, A7. replace (n - 1 + 1) with n in * by lia. repeat split; lia.
  - intros T. destruct (G5 T) as (A1 & A2 & A3 & A4 & A5).
    set (a := fst (e_read e)) in *. set (ia := fst (e_iso e)) in *. set (ib := snd (e_iso e)) in *.
    unfold surrounded_of in A4. apply andb_true_iff in A4. destruct A4 as (S1 & S2). unfold py_overlaps in S1, S2.
    rewrite (HX a) in S1 by lia. rewrite (HX (a + 1)) in S2 by lia. cbn [fst snd] in S1, S2.
    rewrite (exon_snd ireg II ia) in S1 by lia. rewrite (exon_fst ireg II (ib + 1)) in S2 by lia.
    replace (ib + 1 - 1) with ib in S2 by lia.
    split; [exact A1|]. split; [exact A2|]. split; [exact A3|]. split; [lia|]. split; [lia|].
    intros k Hk. specialize (A5 k Hk). rewrite (HR a) in A5 by lia. unfold py_overlaps in A5. cbn [fst snd] in A5. lia.
Qed.

Lemma ev_good_gf P (L E:Z -> Z) n R ireg II e : 1 <= n -> lenz R = n ->
  (forall k, 0 <= k < n -> J R k = (E k + 1, L (k + 1) - 1)) ->
  ev_good P (L 0, E n) R ireg II e -> fst (e_read e) = absent -> is_type e MES_fake_micro_intron_retention = true ->
  gf (p_minimal_exon_overlap P) n L E II e.
Proof. intros Hn HRlen HR (Hg & _) Ha T. destruct (Hg Ha) as (Gb & G). rewrite HRlen in Gb. destruct (G T) as (G1 & G2).
  rewrite (exon_LE L E n R HRlen HR) in G2 by lia. unfold py_contains_well_inside in G2. cbn [fst snd] in G2.
  unfold gf. cbv zeta. repeat split; lia. Qed.

Theorem events_wf_core : forall P K greg exons ireg II extra orc fl,
  0 <= p_delta P -> 0 < p_minimal_exon_overlap P ->
  Corrector.sdg_b exons = true -> exons <> [] ->
  forallb (fun e => 2 * p_delta P <? py_interval_len e) exons = true ->
  (Corrector.f_fuzzy fl = true -> forallb (fun i => p_delta P <? py_interval_len i) (jfb exons) = true) ->
  (Corrector.f_fuzzy fl = true ->
     forallb wf_b K = true \/ forallb (fun i => 2 * p_delta P <? py_interval_len i) (jfb exons) = true) ->
  junctions_wf II = true -> inside_region ireg II = true ->
  (Corrector.f_fuzzy fl = true -> Corrector.f_microintron fl = true -> p_delta P <= p_minimal_exon_overlap P + 1) ->
  left_end_ok P fl exons II = true ->
  lenz exons < absent -> lenz II < absent ->
  Forall no_read_region extra ->
  Corrector.events_wf fl (comparator_cin P K greg exons ireg II extra orc) = true.
Proof. intros P K greg exons ireg II extra orc fl Hd Hmoe Hsdg Hne Hsz Hszi HK HIIwf HIIin Hdm Hleft HbR HbI Hextra.
  set (c := comparator_cin P K greg exons ireg II extra orc).
  unfold Corrector.events_wf. change (c_exons c) with exons. rewrite Hsdg.
  assert (Hlen0: (length exons =? 0)%nat = false) by (destruct exons; [congruence|reflexivity]). rewrite Hlen0. cbn [negb andb].
  unfold early_return. change (c_exons c) with exons. change (c_noninf c) with false. change (c_has_match c) with true. cbn [negb]. rewrite !orb_false_r.
  destruct (length exons =? 1)%nat eqn:Hlen1; [reflexivity|]. cbn [orb].
  assert (Hlen: (2 <= length exons)%nat) by (destruct exons as [|? [|? ?]]; cbn in *; try congruence; lia).
  clear Hlen0 Hlen1.
  (* the abstract picture *)
  set (d := p_delta P) in *. set (moe := p_minimal_exon_overlap P) in *.
  remember (if f_fuzzy fl then d else 0) as df eqn:Edf.
  set (n := lenz exons - 1).
  set (Lf := fun k => fst (nth (Z.to_nat k) exons (0,0))). set (Ef := fun k => snd (nth (Z.to_nat k) exons (0,0))).
  set (R := jfb exons).
  assert (Hn: 1 <= n) by (subst n; unfold lenz; lia).
  assert (Hdf: 0 <= df <= d) by (subst df; destruct (f_fuzzy fl); lia).
  destruct (jfb_sdg exons (0,0) (0,0) Hsdg) as (HRl & HRn). fold R in HRl, HRn.
  assert (HRlen: lenz R = n) by (subst n; unfold lenz; lia).
  assert (HR: forall k, 0 <= k < n -> J R k = (Ef k + 1, Lf (k + 1) - 1)).
  { intros k Hk. rewrite J_nth. rewrite HRn by (subst n; unfold lenz in *; lia). subst Lf Ef. cbn beta.
    replace (Z.to_nat (k + 1)) with (Datatypes.S (Z.to_nat k)) by lia. reflexivity. }
  assert (HLE: forall k, 0 <= k <= n -> Lf k + 2 * d <= Ef k).
  { intros k Hk. pose proof (forallb_nth _ exons (0,0) (Z.to_nat k) Hsz ltac:(subst n; unfold lenz in *; lia)) as H.
    cbn beta in H. unfold py_interval_len in H. subst Lf Ef. cbn beta. lia. }
  assert (Hgap: forall k, 0 <= k < n -> Ef k + 2 <= Lf (k + 1)).
  { intros k Hk. destruct (sdg_nth exons (0,0) (Z.to_nat k) Hsdg ltac:(subst n; unfold lenz in *; lia)) as (_ & H).
    specialize (H ltac:(subst n; unfold lenz in *; lia)). subst Lf Ef. cbn beta.
    replace (Z.to_nat (k + 1)) with (Datatypes.S (Z.to_nat k)) by lia. lia. }
  assert (HEL: forall k, 0 <= k < n -> Ef k + df + 2 <= Lf (k + 1)).
  { intros k Hk. subst df. destruct (f_fuzzy fl) eqn:Ff; [|specialize (Hgap k Hk); lia].
    pose proof (forallb_nth _ R (0,0) (Z.to_nat k) (Hszi eq_refl) ltac:(subst n; unfold lenz in *; lia)) as H.
    cbn beta in H. rewrite <- J_nth, (HR k Hk) in H. unfold py_interval_len in H. cbn [fst snd] in H. lia. }
  assert (Hhull: Corrector.hull exons = (Lf 0, Ef n)).
  { unfold Corrector.hull. subst Lf Ef n. cbn beta. rewrite last_nth_pred. f_equal.
    - destruct exons; [congruence|reflexivity].
    - f_equal. f_equal. unfold lenz. lia. }
  assert (HRk: forall r, In r R -> exists k, 0 <= k < n /\ r = J R k).
  { intros r Hr. destruct (In_nth R r (0,0) Hr) as (k & Hk & <-). exists (Z.of_nat k). split; [subst n; unfold lenz in *; lia|].
    rewrite J_nth, Nat2Z.id. reflexivity. }
  (* corrected introns *)
  assert (HCI2: Forall2 (near df) R (corrected_introns fl c)).
  { unfold corrected_introns. change (c_introns c) with R. destruct (f_fuzzy fl) eqn:Ff.
    - subst df. change (potentials c) with (match_genomic_features d K R). change (c_oracle c) with orc.
      apply (fuzzy_near d K); [apply potentials_spec|exact Hd|]. apply Forall_forall. intros r Hr.
      destruct (HRk r Hr) as (k & Hk & ->). rewrite (HR k Hk). cbn [fst snd]. pose proof (HEL k Hk). split; [lia|].
      destruct (HK eq_refl) as [HKw|HK2].
      + left. intros k' Hk'. rewrite forallb_forall in HKw. specialize (HKw k' Hk'). unfold wf_b in HKw. lia.
      + right. pose proof (forallb_nth _ R (0,0) (Z.to_nat k) HK2 ltac:(subst n; unfold lenz in *; lia)) as H2d.
        cbn beta in H2d. rewrite <- J_nth, (HR k Hk) in H2d. unfold py_interval_len in H2d. cbn [fst snd] in H2d. lia.
    - subst df. apply Forall2_refl_near. apply Forall_forall. intros r Hr.
      destruct (HRk r Hr) as (k & Hk & ->). rewrite (HR k Hk). cbn [fst snd]. pose proof (Hgap k Hk). lia. }
  destruct (Forall2_nth _ _ _ HCI2) as (HCIl & HCIn).
  set (CI := corrected_introns fl c) in *.
  assert (HCIlen: lenz CI = n) by (unfold lenz in *; lia).
  assert (HCI: forall k, 0 <= k < n -> nearP df Lf Ef k (J CI k)).
  { intros k Hk. specialize (HCIn (Z.to_nat k) (0,0) (0,0) ltac:(subst n; unfold lenz in *; lia)).
    rewrite <- !J_nth in HCIn. rewrite (HR k Hk) in HCIn. unfold near in HCIn. cbn [fst snd] in HCIn. unfold nearP. lia. }
  (* isoform junctions *)
  assert (HI1: forall k, 0 <= k < lenz II -> fst (J II k) <= snd (J II k)).
  { intros k Hk. rewrite J_nth. apply (jwf_nth II (0,0) (Z.to_nat k) HIIwf). unfold lenz in Hk. lia. }
  assert (HI2: forall k, 0 <= k -> k + 1 < lenz II -> snd (J II k) + 1 < fst (J II (k + 1))).
  { intros k Hk1 Hk2. rewrite !J_nth. replace (Z.to_nat (k + 1)) with (Datatypes.S (Z.to_nat k)) by lia.
    apply (jwf_nth II (0,0) (Z.to_nat k) HIIwf); unfold lenz in Hk2; lia. }
  assert (HI3: forall k, 0 <= k < lenz II -> fst ireg < fst (J II k) /\ snd (J II k) < snd ireg).
  { intros k Hk. pose proof (forallb_nth _ II (0,0) (Z.to_nat k) HIIin ltac:(unfold lenz in Hk; lia)) as H. cbn beta in H.
    rewrite <- J_nth in H. lia. }
  assert (Hdfm: f_microintron fl = true -> df <= moe + 1).
  { intros Hm. subst df. destruct (f_fuzzy fl); [apply Hdm; auto|lia]. }
  assert (Hhd: hd (0,0) exons = (Lf 0, Ef 0)).
  { subst Lf Ef. cbn beta. destruct exons as [|x t]; [congruence|]. cbn. destruct x; reflexivity. }
  assert (Hleft': f_fake_terminal fl = true -> f_microintron fl = true ->
            p_max_fake_terminal_exon_len P < Ef 0 - Lf 0 + 1 \/
            (forall q, 0 <= q < lenz II -> ~ (Lf 0 + moe <= fst (J II q) /\ snd (J II q) + moe <= Ef 0))).
  { intros F1 F2. unfold left_end_ok in Hleft. rewrite F1, F2, Hhd in Hleft. cbn [andb negb orb] in Hleft.
    apply orb_true_iff in Hleft. destruct Hleft as [H|H].
    - left. unfold py_interval_len in H. cbn [fst snd] in H. lia.
    - right. intros q Hq (Q1 & Q2). pose proof (forallb_nth _ II (0,0) (Z.to_nat q) H ltac:(unfold lenz in Hq; lia)) as H'. cbn beta in H'.
      rewrite <- J_nth in H'. unfold py_contains_well_inside in H'. cbn [fst snd] in H'. fold moe in H'. lia. }
  (* the event map *)
  assert (HbR': lenz R < absent) by lia.
  assert (HRne: R <> []) by (intros HE; rewrite HE in HRlen; cbn in HRlen; lia).
  assert (Hmap: forall key e, lookup (build_map fl (c_events c)) key = Some e ->
            (key = fst (e_read e) /\ gp d (p_max_fake_terminal_exon_len P) n Lf Ef II e) \/
            (key = - snd (e_read e) - 1 /\ f_microintron fl = true /\ gf moe n Lf Ef II e)).
  { intros key e Hl. apply lookup_entry2 in Hl. destruct Hl as (Hin & Hun & Hkey). cbn [fst snd] in *.
    change (c_events c) with (compare_junctions_gene P K greg (Corrector.hull exons) R ireg II ++ extra) in Hin.
    rewrite Hhull in Hin. apply in_app_or in Hin. destruct Hin as [Hin|Hin].
    2:{ exfalso. rewrite Forall_forall in Hextra. specialize (Hextra e Hin). unfold no_read_region in Hextra. rewrite Hextra in Hun.
        vm_compute in Hun. discriminate Hun. }
    assert (Hdef: e_read e <> undefined_region) by (intros HE; rewrite HE in Hun; vm_compute in Hun; discriminate Hun).
    unfold compare_junctions_gene in Hin.
    pose proof (comparator_events_good P _ (Lf 0, Ef n) R ireg II e HRne HbR' HbI Hin Hdef) as Hg.
    destruct Hkey as [(Hk & Ha)|(Hk & Ha & Hm & T)].
    - left. split; [exact Hk|]. apply (ev_good_gp P Lf Ef n R ireg II e Hn HRlen HR Hg). exact Ha.
    - right. split; [exact Hk|]. split; [exact Hm|]. apply (ev_good_gf P Lf Ef n R ireg II e Hn HRlen HR Hg); [exact Ha|exact T]. }
  destruct (loop_events_wf fl d moe df (p_max_fake_terminal_exon_len P) n Lf Ef R CI II ireg (build_map fl (c_events c))
              Hn Hdf Hmoe HLE HEL HRlen HR HCIlen HCI HI1 HI2 HI3 Hdfm Hleft' Hmap) as (bs & Hb & W1 & W2 & W3 & W4).
  unfold c_blocks. change (c_delta c) with d. unfold c_region. change (c_exons c) with exons. rewrite Hhull.
  change (c_introns c) with R. change (c_isoreg c) with ireg. change (c_isointrons c) with II. fold CI. rewrite Hb.
  cbv zeta. change (Z.of_nat (length R)) with (lenz R). rewrite HRlen, W1, W2, W3, W4. reflexivity.
Qed.
