From Coq Require Import ZArith NArith QArith List Bool Lia ZifyBool.
From IQ Require Import CorrSupport Exons Corrector Corrector2 Junctions JunctionsProofs JunctionsTyping.
From IQ.gen Require Import Tables Prims.
From JC Require Import A1 A2 A3 A4.
Import ListNotations. Open Scope Z_scope.
Ltac flia := repeat match goal with H : forall _, _ |- _ => clear H end; lia.

(* ================================================================ the loop of process_events, abstractly:
   read exon k = (L k, E k) for 0 <= k <= n, read junction k = (E k + 1, L (k+1) - 1) *)
Section Loop.
Variables (fl:flags) (d moe df mfte n:Z) (L E:Z -> Z) (R CI II:list iv) (ireg:iv) (emap:list (Z*event)).
Let nI := lenz II.

Definition nearP (k:Z) (x:iv) : Prop :=
  E k + 1 - df <= fst x <= E k + 1 + df /\ L (k + 1) - 1 - df <= snd x <= L (k + 1) - 1 + df /\ fst x <= snd x.

Definition gp (e:event) : Prop :=
  let a := fst (e_read e) in let b := snd (e_read e) in let ia := fst (e_iso e) in let ib := snd (e_iso e) in
  0 <= a <= b /\ b < n /\
  (is_type e MES_fake_terminal_exon_left = true -> a = 0 /\ b = 0 /\ E 0 - L 0 + 1 <= mfte) /\
  (is_type e MES_fake_terminal_exon_right = true -> a = n - 1 /\ b = n - 1) /\
  (is_type e MES_terminal_exon_misalignment_left = true ->
     a = 0 /\ b = 0 /\ ia = 0 /\ 0 < nI /\ 1 < n /\
     fst (J II 0) <= L 1 - 1 /\ E 0 + 1 <= snd (J II 0) /\ snd (J II 0) <= L 1 - 1 + 2 * d) /\
  (is_type e MES_terminal_exon_misalignment_right = true ->
     a = n - 1 /\ b = n - 1 /\ ia = nI - 1 /\ 0 < nI /\ 1 < n /\
     fst (J II (nI - 1)) <= L n - 1 /\ E (n - 1) + 1 <= snd (J II (nI - 1)) /\ E (n - 1) + 1 - 2 * d <= fst (J II (nI - 1))) /\
  (is_type e MES_intron_shift = true \/ is_type e MES_exon_misalignment = true ->
     a = b /\ 0 <= ia <= ib /\ ib < nI /\ L a < fst (J II ia) /\ snd (J II ib) < E (a + 1) /\
     forall k, ia <= k <= ib -> fst (J II k) <= L (a + 1) - 1 /\ E a + 1 <= snd (J II k)).
Definition gf (e:event) : Prop :=
  let b := snd (e_read e) in let ia := fst (e_iso e) in
  0 <= b <= n /\ 0 <= ia < nI /\ L b + moe <= fst (J II ia) /\ snd (J II ia) + moe <= E b.

Hypothesis Hn : 1 <= n.
Hypothesis Hdf : 0 <= df <= d.
Hypothesis Hmoe : 0 < moe.
Hypothesis HLE : forall k, 0 <= k <= n -> L k + 2 * d <= E k.
Hypothesis HEL : forall k, 0 <= k < n -> E k + df + 2 <= L (k + 1).
Hypothesis HRlen : lenz R = n.
Hypothesis HR : forall k, 0 <= k < n -> J R k = (E k + 1, L (k + 1) - 1).
Hypothesis HCIlen : lenz CI = n.
Hypothesis HCI : forall k, 0 <= k < n -> nearP k (J CI k).
Hypothesis HIIwf : forall k, 0 <= k < nI -> fst (J II k) <= snd (J II k).
Hypothesis HIIord : forall k, 0 <= k -> k + 1 < nI -> snd (J II k) + 1 < fst (J II (k + 1)).
Hypothesis HIIin : forall k, 0 <= k < nI -> fst ireg < fst (J II k) /\ snd (J II k) < snd ireg.
Hypothesis Hdfm : f_microintron fl = true -> df <= moe + 1.
Hypothesis Hleft : f_fake_terminal fl = true -> f_microintron fl = true ->
  mfte < E 0 - L 0 + 1 \/ forall q, 0 <= q < nI -> ~ (L 0 + moe <= fst (J II q) /\ snd (J II q) + moe <= E 0).
Hypothesis Hmap : forall key e, lookup emap key = Some e ->
  (key = fst (e_read e) /\ gp e) \/ (key = - snd (e_read e) - 1 /\ f_microintron fl = true /\ gf e).

(* ---------------------------------------------------------------- order facts *)
Lemma LE_nat : forall m i, 0 <= i -> i + Z.of_nat m <= n -> L i <= L (i + Z.of_nat m) /\ E i <= E (i + Z.of_nat m).
Proof. induction m as [|m IH]; intros i Hi Hm.
  - replace (i + Z.of_nat 0) with i by lia. lia.
  - destruct (IH i Hi ltac:(lia)) as (I1 & I2). replace (i + Z.of_nat (Datatypes.S m)) with (i + Z.of_nat m + 1) by lia.
    pose proof (HLE (i + Z.of_nat m) ltac:(lia)). pose proof (HEL (i + Z.of_nat m) ltac:(lia)).
    pose proof (HLE (i + Z.of_nat m + 1) ltac:(lia)). lia. Qed.
Lemma LE_mono i j : 0 <= i <= j -> j <= n -> L i <= L j /\ E i <= E j.
Proof. intros Hij Hj. replace j with (i + Z.of_nat (Z.to_nat (j - i))) by lia. apply LE_nat; lia. Qed.
Lemma EL_strict i j : 0 <= i < j -> j <= n -> E i < L j.
Proof. intros Hij Hj. pose proof (HEL i ltac:(lia)). destruct (LE_mono (i + 1) j ltac:(lia) Hj). lia. Qed.

Lemma II_nat : forall m k, 0 <= k -> k + Z.of_nat m < nI ->
  fst (J II k) <= fst (J II (k + Z.of_nat m)) /\ snd (J II k) <= snd (J II (k + Z.of_nat m)).
Proof. induction m as [|m IH]; intros k Hk Hm.
  - replace (k + Z.of_nat 0) with k by lia. lia.
  - destruct (IH k Hk ltac:(lia)) as (I1 & I2). replace (k + Z.of_nat (Datatypes.S m)) with (k + Z.of_nat m + 1) by lia.
    pose proof (HIIord (k + Z.of_nat m) ltac:(lia) ltac:(lia)). pose proof (HIIwf (k + Z.of_nat m) ltac:(lia)).
    pose proof (HIIwf (k + Z.of_nat m + 1) ltac:(lia)). lia. Qed.
Lemma II_mono k k' : 0 <= k <= k' -> k' < nI -> fst (J II k) <= fst (J II k') /\ snd (J II k) <= snd (J II k').
Proof. intros H1 H2. replace k' with (k + Z.of_nat (Z.to_nat (k' - k))) by lia. apply II_nat; lia. Qed.
Lemma II_by_end k k' : 0 <= k < nI -> 0 <= k' < nI -> snd (J II k) < snd (J II k') -> fst (J II k) <= fst (J II k').
Proof. intros H1 H2 H3. destruct (Z_le_gt_dec k k') as [C|C]; [apply II_mono; lia|].
  destruct (II_mono k' k ltac:(lia) ltac:(lia)). lia. Qed.

Lemma R_near k : 0 <= k < n -> nearP k (J R k).
Proof. intros Hk. rewrite (HR k Hk). unfold nearP. cbn [fst snd]. pose proof (HEL k Hk). lia. Qed.

(* ---------------------------------------------------------------- the parts of one block *)
Definition fkP (i:Z) (fk:list iv) : Prop :=
  fk = [] \/ (f_microintron fl = true /\ exists q, 0 <= q < nI /\ fk = [J II q] /\ L i + moe <= fst (J II q) /\ snd (J II q) + moe <= E i).
Definition afterfk (i:Z) (x:iv) : Prop := E i + 1 - df <= fst x \/ (exists k', 0 <= k' < nI /\ x = J II k' /\ E i < snd x).

Lemma fk_ok i : 0 <= i < n -> exists fk,
  (match lookup emap (- i - 1) with
   | Some e => match py_nth II (fst (e_iso e)) with Some x => Ok [x] | None => Raises 1 end
   | None => Ok [] end) = Ok fk /\ fkP i fk.
Proof. intros Hi. destruct (lookup emap (- i - 1)) as [e|] eqn:Lk; [|exists []; split; [reflexivity|left; reflexivity]].
  destruct (Hmap _ _ Lk) as [(Hk & Hg)|(Hk & Hm & Hg)].
  - exfalso. unfold gp in Hg. cbv zeta in Hg. lia.
  - unfold gf in Hg. cbv zeta in Hg. destruct Hg as (G1 & G2 & G3 & G4). assert (Eb: snd (e_read e) = i) by lia. rewrite Eb in *.
    rewrite (py_nth_J II (fst (e_iso e))) by (fold nI; lia). eexists. split; [reflexivity|]. right. split; [exact Hm|].
    exists (fst (e_iso e)). repeat split; try lia. Qed.

Lemma fk_lo i fk : fkP i fk -> Forall (fun x => L i < fst x) fk.
Proof. intros [->|(_ & q & _ & -> & H1 & _)]; [constructor|]. constructor; [lia|constructor]. Qed.
Lemma fk_ireg i fk : fkP i fk -> Forall (fun x => fst ireg < fst x) fk.
Proof. intros [->|(_ & q & Hq & -> & _)]; [constructor|]. constructor; [apply HIIin; exact Hq|constructor]. Qed.

Lemma parts_ok i j lo hi fk l : 0 <= i < j -> j <= n -> fkP i fk -> Forall (fun x => lo < fst x) fk -> E i <= hi -> mono l ->
  Forall (fun x => lo < fst x /\ fst x < L j /\ snd x < hi /\ afterfk i x) l ->
  mono (fk ++ l) /\ Forall (fun x => lo < fst x /\ fst x < L j /\ snd x < hi) (fk ++ l).
Proof. intros Hij Hj Hfk Hlo Hhi Hm Hl.
  assert (Hl': Forall (fun x => lo < fst x /\ fst x < L j /\ snd x < hi) l) by (eapply Forall_impl; [|exact Hl]; cbn; tauto).
  destruct Hfk as [->|(Hmi & q & Hq & -> & H1 & H2)]; [split; assumption|].
  pose proof (HIIwf q Hq) as Hw. pose proof (EL_strict i j ltac:(lia) Hj) as Hs. pose proof (Hdfm Hmi) as Hdfm1.
  split.
  - cbn [app]. apply mono_cons_Forall; [exact Hw| |exact Hm]. eapply Forall_impl; [|exact Hl]. cbn.
    intros x (_ & _ & _ & [Ha|(k' & Hk' & -> & Ha)]); [lia|]. apply II_by_end; [exact Hq|exact Hk'|lia].
  - cbn [app]. constructor; [|exact Hl']. inversion Hlo; subst. lia. Qed.

Lemma near_run_ok Z a b : lenz Z = n -> (forall k, 0 <= k < n -> nearP k (J Z k)) -> 0 <= a <= b -> b < n ->
  mono (run Z a b) /\ Forall (fun x => L a < fst x /\ fst x < L (b + 1) /\ snd x < E (b + 1) /\ afterfk a x) (run Z a b).
Proof. intros HZ Hnear Hab Hb. split.
  - apply run_mono.
    + intros k Hk. destruct (Hnear k ltac:(lia)) as (_ & _ & H). exact H.
    + intros k Hk1 Hk2. destruct (Hnear k ltac:(lia)) as (H1 & _). destruct (Hnear (k + 1) ltac:(lia)) as (H2 & _).
      pose proof (HEL k ltac:(lia)). pose proof (HLE (k + 1) ltac:(lia)). lia.
  - apply run_Forall. intros k Hk. destruct (Hnear k ltac:(lia)) as (H1 & H2 & _).
    destruct (LE_mono a k ltac:(lia) ltac:(lia)) as (M1 & M2). destruct (LE_mono (k + 1) (b + 1) ltac:(lia) ltac:(lia)) as (M3 & M4).
    pose proof (HLE k ltac:(lia)). pose proof (HEL k ltac:(lia)). pose proof (HLE (k + 1) ltac:(lia)).
    repeat split; try lia. left. lia. Qed.

Lemma run_single (l:list iv) i : run l i i = [J l i].
Proof. unfold run, Corrector.zrange. replace (i + 1 - i) with 1 by lia. reflexivity. Qed.

(* ---------------------------------------------------------------- one iteration *)
Definition lo_of (i:Z) (b:block) : Z := match b_upd b with SetStart w => w | _ => L i end.
Definition hi_of (b:block) : Z := match b_upd b with SetEnd w => w | _ => E (b_next b) end.
Definition blockP (i:Z) (b:block) : Prop :=
  b_i b = i /\ i < b_next b <= n /\ mono (b_all b) /\
  Forall (fun x => lo_of i b < fst x /\ fst x < L (b_next b) /\ snd x < hi_of b) (b_all b) /\
  match b_upd b with NoUpd => True | SetStart w => i = 0 /\ w <= L (b_next b) | SetEnd w => b_next b = n /\ E i <= w end.

Lemma blockP_intro i j fk l u : 0 <= i < j -> j <= n -> fkP i fk ->
  Forall (fun x => match u with SetStart w => w | _ => L i end < fst x) fk ->
  E i <= match u with SetEnd w => w | _ => E j end -> mono l ->
  Forall (fun x => match u with SetStart w => w | _ => L i end < fst x /\ fst x < L j /\
                   snd x < match u with SetEnd w => w | _ => E j end /\ afterfk i x) l ->
  match u with NoUpd => True | SetStart w => i = 0 /\ w <= L j | SetEnd w => j = n /\ E i <= w end ->
  blockP i (mkblock i j fk l u).
Proof. intros Hij Hj Hfk Hlo Hhi Hm Hl Hu.
  destruct (parts_ok i j _ _ fk l Hij Hj Hfk Hlo Hhi Hm Hl) as (P1 & P2).
  unfold blockP, b_all, lo_of, hi_of. cbn [b_i b_next b_fake b_emit b_upd]. repeat split; try lia; assumption. Qed.

Lemma step_ok i : 0 <= i < n -> exists b, step fl d (L 0, E n) R CI ireg II emap i = Ok b /\ blockP i b.
Proof.
  intros Hi. unfold step. destruct (fk_ok i Hi) as (fk & -> & Hfk).
  pose proof (LE_mono i (i + 1) ltac:(flia) ltac:(flia)) as (Mi1 & Mi2).
  destruct (lookup emap i) as [e|] eqn:Lk.
  2:{ (* no event at i *)
    rewrite (py_nth_J CI i) by flia. cbn [opt_block]. eexists. split; [reflexivity|].
    destruct (near_run_ok CI i i HCIlen HCI ltac:(flia) ltac:(flia)) as (N1 & N2). rewrite run_single in N1, N2.
    apply blockP_intro; try flia; try assumption; try exact I; try (apply fk_lo; exact Hfk). }
  destruct (Hmap _ _ Lk) as [(Hk & Hg)|(Hk & _ & Hg)]; [|exfalso; unfold gf in Hg; cbv zeta in Hg; flia].
  unfold gp in Hg. cbv zeta in Hg. destruct Hg as (Gab & Gb & G1 & G2 & G3 & G4 & G5).
  set (a := fst (e_read e)) in *. set (b := snd (e_read e)) in *. subst i.
  pose proof (LE_mono a (b + 1) ltac:(flia) ltac:(flia)) as (Mb1 & Mb2).
  (* fake terminal exon, left *)
  destruct (is_type e MES_fake_terminal_exon_left && f_fake_terminal fl) eqn:B1.
  { apply andb_true_iff in B1. destruct B1 as (T & Ff). destruct (G1 T) as (Ea & Eb & Hlen). rewrite Ea, Eb in *.
    cbn [Z.eqb negb]. rewrite (py_nth_J R 0) by flia. rewrite (HR 0) by flia. cbn [opt_block snd]. eexists. split; [reflexivity|].
    replace (L (0 + 1) - 1 + 1) with (L (0 + 1)) by flia.
    assert (Hnil: fk = []).
    { destruct Hfk as [->|(Hmi & q & Hq & -> & H1 & H2)]; [reflexivity|]. exfalso.
      destruct (Hleft Ff Hmi) as [C|C]; [flia|]. apply (C q Hq). split; assumption. }
    subst fk. apply blockP_intro; try flia; try (left; reflexivity); try constructor; flia. }
  (* fake terminal exon, right *)
  destruct (is_type e MES_fake_terminal_exon_right && f_fake_terminal fl) eqn:B2.
  { apply andb_true_iff in B2. destruct B2 as (T & Ff). destruct (G2 T) as (Ea & Eb). rewrite Ea, Eb in *.
    rewrite Z.eqb_refl. cbn [negb]. rewrite (py_nth_J R (n - 1)) by flia. rewrite (HR (n - 1)) by flia. cbn [opt_block fst]. eexists. split; [reflexivity|].
    replace (E (n - 1) + 1 - 1) with (E (n - 1)) by flia. replace (n - 1 + 1) with n by flia.
    apply blockP_intro; try flia; try assumption; try (apply fk_lo; exact Hfk); try constructor; try flia. }
  (* terminal exon misalignment, left *)
  destruct (is_type e MES_terminal_exon_misalignment_left && f_terminal fl) eqn:B3.
  { apply andb_true_iff in B3. destruct B3 as (T & Ff). destruct (G3 T) as (Ea & Eb & Eia & HnI & Hn1 & F1 & F2 & F3). rewrite Ea, Eb, Eia in *.
    rewrite (py_nth_J II 0) by (fold nI; flia). cbn [opt_block]. eexists. split; [reflexivity|].
    pose proof (HIIin 0 ltac:(flia)) as (In1 & In2). pose proof (HIIwf 0 ltac:(flia)) as W0. pose proof (HLE 1 ltac:(flia)) as S1.
    apply blockP_intro; try flia; try assumption; try (apply fk_ireg; exact Hfk).
    - apply (fk_ireg 0 fk Hfk).
    - cbn [mono]. flia.
    - constructor; [|constructor]. replace (0 + 1) with 1 by flia. repeat split; try flia. right. exists 0. repeat split; flia.
    - replace (0 + 1) with 1 by flia. flia. }
  (* terminal exon misalignment, right *)
  destruct (is_type e MES_terminal_exon_misalignment_right && f_terminal fl) eqn:B4.
  { apply andb_true_iff in B4. destruct B4 as (T & Ff). destruct (G4 T) as (Ea & Eb & Eia & HnI & Hn1 & F1 & F2 & F3). rewrite Ea, Eb, Eia in *.
    rewrite (py_nth_J II (nI - 1)) by (fold nI; flia). cbn [opt_block]. eexists. split; [reflexivity|].
    pose proof (HIIin (nI - 1) ltac:(flia)) as (In1 & In2). pose proof (HIIwf (nI - 1) ltac:(flia)) as W0. pose proof (HLE (n - 1) ltac:(flia)) as S1.
    replace (n - 1 + 1) with n by flia.
    apply blockP_intro; try flia; try assumption; try (apply fk_lo; exact Hfk).
    - cbn [mono]. flia.
    - constructor; [|constructor]. repeat split; try flia. right. exists (nI - 1). repeat split; flia. }
  (* the remaining branches *)
  assert (Else: forall l0, (l0 = run CI a b \/ l0 = run R a b) ->
            exists b0, Ok (mkblock a (b + 1) fk l0 NoUpd) = Ok b0 /\ blockP a b0).
  { intros l0 Hl0. eexists. split; [reflexivity|].
    assert (N: mono l0 /\ Forall (fun x => L a < fst x /\ fst x < L (b + 1) /\ snd x < E (b + 1) /\ afterfk a x) l0).
    { destruct Hl0 as [-> | ->]; [apply near_run_ok; try assumption; flia|apply near_run_ok; try assumption; try flia; apply R_near]. }
    destruct N as (N1 & N2). apply blockP_intro; try flia; try assumption; try exact I; try (apply fk_lo; exact Hfk). }
  assert (Else2: exists b0, (if mes_mem (e_type e) known_structure_types
                             then opt_block (py_slice CI a b) (fun l => mkblock a (b + 1) fk l NoUpd)
                             else opt_block (py_slice R a b) (fun l => mkblock a (b + 1) fk l NoUpd)) = Ok b0 /\ blockP a b0).
  { destruct (mes_mem _ _); rewrite py_slice_J by flia; cbn [opt_block]; apply Else; [left|right]; reflexivity. }
  destruct (in_misalignment_set fl e) eqn:B5; [|exact Else2].
  assert (T: is_type e MES_intron_shift = true \/ is_type e MES_exon_misalignment = true).
  { unfold in_misalignment_set in B5. apply orb_true_iff in B5. destruct B5 as [B5|B5]; apply andb_true_iff in B5; tauto. }
  destruct (G5 T) as (Eab & Hia & Hib & F1 & F2 & F3).
  set (ia := fst (e_iso e)) in *. set (ib := snd (e_iso e)) in *.
  rewrite (py_nth_J II ia) by (fold nI; flia). rewrite (py_nth_J II ib) by (fold nI; flia).
  destruct (py_contains_well_inside _ _ _); [|exact Else2].
  clear Else Else2 B1 B2 B3 B4 B5 G1 G2 G3 G4 G5 Lk.
  replace (a =? b) with true by flia. cbn [negb]. rewrite py_slice_J by (try fold nI; flia). cbn [opt_block]. eexists. split; [reflexivity|].
  rewrite <- Eab in *.
  apply blockP_intro; try flia; try assumption; try exact I; try (apply fk_lo; exact Hfk).
  - apply run_mono.
    + intros k Hk. apply HIIwf. flia.
    + intros k Hk1 Hk2. pose proof (HIIord k ltac:(flia) ltac:(flia)). pose proof (HIIwf k ltac:(flia)). flia.
  - apply run_Forall. intros k Hk. destruct (F3 k Hk) as (F4 & F5).
    destruct (II_mono ia k ltac:(flia) ltac:(flia)) as (M1 & _). destruct (II_mono k ib ltac:(flia) ltac:(flia)) as (_ & M2).
    repeat split; try flia. right. exists k. repeat split; flia.
Qed.

(* ---------------------------------------------------------------- the run of the loop *)
Fixpoint chainP (i:Z) (bs:list block) : Prop :=
  match bs with [] => i = n | b :: t => blockP i b /\ chainP (b_next b) t end.

Lemma loop_ok : forall fuel i, 0 <= i <= n -> n - i <= Z.of_nat fuel ->
  exists bs, loop fl d (L 0, E n) R CI ireg II emap fuel i = Ok bs /\ chainP i bs.
Proof. induction fuel as [|f IH]; intros i Hi Hf; cbn [loop]; unfold n_introns; change (Z.of_nat (length CI)) with (lenz CI); rewrite HCIlen.
  - destruct (i <? n) eqn:C; [flia|]. exists []. split; [reflexivity|]. cbn. flia.
  - destruct (i <? n) eqn:C; [|exists []; split; [reflexivity|cbn; flia]].
    destruct (step_ok i ltac:(flia)) as (b & -> & Hb). pose proof Hb as (_ & Hnx & _).
    destruct (IH (b_next b) ltac:(flia) ltac:(flia)) as (bs & -> & Hbs). exists (b :: bs). split; [reflexivity|]. cbn [chainP]. tauto. Qed.

Lemma chain_block_ok : forall bs i, chainP i bs -> forallb (block_ok n) bs = true.
Proof. induction bs as [|b t IH]; intros i H; [reflexivity|]. cbn [chainP] in H. destruct H as (Hb & Ht). cbn [forallb].
  rewrite (IH _ Ht). destruct Hb as (Hi & Hnx & _). unfold block_ok. flia. Qed.

Lemma chain_range : forall bs i, 0 <= i -> chainP i bs -> i <= n.
Proof. intros [|b t] i Hi H; cbn [chainP] in H; [flia|]. destruct H as ((_ & Hnx & _) & _). flia. Qed.

Lemma chain_mono : forall bs i, 0 <= i -> chainP i bs ->
  mono (Corrector.emitted bs) /\ (0 < i -> Forall (fun x => L i < fst x) (Corrector.emitted bs)).
Proof. induction bs as [|b t IH]; intros i Hi H; [split; [exact I|constructor]|]. cbn [chainP] in H. destruct H as (Hb & Ht).
  destruct Hb as (_ & Hnx & Hm & Hf & Hu). destruct (IH (b_next b) ltac:(flia) Ht) as (I1 & I2). specialize (I2 ltac:(flia)).
  unfold Corrector.emitted in *. cbn [flat_map]. rewrite Forall_forall in Hf, I2. split.
  - apply mono_app; [exact Hm|exact I1|]. intros x y Hx Hy. specialize (Hf x Hx). specialize (I2 y Hy). flia.
  - intros Hpos. apply Forall_app. split; apply Forall_forall.
    + intros x Hx. specialize (Hf x Hx). unfold lo_of in Hf. destruct (b_upd b); try flia.
    + intros y Hy. specialize (I2 y Hy). destruct (LE_mono i (b_next b) ltac:(flia) ltac:(flia)). flia. Qed.

Lemma chain_end_nil : forall t, chainP n t -> t = [].
Proof. intros [|b t] H; [reflexivity|]. cbn [chainP] in H. destruct H as ((_ & Hnx & _) & _). flia. Qed.

Lemma chain_final_pos : forall bs i s, 0 < i -> chainP i bs -> s <= L i ->
  fst (final_region (s, E n) bs) = s /\ E i <= snd (final_region (s, E n) bs) /\
  Forall (fun x => fst (final_region (s, E n) bs) < fst x /\ snd x < snd (final_region (s, E n) bs)) (Corrector.emitted bs).
Proof. induction bs as [|b t IH]; intros i s Hi H Hs.
  - cbn [chainP] in H. subst i. unfold final_region. cbn [fold_left fst snd]. repeat split; try flia. constructor.
  - cbn [chainP] in H. destruct H as (Hb & Ht). destruct Hb as (_ & Hnx & _ & Hf & Hu).
    destruct (LE_mono i (b_next b) ltac:(flia) ltac:(flia)) as (M1 & M2).
    unfold final_region, Corrector.emitted in *. cbn [fold_left flat_map]. unfold lo_of, hi_of in Hf. rewrite Forall_forall in Hf.
    destruct (b_upd b) as [|w|w] eqn:U; cbn [apply_upd fst snd].
    + destruct (IH (b_next b) s ltac:(flia) Ht ltac:(flia)) as (I1 & I2 & I3). split; [exact I1|]. split; [flia|].
      apply Forall_app. split; [|exact I3]. apply Forall_forall. intros x Hx. specialize (Hf x Hx). rewrite I1. flia.
    + flia.
    + destruct Hu as (Hn' & Hw). rewrite Hn' in Ht. apply chain_end_nil in Ht. subst t. cbn [fold_left flat_map fst snd].
      rewrite app_nil_r. repeat split; try flia. apply Forall_forall. intros x Hx. specialize (Hf x Hx). flia. Qed.

Lemma chain_final_0 bs : chainP 0 bs ->
  fst (final_region (L 0, E n) bs) <= snd (final_region (L 0, E n) bs) /\
  Forall (fun x => fst (final_region (L 0, E n) bs) < fst x /\ snd x < snd (final_region (L 0, E n) bs)) (Corrector.emitted bs).
Proof. destruct bs as [|b t]; cbn [chainP]; [flia|]. intros (Hb & Ht). destruct Hb as (_ & Hnx & _ & Hf & Hu).
  destruct (LE_mono 0 (b_next b) ltac:(flia) ltac:(flia)) as (M1 & M2). pose proof (HLE (b_next b) ltac:(flia)) as S1. pose proof (HLE 0 ltac:(flia)) as S0.
  unfold final_region, Corrector.emitted in *. cbn [fold_left flat_map]. unfold lo_of, hi_of in Hf. rewrite Forall_forall in Hf.
  destruct (b_upd b) as [|w|w] eqn:U; cbn [apply_upd fst snd].
  - destruct (chain_final_pos t (b_next b) (L 0) ltac:(flia) Ht ltac:(flia)) as (I1 & I2 & I3). unfold final_region, Corrector.emitted in *.
    split; [flia|]. apply Forall_app. split; [|exact I3]. apply Forall_forall. intros x Hx. specialize (Hf x Hx). rewrite I1. flia.
  - destruct Hu as (_ & Hw). destruct (chain_final_pos t (b_next b) w ltac:(flia) Ht ltac:(flia)) as (I1 & I2 & I3). unfold final_region, Corrector.emitted in *.
    split; [flia|]. apply Forall_app. split; [|exact I3]. apply Forall_forall. intros x Hx. specialize (Hf x Hx). rewrite I1. flia.
  - destruct Hu as (Hn' & Hw). rewrite Hn' in Ht. apply chain_end_nil in Ht. subst t. cbn [fold_left flat_map fst snd].
    rewrite app_nil_r. split; [flia|]. apply Forall_forall. intros x Hx. specialize (Hf x Hx). flia. Qed.

Theorem loop_events_wf : exists bs, blocks fl d (L 0, E n) R CI ireg II emap = Ok bs /\
  forallb (block_ok n) bs = true /\ mono_b (Corrector.emitted bs) = true /\
  (fst (final_region (L 0, E n) bs) <=? snd (final_region (L 0, E n) bs)) = true /\
  forallb (inside (final_region (L 0, E n) bs)) (Corrector.emitted bs) = true.
Proof. unfold blocks. destruct (loop_ok (2 * length CI + 2) 0 ltac:(flia)) as (bs & Hl & Hc).
  { unfold lenz in HCIlen. flia. }
  exists bs. split; [exact Hl|]. split; [eapply chain_block_ok; exact Hc|].
  destruct (chain_mono bs 0 ltac:(flia) Hc) as (Hm & _). destruct (chain_final_0 bs Hc) as (F1 & F2).
  split; [apply mono_b_spec; exact Hm|]. split; [flia|]. apply forallb_forall. rewrite Forall_forall in F2. intros x Hx.
  specialize (F2 x Hx). unfold inside. flia. Qed.
End Loop.
