From Coq Require Import ZArith NArith QArith List Bool Lia ZifyBool.
From IQ Require Import CorrSupport Exons Corrector Corrector2 Junctions JunctionsProofs JunctionsTyping.
From IQ.gen Require Import Tables Prims.
From JC Require Import A1 A2.
Import ListNotations. Open Scope Z_scope.

(* ================================================================ what the corrector's loop needs to know about an event *)
Definition ev_good (P:params) (rreg:iv) (R:list iv) (ireg:iv) (II:list iv) (e:event) : Prop :=
  let a := fst (e_read e) in let b := snd (e_read e) in let ia := fst (e_iso e) in let ib := snd (e_iso e) in
  (a = absent ->
     0 <= b <= lenz R /\
     (is_type e MES_fake_micro_intron_retention = true ->
        0 <= ia < lenz II /\ py_contains_well_inside (exon rreg R b) (J II ia) (p_minimal_exon_overlap P) = true)) /\
  (a <> absent ->
     0 <= a <= b /\ b < lenz R /\
     (is_type e MES_fake_terminal_exon_left = true ->
        a = 0 /\ b = 0 /\ py_interval_len (exon rreg R 0) <= p_max_fake_terminal_exon_len P) /\
     (is_type e MES_fake_terminal_exon_right = true -> a = lenz R - 1 /\ b = lenz R - 1) /\
     (is_type e MES_terminal_exon_misalignment_left = true ->
        a = 0 /\ b = 0 /\ ia = 0 /\ 0 < lenz II /\ 1 < lenz R /\ py_overlaps (J II 0) (J R 0) = true /\
        Z.abs (snd (J R 0) - snd (J II 0)) <= 2 * p_delta P) /\
     (is_type e MES_terminal_exon_misalignment_right = true ->
        a = lenz R - 1 /\ b = lenz R - 1 /\ ia = lenz II - 1 /\ 0 < lenz II /\ 1 < lenz R /\
        py_overlaps (J II (lenz II - 1)) (J R (lenz R - 1)) = true /\
        Z.abs (fst (J R (lenz R - 1)) - fst (J II (lenz II - 1))) <= 2 * p_delta P) /\
     (is_type e MES_intron_shift = true \/ is_type e MES_exon_misalignment = true ->
        a = b /\ 0 <= ia <= ib /\ ib < lenz II /\ surrounded_of rreg R ireg II a a ia ib = true /\
        forall k, ia <= k <= ib -> py_overlaps (J II k) (J R a) = true)).

Lemma major_not_special t : ev_major t = true ->
  MES_eqb t MES_fake_terminal_exon_left = false /\ MES_eqb t MES_fake_terminal_exon_right = false /\
  MES_eqb t MES_terminal_exon_misalignment_left = false /\ MES_eqb t MES_terminal_exon_misalignment_right = false /\
  MES_eqb t MES_intron_shift = false /\ MES_eqb t MES_exon_misalignment = false /\ MES_eqb t MES_fake_micro_intron_retention = false.
Proof. destruct t; intros H; try (repeat split; reflexivity); vm_compute in H; discriminate H. Qed.

Ltac no_type := let Ht := fresh "Ht" in intros Ht; cbv in Ht; discriminate Ht.
Ltac no_type2 := let Ht := fresh "Ht" in intros [Ht|Ht]; cbv in Ht; discriminate Ht.

(* an event with a present read region and a type that no branch of the loop looks at *)
Lemma ev_good_plain P rreg R ireg II t iso a b : a <> absent -> 0 <= a <= b -> b < lenz R ->
  MES_eqb t MES_fake_terminal_exon_left = false -> MES_eqb t MES_fake_terminal_exon_right = false ->
  MES_eqb t MES_terminal_exon_misalignment_left = false -> MES_eqb t MES_terminal_exon_misalignment_right = false ->
  MES_eqb t MES_intron_shift = false -> MES_eqb t MES_exon_misalignment = false ->
  ev_good P rreg R ireg II (mkev t iso (a, b)).
Proof. intros Ha Hab Hb T1 T2 T3 T4 T5 T6. unfold ev_good, is_type. cbn [Corrector.e_read Corrector.e_iso Corrector.e_type fst snd].
  split; [intros; contradiction|]. intros _. rewrite T1, T2, T3, T4, T5, T6.
  do 6 (split; [first [lia|intros; discriminate]|]). intros [?|?]; discriminate. Qed.

Lemma rpair_ok_facts nR nI ra rb ia ib : rpair_ok nR nI ((ra, rb), (ia, ib)) = true ->
  (ra = absent -> 0 <= rb <= nR /\ ia <> absent) /\ (ra <> absent -> 0 <= ra <= rb /\ rb < nR) /\
  (ia = absent -> 0 <= ib <= nI) /\ (ia <> absent -> 0 <= ia <= ib /\ ib < nI).
Proof. unfold rpair_ok. destruct (ra =? absent) eqn:E1; destruct (ia =? absent) eqn:E2; cbn [andb negb]; intros H; lia. Qed.

Lemma type_pair_good P known rreg R ireg II c e : lenz R < absent -> lenz II < absent ->
  rpair_ok (lenz R) (lenz II) c = true -> pair_good R II c ->
  type_pair P known rreg R ireg II c = Some e -> ev_good P rreg R ireg II e.
Proof. intros HbR HbI Hrp Hpg. destruct c as [[ra rb] [ia ib]]. apply rpair_ok_facts in Hrp. destruct Hrp as (F1 & F2 & F3 & F4).
  destruct Hpg as [(p & q & E)|[(p & q & E)|Ho]].
  - (* read junction without isoform counterpart *)
    inversion E; subst. clear E. assert (Hp: p <> absent) by (intros ->; destruct (F1 eq_refl) as (_ & C); congruence).
    specialize (F2 Hp). specialize (F3 eq_refl). unfold type_pair.
    destruct (p =? absent) eqn:E1; [lia|]. rewrite Z.eqb_refl.
    destruct (known (seg R p p)).
    { intros H; inversion H; subst. apply ev_good_plain; (lia || reflexivity). }
    destruct (suspicious P rreg R p p).
    { intros H; inversion H; subst. apply ev_good_plain; (lia || reflexivity). }
    destruct ((p =? 0) && (py_interval_len (exon rreg R 0) <=? p_max_fake_terminal_exon_len P)) eqn:G1.
    { intros H; inversion H; subst. unfold ev_good. cbn [Corrector.e_read Corrector.e_iso Corrector.e_type fst snd].
      split; [intros; contradiction|]. intros _. do 6 (split; [first [lia|no_type]|]). no_type2. }
    destruct ((p =? lenz R - 1) && (py_interval_len (exon rreg R (lenz R)) <=? p_max_fake_terminal_exon_len P)) eqn:G2.
    { intros H; inversion H; subst. unfold ev_good. cbn [Corrector.e_read Corrector.e_iso Corrector.e_type fst snd].
      split; [intros; contradiction|]. intros _. do 6 (split; [first [lia|no_type]|]). no_type2. }
    intros H; inversion H; subst. apply ev_good_plain; (lia || reflexivity).
  - (* isoform junction without read counterpart *)
    inversion E; subst. clear E. destruct (F1 eq_refl) as (Hb & Hq). specialize (F4 Hq). unfold type_pair. rewrite Z.eqb_refl.
    assert (G: forall t, MES_eqb t MES_fake_micro_intron_retention = false -> ev_good P rreg R ireg II (mkev t (q, q) (absent, p))).
    { intros t Ht. unfold ev_good, is_type. cbn [Corrector.e_read Corrector.e_iso Corrector.e_type fst snd]. rewrite Ht.
      split; [intros _; split; [lia|intros; discriminate]|intros; contradiction]. }
    destruct (py_contains rreg (J II q)).
    { destruct ((py_interval_len (J II q) <=? p_micro_intron_length P) &&
                py_contains_well_inside (exon rreg R p) (J II q) (p_minimal_exon_overlap P)) eqn:G1;
        intros H; inversion H; subst; [|apply G; reflexivity].
      unfold ev_good. cbn [Corrector.e_read Corrector.e_iso Corrector.e_type fst snd].
      split; [|intros; contradiction]. intros _. split; [lia|]. intros _. apply andb_true_iff in G1. split; [lia|tauto]. }
    destruct (py_overlaps_at_least rreg (J II q) (p_minor_ext P)); [|discriminate].
    destruct (fst (J II q) <=? fst rreg); intros H; inversion H; subst; apply G; reflexivity.
  - (* both present *)
    cbn [ov_ok] in Ho. destruct Ho as (O1 & O2 & O3 & O4 & O5 & O6).
    assert (Hra: ra <> absent) by lia. assert (Hia: ia <> absent) by lia.
    unfold type_pair. destruct (ra =? absent) eqn:E1; [lia|]. destruct (ia =? absent) eqn:E2; [lia|].
    intros H; inversion H; subst e. clear H.
    unfold ev_good, is_type. cbn [Corrector.e_read Corrector.e_iso Corrector.e_type fst snd].
    split; [intros; contradiction|]. intros _. split; [lia|]. split; [lia|].
    destruct (both_present_cases P known rreg R ireg II ra rb ia ib) as [H|[H|[H|[H|H]]]].
    + apply major_not_special in H. destruct H as (T1 & T2 & T3 & T4 & T5 & T6 & _). rewrite T1, T2, T3, T4, T5, T6.
      do 4 (split; [intros; discriminate|]). intros [?|?]; discriminate.
    + destruct H as (-> & Hb & Hi & _ & _ & Hs). subst rb ib.
      do 4 (split; [no_type|]). intros _. split; [lia|]. split; [lia|]. split; [lia|]. split; [exact Hs|]. intros k Hk. apply O6; [reflexivity|exact Hk].
    + destruct H as (-> & Hb & Hi & _ & Hs & _). subst rb.
      do 4 (split; [no_type|]). intros _. split; [lia|]. split; [lia|]. split; [lia|]. split; [exact Hs|]. intros k Hk. apply O6; [reflexivity|exact Hk].
    + destruct H as (-> & Hb & Hi & Ha0 & Hi0 & Hn & Hab & _). subst rb ib ra ia.
      split; [no_type|]. split; [no_type|]. split; [|split; [no_type|no_type2]]. intros _. repeat split; try lia; try exact O5.
    + destruct H as (-> & Hb & Hi & Ha0 & Hi0 & Hn & Hab & _). subst rb ib ra ia.
      split; [no_type|]. split; [no_type|]. split; [no_type|]. split; [|no_type2]. intros _. repeat split; try lia; try exact O5.
Qed.

Lemma flank_left_good P rreg R ireg II : forall rp pos, lenz R < absent -> 0 <= pos -> pos + lenz rp <= lenz R ->
  Forall (ev_good P rreg R ireg II) (flank_left pos rp).
Proof. induction rp as [|v t IH]; intros pos HR H0 HL; [constructor|]. rewrite lenz_cons in HL. pose proof (lenz_nonneg _ t).
  cbn [flank_left]. destruct (v =? 0); [|constructor]. constructor; [|apply IH; lia].
  apply ev_good_plain; (lia || reflexivity). Qed.
Lemma flank_right_good P rreg R ireg II : forall rrp pos, lenz R < absent -> pos < lenz R -> 0 <= pos - lenz rrp + 1 ->
  Forall (ev_good P rreg R ireg II) (flank_right pos rrp).
Proof. induction rrp as [|v t IH]; intros pos HR H0 HL; [constructor|]. rewrite lenz_cons in HL. pose proof (lenz_nonneg _ t).
  cbn [flank_right]. destruct (v =? 0); [|constructor]. constructor; [|apply IH; lia].
  apply ev_good_plain; (lia || reflexivity). Qed.

Lemma extra_out_good P rreg R ireg II rp : lenz R < absent -> 0 < lenz R -> lenz rp = lenz R ->
  Forall (ev_good P rreg R ireg II) (extra_out P rreg R ireg rp).
Proof. intros HR Hpos HL. unfold extra_out. cbv zeta. apply Forall_app. split.
  - destruct (_ && _); [|constructor].
    destruct (py_interval_len (exon rreg R 0) <=? p_max_fake_terminal_exon_len P) eqn:G; [|apply flank_left_good; lia].
    constructor; [|apply flank_left_good; try lia; rewrite lenz_tl; lia].
    unfold ev_good. cbn [Corrector.e_read Corrector.e_iso Corrector.e_type fst snd].
    split; [intros C; discriminate C|]. intros _. do 6 (split; [first [lia|no_type]|]). no_type2.
  - destruct (_ && _); [|constructor].
    destruct (py_interval_len (exon rreg R (lenz R)) <=? p_max_fake_terminal_exon_len P) eqn:G;
      [|apply flank_right_good; try lia; rewrite lenz_rev; lia].
    constructor; [|apply flank_right_good; try lia; rewrite lenz_tl, lenz_rev; lia].
    unfold ev_good. cbn [Corrector.e_read Corrector.e_iso Corrector.e_type fst snd].
    split; [intros C; unfold absent, SMC_absent_position in *; lia|]. intros _. do 6 (split; [first [lia|no_type]|]). no_type2.
Qed.

(* every event of the comparator that has a read region is good *)
Theorem comparator_events_good P known rreg R ireg II e : R <> [] -> lenz R < absent -> lenz II < absent ->
  In e (compare_junctions P known rreg R ireg II) -> e_read e <> undefined_region -> ev_good P rreg R ireg II e.
Proof. intros Hne HR HI Hin Hdef. unfold compare_junctions in Hin. destruct R as [|r R'] eqn:ER; [congruence|]. rewrite <- ER in *.
  assert (Hpos: 0 < lenz R) by (rewrite ER, lenz_cons; pose proof (lenz_nonneg _ R'); lia).
  pose proof (phase1_pairs_wf (p_delta P) rreg ireg R II HR HI) as Hwf.
  pose proof (phase1_pairs_good (p_delta P) rreg ireg R II) as Hpg.
  pose proof (phase1_length_rp (p_delta P) rreg ireg R II) as HL.
  destruct (phase1 (p_delta P) rreg ireg R II) as [[rp ip] ps]. cbn [fst snd] in *.
  unfold events_of in Hin. cbv zeta in Hin.
  set (ev1 := if has_m1 rp || has_m1 ip then detect P known rreg R ireg II ps else []) in *.
  assert (H1: Forall (ev_good P rreg R ireg II) ev1).
  { subst ev1. destruct (has_m1 rp || has_m1 ip); [|constructor]. unfold detect. apply Forall_forall. intros x Hx.
    apply in_flat_map in Hx. destruct Hx as (c & Hc & Hx). destruct (type_pair P known rreg R ireg II c) as [e'|] eqn:T; [|destruct Hx].
    destruct Hx as [<-|[]]. rewrite forallb_forall in Hwf. rewrite Forall_forall in Hpg.
    eapply type_pair_good; eauto. }
  set (ev2 := if (hd 1 rp =? 0) || (last rp 1 =? 0) then ev1 ++ extra_out P rreg R ireg rp else ev1) in *.
  assert (H2: Forall (ev_good P rreg R ireg II) ev2).
  { subst ev2. destruct ((hd 1 rp =? 0) || (last rp 1 =? 0)); [|exact H1]. apply Forall_app. split; [exact H1|].
    apply extra_out_good; try assumption. unfold lenz. rewrite HL. reflexivity. }
  rewrite Forall_forall in H2. destruct ev2 as [|e0 t]; [|apply H2; exact Hin].
  destruct Hin as [<-|[]]. exfalso. apply Hdef. reflexivity.
Qed.
