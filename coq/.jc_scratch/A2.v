From Coq Require Import ZArith NArith QArith List Bool Lia ZifyBool.
From IQ Require Import CorrSupport Exons Corrector Corrector2 Junctions JunctionsProofs JunctionsTyping.
From IQ.gen Require Import Tables Prims.
From JC Require Import A1.
Import ListNotations. Open Scope Z_scope.

(* ================================================================ two more invariants of the sweep: shape of the pairs, overlaps *)
Section SweepInv.
Variables (delta:Z) (rreg ireg:iv) (Rf If:list iv).

Definition ov_ok (c:cpair) : Prop :=
  let '((ra, rb), (ia, ib)) := c in
  0 <= ra <= rb /\ rb < lenz Rf /\ 0 <= ia <= ib /\ ib < lenz If /\
  py_overlaps (J If ia) (J Rf ra) = true /\
  (ra = rb -> forall k, ia <= k <= ib -> py_overlaps (J If k) (J Rf ra) = true).
Definition pair_good (c:cpair) : Prop :=
  (exists p q, c = ((p, p), (absent, q))) \/ (exists p q, c = ((absent, p), (q, q))) \/ ov_ok c.
Definition cur_good (rpos ipos:Z) (cur:option cpair) : Prop :=
  match cur with None => True | Some c => ov_ok c /\ snd (fst c) <= rpos /\ ipos - 1 <= snd (snd c) <= ipos end.

Lemma flush_good rpos ipos cur : cur_good rpos ipos cur -> Forall pair_good (flush cur).
Proof. destruct cur as [c|]; [|constructor]. intros (H & _). constructor; [right; right; exact H|constructor]. Qed.

Lemma term_read_good : forall R rpos ipos rm, Forall pair_good (snd (term_read ireg R rpos ipos rm)).
Proof. induction R as [|r R' IH]; intros rpos ipos rm; [constructor|]. cbn [term_read]. destruct (py_overlaps ireg r); [|constructor].
  specialize (IH (rpos + 1) ipos 0). destruct (term_read ireg R' (rpos + 1) ipos 0) as [rp ps]. cbn [snd] in *.
  apply Forall_app. split; [|exact IH]. destruct (rm =? -1); [constructor|]. constructor; [|constructor]. left. eauto. Qed.
Lemma term_iso_good : forall Is rpos ipos im, Forall pair_good (snd (term_iso rreg Is rpos ipos im)).
Proof. induction Is as [|i I' IH]; intros rpos ipos im; [constructor|]. cbn [term_iso]. destruct (py_overlaps rreg i); [|constructor].
  specialize (IH rpos (ipos + 1) 0). destruct (term_iso rreg I' rpos (ipos + 1) 0) as [ip ps]. cbn [snd] in *.
  apply Forall_app. split; [|exact IH]. destruct (im =? -1); [constructor|]. constructor; [|constructor]. right; left. eauto. Qed.
Lemma terminal_good R Is rpos ipos rm im cur : cur_good rpos ipos cur ->
  Forall pair_good (snd (terminal rreg ireg R Is rpos ipos rm im cur)).
Proof. intros Hc. unfold terminal. pose proof (term_read_good R rpos ipos rm) as H1. pose proof (term_iso_good Is rpos ipos im) as H2.
  destruct (term_read ireg R rpos ipos rm) as [rp ps1]. destruct (term_iso rreg Is rpos ipos im) as [ip ps2]. cbn [snd] in *.
  apply Forall_app. split; [eapply flush_good; eauto|]. apply Forall_app. split; assumption. Qed.

Lemma to_nat_succ z : 0 <= z -> Z.to_nat (z + 1) = Datatypes.S (Z.to_nat z). Proof. lia. Qed.

Theorem sweep_pairs_good : forall fuel R Is rpos ipos rm im cur, 0 <= rpos -> 0 <= ipos ->
  R = skipn (Z.to_nat rpos) Rf -> Is = skipn (Z.to_nat ipos) If -> cur_good rpos ipos cur ->
  Forall pair_good (snd (sweep delta rreg ireg fuel R Is rpos ipos rm im cur)).
Proof. induction fuel as [|f IH]; intros R Is rpos ipos rm im cur H0r H0i HR HI Hc.
  - destruct R as [|r R']; [|destruct Is as [|i I']]; cbn [sweep]; try (apply terminal_good; assumption). constructor.
  - destruct R as [|r R']; [|destruct Is as [|i I']]; cbn [sweep]; try (apply terminal_good; assumption).
    symmetry in HR, HI.
    destruct (skipn_cons_facts Rf _ r R' (0,0) HR) as (Hr & HR' & HlR).
    destruct (skipn_cons_facts If _ i I' (0,0) HI) as (Hi & HI' & HlI).
    rewrite <- to_nat_succ in HR', HI' by assumption. symmetry in HR', HI'. symmetry in HR, HI.
    pose proof (flush_good rpos ipos cur Hc) as Hf.
    destruct (py_equal_ranges i r delta).
    { specialize (IH R' I' (rpos + 1) (ipos + 1) 0 0 None ltac:(lia) ltac:(lia) HR' HI' I).
      destruct (sweep delta rreg ireg f R' I' (rpos + 1) (ipos + 1) 0 0 None) as [[rp ip] ps]. cbn [snd] in *.
      apply Forall_app. split; assumption. }
    destruct (py_overlaps i r) eqn:Eov.
    { set (c1 := match cur with
                 | None => ((rpos, rpos), (ipos, ipos))
                 | Some c => ((fst (fst c), rpos), (fst (snd c), ipos)) end).
      assert (Hc1: ov_ok c1 /\ snd (fst c1) = rpos /\ snd (snd c1) = ipos).
      { subst c1. destruct cur as [[[ra rb] [ia ib]]|]; cbn [fst snd].
        - destruct Hc as (Ho & Hb1 & Hb2). cbn [fst snd ov_ok] in *. destruct Ho as (O1 & O2 & O3 & O4 & O5 & O6).
          split; [|split; reflexivity]. unfold lenz in *.
          refine (conj _ (conj _ (conj _ (conj _ (conj _ _))))); try lia.
          intros E k Hk. destruct (Z_le_gt_dec k ib) as [Hle|Hgt].
          + apply O6; lia.
          + assert (k = ipos) by lia. subst k. rewrite E. rewrite !J_nth, Hr, Hi. exact Eov.
        - split; [|split; reflexivity]. cbn [ov_ok]. unfold lenz.
          refine (conj _ (conj _ (conj _ (conj _ (conj _ _))))); try lia.
          + rewrite !J_nth, Hr, Hi. exact Eov.
          + intros _ k Hk. assert (k = ipos) by lia. subst k. rewrite !J_nth, Hr, Hi. exact Eov. }
      destruct Hc1 as (Ho1 & E1 & E2).
      destruct (snd r <? snd i).
      - specialize (IH R' (i :: I') (rpos + 1) ipos 0 (-1) (Some c1) ltac:(lia) ltac:(lia) HR' HI).
        match goal with |- context[sweep ?a ?b ?c ?d ?e ?g ?h ?k ?l ?m ?n] => destruct (sweep a b c d e g h k l m n) as [[rp ip] ps] end.
        apply IH. cbn [cur_good]. split; [exact Ho1|lia].
      - specialize (IH (r :: R') I' rpos (ipos + 1) (-1) 0 (Some c1) ltac:(lia) ltac:(lia) HR HI').
        match goal with |- context[sweep ?a ?b ?c ?d ?e ?g ?h ?k ?l ?m ?n] => destruct (sweep a b c d e g h k l m n) as [[rp ip] ps] end.
        apply IH. cbn [cur_good]. split; [exact Ho1|lia]. }
    destruct (py_left_of i r).
    { specialize (IH (r :: R') I' rpos (ipos + 1) rm 0 None ltac:(lia) ltac:(lia) HR HI' I). cbv zeta.
      destruct (sweep delta rreg ireg f (r :: R') I' rpos (ipos + 1) rm 0 None) as [[rp ip] ps]. cbn [snd] in *.
      apply Forall_app. split; [exact Hf|]. apply Forall_app. split; [|exact IH].
      destruct (((0 <? rpos) || py_overlaps rreg i) && negb (im =? -1)); [|constructor]. constructor; [|constructor]. right; left. eauto. }
    specialize (IH R' (i :: I') (rpos + 1) ipos 0 im None ltac:(lia) ltac:(lia) HR' HI I). cbv zeta.
    destruct (sweep delta rreg ireg f R' (i :: I') (rpos + 1) ipos 0 im None) as [[rp ip] ps]. cbn [snd] in *.
    apply Forall_app. split; [exact Hf|]. apply Forall_app. split; [|exact IH].
    destruct (((0 <? ipos) || py_overlaps ireg r) && negb (rm =? -1)); [|constructor]. constructor; [|constructor]. left. eauto.
Qed.
End SweepInv.

Theorem phase1_pairs_good delta rreg ireg R II : Forall (pair_good R II) (snd (phase1 delta rreg ireg R II)).
Proof. unfold phase1. apply sweep_pairs_good; try lia; try reflexivity. Qed.
