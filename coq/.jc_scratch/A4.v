From Coq Require Import ZArith NArith QArith List Bool Lia ZifyBool.
From IQ Require Import CorrSupport Exons Corrector Corrector2 Junctions JunctionsProofs JunctionsTyping.
From IQ.gen Require Import Tables Prims.
From JC Require Import A1 A2 A3.
Import ListNotations. Open Scope Z_scope.

(* ================================================================ the event map, with what build_map checks *)
Definition entry_ok2 (fl:flags) (evs:list event) (p:Z*event) : Prop :=
  In (snd p) evs /\ iv_eqb (e_read (snd p)) (undefined_position, undefined_position) = false /\
  ((fst p = fst (e_read (snd p)) /\ fst (e_read (snd p)) <> absent_position) \/
   (fst p = - snd (e_read (snd p)) - 1 /\ fst (e_read (snd p)) = absent_position /\ f_microintron fl = true /\
    is_type (snd p) MES_fake_micro_intron_retention = true)).
Lemma build_map_entries2 fl evs : Forall (entry_ok2 fl evs) (build_map fl evs).
Proof. unfold build_map.
  assert (G: forall evs0 m, Forall (entry_ok2 fl evs) m -> incl evs0 evs ->
             Forall (entry_ok2 fl evs) (fold_left (fun m e =>
               if iv_eqb (e_read e) (undefined_position, undefined_position) then m
               else if fst (e_read e) =? absent_position then
                 (if is_type e MES_fake_micro_intron_retention && f_microintron fl then (- snd (e_read e) - 1, e) :: m else m)
               else (fst (e_read e), e) :: m) evs0 m)).
  { induction evs0 as [|e t IH]; intros m Hm Hi; [exact Hm|]. cbn [fold_left]. apply IH; [|intros x Hx; apply Hi; right; exact Hx].
    assert (He: In e evs) by (apply Hi; left; reflexivity).
    destruct (iv_eqb _ _) eqn:Eu; [exact Hm|]. destruct (fst (e_read e) =? absent_position) eqn:Ea.
    - destruct (is_type e MES_fake_micro_intron_retention && f_microintron fl) eqn:Ef; [|exact Hm].
      constructor; [|exact Hm]. split; [exact He|]. split; [exact Eu|]. right. cbn [fst snd]. apply andb_true_iff in Ef.
      repeat split; [lia|tauto|tauto].
    - constructor; [|exact Hm]. split; [exact He|]. split; [exact Eu|]. left. cbn [fst snd]. split; [reflexivity|lia]. }
  apply G; [constructor|apply incl_refl]. Qed.
Lemma lookup_entry2 fl evs k e : lookup (build_map fl evs) k = Some e -> entry_ok2 fl evs (k, e).
Proof. intros H. apply lookup_In in H. pose proof (build_map_entries2 fl evs) as F. rewrite Forall_forall in F. exact (F _ H). Qed.

(* ================================================================ the introns after fuzzy-junction correction stay close to the read's *)
Definition near (df:Z) (r x:iv) : Prop :=
  fst r - df <= fst x <= fst r + df /\ snd r - df <= snd x <= snd r + df /\ fst x <= snd x.

Lemma fuzzy_near d K : forall reads pots, Forall2 (fun r k => k = r \/ matched_to d K r k) reads pots -> forall orc, 0 <= d ->
  Forall (fun r => fst r + d <= snd r /\ ((forall k, In k K -> fst k <= snd k) \/ fst r + 2 * d <= snd r)) reads ->
  Forall2 (near d) reads (fuzzy reads pots orc).
Proof. induction 1 as [|r k rs ks Hrk H IH]; intros orc Hd HF; [constructor|]. inversion HF as [|? ? (Hr & Hw) HF']; subst.
  cbn [fuzzy]. constructor; [|apply IH; assumption]. clear IH HF HF' H.
  assert (Hk: (k = r) \/ (Z.abs (fst r - fst k) <= d /\ Z.abs (snd r - snd k) <= d /\ (fst k <= snd k \/ fst r + 2 * d <= snd r))).
  { destruct Hrk as [->|(Hin & He)]; [left; reflexivity|right]. unfold py_equal_ranges in He.
    destruct Hw as [Hw|Hw]; [specialize (Hw k Hin)|]; lia. }
  clear Hrk Hw. unfold near. cbn [fst snd].
  destruct (fst r =? fst k) eqn:E1; destruct (snd r =? snd k) eqn:E2;
    destruct (keep_read_site (fst (hd (0, 0, (0, 0)) orc))); destruct (keep_read_site (snd (hd (0, 0, (0, 0)) orc)));
    (destruct Hk as [->|Hk]; lia). Qed.

Lemma Forall2_refl_near l : Forall (fun r => fst r <= snd r) l -> Forall2 (near 0) l l.
Proof. induction 1; constructor; [unfold near; lia|assumption]. Qed.

Lemma corrected_introns_near fl c : 0 <= c_delta c ->
  Forall (fun r => fst r + c_delta c <= snd r) (c_introns c) ->
  (f_fuzzy fl = true -> Forall (fun k => fst k <= snd k) (c_known c) \/ Forall (fun r => fst r + 2 * c_delta c <= snd r) (c_introns c)) ->
  Forall2 (near (if f_fuzzy fl then c_delta c else 0)) (c_introns c) (corrected_introns fl c).
Proof. intros Hd H1 H2. unfold corrected_introns. destruct (f_fuzzy fl).
  - apply (fuzzy_near (c_delta c) (c_known c)); [apply potentials_spec|exact Hd|]. specialize (H2 eq_refl). apply Forall_forall. intros r Hr.
    split; [rewrite Forall_forall in H1; apply H1; exact Hr|].
    destruct H2 as [H2|H2]; rewrite Forall_forall in H2; [left; exact H2|right; apply H2; exact Hr].
  - apply Forall2_refl_near. eapply Forall_impl; [|exact H1]. cbn. intros; lia. Qed.
