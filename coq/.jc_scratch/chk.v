From Coq Require Import ZArith List.
From IQ Require Import Corrector Junctions.
From JC Require Import A5.
Check loop_events_wf.
Check gp. Check gf. Check nearP.
