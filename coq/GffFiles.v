(* GffFiles.v — the two output annotations as FILES: per-chromosome parts written by GFFPrinter (Gff.dump / Gff.dumps) and
   merged by merge_files(copy_header=False) (property C03).
   merge_files of Gff.v is monomorphic (payload Z); gmerge_files below is the same program over any line type, and
   merge_files_is_gmerge ties the two: Gff.merge_files on encoded lines = gmerge_files, encoded. *)
From Coq Require Import ZArith NArith List Bool Lia ZifyBool Permutation.
From IQ Require Import CorrSupport Exons Gff GffThm GffMulti.
Import ListNotations. Open Scope Z_scope.

(* ------------------------------------------------------------------ merge_files over any line type *)
Record gpart (A:Type) := mkGP { gp_name : list Z; gp_exists : bool; gp_lines : list (bool * A) }.
Arguments mkGP {A}. Arguments gp_name {A}. Arguments gp_exists {A}. Arguments gp_lines {A}.
Fixpoint gdrop_header {A} (l:list (bool*A)) : list (bool*A) := match l with (true, _) :: t => gdrop_header t | _ => l end.
Fixpoint gmerge_sorted {A} (copy_header first:bool) (l:list (gpart A)) : list (bool*A) :=
  match l with
  | [] => []
  | p :: t => (if gp_exists p then (if copy_header && first then gp_lines p else gdrop_header (gp_lines p)) else [])
              ++ gmerge_sorted copy_header false t
  end.
Definition gname_leb {A} (a b:gpart A) : bool := key_leb (nat_key (gp_name a)) (nat_key (gp_name b)).
Definition gmerge_files {A} (copy_header:bool) (parts:list (gpart A)) : list (bool*A) :=
  gmerge_sorted copy_header true (isort gname_leb parts).

Definition enc_line {A} (enc:A -> Z) (x:bool*A) : bool*Z := (fst x, enc (snd x)).
Definition to_part {A} (enc:A -> Z) (p:gpart A) : part := mkP (gp_name p) (gp_exists p) (map (enc_line enc) (gp_lines p)).

Lemma insert_map {A B} (f:A -> B) (la:A -> A -> bool) (lb:B -> B -> bool) : (forall x y, lb (f x) (f y) = la x y) ->
  forall x l, insert lb (f x) (map f l) = map f (insert la x l).
Proof. intros H x l. induction l as [|y t IH]; [reflexivity|]. cbn [map insert]. rewrite H. destruct (la x y); cbn [map]; [reflexivity|]. rewrite IH. reflexivity. Qed.
Lemma isort_map {A B} (f:A -> B) (la:A -> A -> bool) (lb:B -> B -> bool) : (forall x y, lb (f x) (f y) = la x y) ->
  forall l, isort lb (map f l) = map f (isort la l).
Proof. intros H l. induction l as [|x t IH]; [reflexivity|]. cbn [map isort fold_right]. fold (isort lb (map f t)). fold (isort la t).
  rewrite IH. apply insert_map, H. Qed.
Lemma drop_header_enc {A} (enc:A -> Z) l : drop_header (map (enc_line enc) l) = map (enc_line enc) (gdrop_header l).
Proof. induction l as [|[[|] a] t IH]; [reflexivity| |reflexivity]. cbn [map enc_line fst snd drop_header gdrop_header]. exact IH. Qed.
Lemma merge_sorted_enc {A} (enc:A -> Z) cp : forall first l,
  merge_sorted cp first (map (to_part enc) l) = map (enc_line enc) (gmerge_sorted cp first l).
Proof. intros first l; revert first. induction l as [|p t IH]; intros first; [reflexivity|].
  cbn [map merge_sorted gmerge_sorted]. rewrite map_app, IH. f_equal. unfold to_part at 1 2 3. cbn [p_exists p_lines].
  destruct (gp_exists p); [|reflexivity]. destruct (cp && first); [reflexivity|apply drop_header_enc]. Qed.
(* the model of Gff.v, run on the encoded lines, is the generic merge *)
Theorem merge_files_is_gmerge {A} (enc:A -> Z) cp (parts:list (gpart A)) :
  merge_files cp (map (to_part enc) parts) = map (enc_line enc) (gmerge_files cp parts).
Proof. unfold merge_files, gmerge_files.
  rewrite (isort_map (to_part enc) gname_leb (fun a b => key_leb (nat_key (p_name a)) (nat_key (p_name b)))) by reflexivity.
  apply merge_sorted_enc. Qed.

Lemma gmerge_sorted_nocopy {A} first (l:list (gpart A)) :
  gmerge_sorted false first l = flat_map (fun p => if gp_exists p then gdrop_header (gp_lines p) else []) l.
Proof. revert first. induction l as [|p t IH]; intros first; [reflexivity|]. cbn [gmerge_sorted flat_map]. rewrite IH. reflexivity. Qed.
(* merge_files_no_loss for any line type *)
Theorem gmerge_files_no_loss {A} (parts:list (gpart A)) :
  Permutation (gmerge_files false parts) (flat_map (fun p => if gp_exists p then gdrop_header (gp_lines p) else []) parts).
Proof. unfold gmerge_files. rewrite gmerge_sorted_nocopy. apply Permutation_flat_map', Permutation_sym, isort_perm. Qed.
(* the merged file is the concatenation of the parts in natural order of their names *)
Theorem gmerge_files_order {A} (parts:list (gpart A)) :
  gmerge_files false parts = flat_map (fun p => if gp_exists p then gdrop_header (gp_lines p) else []) (isort gname_leb parts) /\
  Permutation parts (isort gname_leb parts).
Proof. split; [apply gmerge_sorted_nocopy|apply isort_perm]. Qed.

(* ------------------------------------------------------------------ permutation helpers *)
Lemma perm_filter {A} (f:A -> bool) l l' : Permutation l l' -> Permutation (filter f l) (filter f l').
Proof. induction 1; cbn [filter]; [constructor| | |eapply Permutation_trans; eassumption].
  - destruct (f x); [apply perm_skip|]; assumption.
  - destruct (f x), (f y); try apply Permutation_refl. apply perm_swap. Qed.
Lemma filter_partition {A} (f:A -> bool) l : Permutation l (filter f l ++ filter (fun x => negb (f x)) l).
Proof. induction l as [|a t IH]; [constructor|]. cbn [filter]. destruct (f a); cbn [negb app]; [apply perm_skip, IH|].
  eapply Permutation_trans; [apply perm_skip, IH|]. apply Permutation_middle. Qed.
Lemma flat_map_flat_map {A B C} (f:B -> list C) (g:A -> list B) l : flat_map f (flat_map g l) = flat_map (fun x => flat_map f (g x)) l.
Proof. induction l as [|a t IH]; [reflexivity|]. cbn [flat_map]. rewrite flat_map_app, IH. reflexivity. Qed.
Lemma flat_map_pointwise_perm {A B} (F G:A -> list B) l : (forall x, In x l -> Permutation (F x) (G x)) -> Permutation (flat_map F l) (flat_map G l).
Proof. induction l as [|a t IH]; intros H; [constructor|]. cbn [flat_map]. apply Permutation_app; [apply H; left; reflexivity|apply IH; intros x Hx; apply H; right; exact Hx]. Qed.
Lemma Forall2_impl {A B} (P Q:A -> B -> Prop) l l' : (forall a b, P a b -> Q a b) -> Forall2 P l l' -> Forall2 Q l l'.
Proof. intros H. induction 1; constructor; auto. Qed.
Lemma flat_map_split_perm {A B} (F G:A -> list B) l : Permutation (flat_map (fun x => F x ++ G x) l) (flat_map F l ++ flat_map G l).
Proof. induction l as [|a t IH]; [constructor|]. cbn [flat_map]. rewrite <- !app_assoc. apply Permutation_app_head.
  eapply Permutation_trans; [apply Permutation_app_head, IH|]. rewrite !app_assoc. apply Permutation_app_tail, Permutation_app_comm. Qed.

(* ------------------------------------------------------------------ transcript ids of a list of lines *)
Definition tids (ls:list line) : list Z := flat_map (fun l => match l with TrL _ _ _ _ _ t => [t] | _ => [] end) ls.
Lemma tids_filter_nongene ls : tids (filter nongene ls) = tids ls.
Proof. induction ls as [|l t IH]; [reflexivity|]. unfold tids in *. destruct l; cbn [filter nongene flat_map]; rewrite IH; reflexivity. Qed.
Lemma tids_emit ms : tids (flat_map emit_model ms) = map t_id ms.
Proof. induction ms as [|m t IH]; [reflexivity|]. cbn [flat_map map]. unfold tids in *. rewrite flat_map_app, IH. unfold emit_model at 1. cbn [flat_map app].
  replace (flat_map _ (map _ (number 1 (features m)))) with (@nil Z); [reflexivity|]. symmetry.
  induction (number 1 (features m)) as [|[k [[s e] ty]] r IHr]; [reflexivity|]. cbn [map flat_map app]. exact IHr. Qed.
(* whenever the non-gene lines are (a permutation of) the lines of the models ms, the printed transcript ids are the ids of ms *)
Lemma tids_of_lines ls ms : Permutation (filter nongene ls) (flat_map emit_model ms) -> Permutation (tids ls) (map t_id ms).
Proof. intros P. rewrite <- tids_filter_nongene, <- tids_emit. unfold tids. apply Permutation_flat_map', P. Qed.

(* one printer: a transcript id is printed once when the valid models handed to the printer have distinct ids *)
Theorem transcript_ids_once_per_printer calls p ls : dumps [] calls = Ok (p, ls) ->
  NoDup (map t_id (filter valid (all_models calls))) -> NoDup (tids ls).
Proof. intros H N. eapply Permutation_NoDup; [apply Permutation_sym, tids_of_lines, (dumps_nongene_perm calls _ _ _ H)|exact N]. Qed.

(* ------------------------------------------------------------------ the per-chromosome workers and the two merged files *)
(* one chromosome: file-name key, the dump calls of the transcript_models printer (one per processed region, in order), what
   create_extended_storage reads (None: no gene on the chromosome) and the gene_info it returns *)
Record chrom := mkC { c_name : list Z; c_calls : list (ginfo * list tmodel); c_ref : option refinfo; c_gi : ginfo }.
(* novel_model_storage: every model of every region that is not `known`, in order *)
Definition c_novel (c:chrom) : list tmodel := filter (fun m => negb (t_known m)) (all_models (c_calls c)).
Definition ref_models (c:chrom) : list tmodel :=
  match c_ref c with Some ri => map (model_of_iso (ri_chr ri)) (ri_isoforms ri) | None => [] end.
Definition models_part (c:chrom) : outcome (list line) :=
  match dumps [] (c_calls c) with Ok (_, ls) => Ok ls | Raises k => Raises k end.
Definition extended_part (c:chrom) : outcome (list line) :=
  match dump [] (c_gi c) (create_extended_storage (c_ref c) (c_novel c)) with Ok (_, ls) => Ok ls | Raises k => Raises k end.
(* the temporary printers write no header: every line of a part is a data line; the file exists once the printer is constructed *)
(* the part file of a chromosome is named <c_name><suffix>: c_name = "<dir>/<label>_<chr_id>", suffix = that of the output file
   (the natural order of the parts can depend on the suffix: "a" / "a.f" sort differently before ".extended..." and ".transcript...") *)
Definition sfx_models : list Z := [46;116;114;97;110;115;99;114;105;112;116;95;109;111;100;101;108;115;46;103;116;102].          (* ".transcript_models.gtf" *)
Definition sfx_extended : list Z := [46;101;120;116;101;110;100;101;100;95;97;110;110;111;116;97;116;105;111;110;46;103;116;102]. (* ".extended_annotation.gtf" *)
Definition parts_of (sfx:list Z) (chrs:list chrom) (lss:list (list line)) : list (gpart line) :=
  map (fun cl => mkGP (c_name (fst cl) ++ sfx) true (map (pair false) (snd cl))) (combine chrs lss).
Definition merged (sfx:list Z) (chrs:list chrom) (lss:list (list line)) : list line := map snd (gmerge_files false (parts_of sfx chrs lss)).

Lemma create_extended_storage_app c : create_extended_storage (c_ref c) (c_novel c) = ref_models c ++ c_novel c.
Proof. unfold create_extended_storage, ref_models. destruct (c_ref c); reflexivity. Qed.

Lemma gdrop_header_data {A} (l:list A) : gdrop_header (map (pair false) l) = map (pair false) l.
Proof. destruct l; reflexivity. Qed.
Lemma merged_is_concat (P:chrom -> list line -> Prop) sfx chrs lss : Forall2 P chrs lss -> Permutation (merged sfx chrs lss) (concat lss).
Proof. intros F. unfold merged. eapply Permutation_trans; [apply Permutation_map, gmerge_files_no_loss|].
  unfold parts_of. induction F as [|c ls chrs lss _ _ IH]; [constructor|]. cbn [combine map flat_map gp_exists gp_lines fst snd concat].
  rewrite gdrop_header_data, map_app, map_map. cbn [snd]. rewrite map_id. apply Permutation_app_head, IH. Qed.
Lemma concat_parts_perm (X:chrom -> list line) chrs lss :
  Forall2 (fun c ls => Permutation (filter nongene ls) (X c)) chrs lss -> Permutation (filter nongene (concat lss)) (flat_map X chrs).
Proof. induction 1 as [|c ls chrs lss H _ IH]; [constructor|]. cbn [concat flat_map]. rewrite filter_app. apply Permutation_app; assumption. Qed.

Lemma models_part_perm c ls : models_part c = Ok ls -> Permutation (filter nongene ls) (flat_map emit_model (filter valid (all_models (c_calls c)))).
Proof. unfold models_part. destruct (dumps [] (c_calls c)) as [[p l]|k] eqn:D; [|discriminate]. intros H; inversion H; subst.
  apply (dumps_nongene_perm _ _ _ _ D). Qed.
Lemma extended_part_perm c ls : extended_part c = Ok ls -> Permutation (filter nongene ls) (flat_map emit_model (filter valid (ref_models c ++ c_novel c))).
Proof. unfold extended_part. destruct (dump [] (c_gi c) _) as [[p l]|k] eqn:D; [|discriminate]. intros H; inversion H; subst.
  rewrite <- create_extended_storage_app. apply (dump_char _ _ _ _ _ D). Qed.

(* the valid (printable) models of all chromosomes *)
Definition all_refs (chrs:list chrom) : list tmodel := flat_map (fun c => filter valid (ref_models c)) chrs.
Definition all_novel (chrs:list chrom) : list tmodel := flat_map (fun c => filter valid (c_novel c)) chrs.
Definition all_known_printed (chrs:list chrom) : list tmodel := flat_map (fun c => filter valid (filter t_known (all_models (c_calls c)))) chrs.

(* For every list of chromosomes (whatever their names: merge_files sorts the parts itself), when every worker finishes:
   the transcript and feature lines of the merged extended_annotation.gtf are, as a multiset, the lines of every annotated isoform
   whose exon list passes validate_exons (copied verbatim by model_of_iso) plus the lines of every valid novel model; and the
   merged transcript_models.gtf holds the lines of exactly the same novel models (plus the known models it reports).  `emit_model`
   fixes chromosome, strand, gene, transcript id and every exon coordinate of a model, so "identical coordinates, each once". *)
Theorem extended_file_all_chromosomes (sm se:list Z) chrs mls els :
  Forall2 (fun c ls => models_part c = Ok ls) chrs mls -> Forall2 (fun c ls => extended_part c = Ok ls) chrs els ->
  Permutation (filter nongene (merged se chrs els)) (flat_map emit_model (all_refs chrs ++ all_novel chrs)) /\
  Permutation (filter nongene (merged sm chrs mls)) (flat_map emit_model (all_known_printed chrs ++ all_novel chrs)).
Proof. intros FM FE. split.
  - eapply Permutation_trans; [apply perm_filter, (merged_is_concat _ _ _ _ FE)|].
    eapply Permutation_trans; [apply (concat_parts_perm (fun c => flat_map emit_model (filter valid (ref_models c ++ c_novel c)))); eapply Forall2_impl; [|exact FE]; intros c ls; apply extended_part_perm|].
    rewrite <- flat_map_flat_map. apply Permutation_flat_map'. unfold all_refs, all_novel.
    eapply Permutation_trans; [|apply flat_map_split_perm]. apply flat_map_pointwise_perm. intros c _. rewrite filter_app. apply Permutation_refl.
  - eapply Permutation_trans; [apply perm_filter, (merged_is_concat _ _ _ _ FM)|].
    eapply Permutation_trans; [apply (concat_parts_perm (fun c => flat_map emit_model (filter valid (all_models (c_calls c))))); eapply Forall2_impl; [|exact FM]; intros c ls; apply models_part_perm|].
    rewrite <- flat_map_flat_map. apply Permutation_flat_map'. unfold all_known_printed, all_novel, c_novel.
    eapply Permutation_trans; [|apply flat_map_split_perm]. apply flat_map_pointwise_perm. intros c _. rewrite <- filter_app. apply perm_filter, filter_partition. Qed.

(* consequences, line by line *)
Corollary extended_file_lines (sm se:list Z) chrs mls els :
  Forall2 (fun c ls => models_part c = Ok ls) chrs mls -> Forall2 (fun c ls => extended_part c = Ok ls) chrs els ->
  forall l, nongene l = true ->
    (In l (merged se chrs els) <-> exists m, (In m (all_refs chrs) \/ In m (all_novel chrs)) /\ In l (emit_model m)).
Proof. intros FM FE l Hl. destruct (extended_file_all_chromosomes sm se _ _ _ FM FE) as (P & _). split.
  - intros K. assert (K': In l (filter nongene (merged se chrs els))) by (apply filter_In; auto). apply (Permutation_in _ P) in K'.
    apply in_flat_map in K'. destruct K' as (m & Hm & Hlm). apply in_app_or in Hm. eauto.
  - intros (m & Hm & Hlm). assert (K: In l (flat_map emit_model (all_refs chrs ++ all_novel chrs))) by (apply in_flat_map; exists m; split; [apply in_or_app; exact Hm|exact Hlm]).
    apply (Permutation_in _ (Permutation_sym P)) in K. apply filter_In in K. tauto. Qed.

(* every annotated isoform with a valid exon list is in the extended file with its own id, gene, strand, first start / last end and
   every one of its exons; every valid novel model of the models file likewise *)
Lemma emit_model_exon m x : In x (t_exons m) -> exists k, In (FeatL (t_chr m) 2 (fst x) (snd x) (t_strand m) (t_gene m) (t_id m) k) (emit_model m).
Proof. intros H. apply features_exons in H. unfold emit_model. revert H. generalize 1 as k0. generalize (features m) as fs.
  induction fs as [|f fs IH]; intros k0 H; [destruct H|]. cbn [number map]. destruct H as [->|H].
  - exists k0. right. left. reflexivity.
  - destruct (IH (k0 + 1) H) as (k & [K|K]); [discriminate|]. exists k. right. right. exact K. Qed.
Corollary reference_transcripts_in_extended_file (sm se:list Z) chrs mls els c ri i :
  Forall2 (fun c ls => models_part c = Ok ls) chrs mls -> Forall2 (fun c ls => extended_part c = Ok ls) chrs els ->
  In c chrs -> c_ref c = Some ri -> In i (ri_isoforms ri) -> validate_exons (i_exons i) = true ->
  In (TrL (ri_chr ri) (fst (tregion (i_exons i))) (snd (tregion (i_exons i))) (i_strand i) (i_gene i) (i_id i)) (merged se chrs els) /\
  forall x, In x (i_exons i) -> exists k, In (FeatL (ri_chr ri) 2 (fst x) (snd x) (i_strand i) (i_gene i) (i_id i) k) (merged se chrs els).
Proof. intros FM FE Hc Hr Hi V. set (m := model_of_iso (ri_chr ri) i).
  assert (Hm: In m (all_refs chrs)).
  { unfold all_refs. apply in_flat_map. exists c. split; [exact Hc|]. apply filter_In. split; [|exact V]. unfold ref_models. rewrite Hr. apply in_map, Hi. }
  split.
  - apply (extended_file_lines sm se _ _ _ FM FE (tr_line m) eq_refl). exists m. split; [left; exact Hm|apply tr_line_in_emit].
  - intros x Hx. destruct (emit_model_exon m x Hx) as (k & Hk). exists k.
    apply (extended_file_lines sm se _ _ _ FM FE (FeatL (t_chr m) 2 (fst x) (snd x) (t_strand m) (t_gene m) (t_id m) k) eq_refl). exists m. split; [left; exact Hm|exact Hk]. Qed.

(* a transcript id is written once per output file, given that the printable models of the file carry distinct ids.
   The hypothesis is what C17 proves about the real id strings (ids are numbered by the harness here):
   C17_ids_unique_per_file / C17_allocated_ids_distinct (novel ids, all chromosomes), C17_allocated_ids_not_in_reference and
   C17_novel_ids_not_in_whole_reference (novel vs reference ids), composed in C17_extended_file_transcript_ids_unique. *)
Theorem transcript_ids_once_per_file (sm se:list Z) chrs mls els :
  Forall2 (fun c ls => models_part c = Ok ls) chrs mls -> Forall2 (fun c ls => extended_part c = Ok ls) chrs els ->
  (NoDup (map t_id (all_refs chrs ++ all_novel chrs)) -> NoDup (tids (merged se chrs els))) /\
  (NoDup (map t_id (all_known_printed chrs ++ all_novel chrs)) -> NoDup (tids (merged sm chrs mls))).
Proof. intros FM FE. destruct (extended_file_all_chromosomes sm se _ _ _ FM FE) as (P1 & P2). split; intros N.
  - eapply Permutation_NoDup; [apply Permutation_sym, tids_of_lines, P1|exact N].
  - eapply Permutation_NoDup; [apply Permutation_sym, tids_of_lines, P2|exact N]. Qed.
(* and conversely a repeated id among the printable models is printed twice *)
Theorem transcript_ids_once_per_file_converse (sm se:list Z) chrs mls els :
  Forall2 (fun c ls => models_part c = Ok ls) chrs mls -> Forall2 (fun c ls => extended_part c = Ok ls) chrs els ->
  NoDup (tids (merged se chrs els)) -> NoDup (map t_id (all_refs chrs ++ all_novel chrs)).
Proof. intros FM FE N. destruct (extended_file_all_chromosomes sm se _ _ _ FM FE) as (P1 & _).
  eapply Permutation_NoDup; [apply tids_of_lines, P1|exact N]. Qed.

(* ------------------------------------------------------------------ a two-chromosome instance: "chr10" sorts after "chr2" *)
Definition chr2n : list Z := [99;104;114;50].            (* "chr2" *)
Definition chr10n : list Z := [99;104;114;49;48].        (* "chr10" *)
Definition ex_c10 : chrom :=
  mkC chr10n [(mkG 10 false [(7, (100, 900))], [mkT 10 0 1 7 true [(100,200);(300,900)] []; mkT 10 0 50 7 false [(100,200);(300,700)] []])]
      (Some (mkRef 10 [mkI 1 7 0 [(100,200);(300,900)] []; mkI 2 7 0 [(100,250);(300,900)] []])) (mkG 10 false [(7, (100, 900))]).
Definition ex_c2 : chrom :=
  mkC chr2n [(mkG 2 true [], [mkT 2 1 51 60 false [(1000,1100);(1300,1400)] []])] None (mkG 2 true []).
Example two_chromosomes_example :
  exists mls els, Forall2 (fun c ls => models_part c = Ok ls) [ex_c10; ex_c2] mls /\ Forall2 (fun c ls => extended_part c = Ok ls) [ex_c10; ex_c2] els /\
    tids (merged sfx_extended [ex_c10; ex_c2] els) = [51; 1; 2; 50] /\ tids (merged sfx_models [ex_c10; ex_c2] mls) = [51; 1; 50] /\
    map t_id (all_refs [ex_c10; ex_c2] ++ all_novel [ex_c10; ex_c2]) = [1; 2; 50; 51].
Proof. eexists. eexists. split; [repeat constructor; vm_compute; reflexivity|]. split; [repeat constructor; vm_compute; reflexivity|].
  vm_compute. repeat split; reflexivity. Qed.

Print Assumptions merge_files_is_gmerge.
Print Assumptions extended_file_all_chromosomes.
Print Assumptions reference_transcripts_in_extended_file.
Print Assumptions transcript_ids_once_per_file.
Print Assumptions transcript_ids_once_per_printer.
