(* C02: name correspondences between the hand-written model Counting.v and the enums regenerated from the source (gen/Extra.v:
   CountingStrategy, CountingStrategyFlags, GroupedOutputFormat; gen/Tables.v: ReadAssignmentType).  Definitions only: this file
   compiles as long as the member NAMES of the enums are unchanged; the statements about values, sets and functions are in
   CountingBridge.v. *)
From Coq Require Import ZArith NArith QArith List Bool.
From IQ Require Import Counting.
From IQ.gen Require Import Tables Extra.
Import ListNotations.

(* the name correspondences: model constructor -> member of the source's enum *)
Definition cs_of (s:strategy) : CS :=
  match s with UniqueOnly => CS_unique_only | WithAmbiguous => CS_with_ambiguous | UniqueSplicingConsistent => CS_unique_splicing_consistent
             | UniqueInconsistent => CS_unique_inconsistent | AllReads => CS_all_ end.
Definition rat_of (t:atype) : RAT :=
  match t with Unique => RAT_unique | UniqueMinor => RAT_unique_minor_difference | Ambiguous => RAT_ambiguous | Inconsistent => RAT_inconsistent
             | InconsNonIntronic => RAT_inconsistent_non_intronic | InconsAmbiguous => RAT_inconsistent_ambiguous
             | Noninformative => RAT_noninformative | Intergenic => RAT_intergenic | Suspended => RAT_suspended end.
Definition csf_of (fl:flags) : CSF := mkCSF (use_amb fl) (use_inc_minor fl) (use_inc fl).
Definition rat_mem (x:RAT) (l:list RAT) : bool := existsb (RAT_eqb x) l.

(* GroupedOutputFormat.output_matrix / output_linear: the pair (c_matrix, c_linear) the correspondences hand to mk_counter *)
Definition fmt_of (g:GOF) : bool * bool := (GOF_mem g GOF_output_matrix, GOF_mem g GOF_output_linear).
