(* C05 / C08: the per-read record flow of ONE chromosome, end to end.
     file --AlignmentCollector.process--> clusters --forward_alignments--> (sub-region, alignments handed over)      [Regions.v]
       --process_genic / process_intergenic (ABSTRACT: `verdict_of region alignment`, None = dropped by a filter)-->
     one record per (sub-region, alignment) with the next assignment id (the save stream)
       --records of one read id collected (group_of), MultimapResolver.resolve, the loader re-applies the verdict and
         drops suspended records-->                                                                                   [Multimap2.v]
     the records that reach the printers and counters (`kept_records`).
   Nothing about the assigner is assumed beyond the explicit hypothesis that it never outputs the type `suspended`.
   A record's key fields come from the alignment: read id (`read_of`), chromosome, start = first exon start (reference_start + 1),
   end = reference_end; genomic_region = the sub-region; multimapper = `secondary a`; types, penalty, isoforms, genes = verdict. *)
From Coq Require Import ZArith List Bool Lia ZifyBool Permutation.
From IQ Require Import CorrSupport Regions Multimap2.
From IQ.gen Require Import Prims Tables.
Import ListNotations. Open Scope Z_scope.

Record vd := mkvd { v_ty : atype; v_gty : atype; v_pen : Z; v_isos : list Z; v_gns : list Z }.

(* ---------------------------------------------------------------- small list facts *)
Lemma flat_map_map {A B C} (f:B -> list C) (h:A -> B) s : flat_map f (map h s) = flat_map (fun x => f (h x)) s.
Proof. induction s as [|x t IH]; cbn; [reflexivity|]. rewrite IH. reflexivity. Qed.
Lemma flat_map_ext_In {A B} (f f':A -> list B) s : (forall x, In x s -> f x = f' x) -> flat_map f s = flat_map f' s.
Proof. induction s as [|x t IH]; intros H; cbn; [reflexivity|]. rewrite (H x (or_introl eq_refl)), IH; [reflexivity|]. intros y Hy. apply H. right. exact Hy. Qed.
Lemma flat_map_if {A B} (p:A -> bool) (h:A -> B) s : flat_map (fun i => if p i then [h i] else []) s = map h (filter p s).
Proof. induction s as [|x t IH]; cbn; [reflexivity|]. destruct (p x); cbn; rewrite IH; reflexivity. Qed.
Lemma flat_map_single {A} (s:list A) : flat_map (fun x => [x]) s = s.
Proof. induction s as [|x t IH]; cbn; [reflexivity|]. rewrite IH. reflexivity. Qed.
Lemma list_as_map_nthr (g:list rec) : g = map (nthr g) (seq 0 (length g)).
Proof. apply (nth_ext _ _ dflt dflt); [rewrite map_length, seq_length; reflexivity|]. intros n Hn. rewrite nth_map_seq by exact Hn. reflexivity. Qed.
Lemma NoDup_map_filter {A B} (f:A -> B) (p:A -> bool) l : NoDup (map f l) -> NoDup (map f (filter p l)).
Proof. induction l as [|x t IH]; cbn; intros H; [constructor|]. inversion H as [|? ? Hn Ht]; subst. destruct (p x); [|apply IH, Ht].
  cbn. constructor; [|apply IH, Ht]. intros Hin. apply Hn. apply in_map_iff in Hin. destruct Hin as [y [E Hy]]. apply filter_In in Hy. apply in_map_iff. exists y. tauto. Qed.
Lemma NoDup_map_inj_in {A B} (f:A -> B) l : NoDup l -> (forall x y, In x l -> In y l -> f x = f y -> x = y) -> NoDup (map f l).
Proof. induction 1 as [|x t Hn _ IH]; intros Hi; cbn; constructor.
  - intros Hin. apply in_map_iff in Hin. destruct Hin as [y [E Hy]]. apply Hn. rewrite (Hi x y); [exact Hy|left; reflexivity|right; exact Hy|symmetry; exact E].
  - apply IH. intros a b Ha Hb. apply Hi; right; assumption. Qed.
Lemma NoDup_map_pair {A B C} (f:A -> B) (g:A -> C) l : NoDup (map f l) -> NoDup (map (fun x => (f x, g x)) l).
Proof. induction l as [|x t IH]; cbn; intros H; [constructor|]. inversion H as [|? ? Hn Ht]; subst. constructor; [|apply IH, Ht].
  intros Hin. apply Hn. apply in_map_iff in Hin. destruct Hin as [y [E Hy]]. injection E as E _. apply in_map_iff. exists y. auto. Qed.
Lemma map_fst_combine {A B} : forall (l1:list A) (l2:list B), length l1 = length l2 -> map fst (combine l1 l2) = l1.
Proof. induction l1 as [|a t IH]; intros [|b u] H; cbn in *; try discriminate; [reflexivity|]. rewrite IH by lia. reflexivity. Qed.
Lemma map_snd_combine {A B} : forall (l1:list A) (l2:list B), length l1 = length l2 -> map snd (combine l1 l2) = l2.
Proof. induction l1 as [|a t IH]; intros [|b u] H; cbn in *; try discriminate; [reflexivity|]. rewrite IH by lia. reflexivity. Qed.
Lemma existsb_map {A B} (p:B -> bool) (f:A -> B) l : existsb p (map f l) = existsb (fun x => p (f x)) l.
Proof. induction l as [|x t IH]; cbn; [reflexivity|]. rewrite IH. reflexivity. Qed.
Lemma forallb_map {A B} (p:B -> bool) (f:A -> B) l : forallb p (map f l) = forallb (fun x => p (f x)) l.
Proof. induction l as [|x t IH]; cbn; [reflexivity|]. rewrite IH. reflexivity. Qed.
Lemma filter_map_comm {A B} (p:B -> bool) (f:A -> B) l : filter p (map f l) = map f (filter (fun x => p (f x)) l).
Proof. induction l as [|x t IH]; cbn; [reflexivity|]. destruct (p (f x)); cbn; rewrite IH; reflexivity. Qed.
Lemma Permutation_filter_gen {A} (f:A -> bool) l l' : Permutation l l' -> Permutation (filter f l) (filter f l').
Proof. induction 1 as [|x l l' _ IH|x y l|l l' l'' _ IH1 _ IH2]; cbn [filter].
  - constructor.
  - destruct (f x); [constructor|]; exact IH.
  - destruct (f x), (f y); try apply Permutation_refl. apply perm_swap.
  - eapply perm_trans; eauto. Qed.

Lemma nonempty_has {A} (l:list A) : l <> [] -> exists x, In x l.
Proof. destruct l as [|x t]; [congruence|]. intros _. exists x. left. reflexivity. Qed.
Lemma all_equal_length1 {A} (l:list A) : l <> [] -> NoDup l -> (forall a b, In a l -> In b l -> a = b) -> length l = 1%nat.
Proof. destruct l as [|a [|b t]]; intros NE ND One; [congruence|reflexivity|].
  inversion ND as [|? ? Hn _]; subst. exfalso. apply Hn. rewrite (One a b); [left; reflexivity|left; reflexivity|right; left; reflexivity]. Qed.
Lemma len_le1 {A} (l:list A) : (length l <= 1)%nat -> l = [] \/ exists x, l = [x].
Proof. destruct l as [|x [|y t]]; cbn; intros H; [left; reflexivity|right; exists x; reflexivity|lia]. Qed.

(* ================================================================ 1. the loader on an arbitrary save stream `all` of one chromosome *)
Section Loader.
Variable c : Z.                         (* the chromosome *)
Variable all : list rec.                (* the save stream: every record written for this chromosome, in order *)
Hypothesis all_chr : forall r, In r all -> chr r = c.
Hypothesis all_ids : NoDup (map aid all).                         (* assignment ids are issued once *)
Hypothesis all_types : forall r, In r all -> ty r <> Suspended.   (* the assigner never outputs `suspended` *)

(* what ReadAssignmentLoader.get_next returns for the records of read `rid`, in stream order *)
Definition kept_records (rid:Z) : list rec :=
  flat_map (fun r => match load_record TakeBest all c r with Ok l => l | Raises _ => [] end) (group_of all rid).

Section OneRead.
Variable rid : Z.
Let g := group_of all rid.
Let K := keep_idx g.
Let out := apply_keep g K.

Lemma group_in r : In r g -> In r all /\ rd r = rid.
Proof. unfold g, group_of. rewrite filter_In, Z.eqb_eq. tauto. Qed.
Lemma group_nth_in i : (i < length g)%nat -> In (nthr g i) all /\ rd (nthr g i) = rid.
Proof. intros H. apply group_in. apply nth_In. exact H. Qed.
Lemma group_ids : NoDup (map (fun r => (aid r, chr r)) g).
Proof. apply NoDup_map_pair. unfold g, group_of. apply NoDup_map_filter. exact all_ids. Qed.
Lemma group_resolve : (1 < length g)%nat -> resolve TakeBest g = Ok out.
Proof. intros H. exact (Gen.resolve_take_best_eq tkey g H). Qed.

Lemma load_in_group i : (1 < length g)%nat -> (i < length g)%nat ->
  load_record TakeBest all c (nthr g i) = Ok (if memb i K then [nthr out i] else []).
Proof. intros L Hi. destruct (group_nth_in i Hi) as [Ha Hr]. unfold load_record, Gen.load_record. rewrite Hr. fold g.
  replace (1 <? length g)%nat with true by (symmetry; apply Nat.ltb_lt; exact L).
  pose proof (group_resolve L) as R. unfold resolve in R. rewrite R. rewrite <- (all_chr _ Ha). f_equal.
  destruct (memb i K) eqn:M.
  - apply memb_In in M. rewrite (Gen.kept_loaded_with_verdict tkey g out i L R group_ids M (all_types _ Ha)). reflexivity.
  - assert (~ In i K) by (intros H; apply memb_In in H; congruence).
    rewrite (Gen.losers_skipped_by_loader tkey g out i L R group_ids Hi H). reflexivity. Qed.

(* the records that come back are the resolver's output at the retained indices, in stream order *)
Theorem kept_records_resolved : (1 < length g)%nat ->
  kept_records rid = map (nthr out) (filter (fun i => memb i K) (seq 0 (length g))).
Proof. intros L. unfold kept_records. fold g. rewrite (list_as_map_nthr g) at 1. rewrite flat_map_map.
  rewrite (flat_map_ext_In _ (fun i => if memb i K then [nthr out i] else [])).
  - apply flat_map_if.
  - intros i Hi. apply in_seq in Hi. rewrite load_in_group by lia. reflexivity. Qed.
(* a read with a single record is not resolved at all *)
Theorem kept_records_single : (length g <= 1)%nat -> kept_records rid = g.
Proof. intros L. unfold kept_records. fold g. rewrite (flat_map_ext_In _ (fun r => [r])); [apply flat_map_single|].
  intros r Hr. destruct (group_in r Hr) as [_ E]. unfold load_record, Gen.load_record. rewrite E. fold g.
  replace (1 <? length g)%nat with false by (symmetry; apply Nat.ltb_ge; exact L). reflexivity. Qed.

Lemma kept_idx_lt i : In i K -> (i < length g)%nat.
Proof. intros H. apply (Gen.kept_are_winners tkey g i H). Qed.
Lemma kept_positions_perm : Permutation (filter (fun i => memb i K) (seq 0 (length g))) K.
Proof. apply NoDup_Permutation; [apply NoDup_filter, seq_NoDup|apply (Gen.keep_idx_NoDup tkey)|].
  intros i. rewrite filter_In, in_seq, memb_In. split; [tauto|]. intros H. pose proof (kept_idx_lt i H). split; [lia|exact H]. Qed.
Lemma out_key i : (1 < length g)%nat -> (i < length g)%nat -> key_of (nthr out i) = key_of (nthr g i) /\ rd (nthr out i) = rid.
Proof. intros L Hi. destruct (Gen.resolve_preserves_identity tkey g out i L (group_resolve L)) as [_ Id]. specialize (Id Hi). cbn zeta in Id.
  destruct Id as (_ & E1 & E2 & E3 & E4 & _ & E5 & _). unfold key_of. rewrite E1, E2, E3, E4, E5. split; [reflexivity|].
  apply group_nth_in. exact Hi. Qed.

(* (1) a read that has a record in the save stream keeps at least one *)
Theorem read_kept_at_least_once : g <> [] -> exists r, In r (kept_records rid) /\ rd r = rid.
Proof. intros NE. destruct (Nat.le_gt_cases (length g) 1) as [L|L].
  - rewrite (kept_records_single L). destruct (len_le1 g L) as [E|[x E]]; [exfalso; apply NE; exact E|]. exists x. rewrite E. split; [left; reflexivity|].
    apply group_in. rewrite E. left. reflexivity.
  - rewrite (kept_records_resolved L). pose proof (Gen.keep_idx_nonempty tkey g NE) as KN. fold K in KN.
    destruct (nonempty_has K KN) as [i Hi].
    exists (nthr out i). split; [|apply out_key; [exact L|apply kept_idx_lt; exact Hi]].
    apply in_map. apply (Permutation_in i (Permutation_sym kept_positions_perm)). exact Hi. Qed.

(* (2) no two kept records of one read have the same key (read, chromosome, start, end, isoform list) - in particular never the
   same alignment with the same verdict twice *)
Theorem kept_keys_distinct : NoDup (map key_of (kept_records rid)).
Proof. destruct (Nat.le_gt_cases (length g) 1) as [L|L].
  - rewrite (kept_records_single L). destruct (len_le1 g L) as [E|[x E]]; rewrite E; cbn; repeat constructor. intros [].
  - rewrite (kept_records_resolved L), map_map. apply NoDup_map_inj_in; [apply NoDup_filter, seq_NoDup|].
    intros a b Ha Hb E. apply filter_In in Ha, Hb. destruct Ha as [Ha Ma], Hb as [Hb Mb]. apply in_seq in Ha, Hb. apply memb_In in Ma, Mb.
    destruct (out_key a L ltac:(lia)) as [Ea _]. destruct (out_key b L ltac:(lia)) as [Eb _]. rewrite Ea, Eb in E.
    apply (Gen.dedup tkey g a b Ma Mb). apply rec_eq_key. exact E. Qed.

(* (4) if all records of the read have the same key - one alignment seen from several sub-regions with the same isoform list -
   exactly one of them is kept *)
Theorem same_key_kept_once : g <> [] -> (forall x y, In x g -> In y g -> key_of x = key_of y) -> length (kept_records rid) = 1%nat.
Proof. intros NE Same. destruct (Nat.le_gt_cases (length g) 1) as [L|L].
  - rewrite (kept_records_single L). destruct (len_le1 g L) as [E|[x E]]; [exfalso; apply NE; exact E|rewrite E; reflexivity].
  - rewrite (kept_records_resolved L), map_length, (Permutation_length kept_positions_perm).
    pose proof (Gen.keep_idx_nonempty tkey g NE) as KN. pose proof (Gen.keep_idx_NoDup tkey g) as ND. fold K in KN, ND.
    assert (One: forall a b, In a K -> In b K -> a = b).
    { intros a b Ha Hb. apply (Gen.dedup tkey g a b Ha Hb). apply rec_eq_key. apply Same; apply nth_In; apply kept_idx_lt; assumption. }
    apply all_equal_length1; assumption. Qed.

(* the retained key set, as Multimap2.v states it, is the key set of the kept records *)
Theorem kept_records_keys k : In k (map key_of (kept_records rid)) <-> In k (kept_keys g).
Proof. change (kept_keys g) with (map (fun i => key_of (nthr g i)) K). destruct (Nat.le_gt_cases (length g) 1) as [L|L].
  - rewrite (kept_records_single L). destruct (len_le1 g L) as [E|[x E]].
    + rewrite E at 1. split; [intros []|]. intros H. apply in_map_iff in H. destruct H as [i [_ Hi]]. pose proof (kept_idx_lt i Hi) as Hl. rewrite E in Hl. cbn in Hl. lia.
    + assert (H0: forall i, In i K -> i = 0%nat) by (intros i Hi; pose proof (kept_idx_lt i Hi) as Hl; rewrite E in Hl; cbn in Hl; lia).
      assert (NE: K <> []) by (apply (Gen.keep_idx_nonempty tkey); rewrite E; discriminate).
      assert (N0: nthr g 0 = x) by (rewrite E; reflexivity).
      rewrite E at 1. cbn [map In]. split.
      * intros [<-|[]]. apply in_map_iff. destruct (nonempty_has K NE) as [i Hi]. exists i. split; [|exact Hi].
        rewrite (H0 i Hi), N0. reflexivity.
      * intros H. apply in_map_iff in H. destruct H as [i [<- Hi]]. rewrite (H0 i Hi), N0. left. reflexivity.
  - rewrite (kept_records_resolved L), map_map. rewrite !in_map_iff. split.
    + intros [i [<- Hi]]. apply filter_In in Hi. destruct Hi as [Hi M]. apply in_seq in Hi. apply memb_In in M. exists i. split; [|exact M].
      symmetry. apply out_key; [exact L|lia].
    + intros [i [<- Hi]]. exists i. split; [apply out_key; [exact L|apply kept_idx_lt; exact Hi]|].
      apply (Permutation_in i (Permutation_sym kept_positions_perm)). exact Hi. Qed.

(* (4, the other side) two records of one read - e.g. one alignment seen from two sub-regions - BOTH stay exactly when both are winners
   of the best class and their keys differ, i.e. for one alignment: when the two sub-regions' isoform lists differ.
   (If the read has only uninformative records exactly one stays: Multimap2.uninformative_single.) *)
Theorem two_records_both_kept x y : g = [x; y] -> only_uninformative g = false ->
  (length (kept_records rid) = 2%nat <-> winner g x = true /\ winner g y = true /\ key_of x <> key_of y).
Proof. intros E OU. assert (L: (1 < length g)%nat) by (rewrite E; cbn; lia).
  rewrite (kept_records_resolved L), map_length. rewrite E at 1. cbn [length seq filter].
  assert (N0: nthr g 0 = x) by (rewrite E; reflexivity). assert (N1: nthr g 1 = y) by (rewrite E; reflexivity).
  assert (Len: length g = 2%nat) by (rewrite E; reflexivity).
  split.
  - intros H. destruct (memb 0 K) eqn:M0, (memb 1 K) eqn:M1; cbn in H; try lia. apply memb_In in M0, M1.
    destruct (Gen.kept_are_winners tkey g 0 M0) as [_ W0]. destruct (Gen.kept_are_winners tkey g 1 M1) as [_ W1]. rewrite N0 in W0. rewrite N1 in W1.
    repeat split; [exact W0|exact W1|]. intros Ek. assert (0 = 1)%nat; [|lia]. apply (Gen.dedup tkey g 0 1 M0 M1). rewrite N0, N1. apply rec_eq_key. exact Ek.
  - intros (W0 & W1 & Ne).
    assert (In0: In 0%nat K).
    { destruct (Gen.ties_kept tkey g 0 OU ltac:(lia) ltac:(rewrite N0; exact W0)) as [j [Hj Ej]]. pose proof (kept_idx_lt j Hj).
      destruct j as [|[|j]]; [exact Hj| |lia]. rewrite N0, N1 in Ej. apply rec_eq_key in Ej. congruence. }
    assert (In1: In 1%nat K).
    { destruct (Gen.ties_kept tkey g 1 OU ltac:(lia) ltac:(rewrite N1; exact W1)) as [j [Hj Ej]]. pose proof (kept_idx_lt j Hj).
      destruct j as [|[|j]]; [|exact Hj|lia]. rewrite N0, N1 in Ej. apply rec_eq_key in Ej. congruence. }
    apply memb_In in In0, In1. rewrite In0, In1. reflexivity. Qed.
End OneRead.
End Loader.

(* ================================================================ 2. the save stream of one chromosome *)
Section Flow.
Variables BIN MAXLEN MINREADS ABSV RN RD : Z.
Hypothesis BIN_pos : 0 < BIN.
Hypothesis ABSV_nonneg : 0 <= ABSV.
Variable c : Z.                              (* the chromosome *)
Variable read_of : aln -> Z.                 (* query_name *)
Variable secondary : aln -> bool.            (* is_secondary -> multimapper *)
Variable verdict_of : iv -> aln -> option vd.  (* process_genic / process_intergenic on one alignment in one (sub-)region; None = dropped *)
Hypothesis never_suspended : forall reg a v, verdict_of reg a = Some v -> v_ty v <> Suspended.
Variable m : mode.
Let fwd := forward BIN MAXLEN MINREADS ABSV RN RD m.

Definition record_of (i:Z) (reg:iv) (a:aln) (v:vd) : rec :=
  mkrec i (read_of a) c (rs a + 1) (re a) reg (secondary a) false (v_ty v) (v_gty v) (v_pen v) (v_isos v) (v_gns v).
Notation emission := (iv * aln * vd)%type.
Definition emit_region (x:iv * list aln) : list emission :=
  flat_map (fun a => match verdict_of (fst x) a with Some v => [(fst x, a, v)] | None => [] end) (snd x).
Definition emit_cluster (file cl:list aln) : list emission :=
  match fwd file cl with Some out => flat_map emit_region out | None => [] end.
Definition emitted (file:list aln) : list emission := flat_map (emit_cluster file) (process file).
(* assignment ids: 0, 1, 2, ... in the order of processing *)
Definition number (em:list emission) : list rec :=
  map (fun p => let '(reg, a, v) := snd p in record_of (fst p) reg a v) (combine (map Z.of_nat (seq 0 (length em))) em).
Definition stream (file:list aln) : list rec := number (emitted file).
(* what the loader hands to the printers / counters / model construction, in stream order *)
Definition loaded_stream (all:list rec) : list rec :=
  flat_map (fun r => match load_record TakeBest all c r with Ok l => l | Raises _ => [] end) all.

Lemma ids_length (em:list emission) : length (map Z.of_nat (seq 0 (length em))) = length em.
Proof. rewrite map_length, seq_length. reflexivity. Qed.
Lemma number_in em r : In r (number em) -> exists i reg a v, In (reg, a, v) em /\ r = record_of i reg a v.
Proof. unfold number. intros H. apply in_map_iff in H. destruct H as [[i [[reg a] v]] [E H]]. apply in_combine_r in H. exists i, reg, a, v. split; [exact H|symmetry; exact E]. Qed.
Lemma number_has em reg a v : In (reg, a, v) em -> exists i, In (record_of i reg a v) (number em).
Proof. intros H. destruct (In_nth em _ (reg, a, v) H) as [n [Hn E]].
  exists (Z.of_nat n). unfold number. apply in_map_iff. exists (Z.of_nat n, (reg, a, v)). split; [reflexivity|].
  replace (Z.of_nat n, (reg, a, v)) with (nth n (combine (map Z.of_nat (seq 0 (length em))) em) (0, (reg, a, v))).
  - apply nth_In. rewrite combine_length, ids_length. lia.
  - rewrite combine_nth by apply ids_length. rewrite E. f_equal.
    rewrite (nth_indep _ 0 (Z.of_nat 0)) by (rewrite ids_length; exact Hn). rewrite map_nth, seq_nth by exact Hn. reflexivity. Qed.
Lemma number_ids em : NoDup (map aid (number em)).
Proof. unfold number. rewrite map_map.
  replace (map _ (combine (map Z.of_nat (seq 0 (length em))) em)) with (map fst (combine (map Z.of_nat (seq 0 (length em))) em)).
  - rewrite map_fst_combine by apply ids_length. apply FinFun.Injective_map_NoDup; [intros x y; apply Nat2Z.inj|apply seq_NoDup].
  - apply map_ext. intros [i [[reg a] v]]. reflexivity. Qed.
Lemma number_chr em r : In r (number em) -> chr r = c.
Proof. intros H. destruct (number_in em r H) as (i & reg & a & v & _ & ->). reflexivity. Qed.
Lemma emitted_in file reg a v : In (reg, a, v) (emitted file) <->
  exists cl out alns, In cl (process file) /\ fwd file cl = Some out /\ In (reg, alns) out /\ In a alns /\ verdict_of reg a = Some v.
Proof. unfold emitted, emit_cluster. rewrite in_flat_map. split.
  - intros [cl [Hc H]]. destruct (fwd file cl) as [out|] eqn:F; [|destruct H]. apply in_flat_map in H. destruct H as [[reg' alns] [Ho H]].
    unfold emit_region in H. cbn [fst snd] in H. apply in_flat_map in H. destruct H as [a' [Ha H]].
    destruct (verdict_of reg' a') as [v'|] eqn:V; [|destruct H]. destruct H as [H|[]]. injection H as -> -> ->.
    exists cl, out, alns. repeat split; assumption.
  - intros (cl & out & alns & Hc & F & Ho & Ha & V). exists cl. split; [exact Hc|]. rewrite F. apply in_flat_map. exists (reg, alns). split; [exact Ho|].
    unfold emit_region. cbn [fst snd]. apply in_flat_map. exists a. split; [exact Ha|]. rewrite V. left. reflexivity. Qed.
Lemma stream_types file r : In r (stream file) -> ty r <> Suspended.
Proof. intros H. destruct (number_in _ r H) as (i & reg & a & v & He & ->). apply emitted_in in He. destruct He as (_ & _ & _ & _ & _ & _ & _ & V).
  cbn. eapply never_suspended. exact V. Qed.

Section OneFile.
Variable file : list aln.
Hypothesis file_sorted : sorted file.
Hypothesis file_valid : forall b, In b file -> rs b < re b.
Let all := stream file.
Let kept := kept_records c all.

Lemma emitted_from_file reg a v : In (reg, a, v) (emitted file) -> In a file.
Proof. intros H. apply emitted_in in H. destruct H as (cl & out & alns & Hc & F & Ho & Ha & _).
  pose proof (only_cluster_members_returned BIN MAXLEN MINREADS ABSV RN RD BIN_pos ABSV_nonneg m file cl out reg alns a file_sorted file_valid Hc F Ho Ha) as Hin.
  rewrite <- (clusters_partition file). apply in_concat. exists cl. split; assumption. Qed.

(* (1) every alignment of the file that the per-region filters let through gives its read at least one record behind the loader *)
Theorem read_reported_at_least_once a : In a file -> (forall reg, verdict_of reg a <> None) ->
  exists r, In r (kept (read_of a)) /\ rd r = read_of a.
Proof. intros Ha Pass.
  destruct (every_alignment_forwarded BIN MAXLEN MINREADS ABSV RN RD BIN_pos ABSV_nonneg m file a file_sorted file_valid Ha)
    as (cl & whole & out & Hc & _ & _ & F & reg & alns & Ho & Hal).
  destruct (verdict_of reg a) as [v|] eqn:V; [|exfalso; apply (Pass reg); exact V].
  assert (He: In (reg, a, v) (emitted file)) by (apply emitted_in; exists cl, out, alns; repeat split; assumption).
  destruct (number_has _ _ _ _ He) as [i Hi].
  apply (read_kept_at_least_once c all (number_chr _) (number_ids _) (stream_types file) (read_of a)).
  intros E. assert (In (record_of i reg a v) (group_of all (read_of a))) by (apply filter_In; split; [exact Hi|apply Z.eqb_refl]).
  rewrite E in H. destruct H. Qed.

(* (2) two records of one read behind the loader never have the same key *)
Theorem no_identical_records rid : NoDup (map key_of (kept rid)).
Proof. apply (kept_keys_distinct c all (number_chr _) (number_ids _) (stream_types file)). Qed.

(* (4) a read with ONE alignment in the file, handed to one or several sub-regions that all report the same isoform list
   (and that is not dropped by all of them): exactly one record behind the loader *)
Theorem single_alignment_kept_once a : In a file -> (forall b, In b file -> read_of b = read_of a -> b = a) ->
  (forall reg, verdict_of reg a <> None) ->
  (forall reg reg' v v', verdict_of reg a = Some v -> verdict_of reg' a = Some v' -> v_isos v = v_isos v') ->
  length (kept (read_of a)) = 1%nat.
Proof. intros Ha Uniq Pass Same.
  apply (same_key_kept_once c all (number_chr _) (number_ids _) (stream_types file) (read_of a)).
  - destruct (read_reported_at_least_once a Ha Pass) as [r [Hr _]]. intros E. unfold kept, kept_records in Hr. fold all in Hr. rewrite E in Hr. destruct Hr.
  - assert (G: forall x, In x (group_of all (read_of a)) -> exists i reg v, x = record_of i reg a v /\ verdict_of reg a = Some v).
    { intros x Hx. apply filter_In in Hx. destruct Hx as [Hx Er]. apply Z.eqb_eq in Er.
      destruct (number_in _ x Hx) as (i & reg & a' & v & He & ->). cbn in Er.
      pose proof (emitted_from_file _ _ _ He) as Hf. rewrite (Uniq a' Hf Er) in *.
      exists i, reg, v. split; [reflexivity|]. apply emitted_in in He. destruct He as (_ & _ & _ & _ & _ & _ & _ & V). exact V. }
    intros x y Hx Hy. destruct (G x Hx) as (i & reg & v & -> & V). destruct (G y Hy) as (i' & reg' & v' & -> & V').
    unfold key_of, record_of. cbn. rewrite (Same reg reg' v v' V V'). reflexivity. Qed.

(* (3) ... in particular when every hand-over of the alignment happens in one and the same sub-region *)
Corollary single_alignment_single_region_exactly_once a reg0 : In a file -> (forall b, In b file -> read_of b = read_of a -> b = a) ->
  (forall reg, verdict_of reg a <> None) ->
  (forall reg v, In (reg, a, v) (emitted file) -> reg = reg0) ->
  length (kept (read_of a)) = 1%nat.
Proof. intros Ha Uniq Pass One.
  apply (same_key_kept_once c all (number_chr _) (number_ids _) (stream_types file) (read_of a)).
  - destruct (read_reported_at_least_once a Ha Pass) as [r [Hr _]]. intros E. unfold kept, kept_records in Hr. fold all in Hr. rewrite E in Hr. destruct Hr.
  - assert (G: forall x, In x (group_of all (read_of a)) -> exists i v, x = record_of i reg0 a v /\ verdict_of reg0 a = Some v).
    { intros x Hx. apply filter_In in Hx. destruct Hx as [Hx Er]. apply Z.eqb_eq in Er.
      destruct (number_in _ x Hx) as (i & reg & a' & v & He & ->). cbn in Er.
      pose proof (emitted_from_file _ _ _ He) as Hf. assert (a' = a) by (apply Uniq; assumption). subst a'.
      assert (reg = reg0) by (eapply One; exact He). subst reg.
      exists i, v. split; [reflexivity|]. apply emitted_in in He. destruct He as (_ & _ & _ & _ & _ & _ & _ & V). exact V. }
    intros x y Hx Hy. destruct (G x Hx) as (i & v & -> & V). destruct (G y Hy) as (i' & v' & -> & V').
    assert (v = v') by congruence. subst v'. reflexivity. Qed.

(* when does the hypothesis of (3) hold: the alignment lies inside one sub-region of its cluster *)
Lemma cluster_sorted cl : In cl (process file) -> sorted cl.
Proof. intros Hc. apply in_split in Hc. destruct Hc as (pre & post & E). pose proof (clusters_partition file) as P. rewrite E in P.
  rewrite concat_app in P. cbn [concat] in P. pose proof file_sorted as Hs. rewrite <- P in Hs. apply sorted_app_r in Hs. apply sorted_app_l in Hs. exact Hs. Qed.
Lemma cluster_incl cl : In cl (process file) -> incl cl file.
Proof. intros Hc b Hb. rewrite <- (clusters_partition file). apply in_concat. exists cl. split; assumption. Qed.
Theorem inside_one_region a cl out reg0 alns0 : In cl (process file) -> fwd file cl = Some out -> In (reg0, alns0) out -> In a alns0 ->
  fst reg0 <= rs a -> re a - 1 <= snd reg0 -> forall reg v, In (reg, a, v) (emitted file) -> reg = reg0.
Proof. intros Hc F Ho Ha0 Lo Hi reg v He. apply emitted_in in He. destruct He as (cl' & out' & alns & Hc' & F' & Ho' & Ha & _).
  pose proof (only_cluster_members_returned BIN MAXLEN MINREADS ABSV RN RD BIN_pos ABSV_nonneg m file cl out reg0 alns0 a file_sorted file_valid Hc F Ho Ha0) as Hin.
  pose proof (only_cluster_members_returned BIN MAXLEN MINREADS ABSV RN RD BIN_pos ABSV_nonneg m file cl' out' reg alns a file_sorted file_valid Hc' F' Ho' Ha) as Hin'.
  pose proof (file_valid a (cluster_incl cl Hc a Hin)) as Va.
  pose proof (clusters_separated BIN BIN_pos file file_sorted file_valid) as Sep.
  destruct (In_nth_error _ _ Hc) as [i Hi']. destruct (In_nth_error _ _ Hc') as [j Hj'].
  assert (i = j).
  { destruct (lt_eq_lt_dec i j) as [[Hlt|Heq]|Hgt]; [|exact Heq|].
    - pose proof (separated_nth _ _ _ _ _ a a Sep Hlt Hi' Hj' Hin Hin'). lia.
    - pose proof (separated_nth _ _ _ _ _ a a Sep Hgt Hj' Hi' Hin' Hin). lia. }
  subst j. rewrite Hi' in Hj'. injection Hj' as <-. unfold fwd in F, F'. rewrite F in F'. injection F' as <-.
  assert (Hne: cl <> []) by (intros E; rewrite E in Hin; destruct Hin).
  assert (Hv: forall b, In b cl -> rs b < re b) by (intros b Hb; apply file_valid, (cluster_incl cl Hc), Hb).
  assert (Hs: m = HighMem -> sorted cl) by (intros _; apply cluster_sorted; exact Hc).
  pose proof (proj1 (returned_iff_overlaps BIN MAXLEN MINREADS ABSV RN RD BIN_pos ABSV_nonneg m file cl out reg alns a Hne Hv Hs F Ho') Ha) as [_ Ov].
  unfold py_overlaps, span in Ov. cbn [fst snd] in Ov.
  destruct (In_nth_error _ _ Ho) as [p Hp]. destruct (In_nth_error _ _ Ho') as [q Hq].
  destruct (lt_eq_lt_dec p q) as [[Hlt|Heq]|Hgt].
  - pose proof (regions_disjoint BIN MAXLEN MINREADS ABSV RN RD BIN_pos ABSV_nonneg m file cl out p q reg0 reg alns0 alns Hne Hv Hs F Hlt Hp Hq). lia.
  - subst q. rewrite Hp in Hq. injection Hq as <- _. reflexivity.
  - pose proof (regions_disjoint BIN MAXLEN MINREADS ABSV RN RD BIN_pos ABSV_nonneg m file cl out q p reg reg0 alns alns0 Hne Hv Hs F Hgt Hq Hp). lia. Qed.
End OneFile.

(* (5) the retained key set of a read does not depend on the order in which sub-regions and clusters are processed: any rearrangement
   of the emitted (sub-region, alignment, verdict) triples - they then receive other assignment ids - leaves it unchanged *)
Definition erase (r:rec) : rec := mkrec 0 (rd r) (chr r) (st r) (en r) (reg r) (mm r) (polya r) (ty r) (gty r) (pen r) (isos r) (gns r).
Lemma winner_erase l r : winner l r = winner (map erase l) (erase r).
Proof. unfold winner, Gen.winner, best_pen, Gen.best_non. rewrite !existsb_map, !forallb_map. destruct r. reflexivity. Qed.
Lemma only_uninformative_erase l : only_uninformative l = only_uninformative (map erase l).
Proof. unfold only_uninformative. rewrite !existsb_map. reflexivity. Qed.
Lemma erase_key x y : erase x = erase y -> key_of x = key_of y.
Proof. destruct x, y. unfold erase, key_of. cbn. intros H. injection H as -> -> -> -> _ _ _ _ _ _ -> _. reflexivity. Qed.
Lemma erase_non x y : erase x = erase y -> p_non x = p_non y.
Proof. destruct x, y. unfold erase, p_non. cbn. intros H. injection H as _ _ _ _ _ _ _ -> _ _ _ _. reflexivity. Qed.
Lemma best_non_erase l r r' : erase r = erase r' -> Gen.best_non tkey l r = Gen.best_non tkey l r'.
Proof. intros E. unfold Gen.best_non. rewrite (erase_non r r' E). f_equal. apply forallb_ext_all. intros x.
  destruct r, r'. unfold erase in E. injection E as -> -> -> -> -> _ _ _ _ _ -> _. reflexivity. Qed.
Lemma kept_keys_erase_incl l l' : Permutation (map erase l) (map erase l') -> Gen.no_tie tkey l' ->
  forall k, In k (kept_keys l) -> In k (kept_keys l').
Proof. intros P NT k Hk. unfold kept_keys, Gen.kept_keys in Hk. apply in_map_iff in Hk. destruct Hk as [i [<- Hi]].
  destruct (Gen.kept_are_winners tkey l i Hi) as [Li W]. set (r := nthr l i) in *.
  assert (Hr: In (erase r) (map erase l')) by (apply (Permutation_in _ P), in_map, nth_In; exact Li).
  apply in_map_iff in Hr. destruct Hr as [r' [Er Hr']].
  assert (W': Gen.winner tkey l' r' = true).
  { rewrite <- W. change (winner l' r' = winner l r). rewrite (winner_erase l' r'), (winner_erase l r), Er. unfold winner. symmetry. apply Gen.winner_perm. exact P. }
  clear W. rename W' into W.
  rewrite <- (erase_key _ _ Er). destruct (In_nth l' r' dflt Hr') as [i' [Li' Ei']]. fold (nthr l' i') in Ei'.
  destruct (only_uninformative l') eqn:OU.
  - assert (NE: l' <> []) by (intros ->; destruct Hr').
    destruct (Gen.uninformative_single tkey l' NE OU) as [b [Kb [Lb Bb]]]. unfold kept_keys, Gen.kept_keys. rewrite Kb. left.
    rewrite (Gen.winner_uninformative tkey l' r' OU) in W.
    destruct (Gen.best_non_tie tkey l' r' (nthr l' b) Hr' (nth_In _ _ Lb) W Bb) as [T1 T2].
    symmetry. apply NT; try assumption; try (apply nth_In; exact Lb).
    + unfold Gen.best_non in W. apply andb_prop in W. tauto.
    + unfold Gen.best_non in Bb. apply andb_prop in Bb. tauto.
  - rewrite <- Ei' in W. destruct (Gen.ties_kept tkey l' i' OU Li' W) as [j [Hj Ej]]. unfold kept_keys, Gen.kept_keys. apply in_map_iff. exists j. split; [|exact Hj].
    apply rec_eq_key in Ej. rewrite Ej, Ei'. reflexivity. Qed.
Lemma no_tie_erase l l' : Permutation (map erase l) (map erase l') -> one_read l -> one_read l'.
Proof. intros P O a b Ha Hb.
  assert (G: forall x, In x l' -> exists y, In y l /\ rd y = rd x).
  { intros x Hx. assert (In (erase x) (map erase l)) by (apply (Permutation_in _ (Permutation_sym P)), in_map, Hx).
    apply in_map_iff in H. destruct H as [y [E Hy]]. exists y. split; [exact Hy|]. destruct x, y. unfold erase in E. injection E as -> _. reflexivity. }
  destruct (G a Ha) as [a' [Ha' <-]]. destruct (G b Hb) as [b' [Hb' <-]]. apply O; assumption. Qed.
Theorem kept_keys_erase_invariant l l' : Permutation (map erase l) (map erase l') -> one_read l ->
  forall k, In k (kept_keys l) <-> In k (kept_keys l').
Proof. intros P O k. split.
  - apply kept_keys_erase_incl; [exact P|apply one_read_no_tie, (no_tie_erase l l' P O)].
  - apply kept_keys_erase_incl; [apply Permutation_sym; exact P|apply one_read_no_tie, O]. Qed.

Lemma number_erase em : map erase (number em) = map (fun e => let '(reg, a, v) := e in record_of 0 reg a v) em.
Proof. unfold number. rewrite map_map.
  transitivity (map (fun e : emission => let '(reg, a, v) := e in record_of 0 reg a v) (map snd (combine (map Z.of_nat (seq 0 (length em))) em))).
  - rewrite map_map. apply map_ext. intros [i [[reg a] v]]. reflexivity.
  - rewrite map_snd_combine by apply ids_length. reflexivity. Qed.
Lemma group_erase all rid : map erase (group_of all rid) = group_of (map erase all) rid.
Proof. unfold group_of. rewrite filter_map_comm. reflexivity. Qed.
Theorem kept_records_independent_of_processing_order (em em':list emission) rid :
  (forall reg a v, In (reg, a, v) em -> v_ty v <> Suspended) -> Permutation em em' ->
  forall k, In k (map key_of (kept_records c (number em) rid)) <-> In k (map key_of (kept_records c (number em') rid)).
Proof. intros Hty P k.
  assert (Ty: forall e, Permutation em e -> forall r, In r (number e) -> ty r <> Suspended).
  { intros e Pe r Hr. destruct (number_in e r Hr) as (i & reg & a & v & He & ->). cbn. apply (Hty reg a v). apply (Permutation_in _ (Permutation_sym Pe)). exact He. }
  rewrite (kept_records_keys c (number em) (number_chr em) (number_ids em) (Ty em (Permutation_refl _)) rid k).
  rewrite (kept_records_keys c (number em') (number_chr em') (number_ids em') (Ty em' P) rid k).
  apply kept_keys_erase_invariant.
  - rewrite !group_erase, !number_erase. apply Permutation_filter_gen, Permutation_map. exact P.
  - intros x y Hx Hy. unfold group_of in Hx, Hy. apply filter_In in Hx, Hy. destruct Hx as [_ Hx], Hy as [_ Hy]. apply Z.eqb_eq in Hx, Hy. congruence. Qed.
(* for the stream of a file: the emitted triples in any other order *)
Corollary kept_records_independent_of_region_order file em' rid : Permutation (emitted file) em' ->
  forall k, In k (map key_of (kept_records c (stream file) rid)) <-> In k (map key_of (kept_records c (number em') rid)).
Proof. intros P. apply kept_records_independent_of_processing_order; [|exact P].
  intros reg a v He. apply emitted_in in He. destruct He as (_ & _ & _ & _ & _ & _ & _ & V). eapply never_suspended. exact V. Qed.
End Flow.

(* ================================================================ 3. the constants of the repository; witnesses *)
Definition iq_stream := stream AP_COVERAGE_BIN AP_MAX_REGION_LEN AP_MIN_READS_TO_SPLIT AP_ABS_COV_VALLEY iqRN iqRD.
Definition iq_emitted := emitted AP_COVERAGE_BIN AP_MAX_REGION_LEN AP_MIN_READS_TO_SPLIT AP_ABS_COV_VALLEY iqRN iqRD.
Definition iq_read_reported_at_least_once :=
  read_reported_at_least_once AP_COVERAGE_BIN AP_MAX_REGION_LEN AP_MIN_READS_TO_SPLIT AP_ABS_COV_VALLEY iqRN iqRD iq_bin_pos iq_absv_nonneg.
Definition iq_no_identical_records :=
  no_identical_records AP_COVERAGE_BIN AP_MAX_REGION_LEN AP_MIN_READS_TO_SPLIT AP_ABS_COV_VALLEY iqRN iqRD.
Definition iq_single_alignment_kept_once :=
  single_alignment_kept_once AP_COVERAGE_BIN AP_MAX_REGION_LEN AP_MIN_READS_TO_SPLIT AP_ABS_COV_VALLEY iqRN iqRD iq_bin_pos iq_absv_nonneg.
Definition iq_single_alignment_single_region_exactly_once :=
  single_alignment_single_region_exactly_once AP_COVERAGE_BIN AP_MAX_REGION_LEN AP_MIN_READS_TO_SPLIT AP_ABS_COV_VALLEY iqRN iqRD iq_bin_pos iq_absv_nonneg.
Definition iq_inside_one_region :=
  inside_one_region AP_COVERAGE_BIN AP_MAX_REGION_LEN AP_MIN_READS_TO_SPLIT AP_ABS_COV_VALLEY iqRN iqRD iq_bin_pos iq_absv_nonneg.
Definition iq_kept_records_independent_of_region_order :=
  kept_records_independent_of_region_order AP_COVERAGE_BIN AP_MAX_REGION_LEN AP_MIN_READS_TO_SPLIT AP_ABS_COV_VALLEY iqRN iqRD.

(* w_tail of Regions.v: two deep blocks cut at the valley into (5000,38144) (38145,72448) (72449,72499); alignment 1000 = (37900, 39000)
   crosses the first border and is handed to both sub-regions.  Every alignment is its own read. *)
Definition ex_read (a:aln) : Z := snd a.
(* an assigner that reports the same isoform in every sub-region ... *)
Definition ex_same (r:iv) (a:aln) : option vd := Some (mkvd Unique Unique 0 [7] [1]).
(* ... and one whose isoform depends on the sub-region (each sub-region sees only its part of the alignment: the split-region
   phenomenon of C13) *)
Definition ex_differ (r:iv) (a:aln) : option vd := Some (mkvd Unique Unique 0 [fst r] [1]).
Definition summary (l:list rec) : list (Z * iv * atype * bool * list Z) := map (fun r => (aid r, reg r, ty r, mm r, isos r)) l.
Definition ex_stream (v:iv -> aln -> option vd) (m:mode) : list rec := iq_stream 1 ex_read (fun _ => false) v m w_tail.
Example split_alignment_kept_once_example :
  let all := ex_stream ex_same Default in
  summary (group_of all 1000) = [(300, (5000, 38144), Unique, false, [7]); (301, (38145, 72448), Unique, false, [7])] /\
  summary (kept_records 1 all 1000) = [(300, (5000, 38144), Unique, false, [7])] /\
  summary (kept_records 1 (ex_stream ex_same HighMem) 1000) = [(300, (5000, 38144), Unique, false, [7])].
Proof. vm_compute. repeat split; reflexivity. Qed.
(* both records stay, re-typed ambiguous and flagged, when the two sub-regions name different isoforms; an alignment inside one
   sub-region gives one record, untouched; every read of the file is reported *)
Example split_alignment_kept_once_refuted :
  let all := ex_stream ex_differ Default in
  summary (kept_records 1 all 1000) = [(300, (5000, 38144), Ambiguous, true, [5000]); (301, (38145, 72448), Ambiguous, true, [38145])] /\
  summary (kept_records 1 all 9999) = [(608, (72449, 72499), Unique, false, [72449])] /\
  forallb (fun a => negb (length (kept_records 1 all (snd a)) =? 0)%nat) w_tail = true.
Proof. vm_compute. repeat split; reflexivity. Qed.

(* ================================================================ 4. support for the correspondence (harness/props/c05.py) *)
Notation consts6 := (Z*Z*Z*Z*Z*Z)%type.
Fixpoint zlookup (d:list (Z*Z)) (k:Z) : Z := match d with [] => 0 | (k', v) :: t => if k' =? k then v else zlookup t k end.
Definition vt_key := (Z * Z * Z)%type.       (* region start, region end, alignment id *)
Fixpoint vlookup (d:list (vt_key * option vd)) (k:vt_key) : option vd :=
  match d with
  | [] => None
  | (k', v) :: t => let '(a1, a2, a3) := k' in let '(b1, b2, b3) := k in if (a1 =? b1) && (a2 =? b2) && (a3 =? b3) then v else vlookup t k
  end.
(* case: (constants, high_memory, alignments (start, end, id), read id of every alignment id, ids of the secondary alignments,
   the stub assigner's table) *)
Notation acc_in := (consts6 * bool * list aln * list (Z*Z) * list Z * list (vt_key * option vd))%type.
Definition acc_stream (x:acc_in) : list rec :=
  let '(k, hm, file, reads, secs, vt) := x in let '(B, ML, MR, AV, RN, RD) := k in
  stream B ML MR AV RN RD 1 (fun a => zlookup reads (snd a)) (fun a => existsb (Z.eqb (snd a)) secs)
         (fun r a => vlookup vt (fst r, snd r, snd a)) (if hm then HighMem else Default) file.
Notation acc_out := (list rec * list (Z * verdict))%type.      (* the save stream, and (assignment id, verdict) behind the loader *)
Definition acc_model (x:acc_in) : acc_out :=
  let all := acc_stream x in (all, map (fun r => (aid r, verdict_of r)) (loaded_stream 1 all)).
Definition rec_full_eqb (a b:rec) : bool :=
  (aid a =? aid b) && rec_eq a b && (fst (reg a) =? fst (reg b)) && (snd (reg a) =? snd (reg b)) && Bool.eqb (mm a) (mm b) && Bool.eqb (polya a) (polya b)
  && atype_eqb (ty a) (ty b) && atype_eqb (gty a) (gty b) && (pen a =? pen b) && zlist_eqb (gns a) (gns b).
Definition acc_check (c:acc_in * acc_out) : bool :=
  let m := acc_model (fst c) in
  list_eqb rec_full_eqb (fst m) (fst (snd c)) && list_eqb (pair_eqb Z.eqb verdict_eqb) (snd m) (snd (snd c)).
(* the end-to-end statement, decidable, on the IMPLEMENTATION's stream and kept list: every read with a record in the stream has a kept
   record; two kept records of one read never have the same key; nothing is kept that is not in the stream; and every alignment of the
   file that the stub lets through in every region has a record in the stream *)
Definition acc_prop (c:acc_in * acc_out) : bool :=
  let '(k, hm, file, reads, secs, vt) := fst c in
  let s := fst (snd c) in let kept_ids := map fst (snd (snd c)) in
  let is_kept := fun r => existsb (Z.eqb (aid r)) kept_ids in
  let kept_recs := filter is_kept s in
  forallb (fun r => existsb (fun r' => (rd r' =? rd r) && is_kept r') s) s
  && forallb (fun x => forallb (fun y => (aid x =? aid y) || negb (rec_eq x y)) kept_recs) kept_recs
  && forallb (fun i => existsb (fun r => aid r =? i) s) kept_ids
  && forallb (fun a => existsb (fun e => let '(_, _, i) := fst e in (i =? snd a) && match snd e with None => true | Some _ => false end) vt
                       || existsb (fun r => (rd r =? zlookup reads (snd a)) && (st r =? rs a + 1) && (en r =? re a)) s) file.
