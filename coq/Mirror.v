(* C11: translation (shift k) and reflection (reflect L: x -> L+1-x, lists reversed, interval ends swapped) on the model types,
   and the equivariance of the loop-free predicates TRANSLATED from src/common.py (gen/Prims.v, regenerated on every run).
   List functions, the polyA pairs and the region splitter are in MirrorProofs.v; the models of the left/right pairs that
   had no model yet (PolyAVerifier, select_similar_isoforms, categorize_exon_elongation_subtype) are in MirrorPairs.v. *)
From Coq Require Import ZArith NArith List Bool Lia ZifyBool.
From IQ.gen Require Import Prims Tables.
Import ListNotations. Open Scope Z_scope.
Notation iv := (Z*Z)%type.

(* ---------------------------------------------------------------- operators *)
Definition sh (k:Z) (a:iv) : iv := (fst a + k, snd a + k).
Definition shl (k:Z) (l:list iv) : list iv := map (sh k) l.
Definition rf (L:Z) (a:iv) : iv := (L + 1 - snd a, L + 1 - fst a).
Definition rfl (L:Z) (l:list iv) : list iv := rev (map (rf L) l).
(* positions with the sentinel -1 (polyA / polyT positions) *)
Definition shp (k p:Z) : Z := if p =? -1 then -1 else p + k.
Definition rfp (L p:Z) : Z := if p =? -1 then -1 else L + 1 - p.
(* profiles (one value per feature) are reversed; index i of n features becomes n-1-i *)
Definition rfprof (p:list Z) : list Z := rev p.
Definition rfidx (n i:Z) : Z := n - 1 - i.
(* strands *)
Inductive strand := Plus | Minus | Dot.
Definition flip (s:strand) : strand := match s with Plus => Minus | Minus => Plus | Dot => Dot end.

Lemma sh_sh k j a : sh k (sh j a) = sh (j + k) a.
Proof. unfold sh. cbn [fst snd]. f_equal; lia. Qed.
Lemma sh_0 a : sh 0 a = a.
Proof. destruct a. unfold sh. cbn [fst snd]. f_equal; lia. Qed.
Lemma rf_rf L a : rf L (rf L a) = a.
Proof. destruct a. unfold rf. cbn [fst snd]. f_equal; lia. Qed.
Lemma rfl_rfl L l : rfl L (rfl L l) = l.
Proof. unfold rfl. rewrite map_rev, rev_involutive, map_map. rewrite <- (map_id l) at 2. apply map_ext. intros a. apply rf_rf. Qed.
Lemma rf_sh L k a : rf (L + k) (sh k a) = rf L a.
Proof. unfold rf, sh. cbn [fst snd]. f_equal; lia. Qed.
Lemma rfp_rfp L p : L + 1 - p <> -1 -> rfp L (rfp L p) = p.
Proof. unfold rfp. intros H. destruct (Z.eqb_spec p (-1)) as [->|E]; [reflexivity|]. destruct (Z.eqb_spec (L + 1 - p) (-1)); lia. Qed.
Lemma flip_flip s : flip (flip s) = s. Proof. destruct s; reflexivity. Qed.
Lemma rfl_length L l : length (rfl L l) = length l.
Proof. unfold rfl. rewrite rev_length, map_length. reflexivity. Qed.
Lemma shl_length k l : length (shl k l) = length l.
Proof. apply map_length. Qed.
Lemma rfl_cons L a l : rfl L (a :: l) = rfl L l ++ [rf L a].
Proof. reflexivity. Qed.
Lemma rfl_app L l1 l2 : rfl L (l1 ++ l2) = rfl L l2 ++ rfl L l1.
Proof. unfold rfl. rewrite map_app, rev_app_distr. reflexivity. Qed.

(* ---------------------------------------------------------------- events: left <-> right (constants of gen/Tables.v) *)
Definition swap_mes (e:MES) : MES :=
  match e with
  | MES_ism_left => MES_ism_right | MES_ism_right => MES_ism_left
  | MES_fake_terminal_exon_left => MES_fake_terminal_exon_right | MES_fake_terminal_exon_right => MES_fake_terminal_exon_left
  | MES_terminal_exon_misalignment_left => MES_terminal_exon_misalignment_right | MES_terminal_exon_misalignment_right => MES_terminal_exon_misalignment_left
  | MES_exon_elongation_left => MES_exon_elongation_right | MES_exon_elongation_right => MES_exon_elongation_left
  | MES_incomplete_intron_retention_left => MES_incomplete_intron_retention_right | MES_incomplete_intron_retention_right => MES_incomplete_intron_retention_left
  | MES_alt_left_site_known => MES_alt_right_site_known | MES_alt_right_site_known => MES_alt_left_site_known
  | MES_alt_left_site_novel => MES_alt_right_site_novel | MES_alt_right_site_novel => MES_alt_left_site_novel
  | MES_extra_intron_flanking_left => MES_extra_intron_flanking_right | MES_extra_intron_flanking_right => MES_extra_intron_flanking_left
  | MES_major_exon_elongation_left => MES_major_exon_elongation_right | MES_major_exon_elongation_right => MES_major_exon_elongation_left
  | MES_alternative_polya_site_left => MES_alternative_polya_site_right | MES_alternative_polya_site_right => MES_alternative_polya_site_left
  | MES_internal_polya_left => MES_internal_polya_right | MES_internal_polya_right => MES_internal_polya_left
  | MES_alternative_tss_left => MES_alternative_tss_right | MES_alternative_tss_right => MES_alternative_tss_left
  | MES_correct_polya_site_left => MES_correct_polya_site_right | MES_correct_polya_site_right => MES_correct_polya_site_left
  | MES_terminal_site_match_left => MES_terminal_site_match_right | MES_terminal_site_match_right => MES_terminal_site_match_left
  | MES_terminal_site_match_left_precise => MES_terminal_site_match_right_precise | MES_terminal_site_match_right_precise => MES_terminal_site_match_left_precise
  | x => x
  end.
Lemma swap_mes_invol e : swap_mes (swap_mes e) = e.
Proof. destruct e; reflexivity. Qed.
(* the penalty table of src/isoform_assignment.py does not distinguish left from right *)
Lemma event_cost_mirror e : MES_cost (swap_mes e) = MES_cost e.
Proof. destruct e; reflexivity. Qed.
Definition mem_mes (e:MES) (l:list MES) : bool := existsb (MES_eqb e) l.
(* ... nor do the event classes (every class of gen/Tables.v is closed under the swap) *)
Definition class_closed (l:list MES) : bool := forallb (fun e => mem_mes (swap_mes e) l) l.
Lemma event_classes_mirror :
  forallb class_closed [MES_nnic_event_types; MES_nic_event_types; MES_nonintronic_events; MES_all_major_events; MES_intronic_major_events;
                        MES_is_alignment_artifact; MES_is_minor_error; MES_is_consistent; MES_is_major_elongation; MES_is_minor_elongation;
                        MES_is_major_inconsistency; MES_is_intronic_inconsistency; MES_without_cost] = true.
Proof. vm_compute. reflexivity. Qed.

(* ---------------------------------------------------------------- translated predicates: shift equivariance *)
Ltac prim := intros; unfold sh, rf; cbn [fst snd]; cbv zeta; try lia.

Lemma py_cmp_shift k x y : py_cmp (x + k) (y + k) = py_cmp x y.
Proof. unfold py_cmp. destruct (x <? y) eqn:E1, (x + k <? y + k) eqn:E2; try lia. destruct (x >? y) eqn:E3, (x + k >? y + k) eqn:E4; lia. Qed.
Lemma py_overlaps_shift k a b : py_overlaps (sh k a) (sh k b) = py_overlaps a b.
Proof. unfold py_overlaps. prim. Qed.
Lemma py_overlap_intervals_shift k a b : py_overlap_intervals (sh k a) (sh k b) = sh k (py_overlap_intervals a b).
Proof. unfold py_overlap_intervals. prim. f_equal; lia. Qed.
Lemma py_overlaps_at_least_shift k a b d : py_overlaps_at_least (sh k a) (sh k b) d = py_overlaps_at_least a b d.
Proof. unfold py_overlaps_at_least. prim.
  replace (snd a + k - (fst b + k)) with (snd a - fst b) by lia. replace (snd b + k - (fst a + k)) with (snd b - fst a) by lia.
  destruct ((snd a - fst b <? 0) || (snd b - fst a <? 0)); [reflexivity|].
  destruct (snd a <? snd b) eqn:E1, (snd a + k <? snd b + k) eqn:E2; lia. Qed.
Lemma py_overlaps_at_least_when_overlap_shift k a b d : py_overlaps_at_least_when_overlap (sh k a) (sh k b) d = py_overlaps_at_least_when_overlap a b d.
Proof. unfold py_overlaps_at_least_when_overlap. prim. destruct (snd a <? snd b) eqn:E1, (snd a + k <? snd b + k) eqn:E2; lia. Qed.
Lemma py_intersection_len_shift k a b : py_intersection_len (sh k a) (sh k b) = py_intersection_len a b.
Proof. unfold py_intersection_len. prim. Qed.
Lemma py_left_of_shift k a b : py_left_of (sh k a) (sh k b) = py_left_of a b.
Proof. unfold py_left_of. prim. Qed.
Lemma py_equal_ranges_shift k a b d : py_equal_ranges (sh k a) (sh k b) d = py_equal_ranges a b d.
Proof. unfold py_equal_ranges. prim. Qed.
Lemma py_covers_end_shift k a b : py_covers_end (sh k a) (sh k b) = py_covers_end a b.
Proof. unfold py_covers_end. prim. Qed.
Lemma py_covers_start_shift k a b : py_covers_start (sh k a) (sh k b) = py_covers_start a b.
Proof. unfold py_covers_start. prim. Qed.
Lemma py_contains_shift k a b : py_contains (sh k a) (sh k b) = py_contains a b.
Proof. unfold py_contains. prim. Qed.
Lemma py_contains_well_inside_shift k a b d : py_contains_well_inside (sh k a) (sh k b) d = py_contains_well_inside a b d.
Proof. unfold py_contains_well_inside. prim. Qed.
Lemma py_contains_approx_shift k a b d : py_contains_approx (sh k a) (sh k b) d = py_contains_approx a b d.
Proof. unfold py_contains_approx. prim. Qed.
Lemma py_max_range_shift k a b : py_max_range (sh k a) (sh k b) = sh k (py_max_range a b).
Proof. unfold py_max_range. prim. f_equal; lia. Qed.
Lemma py_interval_len_shift k a : py_interval_len (sh k a) = py_interval_len a.
Proof. unfold py_interval_len. prim. Qed.

(* ---------------------------------------------------------------- translated predicates: reflection *)
(* self-mirror *)
Lemma py_overlaps_mirror L a b : py_overlaps (rf L a) (rf L b) = py_overlaps a b.
Proof. unfold py_overlaps. prim. Qed.
Lemma py_overlap_intervals_mirror L a b : py_overlap_intervals (rf L a) (rf L b) = rf L (py_overlap_intervals a b).
Proof. unfold py_overlap_intervals. prim. f_equal; lia. Qed.
Lemma py_intersection_len_mirror L a b : py_intersection_len (rf L a) (rf L b) = py_intersection_len a b.
Proof. unfold py_intersection_len. prim. Qed.
Lemma py_equal_ranges_mirror L a b d : py_equal_ranges (rf L a) (rf L b) d = py_equal_ranges a b d.
Proof. unfold py_equal_ranges. prim. Qed.
Lemma py_contains_mirror L a b : py_contains (rf L a) (rf L b) = py_contains a b.
Proof. unfold py_contains. prim. Qed.
Lemma py_contains_well_inside_mirror L a b d : py_contains_well_inside (rf L a) (rf L b) d = py_contains_well_inside a b d.
Proof. unfold py_contains_well_inside. prim. Qed.
Lemma py_contains_approx_mirror L a b d : py_contains_approx (rf L a) (rf L b) d = py_contains_approx a b d.
Proof. unfold py_contains_approx. prim. Qed.
Lemma py_max_range_mirror L a b : py_max_range (rf L a) (rf L b) = rf L (py_max_range a b).
Proof. unfold py_max_range. prim. f_equal; lia. Qed.
Lemma py_interval_len_mirror L a : py_interval_len (rf L a) = py_interval_len a.
Proof. unfold py_interval_len. prim. Qed.
(* mirror pairs *)
Lemma py_cmp_mirror L x y : py_cmp (L + 1 - x) (L + 1 - y) = py_cmp y x.
Proof. unfold py_cmp. destruct (y <? x) eqn:E1, (L + 1 - x <? L + 1 - y) eqn:E2; try lia. destruct (y >? x) eqn:E3, (L + 1 - x >? L + 1 - y) eqn:E4; lia. Qed.
Lemma py_left_of_mirror L a b : py_left_of (rf L a) (rf L b) = py_left_of b a.
Proof. unfold py_left_of. prim. Qed.
Lemma py_covers_start_mirror L a b : py_covers_start (rf L a) (rf L b) = py_covers_end a b.
Proof. unfold py_covers_start, py_covers_end. prim. Qed.
Lemma py_covers_end_mirror L a b : py_covers_end (rf L a) (rf L b) = py_covers_start a b.
Proof. unfold py_covers_start, py_covers_end. prim. Qed.

(* overlaps_at_least is NOT its own mirror image: an interval strictly inside another one and sharing its LEFT end always counts
   as overlapping "at least delta", the mirror configuration (sharing the RIGHT end) only when the overlap is long enough *)
Lemma py_overlaps_at_least_mirror_refuted :
  py_overlaps_at_least (10, 12) (10, 30) 10 = true /\ py_overlaps_at_least (rf 100 (10, 12)) (rf 100 (10, 30)) 10 = false.
Proof. vm_compute. split; reflexivity. Qed.
Lemma py_overlaps_at_least_mirror_partial L a b d : fst a <> fst b -> snd a <> snd b ->
  py_overlaps_at_least (rf L a) (rf L b) d = py_overlaps_at_least a b d.
Proof. intros H1 H2. unfold py_overlaps_at_least. prim.
  replace (L + 1 - fst a - (L + 1 - snd b)) with (snd b - fst a) by lia. replace (L + 1 - fst b - (L + 1 - snd a)) with (snd a - fst b) by lia.
  rewrite (orb_comm (snd b - fst a <? 0)).
  destruct ((snd a - fst b <? 0) || (snd b - fst a <? 0)); [reflexivity|].
  destruct (snd a <? snd b) eqn:E1, (L + 1 - fst a <? L + 1 - fst b) eqn:E2; lia. Qed.
(* the disagreement is exactly the shared-end corner: outside it the value is symmetric, inside it the two orientations
   differ as soon as the overlap is shorter than delta *)
Lemma py_overlaps_at_least_mirror_corner L a b d : fst a <= snd a -> fst b <= snd b ->
  py_overlaps_at_least (rf L a) (rf L b) d <> py_overlaps_at_least a b d ->
  (fst a = fst b /\ snd a < snd b /\ snd a - fst a < d - 1) \/ (snd a = snd b /\ fst b < fst a /\ snd a - fst a < d - 1).
Proof. intros Ha Hb. unfold py_overlaps_at_least, rf. cbn [fst snd]. cbv zeta.
  replace (L + 1 - fst a - (L + 1 - snd b)) with (snd b - fst a) by lia. replace (L + 1 - fst b - (L + 1 - snd a)) with (snd a - fst b) by lia.
  rewrite (orb_comm (snd b - fst a <? 0)).
  destruct ((snd a - fst b <? 0) || (snd b - fst a <? 0)) eqn:E0; [congruence|].
  destruct (snd a <? snd b) eqn:E1, (L + 1 - fst a <? L + 1 - fst b) eqn:E2; intros H;
    match type of H with ?x <> ?y => destruct x eqn:X, y eqn:Y; try congruence end; lia. Qed.
Lemma py_overlaps_at_least_when_overlap_mirror_refuted :
  py_overlaps_at_least_when_overlap (10, 12) (10, 30) 10 = true /\ py_overlaps_at_least_when_overlap (rf 100 (10, 12)) (rf 100 (10, 30)) 10 = false.
Proof. vm_compute. split; reflexivity. Qed.
Lemma py_overlaps_at_least_when_overlap_mirror_partial L a b d : fst a <> fst b -> snd a <> snd b ->
  py_overlaps_at_least_when_overlap (rf L a) (rf L b) d = py_overlaps_at_least_when_overlap a b d.
Proof. intros H1 H2. unfold py_overlaps_at_least_when_overlap. prim.
  destruct (snd a <? snd b) eqn:E1, (L + 1 - fst a <? L + 1 - fst b) eqn:E2; lia. Qed.
