(* C04 - IntronCollector.collect_introns / construct_similar_intron_map / cluster_introns as an EXECUTABLE total function of the
   multiset of collected introns, faithful to the code as it is (src/intron_graph.py):

     all_introns          dict intron -> number of non-multimapped reads containing it (with repetitions inside a read)
     similar(i, j)        i <> j, |start_i - start_j| <= delta and |end_i - end_j| <= delta   (the scan over the sorted introns finds exactly these)
     processing order     sorted([(count, intron)], reverse=True)
     per intron           known                       -> vertex with its own count
                          has a similar intron        -> if some similar intron is ALREADY a vertex: substituted by the LARGEST such intron in
                                                         coordinate order (all candidates carry the same first tuple component, the count of the
                                                         intron being processed), whose count is incremented; otherwise a vertex
                                                         (whatever its count: min_count is not consulted in this branch)
                          count < min_count           -> discarded
                          otherwise                   -> vertex

   Theorems: the emitted operation sequence is a run of the abstract system of Graph.v (so the 13-clause invariant holds by construction),
   the substitute of an intron is a collected intron within delta on both ends, of at least the same count and a vertex of the result,
   substitution chains have length one (the map is a fixed point of [resolve]), the result depends only on the multiset of collected
   introns (order of the reads, dict insertion order: irrelevant); clustering is NOT idempotent on its own output (witness). *)
From Coq Require Import ZArith NArith List Bool Lia ZifyBool Sorting.Permutation Sorting.Sorted.
From IQ Require Import Exons Graph GraphProofs.
Import ListNotations. Open Scope Z_scope.

(* ------------------------------------------------------------------ the model *)
Definition iv_ltb (a b : iv) : bool := (fst a <? fst b) || ((fst a =? fst b) && (snd a <? snd b)).
(* (count, intron) of a precedes (count, intron) of b in sorted(..., reverse=True) *)
Definition ci_gtb (a b : iv * Z) : bool := (snd b <? snd a) || ((snd a =? snd b) && iv_ltb (fst b) (fst a)).
Fixpoint insert_desc (x : iv * Z) (l : list (iv * Z)) : list (iv * Z) :=
  match l with [] => [x] | y :: t => if ci_gtb x y then x :: y :: t else y :: insert_desc x t end.
Definition sort_desc (l : list (iv * Z)) : list (iv * Z) := fold_right insert_desc [] l.

Definition similar (delta : Z) (a b : iv) : bool :=
  negb (iv_eqb a b) && (Z.abs (fst a - fst b) <=? delta) && (Z.abs (snd a - snd b) <=? delta).
(* `intron in similar_intron_map` *)
Definition has_similar (delta : Z) (all : list (iv * Z)) (i : iv) : bool := existsb (fun x => similar delta i (fst x)) all.
(* sorted([(count, s) for s in similar_intron_map[i] if s in clustered_introns], reverse=True)[0][1] *)
Definition best_similar (delta : Z) (V : list (iv * Z)) (i : iv) : option iv :=
  fold_left (fun best v => if similar delta i (fst v)
                           then match best with None => Some (fst v) | Some b => if iv_ltb b (fst v) then Some (fst v) else best end
                           else best) V None.

Record cstate := mkCS {
  cs_vert : list (iv * Z);       (* clustered_introns, in insertion order *)
  cs_map : list (iv * iv);       (* intron_correction_map, in insertion order *)
  cs_disc : list iv }.           (* discarded_introns, in insertion order *)
Definition cs0 := mkCS [] [] [].
Definition bump (s : iv) (c : Z) (V : list (iv * Z)) : list (iv * Z) := map (fun v => if iv_eqb (fst v) s then (fst v, snd v + c) else v) V.

Definition cluster_step (known : list iv) (delta mnc : Z) (all : list (iv * Z)) (st : cstate) (e : iv * Z) : cstate * op :=
  let i := fst e in let c := snd e in
  let vertex := (mkCS (cs_vert st ++ [(i, c)]) (cs_map st) (cs_disc st), AddVertex i) in
  if mem i known then vertex
  else if has_similar delta all i then
    match best_similar delta (cs_vert st) i with
    | Some s => (mkCS (bump s c (cs_vert st)) (cs_map st ++ [(i, s)]) (cs_disc st), ClusterSubst i s)
    | None => vertex
    end
  else if c <? mnc then (mkCS (cs_vert st) (cs_map st) (cs_disc st ++ [i]), ClusterDiscard i)
  else vertex.
Fixpoint cluster_run (known : list iv) (delta mnc : Z) (all l : list (iv * Z)) (st : cstate) : cstate * list op :=
  match l with
  | [] => (st, [])
  | e :: t => let '(st', o) := cluster_step known delta mnc all st e in
              let '(st'', os) := cluster_run known delta mnc all t st' in (st'', o :: os)
  end.
(* cluster_introns(all_introns, min_count) *)
Definition cluster (known : list iv) (delta mnc : Z) (all : list (iv * Z)) : cstate * list op :=
  cluster_run known delta mnc all (sort_desc all) cs0.

(* collect_introns: dict in first-occurrence order *)
Definition count_iv (i : iv) (l : list iv) : Z := Z.of_nat (length (filter (iv_eqb i) l)).
Fixpoint dedup (l : list iv) : list iv := match l with [] => [] | x :: t => x :: remove_iv x (dedup t) end.
Definition collect_counts (reads : list read) : list (iv * Z) :=
  let l := read_introns reads in map (fun i => (i, count_iv i l)) (dedup l).

(* what the correspondences compare *)
Definition ivz_eqb (a b : iv * Z) : bool := iv_eqb (fst a) (fst b) && (snd a =? snd b).
Fixpoint list_eqb_ {A} (e : A -> A -> bool) (x y : list A) : bool :=
  match x, y with [], [] => true | a :: s, b :: t => e a b && list_eqb_ e s t | _, _ => false end.
Definition op_eqb (a b : op) : bool :=
  match a, b with
  | AddVertex i, AddVertex j | ClusterDiscard i, ClusterDiscard j => iv_eqb i j
  | ClusterSubst i s, ClusterSubst j t => iv_eqb i j && iv_eqb s t
  | _, _ => false end.
Definition cstate_eqb (a : cstate) (V : list (iv * Z)) (M : list (iv * iv)) (D : list iv) : bool :=
  list_eqb_ ivz_eqb (cs_vert a) V && list_eqb_ pr_eqb (cs_map a) M && list_eqb_ iv_eqb (cs_disc a) D.
(* the clustering prefix of a logged operation sequence (everything before the first snapshot) *)
Fixpoint cluster_prefix (ops : list op) : list op :=
  match ops with [] => [] | Snap _ _ _ _ :: _ => [] | o :: t => o :: cluster_prefix t end.

(* ================================================================== proofs *)
(* ------------------------------------------------------------------ the order and the sort *)
Definition ge_ci (a b : iv * Z) : Prop := ci_gtb b a = false.     (* a does not come after b *)

Lemma ge_ci_total a b : ge_ci a b \/ ge_ci b a.
Proof. unfold ge_ci, ci_gtb, iv_ltb. destruct a as [[a1 a2] a3], b as [[b1 b2] b3]; cbn [fst snd]. lia. Qed.
Lemma ge_ci_antisym a b : ge_ci a b -> ge_ci b a -> a = b.
Proof. unfold ge_ci, ci_gtb, iv_ltb. destruct a as [[a1 a2] a3], b as [[b1 b2] b3]; cbn [fst snd]. intros H1 H2.
  assert (a3 = b3) by lia. assert (a1 = b1) by lia. assert (a2 = b2) by lia. subst. reflexivity. Qed.
Lemma ge_ci_trans a b c : ge_ci a b -> ge_ci b c -> ge_ci a c.
Proof. unfold ge_ci, ci_gtb, iv_ltb. destruct a as [[a1 a2] a3], b as [[b1 b2] b3], c as [[c1 c2] c3]; cbn [fst snd]. lia. Qed.
Lemma ge_ci_count a b : ge_ci a b -> snd b <= snd a.
Proof. unfold ge_ci, ci_gtb. intros. lia. Qed.

Lemma insert_desc_perm x l : Permutation (x :: l) (insert_desc x l).
Proof. induction l as [|y t IH]; cbn [insert_desc]; [apply Permutation_refl|]. destruct (ci_gtb x y); [apply Permutation_refl|].
  eapply Permutation_trans; [apply perm_swap|]. apply perm_skip. exact IH. Qed.
Lemma sort_desc_perm l : Permutation l (sort_desc l).
Proof. induction l as [|x t IH]; cbn [sort_desc fold_right]; [constructor|]. eapply Permutation_trans; [apply perm_skip; exact IH|apply insert_desc_perm]. Qed.
Lemma sort_desc_In x l : In x (sort_desc l) <-> In x l.
Proof. split; intros H; [eapply Permutation_in; [apply Permutation_sym, sort_desc_perm|exact H]|eapply Permutation_in; [apply sort_desc_perm|exact H]]. Qed.

Lemma insert_desc_sorted x l : StronglySorted ge_ci l -> StronglySorted ge_ci (insert_desc x l).
Proof. induction l as [|y t IH]; intros S; cbn [insert_desc]; [constructor; constructor|]. inversion S as [|? ? St Fa]; subst.
  destruct (ci_gtb x y) eqn:E.
  - constructor; [exact S|]. assert (G : ge_ci x y). { destruct (ge_ci_total x y) as [G|G]; [exact G|]. unfold ge_ci in G. congruence. }
    constructor; [exact G|]. eapply Forall_impl; [|exact Fa]. intros z Hz. eapply ge_ci_trans; eauto.
  - constructor; [apply IH; exact St|]. apply Forall_forall. intros z Hz. eapply Permutation_in in Hz; [|apply Permutation_sym, insert_desc_perm].
    destruct Hz as [<-|Hz]; [exact E|]. rewrite Forall_forall in Fa. auto. Qed.
Lemma sort_desc_sorted l : StronglySorted ge_ci (sort_desc l).
Proof. induction l as [|x t IH]; cbn [sort_desc fold_right]; [constructor|apply insert_desc_sorted; exact IH]. Qed.

Lemma sorted_unique : forall l1 l2, StronglySorted ge_ci l1 -> StronglySorted ge_ci l2 -> Permutation l1 l2 -> l1 = l2.
Proof. induction l1 as [|a t1 IH]; intros l2 S1 S2 P.
  - apply Permutation_nil in P. subst. reflexivity.
  - destruct l2 as [|b t2]; [apply Permutation_sym, Permutation_nil in P; discriminate|].
    inversion S1 as [|? ? St1 F1]; inversion S2 as [|? ? St2 F2]; subst. rewrite Forall_forall in F1, F2.
    assert (a = b).
    { assert (A : In a (b :: t2)) by (eapply Permutation_in; [exact P|left; reflexivity]).
      assert (B : In b (a :: t1)) by (eapply Permutation_in; [apply Permutation_sym; exact P|left; reflexivity]).
      destruct A as [A|A]; [auto|]. destruct B as [B|B]; [auto|]. apply ge_ci_antisym; auto. }
    subst. f_equal. apply IH; auto. eapply Permutation_cons_inv; exact P. Qed.
Lemma sort_desc_perm_eq l l' : Permutation l l' -> sort_desc l = sort_desc l'.
Proof. intros P. apply sorted_unique; try apply sort_desc_sorted.
  eapply Permutation_trans; [apply Permutation_sym, sort_desc_perm|]. eapply Permutation_trans; [exact P|apply sort_desc_perm]. Qed.

(* ------------------------------------------------------------------ permutation invariance *)
Lemma has_similar_perm delta all all' i : Permutation all all' -> has_similar delta all i = has_similar delta all' i.
Proof. intros P. unfold has_similar. destruct (existsb _ all) eqn:E; symmetry.
  - apply existsb_exists in E. destruct E as (x & A & B). apply existsb_exists. exists x. split; [eapply Permutation_in; eauto|exact B].
  - destruct (existsb _ all') eqn:E'; [|reflexivity]. apply existsb_exists in E'. destruct E' as (x & A & B).
    assert (X : existsb (fun x0 => similar delta i (fst x0)) all = true) by (apply existsb_exists; exists x; split; [eapply Permutation_in; [apply Permutation_sym; exact P|exact A]|exact B]). congruence. Qed.
Lemma cluster_run_ext known delta mnc all all' : (forall i, has_similar delta all i = has_similar delta all' i) ->
  forall l st, cluster_run known delta mnc all l st = cluster_run known delta mnc all' l st.
Proof. intros H. induction l as [|e t IH]; intros st; cbn [cluster_run]; [reflexivity|]. unfold cluster_step. rewrite H.
  destruct (mem (fst e) known); [rewrite IH; reflexivity|]. destruct (has_similar delta all' (fst e)).
  - destruct (best_similar delta (cs_vert st) (fst e)); rewrite IH; reflexivity.
  - destruct (snd e <? mnc); rewrite IH; reflexivity. Qed.

(* the result depends only on the multiset of (intron, count) pairs: dict insertion order is irrelevant *)
Theorem cluster_perm_invariant : forall known delta mnc all all', Permutation all all' -> cluster known delta mnc all = cluster known delta mnc all'.
Proof. intros known delta mnc all all' P. unfold cluster. rewrite (sort_desc_perm_eq _ _ P). apply cluster_run_ext. intros i. apply has_similar_perm. exact P. Qed.

Lemma read_introns_cons r reads : read_introns (r :: reads) = (if negb (fst r) && negb (match snd r with [] => true | _ => false end) then snd r else []) ++ read_introns reads.
Proof. unfold read_introns, collected. cbn [filter]. destruct (negb (fst r) && negb (match snd r with [] => true | _ => false end)); reflexivity. Qed.
Lemma read_introns_perm reads reads' : Permutation reads reads' -> Permutation (read_introns reads) (read_introns reads').
Proof. induction 1 as [|x l l' P IH|x y l|l l' l'' P1 IH1 P2 IH2].
  - constructor.
  - rewrite !read_introns_cons. apply Permutation_app_head. exact IH.
  - rewrite !read_introns_cons. rewrite !app_assoc. apply Permutation_app_tail. apply Permutation_app_comm.
  - eapply Permutation_trans; eauto. Qed.
Lemma count_iv_perm i l l' : Permutation l l' -> count_iv i l = count_iv i l'.
Proof. intros P. unfold count_iv. f_equal. induction P as [|x l l' P IH|x y l|l l' l'' P1 IH1 P2 IH2]; cbn [filter]; try reflexivity.
  - destruct (iv_eqb i x); cbn [length]; congruence.
  - destruct (iv_eqb i x), (iv_eqb i y); reflexivity.
  - congruence. Qed.
Lemma dedup_In x l : In x (dedup l) <-> In x l.
Proof. induction l as [|y t IH]; cbn [dedup]; [tauto|]. cbn [In]. rewrite remove_iv_In, IH. destruct (iv_dec x y) as [->|N]; [tauto|]. split; [tauto|]. intros [A|A]; [congruence|auto]. Qed.
Lemma dedup_NoDup l : NoDup (dedup l).
Proof. induction l as [|y t IH]; cbn [dedup]; [constructor|]. constructor.
  - intros A. apply remove_iv_In in A. destruct A; congruence.
  - unfold remove_iv. apply NoDup_filter. exact IH. Qed.
Lemma collect_counts_perm reads reads' : Permutation reads reads' -> Permutation (collect_counts reads) (collect_counts reads').
Proof. intros P. pose proof (read_introns_perm _ _ P) as Q. unfold collect_counts.
  assert (E : map (fun i => (i, count_iv i (read_introns reads))) (dedup (read_introns reads')) = map (fun i => (i, count_iv i (read_introns reads'))) (dedup (read_introns reads'))).
  { apply map_ext. intros i. f_equal. apply count_iv_perm. exact Q. }
  rewrite <- E. apply Permutation_map. apply NoDup_Permutation; try apply dedup_NoDup. intros x. rewrite !dedup_In. split; apply Permutation_in; [exact Q|apply Permutation_sym; exact Q]. Qed.

(* the order in which the reads are collected does not matter *)
Theorem cluster_read_order_irrelevant : forall known delta mnc reads reads', Permutation reads reads' ->
  cluster known delta mnc (collect_counts reads) = cluster known delta mnc (collect_counts reads').
Proof. intros. apply cluster_perm_invariant. apply collect_counts_perm. assumption. Qed.

(* ------------------------------------------------------------------ the clustering is a run of the abstract system *)
Lemma best_similar_spec delta i : forall (V : list (iv * Z)) best x,
  fold_left (fun (best : option iv) (v : iv * Z) => if similar delta i (fst v)
                           then match best with None => Some (fst v) | Some b => if iv_ltb b (fst v) then Some (fst v) else best end
                           else best) V best = Some x ->
  best = Some x \/ (In x (map fst V) /\ similar delta i x = true).
Proof. induction V as [|v t IH]; intros best x H; cbn [fold_left] in H; [left; exact H|]. apply IH in H. destruct H as [H|H]; [|right; cbn [map]; destruct H; split; [right|]; assumption].
  destruct (similar delta i (fst v)) eqn:E; [|left; exact H]. destruct best as [b|].
  - destruct (iv_ltb b (fst v)); [inversion H; subst; right; split; [left; reflexivity|exact E]|left; exact H].
  - inversion H; subst. right. split; [left; reflexivity|exact E]. Qed.
Lemma best_similar_In delta V i x : best_similar delta V i = Some x -> In x (map fst V) /\ similar delta i x = true.
Proof. intros H. apply best_similar_spec in H. destruct H as [H|H]; [discriminate|exact H]. Qed.
Lemma bump_keys s c V : map fst (bump s c V) = map fst V.
Proof. unfold bump. rewrite map_map. apply map_ext. intros v. destruct (iv_eqb (fst v) s); reflexivity. Qed.

Definition Rel (st : cstate) (s : gstate) : Prop :=
  vert s = rev (map fst (cs_vert st)) /\ smap s = cs_map st /\ disc s = rev (cs_disc st) /\ edges s = [].

Lemma cluster_step_run known delta mnc all st s e st' o : Rel st s -> In (fst e) (pend s) -> cluster_step known delta mnc all st e = (st', o) ->
  exists s', step s o = Some s' /\ Rel st' s' /\ pend s' = remove_iv (fst e) (pend s).
Proof. intros (R1 & R2 & R3 & R4) Hp H. apply mem_In in Hp. unfold cluster_step in H.
  assert (VX : forall st1 o1, (mkCS (cs_vert st ++ [(fst e, snd e)]) (cs_map st) (cs_disc st), AddVertex (fst e)) = (st1, o1) ->
               exists s', step s o1 = Some s' /\ Rel st1 s' /\ pend s' = remove_iv (fst e) (pend s)).
  { intros st1 o1 X. inversion X; subst. cbn [step]. rewrite Hp. eexists. split; [reflexivity|]. split; [|reflexivity].
    unfold Rel. cbn [vert smap disc edges cs_vert cs_map cs_disc]. rewrite map_app, rev_app_distr. cbn. rewrite R1. auto. }
  destruct (mem (fst e) known); [apply VX; exact H|]. destruct (has_similar delta all (fst e)).
  - destruct (best_similar delta (cs_vert st) (fst e)) as [x|] eqn:B; [|apply VX; exact H]. inversion H; subst; clear H. apply best_similar_In in B. destruct B as [B _].
    cbn [step]. rewrite Hp. assert (mem x (vert s) = true) as -> by (apply mem_In; rewrite R1; apply -> in_rev; exact B). cbn [andb].
    eexists. split; [reflexivity|]. split; [|reflexivity]. unfold Rel. cbn [vert smap disc edges cs_vert cs_map cs_disc]. rewrite bump_keys, R2. auto.
  - destruct (snd e <? mnc); [|apply VX; exact H]. inversion H; subst; clear H. cbn [step]. rewrite Hp. eexists. split; [reflexivity|]. split; [|reflexivity].
    unfold Rel. cbn [vert smap disc edges cs_vert cs_map cs_disc]. rewrite rev_app_distr. cbn. rewrite R3. auto. Qed.

Lemma cluster_run_run known delta mnc all : forall l st s, Rel st s -> NoDup (map fst l) -> (forall x, In x (pend s) <-> In x (map fst l)) ->
  exists s', run s (snd (cluster_run known delta mnc all l st)) = Some s' /\ Rel (fst (cluster_run known delta mnc all l st)) s' /\ pend s' = [].
Proof. induction l as [|e t IH]; intros st s R N P; cbn [cluster_run].
  - exists s. split; [reflexivity|]. split; [exact R|]. destruct (pend s) as [|x u]; [reflexivity|]. exfalso. apply (P x). left; reflexivity.
  - destruct (cluster_step known delta mnc all st e) as [st' o] eqn:E.
    destruct (cluster_step_run _ _ _ _ _ _ _ _ _ R (proj2 (P (fst e)) (or_introl eq_refl)) E) as (s1 & S1 & R1 & P1).
    cbn [map] in N. inversion N as [|? ? Nin Nt]; subst.
    destruct (IH st' s1 R1 Nt) as (s' & S' & R' & P').
    { intros x. rewrite P1, remove_iv_In, P. cbn [map In]. split; [intros [[A|A] B]; [congruence|exact A]|intros A; split; [right; exact A|intros ->; contradiction]]. }
    destruct (cluster_run known delta mnc all t st') as [st'' os] eqn:E2. cbn [fst snd] in *. exists s'. cbn [run]. rewrite S1. auto. Qed.

(* for every set of collected introns with their counts: the operations emitted by cluster_introns are accepted by the abstract system,
   which ends with every collected intron classified and exactly the vertices / map / discarded set computed here *)
Theorem cluster_is_run : forall known delta mnc all reads, NoDup (map fst all) -> (forall x, In x (read_introns reads) <-> In x (map fst all)) ->
  exists s, run (init reads) (snd (cluster known delta mnc all)) = Some s /\ pend s = [] /\
            vert s = rev (map fst (cs_vert (fst (cluster known delta mnc all)))) /\ smap s = cs_map (fst (cluster known delta mnc all)) /\
            disc s = rev (cs_disc (fst (cluster known delta mnc all))).
Proof. intros known delta mnc all reads N P. unfold cluster.
  destruct (cluster_run_run known delta mnc all (sort_desc all) cs0 (init reads)) as (s & S & (R1 & R2 & R3 & _) & Pn).
  - unfold Rel. cbn. auto.
  - eapply Permutation_NoDup; [apply Permutation_map, sort_desc_perm|exact N].
  - intros x. cbn [init pend]. rewrite P. split; apply Permutation_in; [apply Permutation_map, sort_desc_perm|apply Permutation_sym, Permutation_map, sort_desc_perm].
  - exists s. auto. Qed.
Corollary cluster_of_reads_is_run : forall known delta mnc reads,
  exists s, run (init reads) (snd (cluster known delta mnc (collect_counts reads))) = Some s /\ pend s = [].
Proof. intros. destruct (cluster_is_run known delta mnc (collect_counts reads) reads) as (s & A & B & _).
  - unfold collect_counts. rewrite map_map. cbn [fst]. rewrite map_id. apply dedup_NoDup.
  - intros x. unfold collect_counts. rewrite map_map. cbn [fst]. rewrite map_id, dedup_In. tauto.
  - eauto. Qed.

(* ------------------------------------------------------------------ what a substitution / a discard means *)
Definition sub_ok (known : list iv) (delta : Z) (L : list (iv * Z)) (V : list (iv * Z)) (e : iv * iv) : Prop :=
  similar delta (fst e) (snd e) = true /\ ~ In (fst e) known /\ In (snd e) (map fst V) /\
  exists ci cs, In (fst e, ci) L /\ In (snd e, cs) L /\ ci <= cs.

Lemma cluster_run_subs known delta mnc all L : forall rest done st,
  L = done ++ rest -> StronglySorted ge_ci L ->
  (forall x, In x (map fst (cs_vert st)) -> In x (map fst done)) ->
  (forall e, In e (cs_map st) -> sub_ok known delta L (cs_vert st) e) ->
  let st' := fst (cluster_run known delta mnc all rest st) in
  (forall e, In e (cs_map st') -> sub_ok known delta L (cs_vert st') e) /\ (forall x, In x (map fst (cs_vert st)) -> In x (map fst (cs_vert st'))).
Proof. induction rest as [|e t IH]; intros done st EL SL HV HM; cbn [cluster_run]; [cbn; auto|]. subst L.
  destruct (cluster_step known delta mnc all st e) as [st1 o] eqn:E.
  assert (G : (forall x, In x (map fst (cs_vert st1)) -> In x (map fst (done ++ [e]))) /\
              (forall e0, In e0 (cs_map st1) -> sub_ok known delta (done ++ e :: t) (cs_vert st1) e0) /\
              (forall x, In x (map fst (cs_vert st)) -> In x (map fst (cs_vert st1)))).
  { unfold cluster_step in E.
    assert (VX : forall st2 o2, (mkCS (cs_vert st ++ [(fst e, snd e)]) (cs_map st) (cs_disc st), AddVertex (fst e)) = (st2, o2) ->
                 (forall x, In x (map fst (cs_vert st2)) -> In x (map fst (done ++ [e]))) /\
                 (forall e0, In e0 (cs_map st2) -> sub_ok known delta (done ++ e :: t) (cs_vert st2) e0) /\
                 (forall x, In x (map fst (cs_vert st)) -> In x (map fst (cs_vert st2)))).
    { intros st2 o2 X. inversion X; subst. cbn [cs_vert cs_map]. rewrite !map_app. cbn [map fst]. repeat split.
      - intros x A. apply in_app_or in A. apply in_or_app. destruct A as [A|A]; [left; auto|right; exact A].
      - destruct (HM _ H) as (A & B & C & D). exact A. - destruct (HM _ H) as (A & B & C & D). exact B.
      - destruct (HM _ H) as (A & B & C & D). rewrite map_app. apply in_or_app. left. exact C.
      - destruct (HM _ H) as (A & B & C & D). exact D.
      - intros x A. apply in_or_app. left. exact A. }
    destruct (mem (fst e) known) eqn:K; [eapply VX; exact E|]. destruct (has_similar delta all (fst e)).
    - destruct (best_similar delta (cs_vert st) (fst e)) as [x|] eqn:B; [|eapply VX; exact E]. inversion E; subst; clear E. apply best_similar_In in B. destruct B as [B1 B2].
      cbn [cs_vert cs_map]. rewrite bump_keys. repeat split.
      + intros y A. rewrite map_app. apply in_or_app. left. auto.
      + apply in_app_or in H. destruct H as [H|[H|[]]]; [destruct (HM _ H) as (A & _); exact A|subst; exact B2].
      + apply in_app_or in H. destruct H as [H|[H|[]]]; [destruct (HM _ H) as (_ & A & _); exact A|subst; cbn [fst]; apply mem_nIn; exact K].
      + rewrite bump_keys. apply in_app_or in H. destruct H as [H|[H|[]]]; [destruct (HM _ H) as (_ & _ & A & _); exact A|subst; exact B1].
      + apply in_app_or in H. destruct H as [H|[H|[]]]; [destruct (HM _ H) as (_ & _ & _ & A); exact A|]. subst. cbn [fst snd].
        pose proof (HV _ B1) as D. apply in_map_iff in D. destruct D as ([x' cx] & Ex & D). cbn in Ex. subst x'.
        exists (snd e), cx. split; [apply in_or_app; right; left; destruct e; reflexivity|]. split; [apply in_or_app; left; exact D|].
        (* everything processed before e is not after e in the order *)
        assert (Q : ge_ci (x, cx) e).
        { clear -SL D. induction done as [|d u IHd]; [destruct D|]. cbn [app] in SL. inversion SL as [|? ? S' F]; subst.
          destruct D as [->|D]; [rewrite Forall_forall in F; apply F; apply in_or_app; right; left; reflexivity|auto]. }
        apply ge_ci_count in Q. exact Q.
      + auto.
    - destruct (snd e <? mnc); [|eapply VX; exact E]. inversion E; subst; clear E. cbn [cs_vert cs_map]. split; [|split].
      + intros x A. rewrite map_app. apply in_or_app. left. auto.
      + intros e0 H. exact (HM _ H).
      + auto. }
  destruct G as (G1 & G2 & G3).
  specialize (IH (done ++ [e]) st1). destruct (cluster_run known delta mnc all t st1) as [st'' os] eqn:E2. cbn [fst] in *.
  destruct IH as (I1 & I2); [rewrite <- app_assoc; reflexivity|exact SL|exact G1|exact G2|]. split; [exact I1|]. intros x A. apply I2, G3. exact A. Qed.

(* the substitute of an intron: a collected intron within delta on both ends, with at least the count of the substituted intron (it was
   processed earlier), itself a vertex of the result; annotated introns are never substituted *)
Theorem cluster_substitute_spec : forall known delta mnc all i s,
  In (i, s) (cs_map (fst (cluster known delta mnc all))) ->
  similar delta i s = true /\ ~ In i known /\ In s (map fst (cs_vert (fst (cluster known delta mnc all)))) /\
  exists ci cs, In (i, ci) all /\ In (s, cs) all /\ ci <= cs.
Proof. intros known delta mnc all i s H. unfold cluster in *.
  destruct (cluster_run_subs known delta mnc all (sort_desc all) (sort_desc all) [] cs0 eq_refl (sort_desc_sorted all)) as (A & _); [intros x []|intros e []|].
  destruct (A _ H) as (S1 & S2 & S3 & ci & cs & C1 & C2 & C3). cbn [fst snd] in *. repeat split; auto. exists ci, cs. rewrite !sort_desc_In in *. auto. Qed.

Lemma resolve_nokey m x : ~ In x (keys m) -> resolve m x = x.
Proof. induction m as [|[k v] t IH]; intros H; cbn [resolve]; [reflexivity|]. cbn [keys map fst] in H. destruct (iv_eqb x k) eqn:E; [apply iv_eqb_eq in E; exfalso; apply H; left; auto|apply IH; intros A; apply H; right; exact A]. Qed.

(* substitution chains have length one after clustering: a substitute is never itself substituted, the map is a fixed point of [resolve] *)
Theorem cluster_map_fixpoint : forall known delta mnc all i s, NoDup (map fst all) ->
  In (i, s) (cs_map (fst (cluster known delta mnc all))) ->
  ~ In s (keys (cs_map (fst (cluster known delta mnc all)))) /\ resolve (cs_map (fst (cluster known delta mnc all))) s = s.
Proof. intros known delta mnc all i s N H.
  set (reads := [(false, map fst all)] : list read).
  assert (RI : forall x, In x (read_introns reads) <-> In x (map fst all)).
  { intros x. unfold reads, read_introns, collected. cbn [filter fst snd negb andb]. destruct (map fst all) eqn:E; cbn; [tauto|rewrite app_nil_r; tauto]. }
  destruct (cluster_is_run known delta mnc all reads N RI) as (g & Rn & _ & V & M & _).
  pose proof (inv_run _ _ _ _ (inv_init reads) Rn) as I. destruct (cluster_substitute_spec _ _ _ _ _ _ H) as (_ & _ & SV & _).
  assert (A : ~ In s (keys (cs_map (fst (cluster known delta mnc all))))).
  { rewrite <- M. apply (i_vk _ _ I). rewrite V. apply -> in_rev. exact SV. }
  split; [exact A|apply resolve_nokey; exact A]. Qed.

(* clustering is NOT idempotent on its own output: the accumulated counts change the processing order.
   X = (10,30) x5 unannotated, Y = (11,30) x3 annotated, W = (12,30) x2 (similar to Y only): W is substituted by Y (count 5), X and Y are vertices;
   clustering {X:5, Y:5} again processes Y first (tie on the count, larger intron first) and substitutes X by Y *)
Definition idem_all := [((10, 30), 5); ((11, 30), 3); ((12, 30), 2)].
Example cluster_idempotent_refuted :
  let st := fst (cluster [(11, 30)] 1 1 idem_all) in
  cs_vert st = [((10, 30), 5); ((11, 30), 5)] /\ cs_map st = [((12, 30), (11, 30))] /\
  cs_map (fst (cluster [(11, 30)] 1 1 (cs_vert st))) = [((10, 30), (11, 30))].
Proof. vm_compute. repeat split. Qed.

(* a discarded intron is unannotated, below min_count and has no similar intron at all *)
Lemma cluster_run_disc known delta mnc all : forall l st i, In i (cs_disc (fst (cluster_run known delta mnc all l st))) ->
  In i (cs_disc st) \/ exists c, In (i, c) l /\ c < mnc /\ has_similar delta all i = false /\ ~ In i known.
Proof. induction l as [|e t IH]; intros st i H; cbn [cluster_run] in H; [left; exact H|].
  destruct (cluster_step known delta mnc all st e) as [st1 o] eqn:E. destruct (cluster_run known delta mnc all t st1) as [st2 os] eqn:E2. cbn [fst] in H.
  specialize (IH st1 i). rewrite E2 in IH. cbn [fst] in IH. destruct (IH H) as [A|(c & A & B)]; [|right; exists c; split; [right; exact A|exact B]].
  unfold cluster_step in E. destruct (mem (fst e) known) eqn:K; [inversion E; subst; left; exact A|]. destruct (has_similar delta all (fst e)) eqn:S.
  - destruct (best_similar delta (cs_vert st) (fst e)); inversion E; subst; left; exact A.
  - destruct (snd e <? mnc) eqn:C; [|inversion E; subst; left; exact A]. inversion E; subst. cbn [cs_disc] in A. apply in_app_or in A. destruct A as [A|[A|[]]]; [left; exact A|].
    right. exists (snd e). subst. split; [left; destruct e; reflexivity|]. split; [lia|]. split; [exact S|apply mem_nIn; exact K]. Qed.
Theorem cluster_discard_spec : forall known delta mnc all i, In i (cs_disc (fst (cluster known delta mnc all))) ->
  exists c, In (i, c) all /\ c < mnc /\ has_similar delta all i = false /\ ~ In i known.
Proof. intros known delta mnc all i H. unfold cluster in H. apply cluster_run_disc in H. destruct H as [[]|(c & A & B)]. exists c. rewrite sort_desc_In in A. auto. Qed.

(* trace level: the clustering part of a logged operation sequence (everything before the first snapshot) is exactly what the executable
   model emits from the logged reads, annotated introns, delta and min_novel_intron_count *)
Definition cluster_trace_ok (known : list iv) (delta mnc : Z) (r : region) : bool :=
  list_eqb_ op_eqb (snd (cluster known delta mnc (collect_counts (r_reads r)))) (cluster_prefix (r_ops r)).
