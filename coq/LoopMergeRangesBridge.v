(* C19: Intervals.merge_ranges is merge_ranges of src/common.py as regenerated into gen/Loops.v (tools/translate_loops.py, while fragment: three loops
   in sequence as Fixpoints on fuel over the state (union, intersection, pos1, pos2, included1, included2); `union[-1] = ...`, the asserts and
   every subscript checked).  Simulation: the unprocessed suffixes are skipn pos1 A / skipn pos2 B, the model's two flags are the `included` entries
   of the current heads (the entries after them are 0), the source's union list is the reverse of the model's accumulator, which is non-empty
   whenever a flag is set.  For all inputs and every fuel above len(A) + len(B); exceptions included. *)
From Coq Require Import ZArith NArith QArith List Bool Lia ZifyBool.
From IQ.gen Require Import Prims Loops.
From IQ Require Import CorrSupport Intervals LoopsSupport LoopsIndexSupport LoopsRunSupport LoopsRangeSupport LoopSweepSupport.
Import ListNotations. Open Scope Z_scope.

(* union[-1] on the reversed accumulator *)
Lemma rev_last_ok {A} (x:A) r : py_index_ok (rev (x :: r)) (-1) = true.
Proof. unfold py_index_ok. rewrite rev_length. cbn [length]. lia. Qed.
Lemma rev_last_index {A} (x:A) r d : py_index (rev (x :: r)) (-1) d = x.
Proof. unfold py_index. replace (-1 <? 0) with true by reflexivity. rewrite rev_length. cbn [length rev].
  replace (Z.to_nat (Z.of_nat (Datatypes.S (length r)) + -1)) with (length (rev r)) by (rewrite rev_length; lia). apply nth_pre. Qed.
Lemma rev_last_set {A} (x v:A) r : py_set (rev (x :: r)) (-1) v = rev (v :: r).
Proof. unfold py_set. replace (-1 <? 0) with true by reflexivity. rewrite rev_length. cbn [length rev].
  replace (Z.to_nat (Z.of_nat (Datatypes.S (length r)) + -1)) with (length (rev r)) by (rewrite rev_length; lia). cbv zeta.
  rewrite firstn_app, Nat.sub_diag, firstn_all, firstn_O, app_nil_r. rewrite skipn_all2 by (rewrite app_length; cbn [length]; lia). reflexivity. Qed.

Section M.
Variables A B : list iv.
Notation nA := (length A). Notation nB := (length B).
Notation st := (list iv * Z * Z * Z * list Z * list Z)%type.

Lemma loop2_zeros : forall f k u it pj inc1 inc2, (k <= nA)%nat -> (nA - k < f)%nat -> length inc1 = nA ->
  (forall m, (k <= m < nA)%nat -> nth m inc1 0 = 0) ->
  py_merge_ranges_loop2 A B f (u, it, Z.of_nat k, pj, inc1, inc2) = py_Done (u ++ skipn k A, it, Z.of_nat nA, pj, inc1, inc2).
Proof. induction f as [|f IH]; intros k u it pj inc1 inc2 Hk Hf L Z0; [lia|]. cbn [py_merge_ranges_loop2].
  destruct (Nat.eq_dec k nA) as [->|Ne].
  - replace (Z.of_nat nA <? Z.of_nat nA) with false by lia. rewrite skipn_all, app_nil_r. reflexivity.
  - assert (Lk: (k < nA)%nat) by lia. replace (Z.of_nat k <? Z.of_nat nA) with true by lia.
    rewrite (index_ok_nat inc1 k) by lia. rewrite (py_index_nonneg inc1 k 0), (Z0 k) by lia. replace (0 =? 0) with true by reflexivity.
    rewrite (index_ok_nat A k Lk), (py_index_nonneg A k (0, 0)). cbn [py_bind]. replace (Z.of_nat k + 1) with (Z.of_nat (Datatypes.S k)) by lia.
    rewrite IH by (try lia; intros; apply Z0; lia). rewrite (skipn_nth_cons A k (0, 0) Lk). rewrite <- app_assoc. reflexivity. Qed.
Lemma loop3_zeros : forall f k u it pi inc1 inc2, (k <= nB)%nat -> (nB - k < f)%nat -> length inc2 = nB ->
  (forall m, (k <= m < nB)%nat -> nth m inc2 0 = 0) ->
  py_merge_ranges_loop3 A B f (u, it, pi, Z.of_nat k, inc1, inc2) = py_Done (u ++ skipn k B, it, pi, Z.of_nat nB, inc1, inc2).
Proof. induction f as [|f IH]; intros k u it pi inc1 inc2 Hk Hf L Z0; [lia|]. cbn [py_merge_ranges_loop3].
  destruct (Nat.eq_dec k nB) as [->|Ne].
  - replace (Z.of_nat nB <? Z.of_nat nB) with false by lia. rewrite skipn_all, app_nil_r. reflexivity.
  - assert (Lk: (k < nB)%nat) by lia. replace (Z.of_nat k <? Z.of_nat nB) with true by lia.
    rewrite (index_ok_nat inc2 k) by lia. rewrite (py_index_nonneg inc2 k 0), (Z0 k) by lia. replace (0 =? 0) with true by reflexivity.
    rewrite (index_ok_nat B k Lk), (py_index_nonneg B k (0, 0)). cbn [py_bind]. replace (Z.of_nat k + 1) with (Z.of_nat (Datatypes.S k)) by lia.
    rewrite IH by (try lia; intros; apply Z0; lia). rewrite (skipn_nth_cons B k (0, 0) Lk). rewrite <- app_assoc. reflexivity. Qed.

Definition restl (inc:bool) (l:list iv) : list iv := if inc then tl l else l.
Lemma loop2_head f i u it pj inc1 inc2 i1 : (i <= nA)%nat -> (nA - i < f)%nat -> length inc1 = nA ->
  ((i < nA)%nat -> nth i inc1 0 = b2z i1) -> (forall m, (i < m < nA)%nat -> nth m inc1 0 = 0) ->
  py_merge_ranges_loop2 A B f (u, it, Z.of_nat i, pj, inc1, inc2) = py_Done (u ++ restl i1 (skipn i A), it, Z.of_nat nA, pj, inc1, inc2).
Proof. intros Hi Hf L H1 Z0. destruct f as [|f]; [lia|]. destruct (Nat.eq_dec i nA) as [->|Ne].
  - cbn [py_merge_ranges_loop2]. replace (Z.of_nat nA <? Z.of_nat nA) with false by lia. rewrite skipn_all. destruct i1; cbn [restl tl]; rewrite app_nil_r; reflexivity.
  - assert (Li: (i < nA)%nat) by lia. destruct i1.
    + cbn [py_merge_ranges_loop2]. replace (Z.of_nat i <? Z.of_nat nA) with true by lia.
      rewrite (index_ok_nat inc1 i) by lia. rewrite (py_index_nonneg inc1 i 0), (H1 Li). cbn [b2z]. replace (1 =? 0) with false by reflexivity.
      cbn [py_bind]. replace (Z.of_nat i + 1) with (Z.of_nat (Datatypes.S i)) by lia.
      rewrite loop2_zeros by (try lia; intros; apply Z0; lia). rewrite (skipn_nth_cons A i (0, 0) Li). reflexivity.
    + rewrite loop2_zeros; [reflexivity|lia|lia|exact L|]. intros m Hm. destruct (Nat.eq_dec m i) as [->|]; [apply (H1 Li)|apply Z0; lia]. Qed.
Lemma loop3_head f j u it pi inc1 inc2 i2 : (j <= nB)%nat -> (nB - j < f)%nat -> length inc2 = nB ->
  ((j < nB)%nat -> nth j inc2 0 = b2z i2) -> (forall m, (j < m < nB)%nat -> nth m inc2 0 = 0) ->
  py_merge_ranges_loop3 A B f (u, it, pi, Z.of_nat j, inc1, inc2) = py_Done (u ++ restl i2 (skipn j B), it, pi, Z.of_nat nB, inc1, inc2).
Proof. intros Hj Hf L H1 Z0. destruct f as [|f]; [lia|]. destruct (Nat.eq_dec j nB) as [->|Ne].
  - cbn [py_merge_ranges_loop3]. replace (Z.of_nat nB <? Z.of_nat nB) with false by lia. rewrite skipn_all. destruct i2; cbn [restl tl]; rewrite app_nil_r; reflexivity.
  - assert (Lj: (j < nB)%nat) by lia. destruct i2.
    + cbn [py_merge_ranges_loop3]. replace (Z.of_nat j <? Z.of_nat nB) with true by lia.
      rewrite (index_ok_nat inc2 j) by lia. rewrite (py_index_nonneg inc2 j 0), (H1 Lj). cbn [b2z]. replace (1 =? 0) with false by reflexivity.
      cbn [py_bind]. replace (Z.of_nat j + 1) with (Z.of_nat (Datatypes.S j)) by lia.
      rewrite loop3_zeros by (try lia; intros; apply Z0; lia). rewrite (skipn_nth_cons B j (0, 0) Lj). reflexivity.
    + rewrite loop3_zeros; [reflexivity|lia|lia|exact L|]. intros m Hm. destruct (Nat.eq_dec m j) as [->|]; [apply (H1 Lj)|apply Z0; lia]. Qed.

(* ---- the model's value from a state *)
Definition Fin (l:list iv) : py_run (list iv) := if negb (Z.of_nat (length l) =? 0) then py_Done l else py_Raises 3%N.
Definition Spec (i j:nat) (i1 i2:bool) (acc:list iv) : py_run (list iv) :=
  match mr_f (Datatypes.S ((nA - i) + (nB - j))) (skipn i A) (skipn j B) i1 i2 acc with Some l => Fin l | None => py_Raises 3%N end.

Lemma mr_f_cons n a A' b B' i1 i2 acc : mr_f (Datatypes.S n) (a :: A') (b :: B') i1 i2 acc =
  if py_overlaps a b then
    if i1 && i2 then None else
    let acc' := if negb i1 && negb i2 then (Z.min (fst a) (fst b), Z.max (snd a) (snd b)) :: acc
                else if i2 then upd_last acc (snd a) else upd_last acc (snd b) in
    if snd b <? snd a then mr_f n (a :: A') B' true false acc' else mr_f n A' (b :: B') false true acc'
  else if py_left_of b a then mr_f n (a :: A') B' i1 false (if i2 then acc else b :: acc)
  else mr_f n A' (b :: B') false i2 (if i1 then acc else a :: acc).
Proof. reflexivity. Qed.

Lemma Spec_step i j i1 i2 acc : (i < nA)%nat -> (j < nB)%nat -> let a := nth i A (0, 0) in let b := nth j B (0, 0) in
  Spec i j i1 i2 acc =
  if py_overlaps a b then
    if i1 && i2 then py_Raises 3%N else
    let acc' := if negb i1 && negb i2 then (Z.min (fst a) (fst b), Z.max (snd a) (snd b)) :: acc
                else if i2 then upd_last acc (snd a) else upd_last acc (snd b) in
    if snd b <? snd a then Spec i (Datatypes.S j) true false acc' else Spec (Datatypes.S i) j false true acc'
  else if py_left_of b a then Spec i (Datatypes.S j) i1 false (if i2 then acc else b :: acc)
  else Spec (Datatypes.S i) j false i2 (if i1 then acc else a :: acc).
Proof. intros Li Lj a b. unfold Spec.
  pose proof (skipn_nth_cons A i (0, 0) Li) as EA. pose proof (skipn_nth_cons B j (0, 0) Lj) as EB. fold a in EA. fold b in EB.
  remember (skipn (Datatypes.S i) A) as A' eqn:HA'. remember (skipn (Datatypes.S j) B) as B' eqn:HB'. rewrite EA, EB.
  remember ((nA - i) + (nB - j))%nat as r eqn:Er. destruct r as [|r]; [lia|].
  replace ((nA - i) + (nB - Datatypes.S j))%nat with r by lia. replace ((nA - Datatypes.S i) + (nB - j))%nat with r by lia.
  rewrite (mr_f_cons (Datatypes.S r) a A' b B' i1 i2 acc).
  destruct (py_overlaps a b).
  - destruct (i1 && i2); [reflexivity|]. cbv zeta. destruct (snd b <? snd a); reflexivity.
  - destruct (py_left_of b a); reflexivity.
Qed.

Ltac aok H := let L1 := fresh in let L2 := fresh in let Hi := fresh in let Hj := fresh in let H1 := fresh in let H2 := fresh in let Z1 := fresh in let Z2 := fresh in
  destruct H as (L1 & L2 & Hi & Hj & H1 & H2 & Z1 & Z2); unfold arrays_ok; rewrite ?py_set_length by lia;
  repeat split; try lia; intros; rewrite ?py_set_nth by lia;
  repeat match goal with |- context [Nat.eqb ?x ?y] => destruct (Nat.eqb_spec x y); try lia end;
  try reflexivity; try (apply H1; lia); try (apply H2; lia); try (apply Z1; lia); try (apply Z2; lia).
Ltac snoc_rev := repeat match goal with |- context [rev ?acc ++ [?x]] => change (rev acc ++ [x]) with (rev (x :: acc)) end.

Lemma loop1_sim (K : st -> py_run (list iv)) :
  (forall acc it i j inc1 inc2 i1 i2, arrays_ok nA nB i j inc1 inc2 i1 i2 -> (i = nA \/ j = nB) -> K (rev acc, it, Z.of_nat i, Z.of_nat j, inc1, inc2) = Spec i j i1 i2 acc) ->
  forall f acc it i j inc1 inc2 i1 i2, arrays_ok nA nB i j inc1 inc2 i1 i2 -> (i1 || i2 = true -> acc <> []) -> ((nA - i) + (nB - j) < f)%nat ->
  py_bind (py_merge_ranges_loop1 A B f (rev acc, it, Z.of_nat i, Z.of_nat j, inc1, inc2)) K = Spec i j i1 i2 acc.
Proof. intros HK. induction f as [|f IH]; intros acc it i j inc1 inc2 i1 i2 OK NE Hf; [lia|].
  pose proof OK as (L1 & L2 & Hi & Hj & H1 & H2 & Z1 & Z2).
  cbn [py_merge_ranges_loop1].
  destruct (Nat.eq_dec i nA) as [Ei|Ei].
  { replace (Z.of_nat i <? Z.of_nat nA) with false by lia. cbn [andb py_bind]. apply (HK acc it i j inc1 inc2 i1 i2 OK). left. exact Ei. }
  destruct (Nat.eq_dec j nB) as [Ej|Ej].
  { replace (Z.of_nat j <? Z.of_nat nB) with false by lia. rewrite andb_false_r. cbn [py_bind]. apply (HK acc it i j inc1 inc2 i1 i2 OK). right. exact Ej. }
  assert (Li: (i < nA)%nat) by lia. assert (Lj: (j < nB)%nat) by lia.
  replace (Z.of_nat i <? Z.of_nat nA) with true by lia. replace (Z.of_nat j <? Z.of_nat nB) with true by lia. cbn [andb].
  rewrite (index_ok_nat A i Li), (index_ok_nat B j Lj), (py_index_nonneg A i (0, 0)), (py_index_nonneg B j (0, 0)).
  rewrite (index_ok_nat inc1 i) by lia. rewrite (index_ok_nat inc2 j) by lia.
  rewrite (py_index_nonneg inc1 i 0), (py_index_nonneg inc2 j 0), (H1 Li), (H2 Lj).
  rewrite (Spec_step i j i1 i2 acc Li Lj). cbv zeta.
  set (a := nth i A (0, 0)). set (b := nth j B (0, 0)).
  destruct (py_overlaps a b).
  - destruct i1, i2; cbn [b2z andb orb negb]; change (1 =? 0) with false; change (0 =? 0) with true; change (1 =? 1) with true; change (0 =? 1) with false; cbn [andb orb negb py_bind]; try reflexivity.
    + (* i1 *) destruct acc as [|l r]; [exfalso; apply NE; reflexivity|]. rewrite !rev_last_ok, rev_last_index, rev_last_set. cbn [py_bind upd_last].
      rewrite ?(index_ok_nat inc1 i), ?(index_ok_nat inc2 j) by lia; cbn [py_bind].
      destruct (snd b <? snd a); cbn [py_bind];
       [replace (Z.of_nat j + 1) with (Z.of_nat (Datatypes.S j)) by lia | replace (Z.of_nat i + 1) with (Z.of_nat (Datatypes.S i)) by lia];
       (apply IH; [aok OK|intros _; discriminate|lia]).
    + (* i2 *) destruct acc as [|l r]; [exfalso; apply NE; reflexivity|]. rewrite !rev_last_ok, rev_last_index, rev_last_set. cbn [py_bind upd_last].
      rewrite ?(index_ok_nat inc1 i), ?(index_ok_nat inc2 j) by lia; cbn [py_bind].
      destruct (snd b <? snd a); cbn [py_bind];
       [replace (Z.of_nat j + 1) with (Z.of_nat (Datatypes.S j)) by lia | replace (Z.of_nat i + 1) with (Z.of_nat (Datatypes.S i)) by lia];
       (apply IH; [aok OK|intros _; discriminate|lia]).
    + (* neither *) rewrite ?(index_ok_nat inc1 i), ?(index_ok_nat inc2 j) by lia; cbn [py_bind]. snoc_rev.
      destruct (snd b <? snd a); cbn [py_bind];
       [replace (Z.of_nat j + 1) with (Z.of_nat (Datatypes.S j)) by lia | replace (Z.of_nat i + 1) with (Z.of_nat (Datatypes.S i)) by lia];
       (apply IH; [aok OK|intros _; discriminate|lia]).
  - destruct (py_left_of b a).
    + destruct i2; cbn [b2z]; change (1 =? 0) with false; change (0 =? 0) with true; cbn [py_bind]; rewrite ?(index_ok_nat inc1 i), ?(index_ok_nat inc2 j) by lia; cbn [py_bind]; snoc_rev;
        replace (Z.of_nat j + 1) with (Z.of_nat (Datatypes.S j)) by lia;
        (apply IH; [aok OK|try (intros _; discriminate); intros E; apply NE; rewrite orb_false_r in E; rewrite E; reflexivity|lia]).
    + destruct i1; cbn [b2z]; change (1 =? 0) with false; change (0 =? 0) with true; cbn [py_bind]; rewrite ?(index_ok_nat inc1 i), ?(index_ok_nat inc2 j) by lia; cbn [py_bind]; snoc_rev;
        replace (Z.of_nat i + 1) with (Z.of_nat (Datatypes.S i)) by lia;
        (apply IH; [aok OK|try (intros _; discriminate); intros E; apply NE; cbn [orb] in E; rewrite E; apply orb_true_r|lia]).
Qed.

Lemma restl_nil b : restl b [] = []. Proof. destruct b; reflexivity. Qed.

Theorem merge_ranges_is_the_source fuel : (nA + nB < fuel)%nat ->
  py_merge_ranges fuel A B = match Intervals.merge_ranges A B with Ok l => py_Done l | Raises k => py_Raises k end.
Proof. intros HF. unfold py_merge_ranges. cbv zeta.
  match goal with |- py_bind _ ?K = _ => pose proof (loop1_sim K) as LS end.
  change (@nil (Z * Z)) with (rev (@nil iv)) at 1. change 0 with (Z.of_nat 0) at 2 3. rewrite (LS) with (i1 := false) (i2 := false).
  - unfold Spec, merge_ranges. rewrite !Nat.sub_0_r. cbn [skipn].
    destruct (mr_f (Datatypes.S (nA + nB)) A B false false []) as [l|]; [|reflexivity].
    unfold Fin. destruct l; reflexivity.
  - intros acc it i j inc1 inc2 i1 i2 OK T. pose proof OK as (L1 & L2 & Hi & Hj & H1 & H2 & Z1 & Z2).
    replace ((Z.of_nat i =? Z.of_nat nA) || (Z.of_nat j =? Z.of_nat nB)) with true by (destruct T; lia).
    rewrite (loop2_head fuel i _ it (Z.of_nat j) inc1 inc2 i1) by (assumption || lia). cbn [py_bind].
    rewrite (loop3_head fuel j _ it (Z.of_nat nA) inc1 inc2 i2) by (assumption || lia). cbn [py_bind].
    unfold Spec. destruct T as [-> | ->].
    + rewrite skipn_all. cbn [mr_f]. destruct i1, i2; cbn [restl tl]; rewrite ?app_nil_r; reflexivity.
    + rewrite (skipn_all B). destruct (skipn i A) as [|a A'] eqn:EA; cbn [mr_f]; destruct i1, i2; cbn [restl tl]; rewrite ?app_nil_r; reflexivity.
  - apply arrays_ok_init.
  - intros E. discriminate E.
  - lia.
Qed.
End M.
