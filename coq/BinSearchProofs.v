(* C19: interval_bin_search / interval_bin_search_rev — TOTALITY of the halving-step loops (the fuel 2·|l|+2 of the model always
   suffices, every index read is inside the list) and, with the soundness lemmas of IntervalsProofs.v, the full specification.
   Argument: with current step c the index keeps a slack of max(c,1)-1 positions on both sides; every move goes towards the unique
   target t; the measure |ind - t| + 2·max(c,1) decreases at every iteration. *)
From Coq Require Import ZArith NArith List Bool Lia ZifyBool ZifyN.
From IQ.gen Require Import Prims.
From IQ Require Import CorrSupport Intervals IntervalsSpec IntervalsProofs IntervalsProofs2.
Import ListNotations. Open Scope Z_scope.

Lemma pyidx_range {A} (l:list A) i d : 0 <= i < Z.of_nat (length l) -> pyidx l i = Some (nthz l i d).
Proof. intros H. unfold pyidx, nthz. replace ((0 <=? i) && (i <? Z.of_nat (length l))) with true by lia. apply nth_error_nth'. lia. Qed.
Lemma last_nth' {A} (l:list A) : forall a d, last (a :: l) d = nth (length l) (a :: l) d.
Proof. induction l as [|b l IH]; intros a d; [reflexivity|]. change (last (a :: b :: l) d) with (last (b :: l) d). rewrite IH. reflexivity. Qed.
Lemma last_nthz {A} (a:A) l d : last (a :: l) d = nthz (a :: l) (Z.of_nat (length (a :: l)) - 1) d.
Proof. rewrite last_nth'. unfold nthz. f_equal. cbn [length]. lia. Qed.

(* index-wise monotonicity of starts and of ends *)
Definition smono (l:list iv) : Prop := forall i j, 0 <= i -> i <= j -> j < Z.of_nat (length l) -> fst (nthz l i (0,0)) <= fst (nthz l j (0,0)).
Definition emono (l:list iv) : Prop := forall i j, 0 <= i -> i <= j -> j < Z.of_nat (length l) -> snd (nthz l i (0,0)) <= snd (nthz l j (0,0)).
Lemma sd_nth_lt l : sd l -> forall i j, (i < j)%nat -> (j < length l)%nat -> snd (nth i l (0,0)) < fst (nth j l (0,0)).
Proof. induction l as [|a l IH]; intros HS i j Hij Hj; [cbn [length] in Hj; lia|].
  destruct j as [|j]; [lia|]. cbn [length] in Hj. destruct i as [|i].
  - cbn [nth]. pose proof (sd_after _ _ HS) as FA. rewrite Forall_forall in FA. apply FA. apply nth_In. lia.
  - cbn [nth]. apply IH; [exact (sd_tail _ _ HS)|lia|lia]. Qed.
Lemma sd_all_wf l : sd l -> forall x, In x l -> fst x <= snd x.
Proof. induction l as [|a l IH]; intros HS x Hx; [destruct Hx|]. destruct Hx as [<-|Hx]; [exact (sd_wf _ _ HS)|exact (IH (sd_tail _ _ HS) x Hx)]. Qed.
Lemma sd_nth_wf l : sd l -> forall i, (i < length l)%nat -> fst (nth i l (0,0)) <= snd (nth i l (0,0)).
Proof. intros HS i Hi. apply (sd_all_wf l HS). apply nth_In. exact Hi. Qed.
Lemma sd_smono l : sd l -> smono l.
Proof. intros HS i j Hi Hij Hj. unfold nthz. destruct (Z.eq_dec i j) as [->|Hne]; [lia|].
  pose proof (sd_nth_lt l HS (Z.to_nat i) (Z.to_nat j) ltac:(lia) ltac:(lia)). pose proof (sd_nth_wf l HS (Z.to_nat i) ltac:(lia)). lia. Qed.
Lemma sd_emono l : sd l -> emono l.
Proof. intros HS i j Hi Hij Hj. unfold nthz. destruct (Z.eq_dec i j) as [->|Hne]; [lia|].
  pose proof (sd_nth_lt l HS (Z.to_nat i) (Z.to_nat j) ltac:(lia) ltac:(lia)). pose proof (sd_nth_wf l HS (Z.to_nat j) ltac:(lia)). lia. Qed.

(* ---------- interval_bin_search ---------- *)
Lemma bs_loop_total : forall fuel l pos ind c t, smono l ->
  0 <= t -> t + 1 < Z.of_nat (length l) -> fst (nthz l t (0,0)) <= pos < fst (nthz l (t + 1) (0,0)) ->
  0 <= c -> Z.max c 1 - 1 <= ind -> ind <= Z.of_nat (length l) - 2 - (Z.max c 1 - 1) ->
  Z.abs (ind - t) + 2 * Z.max c 1 < Z.of_nat fuel ->
  bs_loop fuel l pos ind c = Some t.
Proof. induction fuel as [|f IH]; intros l pos ind c t Hm Ht0 Ht1 Ht Hc Hlo Hhi Hmu; [lia|]. cbn [bs_loop].
  rewrite (pyidx_range l ind (0,0)) by lia. rewrite (pyidx_range l (ind + 1) (0,0)) by lia.
  destruct (Z.lt_trichotomy ind t) as [Hlt|[Heq|Hgt]].
  - pose proof (Hm (ind + 1) t ltac:(lia) ltac:(lia) ltac:(lia)) as M1. pose proof (Hm ind t ltac:(lia) ltac:(lia) ltac:(lia)) as M2.
    replace ((fst (nthz l ind (0,0)) <=? pos) && (pos <? fst (nthz l (ind + 1) (0,0)))) with false by lia.
    replace (pos <? fst (nthz l ind (0,0))) with false by lia.
    apply IH; try assumption; lia.
  - subst ind. replace ((fst (nthz l t (0,0)) <=? pos) && (pos <? fst (nthz l (t + 1) (0,0)))) with true by lia. reflexivity.
  - pose proof (Hm (t + 1) ind ltac:(lia) ltac:(lia) ltac:(lia)) as M1.
    replace ((fst (nthz l ind (0,0)) <=? pos) && (pos <? fst (nthz l (ind + 1) (0,0)))) with false by lia.
    replace (pos <? fst (nthz l ind (0,0))) with true by lia.
    apply IH; try assumption; lia.
Qed.

Lemma target_fst l pos : forall j:nat, (Z.of_nat j + 1 < Z.of_nat (length l)) -> fst (nthz l 0 (0,0)) <= pos -> pos < fst (nthz l (Z.of_nat j + 1) (0,0)) ->
  exists t, 0 <= t <= Z.of_nat j /\ fst (nthz l t (0,0)) <= pos < fst (nthz l (t + 1) (0,0)).
Proof. induction j as [|j IH]; intros Hj H0 H1.
  - exists 0. split; [lia|]. cbn [Z.of_nat] in H1. cbn [Z.add] in H1. split; [exact H0|exact H1].
  - replace (Z.of_nat (Datatypes.S j)) with (Z.of_nat j + 1) in * by lia.
    destruct (Z_lt_le_dec pos (fst (nthz l (Z.of_nat j + 1) (0,0)))) as [Hlt|Hge].
    + destruct (IH ltac:(lia) H0 Hlt) as (t & Ht & Hs). exists t. split; [lia|exact Hs].
    + exists (Z.of_nat j + 1). split; [lia|]. split; [exact Hge|exact H1]. Qed.

(* full specification: -1 outside the hull, otherwise the index of the last interval starting at or before pos *)
Theorem bin_search_total_mono l pos : smono l -> l <> [] ->
  exists i, bin_search l pos = Ok (Some i) /\
    let n := Z.of_nat (length l) in
    if (pos <? fst (nthz l 0 (0,0))) || (pos >? snd (nthz l (n - 1) (0,0))) then i = -1
    else 0 <= i < n /\ fst (nthz l i (0,0)) <= pos /\ (i = n - 1 \/ pos < fst (nthz l (i + 1) (0,0))).
Proof. intros HS Hne. destruct l as [|a l']; [congruence|]. unfold bin_search. rewrite (last_nthz a l' a).
  set (l := a :: l') in *. set (n := Z.of_nat (length l)). assert (Hn: 1 <= n) by (unfold n, l; cbn [length]; lia).
  change (fst a) with (fst (nthz l 0 (0,0))).
  assert (Ed: forall d, nthz l (n - 1) d = nthz l (n - 1) (0,0)) by (intros d; unfold nthz; apply nth_indep; unfold n; lia).
  rewrite !(Ed a). cbv zeta. fold n.
  destruct (pos >? snd (nthz l (n - 1) (0,0))) eqn:E1.
  { exists (-1). rewrite orb_true_r. cbn [orb]. split; reflexivity. }
  destruct (pos <? fst (nthz l 0 (0,0))) eqn:E2.
  { exists (-1). cbn [orb]. split; reflexivity. }
  cbn [orb].
  destruct (pos >=? fst (nthz l (n - 1) (0,0))) eqn:E3.
  { exists (n - 1). split; [reflexivity|]. split; [lia|]. split; [lia|left; reflexivity]. }
  (* the loop *)
  assert (Hn2: 2 <= n).
  { destruct (Z.eq_dec n 1) as [H1|H1]; [|lia]. rewrite H1 in E3. change (1 - 1) with 0 in E3. lia. }
  destruct (target_fst l pos (Z.to_nat (n - 2)) ltac:(fold n; lia) ltac:(lia)) as (t & Ht & Hs).
  { replace (Z.of_nat (Z.to_nat (n - 2)) + 1) with (n - 1) by lia. lia. }
  exists t. rewrite (bs_loop_total _ l pos ((n - 1) / 2) ((n - 1) / 2) t HS); try (fold n; lia).
  split; [reflexivity|]. split; [lia|]. split; [lia|]. right. lia.
Qed.

(* ---------- interval_bin_search_rev ---------- *)
Lemma bsr_loop_total : forall fuel l pos ind c t, emono l ->
  1 <= t -> t < Z.of_nat (length l) -> snd (nthz l (t - 1) (0,0)) < pos <= snd (nthz l t (0,0)) ->
  0 <= c -> Z.max c 1 <= ind -> ind <= Z.of_nat (length l) - 1 - (Z.max c 1 - 1) ->
  Z.abs (ind - t) + 2 * Z.max c 1 < Z.of_nat fuel ->
  bsr_loop fuel l pos ind c = Some t.
Proof. induction fuel as [|f IH]; intros l pos ind c t Hm Ht0 Ht1 Ht Hc Hlo Hhi Hmu; [lia|]. cbn [bsr_loop].
  rewrite (pyidx_range l (ind - 1) (0,0)) by lia. rewrite (pyidx_range l ind (0,0)) by lia.
  destruct (Z.lt_trichotomy ind t) as [Hlt|[Heq|Hgt]].
  - pose proof (Hm ind (t - 1) ltac:(lia) ltac:(lia) ltac:(lia)) as M1.
    replace ((snd (nthz l (ind - 1) (0,0)) <? pos) && (pos <=? snd (nthz l ind (0,0)))) with false by lia.
    replace (pos >? snd (nthz l ind (0,0))) with true by lia.
    apply IH; try assumption; lia.
  - subst ind. replace ((snd (nthz l (t - 1) (0,0)) <? pos) && (pos <=? snd (nthz l t (0,0)))) with true by lia. reflexivity.
  - pose proof (Hm t (ind - 1) ltac:(lia) ltac:(lia) ltac:(lia)) as M1. pose proof (Hm t ind ltac:(lia) ltac:(lia) ltac:(lia)) as M2.
    replace ((snd (nthz l (ind - 1) (0,0)) <? pos) && (pos <=? snd (nthz l ind (0,0)))) with false by lia.
    replace (pos >? snd (nthz l ind (0,0))) with false by lia.
    apply IH; try assumption; lia.
Qed.

Lemma target_snd l pos : forall j:nat, (Z.of_nat j + 1 < Z.of_nat (length l)) -> snd (nthz l 0 (0,0)) < pos -> pos <= snd (nthz l (Z.of_nat j + 1) (0,0)) ->
  exists t, 1 <= t <= Z.of_nat j + 1 /\ snd (nthz l (t - 1) (0,0)) < pos <= snd (nthz l t (0,0)).
Proof. induction j as [|j IH]; intros Hj H0 H1.
  - exists 1. split; [lia|]. cbn [Z.of_nat] in H1. cbn [Z.add] in H1. change (1 - 1) with 0. split; [exact H0|exact H1].
  - replace (Z.of_nat (Datatypes.S j)) with (Z.of_nat j + 1) in * by lia.
    destruct (Z_le_gt_dec pos (snd (nthz l (Z.of_nat j + 1) (0,0)))) as [Hle|Hgt].
    + destruct (IH ltac:(lia) H0 Hle) as (t & Ht & Hs). exists t. split; [lia|exact Hs].
    + exists (Z.of_nat j + 1 + 1). split; [lia|]. replace (Z.of_nat j + 1 + 1 - 1) with (Z.of_nat j + 1) by lia. split; [lia|exact H1]. Qed.

Lemma bsr_loop_step f l pos ind c a b : pyidx l (ind - 1) = Some a -> pyidx l ind = Some b ->
  bsr_loop (Datatypes.S f) l pos ind c =
  if (snd a <? pos) && (pos <=? snd b) then Some ind
  else if pos >? snd b then bsr_loop f l pos (ind + Z.max 1 (c / 2)) (Z.max 1 (c / 2)) else bsr_loop f l pos (ind - Z.max 1 (c / 2)) (Z.max 1 (c / 2)).
Proof. intros H1 H2. cbn [bsr_loop]. rewrite H1, H2. reflexivity. Qed.
(* two intervals: the loop starts at index 0 and reads l[-1] (Python wrap-around: the last interval) once, then finds index 1 *)
Lemma bsr_two a b pos : snd a < pos <= snd b -> bsr_loop 6 [a; b] pos 0 0 = Some 1.
Proof. intros H. change 6%nat with (Datatypes.S 5). rewrite (bsr_loop_step 5 [a; b] pos 0 0 b a) by reflexivity.
  replace ((snd b <? pos) && (pos <=? snd a)) with false by lia. replace (pos >? snd a) with true by lia.
  change (Z.max 1 (0 / 2)) with 1. change (0 + 1) with 1. change 5%nat with (Datatypes.S 4).
  rewrite (bsr_loop_step 4 [a; b] pos 1 1 a b) by reflexivity.
  replace ((snd a <? pos) && (pos <=? snd b)) with true by lia. reflexivity. Qed.

Theorem bin_search_rev_total_mono l pos : emono l -> l <> [] ->
  exists i, bin_search_rev l pos = Ok (Some i) /\
    let n := Z.of_nat (length l) in
    if (pos <? fst (nthz l 0 (0,0))) || (pos >? snd (nthz l (n - 1) (0,0))) then i = -1
    else 0 <= i < n /\ pos <= snd (nthz l i (0,0)) /\ (i = 0 \/ snd (nthz l (i - 1) (0,0)) < pos).
Proof. intros HS Hne. destruct l as [|a l']; [congruence|]. unfold bin_search_rev. rewrite (last_nthz a l' a).
  set (l := a :: l') in *. set (n := Z.of_nat (length l)). assert (Hn: 1 <= n) by (unfold n, l; cbn [length]; lia).
  change (fst a) with (fst (nthz l 0 (0,0))). change (snd a) with (snd (nthz l 0 (0,0))).
  assert (Ed: forall d, nthz l (n - 1) d = nthz l (n - 1) (0,0)) by (intros d; unfold nthz; apply nth_indep; unfold n; lia).
  rewrite !(Ed a). cbv zeta. fold n.
  destruct (pos >? snd (nthz l (n - 1) (0,0))) eqn:E1.
  { exists (-1). rewrite orb_true_r. cbn [orb]. split; reflexivity. }
  destruct (pos <? fst (nthz l 0 (0,0))) eqn:E2.
  { exists (-1). cbn [orb]. split; reflexivity. }
  cbn [orb].
  destruct (pos <=? snd (nthz l 0 (0,0))) eqn:E3.
  { exists 0. split; [reflexivity|]. split; [lia|]. split; [lia|left; reflexivity]. }
  assert (Hn2: 2 <= n).
  { destruct (Z.eq_dec n 1) as [H1|H1]; [|lia]. rewrite H1 in E1. change (1 - 1) with 0 in E1. lia. }
  destruct (target_snd l pos (Z.to_nat (n - 2)) ltac:(fold n; lia) ltac:(lia)) as (t & Ht & Hs).
  { replace (Z.of_nat (Z.to_nat (n - 2)) + 1) with (n - 1) by lia. lia. }
  exists t. split; [|split; [lia|split; [lia|right; lia]]].
  destruct (Z.eq_dec n 2) as [H2|H2].
  - (* two intervals: the loop starts at index 0 and reads l[-1] (the last interval) once *)
    assert (t = 1) by lia. subst t.
    destruct l' as [|b l'']; [unfold n, l in H2; cbn [length] in H2; lia|]. destruct l'' as [|c l3]; [|unfold n, l in H2; cbn [length] in H2; lia].
    unfold n, l. cbn [length]. change (Z.of_nat 2 - 1) with 1. change (1 / 2) with 0. change (2 * 2 + 2)%nat with 6%nat.
    unfold l, nthz in Hs, E3. change (Z.to_nat (1 - 1)) with 0%nat in Hs. change (Z.to_nat 1) with 1%nat in Hs. cbn [nth] in Hs, E3. rewrite bsr_two by lia. reflexivity.
  - rewrite (bsr_loop_total _ l pos ((n - 1) / 2) ((n - 1) / 2) t HS); try (fold n; lia). reflexivity.
Qed.


(* on strictly increasing disjoint lists (the contract of the callers) *)
Theorem bin_search_total l pos : sd l -> l <> [] ->
  exists i, bin_search l pos = Ok (Some i) /\
    let n := Z.of_nat (length l) in
    if (pos <? fst (nthz l 0 (0,0))) || (pos >? snd (nthz l (n - 1) (0,0))) then i = -1
    else 0 <= i < n /\ fst (nthz l i (0,0)) <= pos /\ (i = n - 1 \/ pos < fst (nthz l (i + 1) (0,0))).
Proof. intros HS. apply bin_search_total_mono, sd_smono, HS. Qed.
Theorem bin_search_rev_total l pos : sd l -> l <> [] ->
  exists i, bin_search_rev l pos = Ok (Some i) /\
    let n := Z.of_nat (length l) in
    if (pos <? fst (nthz l 0 (0,0))) || (pos >? snd (nthz l (n - 1) (0,0))) then i = -1
    else 0 <= i < n /\ pos <= snd (nthz l i (0,0)) /\ (i = 0 \/ snd (nthz l (i - 1) (0,0)) < pos).
Proof. intros HS. apply bin_search_rev_total_mono, sd_emono, HS. Qed.
(* the result agrees with the decidable specification evaluated by the correspondence *)
Corollary bin_search_spec l pos : sd l -> l <> [] -> exists i, bin_search l pos = Ok (Some i) /\ spec_bin_search l pos i = true.
Proof. intros HS Hne. destruct (bin_search_total l pos HS Hne) as (i & Hi & Hsp). exists i. split; [exact Hi|].
  destruct l as [|a l']; [congruence|]. unfold spec_bin_search. rewrite (last_nthz a l' a). cbv zeta in Hsp.
  set (l := a :: l') in *. set (n := Z.of_nat (length l)) in *. change (fst a) with (fst (nthz l 0 (0,0))).
  assert (Ed: forall d, nthz l (n - 1) d = nthz l (n - 1) (0,0)) by (intros d; unfold nthz; apply nth_indep; unfold n, l; cbn [length]; lia).
  rewrite (Ed a). destruct ((pos <? fst (nthz l 0 (0,0))) || (pos >? snd (nthz l (n - 1) (0,0)))); [lia|].
  destruct Hsp as (H1 & H2 & [H3|H3]); lia. Qed.
Corollary bin_search_rev_spec l pos : sd l -> l <> [] -> exists i, bin_search_rev l pos = Ok (Some i) /\ spec_bin_search_rev l pos i = true.
Proof. intros HS Hne. destruct (bin_search_rev_total l pos HS Hne) as (i & Hi & Hsp). exists i. split; [exact Hi|].
  destruct l as [|a l']; [congruence|]. unfold spec_bin_search_rev. rewrite (last_nthz a l' a). cbv zeta in Hsp.
  set (l := a :: l') in *. set (n := Z.of_nat (length l)) in *. change (fst a) with (fst (nthz l 0 (0,0))).
  assert (Ed: forall d, nthz l (n - 1) d = nthz l (n - 1) (0,0)) by (intros d; unfold nthz; apply nth_indep; unfold n, l; cbn [length]; lia).
  rewrite (Ed a). destruct ((pos <? fst (nthz l 0 (0,0))) || (pos >? snd (nthz l (n - 1) (0,0)))); [lia|].
  destruct Hsp as (H1 & H2 & [H3|H3]); lia. Qed.

(* consequence for the split-exon profile constructor: it never raises on a non-empty exon list *)
From IQ Require Import NosProofs.
Theorem nonoverlapping_profile_total cmp delta K R polya polyt : sd K -> sd R -> K <> [] ->
  exists res, nonoverlapping_profile cmp delta K R polya polyt = Ok res.
Proof. intros HK HR Hne. rewrite (nonoverlapping_profile_char cmp delta K R polya polyt HK HR). cbv zeta.
  destruct (bin_search_total K (polya + delta) HK Hne) as (i & Hi & _). destruct (bin_search_rev_total K (polyt - delta) HK Hne) as (j & Hj & _).
  rewrite Hi, Hj. destruct (polya =? -1), (polyt =? -1); eexists; reflexivity. Qed.
Example nonoverlapping_profile_empty_refuted : nonoverlapping_profile (fun _ _ => true) 0 [] [(1,2)] 5 (-1) = Raises IndexError.
Proof. vm_compute. reflexivity. Qed.

Example bin_search_example : bin_search [(1,3);(5,6);(9,12);(15,15);(20,22)] 10 = Ok (Some 2) /\ bin_search_rev [(1,3);(5,6);(9,12);(15,15);(20,22)] 13 = Ok (Some 3).
Proof. vm_compute. split; reflexivity. Qed.
Print Assumptions bin_search_total.
Print Assumptions bin_search_rev_total.
Print Assumptions nonoverlapping_profile_total.
