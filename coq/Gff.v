(* Gff.v — record-level model of the annotation output path of IsoQuant (property C03).

   Modelled, faithful to the code as it is:
     src/transcript_printer.py   validate_exons, GFFPrinter.dump, create_extended_storage
     src/gene_info.py            TranscriptModel.from_reference_transcript
     src/graph_based_model_construction.py
                                 correct_novel_transcript_ends, the end-correction step of filter_transcripts,
                                 TranscriptToGeneJoiner (ranges, strands, scores, merging, relabelling)
     src/file_utils.py           merge_files (natural order of the part names, header skipping)
   Identifiers (chromosomes, genes, transcripts) are integers chosen by the harness; gene identifiers are numbered in
   string order because the joiner sorts pairs of gene ids.  Strands: 0 '+', 1 '-', 2 '.'.
   Feature types are numbered in string order: 0 CDS, 1 UTR, 2 exon, 3 start_codon, 4 stop_codon. *)
From Coq Require Import ZArith NArith List Bool Lia ZifyBool Permutation.
From IQ Require Import CorrSupport Exons.
Import ListNotations. Open Scope Z_scope.

(* ------------------------------------------------------------------ stable insertion sort = Python's sorted() *)
Section Sort.
  Variable A : Type.
  Variable leb : A -> A -> bool.
  Fixpoint insert (x:A) (l:list A) : list A :=
    match l with [] => [x] | y :: t => if leb x y then x :: l else y :: insert x t end.
  Definition isort (l:list A) : list A := fold_right insert [] l.

  Fixpoint sorted_by (l:list A) : Prop :=
    match l with [] => True | a :: t => match t with [] => True | b :: _ => leb a b = true end /\ sorted_by t end.

  Hypothesis leb_total : forall a b, leb a b = true \/ leb b a = true.
  Lemma insert_sorted x l : sorted_by l -> sorted_by (insert x l).
  Proof. induction l as [|y t IH]; intros H; [simpl; auto|].
    cbn [insert]. destruct (leb x y) eqn:E.
    - cbn [sorted_by]. split; [exact E|exact H].
    - destruct H as [Hy Ht]. specialize (IH Ht).
      destruct t as [|z t'].
      + cbn [insert sorted_by]. destruct (leb_total x y) as [K|K]; [congruence|]. auto.
      + cbn [insert] in *. destruct (leb x z) eqn:F.
        * cbn [sorted_by]. destruct (leb_total x y) as [K|K]; [congruence|]. cbn [sorted_by] in Ht. tauto.
        * cbn [sorted_by]. split; [exact Hy|exact IH]. Qed.
  Lemma isort_sorted l : sorted_by (isort l).
  Proof. induction l as [|x l IH]; [exact Logic.I|]. cbn [isort fold_right]. apply insert_sorted. exact IH. Qed.

  Lemma insert_perm x l : Permutation (x :: l) (insert x l).
  Proof. induction l as [|y t IH]; [apply Permutation_refl|]. cbn [insert]. destruct (leb x y); [apply Permutation_refl|].
    eapply Permutation_trans; [apply perm_swap|]. apply perm_skip. exact IH. Qed.
  Lemma isort_perm l : Permutation l (isort l).
  Proof. induction l as [|x l IH]; [constructor|]. cbn [isort fold_right].
    eapply Permutation_trans; [apply perm_skip; exact IH|apply insert_perm]. Qed.
  Lemma isort_In x l : In x (isort l) <-> In x l.
  Proof. split; intro H; [eapply Permutation_in; [apply Permutation_sym, isort_perm|exact H]|eapply Permutation_in; [apply isort_perm|exact H]]. Qed.
End Sort.
Arguments insert {A}. Arguments isort {A}. Arguments sorted_by {A}.

(* tuple order of Python on pairs and triples of integers *)
Definition iv_ltb (a b:iv) : bool := (fst a <? fst b) || ((fst a =? fst b) && (snd a <? snd b)).
Definition iv_leb (a b:iv) : bool := negb (iv_ltb b a).
Notation f3 := (Z*Z*Z)%type.     (* (start, end, feature type) *)
Definition f3_leb (a b:f3) : bool :=
  let '(a1,a2,a3) := a in let '(b1,b2,b3) := b in
  (a1 <? b1) || ((a1 =? b1) && ((a2 <? b2) || ((a2 =? b2) && (a3 <=? b3)))).
Lemma iv_leb_total a b : iv_leb a b = true \/ iv_leb b a = true.
Proof. unfold iv_leb, iv_ltb. destruct a, b; cbn [fst snd]. lia. Qed.
Lemma f3_leb_total a b : f3_leb a b = true \/ f3_leb b a = true.
Proof. unfold f3_leb. destruct a as [[? ?] ?], b as [[? ?] ?]. lia. Qed.

Definition ivl_eqb := list_eqb iv_eqb.
Lemma iv_eqb_eq a b : iv_eqb a b = true <-> a = b.
Proof. unfold iv_eqb. destruct a, b; cbn [fst snd]. split; [intros H; f_equal; lia|intros H; inversion H; lia]. Qed.
Lemma ivl_eqb_eq a b : ivl_eqb a b = true <-> a = b.
Proof. revert b; induction a as [|x a IH]; intros [|y b]; cbn; try (split; congruence).
  rewrite andb_true_iff, iv_eqb_eq. fold ivl_eqb. fold (list_eqb iv_eqb a b). change (list_eqb iv_eqb a b) with (ivl_eqb a b).
  rewrite IH. split; [intros [-> ->]; reflexivity|intros H; inversion H; auto]. Qed.

(* ------------------------------------------------------------------ validate_exons *)
(* novel_exons == sorted(novel_exons) and all(0 < x[0] <= x[1] for x in novel_exons) *)
Definition validate_exons (l:list iv) : bool :=
  ivl_eqb l (isort iv_leb l) && forallb (fun x => (0 <? fst x) && (fst x <=? snd x)) l.

(* what it guarantees: non-decreasing in tuple order, positive well-formed coordinates *)
Definition lex_sorted (l:list iv) : Prop := sorted_by iv_leb l.
Definition coords_ok (l:list iv) : Prop := Forall (fun x => 0 < fst x <= snd x) l.

Lemma insert_head_sorted x l : sorted_by iv_leb (x :: l) -> insert iv_leb x l = x :: l.
Proof. destruct l as [|y t]; [reflexivity|]. cbn [sorted_by insert]. intros [H _]. rewrite H. reflexivity. Qed.
Lemma isort_id l : sorted_by iv_leb l -> isort iv_leb l = l.
Proof. induction l as [|x l IH]; [reflexivity|]. intros H. cbn [isort fold_right]. fold (isort iv_leb l).
  rewrite IH; [apply insert_head_sorted; exact H|]. destruct H as [_ H]. exact H. Qed.

Theorem validate_exons_spec l : validate_exons l = true <-> lex_sorted l /\ coords_ok l.
Proof. unfold validate_exons, lex_sorted, coords_ok. rewrite andb_true_iff, ivl_eqb_eq, forallb_forall, Forall_forall. split.
  - intros [H1 H2]. split; [rewrite H1; apply isort_sorted, iv_leb_total|]. intros x Hx. specialize (H2 x Hx). lia.
  - intros [H1 H2]. split; [symmetry; apply isort_id; exact H1|]. intros x Hx. specialize (H2 x Hx). lia. Qed.

(* boolean version of Exons.sd: well-formed, strictly increasing, disjoint *)
Fixpoint sd_b (l:list iv) : bool :=
  match l with [] => true | a :: t => (fst a <=? snd a) && match t with [] => true | b :: _ => snd a <? fst b end && sd_b t end.
Lemma sd_b_spec l : sd_b l = true <-> sd l.
Proof. induction l as [|a t IH]; [cbn; tauto|]. cbn [sd_b sd]. rewrite !andb_true_iff, IH.
  destruct t as [|b t']; [rewrite Z.leb_le; tauto|rewrite Z.leb_le, Z.ltb_lt; tauto]. Qed.

Lemma sd_lex_sorted l : sd l -> lex_sorted l.
Proof. unfold lex_sorted. induction l as [|a t IH]; [auto|]. cbn [sd sorted_by]. intros (Ha & Hn & Ht). split; [|apply IH, Ht].
  destruct t as [|b t']; [auto|]. cbn [sd] in Ht. unfold iv_leb, iv_ltb. destruct a, b; cbn [fst snd] in *. lia. Qed.
Lemma sd_starts_lower l : sd l -> Forall (fun x => fst (hd (0,0) l) <= fst x) l.
Proof. induction l as [|a t IH]; [constructor|]. cbn [sd]. intros (Ha & Hn & Ht). constructor; [cbn; lia|].
  specialize (IH Ht). destruct t as [|b t']; [constructor|]. cbn [hd] in *. eapply Forall_impl; [|exact IH]. cbn. intros; lia. Qed.
(* disjoint well-formed exons starting after 0 pass the validation *)
Theorem sd_validates l : sd l -> 0 < fst (hd (0,0) l) -> validate_exons l = true.
Proof. intros Hs H0. apply validate_exons_spec. split; [apply sd_lex_sorted, Hs|].
  unfold coords_ok. pose proof (sd_starts_lower l Hs) as L. rewrite Forall_forall in *. intros x Hx. specialize (L x Hx).
  split; [lia|]. clear L H0. induction l as [|a t IH]; [destruct Hx|]. cbn [sd] in Hs. destruct Hx as [->|Hx]; [tauto|apply IH; tauto]. Qed.

(* ------------------------------------------------------------------ transcript models *)
Record tmodel := mkT { t_chr:Z; t_strand:Z; t_id:Z; t_gene:Z; t_known:bool; t_exons:list iv; t_other:list f3 }.
Definition set_exons (m:tmodel) (ex:list iv) := mkT (t_chr m) (t_strand m) (t_id m) (t_gene m) (t_known m) ex (t_other m).
Definition set_gene (m:tmodel) (g:Z) := mkT (t_chr m) (t_strand m) (t_id m) g (t_known m) (t_exons m) (t_other m).

Definition tregion (ex:list iv) : iv := (fst (hd (0,0) ex), snd (last ex (0,0))).
Definition max_range (a b:iv) : iv := (Z.min (fst a) (fst b), Z.max (snd a) (snd b)).
Definition contains (big small:iv) : Prop := fst big <= fst small /\ snd small <= snd big.

(* hull of an exon list: minimal start, maximal end *)
Definition hull (ex:list iv) : iv :=
  (fold_right Z.min (fst (hd (0,0) ex)) (map fst ex), fold_right Z.max (snd (hd (0,0) ex)) (map snd ex)).

(* ------------------------------------------------------------------ GFFPrinter.dump *)
(* what dump reads from gene_info: chr_id, empty(), get_gene_regions() *)
Record ginfo := mkG { g_chr:Z; g_empty:bool; g_regions:list (Z*iv) }.
Fixpoint assoc {B} (k:Z) (l:list (Z*B)) : option B :=
  match l with [] => None | (k',v) :: t => if k' =? k then Some v else assoc k t end.
Definition zmem (x:Z) (l:list Z) : bool := existsb (Z.eqb x) l.

Inductive line :=
| GeneL (chr s e strand gene ntr : Z)
| TrL (chr s e strand gene tid : Z)
| FeatL (chr ftype s e strand gene tid num : Z).

(* gene_info_dict and gene_to_model_dict together, in insertion order *)
Record grec := mkR { r_gene:Z; r_chr:Z; r_strand:Z; r_range:iv; r_models:list tmodel }.
Fixpoint gfind (g:Z) (l:list grec) : option grec :=
  match l with [] => None | r :: t => if r_gene r =? g then Some r else gfind g t end.
Fixpoint greplace (r':grec) (l:list grec) : list grec :=
  match l with [] => [] | r :: t => if r_gene r =? r_gene r' then r' :: t else r :: greplace r' t end.

(* one iteration of the first loop; Raises 1 = IndexError (empty exon list passes validate_exons), Raises 2 = AssertionError *)
Definition add_model (gi:ginfo) (acc:list grec) (m:tmodel) : outcome (list grec) :=
  if negb (validate_exons (t_exons m)) then Ok acc else
  match t_exons m with
  | [] => Raises 1
  | _ =>
    let tr := tregion (t_exons m) in
    match gfind (t_gene m) acc with
    | None =>
        if negb (t_chr m =? g_chr gi) then Raises 2 else
        let rg := match (if g_empty gi then None else assoc (t_gene m) (g_regions gi)) with
                  | Some r => max_range r tr | None => tr end in
        Ok (acc ++ [mkR (t_gene m) (t_chr m) (t_strand m) rg [m]])
    | Some r =>
        if negb (t_chr m =? r_chr r) then Raises 2 else
        Ok (greplace (mkR (t_gene m) (t_chr m) (t_strand m) (max_range (r_range r) tr) (r_models r ++ [m])) acc)
    end
  end.
Fixpoint build_table (gi:ginfo) (acc:list grec) (storage:list tmodel) : outcome (list grec) :=
  match storage with
  | [] => Ok acc
  | m :: t => match add_model gi acc m with Ok acc' => build_table gi acc' t | Raises k => Raises k end
  end.

(* sorted(..., key=lambda x: x[1]): by range, stable *)
Definition gene_order (tab:list grec) : list grec := isort (fun a b => iv_leb (r_range a) (r_range b)) tab.

Fixpoint number {A} (k:Z) (l:list A) : list (Z*A) := match l with [] => [] | x :: t => (k, x) :: number (k+1) t end.
Definition features (m:tmodel) : list f3 :=
  let l := t_other m ++ map (fun e => (fst e, snd e, 2)) (t_exons m) in
  if t_strand m =? 1 then rev (isort f3_leb l) else isort f3_leb l.
Definition emit_model (m:tmodel) : list line :=
  let tr := tregion (t_exons m) in
  TrL (t_chr m) (fst tr) (snd tr) (t_strand m) (t_gene m) (t_id m) ::
  map (fun kf => let '(k, (s, e, ty)) := kf in FeatL (t_chr m) ty s e (t_strand m) (t_gene m) (t_id m) k) (number 1 (features m)).
Definition gene_line (r:grec) : line :=
  GeneL (r_chr r) (fst (r_range r)) (snd (r_range r)) (r_strand r) (r_gene r) (Z.of_nat (length (r_models r))).
Fixpoint emit_genes (printed:list Z) (order:list grec) : list Z * list line :=
  match order with
  | [] => (printed, [])
  | r :: t =>
      let isnew := negb (zmem (r_gene r) printed) in
      let '(p, ls) := emit_genes (if isnew then r_gene r :: printed else printed) t in
      (p, (if isnew then [gene_line r] else []) ++ flat_map emit_model (r_models r) ++ ls)
  end.

(* dump(gene_info, transcript_model_storage) of a printer whose printed_gene_ids is `printed` *)
Definition dump (printed:list Z) (gi:ginfo) (storage:list tmodel) : outcome (list Z * list line) :=
  match storage with
  | [] => Ok (printed, [])
  | _ => match build_table gi [] storage with
         | Raises k => Raises k
         | Ok tab => Ok (emit_genes printed (gene_order tab))
         end
  end.

(* a printer's life: successive dump calls *)
Fixpoint dumps (printed:list Z) (calls:list (ginfo * list tmodel)) : outcome (list Z * list line) :=
  match calls with
  | [] => Ok (printed, [])
  | (gi, st) :: t =>
      match dump printed gi st with
      | Raises k => Raises k
      | Ok (p, ls) => match dumps p t with Raises k => Raises k | Ok (p', ls') => Ok (p', ls ++ ls') end
      end
  end.

(* ------------------------------------------------------------------ reference models, extended annotation *)
(* what from_reference_transcript / create_extended_storage read from a GeneInfo built from the whole chromosome:
   all_isoforms_exons (ordered), isoform_strands, gene_id_map, other_features *)
Record refiso := mkI { i_id:Z; i_gene:Z; i_strand:Z; i_exons:list iv; i_other:list f3 }.
Record refinfo := mkRef { ri_chr:Z; ri_isoforms:list refiso }.
Fixpoint ifind (tid:Z) (l:list refiso) : option refiso :=
  match l with [] => None | i :: t => if i_id i =? tid then Some i else ifind tid t end.
Definition model_of_iso (chr:Z) (i:refiso) : tmodel := mkT chr (i_strand i) (i_id i) (i_gene i) true (i_exons i) (i_other i).
Definition from_reference_transcript (ri:refinfo) (tid:Z) : option tmodel :=
  match ifind tid (ri_isoforms ri) with Some i => Some (model_of_iso (ri_chr ri) i) | None => None end.
(* None = no gene on the chromosome *)
Definition create_extended_storage (ri:option refinfo) (novel:list tmodel) : list tmodel :=
  match ri with
  | None => novel
  | Some ri => map (model_of_iso (ri_chr ri)) (ri_isoforms ri) ++ novel
  end.

(* ------------------------------------------------------------------ correct_novel_transcript_ends *)
Definition set_first (l:list iv) (x:iv) : list iv := match l with [] => [] | _ :: t => x :: t end.
Fixpoint set_last (l:list iv) (x:iv) : list iv := match l with [] => [] | [_] => [x] | a :: t => a :: set_last t x end.

(* loop state: start_supported, read_starts, end_supported, read_ends (keys) *)
Definition ends_step (apa:Z) (ex:list iv) (st:bool * list Z * bool * list Z) (r:iv) : bool * list Z * bool * list Z :=
  let '(ss, starts, es, ends) := st in
  let tstart := fst (hd (0,0) ex) in let tend := snd (last ex (0,0)) in
  let ss' := ss || (Z.abs (fst r - tstart) <=? apa) in
  let starts' := if negb ss' && (fst r <? snd (hd (0,0) ex)) then fst r :: starts else starts in
  let es' := es || (Z.abs (snd r - tend) <=? apa) in
  let ends' := if negb es' && (fst (last ex (0,0)) <? snd r) then snd r :: ends else ends in
  (ss', starts', es', ends').
Definition new_start (apa:Z) (ex:list iv) (reads:list iv) : option Z :=
  let '(ss, starts, _, _) := fold_left (ends_step apa ex) reads (false, [], false, []) in
  if ss then None else find (fun s => fst (hd (0,0) ex) <? s) (isort Z.leb starts).
Definition new_end (apa:Z) (ex:list iv) (reads:list iv) : option Z :=
  let '(_, _, es, ends) := fold_left (ends_step apa ex) reads (false, [], false, []) in
  if es then None else find (fun e => e <? snd (last ex (0,0))) (rev (isort Z.leb ends)).
(* reads: (first exon start, last exon end) of each assigned read, in order *)
Definition correct_ends (apa:Z) (ex:list iv) (reads:list iv) : list iv :=
  let ex1 := match new_start apa ex reads with
             | Some s => if negb (s =? 0) && (s <? snd (hd (0,0) ex)) then set_first ex (s, snd (hd (0,0) ex)) else ex
             | None => ex end in
  match new_end apa ex reads with
  | Some e => if negb (e =? 0) && (fst (last ex1 (0,0)) <? e) then set_last ex1 (fst (last ex1 (0,0)), e) else ex1
  | None => ex1 end.

(* the end-correction step of filter_transcripts: known models are passed through untouched *)
Definition correct_model (apa:Z) (reads_of:Z -> list iv) (m:tmodel) : tmodel :=
  if t_known m then m else set_exons m (correct_ends apa (t_exons m) (reads_of (t_id m))).

(* ------------------------------------------------------------------ TranscriptToGeneJoiner *)
(* scores are compared as exact fractions (numerator, positive denominator) *)
Notation frac := (Z*Z)%type.
Definition frac_ltb (a b:frac) : bool := fst a * snd b <? fst b * snd a.
Definition frac_add (a b:frac) : frac := (fst a * snd b + fst b * snd a, snd a * snd b).

Definition ivmem (x:iv) (l:list iv) : bool := existsb (iv_eqb x) l.
Definition set_union (a b:list iv) : list iv := fold_left (fun acc x => if ivmem x acc then acc else acc ++ [x]) b a.
Definition zset_union (a b:list Z) : list Z := fold_left (fun acc x => if zmem x acc then acc else acc ++ [x]) b a.

(* gene_strands / gene_regions / gene_introns (keyed by gene; order irrelevant) *)
Record jprop := mkJ { j_strand:Z; j_region:iv; j_introns:list iv }.
(* the joiner: properties, gene_to_transcripts (ordered), ids of the reference genes *)
Record jstate := mkS { s_props:list (Z*jprop); s_g2t:list (Z*list Z); s_ref:list Z }.

Fixpoint aset {B} (k:Z) (v:B) (l:list (Z*B)) : list (Z*B) :=
  match l with [] => [(k,v)] | (k',v') :: t => if k' =? k then (k,v) :: t else (k',v') :: aset k v t end.
Definition adel {B} (k:Z) (l:list (Z*B)) : list (Z*B) := filter (fun kv => negb (fst kv =? k)) l.
Definition aget_tids (g:Z) (l:list (Z*list Z)) : list Z := match assoc g l with Some v => v | None => [] end.

(* reference side of __init__: ref_genes = (gene, strand, region) in gene_strands order;
   ref_tr = (transcript, gene, introns) in gene_id_map order *)
Definition jinit_ref (ref_genes:list (Z*(Z*iv))) (ref_tr:list (Z*(Z*list iv))) : jstate :=
  let props0 := map (fun g => (fst g, mkJ (fst (snd g)) (snd (snd g)) [])) ref_genes in
  let st := fold_left (fun (st:list (Z*jprop) * list (Z*list Z)) (t:Z*(Z*list iv)) =>
              let '(props, g2t) := st in let g := fst (snd t) in
              let p := match assoc g props with Some p => p | None => mkJ 2 (0,0) [] end in
              (* gene_introns is a defaultdict independent of gene_strands: a gene missing there still gets introns *)
              (match assoc g props with
               | Some p => aset g (mkJ (j_strand p) (j_region p) (set_union (j_introns p) (snd (snd t)))) props
               | None => props end,
               aset g (zset_union (aget_tids g g2t) [fst t]) g2t)) ref_tr (props0, []) in
  mkS (fst st) (snd st) (map fst ref_genes).

(* model side of __init__; Raises 2 = the strand assertion *)
Definition jadd_model (st:jstate) (m:tmodel) : outcome jstate :=
  if t_known m then Ok st else
  let tr := tregion (t_exons m) in
  let ins := jfb (t_exons m) in
  match assoc (t_gene m) (s_props st) with
  | None => Ok (mkS (aset (t_gene m) (mkJ (t_strand m) tr ins) (s_props st))
                    (aset (t_gene m) (zset_union (aget_tids (t_gene m) (s_g2t st)) [t_id m]) (s_g2t st)) (s_ref st))
  | Some p =>
      if negb (j_strand p =? t_strand m) then Raises 2 else
      Ok (mkS (aset (t_gene m) (mkJ (j_strand p) (max_range (j_region p) tr) (set_union (j_introns p) ins)) (s_props st))
              (aset (t_gene m) (zset_union (aget_tids (t_gene m) (s_g2t st)) [t_id m]) (s_g2t st)) (s_ref st))
  end.
Fixpoint jinit_models (st:jstate) (storage:list tmodel) : outcome jstate :=
  match storage with [] => Ok st | m :: t => match jadd_model st m with Ok st' => jinit_models st' t | Raises k => Raises k end end.

(* jaccard_similarity([r1],[r2]) as a fraction *)
Definition jaccard1 (a b:iv) : frac :=
  if (snd a <? fst b) || (snd b <? fst a) then (0, (snd a - fst a + 1) + (snd b - fst b + 1))
  else (Z.min (snd a) (snd b) - Z.max (fst a) (fst b) + 1, Z.max (snd a) (snd b) - Z.min (fst a) (fst b) + 1).
Definition jprop_of (st:jstate) (g:Z) : jprop := match assoc g (s_props st) with Some p => p | None => mkJ 2 (0,0) [] end.
Definition count_score (st:jstate) (g1 g2:Z) : frac :=
  let p1 := jprop_of st g1 in let p2 := jprop_of st g2 in
  if negb (j_strand p1 =? j_strand p2) then (0, 1) else
  let inter := Z.of_nat (length (filter (fun x => ivmem x (j_introns p2)) (j_introns p1))) in
  let uni := Z.of_nat (length (j_introns p1)) + Z.of_nat (length (j_introns p2)) - inter in
  frac_add (jaccard1 (j_region p1) (j_region p2)) (inter, Z.max 1 uni).

Notation score := ((Z*Z) * frac)%type.
Definition pair_eqb2 (a b:Z*Z) : bool := (fst a =? fst b) && (snd a =? snd b).
Definition has_pair (p:Z*Z) (l:list score) : bool := existsb (fun s => pair_eqb2 (fst s) p) l.
Definition count_scores (st:jstate) : list score :=
  let keys := map fst (s_g2t st) in
  fold_left (fun acc g1 => fold_left (fun acc g2 =>
      if (g1 =? g2) || (zmem g1 (s_ref st) && zmem g2 (s_ref st)) then acc else
      let p := (Z.min g1 g2, Z.max g1 g2) in
      if has_pair p acc then acc else acc ++ [(p, count_score st g1 g2)]) keys acc) keys [].

(* max(self.scores, key=self.scores.get): the first maximal entry in insertion order *)
Fixpoint best_score (best:score) (l:list score) : score :=
  match l with [] => best | s :: t => best_score (if frac_ltb (snd best) (snd s) then s else best) t end.

Definition merge_genes (st:jstate) (g1 g2:Z) (scores:list score) : jstate * list score :=
  let p1 := jprop_of st g1 in let p2 := jprop_of st g2 in
  let props := adel g2 (aset g1 (mkJ (j_strand p1) (max_range (j_region p1) (j_region p2)) (set_union (j_introns p1) (j_introns p2))) (s_props st)) in
  let g2t := adel g2 (aset g1 (zset_union (aget_tids g1 (s_g2t st)) (aget_tids g2 (s_g2t st))) (s_g2t st)) in
  let st' := mkS props g2t (s_ref st) in
  let scores' := flat_map (fun s => let '(a, b) := fst s in
                    if (a =? g2) || (b =? g2) then [] else
                    if (a =? g1) || (b =? g1) then [((a, b), count_score st' a b)] else [s]) scores in
  (st', scores').

Fixpoint join_loop (fuel:nat) (st:jstate) (scores:list score) : jstate :=
  match fuel with
  | O => st
  | Datatypes.S n =>
      match scores with
      | s0 :: _ :: _ =>                                   (* while len(self.scores) > 1 *)
          let b := best_score s0 scores in
          if frac_ltb (snd b) (1, 10) then st else
          let '(a, c) := fst b in
          let '(st', scores') := if zmem a (s_ref st) then merge_genes st a c scores else merge_genes st c a scores in
          join_loop n st' scores'
      | _ => st
      end
  end.

(* transcript_to_new_gene_id: later entries of gene_to_transcripts win *)
Definition new_gene (g2t:list (Z*list Z)) (tid:Z) : option Z :=
  fold_left (fun acc kv => if zmem tid (snd kv) then Some (fst kv) else acc) g2t None.
(* Raises 3 = KeyError (a model whose transcript is in no gene) *)
Fixpoint relabel (g2t:list (Z*list Z)) (storage:list tmodel) : outcome (list tmodel) :=
  match storage with
  | [] => Ok []
  | m :: t => match new_gene g2t (t_id m) with
              | None => Raises 3
              | Some g => match relabel g2t t with Ok r => Ok (set_gene m g :: r) | Raises k => Raises k end
              end
  end.
Definition joiner_final (ref_genes:list (Z*(Z*iv))) (ref_tr:list (Z*(Z*list iv))) (storage:list tmodel) : outcome jstate :=
  match jinit_models (jinit_ref ref_genes ref_tr) storage with
  | Raises k => Raises k
  | Ok st => Ok (join_loop (Datatypes.S (length (s_g2t st))) st (count_scores st))
  end.
Definition join_transcripts (ref_genes:list (Z*(Z*iv))) (ref_tr:list (Z*(Z*list iv))) (storage:list tmodel) : outcome (list tmodel) :=
  match joiner_final ref_genes ref_tr storage with
  | Raises k => Raises k
  | Ok st => relabel (s_g2t st) storage
  end.

(* ------------------------------------------------------------------ merge_files *)
(* file names as byte lists; key = [int(t) if t.isdigit() else t.lower() for t in re.split('(\d+)', s)] *)
Definition is_digit (c:Z) : bool := (48 <=? c) && (c <=? 57).
Definition lower (c:Z) : Z := if (65 <=? c) && (c <=? 90) then c + 32 else c.
Inductive tok := TStr (s:list Z) | TInt (n:Z).
(* state: tokens so far (reversed), current text run (reversed), current digit run (value) if inside one *)
Fixpoint nat_key_aux (s:list Z) (txt:list Z) (num:option Z) (acc:list tok) : list tok :=
  match s with
  | [] => match num with
          | Some n => rev (TStr [] :: TInt n :: acc)
          | None => rev (TStr (rev txt) :: acc)
          end
  | c :: t =>
      if is_digit c then
        match num with
        | Some n => nat_key_aux t [] (Some (10 * n + (c - 48))) acc
        | None => nat_key_aux t [] (Some (c - 48)) (TStr (rev txt) :: acc)
        end
      else
        match num with
        | Some n => nat_key_aux t [lower c] None (TInt n :: acc)
        | None => nat_key_aux t (lower c :: txt) None acc
        end
  end.
Definition nat_key (s:list Z) : list tok := nat_key_aux s [] None [].
Fixpoint zs_leb (a b:list Z) : bool :=
  match a, b with [], _ => true | _ :: _, [] => false | x :: s, y :: t => (x <? y) || ((x =? y) && zs_leb s t) end.
Fixpoint zs_eqb' (a b:list Z) : bool :=
  match a, b with [], [] => true | x :: s, y :: t => (x =? y) && zs_eqb' s t | _, _ => false end.
(* keys always alternate text, number, text, ...: tokens at equal positions have the same kind *)
Fixpoint key_leb (a b:list tok) : bool :=
  match a, b with
  | [], _ => true
  | _ :: _, [] => false
  | TStr x :: s, TStr y :: t => if zs_eqb' x y then key_leb s t else zs_leb x y
  | TInt x :: s, TInt y :: t => if x =? y then key_leb s t else x <? y
  | _, _ => false
  end.

(* a part file: name, exists?, lines as (starts with '#', payload) *)
Record part := mkP { p_name:list Z; p_exists:bool; p_lines:list (bool*Z) }.
Fixpoint drop_header (l:list (bool*Z)) : list (bool*Z) :=
  match l with (true, _) :: t => drop_header t | _ => l end.
Fixpoint merge_sorted (copy_header:bool) (first:bool) (l:list part) : list (bool*Z) :=
  match l with
  | [] => []
  | p :: t => (if p_exists p then (if copy_header && first then p_lines p else drop_header (p_lines p)) else [])
              ++ merge_sorted copy_header false t
  end.
Definition merge_files (copy_header:bool) (parts:list part) : list (bool*Z) :=
  merge_sorted copy_header true (isort (fun a b => key_leb (nat_key (p_name a)) (nat_key (p_name b))) parts).

(* ------------------------------------------------------------------ decidable specifications (evaluated on implementation output) *)
Definition contains_b (big small:iv) : bool := (fst big <=? fst small) && (snd small <=? snd big).
Definition hull_b := hull.
Fixpoint nodup_z (l:list Z) : bool := match l with [] => true | x :: t => negb (zmem x t) && nodup_z t end.

(* exon lines that directly follow the transcript line of tid *)
Fixpoint exons_after (tid:Z) (ls:list line) : list iv :=
  match ls with
  | FeatL _ ty s e _ _ t _ :: r => if t =? tid then (if ty =? 2 then [(s, e)] else []) ++ exons_after tid r else []
  | _ => []
  end.
Fixpoint tr_groups (ls:list line) : list (Z * Z * iv * list iv) :=     (* gene, strand, transcript line, exon lines in printed order *)
  match ls with
  | [] => []
  | TrL _ s e st g t :: r => (g, st, (s, e), exons_after t r) :: tr_groups r
  | _ :: r => tr_groups r
  end.
Definition gene_lines (ls:list line) : list (Z * iv) :=
  flat_map (fun l => match l with GeneL _ s e _ g _ => [(g, (s, e))] | _ => [] end) ls.
Definition printed_order_ok (strand:Z) (ex:list iv) : bool :=
  ivl_eqb ex (isort iv_leb ex) || ((strand =? 1) && ivl_eqb ex (rev (isort iv_leb ex))).
(* the lines written by ONE dump call, `printed` = gene ids printed by earlier calls of the same printer *)
Definition dump_lines_ok (printed:list Z) (ls:list line) : bool :=
  let gl := gene_lines ls in
  nodup_z (map fst gl) && forallb (fun g => negb (zmem (fst g) printed)) gl &&
  forallb (fun t => let '(g, st, ln, ex) := t in
     let asc := isort iv_leb ex in
     negb (Nat.eqb (length ex) 0) && sd_b asc && (0 <? fst (hd (0,0) asc)) && iv_eqb ln (hull asc) && printed_order_ok st ex &&
     match assoc g gl with Some rg => contains_b rg ln | None => zmem g printed end) (tr_groups ls).

(* one transcript of an output GTF: chromosome, strand, gene, number of transcript lines, transcript line, exon lines in printed order *)
Record trec := mkX { x_chr:Z; x_strand:Z; x_gene:Z; x_nlines:Z; x_line:iv; x_exons:list iv }.
(* everything the property says about one transcript except the clause on its gene record *)
Definition tr_wf (chrlen:Z) (t:trec) : bool :=
  let asc := isort iv_leb (x_exons t) in
  negb (Nat.eqb (length (x_exons t)) 0) && sd_b asc && (1 <=? fst (hd (0,0) asc)) && (snd (last asc (0,0)) <=? chrlen) &&
  (x_nlines t =? 1) && iv_eqb (x_line t) (hull asc) && printed_order_ok (x_strand t) (x_exons t).
(* genes = all gene lines carrying the transcript's gene id: (chromosome, strand, range) *)
Definition gene_wf (t:trec) (genes:list (Z*Z*iv)) : bool :=
  match genes with
  | [(c, st, rg)] => (c =? x_chr t) && (st =? x_strand t) && contains_b rg (x_line t) && contains_b rg (hull (x_exons t))
  | _ => false
  end.
(* the same with the containment clause left out (used to classify a violation, never to accept one) *)
Definition gene_wf_but_containment (t:trec) (genes:list (Z*Z*iv)) : bool :=
  match genes with [(c, st, rg)] => (c =? x_chr t) && (st =? x_strand t) | _ => false end.
(* reference = (chromosome, strand, gene, exons ascending) of the input annotation when the id is a reference id *)
Definition ref_verbatim (t:trec) (r:option (Z*Z*Z*list iv)) : bool :=
  match r with
  | None => true
  | Some (c, st, g, ex) => (c =? x_chr t) && (st =? x_strand t) && (g =? x_gene t) && ivl_eqb (isort iv_leb (x_exons t)) ex
  end.
Definition gtf_tr_ok (chrlen:Z) (t:trec) (genes:list (Z*Z*iv)) (r:option (Z*Z*Z*list iv)) : bool :=
  tr_wf chrlen t && gene_wf t genes && ref_verbatim t r.

(* extended annotation = reference transcripts + novel transcripts of the models file; records (id, chromosome, strand, exons ascending) *)
Notation xrec := (Z*Z*Z*list iv)%type.
Definition xrec_eqb (a b:xrec) : bool :=
  let '(i, c, s, e) := a in let '(i', c', s', e') := b in (i =? i') && (c =? c') && (s =? s') && ivl_eqb e e'.
Definition xid (a:xrec) : Z := let '(i, _, _, _) := a in i.
Definition extended_ok (ref novel ext:list xrec) : bool :=
  forallb (fun r => existsb (xrec_eqb r) ext) ref && forallb (fun r => existsb (xrec_eqb r) ext) novel &&
  forallb (fun e => existsb (xrec_eqb e) ref || existsb (xrec_eqb e) novel) ext && nodup_z (map xid ext).
