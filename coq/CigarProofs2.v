(* C16: full specifications (for ALL inputs) of
   - move_ref_coord_alogn_alignment (model Cigar2.mv_walk / move_ref_coord): the walk equals the column semantics of the CIGAR —
     expand the operations into alignment columns; the result is the number of reference-consuming columns in the shortest prefix
     that contains shift+1 query-consuming columns (all columns up to the next clip if there are fewer), minus one;
   - PolyAFinder.find_polya (model Cigar2.fp_loop / find_polya): the incrementally maintained A-count is the count of the current
     window, the loop stops at the FIRST window start i < len - w whose window holds >= need A's (the last window, at len - w, is never
     examined), and the fuel of the model always suffices. *)
From Coq Require Import ZArith NArith List Bool Lia ZifyBool ZifyN.
From IQ Require Import Cigar Cigar2.
Import ListNotations. Open Scope Z_scope.

(* ================= move_ref_coord ================= *)
Inductive col := CM | CI | CD.       (* match (both), insertion (query only), deletion / skip (reference only) *)
Fixpoint expand (ops:list cop) : list col :=
  match ops with
  | [] => []
  | (o, n) :: t =>
    match o with
    | M | EQ | X => repeat CM (Z.to_nat n) ++ expand t
    | I => repeat CI (Z.to_nat n) ++ expand t
    | D | N => repeat CD (Z.to_nat n) ++ expand t
    | S | H => []                                     (* clipping on the other side ends the walk *)
    | P => expand t
    end
  end.
(* reference columns in the shortest prefix holding t query columns *)
Fixpoint rcu (cols:list col) (t:Z) : Z :=
  match cols with
  | [] => 0
  | c :: r => if t <=? 0 then 0 else match c with CM => 1 + rcu r (t - 1) | CI => rcu r (t - 1) | CD => 1 + rcu r t end
  end.

Lemma rcu_nonpos cols t : t <= 0 -> rcu cols t = 0.
Proof. intros H. destruct cols as [|c r]; [reflexivity|]. cbn [rcu]. replace (t <=? 0) with true by lia. reflexivity. Qed.
Lemma rcu_CI n r : forall t, 0 < t -> rcu (repeat CI n ++ r) t = rcu r (t - Z.of_nat n).
Proof. induction n as [|n IH]; intros t Ht; [cbn [repeat app]; f_equal; lia|].
  cbn [repeat app rcu]. replace (t <=? 0) with false by lia.
  destruct (Z_lt_le_dec 0 (t - 1)) as [H|H].
  - rewrite IH by exact H. f_equal. lia.
  - rewrite rcu_nonpos by exact H. rewrite rcu_nonpos by lia. reflexivity. Qed.
Lemma rcu_CD n r : forall t, 0 < t -> rcu (repeat CD n ++ r) t = Z.of_nat n + rcu r t.
Proof. induction n as [|n IH]; intros t Ht; [reflexivity|].
  cbn [repeat app rcu]. replace (t <=? 0) with false by lia. rewrite IH by exact Ht. lia. Qed.
Lemma rcu_CM n r : forall t, 0 < t -> rcu (repeat CM n ++ r) t = if Z.of_nat n <? t then Z.of_nat n + rcu r (t - Z.of_nat n) else t.
Proof. induction n as [|n IH]; intros t Ht.
  - cbn [repeat app Z.of_nat]. replace (0 <? t) with true by lia. replace (t - 0) with t by lia. lia.
  - cbn [repeat app rcu]. replace (t <=? 0) with false by lia.
    destruct (Z_lt_le_dec 0 (t - 1)) as [H|H].
    + rewrite IH by exact H. destruct (Z.of_nat n <? t - 1) eqn:E1.
      * replace (Z.of_nat (Datatypes.S n) <? t) with true by lia. replace (t - 1 - Z.of_nat n) with (t - Z.of_nat (Datatypes.S n)) by lia. lia.
      * replace (Z.of_nat (Datatypes.S n) <? t) with false by lia. lia.
    + rewrite rcu_nonpos by exact H. replace (Z.of_nat (Datatypes.S n) <? t) with false by lia. lia. Qed.

Definition nonneg_ops (ops:list cop) : Prop := Forall (fun c : cop => 0 <= snd c) ops.

Theorem mv_walk_spec : forall ops T readc refc, nonneg_ops ops -> mv_walk ops T readc refc = refc + rcu (expand ops) (T - readc).
Proof. induction ops as [|[o n] t IH]; intros T readc refc Hn; [cbn; lia|].
  inversion Hn as [|x y Hx Hy]; subst. cbn [snd] in Hx. cbn [mv_walk].
  destruct (readc <? T) eqn:E; [|rewrite rcu_nonpos by lia; lia].
  assert (Hz: Z.of_nat (Z.to_nat n) = n) by lia.
  destruct o; cbn [expand].
  - (* M *) rewrite rcu_CM by lia. rewrite Hz. destruct (n <? T - readc) eqn:E1.
    + rewrite IH by exact Hy. replace (T - (readc + n)) with (T - readc - n) by lia. lia.
    + rewrite IH by exact Hy. rewrite rcu_nonpos by lia. lia.
  - (* I *) rewrite rcu_CI by lia. rewrite Hz. rewrite IH by exact Hy. f_equal. f_equal. lia.
  - (* D *) rewrite rcu_CD by lia. rewrite Hz. rewrite IH by exact Hy. lia.
  - (* N *) rewrite rcu_CD by lia. rewrite Hz. rewrite IH by exact Hy. lia.
  - (* S *) cbn [rcu]. lia.
  - (* H *) cbn [rcu]. lia.
  - (* P *) apply IH. exact Hy.
  - (* EQ *) rewrite rcu_CM by lia. rewrite Hz. destruct (n <? T - readc) eqn:E1.
    + rewrite IH by exact Hy. replace (T - (readc + n)) with (T - readc - n) by lia. lia.
    + rewrite IH by exact Hy. rewrite rcu_nonpos by lia. lia.
  - (* X *) rewrite rcu_CM by lia. rewrite Hz. destruct (n <? T - readc) eqn:E1.
    + rewrite IH by exact Hy. replace (T - (readc + n)) with (T - readc - n) by lia. lia.
    + rewrite IH by exact Hy. rewrite rcu_nonpos by lia. lia.
Qed.

Lemma nonneg_rev ops : nonneg_ops ops -> nonneg_ops (rev ops).
Proof. unfold nonneg_ops. rewrite !Forall_forall. intros H x Hx. apply H, in_rev, Hx. Qed.
Lemma nonneg_skip ops : nonneg_ops ops -> nonneg_ops (skip_clips ops).
Proof. intros Hn. unfold skip_clips. destruct ops as [|[o n] t]; [constructor|]. inversion Hn as [|x y Hx Hy]; subst.
  destruct o; cbn [is_clip]; try exact Hn; try exact Hy.
  destruct t as [|[o2 n2] t2]; [exact Hy|]. inversion Hy; subst. destruct o2; assumption. Qed.

(* the projection of a read offset onto the reference *)
Theorem move_ref_coord_spec ops shift : nonneg_ops ops ->
  move_ref_coord ops shift =
    if shift =? 0 then 0
    else rcu (expand (skip_clips (if 0 <? shift then ops else rev ops))) (Z.abs shift + 1) - 1.
Proof. intros Hn. unfold move_ref_coord. destruct (shift =? 0); [reflexivity|].
  destruct (0 <? shift); rewrite mv_walk_spec by (apply nonneg_skip; try apply nonneg_rev; exact Hn); replace (Z.abs shift + 1 - 0) with (Z.abs shift + 1) by lia; lia. Qed.

(* consequences: monotone in the offset, bounded by the reference length walked over *)
Fixpoint refcols (cols:list col) : Z := match cols with [] => 0 | CI :: r => refcols r | _ :: r => 1 + refcols r end.
Lemma rcu_bounds cols : forall t, 0 <= rcu cols t <= refcols cols.
Proof. induction cols as [|c r IH]; intros t; [cbn; lia|]. cbn [rcu refcols]. destruct (t <=? 0).
  - destruct c; [pose proof (IH 0)|pose proof (IH 0)|pose proof (IH 0)]; lia.
  - destruct c; [pose proof (IH (t - 1))|pose proof (IH (t - 1))|pose proof (IH t)]; lia. Qed.
Lemma rcu_mono cols : forall t t', t <= t' -> rcu cols t <= rcu cols t'.
Proof. induction cols as [|c r IH]; intros t t' H; [cbn; lia|]. cbn [rcu].
  destruct (t <=? 0) eqn:E1.
  - destruct (t' <=? 0) eqn:E2; [lia|]. pose proof (rcu_bounds r (t' - 1)). pose proof (rcu_bounds r t'). destruct c; lia.
  - replace (t' <=? 0) with false by lia. destruct c; [pose proof (IH (t - 1) (t' - 1) ltac:(lia))|pose proof (IH (t - 1) (t' - 1) ltac:(lia))|pose proof (IH t t' H)]; lia. Qed.
Theorem move_ref_coord_monotone ops s s' : nonneg_ops ops -> 0 < s <= s' -> move_ref_coord ops s <= move_ref_coord ops s'.
Proof. intros Hn H. rewrite !move_ref_coord_spec by exact Hn. replace (s =? 0) with false by lia. replace (s' =? 0) with false by lia.
  replace (0 <? s) with true by lia. replace (0 <? s') with true by lia.
  pose proof (rcu_mono (expand (skip_clips ops)) (Z.abs s + 1) (Z.abs s' + 1) ltac:(lia)). lia. Qed.
Theorem move_ref_coord_monotone_back ops s s' : nonneg_ops ops -> s' <= s < 0 -> move_ref_coord ops s <= move_ref_coord ops s'.
Proof. intros Hn H. rewrite !move_ref_coord_spec by exact Hn. replace (s =? 0) with false by lia. replace (s' =? 0) with false by lia.
  replace (0 <? s) with false by lia. replace (0 <? s') with false by lia.
  pose proof (rcu_mono (expand (skip_clips (rev ops))) (Z.abs s + 1) (Z.abs s' + 1) ltac:(lia)). lia. Qed.
Theorem move_ref_coord_range ops s : nonneg_ops ops -> s <> 0 ->
  -1 <= move_ref_coord ops s <= refcols (expand (skip_clips (if 0 <? s then ops else rev ops))) - 1.
Proof. intros Hn H. rewrite move_ref_coord_spec by exact Hn. replace (s =? 0) with false by lia.
  pose proof (rcu_bounds (expand (skip_clips (if 0 <? s then ops else rev ops))) (Z.abs s + 1)). lia. Qed.
(* inside one match operation the projection is the identity *)
Theorem move_ref_coord_single_match n s : 0 < s < n -> move_ref_coord [(M, n)] s = s.
Proof. intros H. rewrite move_ref_coord_spec by (repeat constructor; cbn; lia). replace (s =? 0) with false by lia. replace (0 <? s) with true by lia.
  cbn [skip_clips is_clip expand]. rewrite rcu_CM by lia. replace (Z.of_nat (Z.to_nat n) <? Z.abs s + 1) with false by lia. lia. Qed.

Example move_ref_coord_example : move_ref_coord [(S,5);(M,10);(N,100);(M,4);(I,2);(M,6);(S,3)] 12 = 112 /\
                                 move_ref_coord [(S,5);(M,10);(N,100);(M,4);(I,2);(M,6);(S,3)] (-7) = 5.
Proof. vm_compute. split; reflexivity. Qed.

(* ================= find_polya ================= *)
Definition wc (w:Z) (s:list bool) : Z := count_true (firstn (Z.to_nat w) s).

Lemma count_true_firstn_succ n : forall l, count_true (firstn (Datatypes.S n) l) = count_true (firstn n l) + (if nth n l false then 1 else 0).
Proof. induction n as [|n IH]; intros l.
  - destruct l as [|b t]; [reflexivity|]. cbn [firstn count_true nth]. lia.
  - destruct l as [|b t]; [reflexivity|]. change (firstn (Datatypes.S (Datatypes.S n)) (b :: t)) with (b :: firstn (Datatypes.S n) t).
    change (firstn (Datatypes.S n) (b :: t)) with (b :: firstn n t). cbn [count_true nth]. rewrite IH. lia. Qed.
(* sliding the window by one base *)
Lemma wc_slide w b t : 0 < w -> wc w t = wc w (b :: t) - (if b then 1 else 0) + (if nth (Z.to_nat w) (b :: t) false then 1 else 0).
Proof. intros Hw. unfold wc. destruct (Z.to_nat w) as [|n] eqn:E; [lia|].
  change (firstn (Datatypes.S n) (b :: t)) with (b :: firstn n t). cbn [count_true nth]. rewrite count_true_firstn_succ. lia. Qed.

Lemma fp_loop_spec w need : 0 < w -> forall fuel s i len acount, len - i = Z.of_nat (length s) -> (length s < fuel)%nat -> acount = wc w s ->
  exists j, fp_loop fuel w need s i len acount = Some (i + Z.of_nat j, skipn j s) /\
    (forall j', (j' < j)%nat -> Z.of_nat j' < Z.of_nat (length s) - w /\ wc w (skipn j' s) < need) /\
    (Z.of_nat (length s) - w <= Z.of_nat j \/ need <= wc w (skipn j s)).
Proof. intros Hw. induction fuel as [|f IH]; intros s i len acount Hlen Hf Ha; [lia|]. cbn [fp_loop].
  destruct (i <? len - w) eqn:E1.
  - destruct (acount >=? need) eqn:E2.
    + exists 0%nat. cbn [skipn Z.of_nat]. split; [f_equal; f_equal; lia|]. split; [intros j' Hj'; lia|right; subst acount; lia].
    + destruct s as [|b t]; [cbn [length] in Hlen; lia|]. cbn [hd tl]. cbn [length] in Hlen, Hf.
      replace (i + w <? len) with true by lia. cbn [andb].
      destruct (IH t (i + 1) len (if b && negb (nth (Z.to_nat w) (b :: t) false) then acount - 1 else if negb b && nth (Z.to_nat w) (b :: t) false then acount + 1 else acount))
        as (j & Hj & Hbefore & Hstop); [lia|lia| |].
      { rewrite (wc_slide w b t Hw). subst acount. destruct (nth (Z.to_nat w) (b :: t) false), b; cbn [andb negb]; lia. }
      exists (Datatypes.S j). cbn [skipn]. split; [rewrite Hj; f_equal; f_equal; lia|]. split.
      * intros j' Hj'. destruct j' as [|j']; [cbn [skipn Z.of_nat length]; subst acount; lia|].
        cbn [skipn length]. specialize (Hbefore j' ltac:(lia)). lia.
      * cbn [length]. destruct Hstop as [H|H]; [left; lia|right; exact H].
  - exists 0%nat. cbn [skipn Z.of_nat]. split; [f_equal; f_equal; lia|]. split; [intros j' Hj'; lia|left; lia]. Qed.

(* the first index of two consecutive A's *)
Lemma find_aa_spec : forall l i k, find_aa l i = Some k ->
  i <= k /\ nth (Z.to_nat (k - i)) l false = true /\ nth (Datatypes.S (Z.to_nat (k - i))) l false = true /\
  forall j, (j < Z.to_nat (k - i))%nat -> nth j l false && nth (Datatypes.S j) l false = false.
Proof. induction l as [|a t IH]; intros i k H; [discriminate|].
  destruct a.
  - destruct t as [|b t'].
    + cbn [find_aa] in H. discriminate.
    + destruct b.
      * cbn [find_aa] in H. inversion H; subst k. replace (i - i) with 0 by lia. cbn. repeat split; try lia.
      * cbn [find_aa] in H. destruct (IH (i + 1) k H) as (H1 & H2 & H3 & H4).
        replace (Z.to_nat (k - i)) with (Datatypes.S (Z.to_nat (k - (i + 1)))) by lia. split; [lia|]. split; [exact H2|]. split; [exact H3|].
        intros j Hj. destruct j as [|j]; [reflexivity|]. apply (H4 j). lia.
  - cbn [find_aa] in H. destruct (IH (i + 1) k H) as (H1 & H2 & H3 & H4).
    replace (Z.to_nat (k - i)) with (Datatypes.S (Z.to_nat (k - (i + 1)))) by lia. split; [lia|]. split; [exact H2|]. split; [exact H3|].
    intros j Hj. destruct j as [|j]; [reflexivity|]. apply (H4 j). lia. Qed.

(* find_polya: -1 iff no window start i < len - w has need A's; otherwise the first such start, moved to the first "AA" at or after it *)
Theorem find_polya_spec w need s : 0 < w ->
  let len := Z.of_nat (length s) in
  find_polya w need s <> -2 /\
  (find_polya w need s = -1 <-> forall i, (Z.of_nat i < len - w) -> wc w (skipn i s) < need) /\
  (find_polya w need s <> -1 -> exists i, Z.of_nat i < len - w /\ need <= wc w (skipn i s) /\
      (forall j, (j < i)%nat -> wc w (skipn j s) < need) /\
      find_polya w need s = Z.of_nat i + match find_aa (skipn i s) 0 with Some k => k | None => 0 end).
Proof. intros Hw len. unfold find_polya. fold len.
  destruct (len <? w) eqn:E0.
  { split; [discriminate|]. split; [|intros H; congruence]. split; [intros _ i Hi; lia|reflexivity]. }
  destruct (fp_loop_spec w need Hw (Datatypes.S (length s)) s 0 len (count_true (firstn (Z.to_nat w) s)) ltac:(fold len; lia) ltac:(lia) eq_refl)
    as (j & Hj & Hbefore & Hstop).
  rewrite Hj. fold len in Hbefore, Hstop. replace (0 + Z.of_nat j) with (Z.of_nat j) by lia.
  assert (Haa: 0 <= match find_aa (skipn j s) 0 with Some k => k | None => 0 end).
  { destruct (find_aa (skipn j s) 0) as [k|] eqn:Ek; [|lia]. destruct (find_aa_spec _ _ _ Ek). lia. }
  destruct (Z.of_nat j >=? len - w) eqn:E1.
  - split; [discriminate|]. split; [|intros H; congruence]. split; [|reflexivity]. intros _ i Hi.
    apply Hbefore. lia.
  - split; [lia|]. split.
    + split; [lia|]. intros Hall. destruct Hstop as [H|H]; [lia|]. specialize (Hall j ltac:(lia)). lia.
    + intros _. exists j. split; [lia|]. split; [destruct Hstop as [H|H]; [lia|exact H]|]. split; [|reflexivity].
      intros j' Hj'. apply Hbefore. exact Hj'. Qed.

(* the window that ends the sequence is never examined: 16 A's alone are not a polyA tail for the finder *)
Example find_polya_last_window_refuted : find_polya 16 12 (repeat true 16) = -1 /\ wc 16 (repeat true 16) = 16.
Proof. vm_compute. split; reflexivity. Qed.
Example find_polya_example : find_polya 4 3 [false;true;false;false;true;true;true;false;false] = 4.
Proof. vm_compute. reflexivity. Qed.

(* ================= forward and backward projections of one alignment are consistently ordered ================= *)
Fixpoint qcols (cols:list col) : Z := match cols with [] => 0 | CD :: r => qcols r | _ :: r => 1 + qcols r end.
Lemma qcols_nonneg cols : 0 <= qcols cols.
Proof. induction cols as [|c r IH]; cbn [qcols]; [lia|]. destruct c; lia. Qed.
Lemma refcols_nonneg cols : 0 <= refcols cols.
Proof. induction cols as [|c r IH]; cbn [refcols]; [lia|]. destruct c; lia. Qed.
Lemma qcols_app X Y : qcols (X ++ Y) = qcols X + qcols Y.
Proof. induction X as [|c r IH]; [reflexivity|]. cbn [app qcols]. destruct c; lia. Qed.
Lemma refcols_app X Y : refcols (X ++ Y) = refcols X + refcols Y.
Proof. induction X as [|c r IH]; [reflexivity|]. cbn [app refcols]. destruct c; lia. Qed.
Lemma qcols_rev X : qcols (rev X) = qcols X.
Proof. induction X as [|c r IH]; [reflexivity|]. cbn [rev]. rewrite qcols_app, IH. cbn [qcols]. destruct c; lia. Qed.
Lemma refcols_rev X : refcols (rev X) = refcols X.
Proof. induction X as [|c r IH]; [reflexivity|]. cbn [rev]. rewrite refcols_app, IH. cbn [refcols]. destruct c; lia. Qed.
Lemma rcu_app X : forall Y t, rcu (X ++ Y) t = if t <=? qcols X then rcu X t else refcols X + rcu Y (t - qcols X).
Proof. induction X as [|c r IH]; intros Y t.
  - cbn [app qcols refcols rcu]. destruct (t <=? 0) eqn:E; [apply rcu_nonpos; lia|]. replace (t - 0) with t by lia. lia.
  - cbn [app rcu qcols refcols]. pose proof (qcols_nonneg r) as Hq.
    destruct (t <=? 0) eqn:E0.
    + destruct c; replace (t <=? 1 + qcols r) with true by lia; try replace (t <=? qcols r) with true by lia; reflexivity.
    + destruct c.
      * rewrite IH. destruct (t - 1 <=? qcols r) eqn:E1; [replace (t <=? 1 + qcols r) with true by lia; reflexivity|].
        replace (t <=? 1 + qcols r) with false by lia. replace (t - (1 + qcols r)) with (t - 1 - qcols r) by lia. lia.
      * rewrite IH. destruct (t - 1 <=? qcols r) eqn:E1; [replace (t <=? 1 + qcols r) with true by lia; reflexivity|].
        replace (t <=? 1 + qcols r) with false by lia. replace (t - (1 + qcols r)) with (t - 1 - qcols r) by lia. lia.
      * rewrite IH. destruct (t <=? qcols r) eqn:E1; lia. Qed.

(* a forward prefix with qf query columns and a backward prefix with qb query columns share at most one column when qf + qb <= #query + 1 *)
Lemma fwd_bwd C : forall qf qb, 1 <= qf -> 1 <= qb -> qf + qb <= qcols C + 1 -> rcu C qf + rcu (rev C) qb <= refcols C + 1.
Proof. induction C as [|c r IH]; intros qf qb Hf Hb Hs; [cbn [qcols] in Hs; lia|].
  cbn [rev]. rewrite rcu_app, qcols_rev, refcols_rev. cbn [rcu qcols refcols] in *. replace (qf <=? 0) with false by lia.
  pose proof (rcu_bounds (rev r) qb) as Bb. rewrite refcols_rev in Bb. pose proof (rcu_bounds r (qf - 1)) as Bf. pose proof (qcols_nonneg r) as Hq.
  destruct c.
  - destruct (Z.eq_dec qf 1) as [->|Hne].
    + rewrite (rcu_nonpos r (1 - 1)) by lia. destruct (qb <=? qcols r) eqn:E; [lia|]. replace (qb - qcols r <=? 0) with false by lia. cbn [rcu]. lia.
    + replace (qb <=? qcols r) with true by lia. pose proof (IH (qf - 1) qb ltac:(lia) Hb ltac:(lia)). lia.
  - destruct (Z.eq_dec qf 1) as [->|Hne].
    + rewrite (rcu_nonpos r (1 - 1)) by lia. destruct (qb <=? qcols r) eqn:E; [lia|]. replace (qb - qcols r <=? 0) with false by lia. cbn [rcu]. lia.
    + replace (qb <=? qcols r) with true by lia. pose proof (IH (qf - 1) qb ltac:(lia) Hb ltac:(lia)). lia.
  - replace (qb <=? qcols r) with true by lia. pose proof (IH qf qb Hf Hb ltac:(lia)). lia. Qed.

(* C = the alignment columns between the clips.  A read base s positions after the first aligned base, projected forwards from the
   alignment start (find_polyt_head), never lands to the right of a LATER read base (s' positions before the end of the aligned part),
   projected backwards from the alignment end (find_polya_tail). *)
Theorem fwd_le_bwd_projection ops C rs s s' : nonneg_ops ops ->
  expand (skip_clips ops) = C -> expand (skip_clips (rev ops)) = rev C -> ref_len ops = refcols C ->
  0 < s -> 0 < s' -> s + s' < qcols C ->
  rs + move_ref_coord ops s <= rs + ref_len ops - move_ref_coord ops (- s').
Proof. intros Hn Hf Hb Hr Hs Hs' Hlt. rewrite !move_ref_coord_spec by exact Hn.
  replace (s =? 0) with false by lia. replace (- s' =? 0) with false by lia. replace (0 <? s) with true by lia. replace (0 <? - s') with false by lia.
  rewrite Hf, Hb, Hr. pose proof (fwd_bwd C (Z.abs s + 1) (Z.abs (- s') + 1) ltac:(lia) ltac:(lia) ltac:(lia)). lia. Qed.

(* the hypotheses hold for every clip-free CIGAR with non-negative lengths *)
Definition clipfree (ops:list cop) : Prop := Forall (fun c : cop => is_clip (fst c) = false) ops.
Lemma rev_repeat_col (c:col) n : rev (repeat c n) = repeat c n.
Proof. induction n as [|n IH]; [reflexivity|]. cbn [repeat rev]. rewrite IH. clear IH.
  induction n as [|n IH]; [reflexivity|]. cbn [repeat app]. rewrite IH. reflexivity. Qed.
Lemma expand_app X : forall Y, clipfree X -> expand (X ++ Y) = expand X ++ expand Y.
Proof. induction X as [|[o n] t IH]; intros Y H; [reflexivity|]. inversion H as [|x y Hx Hy]; subst. cbn [fst] in Hx.
  cbn [app expand]. destruct o; cbn [is_clip] in Hx; try discriminate; rewrite IH by exact Hy; rewrite ?app_assoc; reflexivity. Qed.
Lemma expand_rev ops : clipfree ops -> expand (rev ops) = rev (expand ops).
Proof. induction ops as [|[o n] t IH]; intros H; [reflexivity|]. inversion H as [|x y Hx Hy]; subst. cbn [fst] in Hx.
  cbn [rev]. rewrite expand_app by (unfold clipfree; rewrite Forall_forall; intros z Hz; unfold clipfree in Hy; rewrite Forall_forall in Hy; apply Hy, in_rev, Hz).
  rewrite IH by exact Hy. cbn [expand].
  destruct o; cbn [is_clip] in Hx; try discriminate; rewrite ?app_nil_r, ?rev_app_distr, ?rev_repeat_col; reflexivity. Qed.
Lemma skip_clips_clipfree ops : clipfree ops -> skip_clips ops = ops.
Proof. intros H. destruct ops as [|[o n] t]; [reflexivity|]. inversion H as [|x y Hx Hy]; subst. cbn [fst] in Hx.
  destruct o; cbn [is_clip] in Hx; try discriminate; reflexivity. Qed.
Lemma refcols_repeat_CM n : refcols (repeat CM n) = Z.of_nat n.
Proof. induction n as [|n IH]; [reflexivity|]. cbn [repeat refcols]. lia. Qed.
Lemma refcols_repeat_CD n : refcols (repeat CD n) = Z.of_nat n.
Proof. induction n as [|n IH]; [reflexivity|]. cbn [repeat refcols]. lia. Qed.
Lemma refcols_repeat_CI n : refcols (repeat CI n) = 0.
Proof. induction n as [|n IH]; [reflexivity|]. cbn [repeat refcols]. lia. Qed.
Lemma ref_len_refcols ops : nonneg_ops ops -> clipfree ops -> ref_len ops = refcols (expand ops).
Proof. unfold ref_len. induction ops as [|[o n] t IH]; intros Hn Hc; [reflexivity|].
  inversion Hn as [|x y Hx Hy]; subst. inversion Hc as [|x y Hx' Hy']; subst. cbn [fst snd] in Hx, Hx'.
  cbn [sumf expand]. rewrite (IH Hy Hy'). unfold reflen. cbn [fst snd].
  destruct o; cbn [is_clip] in Hx'; try discriminate; rewrite ?refcols_app, ?refcols_repeat_CM, ?refcols_repeat_CD, ?refcols_repeat_CI; lia. Qed.
Corollary fwd_le_bwd_projection_clipfree ops rs s s' : nonneg_ops ops -> clipfree ops ->
  0 < s -> 0 < s' -> s + s' < qcols (expand ops) ->
  rs + move_ref_coord ops s <= rs + ref_len ops - move_ref_coord ops (- s').
Proof. intros Hn Hc. apply fwd_le_bwd_projection; [exact Hn|rewrite skip_clips_clipfree by exact Hc; reflexivity| |apply ref_len_refcols; assumption].
  assert (Hc': clipfree (rev ops)) by (unfold clipfree in *; rewrite Forall_forall in *; intros z Hz; apply Hc, in_rev, Hz).
  rewrite skip_clips_clipfree by exact Hc'. apply expand_rev, Hc. Qed.

(* ================= the finder's range question: internal polyT <= internal polyA ?  REFUTED ================= *)
(* 27M at reference_start 1000, read T^11 A^4 T^2 A^10 (0 = A, 3 = T), default finder (window 16, 12 A's, fraction 3/4, internal windows
   (64, 2, entire)): the model — and the real PolyAFinder — report the internal polyA at 1011 and the internal polyT at 1016.  In read
   coordinates the T-rich head ends at offset 16 and the A-rich tail starts at offset 11: the two regions may overlap by up to a third of
   the read, and only for ordered READ offsets are the projections ordered (fwd_le_bwd_projection). *)
Definition range_witness : list Z := [3;3;3;3;3;3;3;3;3;3;3;0;0;0;0;3;3;0;0;0;0;0;0;0;0;0;0].
Example finder_range_refuted :
  find_polya_tail 16 12 3 4 range_witness [(M,27)] 1000 64 2 true = CorrSupport.Ok 1011 /\
  find_polyt_head 16 12 3 4 range_witness [(M,27)] 1000 64 2 true = CorrSupport.Ok 1016.
Proof. vm_compute. split; reflexivity. Qed.
Theorem finder_range_statement_refuted :
  exists seq ops rs a t, find_polya_tail 16 12 3 4 seq ops rs 64 2 true = CorrSupport.Ok a /\ find_polyt_head 16 12 3 4 seq ops rs 64 2 true = CorrSupport.Ok t /\
    a <> -1 /\ t <> -1 /\ a < t.
Proof. exists range_witness, [(M,27)], 1000, 1011, 1016. vm_compute. repeat split; congruence. Qed.

Print Assumptions move_ref_coord_spec.
Print Assumptions find_polya_spec.
Print Assumptions fwd_le_bwd_projection.
Print Assumptions finder_range_statement_refuted.
