(* Generic facts about the shape tools/translate_loops.py emits: fold_left over `seq 0 n` with list elements read by `nth`.
   They turn an index loop into a fold over the list itself (or over `combine` of two lists of equal length). *)
From Coq Require Import ZArith List Bool Lia.
Import ListNotations.

Lemma nth_pre {A} (pre l:list A) (x:A) d : nth (length pre) (pre ++ x :: l) d = x.
Proof. rewrite app_nth2 by lia. rewrite Nat.sub_diag. reflexivity. Qed.
Lemma nth_pre1 {A} (pre l:list A) (x y:A) d : nth (length pre + 1) (pre ++ x :: y :: l) d = y.
Proof. rewrite app_nth2 by lia. replace (length pre + 1 - length pre)%nat with 1%nat by lia. reflexivity. Qed.
Lemma app_cons_assoc {A} (pre l:list A) x : pre ++ x :: l = (pre ++ [x]) ++ l.
Proof. rewrite <- app_assoc. reflexivity. Qed.
Lemma length_snoc {A} (pre:list A) x : length (pre ++ [x]) = S (length pre).
Proof. rewrite app_length. simpl. lia. Qed.

Lemma fold_left_ext {S A} (f g : S -> A -> S) : (forall s a, f s a = g s a) -> forall l s, fold_left f l s = fold_left g l s.
Proof. intros H l. induction l as [|x t IH]; intros s; simpl; [reflexivity|]. rewrite H. apply IH. Qed.

(* one list *)
Lemma fold_seq_nth_pre {S A} (g : S -> A -> S) (d:A) : forall l pre a,
  fold_left (fun s i => g s (nth i (pre ++ l) d)) (seq (length pre) (length l)) a = fold_left g l a.
Proof. induction l as [|x t IH]; intros pre a; [reflexivity|]. cbn [length seq fold_left]. rewrite nth_pre.
  rewrite (app_cons_assoc pre t x). rewrite <- (length_snoc pre x). apply IH. Qed.
Lemma fold_seq_nth {S A} (g : S -> A -> S) (d:A) l a :
  fold_left (fun s i => g s (nth i l d)) (seq 0 (length l)) a = fold_left g l a.
Proof. exact (fold_seq_nth_pre g d l [] a). Qed.

(* the first k elements *)
Lemma fold_seq_nth_firstn_pre {S A} (g : S -> A -> S) (d:A) : forall k l pre a, (k <= length l)%nat ->
  fold_left (fun s i => g s (nth i (pre ++ l) d)) (seq (length pre) k) a = fold_left g (firstn k l) a.
Proof. induction k as [|k IH]; intros l pre a H; [reflexivity|]. destruct l as [|x t]; [simpl in H; lia|].
  cbn [seq fold_left firstn]. rewrite nth_pre. rewrite (app_cons_assoc pre t x). rewrite <- (length_snoc pre x). apply IH. simpl in H. lia. Qed.
Lemma fold_seq_nth_firstn {S A} (g : S -> A -> S) (d:A) k l a : (k <= length l)%nat ->
  fold_left (fun s i => g s (nth i l d)) (seq 0 k) a = fold_left g (firstn k l) a.
Proof. exact (fold_seq_nth_firstn_pre g d k l [] a). Qed.

(* two lists of equal length *)
Lemma fold_seq_nth2_pre {S A B} (g : S -> A -> B -> S) (da:A) (db:B) : forall l1 l2 p1 p2 a, length l1 = length l2 -> length p1 = length p2 ->
  fold_left (fun s i => g s (nth i (p1 ++ l1) da) (nth i (p2 ++ l2) db)) (seq (length p1) (length l1)) a =
  fold_left (fun s p => g s (fst p) (snd p)) (combine l1 l2) a.
Proof. induction l1 as [|x t IH]; intros l2 p1 p2 a H1 H2; [reflexivity|]. destruct l2 as [|y u]; [simpl in H1; lia|].
  cbn [length seq fold_left combine fst snd]. rewrite nth_pre.
  replace (nth (length p1) (p2 ++ y :: u) db) with y by (rewrite H2; symmetry; apply nth_pre).
  rewrite (app_cons_assoc p1 t x), (app_cons_assoc p2 u y). rewrite <- (length_snoc p1 x). apply IH; [simpl in H1; lia|rewrite !length_snoc; lia]. Qed.
Lemma fold_seq_nth2 {S A B} (g : S -> A -> B -> S) (da:A) (db:B) l1 l2 a : length l1 = length l2 ->
  fold_left (fun s i => g s (nth i l1 da) (nth i l2 db)) (seq 0 (length l1)) a = fold_left (fun s p => g s (fst p) (snd p)) (combine l1 l2) a.
Proof. intros H. exact (fold_seq_nth2_pre g da db l1 l2 [] [] a H eq_refl). Qed.

(* reading a list from its end *)
Lemma nth_rev_index {A} (l:list A) i d : (i < length l)%nat -> nth (length l - 1 - i) l d = nth i (rev l) d.
Proof. intros H. rewrite rev_nth by lia. f_equal. lia. Qed.
Lemma firstn_rev_skipn {A} (l:list A) k : (k <= length l)%nat -> firstn k (rev l) = rev (skipn (length l - k) l).
Proof. intros H. rewrite <- (firstn_skipn (length l - k) l) at 1. rewrite rev_app_distr.
  rewrite firstn_app. rewrite rev_length, skipn_length. replace (k - (length l - (length l - k)))%nat with 0%nat by lia.
  rewrite firstn_O, app_nil_r. apply firstn_all2. rewrite rev_length, skipn_length. lia. Qed.
