(* Shared facts for the bridges of the `while` fragment of tools/translate_loops.py: py_run against the `outcome` of the hand models,
   checked indexing at natural indices and at -1. *)
From Coq Require Import ZArith NArith List Bool Lia ZifyBool.
From IQ.gen Require Import Prims Loops.
From IQ Require Import CorrSupport LoopsSupport LoopsIndexSupport.
Import ListNotations. Open Scope Z_scope.

Definition run_of {A} (o:outcome A) : py_run A := match o with Ok v => py_Done v | Raises k => py_Raises k end.

Lemma index_ok_nat {A} (l:list A) n : (n < length l)%nat -> py_index_ok l (Z.of_nat n) = true.
Proof. intros H. unfold py_index_ok. lia. Qed.
Lemma skipn_nth_cons {A} (l:list A) n d : (n < length l)%nat -> skipn n l = nth n l d :: skipn (S n) l.
Proof. revert n. induction l as [|x t IH]; intros n H; [simpl in H; lia|]. destruct n; [reflexivity|]. cbn [skipn nth]. apply IH. simpl in H. lia. Qed.

Lemma last_cons_dflt {A} : forall (l:list A) x d d', last (x :: l) d = last (x :: l) d'.
Proof. induction l as [|y t IH]; intros x d d'; [reflexivity|]. change (last (x :: y :: t) d) with (last (y :: t) d). change (last (x :: y :: t) d') with (last (y :: t) d'). apply IH. Qed.
Lemma nth_length_last {A} : forall (l:list A) a d, nth (length l) (a :: l) d = last (a :: l) a.
Proof. induction l as [|x t IH]; intros a d; [reflexivity|]. change (nth (length (x :: t)) (a :: x :: t) d) with (nth (length t) (x :: t) d). rewrite IH. change (last (a :: x :: t) a) with (last (x :: t) a). apply last_cons_dflt. Qed.
Lemma py_index_last {A} (l:list A) a d : py_index (a :: l) (-1) d = last (a :: l) a.
Proof. unfold py_index. replace (-1 <? 0) with true by reflexivity.
  replace (Z.to_nat (Z.of_nat (length (a :: l)) + -1)) with (length l) by (cbn [length]; lia). apply nth_length_last. Qed.

Lemma firstn_S_snoc {A} (l:list A) n d : (n < length l)%nat -> firstn (S n) l = firstn n l ++ [nth n l d].
Proof. revert n. induction l as [|x t IH]; intros n H; [simpl in H; lia|]. destruct n; [reflexivity|]. cbn [firstn nth app]. f_equal. apply IH. simpl in H. lia. Qed.
