(* C11: shift / reflection equivariance of the modelled list functions (Intervals.v, Cigar.v, PolyA*.v); Regions.v is in MirrorRegions.v. *)
From Coq Require Import ZArith NArith List Bool Lia ZifyBool.
From IQ.gen Require Import Prims Tables.
From IQ Require Import CorrSupport Mirror.
From IQ Require Intervals IntervalsSpec IntervalsProofs Cigar Cigar2 PolyA PolyA2.
Import ListNotations. Open Scope Z_scope.

(* ================================================================ generic list facts *)
Lemma last_map {A B} (f:A -> B) l d : last (map f l) (f d) = f (last l d).
Proof. induction l as [|a t IH]; [reflexivity|]. destruct t; [reflexivity|]. exact IH. Qed.
Lemma last_rev_hd {A} (l:list A) d : last (rev l) d = hd d l.
Proof. destruct l as [|a t]; [reflexivity|]. cbn [rev hd]. apply last_last. Qed.
Lemma hd_rev_last {A} (l:list A) d : hd d (rev l) = last l d.
Proof. rewrite <- (rev_involutive l) at 2. rewrite last_rev_hd. reflexivity. Qed.
Lemma tl_map {A B} (f:A -> B) l : tl (map f l) = map f (tl l).
Proof. destruct l; reflexivity. Qed.
Lemma last_shl k l a : last (shl k l) (sh k a) = sh k (last l a).
Proof. apply last_map. Qed.
Lemma shl_app k l1 l2 : shl k (l1 ++ l2) = shl k l1 ++ shl k l2.
Proof. apply map_app. Qed.
Lemma skipn_shl k n l : skipn n (shl k l) = shl k (skipn n l).
Proof. apply skipn_map. Qed.
Lemma firstn_shl k n l : firstn n (shl k l) = shl k (firstn n l).
Proof. apply firstn_map. Qed.
Lemma rev_shl k l : rev (shl k l) = shl k (rev l).
Proof. symmetry. apply map_rev. Qed.
Lemma nth_error_map' {A B} (f:A -> B) l n : nth_error (map f l) n = option_map f (nth_error l n).
Proof. revert n; induction l as [|a t IH]; intros [|n]; cbn; auto. Qed.

Lemma nth_rfl0 L l n : (n < length l)%nat -> nth n (rfl L l) (0, 0) = rf L (nth (length l - Datatypes.S n) l (0, 0)).
Proof. intros H. unfold rfl. rewrite rev_nth by (rewrite map_length; exact H). rewrite map_length.
  rewrite (nth_indep _ (0, 0) (rf L (0, 0))) by (rewrite map_length; lia). apply map_nth. Qed.

Module IntervalsShift.
Import Intervals IntervalsSpec IntervalsProofs.

(* ================================================================ shift: interval lists *)
Lemma total_shift k l : total (shl k l) = total l.
Proof. induction l as [|a t IH]; [reflexivity|]. cbn [shl map total]. fold (shl k t). rewrite IH, py_interval_len_shift. reflexivity. Qed.

Lemma sitp_loop_shift k l pos : sitp_loop (shl k l) (pos + k) = sitp_loop l pos.
Proof. induction l as [|a t IH]; [reflexivity|]. cbn [shl map sitp_loop]. fold (shl k t). rewrite IH. unfold sh. cbn [fst snd].
  destruct (fst a <? pos) eqn:E1, (fst a + k <? pos + k) eqn:E2; try lia.
  destruct ((fst a <=? pos) && (pos <=? snd a)) eqn:E3, ((fst a + k <=? pos + k) && (pos + k <=? snd a + k)) eqn:E4; lia. Qed.
Theorem sum_to_point_shift k l pos : sum_to_point (shl k l) (pos + k) = sum_to_point l pos.
Proof. destruct l as [|a t]; [reflexivity|]. unfold sum_to_point. cbn [shl map]. change (sh k a :: map (sh k) t) with (shl k (a :: t)).
  rewrite last_shl, total_shift, sitp_loop_shift. unfold sh. cbn [fst snd]. f_equal.
  destruct (pos <=? fst a) eqn:E1, (pos + k <=? fst a + k) eqn:E2; try lia.
  destruct (pos >? snd (last (a :: t) a)) eqn:E3, (pos + k >? snd (last (a :: t) a) + k) eqn:E4; lia. Qed.

Lemma sifp_loop_shift k l pos : sifp_loop (shl k l) (pos + k) = sifp_loop l pos.
Proof. induction l as [|a t IH]; [reflexivity|]. cbn [shl map sifp_loop]. fold (shl k t). rewrite IH. unfold sh. cbn [fst snd].
  destruct (snd a >? pos) eqn:E1, (snd a + k >? pos + k) eqn:E2; try lia.
  destruct ((fst a <=? pos) && (pos <=? snd a)) eqn:E3, ((fst a + k <=? pos + k) && (pos + k <=? snd a + k)) eqn:E4; lia. Qed.
Theorem sum_from_point_shift k l pos : sum_from_point (shl k l) (pos + k) = sum_from_point l pos.
Proof. destruct l as [|a t]; [reflexivity|]. unfold sum_from_point. cbn [shl map]. change (sh k a :: map (sh k) t) with (shl k (a :: t)).
  rewrite last_shl, total_shift. unfold shl at 1. rewrite <- map_rev. fold (shl k (rev (a :: t))). rewrite sifp_loop_shift. unfold sh. cbn [fst snd]. f_equal.
  destruct (pos <? fst a) eqn:E1, (pos + k <? fst a + k) eqn:E2; try lia.
  destruct (pos >? snd (last (a :: t) a)) eqn:E3, (pos + k >? snd (last (a :: t) a) + k) eqn:E4; lia. Qed.

(* jaccard_similarity / read_coverage_fraction / extra_exon_percentage: the accumulators do not move *)
Lemma rest_shift k inc l : rest inc (shl k l) = rest inc l.
Proof. unfold rest. destruct inc; [|apply total_shift]. unfold shl. rewrite tl_map. apply total_shift. Qed.
Lemma jac_f_shift k : forall n A B i1 i2, jac_f n (shl k A) (shl k B) i1 i2 = jac_f n A B i1 i2.
Proof. induction n as [|n IH]; intros A B i1 i2; [reflexivity|]. destruct A as [|a A']; [cbn [shl map jac_f]; fold (shl k B); rewrite rest_shift; reflexivity|].
  destruct B as [|b B']; [cbn [shl map jac_f]; fold (shl k (a :: A')); change (sh k a :: map (sh k) A') with (shl k (a :: A')); rewrite rest_shift; reflexivity|].
  cbn [shl map jac_f]. fold (shl k A'). fold (shl k B'). rewrite py_overlaps_shift, py_left_of_shift.
  change (sh k a :: shl k A') with (shl k (a :: A')). change (sh k b :: shl k B') with (shl k (b :: B')). rewrite !IH.
  unfold ilen, sh. cbn [fst snd].
  replace (snd b + k <? snd a + k) with (snd b <? snd a) by lia.
  replace (Z.min (snd a + k) (snd b + k) - Z.max (fst a + k) (fst b + k) + 1) with (Z.min (snd a) (snd b) - Z.max (fst a) (fst b) + 1) by lia.
  replace (Z.max (snd a + k) (snd b + k) - Z.min (fst a + k) (fst b + k) + 1) with (Z.max (snd a) (snd b) - Z.min (fst a) (fst b) + 1) by lia.
  replace (Z.max 0 (snd a + k - (snd b + k))) with (Z.max 0 (snd a - snd b)) by lia.
  replace (Z.max 0 (snd b + k - (snd a + k))) with (Z.max 0 (snd b - snd a)) by lia.
  replace (snd b + k - (fst b + k) + 1) with (snd b - fst b + 1) by lia. replace (snd a + k - (fst a + k) + 1) with (snd a - fst a + 1) by lia.
  reflexivity. Qed.
Theorem jaccard_shift k A B : jaccard (shl k A) (shl k B) = jaccard A B.
Proof. unfold jaccard. rewrite !shl_length, jac_f_shift. reflexivity. Qed.

Lemma inter_f_shift k : forall n A B, inter_f n (shl k A) (shl k B) = inter_f n A B.
Proof. induction n as [|n IH]; intros A B; [reflexivity|]. destruct A as [|a A']; [reflexivity|]. destruct B as [|b B']; [reflexivity|].
  cbn [shl map inter_f]. fold (shl k A'). fold (shl k B'). rewrite py_overlaps_shift, py_left_of_shift.
  change (sh k a :: shl k A') with (shl k (a :: A')). change (sh k b :: shl k B') with (shl k (b :: B')). rewrite !IH.
  unfold sh. cbn [fst snd]. replace (snd b + k <? snd a + k) with (snd b <? snd a) by lia.
  replace (Z.min (snd a + k) (snd b + k) - Z.max (fst a + k) (fst b + k) + 1) with (Z.min (snd a) (snd b) - Z.max (fst a) (fst b) + 1) by lia.
  reflexivity. Qed.
Theorem coverage_fraction_shift k R I : coverage_fraction (shl k R) (shl k I) = coverage_fraction R I.
Proof. unfold coverage_fraction. rewrite total_shift, !shl_length, inter_f_shift. reflexivity. Qed.

Theorem extra_exon_pair_shift k reg ex : extra_exon_pair (sh k reg) (shl k ex) = extra_exon_pair reg ex.
Proof. unfold extra_exon_pair.
  assert (F1: forall l acc, fold_left (fun acc e => acc + (if fst e <? fst (sh k reg) then Z.min (snd e) (fst (sh k reg) - 1) - fst e + 1 else 0)
                                             + (if snd e >? snd (sh k reg) then snd e - Z.max (fst e) (snd (sh k reg) + 1) + 1 else 0)) (shl k l) acc =
                            fold_left (fun acc e => acc + (if fst e <? fst reg then Z.min (snd e) (fst reg - 1) - fst e + 1 else 0)
                                             + (if snd e >? snd reg then snd e - Z.max (fst e) (snd reg + 1) + 1 else 0)) l acc).
  { induction l as [|e t IH]; intros acc; [reflexivity|]. cbn [shl map fold_left]. fold (shl k t). rewrite IH. f_equal. unfold sh. cbn [fst snd].
    destruct (fst e <? fst reg) eqn:E1, (fst e + k <? fst reg + k) eqn:E2; try lia;
    destruct (snd e >? snd reg) eqn:E3, (snd e + k >? snd reg + k) eqn:E4; lia. }
  assert (F2: forall l acc, fold_left (fun acc e => acc + (snd e - fst e + 1)) (shl k l) acc = fold_left (fun acc e => acc + (snd e - fst e + 1)) l acc).
  { induction l as [|e t IH]; intros acc; [reflexivity|]. cbn [shl map fold_left]. fold (shl k t). rewrite IH. f_equal. unfold sh. cbn [fst snd]. lia. }
  rewrite F1, F2. reflexivity. Qed.

(* merge_ranges: the union moves with the inputs *)
Lemma upd_last_shift k acc e : upd_last (shl k acc) (e + k) = shl k (upd_last acc e).
Proof. destruct acc as [|a r]; [reflexivity|]. cbn [shl map upd_last]. unfold sh. cbn [fst snd]. f_equal. f_equal. lia. Qed.
Lemma mr_f_shift k : forall n A B i1 i2 acc, mr_f n (shl k A) (shl k B) i1 i2 (shl k acc) = option_map (shl k) (mr_f n A B i1 i2 acc).
Proof. induction n as [|n IH]; intros A B i1 i2 acc; [reflexivity|].
  destruct A as [|a A'].
  { cbn [shl map mr_f option_map]. unfold shl. f_equal. rewrite map_app, map_rev. f_equal. destruct i2; [rewrite tl_map|]; reflexivity. }
  destruct B as [|b B'].
  { cbn [shl map mr_f option_map]. unfold shl. f_equal. rewrite map_app, map_rev. f_equal. destruct i1; reflexivity. }
  cbn [shl map mr_f]. fold (shl k A'). fold (shl k B'). fold (shl k acc). rewrite py_overlaps_shift, py_left_of_shift.
  change (sh k a :: shl k A') with (shl k (a :: A')). change (sh k b :: shl k B') with (shl k (b :: B')).
  destruct (py_overlaps a b).
  - destruct (i1 && i2); [reflexivity|].
    assert (Hacc: (if negb i1 && negb i2 then (Z.min (fst (sh k a)) (fst (sh k b)), Z.max (snd (sh k a)) (snd (sh k b))) :: shl k acc
                   else if i2 then upd_last (shl k acc) (snd (sh k a)) else upd_last (shl k acc) (snd (sh k b))) =
                  shl k (if negb i1 && negb i2 then (Z.min (fst a) (fst b), Z.max (snd a) (snd b)) :: acc else if i2 then upd_last acc (snd a) else upd_last acc (snd b))).
    { destruct (negb i1 && negb i2); [cbn [shl map]; unfold sh; cbn [fst snd]; f_equal; f_equal; lia|].
      destruct i2; unfold sh at 1; cbn [fst snd]; apply upd_last_shift. }
    rewrite Hacc. unfold sh at 1 2. cbn [snd]. replace (snd b + k <? snd a + k) with (snd b <? snd a) by lia.
    destruct (snd b <? snd a); apply IH.
  - destruct (py_left_of b a).
    + replace (if i2 then shl k acc else sh k b :: shl k acc) with (shl k (if i2 then acc else b :: acc)) by (destruct i2; reflexivity). apply IH.
    + replace (if i1 then shl k acc else sh k a :: shl k acc) with (shl k (if i1 then acc else a :: acc)) by (destruct i1; reflexivity). apply IH. Qed.
Theorem merge_ranges_shift k A B : merge_ranges (shl k A) (shl k B) = match merge_ranges A B with Ok l => Ok (shl k l) | Raises e => Raises e end.
Proof. unfold merge_ranges. rewrite !shl_length. change (@nil iv) with (shl k []) at 1. rewrite mr_f_shift.
  destruct (mr_f (Datatypes.S (length A + length B)) A B false false []) as [[|x l]|]; reflexivity. Qed.

(* junctions_from_blocks / get_exons *)
Theorem jfb_shift k l : jfb (shl k l) = shl k (jfb l).
Proof. induction l as [|a t IH]; [reflexivity|]. destruct t as [|b t']; [reflexivity|].
  change (shl k (a :: b :: t')) with (sh k a :: sh k b :: shl k t'). rewrite !jfb_cons2. change (sh k b :: shl k t') with (shl k (b :: t')).
  rewrite IH, shl_app. f_equal. unfold sh. cbn [fst snd]. replace (snd a + k + 1 <? fst b + k) with (snd a + 1 <? fst b) by lia.
  destruct (snd a + 1 <? fst b); [|reflexivity]. cbn [shl map]. unfold sh. cbn [fst snd]. f_equal. f_equal; lia. Qed.
Theorem get_exons_shift k r introns : get_exons (sh k r) (shl k introns) = shl k (get_exons r introns).
Proof. unfold get_exons. rewrite <- jfb_shift. f_equal. change (shl k ((fst r - 1, fst r - 1) :: introns ++ [(snd r + 1, snd r + 1)])) with
    (sh k (fst r - 1, fst r - 1) :: shl k (introns ++ [(snd r + 1, snd r + 1)])). rewrite shl_app. cbn [shl map]. unfold sh. cbn [fst snd].
  f_equal; [f_equal; lia|]. f_equal. f_equal. f_equal; lia. Qed.

(* binary searches: indices do not move *)
Lemma pyidx_shift k l i : pyidx (shl k l) i = option_map (sh k) (pyidx l i).
Proof. unfold pyidx. rewrite shl_length. destruct ((0 <=? i) && (i <? Z.of_nat (length l))); [apply nth_error_map'|].
  destruct ((i <? 0) && (- Z.of_nat (length l) <=? i)); [apply nth_error_map'|reflexivity]. Qed.
Lemma bs_loop_shift k l pos : forall fuel ind step, bs_loop fuel (shl k l) (pos + k) ind step = bs_loop fuel l pos ind step.
Proof. induction fuel as [|f IH]; intros ind step; [reflexivity|]. cbn [bs_loop]. rewrite !pyidx_shift.
  destruct (pyidx l ind) as [a|]; [|reflexivity]. destruct (pyidx l (ind + 1)) as [b|]; [|reflexivity]. cbn [option_map]. unfold sh. cbn [fst snd].
  replace ((fst a + k <=? pos + k) && (pos + k <? fst b + k)) with ((fst a <=? pos) && (pos <? fst b)) by lia.
  destruct ((fst a <=? pos) && (pos <? fst b)); [reflexivity|]. replace (pos + k <? fst a + k) with (pos <? fst a) by lia.
  destruct (pos <? fst a); apply IH. Qed.
Theorem bin_search_shift k l pos : bin_search (shl k l) (pos + k) = bin_search l pos.
Proof. destruct l as [|a t]; [reflexivity|]. unfold bin_search. cbn [shl map]. change (sh k a :: map (sh k) t) with (shl k (a :: t)).
  rewrite last_shl, shl_length, bs_loop_shift. unfold sh. cbn [fst snd].
  replace ((pos + k >? snd (last (a :: t) a) + k) || (pos + k <? fst a + k)) with ((pos >? snd (last (a :: t) a)) || (pos <? fst a)) by lia.
  replace (pos + k >=? fst (last (a :: t) a) + k) with (pos >=? fst (last (a :: t) a)) by lia. reflexivity. Qed.
Lemma bsr_loop_shift k l pos : forall fuel ind step, bsr_loop fuel (shl k l) (pos + k) ind step = bsr_loop fuel l pos ind step.
Proof. induction fuel as [|f IH]; intros ind step; [reflexivity|]. cbn [bsr_loop]. rewrite !pyidx_shift.
  destruct (pyidx l (ind - 1)) as [a|]; [|reflexivity]. destruct (pyidx l ind) as [b|]; [|reflexivity]. cbn [option_map]. unfold sh. cbn [fst snd].
  replace ((snd a + k <? pos + k) && (pos + k <=? snd b + k)) with ((snd a <? pos) && (pos <=? snd b)) by lia.
  destruct ((snd a <? pos) && (pos <=? snd b)); [reflexivity|]. replace (pos + k >? snd b + k) with (pos >? snd b) by lia.
  destruct (pos >? snd b); apply IH. Qed.
Theorem bin_search_rev_shift k l pos : bin_search_rev (shl k l) (pos + k) = bin_search_rev l pos.
Proof. destruct l as [|a t]; [reflexivity|]. unfold bin_search_rev. cbn [shl map]. change (sh k a :: map (sh k) t) with (shl k (a :: t)).
  rewrite last_shl, shl_length, bsr_loop_shift. unfold sh. cbn [fst snd].
  replace ((pos + k >? snd (last (a :: t) a) + k) || (pos + k <? fst a + k)) with ((pos >? snd (last (a :: t) a)) || (pos <? fst a)) by lia.
  replace (pos + k <=? snd a + k) with (pos <=? snd a) by lia. reflexivity. Qed.
End IntervalsShift.

(* ================================================================ shift: profile constructors (src/long_read_profiles.py, gene_info.set_profiles) *)
Module ProfilesShift.
Import Intervals IntervalsSpec IntervalsProofs IntervalsShift.
Section S.
Variables (cmp absent : iv -> iv -> bool) (k delta : Z).
Hypothesis cmp_sh : forall r x, cmp (sh k r) (sh k x) = cmp r x.
Hypothesis abs_sh : forall r x, absent (sh k r) (sh k x) = absent r x.

Lemma ovs_shift : forall fuel mapped K kv gpos R rv rpos gacc racc m,
  ovs cmp absent fuel (sh k mapped) (shl k K) kv gpos (shl k R) rv rpos gacc racc m = ovs cmp absent fuel mapped K kv gpos R rv rpos gacc racc m.
Proof. induction fuel as [|f IH]; intros; [reflexivity|].
  destruct K as [|k0 K']; [reflexivity|]. destruct kv as [|kvh kv']; [reflexivity|]. destruct R as [|r R']; [reflexivity|]. destruct rv as [|rvh rv']; [reflexivity|].
  change (shl k (k0 :: K')) with (sh k k0 :: shl k K'). change (shl k (r :: R')) with (sh k r :: shl k R'). cbn [ovs].
  change (sh k k0 :: shl k K') with (shl k (k0 :: K')). change (sh k r :: shl k R') with (shl k (r :: R')).
  rewrite cmp_sh, abs_sh, !IH. unfold sh; cbn [fst snd].
  replace (snd r + k <? fst k0 + k) with (snd r <? fst k0) by lia. replace (snd k0 + k <? fst r + k) with (snd k0 <? fst r) by lia. reflexivity. Qed.

Lemma mark_polya_shift K gp polya polyt : (polya <> -1 -> polya + k <> -1) -> (polyt <> -1 -> polyt + k <> -1) ->
  mark_polya delta (shl k K) gp (shp k polya) (shp k polyt) = mark_polya delta K gp polya polyt.
Proof. intros Ha Ht. unfold mark_polya. revert gp. induction K as [|x K' IH]; intros gp; [reflexivity|]. destruct gp as [|g gp']; [reflexivity|].
  cbn [shl map combine]. fold (shl k K'). f_equal; [|apply IH]. unfold shp, sh. cbn [fst snd].
  destruct (Z.eqb_spec polya (-1)) as [->|Na]; destruct (Z.eqb_spec polyt (-1)) as [->|Nt]; cbn [negb andb Z.eqb];
    try (specialize (Ha Na)); try (specialize (Ht Nt));
    repeat match goal with |- context [?a =? -1] => destruct (Z.eqb_spec a (-1)); try lia end; cbn [negb andb];
    repeat match goal with |- context [?a >? ?b] => destruct (Z.gtb_spec a b) end;
    repeat match goal with |- context [?a <? ?b] => destruct (Z.ltb_spec a b) end; try lia; reflexivity. Qed.

Lemma nos_shift : forall fuel K kv gpos R rv rpos gacc racc,
  nos cmp fuel (shl k K) kv gpos (shl k R) rv rpos gacc racc = nos cmp fuel K kv gpos R rv rpos gacc racc.
Proof. induction fuel as [|f IH]; intros; [reflexivity|].
  destruct K as [|k0 K']; [reflexivity|]. destruct kv as [|kvh kv']; [reflexivity|]. destruct R as [|r R']; [reflexivity|]. destruct rv as [|rvh rv']; [reflexivity|].
  change (shl k (k0 :: K')) with (sh k k0 :: shl k K'). change (shl k (r :: R')) with (sh k r :: shl k R'). cbn [nos].
  change (sh k k0 :: shl k K') with (shl k (k0 :: K')). change (sh k r :: shl k R') with (shl k (r :: R')).
  rewrite cmp_sh, !IH. unfold sh; cbn [fst snd].
  replace (snd r + k <? fst k0 + k) with (snd r <? fst k0) by lia. replace (snd k0 + k <? fst r + k) with (snd k0 <? fst r) by lia.
  replace (snd r + k <? snd k0 + k) with (snd r <? snd k0) by lia. reflexivity. Qed.

Theorem nonoverlapping_profile_shift K R polya polyt : (polya <> -1 -> polya + k <> -1) -> (polyt <> -1 -> polyt + k <> -1) ->
  nonoverlapping_profile cmp delta (shl k K) (shl k R) (shp k polya) (shp k polyt) = nonoverlapping_profile cmp delta K R polya polyt.
Proof. intros Ha Ht. unfold nonoverlapping_profile. rewrite !shl_length.
  assert (Z1: forall l, map (fun _ : iv => 0) (shl k l) = map (fun _ => 0) l) by (intros; unfold shl; rewrite map_map; reflexivity).
  rewrite !Z1, nos_shift. destruct (nos cmp _ K _ 0 R _ 0 [] []) as [[gp rp]|]; [|reflexivity].
  unfold shp.
  destruct (Z.eqb_spec polya (-1)) as [->|Na].
  - cbn [Z.eqb]. destruct (Z.eqb_spec polyt (-1)) as [->|Nt]; [reflexivity|].
    destruct (Z.eqb_spec (polyt + k) (-1)); [specialize (Ht Nt); lia|].
    replace (polyt + k - delta) with (polyt - delta + k) by lia. rewrite bin_search_rev_shift. reflexivity.
  - destruct (Z.eqb_spec (polya + k) (-1)); [specialize (Ha Na); lia|].
    replace (polya + k + delta) with (polya + delta + k) by lia. rewrite bin_search_shift.
    destruct (bin_search K (polya + delta)) as [[idx|]|e]; try reflexivity.
    destruct (Z.eqb_spec polyt (-1)) as [->|Nt]; [reflexivity|].
    destruct (Z.eqb_spec (polyt + k) (-1)); [specialize (Ht Nt); lia|].
    replace (polyt + k - delta) with (polyt - delta + k) by lia. rewrite bin_search_rev_shift. reflexivity. Qed.

(* FeatureProfiles.set_profiles *)
Lemma sp_mark_shift f : forall K init acc, sp_mark cmp (sh k f) (shl k K) init acc =
  let '(a, K', i) := sp_mark cmp f K init acc in (a, shl k K', i).
Proof. induction K as [|x K' IH]; intros init acc; [reflexivity|]. destruct init as [|v init']; [reflexivity|].
  cbn [shl map sp_mark]. fold (shl k K'). rewrite cmp_sh. destruct (cmp f x); [apply IH|reflexivity]. Qed.
Lemma sp_skip_shift f : forall K init acc, sp_skip cmp (sh k f) (shl k K) init acc =
  let '(a, K', i) := sp_skip cmp f K init acc in (a, shl k K', i).
Proof. induction K as [|x K' IH]; intros init acc; [reflexivity|]. destruct init as [|v init']; [reflexivity|].
  cbn [shl map sp_skip]. fold (shl k K'). rewrite cmp_sh. destruct (cmp f x); [|apply IH].
  change (sh k x :: shl k K') with (shl k (x :: K')). apply sp_mark_shift. Qed.
Lemma sp_feats_shift : forall F K init acc, sp_feats cmp (shl k F) (shl k K) init acc = sp_feats cmp F K init acc.
Proof. induction F as [|f F' IH]; intros K init acc; [reflexivity|]. cbn [shl map sp_feats]. fold (shl k F'). rewrite sp_skip_shift.
  destruct (sp_skip cmp f K init acc) as [[a K'] i]. apply IH. Qed.
Theorem isoform_profile_shift K F region : isoform_profile cmp (shl k K) (shl k F) (sh k region) = isoform_profile cmp K F region.
Proof. unfold isoform_profile. unfold shl at 3. rewrite map_map. rewrite sp_feats_shift. f_equal. apply map_ext. intros x. rewrite py_overlaps_shift. reflexivity. Qed.
End S.
End ProfilesShift.

(* ================================================================ shift: CIGAR blocks, polyA/polyT exon counting and position shifting, tail finder *)
Module AlignShift.
Import Cigar Cigar2 PolyA PolyA2.
Definition shb (k:Z) (b:iv*iv) : iv*iv := (sh k (fst b), snd b).       (* reference block moves, read block stays *)

Lemma blocks_of_shift k : forall rs f r, blocks_of (f + k) r rs = map (shb k) (blocks_of f r rs).
Proof. induction rs as [|[run sep] t IH]; intros f r; [reflexivity|]. cbn [blocks_of]. rewrite map_app.
  replace (f + k + sumf reflen run + match sep with Some c => reflen c | None => 0 end)
     with (f + sumf reflen run + match sep with Some c => reflen c | None => 0 end + k) by lia. rewrite IH. f_equal.
  destruct (has_match run); [|reflexivity]. cbn [map]. unfold shb, sh. cbn [fst snd]. f_equal. f_equal. f_equal; lia. Qed.
(* get_read_blocks(ref_start + k, cigar): exons move by k, read coordinates do not *)
Theorem get_read_blocks_shift k ref_start ops : get_read_blocks (ref_start + k) ops = map (shb k) (get_read_blocks ref_start ops).
Proof. rewrite !blocks_are_sam_blocks. unfold sam_blocks. replace (ref_start + k + 1) with (ref_start + 1 + k) by lia. apply blocks_of_shift. Qed.

Section F.
Variable mf : Z.
Lemma cpa_rev_shift k pos l : cpa_rev mf (pos + k) (shl k l) = cpa_rev mf pos l.
Proof. induction l as [|e t IH]; [reflexivity|]. cbn [shl map cpa_rev]. fold (shl k t). rewrite IH. unfold is_polya_exon, sh. cbn [fst snd]. cbv zeta.
  replace (snd e + k <=? pos + k) with (snd e <=? pos) by lia. replace (pos + k - (fst e + k)) with (pos - fst e) by lia.
  replace (snd e + k - (pos + k)) with (snd e - pos) by lia. reflexivity. Qed.
Lemma cpt_shift k pos l : cpt mf (pos + k) (shl k l) = cpt mf pos l.
Proof. induction l as [|e t IH]; [reflexivity|]. cbn [shl map cpt]. fold (shl k t). rewrite IH. unfold is_polyt_exon, sh. cbn [fst snd]. cbv zeta.
  replace (fst e + k >=? pos + k) with (fst e >=? pos) by lia. replace (snd e + k - (pos + k)) with (snd e - pos) by lia.
  replace (pos + k - (fst e + k)) with (pos - fst e) by lia. reflexivity. Qed.
Theorem count_polya_exons_shift k ex pos : (pos <> -1 -> pos + k <> -1) -> count_polya_exons mf (shl k ex) (shp k pos) = count_polya_exons mf ex pos.
Proof. intros H. unfold count_polya_exons, shp. destruct (Z.eqb_spec pos (-1)) as [->|N]; [reflexivity|].
  destruct (Z.eqb_spec (pos + k) (-1)); [specialize (H N); lia|]. unfold shl. rewrite <- map_rev. fold (shl k (rev ex)). rewrite cpa_rev_shift. reflexivity. Qed.
Theorem count_polyt_exons_shift k ex pos : (pos <> -1 -> pos + k <> -1) -> count_polyt_exons mf (shl k ex) (shp k pos) = count_polyt_exons mf ex pos.
Proof. intros H. unfold count_polyt_exons, shp. destruct (Z.eqb_spec pos (-1)) as [->|N]; [reflexivity|].
  destruct (Z.eqb_spec (pos + k) (-1)); [specialize (H N); lia|]. rewrite cpt_shift. reflexivity. Qed.
Theorem correct_read_info_shift k ex pa pt : (pa <> -1 -> pa + k <> -1) -> (pt <> -1 -> pt + k <> -1) ->
  correct_read_info2 mf (shl k ex) (shp k pa) (shp k pt) = correct_read_info2 mf ex pa pt.
Proof. intros Ha Ht. unfold correct_read_info2. destruct ex as [|e1 [|e2 r]]; [reflexivity|reflexivity|].
  change (shl k (e1 :: e2 :: r)) with (sh k e1 :: sh k e2 :: shl k r). cbv iota beta.
  change (sh k e1 :: sh k e2 :: shl k r) with (shl k (e1 :: e2 :: r)).
  rewrite shl_length, count_polya_exons_shift, count_polyt_exons_shift by assumption. reflexivity. Qed.
End F.

Lemma fold_dist_a_shift k pos : forall l d, fold_left (dist_step_a (pos + k)) (shl k l) d = fold_left (dist_step_a pos) l d.
Proof. induction l as [|e t IH]; intros d; [reflexivity|]. cbn [shl map fold_left]. fold (shl k t). rewrite IH. f_equal.
  unfold dist_step_a, ilen, sh. cbn [fst snd]. replace (fst e + k >? pos + k) with (fst e >? pos) by lia.
  replace (pos + k - (fst e + k)) with (pos - fst e) by lia. replace (snd e + k - (fst e + k) + 1) with (snd e - fst e + 1) by lia. reflexivity. Qed.
Lemma fold_dist_t_shift k pos : forall l d, fold_left (dist_step_t (pos + k)) (shl k l) d = fold_left (dist_step_t pos) l d.
Proof. induction l as [|e t IH]; intros d; [reflexivity|]. cbn [shl map fold_left]. fold (shl k t). rewrite IH. f_equal.
  unfold dist_step_t, ilen, sh. cbn [fst snd]. replace (snd e + k <? pos + k) with (snd e <? pos) by lia.
  replace (snd e + k - (pos + k)) with (snd e - pos) by lia. replace (snd e + k - (fst e + k) + 1) with (snd e - fst e + 1) by lia. reflexivity. Qed.
Lemma nth_shl k l n : (n < length l)%nat -> nth n (shl k l) (0, 0) = sh k (nth n l (0, 0)).
Proof. intros H. unfold shl. rewrite (nth_indep _ (0, 0) (sh k (0, 0))) by (rewrite map_length; exact H). apply map_nth. Qed.
(* shift_polya / shift_polyt: the recomputed position moves by k (or stays the sentinel / the unchanged input) *)
Theorem shift_polya_shift k ex c pos : 0 <= c <= Z.of_nat (length ex) -> (pos <> -1 -> pos + k <> -1) ->
  shift_polya (shl k ex) c (shp k pos) = if (c =? 0) || (c =? Z.of_nat (length ex)) || (pos =? -1) then shp k pos else shift_polya ex c pos + k.
Proof. intros Hc Hp. destruct (Z.eqb_spec pos (-1)) as [->|N].
  - unfold shift_polya, shp. cbn [Z.eqb]. rewrite !orb_true_r. reflexivity.
  - assert (E1: shp k pos = pos + k) by (unfold shp; destruct (Z.eqb_spec pos (-1)); lia). rewrite E1. specialize (Hp N).
    unfold shift_polya. rewrite shl_length. replace (pos + k =? -1) with false by lia. rewrite !orb_false_r.
    destruct ((c =? 0) || (c =? Z.of_nat (length ex))) eqn:E; [reflexivity|].
    apply orb_false_elim in E. destruct E as [E2 E3].
    assert (Hn: (length ex - Z.to_nat c - 1 < length ex)%nat) by lia.
    rewrite skipn_shl, rev_shl, fold_dist_a_shift, (nth_shl k ex _ Hn). unfold sh. cbn [snd]. replace (pos =? -1) with false by lia. cbn [orb]. lia. Qed.
Theorem shift_polyt_shift k ex c pos : 0 <= c <= Z.of_nat (length ex) -> (pos <> -1 -> pos + k <> -1) ->
  shift_polyt (shl k ex) c (shp k pos) = if (c =? 0) || (c =? Z.of_nat (length ex)) || (pos =? -1) then shp k pos else shift_polyt ex c pos + k.
Proof. intros Hc Hp. destruct (Z.eqb_spec pos (-1)) as [->|N].
  - unfold shift_polyt, shp. cbn [Z.eqb]. rewrite !orb_true_r. reflexivity.
  - assert (E1: shp k pos = pos + k) by (unfold shp; destruct (Z.eqb_spec pos (-1)); lia). rewrite E1. specialize (Hp N).
    unfold shift_polyt. rewrite shl_length. replace (pos + k =? -1) with false by lia. rewrite !orb_false_r.
    destruct ((c =? 0) || (c =? Z.of_nat (length ex))) eqn:E; [reflexivity|].
    apply orb_false_elim in E. destruct E as [E2 E3].
    assert (Hn: (Z.to_nat c < length ex)%nat) by lia.
    rewrite firstn_shl, fold_dist_t_shift, (nth_shl k ex _ Hn). unfold sh. cbn [fst]. replace (pos =? -1) with false by lia. cbn [orb]. lia. Qed.

(* PolyAFinder: the detected position moves with the alignment; "not found" stays "not found".
   find_polyt_head clamps its result with max(1, .): equivariance holds for results above the clamp only *)
Section Finder.
Variables w need fnum fden : Z.
Theorem find_polya_tail_shift k seq ops rs fr to en :
  let r := find_polya_tail w need fnum fden seq ops rs fr to en in
  let r' := find_polya_tail w need fnum fden seq ops (rs + k) fr to en in
  r' = r \/ exists p, r = Ok p /\ r' = Ok (p + k).
Proof. cbv zeta. unfold find_polya_tail. cbv zeta.
  destruct (Z.of_nat (length seq) =? 0); [left; reflexivity|]. destruct (negb (tail_clip ops <? Z.of_nat (length seq))); [left; reflexivity|].
  match goal with |- context [if ?c =? -1 then _ else _] => generalize c; intros pos1; destruct (pos1 =? -1) end; [left; reflexivity|].
  match goal with |- context [if ?c >=? ?d then _ else _] => destruct (c >=? d) end; right; eexists; (split; [reflexivity|]); f_equal; ring. Qed.
Theorem find_polyt_head_shift_partial k seq ops rs fr to en : 0 <= k ->
  let r := find_polyt_head w need fnum fden seq ops rs fr to en in
  let r' := find_polyt_head w need fnum fden seq ops (rs + k) fr to en in
  r' = r \/ exists p, r = Ok p /\ (1 < p -> r' = Ok (p + k)).
Proof. intros Hk. cbv zeta. unfold find_polyt_head. cbv zeta.
  destruct (Z.of_nat (length seq) =? 0); [left; reflexivity|]. destruct (negb (head_clip ops <? Z.of_nat (length seq))); [left; reflexivity|].
  match goal with |- context [if ?c =? -1 then _ else _] => generalize c; intros pos1; destruct (pos1 =? -1) end; [left; reflexivity|].
  match goal with |- context [if ?c <=? ?d then _ else _] => destruct (c <=? d) end; right; eexists; (split; [reflexivity|]); intros H; f_equal;
    repeat match goal with |- context [move_ref_coord ?a ?b] => generalize dependent (move_ref_coord a b); intros end; lia. Qed.
End Finder.
(* ... and fails on the clamp: a T head hanging over the start of the chromosome is reported at position 1 wherever the chromosome starts *)
Example find_polyt_head_shift_refuted :
  let seq := repeat 3 20 ++ repeat 1 30 in         (* 20 T (soft-clipped) then 30 C aligned at the first base of the chromosome *)
  find_polyt_head 16 12 3 4 seq [(S, 20); (M, 30)] 0 2 32 false = Ok 1 /\
  find_polyt_head 16 12 3 4 seq [(S, 20); (M, 30)] (0 + 10) 2 32 false = Ok 9 /\ 9 <> 1 + 10.
Proof. vm_compute. repeat split; try reflexivity. discriminate. Qed.
End AlignShift.

(* ================================================================ reflection: interval lists *)
Module IntervalsMirror.
Import Intervals IntervalsSpec IntervalsProofs.

Lemma total_app l1 l2 : total (l1 ++ l2) = total l1 + total l2.
Proof. induction l1 as [|a t IH]; [reflexivity|]. cbn [app total]. rewrite IH. lia. Qed.
Lemma total_rev l : total (rev l) = total l.
Proof. induction l as [|a t IH]; [reflexivity|]. cbn [rev]. rewrite total_app, IH. cbn [total]. lia. Qed.
Theorem total_mirror L l : total (rfl L l) = total l.
Proof. unfold rfl. rewrite total_rev. induction l as [|a t IH]; [reflexivity|]. cbn [map total]. rewrite IH, py_interval_len_mirror. reflexivity. Qed.

(* MIRROR PAIR sum_intervals_to_point / sum_intervals_from_point *)
Lemma sifp_sitp L l pos : sifp_loop (map (rf L) l) (L + 1 - pos) = sitp_loop l pos.
Proof. induction l as [|a t IH]; [reflexivity|]. cbn [map sifp_loop sitp_loop]. rewrite IH. unfold rf. cbn [fst snd].
  destruct (fst a <? pos) eqn:E1, (L + 1 - fst a >? L + 1 - pos) eqn:E2; try lia.
  destruct ((fst a <=? pos) && (pos <=? snd a)) eqn:E3, ((L + 1 - snd a <=? L + 1 - pos) && (L + 1 - pos <=? L + 1 - fst a)) eqn:E4; lia. Qed.
Lemma sitp_sifp L l pos : sitp_loop (map (rf L) l) (L + 1 - pos) = sifp_loop l pos.
Proof. induction l as [|a t IH]; [reflexivity|]. cbn [map sifp_loop sitp_loop]. rewrite IH. unfold rf. cbn [fst snd].
  destruct (snd a >? pos) eqn:E1, (L + 1 - snd a <? L + 1 - pos) eqn:E2; try lia.
  destruct ((fst a <=? pos) && (pos <=? snd a)) eqn:E3, ((L + 1 - snd a <=? L + 1 - pos) && (L + 1 - pos <=? L + 1 - fst a)) eqn:E4; lia. Qed.
Lemma rfl_first_last L a t : exists b t', rfl L (a :: t) = b :: t' /\ b = rf L (last (a :: t) a) /\ last (b :: t') b = rf L a.
Proof. unfold rfl. cbn [map rev]. destruct (rev (map (rf L) t)) as [|b t'] eqn:E.
  - exists (rf L a), []. cbn. assert (t = []) as -> by (destruct t; [reflexivity|]; apply (f_equal (@length iv)) in E; rewrite rev_length, map_length in E; discriminate). auto.
  - exists b, (t' ++ [rf L a]). split; [reflexivity|]. split.
    + assert (H: hd (rf L a) (rev (map (rf L) t)) = b) by (rewrite E; reflexivity). rewrite hd_rev_last in H. rewrite last_map in H.
      rewrite <- H. f_equal. destruct t; [discriminate E|]. reflexivity.
    + change (b :: t' ++ [rf L a]) with ((b :: t') ++ [rf L a]). apply last_last. Qed.
(* the first start is not right of the last end (true of every sorted list of well-formed intervals) *)
Definition hull_ok (l:list iv) : Prop := match l with [] => True | a :: _ => fst a <= snd (last l a) end.
Lemma sd_hull_ok l : sd l -> hull_ok l.
Proof. destruct l as [|a t]; [exact (fun _ => Logic.I)|]. intros H. unfold hull_ok. pose proof (sd_last_max t a H a (or_introl eq_refl)). cbn [sd] in H. lia. Qed.
Theorem sum_from_point_mirror L l pos : hull_ok l -> sum_from_point (rfl L l) (L + 1 - pos) = sum_to_point l pos.
Proof. destruct l as [|a t]; [reflexivity|]. intros Hh. unfold hull_ok in Hh. destruct (rfl_first_last L a t) as (b & t' & E & Eb & El).
  unfold sum_from_point, sum_to_point. rewrite E, El, <- E, total_mirror. unfold rfl at 1. rewrite rev_involutive, sifp_sitp. f_equal.
  subst b. unfold rf. cbn [fst snd].
  destruct (pos <=? fst a) eqn:E1.
  - replace (L + 1 - pos <? L + 1 - snd (last (a :: t) a)) with false by lia.
    destruct (L + 1 - pos >? L + 1 - fst a) eqn:E3; [reflexivity|]. cbn [sitp_loop]. replace (fst a <? pos) with false by lia. reflexivity.
  - destruct (pos >? snd (last (a :: t) a)) eqn:E2.
    + replace (L + 1 - pos <? L + 1 - snd (last (a :: t) a)) with true by lia. reflexivity.
    + replace (L + 1 - pos <? L + 1 - snd (last (a :: t) a)) with false by lia. replace (L + 1 - pos >? L + 1 - fst a) with false by lia. reflexivity. Qed.
Lemma hull_ok_mirror L l : hull_ok l -> hull_ok (rfl L l).
Proof. destruct l as [|a t]; [exact (fun H => H)|]. intros H. destruct (rfl_first_last L a t) as (b & t' & E & Eb & El). rewrite E. unfold hull_ok in *.
  rewrite El, Eb. unfold rf. cbn [fst snd]. lia. Qed.
Theorem sum_to_point_mirror L l pos : hull_ok l -> sum_to_point (rfl L l) (L + 1 - pos) = sum_from_point l pos.
Proof. intros H. rewrite <- (rfl_rfl L l) at 2. replace pos with (L + 1 - (L + 1 - pos)) at 2 by lia.
  rewrite sum_from_point_mirror by (apply hull_ok_mirror, H). reflexivity. Qed.

(* junctions_from_blocks / get_exons are their own mirror images *)
Lemma jfb_snoc : forall l a b, jfb (l ++ [a; b]) = jfb (l ++ [a]) ++ (if snd a + 1 <? fst b then [(snd a + 1, fst b - 1)] else []).
Proof. induction l as [|x t IH]; intros a b; [cbn; rewrite app_nil_r; reflexivity|].
  destruct t as [|y t']; [cbn [app]; rewrite !jfb_cons2; cbn [jfb]; rewrite !app_nil_r; reflexivity|].
  change ((x :: y :: t') ++ [a; b]) with (x :: y :: (t' ++ [a; b])). change ((x :: y :: t') ++ [a]) with (x :: y :: (t' ++ [a])).
  rewrite !jfb_cons2. change (y :: t' ++ [a; b]) with ((y :: t') ++ [a; b]). change (y :: t' ++ [a]) with ((y :: t') ++ [a]).
  rewrite IH, app_assoc. reflexivity. Qed.
Theorem jfb_mirror L l : jfb (rfl L l) = rfl L (jfb l).
Proof. induction l as [|a t IH]; [reflexivity|]. destruct t as [|b t']; [reflexivity|].
  rewrite jfb_cons2, rfl_app. rewrite <- IH. rewrite (rfl_cons L a), (rfl_cons L b), <- app_assoc. cbn [app]. rewrite jfb_snoc.
  rewrite <- rfl_cons. f_equal. unfold rf. cbn [fst snd]. replace (L + 1 - fst b + 1 <? L + 1 - snd a) with (snd a + 1 <? fst b) by lia.
  destruct (snd a + 1 <? fst b); [|reflexivity]. cbn. unfold rf. cbn [fst snd]. f_equal. f_equal; lia. Qed.
Theorem get_exons_mirror L r introns : get_exons (rf L r) (rfl L introns) = rfl L (get_exons r introns).
Proof. unfold get_exons. rewrite <- jfb_mirror. f_equal.
  rewrite rfl_cons, rfl_app. change (rfl L [(snd r + 1, snd r + 1)]) with [rf L (snd r + 1, snd r + 1)]. cbn [app]. unfold rf. cbn [fst snd].
  f_equal; [f_equal; lia|]. f_equal. f_equal. f_equal; lia. Qed.

(* sd (sorted, disjoint, well-formed) is preserved *)
Lemma sd_app_one : forall l a, sd l -> fst a <= snd a -> (forall x, In x l -> snd x < fst a) -> sd (l ++ [a]).
Proof. induction l as [|x t IH]; intros a Hs Ha Hlt; [cbn; auto|]. cbn [app]. cbn [sd] in Hs. destruct Hs as (Hx & Hn & Ht).
  cbn [sd]. split; [exact Hx|]. split.
  - destruct t as [|y t']; cbn [app]; [apply Hlt; left; reflexivity|exact Hn].
  - apply IH; [exact Ht|exact Ha|intros z Hz; apply Hlt; right; exact Hz]. Qed.
Lemma sd_all_after : forall l a, sd (a :: l) -> forall x, In x l -> snd a < fst x.
Proof. intros l a H x Hx. pose proof (sd_after a l H) as F. rewrite Forall_forall in F. apply F, Hx. Qed.
Theorem sd_mirror L : forall l, sd l -> sd (rfl L l).
Proof. induction l as [|a t IH]; intros H; [exact Logic.I|]. rewrite rfl_cons. apply sd_app_one.
  - apply IH. eapply sd_tail; exact H.
  - unfold rf. cbn [fst snd]. cbn [sd] in H. lia.
  - intros x Hx. unfold rfl in Hx. rewrite <- in_rev, in_map_iff in Hx. destruct Hx as (y & <- & Hy).
    pose proof (sd_all_after t a H y Hy). unfold rf. cbn [fst snd]. lia. Qed.

(* read_coverage_fraction / jaccard_similarity are their own mirror images (on sorted disjoint lists, via their specifications) *)
Lemma isect_mirror L a b : isect (rf L a) (rf L b) = isect a b.
Proof. unfold isect, rf. cbn [fst snd]. lia. Qed.
Lemma row_app a B1 B2 : row a (B1 ++ B2) = row a B1 + row a B2.
Proof. induction B1 as [|b t IH]; [reflexivity|]. cbn [app row]. rewrite IH. lia. Qed.
Lemma row_rev a B : row a (rev B) = row a B.
Proof. induction B as [|b t IH]; [reflexivity|]. cbn [rev]. rewrite row_app, IH. cbn [row]. lia. Qed.
Lemma row_mirror L a B : row (rf L a) (rfl L B) = row a B.
Proof. unfold rfl. rewrite row_rev. induction B as [|b t IH]; [reflexivity|]. cbn [map row]. rewrite IH, isect_mirror. reflexivity. Qed.
Lemma pairs_app A1 A2 B : pairs (A1 ++ A2) B = pairs A1 B + pairs A2 B.
Proof. induction A1 as [|a t IH]; [reflexivity|]. cbn [app pairs]. rewrite IH. lia. Qed.
Lemma pairs_mirror L A B : pairs (rfl L A) (rfl L B) = pairs A B.
Proof. induction A as [|a t IH]; [reflexivity|]. rewrite rfl_cons, pairs_app, IH. cbn [pairs]. rewrite row_mirror. lia. Qed.
Theorem coverage_fraction_mirror L R I : sd R -> sd I -> R <> [] -> coverage_fraction (rfl L R) (rfl L I) = coverage_fraction R I.
Proof. intros HR HI Hne. rewrite (coverage_fraction_spec R I HR HI Hne).
  rewrite (coverage_fraction_spec _ _ (sd_mirror L R HR) (sd_mirror L I HI)).
  - rewrite pairs_mirror, total_mirror. reflexivity.
  - intros E. apply (f_equal (@length iv)) in E. rewrite rfl_length in E. destruct R; [congruence|discriminate]. Qed.
Theorem jaccard_mirror L A B : sd A -> sd B -> (A <> [] \/ B <> []) -> jaccard (rfl L A) (rfl L B) = jaccard A B.
Proof. intros HA HB Hne. destruct (jaccard_spec A B HA HB Hne) as [E _]. rewrite E.
  assert (Hne': rfl L A <> [] \/ rfl L B <> []).
  { destruct Hne as [H|H]; [left|right]; intros E'; apply (f_equal (@length iv)) in E'; rewrite rfl_length in E'; [destruct A|destruct B]; congruence || discriminate. }
  destruct (jaccard_spec _ _ (sd_mirror L A HA) (sd_mirror L B HB) Hne') as [E2 _]. rewrite E2, pairs_mirror, !total_mirror. reflexivity. Qed.

(* MIRROR PAIR interval_bin_search / interval_bin_search_rev: on a sorted list of disjoint intervals the index found from the left
   for pos and the index found from the right for the mirrored position are mirror images (n-1-i); "outside" (-1) on both sides together *)
Lemma bsr_loop_hit : forall fuel l pos ind step i, bsr_loop fuel l pos ind step = Some i ->
  exists a b, pyidx l (i - 1) = Some a /\ pyidx l i = Some b /\ snd a < pos <= snd b.
Proof. induction fuel as [|f IH]; intros l pos ind step i H; [discriminate|]. cbn [bsr_loop] in H.
  destruct (pyidx l (ind - 1)) as [a|] eqn:Ea; [|discriminate]. destruct (pyidx l ind) as [b|] eqn:Eb; [|discriminate].
  destruct ((snd a <? pos) && (pos <=? snd b)) eqn:E.
  - inversion H; subst ind. exists a, b. repeat split; auto; lia.
  - destruct (pos >? snd b); eapply IH; eauto. Qed.
Lemma bs_loop_hit : forall fuel l pos ind step i, bs_loop fuel l pos ind step = Some i ->
  exists a b, pyidx l i = Some a /\ pyidx l (i + 1) = Some b /\ fst a <= pos < fst b.
Proof. induction fuel as [|f IH]; intros l pos ind step i H; [discriminate|]. cbn [bs_loop] in H.
  destruct (pyidx l ind) as [a|] eqn:Ea; [|discriminate]. destruct (pyidx l (ind + 1)) as [b|] eqn:Eb; [|discriminate].
  destruct ((fst a <=? pos) && (pos <? fst b)) eqn:E.
  - inversion H; subst ind. exists a, b. repeat split; auto; lia.
  - destruct (pos <? fst a); eapply IH; eauto. Qed.
Lemma nth_error_last {A} : forall (t:list A) x d, nth_error (x :: t) (length t) = Some (last (x :: t) d).
Proof. induction t as [|y t IH]; intros x d; [reflexivity|]. cbn [length nth_error]. rewrite (IH y d). reflexivity. Qed.
Lemma pyidx_m1 {A} (x:A) (t:list A) : pyidx (x :: t) (-1) = Some (last (x :: t) x).
Proof. unfold pyidx. replace ((0 <=? -1) && (-1 <? Z.of_nat (length (x :: t)))) with false by lia.
  replace ((-1 <? 0) && (- Z.of_nat (length (x :: t)) <=? -1)) with true by (cbn [length]; lia).
  replace (Z.to_nat (Z.of_nat (length (x :: t)) + -1)) with (length t) by (cbn [length]; lia). apply nth_error_last. Qed.
Lemma pyidx_0 {A} (x:A) (t:list A) : pyidx (x :: t) 0 = Some x.
Proof. unfold pyidx. replace ((0 <=? 0) && (0 <? Z.of_nat (length (x :: t)))) with true by (cbn [length]; lia). reflexivity. Qed.
Lemma sd_fst_mono : forall l, sd l -> forall p q, (p <= q < length l)%nat -> fst (nth p l (0, 0)) <= fst (nth q l (0, 0)).
Proof. induction l as [|a t IH]; intros Hs p q Hpq; [cbn in Hpq; lia|].
  destruct q as [|q]; [assert (p = 0%nat) as -> by lia; lia|]. destruct p as [|p].
  - cbn [nth]. pose proof (sd_after a t Hs) as F. rewrite Forall_forall in F. specialize (F (nth q t (0, 0)) ltac:(apply nth_In; cbn in Hpq; lia)).
    cbn [sd] in Hs. lia.
  - cbn [nth]. apply IH; [eapply sd_tail; exact Hs|cbn in Hpq; lia]. Qed.
Lemma sd_fst_strict : forall l, sd l -> forall p q, (p < q < length l)%nat -> fst (nth p l (0, 0)) < fst (nth q l (0, 0)).
Proof. induction l as [|a t IH]; intros Hs p q Hpq; [cbn in Hpq; lia|].
  destruct q as [|q]; [lia|]. destruct p as [|p].
  - cbn [nth]. pose proof (sd_after a t Hs) as F. rewrite Forall_forall in F. specialize (F (nth q t (0, 0)) ltac:(apply nth_In; cbn in Hpq; lia)).
    cbn [sd] in Hs. lia.
  - cbn [nth]. apply IH; [eapply sd_tail; exact Hs|cbn in Hpq; lia]. Qed.
Lemma nthz_rfl L l j : 0 <= j < Z.of_nat (length l) -> nthz (rfl L l) j (0, 0) = rf L (nthz l (Z.of_nat (length l) - 1 - j) (0, 0)).
Proof. intros H. unfold nthz. rewrite (nth_rfl0 L l (Z.to_nat j)) by lia. f_equal. f_equal. lia. Qed.

Theorem bin_search_mirror L l pos i j : sd l ->
  bin_search l pos = Ok (Some i) -> bin_search_rev (rfl L l) (L + 1 - pos) = Ok (Some j) -> 0 <= i -> 0 <= j ->
  j = Z.of_nat (length l) - 1 - i.
Proof. intros Hs Hi Hj Hi1 Hj0. destruct l as [|a t]; [discriminate Hi|].
  destruct (rfl_first_last L a t) as (b & t' & E & Eb & El).
  unfold bin_search in Hi. unfold bin_search_rev in Hj. rewrite E in Hj. rewrite El in Hj. rewrite <- E in Hj. rewrite rfl_length in Hj. subst b.
  set (z := last (a :: t) a) in *. set (n := Z.of_nat (length (a :: t))) in *.
  assert (Hn1: 1 <= n) by (unfold n; cbn [length]; lia).
  unfold rf in Hj at 1 2 3. cbn [fst snd] in Hj.
  replace ((L + 1 - pos >? L + 1 - fst a) || (L + 1 - pos <? L + 1 - snd z)) with ((pos >? snd z) || (pos <? fst a)) in Hj by lia.
  destruct ((pos >? snd z) || (pos <? fst a)) eqn:Eout.
  - assert (Hi': -1 = i) by congruence. lia.
  - replace (L + 1 - pos <=? L + 1 - fst z) with (pos >=? fst z) in Hj by lia.
    destruct (pos >=? fst z) eqn:Ez.
    + assert (Hi': n - 1 = i) by congruence. assert (Hj': 0 = j) by congruence. lia.
    + match type of Hi with Ok ?x = _ => assert (Hi': x = Some i) by congruence end. match type of Hj with Ok ?x = _ => assert (Hj': x = Some j) by congruence end. clear Hi Hj.
      destruct (bs_loop_sound _ _ _ _ _ _ Hi' Hi1) as [Hin Hip].
      destruct (bsr_loop_hit _ _ _ _ _ _ Hj') as (x & y & Ex & Ey & Hxy).
      (* j = 0 would need pos' <= snd (first interval of the mirrored list), excluded by Ez *)
      assert (Hj1: 1 <= j).
      { destruct (Z.eq_dec j 0) as [->|]; [|lia]. exfalso. rewrite E, pyidx_0 in Ey.
        assert (Hy: y = rf L z) by congruence. rewrite Hy in Hxy. unfold rf in Hxy. cbn [snd] in Hxy. unfold z in *. lia. }
      assert (Hjm: 0 <= j - 1) by lia.
      destruct (pyidx_nonneg (rfl L (a :: t)) (j - 1) x (0, 0) Hjm Ex) as [_ Hx]. destruct (pyidx_nonneg (rfl L (a :: t)) j y (0, 0) Hj0 Ey) as [Hjn Hy].
      rewrite rfl_length in Hjn. fold n in Hjn, Hin.
      rewrite nthz_rfl in Hx by (fold n; lia). rewrite nthz_rfl in Hy by (fold n; lia). fold n in Hx, Hy. subst x y. unfold rf in Hxy. cbn [snd] in Hxy.
      replace (n - 1 - (j - 1)) with (n - j) in Hxy by lia.
      (* fst l[n-1-j] <= pos < fst l[n-j]  and  fst l[i] <= pos < fst l[i+1]: the starts are increasing *)
      unfold nthz in *. destruct (Z.lt_trichotomy i (n - 1 - j)) as [Hlt|[Heq|Hgt]]; [|lia|].
      * exfalso. pose proof (sd_fst_mono (a :: t) Hs (Z.to_nat (i + 1)) (Z.to_nat (n - 1 - j)) ltac:(unfold n in *; lia)). lia.
      * exfalso. pose proof (sd_fst_mono (a :: t) Hs (Z.to_nat (n - j)) (Z.to_nat i) ltac:(unfold n in *; lia)). lia. Qed.
(* ... and "outside the list" is decided by the same test on both sides *)
Theorem bin_search_outside_mirror L l pos : l <> [] ->
  (bin_search l pos = Ok (Some (-1)) /\ bin_search_rev (rfl L l) (L + 1 - pos) = Ok (Some (-1))) \/
  (match l with a :: _ => fst a <= pos <= snd (last l a) | [] => False end).
Proof. destruct l as [|a t]; [congruence|]. intros _. destruct (rfl_first_last L a t) as (b & t' & E & Eb & El).
  unfold bin_search, bin_search_rev. rewrite E, El. subst b. unfold rf. cbn [fst snd].
  replace ((L + 1 - pos >? L + 1 - fst a) || (L + 1 - pos <? L + 1 - snd (last (a :: t) a))) with ((pos >? snd (last (a :: t) a)) || (pos <? fst a)) by lia.
  destruct ((pos >? snd (last (a :: t) a)) || (pos <? fst a)) eqn:Eo; [left; split; reflexivity|right; lia]. Qed.
End IntervalsMirror.

(* ================================================================ reflection: the polyA / polyT pairs of src/polya_verification.py *)
Module PolyAMirror.
Import PolyA PolyA2.
Section F.
Variable mf : Z.
Lemma is_polyt_rf L pos e : is_polyt_exon mf (L + 1 - pos) (rf L e) = is_polya_exon mf pos e.
Proof. unfold is_polyt_exon, is_polya_exon, rf. cbn [fst snd]. cbv zeta.
  replace (L + 1 - fst e - (L + 1 - pos)) with (pos - fst e) by lia. replace (L + 1 - pos - (L + 1 - snd e)) with (snd e - pos) by lia.
  destruct ((pos - fst e <=? 0) || (pos - fst e <=? mf) && (snd e - pos >? 2 * (pos - fst e))) eqn:E; lia. Qed.
Lemma is_polya_rf L pos e : is_polya_exon mf (L + 1 - pos) (rf L e) = is_polyt_exon mf pos e.
Proof. unfold is_polyt_exon, is_polya_exon, rf. cbn [fst snd]. cbv zeta.
  replace (L + 1 - pos - (L + 1 - snd e)) with (snd e - pos) by lia. replace (L + 1 - fst e - (L + 1 - pos)) with (pos - fst e) by lia.
  destruct ((snd e - pos <=? 0) || (snd e - pos <=? mf) && (2 * (snd e - pos) <? pos - fst e)) eqn:E; lia. Qed.
Lemma cpt_rf L pos l : cpt mf (L + 1 - pos) (map (rf L) l) = cpa_rev mf pos l.
Proof. induction l as [|e t IH]; [reflexivity|]. cbn [map cpt cpa_rev]. rewrite IH, is_polyt_rf. unfold rf at 1. cbn [fst].
  destruct (snd e <=? pos) eqn:E1, (L + 1 - snd e >=? L + 1 - pos) eqn:E2; try lia; reflexivity. Qed.
Lemma cpa_rf L pos l : cpa_rev mf (L + 1 - pos) (map (rf L) l) = cpt mf pos l.
Proof. induction l as [|e t IH]; [reflexivity|]. cbn [map cpt cpa_rev]. rewrite IH, is_polya_rf. unfold rf at 1. cbn [snd].
  destruct (fst e >=? pos) eqn:E1, (L + 1 - fst e <=? L + 1 - pos) eqn:E2; try lia; reflexivity. Qed.
(* MIRROR PAIR count_polyt_exons / count_polya_exons (code-faithful versions with the sentinel) *)
Theorem count_polyt_mirror L ex pos : (pos <> -1 -> L + 1 - pos <> -1) -> count_polyt_exons mf (rfl L ex) (rfp L pos) = count_polya_exons mf ex pos.
Proof. intros H. unfold count_polyt_exons, count_polya_exons, rfp. destruct (Z.eqb_spec pos (-1)) as [->|N]; [reflexivity|].
  destruct (Z.eqb_spec (L + 1 - pos) (-1)); [specialize (H N); lia|]. unfold rfl. rewrite <- map_rev, cpt_rf. reflexivity. Qed.
Theorem count_polya_mirror L ex pos : (pos <> -1 -> L + 1 - pos <> -1) -> count_polya_exons mf (rfl L ex) (rfp L pos) = count_polyt_exons mf ex pos.
Proof. intros H. unfold count_polyt_exons, count_polya_exons, rfp. destruct (Z.eqb_spec pos (-1)) as [->|N]; [reflexivity|].
  destruct (Z.eqb_spec (L + 1 - pos) (-1)); [specialize (H N); lia|]. unfold rfl. rewrite rev_involutive, cpa_rf. reflexivity. Qed.
(* PolyAFixer.correct_read_info: the two counts swap *)
Lemma cri_loop_swap : forall fuel n a t, cri_loop fuel n t a = let '(x, y) := cri_loop fuel n a t in (y, x).
Proof. induction fuel as [|f IH]; intros n a t; [reflexivity|]. cbn [cri_loop]. replace (a + t >=? n) with (t + a >=? n) by lia.
  destruct (t + a >=? n); [apply IH|reflexivity]. Qed.
Lemma correct_read_info2_unfold ex a t : correct_read_info2 mf ex a t =
  if (length ex <=? 1)%nat then (0, 0) else cri_loop (Datatypes.S (length ex)) (Z.of_nat (length ex)) (count_polya_exons mf ex a) (count_polyt_exons mf ex t).
Proof. destruct ex as [|e1 [|e2 r]]; reflexivity. Qed.
Theorem correct_read_info_mirror L ex pa pt : (pa <> -1 -> L + 1 - pa <> -1) -> (pt <> -1 -> L + 1 - pt <> -1) ->
  correct_read_info2 mf (rfl L ex) (rfp L pt) (rfp L pa) = let '(a, t) := correct_read_info2 mf ex pa pt in (t, a).
Proof. intros Ha Ht. rewrite !correct_read_info2_unfold, rfl_length. destruct (length ex <=? 1)%nat; [reflexivity|].
  rewrite count_polya_mirror, count_polyt_mirror by assumption. apply cri_loop_swap. Qed.
End F.

Lemma fold_dist_rf_t L pos : forall l d, fold_left (dist_step_t (L + 1 - pos)) (map (rf L) l) d = fold_left (dist_step_a pos) l d.
Proof. induction l as [|e t IH]; intros d; [reflexivity|]. cbn [map fold_left]. rewrite IH. f_equal.
  unfold dist_step_t, dist_step_a, ilen, rf. cbn [fst snd]. replace (L + 1 - fst e <? L + 1 - pos) with (fst e >? pos) by lia.
  replace (L + 1 - fst e - (L + 1 - pos)) with (pos - fst e) by lia. replace (L + 1 - fst e - (L + 1 - snd e) + 1) with (snd e - fst e + 1) by lia. reflexivity. Qed.
Lemma fold_dist_rf_a L pos : forall l d, fold_left (dist_step_a (L + 1 - pos)) (map (rf L) l) d = fold_left (dist_step_t pos) l d.
Proof. induction l as [|e t IH]; intros d; [reflexivity|]. cbn [map fold_left]. rewrite IH. f_equal.
  unfold dist_step_t, dist_step_a, ilen, rf. cbn [fst snd]. replace (L + 1 - snd e >? L + 1 - pos) with (snd e <? pos) by lia.
  replace (L + 1 - pos - (L + 1 - snd e)) with (snd e - pos) by lia. replace (L + 1 - fst e - (L + 1 - snd e) + 1) with (snd e - fst e + 1) by lia. reflexivity. Qed.
Lemma nth_rfl L l n : (n < length l)%nat -> nth n (rfl L l) (0, 0) = rf L (nth (length l - Datatypes.S n) l (0, 0)).
Proof. intros H. unfold rfl. rewrite rev_nth by (rewrite map_length; exact H). rewrite map_length.
  rewrite (nth_indep _ (0, 0) (rf L (0, 0))) by (rewrite map_length; lia). apply map_nth. Qed.

(* MIRROR PAIR shift_polyt / shift_polya *)
Theorem shift_polyt_mirror L ex c pos : 0 <= c <= Z.of_nat (length ex) -> (pos <> -1 -> L + 1 - pos <> -1) ->
  shift_polyt (rfl L ex) c (rfp L pos) = if (c =? 0) || (c =? Z.of_nat (length ex)) || (pos =? -1) then rfp L pos else L + 1 - shift_polya ex c pos.
Proof. intros Hc Hp. destruct (Z.eqb_spec pos (-1)) as [->|N].
  - unfold shift_polyt, rfp. cbn [Z.eqb]. rewrite !orb_true_r. reflexivity.
  - assert (E1: rfp L pos = L + 1 - pos) by (unfold rfp; destruct (Z.eqb_spec pos (-1)); lia). rewrite E1. specialize (Hp N).
    unfold shift_polyt, shift_polya. rewrite rfl_length. replace (L + 1 - pos =? -1) with false by lia. replace (pos =? -1) with false by lia. rewrite !orb_false_r.
    destruct ((c =? 0) || (c =? Z.of_nat (length ex))) eqn:E; [reflexivity|]. apply orb_false_elim in E. destruct E as [E2 E3].
    assert (Hn: (Z.to_nat c < length ex)%nat) by lia.
    unfold rfl at 2. rewrite firstn_rev, map_length, skipn_map, <- map_rev, fold_dist_rf_t.
    rewrite (nth_rfl L ex _ Hn). unfold rf. cbn [fst]. replace (length ex - Datatypes.S (Z.to_nat c))%nat with (length ex - Z.to_nat c - 1)%nat by lia. lia. Qed.
Theorem shift_polya_mirror L ex c pos : 0 <= c <= Z.of_nat (length ex) -> (pos <> -1 -> L + 1 - pos <> -1) ->
  shift_polya (rfl L ex) c (rfp L pos) = if (c =? 0) || (c =? Z.of_nat (length ex)) || (pos =? -1) then rfp L pos else L + 1 - shift_polyt ex c pos.
Proof. intros Hc Hp. destruct (Z.eqb_spec pos (-1)) as [->|N].
  - unfold shift_polya, rfp. cbn [Z.eqb]. rewrite !orb_true_r. reflexivity.
  - assert (E1: rfp L pos = L + 1 - pos) by (unfold rfp; destruct (Z.eqb_spec pos (-1)); lia). rewrite E1. specialize (Hp N).
    unfold shift_polyt, shift_polya. rewrite rfl_length. replace (L + 1 - pos =? -1) with false by lia. replace (pos =? -1) with false by lia. rewrite !orb_false_r.
    destruct ((c =? 0) || (c =? Z.of_nat (length ex))) eqn:E; [reflexivity|]. apply orb_false_elim in E. destruct E as [E2 E3].
    assert (Hn: (length ex - Z.to_nat c - 1 < length ex)%nat) by lia.
    unfold rfl at 2. rewrite skipn_rev, rev_involutive, map_length. replace (length ex - (length ex - Z.to_nat c))%nat with (Z.to_nat c) by lia.
    rewrite firstn_map, fold_dist_rf_a. rewrite (nth_rfl L ex _ Hn). unfold rf. cbn [snd].
    replace (length ex - Datatypes.S (length ex - Z.to_nat c - 1))%nat with (Z.to_nat c) by lia. lia. Qed.
End PolyAMirror.

(* ================================================================ reflection: PolyAFinder.find_polyt_head vs find_polya_tail *)
Module FinderMirror.
Import Cigar Cigar2.
(* the reverse-complemented read: bases 0=A 1=C 2=G 3=T 4=other *)
Definition comp (b:Z) : Z := if b =? 0 then 3 else if b =? 3 then 0 else if b =? 1 then 2 else if b =? 2 then 1 else b.
Definition mseq (seq:list Z) : list Z := rev (map comp seq).
Lemma isT_comp b : (comp b =? 3) = (b =? 0).
Proof. unfold comp. destruct (Z.eqb_spec b 0) as [->|N0]; [reflexivity|]. destruct (Z.eqb_spec b 3) as [->|N3]; [reflexivity|].
  destruct (Z.eqb_spec b 1) as [->|N1]; [reflexivity|]. destruct (Z.eqb_spec b 2) as [->|N2]; [reflexivity|]. lia. Qed.
Lemma mseq_length seq : length (mseq seq) = length seq.
Proof. unfold mseq. rewrite rev_length, map_length. reflexivity. Qed.

Lemma slice_rev {A} (l:list A) a b : 0 <= a <= b -> b <= Z.of_nat (length l) ->
  slice (rev l) a b = rev (slice l (Z.of_nat (length l) - b) (Z.of_nat (length l) - a)).
Proof. intros H1 H2. unfold slice. rewrite skipn_rev, firstn_rev, firstn_length. f_equal.
  replace (Nat.min (length l - Z.to_nat a) (length l) - Z.to_nat (b - a))%nat with (Z.to_nat (Z.of_nat (length l) - b)) by lia.
  rewrite firstn_skipn_comm. f_equal. f_equal. lia. Qed.
Lemma slice_map {A B} (f:A -> B) l a b : slice (map f l) a b = map f (slice l a b).
Proof. unfold slice. rewrite skipn_map, firstn_map. reflexivity. Qed.

Section W.
Variables w need fnum fden : Z.
(* the window-relative position that both functions compare with -1 *)
Definition tail_rel (seq:list Z) (ops:list cop) (fr to:Z) (en:bool) : Z :=
  let len := Z.of_nat (length seq) in let mend := len - tail_clip ops in
  let sub := map (fun b => Z.eqb b 0) (slice seq (Z.max 0 (mend - fr)) (Z.min len (mend + to + 1))) in
  let pos0 := find_polya w need sub in if en then reliable fnum fden sub pos0 else pos0.
Definition head_rel (seq:list Z) (ops:list cop) (fr to:Z) (en:bool) : Z :=
  let len := Z.of_nat (length seq) in let mstart := head_clip ops in
  let sub := map (fun b => Z.eqb b 3) (rev (slice seq (Z.max 0 (mstart - to)) (Z.min len (mstart + fr + 1)))) in
  let pos0 := find_polya w need sub in if en then reliable fnum fden sub pos0 else pos0.
Lemma tail_decomp seq ops rs fr to en : find_polya_tail w need fnum fden seq ops rs fr to en =
  let len := Z.of_nat (length seq) in let mend := len - tail_clip ops in
  if len =? 0 then Ok (-1) else if negb (tail_clip ops <? len) then Raises 2 else
  let p1 := tail_rel seq ops fr to en in
  if p1 =? -1 then Ok (-1) else let pos := Z.max 0 (mend - fr) + p1 in
  if pos >=? mend then Ok (rs + ref_len ops + (pos - mend)) else Ok (rs + ref_len ops - move_ref_coord ops (pos - mend)).
Proof. reflexivity. Qed.
Lemma head_decomp seq ops rs fr to en : find_polyt_head w need fnum fden seq ops rs fr to en =
  let len := Z.of_nat (length seq) in let mstart := head_clip ops in
  if len =? 0 then Ok (-1) else if negb (mstart <? len) then Raises 2 else
  let p1 := head_rel seq ops fr to en in
  if p1 =? -1 then Ok (-1) else let pos := Z.min len (mstart + fr + 1) - p1 - 1 in
  if pos <=? mstart then Ok (Z.max 1 (rs - (mstart - pos))) else Ok (Z.max 1 (rs + move_ref_coord ops (pos - mstart))).
Proof. reflexivity. Qed.

Lemma head_clip_rev ops : head_clip (rev ops) = tail_clip ops.
Proof. reflexivity. Qed.

(* the bases examined by find_polyt_head(from, to) on the reverse-complemented read are those examined by
   find_polya_tail(from + 1, to - 1) on the read: the two windows are mirror images SHIFTED BY ONE BASE *)
Theorem finder_window_mirror seq ops fr to en : 0 <= fr -> 1 <= to -> 0 <= tail_clip ops <= Z.of_nat (length seq) ->
  head_rel (mseq seq) (rev ops) fr to en = tail_rel seq ops (fr + 1) (to - 1) en.
Proof. intros Hf Ht Hc. unfold head_rel, tail_rel. cbv zeta. rewrite head_clip_rev, mseq_length.
  set (len := Z.of_nat (length seq)) in *. set (clip := tail_clip ops) in *.
  assert (E: map (fun b => b =? 3) (rev (slice (mseq seq) (Z.max 0 (clip - to)) (Z.min len (clip + fr + 1)))) =
             map (fun b => b =? 0) (slice seq (Z.max 0 (len - clip - (fr + 1))) (Z.min len (len - clip + (to - 1) + 1)))).
  { unfold mseq. rewrite slice_rev by (rewrite ?map_length; fold len; lia). rewrite rev_involutive, map_length. fold len.
    rewrite slice_map, map_map.
    replace (len - Z.min len (clip + fr + 1)) with (Z.max 0 (len - clip - (fr + 1))) by lia.
    replace (len - Z.max 0 (clip - to)) with (Z.min len (len - clip + (to - 1) + 1)) by lia.
    apply map_ext. intros b. apply isT_comp. }
  rewrite E. reflexivity. Qed.

(* consequence: "found / not found" agree for these two calls; and when the tail starts in the soft-clipped part the reported
   reference positions are mirror images in 0-BASED coordinates (p -> L-1-p), up to the clamp of the polyT side *)
Theorem finder_mirror_partial L seq ops rs fr to en : 0 <= fr -> 1 <= to -> 0 <= tail_clip ops < Z.of_nat (length seq) ->
  let p1 := tail_rel seq ops (fr + 1) (to - 1) en in
  let mend := Z.of_nat (length seq) - tail_clip ops in
  let pos := Z.max 0 (mend - (fr + 1)) + p1 in
  let t := find_polya_tail w need fnum fden seq ops rs (fr + 1) (to - 1) en in
  let h := find_polyt_head w need fnum fden (mseq seq) (rev ops) (L - (rs + ref_len ops)) fr to en in
  (p1 = -1 -> t = Ok (-1) /\ h = Ok (-1)) /\
  (p1 <> -1 -> pos >= mend -> exists p, t = Ok p /\ h = Ok (Z.max 1 (L - 1 - p))).
Proof. intros Hf Ht Hc. cbv zeta. rewrite tail_decomp, head_decomp. cbv zeta.
  rewrite finder_window_mirror by lia. rewrite head_clip_rev, mseq_length.
  set (len := Z.of_nat (length seq)) in *. set (clip := tail_clip ops) in *. set (p1 := tail_rel seq ops (fr + 1) (to - 1) en).
  replace (len =? 0) with false by lia. replace (negb (clip <? len)) with false by lia.
  split.
  - intros ->. split; reflexivity.
  - intros N Hp. replace (p1 =? -1) with false by lia.
    replace (Z.max 0 (len - clip - (fr + 1)) + p1 >=? len - clip) with true by lia.
    replace (Z.min len (clip + fr + 1) - p1 - 1 <=? clip) with true by lia.
    eexists. split; [reflexivity|]. f_equal. lia. Qed.
End W.

(* the exact mirror statement (same from/to on both sides, 1-based reflection p -> L+1-p as for every other coordinate) is false:
   (1) windows: 12 A starting 20 bases into the soft clip are found by the polyA side but not by the polyT side on the mirrored read;
   (2) positions: a plain 25-base tail is reported at exon end E by the polyA side and at exon start S-2 by the polyT side *)
Example finder_mirror_refuted_window :
  let seq := repeat 1 30 ++ repeat 1 20 ++ repeat 0 12 ++ [1] in      (* 30 aligned C; soft clip: 20 C, 12 A, 1 C *)
  let ops := [(M, 30); (S, 33)] in
  find_polya_tail 16 12 3 4 seq ops 1000 2 32 false = Ok 1050 /\
  find_polyt_head 16 12 3 4 (mseq seq) (rev ops) (5000 - (1000 + 30)) 2 32 false = Ok (-1).
Proof. vm_compute. split; reflexivity. Qed.
Example finder_mirror_refuted_position :
  let seq := repeat 1 100 ++ repeat 0 25 in let ops := [(M, 100); (S, 25)] in
  (* read on 1001..1100 (1-based) of a chromosome of length 5000; mirrored exon 3901..4000 *)
  find_polya_tail 16 12 3 4 seq ops 1000 2 32 false = Ok 1100 /\
  find_polyt_head 16 12 3 4 (mseq seq) (rev ops) (5000 - 1100) 2 32 false = Ok 3899 /\ rfp 5000 1100 = 3901.
Proof. vm_compute. repeat split; reflexivity. Qed.
End FinderMirror.
