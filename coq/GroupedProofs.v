(* Grouped tables of the faithful counter model: every matrix cell is the documented weighted sum of the records of that group for
   every enumeration order of the group set; after the repair the linear rendering carries exactly the matrix triples; the groups
   partition the ungrouped table.  The unrepaired constructor (mk_counter_cur) is refuted by a witness. *)
From Coq Require Import ZArith NArith QArith Qabs List Bool Lia Lqa Permutation.
From IQ Require Import Counting CountingCounter CountingProofs.
Import ListNotations.
Open Scope Z_scope.

(* ---------------------------------------------------------------- enumerate *)
Definition enum_from (k:nat) (l:list Z) : list (Z * Z) := combine l (map Z.of_nat (seq k (length l))).
Lemma enumerate_enum_from l : enumerate l = enum_from 0 l.
Proof. reflexivity. Qed.
Lemma enum_from_cons k x t : enum_from k (x :: t) = (x, Z.of_nat k) :: enum_from (Datatypes.S k) t.
Proof. reflexivity. Qed.
Lemma enum_from_snd : forall l k, map snd (enum_from k l) = map Z.of_nat (seq k (length l)).
Proof. induction l as [|x t IH]; intros k; [reflexivity|]. rewrite enum_from_cons. cbn [map snd length seq]. rewrite IH. reflexivity. Qed.
Lemma enum_from_fst : forall l k, map fst (enum_from k l) = l.
Proof. induction l as [|x t IH]; intros k; [reflexivity|]. rewrite enum_from_cons. cbn [map fst]. rewrite IH. reflexivity. Qed.
Lemma NoDup_enum_snd l k : NoDup (map snd (enum_from k l)).
Proof. rewrite enum_from_snd. apply FinFun.Injective_map_NoDup; [intros a b H; apply Nat2Z.inj, H|apply seq_NoDup]. Qed.
Lemma assoc_enum_some : forall l k g, In g l -> exists i, assoc g (enum_from k l) = Some i.
Proof. induction l as [|x t IH]; intros k g H; [destruct H|]. rewrite enum_from_cons. cbn [assoc fst snd].
  destruct (x =? g) eqn:E; [eexists; reflexivity|]. destruct H as [H|H]; [subst; rewrite Z.eqb_refl in E; discriminate|]. apply IH, H. Qed.
Lemma assoc_enum_nth : forall l k g i d, assoc g (enum_from k l) = Some i ->
  (k <= Z.to_nat i < k + length l)%nat /\ i = Z.of_nat (Z.to_nat i) /\ nth (Z.to_nat i - k) l d = g.
Proof. induction l as [|x t IH]; intros k g i d H; [discriminate|]. rewrite enum_from_cons in H. cbn [assoc fst snd] in H.
  destruct (x =? g) eqn:E.
  - apply some_inj in H. subst i. apply Z.eqb_eq in E. subst x. rewrite Nat2Z.id, Nat.sub_diag. cbn [length nth]. repeat split; lia.
  - destruct (IH (Datatypes.S k) g i d H) as [A [B C]]. cbn [length]. split; [lia|]. split; [exact B|].
    replace (Z.to_nat i - k)%nat with (Datatypes.S (Z.to_nat i - Datatypes.S k)) by lia. exact C. Qed.
Lemma nth_enum_assoc : forall l k j d, NoDup l -> (j < length l)%nat -> assoc (nth j l d) (enum_from k l) = Some (Z.of_nat (k + j)).
Proof. induction l as [|x t IH]; intros k j d ND H; [cbn in H; lia|]. rewrite enum_from_cons. cbn [assoc fst snd]. inversion ND; subst.
  destruct j as [|j]; cbn [nth].
  - rewrite Z.eqb_refl, Nat.add_0_r. reflexivity.
  - cbn [length] in H. assert (In (nth j t d) t) by (apply nth_In; lia).
    destruct (x =? nth j t d) eqn:E; [apply Z.eqb_eq in E; subst x; contradiction|].
    rewrite (IH (Datatypes.S k) j d H3) by lia. f_equal. lia. Qed.

(* ---------------------------------------------------------------- keys of the per-feature dictionaries *)
Lemma keys_inc_g d g v : map fst (inc_g d g v) = if memz g (map fst d) then map fst d else map fst d ++ [g].
Proof. induction d as [|p t IH]; [reflexivity|]. cbn [inc_g]. cbn [map memz existsb]. fold (memz g (map fst t)). rewrite (Z.eqb_sym g (fst p)).
  destruct (fst p =? g) eqn:E; cbn [orb map fst]; [reflexivity|]. rewrite IH. destruct (memz g (map fst t)); reflexivity. Qed.
Lemma NoDup_snoc (l:list Z) g : NoDup l -> ~ In g l -> NoDup (l ++ [g]).
Proof. induction l as [|x t IH]; intros ND H; cbn [app]; [constructor; [intros []|constructor]|]. inversion ND; subst. constructor.
  - intros C. apply in_app_or in C. destruct C as [C|[C|[]]]; [contradiction|]. subst. apply H. left. reflexivity.
  - apply IH; [assumption|]. intros C. apply H. right. exact C. Qed.
Definition keys_ok (cf:cfg) (c:fdict) : Prop :=
  forall f, NoDup (map fst (entries c f)) /\ (forall k, In k (map fst (entries c f)) -> In k (map snd (c_gids cf))).
Lemma keys_ok_inc_f cf c f' g' v : In g' (map snd (c_gids cf)) -> keys_ok cf c -> keys_ok cf (inc_f c f' g' v).
Proof. intros G K f. rewrite entries_inc_f. destruct (f' =? f); [|apply K]. destruct (K f) as [ND IN]. rewrite keys_inc_g.
  destruct (memz g' (map fst (entries c f))) eqn:M; [split; assumption|]. split.
  - apply NoDup_snoc; [exact ND|apply memz_false; exact M].
  - intros k Hk. apply in_app_or in Hk. destruct Hk as [Hk|[Hk|[]]]; [apply IN, Hk|subst; exact G]. Qed.
Lemma keys_ok_inc_all cf g' v : In g' (map snd (c_gids cf)) -> forall fs c, keys_ok cf c -> keys_ok cf (inc_all c fs g' v).
Proof. intros G. unfold inc_all. induction fs as [|x t IH]; intros c K; cbn [fold_left]; [exact K|]. apply IH, keys_ok_inc_f; assumption. Qed.
Lemma lookup_in_gids cf grp g' : lookup_gid cf grp = Some g' -> In g' (map snd (c_gids cf)).
Proof. unfold lookup_gid. intros H. apply assoc_In in H. apply (in_map snd) in H. exact H. Qed.

Lemma step_shape cf st ev st' : step cf st ev = Some st' ->
  fcount st' = fcount st \/ exists fs g' w grp, lookup_gid cf grp = Some g' /\ fcount st' = inc_all (fcount st) fs g' w.
Proof. destruct st as [a c cfm na nt nn nl]. destruct ev as [|r|h fs g|n|n|fs]; cbn [step].
  - intros H. apply some_inj in H. subst st'. left. reflexivity.
  - unfold add_read_info.
    destruct (is_unassigned (ra_type r) || no_matches r); [intros H; apply some_inj in H; subst st'; left; reflexivity|].
    destruct (first_tr_none r); [intros H; apply some_inj in H; subst st'; left; reflexivity|].
    destruct (lookup_gid cf (ra_group r)) as [g'|] eqn:L; [|discriminate]. cbv zeta.
    destruct (type_of (c_level cf) r).
    + destruct (feats_of (c_level cf) r) as [|f0 ft]; [discriminate|]. intros H. apply some_inj in H. subst st'. right. exists [f0], g', 1%Q, (ra_group r). split; [exact L|reflexivity].
    + destruct (feats_of (c_level cf) r) as [|f0 ft]; [discriminate|]. intros H. apply some_inj in H. subst st'. right. exists [f0], g', 1%Q, (ra_group r). split; [exact L|reflexivity].
    + intros H. apply some_inj in H. subst st'. right. do 4 eexists. split; [exact L|reflexivity].
    + destruct (_ && _ && _ && _); [discriminate|]. destruct (qpos _); intros H; apply some_inj in H; subst st'; [right; do 4 eexists; split; [exact L|reflexivity]|left; reflexivity].
    + destruct (_ && _ && _ && _); [discriminate|]. destruct (qpos _); intros H; apply some_inj in H; subst st'; [right; do 4 eexists; split; [exact L|reflexivity]|left; reflexivity].
    + destruct (_ && _ && _ && _); [discriminate|]. destruct (qpos _); intros H; apply some_inj in H; subst st'; [right; do 4 eexists; split; [exact L|reflexivity]|left; reflexivity].
    + intros H. apply some_inj in H. subst st'. left. reflexivity.
    + intros H. apply some_inj in H. subst st'. left. reflexivity.
    + intros H. apply some_inj in H. subst st'. left. reflexivity.
  - unfold add_read_info_raw. destruct (lookup_gid cf g) as [g'|] eqn:L; [|discriminate].
    destruct (negb h); [intros H; apply some_inj in H; subst st'; left; reflexivity|].
    destruct fs as [|f0 [|f1 t]]; intros H; apply some_inj in H; subst st'.
    + left. reflexivity.
    + right. exists [f0], g', 1%Q, g. split; [exact L|reflexivity].
    + right. do 4 eexists. split; [exact L|reflexivity].
  - intros H. apply some_inj in H. subst st'. left. reflexivity.
  - intros H. apply some_inj in H. subst st'. left. reflexivity.
  - intros H. apply some_inj in H. subst st'. left. reflexivity.
Qed.
Lemma run_keys_ok cf : forall evs st st', run cf st evs = Some st' -> keys_ok cf (fcount st) -> keys_ok cf (fcount st').
Proof. induction evs as [|e t IH]; intros st st' H K; cbn [run] in H.
  - apply some_inj in H. subst. exact K.
  - destruct (step cf st e) as [st1|] eqn:S; [|discriminate]. apply (IH st1 st' H).
    destruct (step_shape cf st e st1 S) as [E|[fs [g' [w [grp [L E]]]]]]; rewrite E; [exact K|].
    apply keys_ok_inc_all; [apply (lookup_in_gids cf grp), L|exact K]. Qed.
Lemma keys_ok_init cf complete : keys_ok cf (fcount (init_state complete)).
Proof. intros f. cbn. split; [constructor|intros k []]. Qed.
Lemma keys_zero_g d : map fst (zero_g d) = map fst d.
Proof. unfold zero_g. rewrite map_map. reflexivity. Qed.
Lemma keys_ok_zeroed cf st : keys_ok cf (fcount st) -> keys_ok cf (zeroed st).
Proof. intros K f. rewrite entries_zeroed. destruct (_ && _); [rewrite keys_zero_g|]; apply K. Qed.
Lemma get_g_of_In d k v : NoDup (map fst d) -> In (k, v) d -> get_g d k = v.
Proof. induction d as [|p t IH]; intros ND H; [destruct H|]. cbn [map] in ND. inversion ND; subst. cbn [get_g].
  destruct H as [H|H].
  - subst p. cbn [fst snd]. rewrite Z.eqb_refl. reflexivity.
  - destruct (fst p =? k) eqn:E; [|apply IH; assumption]. apply Z.eqb_eq in E. exfalso. apply H2. rewrite E. apply (in_map fst) in H. exact H. Qed.
Lemma get_g_nonzero_In d k : ~ (get_g d k == 0)%Q -> In (k, get_g d k) d.
Proof. induction d as [|p t IH]; cbn [get_g]; intros H; [exfalso; apply H; reflexivity|].
  destruct (fst p =? k) eqn:E; [apply Z.eqb_eq in E; left; destruct p; cbn in *; congruence|right; apply IH, H]. Qed.

(* ---------------------------------------------------------------- configurations *)
(* numeric ids are the positions in SOME duplicate-free enumeration of the group set (current and repaired constructor alike) *)
Definition enum_cfg (cf:cfg) : Prop :=
  c_ignore cf = false /\ exists e, c_gids cf = enumerate e /\ NoDup e /\ (forall x, In x e <-> In x (c_ordered cf)).
(* repaired: the enumeration is the sorted list itself *)
Definition repaired_cfg (cf:cfg) : Prop := c_ignore cf = false /\ c_gids cf = enumerate (c_ordered cf) /\ NoDup (c_ordered cf).
Lemma repaired_is_enum cf : repaired_cfg cf -> enum_cfg cf.
Proof. intros [I [G N]]. split; [exact I|]. exists (c_ordered cf). repeat split; auto. Qed.
Lemma mk_counter_repaired s lv na groups z fmt : groups <> [] -> repaired_cfg (mk_counter s lv na groups z fmt).
Proof. intros H. destruct groups as [|g t]; [contradiction|]. unfold mk_counter, mk_counter_gen. cbn [c_ignore c_gids c_ordered].
  repeat split. apply incr_NoDup, incr_sortz. Qed.
Lemma mk_counter_cur_enum s lv na groups z fmt : groups <> [] -> NoDup groups -> enum_cfg (mk_counter_cur s lv na groups z fmt).
Proof. intros H ND. destruct groups as [|g t]; [contradiction|]. unfold mk_counter_cur, mk_counter_gen. cbn [c_ignore c_gids c_ordered].
  split; [reflexivity|]. exists (g :: t). repeat split; auto; apply In_sortz. Qed.
(* the repaired constructor does not depend on the order (or multiplicity) in which the group collection is enumerated *)
Theorem mk_counter_order_independent s lv na g1 g2 z fmt : g1 <> [] -> (forall x, In x g1 <-> In x g2) ->
  mk_counter s lv na g1 z fmt = mk_counter s lv na g2 z fmt.
Proof. intros H E. assert (S: sortz g1 = sortz g2) by (apply sortz_perm_invariant, E).
  destruct g1 as [|a t]; [contradiction|]. destruct g2 as [|b u]; [exfalso; apply (E a); left; reflexivity|].
  unfold mk_counter, mk_counter_gen. rewrite S. reflexivity. Qed.

Lemma enum_gid_of cf g : enum_cfg cf -> In g (c_ordered cf) -> exists gid, assoc g (c_gids cf) = Some gid /\ gid_of cf g = gid /\ sel_agrees cf gid (Some g).
Proof. intros [I [e [G [ND EQ]]]] H. apply EQ in H. destruct (assoc_enum_some e 0 g H) as [i A]. rewrite <- enumerate_enum_from, <- G in A.
  exists i. split; [exact A|]. split; [unfold gid_of; rewrite A; reflexivity|].
  apply sel_agrees_grouped; [exact I| |exact A]. rewrite G, enumerate_enum_from. apply NoDup_enum_snd. Qed.

(* ---------------------------------------------------------------- matrix *)
Theorem matrix_cell_is_weighted_sum cf complete evs st : enum_cfg cf ->
  run cf (init_state complete) evs = Some st -> forallb (wf_event cf) evs = true ->
  forall f cells, In (f, cells) (dump_matrix cf st) ->
  Forall2 (fun g v => (v == spec_cell (c_strategy cf) (c_level cf) evs f (Some g))%Q) (c_ordered cf) cells.
Proof. intros E R W f cells H. unfold dump_matrix in H. apply in_flat_map in H. destruct H as [f' [Hf H]].
  destruct (negb (c_zeroes cf) && qzero (qsum_g (entries (zeroed st) f'))); [destruct H|]. destruct H as [H|[]]. inversion H; subst f' cells. clear H.
  assert (A: memz f (all_feats st) = true) by (apply memz_In, (proj1 (In_sortz f (all_feats st))), Hf).
  assert (G: forall g, In g (c_ordered cf) -> (get (zeroed st) f (gid_of cf g) == spec_cell (c_strategy cf) (c_level cf) evs f (Some g))%Q).
  { intros g Hg. destruct (enum_gid_of cf g E Hg) as [gid [_ [GE S]]]. rewrite GE. apply (cell_is_weighted_sum cf complete evs st f gid (Some g) R W S A). }
  revert G. generalize (c_ordered cf). induction l as [|g t IH]; intros G; cbn [map]; constructor.
  - apply G. left. reflexivity.
  - apply IH. intros g' Hg'. apply G. right. exact Hg'. Qed.

(* the matrix does not depend on the enumeration order of the group set: two counters whose numeric ids come from any two
   enumerations of the same set print the same cells *)
Theorem matrix_perm_invariant cf1 cf2 complete evs st1 st2 : enum_cfg cf1 -> enum_cfg cf2 ->
  c_strategy cf1 = c_strategy cf2 -> c_level cf1 = c_level cf2 -> c_ordered cf1 = c_ordered cf2 ->
  run cf1 (init_state complete) evs = Some st1 -> run cf2 (init_state complete) evs = Some st2 ->
  forallb (wf_event cf1) evs = true -> forallb (wf_event cf2) evs = true ->
  forall f cells1 cells2, In (f, cells1) (dump_matrix cf1 st1) -> In (f, cells2) (dump_matrix cf2 st2) -> Forall2 Qeq cells1 cells2.
Proof. intros E1 E2 ES EL EO R1 R2 W1 W2 f c1 c2 H1 H2.
  pose proof (matrix_cell_is_weighted_sum cf1 complete evs st1 E1 R1 W1 f c1 H1) as M1.
  pose proof (matrix_cell_is_weighted_sum cf2 complete evs st2 E2 R2 W2 f c2 H2) as M2.
  rewrite <- ES, <- EL, <- EO in M2. clear H1 H2. revert c1 c2 M1 M2. generalize (c_ordered cf1).
  induction l as [|g t IH]; intros c1 c2 M1 M2.
  - inversion M1; inversion M2; subst. constructor.
  - inversion M1 as [|g1 v1 t1 u1 A1 B1]; inversion M2 as [|g2 v2 t2 u2 A2 B2]; subst. constructor.
    + rewrite A1, A2. reflexivity.
    + apply IH; assumption. Qed.

(* ---------------------------------------------------------------- linear, after the repair *)
Theorem linear_rows_are_matrix_cells cf complete evs st : repaired_cfg cf ->
  run cf (init_state complete) evs = Some st -> forallb (wf_event cf) evs = true ->
  forall f lab v, In (f, lab, v) (dump_linear cf st) ->
  In lab (c_ordered cf) /\ (v == get (zeroed st) f (gid_of cf lab))%Q /\ (v == spec_cell (c_strategy cf) (c_level cf) evs f (Some lab))%Q.
Proof. intros RC R W f lab v H. pose proof (repaired_is_enum cf RC) as E. destruct RC as [I [G ND]].
  unfold dump_linear in H. apply in_flat_map in H. destruct H as [f' [Hf H]]. apply in_map_iff in H. destruct H as [p [Hp Hin]].
  inversion Hp; subst f' lab v. clear Hp.
  assert (K: keys_ok cf (zeroed st)) by (apply keys_ok_zeroed, (run_keys_ok cf evs _ _ R), keys_ok_init).
  destruct (K f) as [KN KI]. assert (Hk: In (fst p) (map snd (c_gids cf))) by (apply KI, (in_map fst), Hin).
  rewrite G, enumerate_enum_from, enum_from_snd in Hk. apply in_map_iff in Hk. destruct Hk as [j [Ej Hj]]. apply in_seq in Hj.
  rewrite <- Ej, Nat2Z.id.
  assert (L: In (nth j (c_ordered cf) (-1)) (c_ordered cf)) by (apply nth_In; lia). split; [exact L|].
  assert (A: assoc (nth j (c_ordered cf) (-1)) (c_gids cf) = Some (Z.of_nat j)).
  { rewrite G, enumerate_enum_from. rewrite (nth_enum_assoc (c_ordered cf) 0 j (-1) ND) by lia. reflexivity. }
  assert (GE: gid_of cf (nth j (c_ordered cf) (-1)) = Z.of_nat j) by (unfold gid_of; rewrite A; reflexivity).
  assert (V: get (zeroed st) f (Z.of_nat j) = snd p).
  { unfold get. apply get_g_of_In; [exact KN|]. rewrite Ej. destruct p; exact Hin. }
  rewrite GE, V. split; [reflexivity|]. rewrite <- V.
  apply (cell_is_weighted_sum cf complete evs st f (Z.of_nat j) (Some (nth j (c_ordered cf) (-1))) R W).
  - apply sel_agrees_grouped; [exact I| |exact A]. rewrite G, enumerate_enum_from. apply NoDup_enum_snd.
  - apply memz_In, (proj1 (In_sortz f (all_feats st))), Hf. Qed.
Theorem nonzero_matrix_cells_are_linear_rows cf complete evs st : repaired_cfg cf ->
  run cf (init_state complete) evs = Some st ->
  forall f g, In f (all_feats st) -> In g (c_ordered cf) -> ~ (get (zeroed st) f (gid_of cf g) == 0)%Q ->
  In (f, g, get (zeroed st) f (gid_of cf g)) (dump_linear cf st).
Proof. intros RC R f g Hf Hg NZ. pose proof (repaired_is_enum cf RC) as E. destruct RC as [I [G ND]].
  destruct (enum_gid_of cf g E Hg) as [gid [A [GE _]]]. rewrite GE in *.
  unfold dump_linear. apply in_flat_map. exists f. split; [apply In_sortz, Hf|]. apply in_map_iff.
  exists (gid, get (zeroed st) f gid). cbn [fst snd]. split; [|apply get_g_nonzero_In, NZ].
  rewrite G, enumerate_enum_from in A. destruct (assoc_enum_nth (c_ordered cf) 0 g gid (-1) A) as [_ [_ N]]. rewrite Nat.sub_0_r in N. rewrite N. reflexivity. Qed.
(* the two renderings agree: every linear row is the matrix cell of its (feature, group label); every non-zero matrix cell is a linear row *)
Theorem linear_eq_matrix cf complete evs st : repaired_cfg cf ->
  run cf (init_state complete) evs = Some st -> forallb (wf_event cf) evs = true ->
  (forall f lab v, In (f, lab, v) (dump_linear cf st) -> In lab (c_ordered cf) /\ (v == get (zeroed st) f (gid_of cf lab))%Q) /\
  (forall f g, In f (all_feats st) -> In g (c_ordered cf) -> ~ (get (zeroed st) f (gid_of cf g) == 0)%Q ->
     In (f, g, get (zeroed st) f (gid_of cf g)) (dump_linear cf st)).
Proof. intros RC R W. split.
  - intros f lab v H. destruct (linear_rows_are_matrix_cells cf complete evs st RC R W f lab v H) as [A [B _]]. split; assumption.
  - apply (nonzero_matrix_cells_are_linear_rows cf complete evs st RC R). Qed.

(* ---------------------------------------------------------------- the groups partition the ungrouped table *)
Definition ev_group (ev:event) : option Z := match ev with ERead r => Some (ra_group r) | ERaw _ _ g => Some g | _ => None end.
Lemma contrib_sel s lv f g ev :
  (spec_contrib s lv f (Some g) ev == if match ev_group ev with Some x => g =? x | None => false end then spec_contrib s lv f None ev else 0)%Q.
Proof. destruct ev as [|r|h fs g0|n|n|fs]; cbn [spec_contrib ev_group gsel_ok]; try lra.
  - rewrite andb_true_r. destruct (g =? ra_group r); [rewrite andb_true_r; lra|rewrite andb_false_r; lra].
  - destruct h; [|destruct (g =? g0); lra]. destruct (g =? g0); lra. Qed.
Lemma qsum_indicator (x:Q) g0 : forall gs, NoDup gs -> (qsum' (map (fun g => if g =? g0 then x else 0) gs) == if memz g0 gs then x else 0)%Q.
Proof. induction gs as [|g t IH]; intros ND; cbn [map qsum' memz existsb]; [lra|]. inversion ND; subst. rewrite (IH H2). fold (memz g0 t).
  rewrite (Z.eqb_sym g0 g). destruct (g =? g0) eqn:E; cbn [orb]; [|lra].
  apply Z.eqb_eq in E. subst. assert (memz g0 t = false) by (apply memz_false; exact H1). rewrite H. lra. Qed.
Lemma qsum_swap {A B} (a:A -> B -> Q) (xs:list A) : forall ys, (qsum' (map (fun x => qsum' (map (a x) ys)) xs) == qsum' (map (fun y => qsum' (map (fun x => a x y) xs)) ys))%Q.
Proof. induction ys as [|y t IH]; cbn [map qsum'].
  - apply qsum'_zero. intros. lra.
  - rewrite <- IH. clear IH. induction xs as [|x u IHx]; cbn [map qsum']; [lra|]. rewrite IHx. lra. Qed.
Theorem groups_partition_ungrouped s lv evs f gs : NoDup gs ->
  (forall ev g, In ev evs -> ev_group ev = Some g -> In g gs) ->
  (qsum' (map (fun g => spec_cell s lv evs f (Some g)) gs) == spec_cell s lv evs f None)%Q.
Proof. intros ND H. unfold spec_cell. destruct (existsb (spec_confirms lv f) evs); [|apply qsum'_zero; intros; lra].
  rewrite (qsum_swap (fun g ev => spec_contrib s lv f (Some g) ev) gs evs). apply qsum'_ext. intros ev Hev.
  rewrite (qsum'_ext _ (fun g => if match ev_group ev with Some x => g =? x | None => false end then spec_contrib s lv f None ev else 0%Q)) by (intros; apply contrib_sel).
  destruct (ev_group ev) as [x|] eqn:G.
  - rewrite (qsum_indicator _ x gs ND). assert (M: memz x gs = true) by (apply memz_In, (H ev x Hev G)). rewrite M. lra.
  - rewrite qsum'_zero by (intros; lra). destruct ev; cbn [ev_group] in G; try discriminate; cbn [spec_contrib]; lra. Qed.

(* ---------------------------------------------------------------- the unrepaired constructor *)
(* ids from the enumeration order of the collection, labels from the sorted list: the linear row of group 3 (value 2) is printed
   under label 1, while the matrix puts 2 under group 3 and 1 under group 1 *)
Definition cur_witness_cfg := mk_counter_cur AllReads TranscriptLevel 2 [3; 1; 2] true (true, true).
Definition cur_witness_events :=
  [ERead (mkra Unique Unique [mkm (Some 7) (Some 70)] 3 true 1); ERead (mkra Unique Unique [mkm (Some 7) (Some 70)] 3 true 1);
   ERead (mkra Unique Unique [mkm (Some 7) (Some 70)] 1 true 1)].
Example linear_eq_matrix_current_code_refuted :
  match run cur_witness_cfg (init_state []) cur_witness_events with
  | Some st => dump_matrix cur_witness_cfg st = [(7, [1%Q; 0%Q; (1 + 1)%Q])] /\
               dump_linear cur_witness_cfg st = [(7, 1, (1 + 1)%Q); (7, 2, 1%Q)]
  | None => False end.
Proof. vm_compute. split; reflexivity. Qed.
(* the same input through the repaired constructor *)
Example linear_eq_matrix_repaired_example :
  let cf := mk_counter AllReads TranscriptLevel 2 [3; 1; 2] true (true, true) in
  match run cf (init_state []) cur_witness_events with
  | Some st => dump_matrix cf st = [(7, [1%Q; 0%Q; (1 + 1)%Q])] /\ dump_linear cf st = [(7, 3, (1 + 1)%Q); (7, 1, 1%Q)]
  | None => False end.
Proof. vm_compute. split; reflexivity. Qed.
