(* C19: Intervals.sum_to_point is sum_intervals_to_point of src/common.py as regenerated into gen/Loops.v (tools/translate_loops.py, while
   fragment: the loop is a Fixpoint on fuel over the state (i, total_len), every subscript is checked).  For all inputs and every fuel
   above the length of the list; exceptions included. *)
From Coq Require Import ZArith NArith List Bool Lia ZifyBool.
From IQ.gen Require Import Prims Loops.
From IQ Require Import CorrSupport Intervals LoopsSupport LoopsIndexSupport LoopsRunSupport LoopTotalBridge.
Import ListNotations. Open Scope Z_scope.

Lemma sitp_loop_spec l pos : forall fuel n t, (n <= length l)%nat -> (length l - n < fuel)%nat ->
  exists i', py_sum_intervals_to_point_loop1 l pos fuel (Z.of_nat n, t) = py_Done (i', t + sitp_loop (skipn n l) pos).
Proof. induction fuel as [|f IH]; intros n t Hn Hf; [lia|]. cbn [py_sum_intervals_to_point_loop1].
  destruct (Nat.eq_dec n (length l)) as [E|E].
  - subst n. replace (Z.of_nat (length l) <? Z.of_nat (length l)) with false by lia. cbn [andb]. rewrite skipn_all. cbn [sitp_loop].
    exists (Z.of_nat (length l)). rewrite Z.add_0_r. reflexivity.
  - assert (L: (n < length l)%nat) by lia. replace (Z.of_nat n <? Z.of_nat (length l)) with true by lia. cbn [andb].
    rewrite (index_ok_nat l n L), (py_index_nonneg l n (0, 0)). rewrite (skipn_nth_cons l n (0, 0) L). cbn [sitp_loop].
    set (a := nth n l (0, 0)). destruct (fst a <? pos); [|exists (Z.of_nat n); rewrite Z.add_0_r; reflexivity].
    destruct ((fst a <=? pos) && (pos <=? snd a)); cbn [py_bind];
      (replace (Z.of_nat n + 1) with (Z.of_nat (S n)) by lia;
       match goal with |- context [py_sum_intervals_to_point_loop1 l pos f (Z.of_nat (S n), ?t')] =>
         destruct (IH (S n) t' ltac:(lia) ltac:(lia)) as [i' Hi]; rewrite Hi; exists i'; f_equal; f_equal; lia end).
Qed.

Theorem sum_to_point_is_the_source l pos fuel : (length l < fuel)%nat ->
  py_sum_intervals_to_point fuel l pos = run_of (Intervals.sum_to_point l pos).
Proof. intros H. unfold py_sum_intervals_to_point, sum_to_point. destruct l as [|a t]; [reflexivity|].
  replace (py_index_ok (a :: t) 0) with true by (unfold py_index_ok; cbn [length]; lia).
  replace (py_index (a :: t) 0 (0, 0)) with a by reflexivity. cbn [run_of].
  destruct (pos <=? fst a); [reflexivity|].
  replace (py_index_ok (a :: t) (-1)) with true by (unfold py_index_ok; cbn [length]; lia).
  rewrite (py_index_last t a (0, 0)).
  destruct (pos >? snd (last (a :: t) a)); [rewrite <- total_is_the_source; reflexivity|].
  cbv zeta. destruct (sitp_loop_spec (a :: t) pos fuel 0 0 ltac:(lia) ltac:(lia)) as [i' Hi].
  change (Z.of_nat 0) with 0 in Hi. rewrite Hi. cbn [py_bind skipn]. reflexivity. Qed.
