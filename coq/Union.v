From Coq Require Import ZArith List Bool Lia ZifyBool.
Import ListNotations. Open Scope Z_scope.
From IQ Require Import Sweep.

Definition ilen (a:iv) := snd a - fst a + 1.
Fixpoint total (l:list iv) : Z := match l with [] => 0 | a::t => ilen a + total t end.
Definition rest (inc:bool) (l:list iv) : Z := if inc then total (tl l) else total l.

(* union accumulator of jaccard_similarity; i1/i2 = "included" flags of the two heads *)
Fixpoint uni_f (n:nat) (A B:list iv) (i1 i2:bool) : Z :=
  match n with O => 0 | S n' =>
    match A, B with
    | [], _ => rest i2 B
    | _, [] => rest i1 A
    | a::A', b::B' =>
      if overlaps a b then
        (if negb i1 && negb i2 then Z.max (snd a) (snd b) - Z.min (fst a) (fst b) + 1
         else if i2 then Z.max 0 (snd a - snd b) else Z.max 0 (snd b - snd a)) +
        (if snd b <? snd a then uni_f n' A B' true false else uni_f n' A' B false true)
      else if left_of b a then (if i2 then 0 else ilen b) + uni_f n' A B' i1 false
      else (if i1 then 0 else ilen a) + uni_f n' A' B false i2
    end end.
Definition union A B := uni_f (S (length A + length B)) A B false false.

(* geometric meaning of the flags *)
Definition inv (A B:list iv) (i1 i2:bool) : Prop :=
  (i1 = true -> i2 = true -> False) /\
  (i1 = true -> match A, B with a::_, b::_ => fst a <= fst b | _, _ => True end) /\
  (i2 = true -> match A, B with a::_, b::_ => fst b <= fst a | _, _ => True end).

Lemma total_nonneg_sd l : sd l -> 0 <= total l.
Proof. induction l as [|a t IH]; simpl; [lia|]. intros (H1 & _ & H3). specialize (IH H3). unfold ilen. lia. Qed.

Theorem uni_f_spec : forall n A B i1 i2, (length A + length B < n)%nat -> sd A -> sd B -> inv A B i1 i2 ->
  uni_f n A B i1 i2 = rest i1 A + rest i2 B - pairs A B.
Proof.
  induction n as [|n IH]; intros A B i1 i2 Hn HA HB (Hx & H1 & H2); [lia|].
  destruct A as [|a A']; [cbn [uni_f pairs rest total tl]; destruct i1; simpl; lia|].
  destruct B as [|b B']; [cbn [uni_f]; rewrite pairs_nil_r; destruct i2; simpl; lia|].
  cbn [uni_f].
  pose proof (sd_after _ _ HA) as FA. pose proof (sd_after _ _ HB) as FB.
  assert (HA': sd A') by (simpl in HA; tauto). assert (HB': sd B') by (simpl in HB; tauto).
  assert (Ha: fst a <= snd a) by (simpl in HA; tauto). assert (Hb: fst b <= snd b) by (simpl in HB; tauto).
  assert (HhA: match A' with [] => True | a' :: _ => snd a < fst a' end) by (simpl in HA; tauto).
  assert (HhB: match B' with [] => True | b' :: _ => snd b < fst b' end) by (simpl in HB; tauto).
  simpl in Hn.
  destruct (overlaps a b) eqn:Eo; unfold overlaps in Eo.
  - destruct (snd b <? snd a) eqn:E1.
    + (* advance B, a stays and is now included *)
      rewrite IH; [| simpl; lia | assumption | assumption |].
      * rewrite (pairs_cons_r (a::A') b B'). cbn [pairs row].
        rewrite (col_zero b A') by (eapply Forall_lt_trans; [|exact FA]; lia).
        unfold rest, isect, ilen; cbn [tl total]. unfold ilen.
        destruct i1, i2; simpl; try (exfalso; apply Hx; reflexivity);
          try specialize (H1 eq_refl); try specialize (H2 eq_refl); simpl in *; lia.
      * repeat split; try discriminate. intros _. destruct B' as [|b' B'']; [exact I|].
        destruct i1, i2; try (exfalso; apply Hx; reflexivity);
          try specialize (H1 eq_refl); try specialize (H2 eq_refl); simpl in *; lia.
    + (* advance A, b stays and is now included *)
      rewrite IH; [| simpl; lia | assumption | assumption |].
      * cbn [pairs row]. rewrite (row_zero a B') by (eapply Forall_lt_trans; [|exact FB]; lia).
        unfold rest, isect, ilen; cbn [tl total]. unfold ilen.
        destruct i1, i2; simpl; try (exfalso; apply Hx; reflexivity);
          try specialize (H1 eq_refl); try specialize (H2 eq_refl); simpl in *; lia.
      * repeat split; try discriminate. intros _. destruct A' as [|a' A'']; [exact I|]. simpl in *; lia.
  - destruct (left_of b a) eqn:E1; unfold left_of in E1.
    + (* b entirely left of a: i1 must be false *)
      assert (i1 = false) by (destruct i1; [specialize (H1 eq_refl); simpl in H1; lia|reflexivity]). subst i1.
      rewrite IH; [| simpl; lia | assumption | assumption |].
      * rewrite (pairs_cons_r (a::A') b B'). cbn [pairs row].
        rewrite (col_zero b A') by (eapply Forall_lt_trans; [|exact FA]; lia).
        unfold rest, isect, ilen; cbn [tl total]. unfold ilen. destruct i2; simpl; lia.
      * repeat split; try discriminate.
    + (* a entirely left of b: i2 must be false *)
      assert (i2 = false) by (destruct i2; [specialize (H2 eq_refl); simpl in H2; lia|reflexivity]). subst i2.
      rewrite IH; [| simpl; lia | assumption | assumption |].
      * cbn [pairs row]. rewrite (row_zero a B') by (eapply Forall_lt_trans; [|exact FB]; lia).
        unfold rest, isect, ilen; cbn [tl total]. unfold ilen. destruct i1; simpl; lia.
      * repeat split; try discriminate.
Qed.

Corollary union_spec A B : sd A -> sd B -> union A B = total A + total B - pairs A B.
Proof. intros HA HB. unfold union. rewrite uni_f_spec; [reflexivity | lia | assumption | assumption | repeat split; discriminate]. Qed.
Print Assumptions union_spec.
