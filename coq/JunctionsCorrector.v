(* C01 -> C14: the events the junction-comparator model (Junctions.v) returns satisfy the hypothesis `events_wf` of C14's theorems
   about the exon corrector (Corrector.v / Corrector2.v), so the corrected exons are well-formed with no hypothesis on the events.

     comparator_cin                    the corrector's input built from the same read and isoform as the comparator's
     sweep_pairs_good / phase1_pairs_good   two more invariants of the sweep: shape of the pairs, overlaps inside a pair
     comparator_events_good            every event with a read region carries what the corrector's loop needs (ev_good)
     loop_events_wf                    the loop of process_events, abstractly and for BOTH variants of Corrector.v (Section Loop)
     events_wf_core                    assembly, generic in the variant
     events_satisfy_corrector_hypothesis, events_satisfy_corrector_hypothesis_nofuzzy, corrected_exons_wf_unconditional
                                       the repaired corrector (default notations of Corrector.v)
     events_satisfy_corrector_hypothesis_unrepaired, corrected_exons_wf_unconditional_unrepaired
                                       the code as it was: needs left_end_ok and well-formed known introns (or introns > 2 delta)
     w1 .. w5 `_refuted`               every hypothesis is needed (vm_compute)

   Hypotheses found / dropped during the proof: lenz exons < absent and lenz II < absent are needed (positions are compared with the
   `absent` marker, as in JunctionsTyping.typed_event_wf); `forallb (delta <=? len) II` is not needed. *)
From Coq Require Import ZArith NArith QArith List Bool Lia ZifyBool.
From IQ Require Import CorrSupport Exons Corrector Corrector2 Junctions JunctionsProofs JunctionsTyping.
From IQ.gen Require Import Tables Prims.
Import ListNotations. Open Scope Z_scope.
(* ================================================================ definitions *)
Definition comparator_cin (P:params) (K:list iv) (greg:iv) (exons:list iv) (ireg:iv) (II:list iv) (extra:list event)
    (orc:list Corrector.errs) : Corrector.cin :=
  Corrector.mkcin exons false true
    (compare_junctions_gene P K greg (Corrector.hull exons) (jfb exons) ireg II ++ extra) K ireg II orc (p_delta P).
Definition no_read_region (e:event) : Prop := e_read e = undefined_region.
Definition sizes_ok (d:Z) (exons:list iv) : bool :=
  forallb (fun e => 2 * d <? py_interval_len e) exons && forallb (fun i => d <? py_interval_len i) (jfb exons).

Lemma jfb_same : forall l, Intervals.jfb l = Exons.jfb l.
Proof. induction l as [|a t IH]; [reflexivity|]. destruct t as [|b t']; [reflexivity|].
  change (Intervals.jfb (a :: b :: t')) with ((if snd a + 1 <? fst b then [(snd a + 1, fst b - 1)] else []) ++ Intervals.jfb (b :: t')).
  rewrite IH. reflexivity. Qed.
Lemma absent_same : Corrector.absent_position = absent. Proof. reflexivity. Qed.
Lemma undefined_same : (Corrector.undefined_position, Corrector.undefined_position) = undefined_region. Proof. reflexivity. Qed.

(* ================================================================ generic list lemmas *)
Lemma J_nth (l:list iv) k : J l k = nth (Z.to_nat k) l (0,0). Proof. reflexivity. Qed.

Lemma py_nth_J (l:list iv) i : 0 <= i < lenz l -> py_nth l i = Some (J l i).
Proof. unfold lenz. intros H. unfold py_nth. destruct ((0 <=? i) && (i <? Z.of_nat (length l))) eqn:C; [|lia].
  rewrite J_nth. apply nth_error_nth'. lia. Qed.

Lemma in_czrange_n : forall m a k, In k (Corrector.zrange_n a m) <-> a <= k < a + Z.of_nat m.
Proof. induction m as [|m IH]; intros a k; cbn [Corrector.zrange_n In].
  - lia.
  - rewrite IH. lia. Qed.

Lemma all_some_map {A B} (g:A -> option B) (f:A -> B) zs : (forall k, In k zs -> g k = Some (f k)) ->
  all_some (map g zs) = Some (map f zs).
Proof. induction zs as [|z t IH]; intros H; [reflexivity|]. cbn [map all_some]. rewrite (H z (or_introl eq_refl)).
  rewrite IH by (intros; apply H; right; assumption). reflexivity. Qed.

Definition run (l:list iv) (a b:Z) : list iv := map (J l) (Corrector.zrange a (b + 1)).

Lemma py_slice_J (l:list iv) a b : 0 <= a <= b -> b < lenz l -> py_slice l a b = Some (run l a b).
Proof. intros Hab Hb. unfold py_slice, run. unfold lenz in Hb. destruct (2 * Z.of_nat (length l) <? b + 1 - a) eqn:C; [lia|].
  apply all_some_map. intros k Hk. unfold Corrector.zrange in Hk. apply in_czrange_n in Hk. apply py_nth_J. unfold lenz. lia. Qed.

Lemma run_Forall (Q:iv -> Prop) l a b : (forall k, a <= k <= b -> Q (J l k)) -> Forall Q (run l a b).
Proof. intros H. unfold run. apply Forall_forall. intros x Hx. apply in_map_iff in Hx. destruct Hx as (k & <- & Hk).
  unfold Corrector.zrange in Hk. apply in_czrange_n in Hk. apply H. lia. Qed.

Lemma map_zrange_mono (f:Z -> iv) : forall m a, (forall k, a <= k < a + Z.of_nat m -> fst (f k) <= snd (f k)) ->
  (forall k, a <= k -> k + 1 < a + Z.of_nat m -> fst (f k) <= fst (f (k + 1))) -> mono (map f (Corrector.zrange_n a m)).
Proof. induction m as [|m IH]; intros a H1 H2; [exact I|]. cbn [Corrector.zrange_n map]. cbn [mono].
  split; [apply H1; lia|]. split.
  - destruct m as [|m']; cbn [Corrector.zrange_n map]; [exact I|]. apply H2; lia.
  - apply IH; intros; [apply H1|apply H2]; lia. Qed.

Lemma run_mono l a b : (forall k, a <= k <= b -> fst (J l k) <= snd (J l k)) ->
  (forall k, a <= k -> k + 1 <= b -> fst (J l k) <= fst (J l (k + 1))) -> mono (run l a b).
Proof. intros H1 H2. unfold run, Corrector.zrange. apply map_zrange_mono; intros; [apply H1|apply H2]; lia. Qed.

Lemma mono_cons_Forall (m:iv) l : fst m <= snd m -> Forall (fun x => fst m <= fst x) l -> mono l -> mono (m :: l).
Proof. intros H1 H2 H3. cbn [mono]. split; [exact H1|]. split; [|exact H3]. destruct l; [exact I|]. inversion H2; assumption. Qed.

Lemma mono_app l1 l2 : mono l1 -> mono l2 -> (forall x y, In x l1 -> In y l2 -> fst x <= fst y) -> mono (l1 ++ l2).
Proof. induction l1 as [|a t IH]; intros H1 H2 H; [exact H2|]. cbn [app]. cbn [mono] in H1. destruct H1 as (Ha & Hn & Ht).
  apply mono_cons_Forall; [exact Ha| |apply IH; [exact Ht|exact H2|intros; apply H; [right|]; assumption]].
  apply Forall_app. split.
  - assert (G: forall t0 a0, mono (a0 :: t0) -> Forall (fun x => fst a0 <= fst x) t0) by (intros; apply mono_lower; assumption).
    apply G. cbn [mono]. auto.
  - apply Forall_forall. intros y Hy. apply H; [left; reflexivity|exact Hy]. Qed.

Lemma Forall2_nth {A B} (Q:A -> B -> Prop) l1 l2 : Forall2 Q l1 l2 ->
  length l1 = length l2 /\ forall k d1 d2, (k < length l1)%nat -> Q (nth k l1 d1) (nth k l2 d2).
Proof. induction 1 as [|x y l1 l2 Hxy H IH]; [split; [reflexivity|intros; cbn in *; lia]|].
  destruct IH as (IH1 & IH2). split; [cbn; congruence|]. intros [|k] d1 d2 Hk; [exact Hxy|]. cbn [nth]. apply IH2. cbn in Hk. lia. Qed.

Lemma forallb_nth {A} (f:A -> bool) l d k : forallb f l = true -> (k < length l)%nat -> f (nth k l d) = true.
Proof. intros H Hk. rewrite forallb_forall in H. apply H. apply nth_In. exact Hk. Qed.

Lemma skipn_cons_facts {A} (l:list A) : forall k x t d, skipn k l = x :: t -> nth k l d = x /\ skipn (Datatypes.S k) l = t /\ (k < length l)%nat.
Proof. induction l as [|a l IH]; intros k x t d H; [destruct k; discriminate|]. destruct k as [|k].
  - cbn in H. inversion H; subst. cbn. repeat split. lia.
  - cbn [skipn] in H. destruct (IH k x t d H) as (H1 & H2 & H3). cbn [nth length]. repeat split; [exact H1|exact H2|lia]. Qed.

(* ================================================================ exons with gaps and their junctions *)
Lemma sdg_nth : forall l d k, sdg_b l = true -> (k < length l)%nat ->
  fst (nth k l d) <= snd (nth k l d) /\ ((Datatypes.S k < length l)%nat -> snd (nth k l d) + 1 < fst (nth (Datatypes.S k) l d)).
Proof. induction l as [|a t IH]; intros d k H Hk; [cbn in Hk; lia|]. cbn [sdg_b] in H. rewrite !andb_true_iff in H. destruct H as ((Ha & Hn) & Ht).
  destruct k as [|k].
  - cbn [nth]. split; [lia|]. intros Hk2. destruct t as [|b t']; [cbn in Hk2; lia|]. cbn [nth]. lia.
  - cbn [nth]. cbn [length] in Hk. destruct (IH d k Ht ltac:(lia)) as (I1 & I2). split; [exact I1|]. intros Hk2. apply I2. cbn [length] in Hk2. lia. Qed.

Lemma jfb_sdg : forall l d d', sdg_b l = true ->
  length (jfb l) = pred (length l) /\
  forall k, (Datatypes.S k < length l)%nat -> nth k (jfb l) d' = (snd (nth k l d) + 1, fst (nth (Datatypes.S k) l d) - 1).
Proof. induction l as [|a t IH]; intros d d' H; [split; [reflexivity|intros; cbn in *; lia]|].
  destruct t as [|b t']; [split; [reflexivity|intros; cbn in *; lia]|].
  assert (Ht: sdg_b (b :: t') = true) by (cbn [sdg_b] in H |- *; lia).
  assert (Hab: snd a + 1 <? fst b = true) by (cbn [sdg_b] in H; lia).
  change (jfb (a :: b :: t')) with ((if snd a + 1 <? fst b then [(snd a + 1, fst b - 1)] else []) ++ jfb (b :: t')).
  rewrite Hab. cbn [app]. destruct (IH d d' Ht) as (I1 & I2). split; [cbn [length] in *; lia|].
  intros [|k] Hk; [reflexivity|]. cbn [nth]. apply I2. cbn [length] in *. lia. Qed.

Lemma last_nth_pred {A} (l:list A) d : last l d = nth (pred (length l)) l d.
Proof. induction l as [|a t IH]; [reflexivity|]. destruct t as [|b t']; [reflexivity|].
  change (last (a :: b :: t') d) with (last (b :: t') d). rewrite IH. reflexivity. Qed.

(* ================================================================ two more invariants of the sweep: shape of the pairs, overlaps *)
Section SweepInv.
Variables (delta:Z) (rreg ireg:iv) (Rf If:list iv).

Definition ov_ok (c:cpair) : Prop :=
  let '((ra, rb), (ia, ib)) := c in
  0 <= ra <= rb /\ rb < lenz Rf /\ 0 <= ia <= ib /\ ib < lenz If /\
  py_overlaps (J If ia) (J Rf ra) = true /\
  (ra = rb -> forall k, ia <= k <= ib -> py_overlaps (J If k) (J Rf ra) = true).
Definition pair_good (c:cpair) : Prop :=
  (exists p q, c = ((p, p), (absent, q))) \/ (exists p q, c = ((absent, p), (q, q))) \/ ov_ok c.
Definition cur_good (rpos ipos:Z) (cur:option cpair) : Prop :=
  match cur with None => True | Some c => ov_ok c /\ snd (fst c) <= rpos /\ ipos - 1 <= snd (snd c) <= ipos end.

Lemma flush_good rpos ipos cur : cur_good rpos ipos cur -> Forall pair_good (flush cur).
Proof. destruct cur as [c|]; [|constructor]. intros (H & _). constructor; [right; right; exact H|constructor]. Qed.

Lemma term_read_good : forall R rpos ipos rm, Forall pair_good (snd (term_read ireg R rpos ipos rm)).
Proof. induction R as [|r R' IH]; intros rpos ipos rm; [constructor|]. cbn [term_read]. destruct (py_overlaps ireg r); [|constructor].
  specialize (IH (rpos + 1) ipos 0). destruct (term_read ireg R' (rpos + 1) ipos 0) as [rp ps]. cbn [snd] in *.
  apply Forall_app. split; [|exact IH]. destruct (rm =? -1); [constructor|]. constructor; [|constructor]. left. eauto. Qed.
Lemma term_iso_good : forall Is rpos ipos im, Forall pair_good (snd (term_iso rreg Is rpos ipos im)).
Proof. induction Is as [|i I' IH]; intros rpos ipos im; [constructor|]. cbn [term_iso]. destruct (py_overlaps rreg i); [|constructor].
  specialize (IH rpos (ipos + 1) 0). destruct (term_iso rreg I' rpos (ipos + 1) 0) as [ip ps]. cbn [snd] in *.
  apply Forall_app. split; [|exact IH]. destruct (im =? -1); [constructor|]. constructor; [|constructor]. right; left. eauto. Qed.
Lemma terminal_good R Is rpos ipos rm im cur : cur_good rpos ipos cur ->
  Forall pair_good (snd (terminal rreg ireg R Is rpos ipos rm im cur)).
Proof. intros Hc. unfold terminal. pose proof (term_read_good R rpos ipos rm) as H1. pose proof (term_iso_good Is rpos ipos im) as H2.
  destruct (term_read ireg R rpos ipos rm) as [rp ps1]. destruct (term_iso rreg Is rpos ipos im) as [ip ps2]. cbn [snd] in *.
  apply Forall_app. split; [eapply flush_good; eauto|]. apply Forall_app. split; assumption. Qed.

Lemma to_nat_succ z : 0 <= z -> Z.to_nat (z + 1) = Datatypes.S (Z.to_nat z). Proof. lia. Qed.

Theorem sweep_pairs_good : forall fuel R Is rpos ipos rm im cur, 0 <= rpos -> 0 <= ipos ->
  R = skipn (Z.to_nat rpos) Rf -> Is = skipn (Z.to_nat ipos) If -> cur_good rpos ipos cur ->
  Forall pair_good (snd (sweep delta rreg ireg fuel R Is rpos ipos rm im cur)).
Proof. induction fuel as [|f IH]; intros R Is rpos ipos rm im cur H0r H0i HR HI Hc.
  - destruct R as [|r R']; [|destruct Is as [|i I']]; cbn [sweep]; try (apply terminal_good; assumption). constructor.
  - destruct R as [|r R']; [|destruct Is as [|i I']]; cbn [sweep]; try (apply terminal_good; assumption).
    symmetry in HR, HI.
    destruct (skipn_cons_facts Rf _ r R' (0,0) HR) as (Hr & HR' & HlR).
    destruct (skipn_cons_facts If _ i I' (0,0) HI) as (Hi & HI' & HlI).
    rewrite <- to_nat_succ in HR', HI' by assumption. symmetry in HR', HI'. symmetry in HR, HI.
    pose proof (flush_good rpos ipos cur Hc) as Hf.
    destruct (py_equal_ranges i r delta).
    { specialize (IH R' I' (rpos + 1) (ipos + 1) 0 0 None ltac:(lia) ltac:(lia) HR' HI' I).
      destruct (sweep delta rreg ireg f R' I' (rpos + 1) (ipos + 1) 0 0 None) as [[rp ip] ps]. cbn [snd] in *.
      apply Forall_app. split; assumption. }
    destruct (py_overlaps i r) eqn:Eov.
    { set (c1 := match cur with
                 | None => ((rpos, rpos), (ipos, ipos))
                 | Some c => ((fst (fst c), rpos), (fst (snd c), ipos)) end).
      assert (Hc1: ov_ok c1 /\ snd (fst c1) = rpos /\ snd (snd c1) = ipos).
      { subst c1. destruct cur as [[[ra rb] [ia ib]]|]; cbn [fst snd].
        - destruct Hc as (Ho & Hb1 & Hb2). cbn [fst snd ov_ok] in *. destruct Ho as (O1 & O2 & O3 & O4 & O5 & O6).
          split; [|split; reflexivity]. unfold lenz in *.
          refine (conj _ (conj _ (conj _ (conj _ (conj _ _))))); try lia.
          intros E k Hk. destruct (Z_le_gt_dec k ib) as [Hle|Hgt].
          + apply O6; lia.
          + assert (k = ipos) by lia. subst k. rewrite E. rewrite !J_nth, Hr, Hi. exact Eov.
        - split; [|split; reflexivity]. cbn [ov_ok]. unfold lenz.
          refine (conj _ (conj _ (conj _ (conj _ (conj _ _))))); try lia.
          + rewrite !J_nth, Hr, Hi. exact Eov.
          + intros _ k Hk. assert (k = ipos) by lia. subst k. rewrite !J_nth, Hr, Hi. exact Eov. }
      destruct Hc1 as (Ho1 & E1 & E2).
      destruct (snd r <? snd i).
      - specialize (IH R' (i :: I') (rpos + 1) ipos 0 (-1) (Some c1) ltac:(lia) ltac:(lia) HR' HI).
        match goal with |- context[sweep ?a ?b ?c ?d ?e ?g ?h ?k ?l ?m ?n] => destruct (sweep a b c d e g h k l m n) as [[rp ip] ps] end.
        apply IH. cbn [cur_good]. split; [exact Ho1|lia].
      - specialize (IH (r :: R') I' rpos (ipos + 1) (-1) 0 (Some c1) ltac:(lia) ltac:(lia) HR HI').
        match goal with |- context[sweep ?a ?b ?c ?d ?e ?g ?h ?k ?l ?m ?n] => destruct (sweep a b c d e g h k l m n) as [[rp ip] ps] end.
        apply IH. cbn [cur_good]. split; [exact Ho1|lia]. }
    destruct (py_left_of i r).
    { specialize (IH (r :: R') I' rpos (ipos + 1) rm 0 None ltac:(lia) ltac:(lia) HR HI' I). cbv zeta.
      destruct (sweep delta rreg ireg f (r :: R') I' rpos (ipos + 1) rm 0 None) as [[rp ip] ps]. cbn [snd] in *.
      apply Forall_app. split; [exact Hf|]. apply Forall_app. split; [|exact IH].
      destruct (((0 <? rpos) || py_overlaps rreg i) && negb (im =? -1)); [|constructor]. constructor; [|constructor]. right; left. eauto. }
    specialize (IH R' (i :: I') (rpos + 1) ipos 0 im None ltac:(lia) ltac:(lia) HR' HI I). cbv zeta.
    destruct (sweep delta rreg ireg f R' (i :: I') (rpos + 1) ipos 0 im None) as [[rp ip] ps]. cbn [snd] in *.
    apply Forall_app. split; [exact Hf|]. apply Forall_app. split; [|exact IH].
    destruct (((0 <? ipos) || py_overlaps ireg r) && negb (rm =? -1)); [|constructor]. constructor; [|constructor]. left. eauto.
Qed.
End SweepInv.

Theorem phase1_pairs_good delta rreg ireg R II : Forall (pair_good R II) (snd (phase1 delta rreg ireg R II)).
Proof. unfold phase1. apply sweep_pairs_good; try lia; try reflexivity. Qed.

(* ================================================================ what the corrector's loop needs to know about an event *)
Definition ev_good (P:params) (rreg:iv) (R:list iv) (ireg:iv) (II:list iv) (e:event) : Prop :=
  let a := fst (e_read e) in let b := snd (e_read e) in let ia := fst (e_iso e) in let ib := snd (e_iso e) in
  (a = absent ->
     0 <= b <= lenz R /\
     (is_type e MES_fake_micro_intron_retention = true ->
        0 <= ia < lenz II /\ py_contains_well_inside (exon rreg R b) (J II ia) (p_minimal_exon_overlap P) = true)) /\
  (a <> absent ->
     0 <= a <= b /\ b < lenz R /\
     (is_type e MES_fake_terminal_exon_left = true ->
        a = 0 /\ b = 0 /\ py_interval_len (exon rreg R 0) <= p_max_fake_terminal_exon_len P) /\
     (is_type e MES_fake_terminal_exon_right = true -> a = lenz R - 1 /\ b = lenz R - 1) /\
     (is_type e MES_terminal_exon_misalignment_left = true ->
        a = 0 /\ b = 0 /\ ia = 0 /\ 0 < lenz II /\ 1 < lenz R /\ py_overlaps (J II 0) (J R 0) = true /\
        Z.abs (snd (J R 0) - snd (J II 0)) <= 2 * p_delta P) /\
     (is_type e MES_terminal_exon_misalignment_right = true ->
        a = lenz R - 1 /\ b = lenz R - 1 /\ ia = lenz II - 1 /\ 0 < lenz II /\ 1 < lenz R /\
        py_overlaps (J II (lenz II - 1)) (J R (lenz R - 1)) = true /\
        Z.abs (fst (J R (lenz R - 1)) - fst (J II (lenz II - 1))) <= 2 * p_delta P) /\
     (is_type e MES_intron_shift = true \/ is_type e MES_exon_misalignment = true ->
        a = b /\ 0 <= ia <= ib /\ ib < lenz II /\ surrounded_of rreg R ireg II a a ia ib = true /\
        forall k, ia <= k <= ib -> py_overlaps (J II k) (J R a) = true)).

Lemma major_not_special t : ev_major t = true ->
  MES_eqb t MES_fake_terminal_exon_left = false /\ MES_eqb t MES_fake_terminal_exon_right = false /\
  MES_eqb t MES_terminal_exon_misalignment_left = false /\ MES_eqb t MES_terminal_exon_misalignment_right = false /\
  MES_eqb t MES_intron_shift = false /\ MES_eqb t MES_exon_misalignment = false /\ MES_eqb t MES_fake_micro_intron_retention = false.
Proof. destruct t; intros H; try (repeat split; reflexivity); vm_compute in H; discriminate H. Qed.

Ltac no_type := let Ht := fresh "Ht" in intros Ht; cbv in Ht; discriminate Ht.
Ltac no_type2 := let Ht := fresh "Ht" in intros [Ht|Ht]; cbv in Ht; discriminate Ht.

(* an event with a present read region and a type that no branch of the loop looks at *)
Lemma ev_good_plain P rreg R ireg II t iso a b : a <> absent -> 0 <= a <= b -> b < lenz R ->
  MES_eqb t MES_fake_terminal_exon_left = false -> MES_eqb t MES_fake_terminal_exon_right = false ->
  MES_eqb t MES_terminal_exon_misalignment_left = false -> MES_eqb t MES_terminal_exon_misalignment_right = false ->
  MES_eqb t MES_intron_shift = false -> MES_eqb t MES_exon_misalignment = false ->
  ev_good P rreg R ireg II (mkev t iso (a, b)).
Proof. intros Ha Hab Hb T1 T2 T3 T4 T5 T6. unfold ev_good, is_type. cbn [Corrector.e_read Corrector.e_iso Corrector.e_type fst snd].
  split; [intros; contradiction|]. intros _. rewrite T1, T2, T3, T4, T5, T6.
  do 6 (split; [first [lia|intros; discriminate]|]). intros [?|?]; discriminate. Qed.

Lemma rpair_ok_facts nR nI ra rb ia ib : rpair_ok nR nI ((ra, rb), (ia, ib)) = true ->
  (ra = absent -> 0 <= rb <= nR /\ ia <> absent) /\ (ra <> absent -> 0 <= ra <= rb /\ rb < nR) /\
  (ia = absent -> 0 <= ib <= nI) /\ (ia <> absent -> 0 <= ia <= ib /\ ib < nI).
Proof. unfold rpair_ok. destruct (ra =? absent) eqn:E1; destruct (ia =? absent) eqn:E2; cbn [andb negb]; intros H; lia. Qed.

Lemma type_pair_good P known rreg R ireg II c e : lenz R < absent -> lenz II < absent ->
  rpair_ok (lenz R) (lenz II) c = true -> pair_good R II c ->
  type_pair P known rreg R ireg II c = Some e -> ev_good P rreg R ireg II e.
Proof. intros HbR HbI Hrp Hpg. destruct c as [[ra rb] [ia ib]]. apply rpair_ok_facts in Hrp. destruct Hrp as (F1 & F2 & F3 & F4).
  destruct Hpg as [(p & q & E)|[(p & q & E)|Ho]].
  - (* read junction without isoform counterpart *)
    inversion E; subst. clear E. assert (Hp: p <> absent) by (intros ->; destruct (F1 eq_refl) as (_ & C); congruence).
    specialize (F2 Hp). specialize (F3 eq_refl). unfold type_pair.
    destruct (p =? absent) eqn:E1; [lia|]. rewrite Z.eqb_refl.
    destruct (known (seg R p p)).
    { intros H; inversion H; subst. apply ev_good_plain; (lia || reflexivity). }
    destruct (suspicious P rreg R p p).
    { intros H; inversion H; subst. apply ev_good_plain; (lia || reflexivity). }
    destruct ((p =? 0) && (py_interval_len (exon rreg R 0) <=? p_max_fake_terminal_exon_len P)) eqn:G1.
    { intros H; inversion H; subst. unfold ev_good. cbn [Corrector.e_read Corrector.e_iso Corrector.e_type fst snd].
      split; [intros; contradiction|]. intros _. do 6 (split; [first [lia|no_type]|]). no_type2. }
    destruct ((p =? lenz R - 1) && (py_interval_len (exon rreg R (lenz R)) <=? p_max_fake_terminal_exon_len P)) eqn:G2.
    { intros H; inversion H; subst. unfold ev_good. cbn [Corrector.e_read Corrector.e_iso Corrector.e_type fst snd].
      split; [intros; contradiction|]. intros _. do 6 (split; [first [lia|no_type]|]). no_type2. }
    intros H; inversion H; subst. apply ev_good_plain; (lia || reflexivity).
  - (* isoform junction without read counterpart *)
    inversion E; subst. clear E. destruct (F1 eq_refl) as (Hb & Hq). specialize (F4 Hq). unfold type_pair. rewrite Z.eqb_refl.
    assert (G: forall t, MES_eqb t MES_fake_micro_intron_retention = false -> ev_good P rreg R ireg II (mkev t (q, q) (absent, p))).
    { intros t Ht. unfold ev_good, is_type. cbn [Corrector.e_read Corrector.e_iso Corrector.e_type fst snd]. rewrite Ht.
      split; [intros _; split; [lia|intros; discriminate]|intros; contradiction]. }
    destruct (py_contains rreg (J II q)).
    { destruct ((py_interval_len (J II q) <=? p_micro_intron_length P) &&
                py_contains_well_inside (exon rreg R p) (J II q) (p_minimal_exon_overlap P)) eqn:G1;
        intros H; inversion H; subst; [|apply G; reflexivity].
      unfold ev_good. cbn [Corrector.e_read Corrector.e_iso Corrector.e_type fst snd].
      split; [|intros; contradiction]. intros _. split; [lia|]. intros _. apply andb_true_iff in G1. split; [lia|tauto]. }
    destruct (py_overlaps_at_least rreg (J II q) (p_minor_ext P)); [|discriminate].
    destruct (fst (J II q) <=? fst rreg); intros H; inversion H; subst; apply G; reflexivity.
  - (* both present *)
    cbn [ov_ok] in Ho. destruct Ho as (O1 & O2 & O3 & O4 & O5 & O6).
    assert (Hra: ra <> absent) by lia. assert (Hia: ia <> absent) by lia.
    unfold type_pair. destruct (ra =? absent) eqn:E1; [lia|]. destruct (ia =? absent) eqn:E2; [lia|].
    intros H; inversion H; subst e. clear H.
    unfold ev_good, is_type. cbn [Corrector.e_read Corrector.e_iso Corrector.e_type fst snd].
    split; [intros; contradiction|]. intros _. split; [lia|]. split; [lia|].
    destruct (both_present_cases P known rreg R ireg II ra rb ia ib) as [H|[H|[H|[H|H]]]].
    + apply major_not_special in H. destruct H as (T1 & T2 & T3 & T4 & T5 & T6 & _). rewrite T1, T2, T3, T4, T5, T6.
      do 4 (split; [intros; discriminate|]). intros [?|?]; discriminate.
    + destruct H as (-> & Hb & Hi & _ & _ & Hs). subst rb ib.
      do 4 (split; [no_type|]). intros _. split; [lia|]. split; [lia|]. split; [lia|]. split; [exact Hs|]. intros k Hk. apply O6; [reflexivity|exact Hk].
    + destruct H as (-> & Hb & Hi & _ & Hs & _). subst rb.
      do 4 (split; [no_type|]). intros _. split; [lia|]. split; [lia|]. split; [lia|]. split; [exact Hs|]. intros k Hk. apply O6; [reflexivity|exact Hk].
    + destruct H as (-> & Hb & Hi & Ha0 & Hi0 & Hn & Hab & _). subst rb ib ra ia.
      split; [no_type|]. split; [no_type|]. split; [|split; [no_type|no_type2]]. intros _. repeat split; try lia; try exact O5.
    + destruct H as (-> & Hb & Hi & Ha0 & Hi0 & Hn & Hab & _). subst rb ib ra ia.
      split; [no_type|]. split; [no_type|]. split; [no_type|]. split; [|no_type2]. intros _. repeat split; try lia; try exact O5.
Qed.

Lemma flank_left_good P rreg R ireg II : forall rp pos, lenz R < absent -> 0 <= pos -> pos + lenz rp <= lenz R ->
  Forall (ev_good P rreg R ireg II) (flank_left pos rp).
Proof. induction rp as [|v t IH]; intros pos HR H0 HL; [constructor|]. rewrite lenz_cons in HL. pose proof (lenz_nonneg _ t).
  cbn [flank_left]. destruct (v =? 0); [|constructor]. constructor; [|apply IH; lia].
  apply ev_good_plain; (lia || reflexivity). Qed.
Lemma flank_right_good P rreg R ireg II : forall rrp pos, lenz R < absent -> pos < lenz R -> 0 <= pos - lenz rrp + 1 ->
  Forall (ev_good P rreg R ireg II) (flank_right pos rrp).
Proof. induction rrp as [|v t IH]; intros pos HR H0 HL; [constructor|]. rewrite lenz_cons in HL. pose proof (lenz_nonneg _ t).
  cbn [flank_right]. destruct (v =? 0); [|constructor]. constructor; [|apply IH; lia].
  apply ev_good_plain; (lia || reflexivity). Qed.

Lemma extra_out_good P rreg R ireg II rp : lenz R < absent -> 0 < lenz R -> lenz rp = lenz R ->
  Forall (ev_good P rreg R ireg II) (extra_out P rreg R ireg rp).
Proof. intros HR Hpos HL. unfold extra_out. cbv zeta. apply Forall_app. split.
  - destruct (_ && _); [|constructor].
    destruct (py_interval_len (exon rreg R 0) <=? p_max_fake_terminal_exon_len P) eqn:G; [|apply flank_left_good; lia].
    constructor; [|apply flank_left_good; try lia; rewrite lenz_tl; lia].
    unfold ev_good. cbn [Corrector.e_read Corrector.e_iso Corrector.e_type fst snd].
    split; [intros C; discriminate C|]. intros _. do 6 (split; [first [lia|no_type]|]). no_type2.
  - destruct (_ && _); [|constructor].
    destruct (py_interval_len (exon rreg R (lenz R)) <=? p_max_fake_terminal_exon_len P) eqn:G;
      [|apply flank_right_good; try lia; rewrite lenz_rev; lia].
    constructor; [|apply flank_right_good; try lia; rewrite lenz_tl, lenz_rev; lia].
    unfold ev_good. cbn [Corrector.e_read Corrector.e_iso Corrector.e_type fst snd].
    split; [intros C; unfold absent, SMC_absent_position in *; lia|]. intros _. do 6 (split; [first [lia|no_type]|]). no_type2.
Qed.

(* every event of the comparator that has a read region is good *)
Theorem comparator_events_good P known rreg R ireg II e : R <> [] -> lenz R < absent -> lenz II < absent ->
  In e (compare_junctions P known rreg R ireg II) -> e_read e <> undefined_region -> ev_good P rreg R ireg II e.
Proof. intros Hne HR HI Hin Hdef. unfold compare_junctions in Hin. destruct R as [|r R'] eqn:ER; [congruence|]. rewrite <- ER in *.
  assert (Hpos: 0 < lenz R) by (rewrite ER, lenz_cons; pose proof (lenz_nonneg _ R'); lia).
  pose proof (phase1_pairs_wf (p_delta P) rreg ireg R II HR HI) as Hwf.
  pose proof (phase1_pairs_good (p_delta P) rreg ireg R II) as Hpg.
  pose proof (phase1_length_rp (p_delta P) rreg ireg R II) as HL.
  destruct (phase1 (p_delta P) rreg ireg R II) as [[rp ip] ps]. cbn [fst snd] in *.
  unfold events_of in Hin. cbv zeta in Hin.
  set (ev1 := if has_m1 rp || has_m1 ip then detect P known rreg R ireg II ps else []) in *.
  assert (H1: Forall (ev_good P rreg R ireg II) ev1).
  { subst ev1. destruct (has_m1 rp || has_m1 ip); [|constructor]. unfold detect. apply Forall_forall. intros x Hx.
    apply in_flat_map in Hx. destruct Hx as (c & Hc & Hx). destruct (type_pair P known rreg R ireg II c) as [e'|] eqn:T; [|destruct Hx].
    destruct Hx as [<-|[]]. rewrite forallb_forall in Hwf. rewrite Forall_forall in Hpg.
    eapply type_pair_good; eauto. }
  set (ev2 := if (hd 1 rp =? 0) || (last rp 1 =? 0) then ev1 ++ extra_out P rreg R ireg rp else ev1) in *.
  assert (H2: Forall (ev_good P rreg R ireg II) ev2).
  { subst ev2. destruct ((hd 1 rp =? 0) || (last rp 1 =? 0)); [|exact H1]. apply Forall_app. split; [exact H1|].
    apply extra_out_good; try assumption. unfold lenz. rewrite HL. reflexivity. }
  rewrite Forall_forall in H2. destruct ev2 as [|e0 t]; [|apply H2; exact Hin].
  destruct Hin as [<-|[]]. exfalso. apply Hdef. reflexivity.
Qed.

(* ================================================================ the event map, with what build_map checks *)
Definition entry_ok2 (fl:flags) (evs:list event) (p:Z*event) : Prop :=
  In (snd p) evs /\ iv_eqb (e_read (snd p)) (undefined_position, undefined_position) = false /\
  ((fst p = fst (e_read (snd p)) /\ fst (e_read (snd p)) <> absent_position) \/
   (fst p = - snd (e_read (snd p)) - 1 /\ fst (e_read (snd p)) = absent_position /\ f_microintron fl = true /\
    is_type (snd p) MES_fake_micro_intron_retention = true)).
Lemma build_map_entries2 fl evs : Forall (entry_ok2 fl evs) (build_map fl evs).
Proof. unfold build_map.
  assert (G: forall evs0 m, Forall (entry_ok2 fl evs) m -> incl evs0 evs ->
             Forall (entry_ok2 fl evs) (fold_left (fun m e =>
               if iv_eqb (e_read e) (undefined_position, undefined_position) then m
               else if fst (e_read e) =? absent_position then
                 (if is_type e MES_fake_micro_intron_retention && f_microintron fl then (- snd (e_read e) - 1, e) :: m else m)
               else (fst (e_read e), e) :: m) evs0 m)).
  { induction evs0 as [|e t IH]; intros m Hm Hi; [exact Hm|]. cbn [fold_left]. apply IH; [|intros x Hx; apply Hi; right; exact Hx].
    assert (He: In e evs) by (apply Hi; left; reflexivity).
    destruct (iv_eqb _ _) eqn:Eu; [exact Hm|]. destruct (fst (e_read e) =? absent_position) eqn:Ea.
    - destruct (is_type e MES_fake_micro_intron_retention && f_microintron fl) eqn:Ef; [|exact Hm].
      constructor; [|exact Hm]. split; [exact He|]. split; [exact Eu|]. right. cbn [fst snd]. apply andb_true_iff in Ef.
      repeat split; [lia|tauto|tauto].
    - constructor; [|exact Hm]. split; [exact He|]. split; [exact Eu|]. left. cbn [fst snd]. split; [reflexivity|lia]. }
  apply G; [constructor|apply incl_refl]. Qed.
Lemma lookup_entry2 fl evs k e : lookup (build_map fl evs) k = Some e -> entry_ok2 fl evs (k, e).
Proof. intros H. apply lookup_In in H. pose proof (build_map_entries2 fl evs) as F. rewrite Forall_forall in F. exact (F _ H). Qed.

(* ================================================================ the introns after fuzzy-junction correction stay close to the read's *)
Definition near (df:Z) (r x:iv) : Prop :=
  fst r - df <= fst x <= fst r + df /\ snd r - df <= snd x <= snd r + df /\ fst x <= snd x.

Lemma fuzzy_unrepaired_near d K : forall reads pots, Forall2 (fun r k => k = r \/ matched_to d K r k) reads pots -> forall orc, 0 <= d ->
  Forall (fun r => fst r + d <= snd r /\ ((forall k, In k K -> fst k <= snd k) \/ fst r + 2 * d <= snd r)) reads ->
  Forall2 (near d) reads (fuzzy_unrepaired reads pots orc).
Proof. induction 1 as [|r k rs ks Hrk H IH]; intros orc Hd HF; [constructor|]. inversion HF as [|? ? (Hr & Hw) HF']; subst.
  cbn [fuzzy_unrepaired]. constructor; [|apply IH; assumption]. clear IH HF HF' H.
  assert (Hk: (k = r) \/ (Z.abs (fst r - fst k) <= d /\ Z.abs (snd r - snd k) <= d /\ (fst k <= snd k \/ fst r + 2 * d <= snd r))).
  { destruct Hrk as [->|(Hin & He)]; [left; reflexivity|right]. unfold py_equal_ranges in He.
    destruct Hw as [Hw|Hw]; [specialize (Hw k Hin)|]; lia. }
  clear Hrk Hw. unfold near. cbn [fst snd].
  destruct (fst r =? fst k) eqn:E1; destruct (snd r =? snd k) eqn:E2;
    destruct (keep_read_site (fst (hd (0, 0, (0, 0)) orc))); destruct (keep_read_site (snd (hd (0, 0, (0, 0)) orc)));
    (destruct Hk as [->|Hk]; lia). Qed.

(* the repaired fuzzy correction keeps every intron well-formed by construction *)
Lemma fuzzy_near d K region : forall reads pots, Forall2 (fun r k => k = r \/ matched_to d K r k) reads pots -> forall pe orc, 0 <= d ->
  Forall (fun r => fst r <= snd r) reads -> Forall2 (near d) reads (fuzzy region pe reads pots orc).
Proof. induction 1 as [|r k rs ks Hrk H IH]; intros pe orc Hd HF; [constructor|]. inversion HF as [|? ? Hr HF']; subst.
  cbn [fuzzy]. cbv zeta. constructor; [|apply IH; assumption]. clear IH HF HF' H.
  assert (Hk: Z.abs (fst r - fst k) <= d /\ Z.abs (snd r - snd k) <= d).
  { destruct Hrk as [->|(Hin & He)]; [lia|]. unfold py_equal_ranges in He. lia. }
  clear Hrk.
  set (lower := match pe with Some e => e + 1 | None => fst region end). clearbody lower.
  set (upper := match rs with r' :: _ => fst r' - 1 | [] => snd region end). clearbody upper.
  set (l0 := if fst r =? fst k then fst r else if keep_read_site (fst (hd (0, 0, (0, 0)) orc)) then fst r else fst k).
  set (r0 := if snd r =? snd k then snd r else if keep_read_site (snd (hd (0, 0, (0, 0)) orc)) then snd r else snd k).
  assert (Hl0: l0 = fst r \/ l0 = fst k) by (subst l0; repeat match goal with |- context[if ?c then _ else _] => destruct c end; tauto).
  assert (Hr0: r0 = snd r \/ r0 = snd k) by (subst r0; repeat match goal with |- context[if ?c then _ else _] => destruct c end; tauto).
  clearbody l0 r0. unfold near.
  destruct (l0 <=? lower); destruct (upper <=? r0);
    match goal with |- context[if ?c then r else _] => destruct c eqn:C end; cbn [fst snd]; lia. Qed.

Lemma Forall2_refl_near l : Forall (fun r => fst r <= snd r) l -> Forall2 (near 0) l l.
Proof. induction 1; constructor; [unfold near; lia|assumption]. Qed.

Ltac flia := repeat match goal with H : forall _, _ |- _ => clear H end; lia.

(* ================================================================ the loop of process_events, abstractly:
   read exon k = (L k, E k) for 0 <= k <= n, read junction k = (E k + 1, L (k+1) - 1) *)
Section Loop.
Variables (vr:variant) (fl:flags) (d moe df mfte n:Z) (L E:Z -> Z) (R CI II:list iv) (ireg:iv) (emap:list (Z*event)).
Let nI := lenz II.

Definition nearP (k:Z) (x:iv) : Prop :=
  E k + 1 - df <= fst x <= E k + 1 + df /\ L (k + 1) - 1 - df <= snd x <= L (k + 1) - 1 + df /\ fst x <= snd x.

Definition gp (e:event) : Prop :=
  let a := fst (e_read e) in let b := snd (e_read e) in let ia := fst (e_iso e) in let ib := snd (e_iso e) in
  0 <= a <= b /\ b < n /\
  (is_type e MES_fake_terminal_exon_left = true -> a = 0 /\ b = 0 /\ E 0 - L 0 + 1 <= mfte) /\
  (is_type e MES_fake_terminal_exon_right = true -> a = n - 1 /\ b = n - 1) /\
  (is_type e MES_terminal_exon_misalignment_left = true ->
     a = 0 /\ b = 0 /\ ia = 0 /\ 0 < nI /\ 1 < n /\
     fst (J II 0) <= L 1 - 1 /\ E 0 + 1 <= snd (J II 0) /\ snd (J II 0) <= L 1 - 1 + 2 * d) /\
  (is_type e MES_terminal_exon_misalignment_right = true ->
     a = n - 1 /\ b = n - 1 /\ ia = nI - 1 /\ 0 < nI /\ 1 < n /\
     fst (J II (nI - 1)) <= L n - 1 /\ E (n - 1) + 1 <= snd (J II (nI - 1)) /\ E (n - 1) + 1 - 2 * d <= fst (J II (nI - 1))) /\
  (is_type e MES_intron_shift = true \/ is_type e MES_exon_misalignment = true ->
     a = b /\ 0 <= ia <= ib /\ ib < nI /\ L a < fst (J II ia) /\ snd (J II ib) < E (a + 1) /\
     forall k, ia <= k <= ib -> fst (J II k) <= L (a + 1) - 1 /\ E a + 1 <= snd (J II k)).
Definition gf (e:event) : Prop :=
  let b := snd (e_read e) in let ia := fst (e_iso e) in
  0 <= b <= n /\ 0 <= ia < nI /\ L b + moe <= fst (J II ia) /\ snd (J II ia) + moe <= E b.

Hypothesis Hn : 1 <= n.
Hypothesis Hdf : 0 <= df <= d.
Hypothesis Hmoe : 0 < moe.
Hypothesis HLE : forall k, 0 <= k <= n -> L k + 2 * d <= E k.
Hypothesis HEL : forall k, 0 <= k < n -> E k + df + 2 <= L (k + 1).
Hypothesis HRlen : lenz R = n.
Hypothesis HR : forall k, 0 <= k < n -> J R k = (E k + 1, L (k + 1) - 1).
Hypothesis HCIlen : lenz CI = n.
Hypothesis HCI : forall k, 0 <= k < n -> nearP k (J CI k).
Hypothesis HIIwf : forall k, 0 <= k < nI -> fst (J II k) <= snd (J II k).
Hypothesis HIIord : forall k, 0 <= k -> k + 1 < nI -> snd (J II k) + 1 < fst (J II (k + 1)).
Hypothesis HIIin : forall k, 0 <= k < nI -> fst ireg < fst (J II k) /\ snd (J II k) < snd ireg.
Hypothesis Hdfm : f_microintron fl = true -> df <= moe + 1.
Hypothesis Hleft : v_fake vr = false -> f_fake_terminal fl = true -> f_microintron fl = true ->
  mfte < E 0 - L 0 + 1 \/ forall q, 0 <= q < nI -> ~ (L 0 + moe <= fst (J II q) /\ snd (J II q) + moe <= E 0).
Hypothesis Hmap : forall key e, lookup emap key = Some e ->
  (key = fst (e_read e) /\ gp e) \/ (key = - snd (e_read e) - 1 /\ f_microintron fl = true /\ gf e).

(* ---------------------------------------------------------------- order facts *)
Lemma LE_nat : forall m i, 0 <= i -> i + Z.of_nat m <= n -> L i <= L (i + Z.of_nat m) /\ E i <= E (i + Z.of_nat m).
Proof. induction m as [|m IH]; intros i Hi Hm.
  - replace (i + Z.of_nat 0) with i by lia. lia.
  - destruct (IH i Hi ltac:(lia)) as (I1 & I2). replace (i + Z.of_nat (Datatypes.S m)) with (i + Z.of_nat m + 1) by lia.
    pose proof (HLE (i + Z.of_nat m) ltac:(lia)). pose proof (HEL (i + Z.of_nat m) ltac:(lia)).
    pose proof (HLE (i + Z.of_nat m + 1) ltac:(lia)). lia. Qed.
Lemma LE_mono i j : 0 <= i <= j -> j <= n -> L i <= L j /\ E i <= E j.
Proof. intros Hij Hj. replace j with (i + Z.of_nat (Z.to_nat (j - i))) by lia. apply LE_nat; lia. Qed.
Lemma EL_strict i j : 0 <= i < j -> j <= n -> E i < L j.
Proof. intros Hij Hj. pose proof (HEL i ltac:(lia)). destruct (LE_mono (i + 1) j ltac:(lia) Hj). lia. Qed.

Lemma II_nat : forall m k, 0 <= k -> k + Z.of_nat m < nI ->
  fst (J II k) <= fst (J II (k + Z.of_nat m)) /\ snd (J II k) <= snd (J II (k + Z.of_nat m)).
Proof. induction m as [|m IH]; intros k Hk Hm.
  - replace (k + Z.of_nat 0) with k by lia. lia.
  - destruct (IH k Hk ltac:(lia)) as (I1 & I2). replace (k + Z.of_nat (Datatypes.S m)) with (k + Z.of_nat m + 1) by lia.
    pose proof (HIIord (k + Z.of_nat m) ltac:(lia) ltac:(lia)). pose proof (HIIwf (k + Z.of_nat m) ltac:(lia)).
    pose proof (HIIwf (k + Z.of_nat m + 1) ltac:(lia)). lia. Qed.
Lemma II_mono k k' : 0 <= k <= k' -> k' < nI -> fst (J II k) <= fst (J II k') /\ snd (J II k) <= snd (J II k').
Proof. intros H1 H2. replace k' with (k + Z.of_nat (Z.to_nat (k' - k))) by lia. apply II_nat; lia. Qed.
Lemma II_by_end k k' : 0 <= k < nI -> 0 <= k' < nI -> snd (J II k) < snd (J II k') -> fst (J II k) <= fst (J II k').
Proof. intros H1 H2 H3. destruct (Z_le_gt_dec k k') as [C|C]; [apply II_mono; lia|].
  destruct (II_mono k' k ltac:(lia) ltac:(lia)). lia. Qed.

Lemma R_near k : 0 <= k < n -> nearP k (J R k).
Proof. intros Hk. rewrite (HR k Hk). unfold nearP. cbn [fst snd]. pose proof (HEL k Hk). lia. Qed.

(* ---------------------------------------------------------------- the parts of one block *)
Definition fkP (i:Z) (fk:list iv) : Prop :=
  fk = [] \/ (f_microintron fl = true /\ exists q, 0 <= q < nI /\ fk = [J II q] /\ L i + moe <= fst (J II q) /\ snd (J II q) + moe <= E i).
Definition afterfk (i:Z) (x:iv) : Prop := E i + 1 - df <= fst x \/ (exists k', 0 <= k' < nI /\ x = J II k' /\ E i < snd x).

Lemma fk_ok i : 0 <= i < n -> exists fk,
  (match lookup emap (- i - 1) with
   | Some e => match py_nth II (fst (e_iso e)) with Some x => Ok [x] | None => Raises 1 end
   | None => Ok [] end) = Ok fk /\ fkP i fk.
Proof. intros Hi. destruct (lookup emap (- i - 1)) as [e|] eqn:Lk; [|exists []; split; [reflexivity|left; reflexivity]].
  destruct (Hmap _ _ Lk) as [(Hk & Hg)|(Hk & Hm & Hg)].
  - exfalso. unfold gp in Hg. cbv zeta in Hg. lia.
  - unfold gf in Hg. cbv zeta in Hg. destruct Hg as (G1 & G2 & G3 & G4). assert (Eb: snd (e_read e) = i) by lia. rewrite Eb in *.
    rewrite (py_nth_J II (fst (e_iso e))) by (fold nI; lia). eexists. split; [reflexivity|]. right. split; [exact Hm|].
    exists (fst (e_iso e)). repeat split; try lia. Qed.

Lemma fk_lo i fk : fkP i fk -> Forall (fun x => L i < fst x) fk.
Proof. intros [->|(_ & q & _ & -> & H1 & _)]; [constructor|]. constructor; [lia|constructor]. Qed.
Lemma fk_ireg i fk : fkP i fk -> Forall (fun x => fst ireg < fst x) fk.
Proof. intros [->|(_ & q & Hq & -> & _)]; [constructor|]. constructor; [apply HIIin; exact Hq|constructor]. Qed.

Lemma parts_ok i j lo hi fk l : 0 <= i < j -> j <= n -> fkP i fk -> Forall (fun x => lo < fst x) fk -> E i <= hi -> mono l ->
  Forall (fun x => lo < fst x /\ fst x < L j /\ snd x < hi /\ afterfk i x) l ->
  mono (fk ++ l) /\ Forall (fun x => lo < fst x /\ fst x < L j /\ snd x < hi) (fk ++ l).
Proof. intros Hij Hj Hfk Hlo Hhi Hm Hl.
  assert (Hl': Forall (fun x => lo < fst x /\ fst x < L j /\ snd x < hi) l) by (eapply Forall_impl; [|exact Hl]; cbn; tauto).
  destruct Hfk as [->|(Hmi & q & Hq & -> & H1 & H2)]; [split; assumption|].
  pose proof (HIIwf q Hq) as Hw. pose proof (EL_strict i j ltac:(lia) Hj) as Hs. pose proof (Hdfm Hmi) as Hdfm1.
  split.
  - cbn [app]. apply mono_cons_Forall; [exact Hw| |exact Hm]. eapply Forall_impl; [|exact Hl]. cbn.
    intros x (_ & _ & _ & [Ha|(k' & Hk' & -> & Ha)]); [lia|]. apply II_by_end; [exact Hq|exact Hk'|lia].
  - cbn [app]. constructor; [|exact Hl']. inversion Hlo; subst. lia. Qed.

Lemma near_run_ok Z a b : lenz Z = n -> (forall k, 0 <= k < n -> nearP k (J Z k)) -> 0 <= a <= b -> b < n ->
  mono (run Z a b) /\ Forall (fun x => L a < fst x /\ fst x < L (b + 1) /\ snd x < E (b + 1) /\ afterfk a x) (run Z a b).
Proof. intros HZ Hnear Hab Hb. split.
  - apply run_mono.
    + intros k Hk. destruct (Hnear k ltac:(lia)) as (_ & _ & H). exact H.
    + intros k Hk1 Hk2. destruct (Hnear k ltac:(lia)) as (H1 & _). destruct (Hnear (k + 1) ltac:(lia)) as (H2 & _).
      pose proof (HEL k ltac:(lia)). pose proof (HLE (k + 1) ltac:(lia)). lia.
  - apply run_Forall. intros k Hk. destruct (Hnear k ltac:(lia)) as (H1 & H2 & _).
    destruct (LE_mono a k ltac:(lia) ltac:(lia)) as (M1 & M2). destruct (LE_mono (k + 1) (b + 1) ltac:(lia) ltac:(lia)) as (M3 & M4).
    pose proof (HLE k ltac:(lia)). pose proof (HEL k ltac:(lia)). pose proof (HLE (k + 1) ltac:(lia)).
    repeat split; try lia. left. lia. Qed.

Lemma run_single (l:list iv) i : run l i i = [J l i].
Proof. unfold run, Corrector.zrange. replace (i + 1 - i) with 1 by lia. reflexivity. Qed.

(* ---------------------------------------------------------------- one iteration *)
Definition lo_of (i:Z) (b:block) : Z := match b_upd b with SetStart w | DropStart w => w | _ => L i end.
Definition hi_of (b:block) : Z := match b_upd b with SetEnd w => w | _ => E (b_next b) end.
Definition blockP (i:Z) (b:block) : Prop :=
  b_i b = i /\ i < b_next b <= n /\ mono (b_all b) /\
  Forall (fun x => lo_of i b < fst x /\ fst x < L (b_next b) /\ snd x < hi_of b) (b_all b) /\
  match b_upd b with NoUpd => True | SetStart w => i = 0 /\ w <= L (b_next b) | SetEnd w => b_next b = n /\ E i <= w
  | DropStart w => i = 0 /\ w <= L (b_next b) /\ b_all b = [] end.

Lemma blockP_intro i j fk l u : 0 <= i < j -> j <= n -> fkP i fk ->
  Forall (fun x => match u with SetStart w | DropStart w => w | _ => L i end < fst x) fk ->
  E i <= match u with SetEnd w => w | _ => E j end -> mono l ->
  Forall (fun x => match u with SetStart w | DropStart w => w | _ => L i end < fst x /\ fst x < L j /\
                   snd x < match u with SetEnd w => w | _ => E j end /\ afterfk i x) l ->
  match u with NoUpd => True | SetStart w => i = 0 /\ w <= L j | SetEnd w => j = n /\ E i <= w
  | DropStart w => i = 0 /\ w <= L j /\ fk ++ l = [] end ->
  blockP i (mkblock i j fk l u).
Proof. intros Hij Hj Hfk Hlo Hhi Hm Hl Hu.
  destruct (parts_ok i j _ _ fk l Hij Hj Hfk Hlo Hhi Hm Hl) as (P1 & P2).
  unfold blockP, b_all, lo_of, hi_of. cbn [b_i b_next b_fake b_emit b_upd]. repeat split; try lia; assumption. Qed.

Lemma step_ok i : 0 <= i < n -> exists b, step_v vr fl d (L 0, E n) R CI ireg II emap i = Ok b /\ blockP i b.
Proof.
  intros Hi. unfold step_v. destruct (fk_ok i Hi) as (fk & -> & Hfk).
  pose proof (LE_mono i (i + 1) ltac:(flia) ltac:(flia)) as (Mi1 & Mi2).
  destruct (lookup emap i) as [e|] eqn:Lk.
  2:{ (* no event at i *)
    rewrite (py_nth_J CI i) by flia. cbn [opt_block]. eexists. split; [reflexivity|].
    destruct (near_run_ok CI i i HCIlen HCI ltac:(flia) ltac:(flia)) as (N1 & N2). rewrite run_single in N1, N2.
    apply blockP_intro; try flia; try assumption; try exact I; try (apply fk_lo; exact Hfk). }
  destruct (Hmap _ _ Lk) as [(Hk & Hg)|(Hk & _ & Hg)]; [|exfalso; unfold gf in Hg; cbv zeta in Hg; flia].
  unfold gp in Hg. cbv zeta in Hg. destruct Hg as (Gab & Gb & G1 & G2 & G3 & G4 & G5).
  set (a := fst (e_read e)) in *. set (b := snd (e_read e)) in *. subst i.
  pose proof (LE_mono a (b + 1) ltac:(flia) ltac:(flia)) as (Mb1 & Mb2).
  (* fake terminal exon, left *)
  destruct (is_type e MES_fake_terminal_exon_left && f_fake_terminal fl) eqn:B1.
  { apply andb_true_iff in B1. destruct B1 as (T & Ff). destruct (G1 T) as (Ea & Eb & Hlen). rewrite Ea, Eb in *.
    cbn [Z.eqb negb]. rewrite (py_nth_J R 0) by flia. rewrite (HR 0) by flia. cbn [opt_block snd].
    replace (L (0 + 1) - 1 + 1) with (L (0 + 1)) by flia.
    destruct (Bool.bool_dec (v_fake vr) true) as [Vf|Vf]; [|apply Bool.not_true_is_false in Vf]; rewrite Vf.
    - eexists. split; [reflexivity|]. apply blockP_intro; try flia; try (left; reflexivity); try constructor; try flia.
      repeat split; flia.
    - eexists. split; [reflexivity|].
      assert (Hnil: fk = []).
      { destruct Hfk as [->|(Hmi & q & Hq & -> & H1 & H2)]; [reflexivity|]. exfalso.
        destruct (Hleft Vf Ff Hmi) as [C|C]; [flia|]. apply (C q Hq). split; assumption. }
      subst fk. apply blockP_intro; try flia; try (left; reflexivity); try constructor; flia. }
  (* fake terminal exon, right *)
  destruct (is_type e MES_fake_terminal_exon_right && f_fake_terminal fl) eqn:B2.
  { apply andb_true_iff in B2. destruct B2 as (T & Ff). destruct (G2 T) as (Ea & Eb). rewrite Ea, Eb in *.
    rewrite Z.eqb_refl. cbn [negb]. rewrite (py_nth_J R (n - 1)) by flia. rewrite (HR (n - 1)) by flia. cbn [opt_block fst]. eexists. split; [reflexivity|].
    replace (E (n - 1) + 1 - 1) with (E (n - 1)) by flia. replace (n - 1 + 1) with n by flia.
    apply blockP_intro; try flia; try assumption; try (apply fk_lo; exact Hfk); try constructor; try flia. }
  (* terminal exon misalignment, left *)
  destruct (is_type e MES_terminal_exon_misalignment_left && f_terminal fl) eqn:B3.
  { apply andb_true_iff in B3. destruct B3 as (T & Ff). destruct (G3 T) as (Ea & Eb & Eia & HnI & Hn1 & F1 & F2 & F3). rewrite Ea, Eb, Eia in *.
    rewrite (py_nth_J II 0) by (fold nI; flia). cbn [opt_block]. eexists. split; [reflexivity|].
    pose proof (HIIin 0 ltac:(flia)) as (In1 & In2). pose proof (HIIwf 0 ltac:(flia)) as W0. pose proof (HLE 1 ltac:(flia)) as S1.
    apply blockP_intro; try flia; try assumption; try (apply fk_ireg; exact Hfk).
    - apply (fk_ireg 0 fk Hfk).
    - cbn [mono]. flia.
    - constructor; [|constructor]. replace (0 + 1) with 1 by flia. repeat split; try flia. right. exists 0. repeat split; flia.
    - replace (0 + 1) with 1 by flia. flia. }
  (* terminal exon misalignment, right *)
  destruct (is_type e MES_terminal_exon_misalignment_right && f_terminal fl) eqn:B4.
  { apply andb_true_iff in B4. destruct B4 as (T & Ff). destruct (G4 T) as (Ea & Eb & Eia & HnI & Hn1 & F1 & F2 & F3). rewrite Ea, Eb, Eia in *.
    rewrite (py_nth_J II (nI - 1)) by (fold nI; flia). cbn [opt_block]. eexists. split; [reflexivity|].
    pose proof (HIIin (nI - 1) ltac:(flia)) as (In1 & In2). pose proof (HIIwf (nI - 1) ltac:(flia)) as W0. pose proof (HLE (n - 1) ltac:(flia)) as S1.
    replace (n - 1 + 1) with n by flia.
    apply blockP_intro; try flia; try assumption; try (apply fk_lo; exact Hfk).
    - cbn [mono]. flia.
    - constructor; [|constructor]. repeat split; try flia. right. exists (nI - 1). repeat split; flia. }
  (* the remaining branches *)
  assert (Else: forall l0, (l0 = run CI a b \/ l0 = run R a b) ->
            exists b0, Ok (mkblock a (b + 1) fk l0 NoUpd) = Ok b0 /\ blockP a b0).
  { intros l0 Hl0. eexists. split; [reflexivity|].
    assert (N: mono l0 /\ Forall (fun x => L a < fst x /\ fst x < L (b + 1) /\ snd x < E (b + 1) /\ afterfk a x) l0).
    { destruct Hl0 as [-> | ->]; [apply near_run_ok; try assumption; flia|apply near_run_ok; try assumption; try flia; apply R_near]. }
    destruct N as (N1 & N2). apply blockP_intro; try flia; try assumption; try exact I; try (apply fk_lo; exact Hfk). }
  assert (Else2: exists b0, (if mes_mem (e_type e) known_structure_types
                             then opt_block (py_slice CI a b) (fun l => mkblock a (b + 1) fk l NoUpd)
                             else opt_block (py_slice R a b) (fun l => mkblock a (b + 1) fk l NoUpd)) = Ok b0 /\ blockP a b0).
  { destruct (mes_mem _ _); rewrite py_slice_J by flia; cbn [opt_block]; apply Else; [left|right]; reflexivity. }
  destruct (in_misalignment_set fl e) eqn:B5; [|exact Else2].
  assert (T: is_type e MES_intron_shift = true \/ is_type e MES_exon_misalignment = true).
  { unfold in_misalignment_set in B5. apply orb_true_iff in B5. destruct B5 as [B5|B5]; apply andb_true_iff in B5; tauto. }
  destruct (G5 T) as (Eab & Hia & Hib & F1 & F2 & F3).
  set (ia := fst (e_iso e)) in *. set (ib := snd (e_iso e)) in *.
  rewrite (py_nth_J II ia) by (fold nI; flia). rewrite (py_nth_J II ib) by (fold nI; flia).
  destruct (py_contains_well_inside _ _ _); [|exact Else2].
  clear Else Else2 B1 B2 B3 B4 B5 G1 G2 G3 G4 G5 Lk.
  replace (a =? b) with true by flia. cbn [negb]. rewrite py_slice_J by (try fold nI; flia). cbn [opt_block]. eexists. split; [reflexivity|].
  rewrite <- Eab in *.
  apply blockP_intro; try flia; try assumption; try exact I; try (apply fk_lo; exact Hfk).
  - apply run_mono.
    + intros k Hk. apply HIIwf. flia.
    + intros k Hk1 Hk2. pose proof (HIIord k ltac:(flia) ltac:(flia)). pose proof (HIIwf k ltac:(flia)). flia.
  - apply run_Forall. intros k Hk. destruct (F3 k Hk) as (F4 & F5).
    destruct (II_mono ia k ltac:(flia) ltac:(flia)) as (M1 & _). destruct (II_mono k ib ltac:(flia) ltac:(flia)) as (_ & M2).
    repeat split; try flia. right. exists k. repeat split; flia.
Qed.

(* ---------------------------------------------------------------- the run of the loop *)
Fixpoint chainP (i:Z) (bs:list block) : Prop :=
  match bs with [] => i = n | b :: t => blockP i b /\ chainP (b_next b) t end.
Definition flat (bs:list block) : list iv := flat_map b_all bs.

Lemma loop_ok : forall fuel i, 0 <= i <= n -> n - i <= Z.of_nat fuel ->
  exists bs, loop_v vr fl d (L 0, E n) R CI ireg II emap fuel i = Ok bs /\ chainP i bs.
Proof. induction fuel as [|f IH]; intros i Hi Hf; cbn [loop_v]; unfold n_introns; change (Z.of_nat (length CI)) with (lenz CI); rewrite HCIlen.
  - destruct (i <? n) eqn:C; [lia|]. exists []. split; [reflexivity|]. cbn. lia.
  - destruct (i <? n) eqn:C; [|exists []; split; [reflexivity|cbn; lia]].
    destruct (step_ok i ltac:(lia)) as (b & -> & Hb). pose proof Hb as (_ & Hnx & _).
    destruct (IH (b_next b) ltac:(lia) ltac:(lia)) as (bs & -> & Hbs). exists (b :: bs). split; [reflexivity|]. cbn [chainP]. tauto. Qed.

Lemma chain_block_ok : forall bs i, chainP i bs -> forallb (block_ok n) bs = true.
Proof. induction bs as [|b t IH]; intros i H; [reflexivity|]. cbn [chainP] in H. destruct H as (Hb & Ht). cbn [forallb].
  rewrite (IH _ Ht). destruct Hb as (Hi & Hnx & _). unfold block_ok. lia. Qed.

(* only the first block can discard what was appended, and then nothing was appended *)
Lemma emitted_acc_pos : forall bs i acc, 0 < i -> chainP i bs ->
  fold_left (fun acc b => match b_upd b with DropStart _ => [] | _ => acc ++ b_all b end) bs acc = acc ++ flat bs.
Proof. induction bs as [|b t IH]; intros i acc Hi H; [cbn; now rewrite app_nil_r|]. cbn [chainP] in H. destruct H as (Hb & Ht).
  destruct Hb as (_ & Hnx & _ & _ & Hu). cbn [fold_left]. unfold flat. cbn [flat_map].
  destruct (b_upd b); try (rewrite (IH (b_next b)) by (lia || assumption); unfold flat; rewrite app_assoc; reflexivity). lia. Qed.
Lemma emitted_chain bs : chainP 0 bs -> Corrector.emitted bs = flat bs.
Proof. destruct bs as [|b t]; [reflexivity|]. cbn [chainP]. intros (Hb & Ht). destruct Hb as (_ & Hnx & _ & _ & Hu).
  unfold Corrector.emitted. cbn [fold_left]. unfold flat. cbn [flat_map]. cbn [app].
  destruct (b_upd b); try (rewrite (emitted_acc_pos t (b_next b)) by (lia || assumption); reflexivity).
  destruct Hu as (_ & _ & ->). rewrite (emitted_acc_pos t (b_next b)) by (lia || assumption). reflexivity. Qed.

Lemma chain_mono : forall bs i, 0 <= i -> chainP i bs ->
  mono (flat bs) /\ (0 < i -> Forall (fun x => L i < fst x) (flat bs)).
Proof. induction bs as [|b t IH]; intros i Hi H; [split; [exact I|constructor]|]. cbn [chainP] in H. destruct H as (Hb & Ht).
  destruct Hb as (_ & Hnx & Hm & Hf & Hu). destruct (IH (b_next b) ltac:(lia) Ht) as (I1 & I2). specialize (I2 ltac:(lia)).
  unfold flat in *. cbn [flat_map]. rewrite Forall_forall in Hf, I2. split.
  - apply mono_app; [exact Hm|exact I1|]. intros x y Hx Hy. specialize (Hf x Hx). specialize (I2 y Hy). lia.
  - intros Hpos. apply Forall_app. split; apply Forall_forall.
    + intros x Hx. specialize (Hf x Hx). unfold lo_of in Hf. destruct (b_upd b); try lia.
    + intros y Hy. specialize (I2 y Hy). destruct (LE_mono i (b_next b) ltac:(lia) ltac:(lia)). lia. Qed.

Lemma chain_end_nil : forall t, chainP n t -> t = [].
Proof. intros [|b t] H; [reflexivity|]. cbn [chainP] in H. destruct H as ((_ & Hnx & _) & _). lia. Qed.

Lemma chain_final_pos : forall bs i s, 0 < i -> chainP i bs -> s <= L i ->
  fst (final_region (s, E n) bs) = s /\ E i <= snd (final_region (s, E n) bs) /\
  Forall (fun x => fst (final_region (s, E n) bs) < fst x /\ snd x < snd (final_region (s, E n) bs)) (flat bs).
Proof. induction bs as [|b t IH]; intros i s Hi H Hs.
  - cbn [chainP] in H. subst i. unfold final_region. cbn [fold_left fst snd]. repeat split; try lia. constructor.
  - cbn [chainP] in H. destruct H as (Hb & Ht). destruct Hb as (_ & Hnx & _ & Hf & Hu).
    destruct (LE_mono i (b_next b) ltac:(lia) ltac:(lia)) as (M1 & M2).
    unfold final_region, flat in *. cbn [fold_left flat_map]. unfold lo_of, hi_of in Hf. rewrite Forall_forall in Hf.
    destruct (b_upd b) as [|w|w|w] eqn:U; cbn [apply_upd fst snd].
    + destruct (IH (b_next b) s ltac:(lia) Ht ltac:(lia)) as (I1 & I2 & I3). split; [exact I1|]. split; [lia|].
      apply Forall_app. split; [|exact I3]. apply Forall_forall. intros x Hx. specialize (Hf x Hx). rewrite I1. lia.
    + lia.
    + destruct Hu as (Hn' & Hw). rewrite Hn' in Ht. apply chain_end_nil in Ht. subst t. cbn [fold_left flat_map fst snd].
      rewrite app_nil_r. repeat split; try lia. apply Forall_forall. intros x Hx. specialize (Hf x Hx). lia.
    + lia. Qed.

Lemma chain_final_0 bs : chainP 0 bs ->
  fst (final_region (L 0, E n) bs) <= snd (final_region (L 0, E n) bs) /\
  Forall (fun x => fst (final_region (L 0, E n) bs) < fst x /\ snd x < snd (final_region (L 0, E n) bs)) (flat bs).
Proof. destruct bs as [|b t]; cbn [chainP]; [lia|]. intros (Hb & Ht). destruct Hb as (_ & Hnx & _ & Hf & Hu).
  destruct (LE_mono 0 (b_next b) ltac:(lia) ltac:(lia)) as (M1 & M2). pose proof (HLE (b_next b) ltac:(lia)) as S1. pose proof (HLE 0 ltac:(lia)) as S0.
  unfold final_region, flat in *. cbn [fold_left flat_map]. unfold lo_of, hi_of in Hf. rewrite Forall_forall in Hf.
  destruct (b_upd b) as [|w|w|w] eqn:U; cbn [apply_upd fst snd].
  - destruct (chain_final_pos t (b_next b) (L 0) ltac:(lia) Ht ltac:(lia)) as (I1 & I2 & I3). unfold final_region, flat in *.
    split; [lia|]. apply Forall_app. split; [|exact I3]. apply Forall_forall. intros x Hx. specialize (Hf x Hx). rewrite I1. lia.
  - destruct Hu as (_ & Hw). destruct (chain_final_pos t (b_next b) w ltac:(lia) Ht ltac:(lia)) as (I1 & I2 & I3). unfold final_region, flat in *.
    split; [lia|]. apply Forall_app. split; [|exact I3]. apply Forall_forall. intros x Hx. specialize (Hf x Hx). rewrite I1. lia.
  - destruct Hu as (Hn' & Hw). rewrite Hn' in Ht. apply chain_end_nil in Ht. subst t. cbn [fold_left flat_map fst snd].
    rewrite app_nil_r. split; [lia|]. apply Forall_forall. intros x Hx. specialize (Hf x Hx). lia.
  - destruct Hu as (_ & Hw & Hnil). destruct (chain_final_pos t (b_next b) w ltac:(lia) Ht ltac:(lia)) as (I1 & I2 & I3). unfold final_region, flat in *.
    split; [lia|]. apply Forall_app. split; [|exact I3]. rewrite Hnil. constructor. Qed.

Theorem loop_events_wf : exists bs, blocks_v vr fl d (L 0, E n) R CI ireg II emap = Ok bs /\
  forallb (block_ok n) bs = true /\ mono_b (Corrector.emitted bs) = true /\
  (fst (final_region (L 0, E n) bs) <=? snd (final_region (L 0, E n) bs)) = true /\
  forallb (inside (final_region (L 0, E n) bs)) (Corrector.emitted bs) = true.
Proof. unfold blocks_v. destruct (loop_ok (2 * length CI + 2) 0 ltac:(lia)) as (bs & Hl & Hc).
  { unfold lenz in HCIlen. lia. }
  exists bs. split; [exact Hl|]. split; [eapply chain_block_ok; exact Hc|]. rewrite (emitted_chain bs Hc).
  destruct (chain_mono bs 0 ltac:(lia) Hc) as (Hm & _). destruct (chain_final_0 bs Hc) as (F1 & F2).
  split; [apply mono_b_spec; exact Hm|]. split; [lia|]. apply forallb_forall. rewrite Forall_forall in F2. intros x Hx.
  specialize (F2 x Hx). unfold inside. lia. Qed.
End Loop.

Ltac blia := repeat match goal with
  | H : forall _, _ |- _ => clear H
  | H : forallb _ _ = true |- _ => clear H
  | H : junctions_wf _ = true |- _ => clear H
  | H : inside_region _ _ = true |- _ => clear H
  | H : sdg_b _ = true |- _ => clear H
  | H : Forall _ _ |- _ => clear H
  | H : Forall2 _ _ _ |- _ => clear H
  | H : ev_good _ _ _ _ _ _ |- _ => clear H
  end; lia.

(* ================================================================ assembling *)
Lemma jwf_nth : forall l d k, junctions_wf l = true -> (k < length l)%nat ->
  fst (nth k l d) <= snd (nth k l d) /\ ((Datatypes.S k < length l)%nat -> snd (nth k l d) + 1 < fst (nth (Datatypes.S k) l d)).
Proof. induction l as [|a t IH]; intros d k H Hk; [cbn in Hk; lia|]. rewrite junctions_wf_cons in H. rewrite !andb_true_iff in H. destruct H as ((Ha & Hn) & Ht).
  destruct k as [|k].
  - cbn [nth]. split; [lia|]. intros Hk2. destruct t as [|b t']; [cbn in Hk2; lia|]. cbn [nth]. lia.
  - cbn [nth]. cbn [length] in Hk. destruct (IH d k Ht ltac:(lia)) as (I1 & I2). split; [exact I1|]. intros Hk2. apply I2. cbn [length] in Hk2. lia. Qed.

Lemma exon_fst reg l k : k <> 0 -> fst (exon reg l k) = snd (J l (k - 1)) + 1.
Proof. intros H. unfold exon. cbn [fst]. destruct (k =? 0) eqn:C; [lia|reflexivity]. Qed.
Lemma exon_snd reg l k : k <> lenz l -> snd (exon reg l k) = fst (J l k) - 1.
Proof. intros H. unfold exon. cbn [snd]. destruct (k =? lenz l) eqn:C; [lia|reflexivity]. Qed.
Lemma exon_LE (L E:Z -> Z) n R : lenz R = n -> (forall k, 0 <= k < n -> J R k = (E k + 1, L (k + 1) - 1)) ->
  forall k, 0 <= k <= n -> exon (L 0, E n) R k = (L k, E k).
Proof. intros HRlen HR k Hk. unfold exon. rewrite HRlen. cbn [fst snd]. f_equal.
  - destruct (k =? 0) eqn:C; [f_equal; lia|]. rewrite (HR (k - 1)) by lia. cbn [snd]. replace (k - 1 + 1) with k by lia. lia.
  - destruct (k =? n) eqn:C; [f_equal; lia|]. rewrite (HR k) by lia. cbn [fst]. lia. Qed.

Definition wf_b (k:iv) : bool := fst k <=? snd k.
(* the extra hypothesis found during the proof (witness w4): with both flags on, the first read exon is longer than
   max_fake_terminal_exon_len, or no isoform intron lies well inside it *)
Definition left_end_ok (P:params) (fl:Corrector.flags) (exons II:list iv) : bool :=
  negb (Corrector.f_fake_terminal fl && Corrector.f_microintron fl) ||
  (p_max_fake_terminal_exon_len P <? py_interval_len (hd (0,0) exons)) ||
  forallb (fun m => negb (py_contains_well_inside (hd (0,0) exons) m (p_minimal_exon_overlap P))) II.


Lemma ev_good_gp P (L E:Z -> Z) n R ireg II e : 1 <= n -> lenz R = n ->
  (forall k, 0 <= k < n -> J R k = (E k + 1, L (k + 1) - 1)) ->
  ev_good P (L 0, E n) R ireg II e -> fst (e_read e) <> absent ->
  gp (p_delta P) (p_max_fake_terminal_exon_len P) n L E II e.
Proof. intros Hn HRlen HR (_ & Hg) Ha. specialize (Hg Ha). rewrite HRlen in Hg. destruct Hg as (Gab & Gb & G1 & G2 & G3 & G4 & G5).
  pose proof (exon_LE L E n R HRlen HR) as HX.
  unfold gp. cbv zeta. split; [exact Gab|]. split; [exact Gb|]. split; [|split; [|split; [|split]]].
  - intros T. destruct (G1 T) as (A1 & A2 & A3). rewrite (HX 0) in A3 by blia. unfold py_interval_len in A3. cbn [fst snd] in A3. blia.
  - exact G2.
  - intros T. destruct (G3 T) as (A1 & A2 & A3 & A4 & A5 & A6 & A7). rewrite (HR 0) in A6, A7 by blia.
    unfold py_overlaps in A6. cbn [fst snd] in A6, A7. replace (0 + 1) with 1 in * by blia. repeat split; blia.
  - intros T. destruct (G4 T) as (A1 & A2 & A3 & A4 & A5 & A6 & A7). rewrite (HR (n - 1)) in A6, A7 by blia.
    unfold py_overlaps in A6. cbn [fst snd] in A6, A7. replace (n - 1 + 1) with n in * by blia. repeat split; blia.
  - intros T. destruct (G5 T) as (A1 & A2 & A3 & A4 & A5).
    set (a := fst (e_read e)) in *. set (ia := fst (e_iso e)) in *. set (ib := snd (e_iso e)) in *.
    unfold surrounded_of in A4. apply andb_true_iff in A4. destruct A4 as (S1 & S2). unfold py_overlaps in S1, S2.
    rewrite (HX a) in S1 by blia. rewrite (HX (a + 1)) in S2 by blia. cbn [fst snd] in S1, S2.
    rewrite (exon_snd ireg II ia) in S1 by blia. rewrite (exon_fst ireg II (ib + 1)) in S2 by blia.
    replace (ib + 1 - 1) with ib in S2 by blia.
    split; [exact A1|]. split; [exact A2|]. split; [exact A3|]. split; [blia|]. split; [blia|].
    intros k Hk. specialize (A5 k Hk). rewrite (HR a) in A5 by blia. unfold py_overlaps in A5. cbn [fst snd] in A5. blia.
Qed.

Lemma ev_good_gf P (L E:Z -> Z) n R ireg II e : 1 <= n -> lenz R = n ->
  (forall k, 0 <= k < n -> J R k = (E k + 1, L (k + 1) - 1)) ->
  ev_good P (L 0, E n) R ireg II e -> fst (e_read e) = absent -> is_type e MES_fake_micro_intron_retention = true ->
  gf (p_minimal_exon_overlap P) n L E II e.
Proof. intros Hn HRlen HR (Hg & _) Ha T. destruct (Hg Ha) as (Gb & G). rewrite HRlen in Gb. destruct (G T) as (G1 & G2).
  rewrite (exon_LE L E n R HRlen HR) in G2 by blia. unfold py_contains_well_inside in G2. cbn [fst snd] in G2.
  unfold gf. cbv zeta. repeat split; blia. Qed.

Theorem events_wf_core : forall vr P K greg exons ireg II extra orc fl,
  0 <= p_delta P -> 0 < p_minimal_exon_overlap P ->
  Corrector.sdg_b exons = true -> exons <> [] ->
  forallb (fun e => 2 * p_delta P <? py_interval_len e) exons = true ->
  (Corrector.f_fuzzy fl = true -> forallb (fun i => p_delta P <? py_interval_len i) (jfb exons) = true) ->
  (Corrector.f_fuzzy fl = true -> Corrector.v_fuzzy vr = false ->
     forallb wf_b K = true \/ forallb (fun i => 2 * p_delta P <? py_interval_len i) (jfb exons) = true) ->
  junctions_wf II = true -> inside_region ireg II = true ->
  (Corrector.f_fuzzy fl = true -> Corrector.f_microintron fl = true -> p_delta P <= p_minimal_exon_overlap P + 1) ->
  (Corrector.v_fake vr = false -> left_end_ok P fl exons II = true) ->
  lenz exons < absent -> lenz II < absent ->
  Forall no_read_region extra ->
  Corrector.events_wf_v vr fl (comparator_cin P K greg exons ireg II extra orc) = true.
Proof. intros vr P K greg exons ireg II extra orc fl Hd Hmoe Hsdg Hne Hsz Hszi HK HIIwf HIIin Hdm Hleft HbR HbI Hextra.
  set (c := comparator_cin P K greg exons ireg II extra orc).
  unfold Corrector.events_wf_v. change (c_exons c) with exons. rewrite Hsdg.
  assert (Hlen0: (length exons =? 0)%nat = false) by (destruct exons; [congruence|reflexivity]). rewrite Hlen0. cbn [negb andb].
  unfold early_return. change (c_exons c) with exons. change (c_noninf c) with false. change (c_has_match c) with true. cbn [negb]. rewrite !orb_false_r.
  destruct (length exons =? 1)%nat eqn:Hlen1; [reflexivity|]. cbn [orb].
  assert (Hlen: (2 <= length exons)%nat) by (destruct exons as [|? [|? ?]]; cbn in *; try congruence; blia).
  clear Hlen0 Hlen1.
  (* the abstract picture *)
  set (d := p_delta P) in *. set (moe := p_minimal_exon_overlap P) in *.
  remember (if f_fuzzy fl then d else 0) as df eqn:Edf.
  set (n := lenz exons - 1).
  set (Lf := fun k => fst (nth (Z.to_nat k) exons (0,0))). set (Ef := fun k => snd (nth (Z.to_nat k) exons (0,0))).
  set (R := jfb exons).
  assert (Hn: 1 <= n) by (subst n; unfold lenz; blia).
  assert (Hdf: 0 <= df <= d) by (subst df; destruct (f_fuzzy fl); blia).
  destruct (jfb_sdg exons (0,0) (0,0) Hsdg) as (HRl & HRn). fold R in HRl, HRn.
  assert (HRlen: lenz R = n) by (subst n; unfold lenz; blia).
  assert (HR: forall k, 0 <= k < n -> J R k = (Ef k + 1, Lf (k + 1) - 1)).
  { intros k Hk. rewrite J_nth. rewrite HRn by (subst n; unfold lenz in *; blia). subst Lf Ef. cbn beta.
    replace (Z.to_nat (k + 1)) with (Datatypes.S (Z.to_nat k)) by blia. reflexivity. }
  assert (HLE: forall k, 0 <= k <= n -> Lf k + 2 * d <= Ef k).
  { intros k Hk. pose proof (forallb_nth _ exons (0,0) (Z.to_nat k) Hsz ltac:(subst n; unfold lenz in *; blia)) as H.
    cbn beta in H. unfold py_interval_len in H. subst Lf Ef. cbn beta. blia. }
  assert (Hgap: forall k, 0 <= k < n -> Ef k + 2 <= Lf (k + 1)).
  { intros k Hk. destruct (sdg_nth exons (0,0) (Z.to_nat k) Hsdg ltac:(subst n; unfold lenz in *; blia)) as (_ & H).
    specialize (H ltac:(subst n; unfold lenz in *; blia)). subst Lf Ef. cbn beta.
    replace (Z.to_nat (k + 1)) with (Datatypes.S (Z.to_nat k)) by blia. blia. }
  assert (HEL: forall k, 0 <= k < n -> Ef k + df + 2 <= Lf (k + 1)).
  { intros k Hk. subst df. destruct (f_fuzzy fl) eqn:Ff; [|specialize (Hgap k Hk); blia].
    pose proof (forallb_nth _ R (0,0) (Z.to_nat k) (Hszi eq_refl) ltac:(subst n; unfold lenz in *; blia)) as H.
    cbn beta in H. rewrite <- J_nth, (HR k Hk) in H. unfold py_interval_len in H. cbn [fst snd] in H. blia. }
  assert (Hhull: Corrector.hull exons = (Lf 0, Ef n)).
  { unfold Corrector.hull. subst Lf Ef n. cbn beta. rewrite last_nth_pred. f_equal.
    - destruct exons; [congruence|reflexivity].
    - f_equal. f_equal. unfold lenz. blia. }
  assert (HRk: forall r, In r R -> exists k, 0 <= k < n /\ r = J R k).
  { intros r Hr. destruct (In_nth R r (0,0) Hr) as (k & Hk & <-). exists (Z.of_nat k). split; [subst n; unfold lenz in *; blia|].
    rewrite J_nth, Nat2Z.id. reflexivity. }
  assert (HRwf: Forall (fun r => fst r <= snd r) R).
  { apply Forall_forall. intros r Hr. destruct (HRk r Hr) as (k & Hk & ->). rewrite (HR k Hk). cbn [fst snd]. pose proof (Hgap k Hk). blia. }
  (* corrected introns *)
  assert (HCI2: Forall2 (near df) R (corrected_introns_v vr fl c)).
  { unfold corrected_introns_v. change (c_introns c) with R. destruct (f_fuzzy fl) eqn:Ff.
    - subst df. change (potentials c) with (match_genomic_features d K R). change (c_oracle c) with orc.
      destruct (v_fuzzy vr) eqn:Vz.
      + apply (fuzzy_near d K); [apply potentials_spec|exact Hd|exact HRwf].
      + apply (fuzzy_unrepaired_near d K); [apply potentials_spec|exact Hd|]. apply Forall_forall. intros r Hr.
        destruct (HRk r Hr) as (k & Hk & ->). rewrite (HR k Hk). cbn [fst snd]. pose proof (HEL k Hk). split; [blia|].
        destruct (HK eq_refl eq_refl) as [HKw|HK2].
        * left. intros k' Hk'. rewrite forallb_forall in HKw. specialize (HKw k' Hk'). unfold wf_b in HKw. blia.
        * right. pose proof (forallb_nth _ R (0,0) (Z.to_nat k) HK2 ltac:(subst n; unfold lenz in *; blia)) as H2d.
          cbn beta in H2d. rewrite <- J_nth, (HR k Hk) in H2d. unfold py_interval_len in H2d. cbn [fst snd] in H2d. blia.
    - subst df. apply Forall2_refl_near. exact HRwf. }
  destruct (Forall2_nth _ _ _ HCI2) as (HCIl & HCIn).
  set (CI := corrected_introns_v vr fl c) in *.
  assert (HCIlen: lenz CI = n) by (unfold lenz in *; blia).
  assert (HCI: forall k, 0 <= k < n -> nearP df Lf Ef k (J CI k)).
  { intros k Hk. specialize (HCIn (Z.to_nat k) (0,0) (0,0) ltac:(subst n; unfold lenz in *; blia)).
    rewrite <- !J_nth in HCIn. rewrite (HR k Hk) in HCIn. unfold near in HCIn. cbn [fst snd] in HCIn. unfold nearP. blia. }
  (* isoform junctions *)
  assert (HI1: forall k, 0 <= k < lenz II -> fst (J II k) <= snd (J II k)).
  { intros k Hk. rewrite J_nth. apply (jwf_nth II (0,0) (Z.to_nat k) HIIwf). unfold lenz in Hk. blia. }
  assert (HI2: forall k, 0 <= k -> k + 1 < lenz II -> snd (J II k) + 1 < fst (J II (k + 1))).
  { intros k Hk1 Hk2. rewrite !J_nth. replace (Z.to_nat (k + 1)) with (Datatypes.S (Z.to_nat k)) by blia.
    apply (jwf_nth II (0,0) (Z.to_nat k) HIIwf); unfold lenz in Hk2; blia. }
  assert (HI3: forall k, 0 <= k < lenz II -> fst ireg < fst (J II k) /\ snd (J II k) < snd ireg).
  { intros k Hk. pose proof (forallb_nth _ II (0,0) (Z.to_nat k) HIIin ltac:(unfold lenz in Hk; blia)) as H. cbn beta in H.
    rewrite <- J_nth in H. blia. }
  assert (Hdfm: f_microintron fl = true -> df <= moe + 1).
  { intros Hm. subst df. destruct (f_fuzzy fl); [apply Hdm; auto|blia]. }
  assert (Hhd: hd (0,0) exons = (Lf 0, Ef 0)).
  { subst Lf Ef. cbn beta. destruct exons as [|x t]; [congruence|]. cbn. destruct x; reflexivity. }
  assert (Hleft': v_fake vr = false -> f_fake_terminal fl = true -> f_microintron fl = true ->
            p_max_fake_terminal_exon_len P < Ef 0 - Lf 0 + 1 \/
            (forall q, 0 <= q < lenz II -> ~ (Lf 0 + moe <= fst (J II q) /\ snd (J II q) + moe <= Ef 0))).
  { intros Vf F1 F2. specialize (Hleft Vf). unfold left_end_ok in Hleft. rewrite F1, F2, Hhd in Hleft. cbn [andb negb orb] in Hleft.
    apply orb_true_iff in Hleft. destruct Hleft as [H|H].
    - left. unfold py_interval_len in H. cbn [fst snd] in H. blia.
    - right. intros q Hq (Q1 & Q2). pose proof (forallb_nth _ II (0,0) (Z.to_nat q) H ltac:(unfold lenz in Hq; blia)) as H'. cbn beta in H'.
      rewrite <- J_nth in H'. unfold py_contains_well_inside in H'. cbn [fst snd] in H'. fold moe in H'. blia. }
  (* the event map *)
  assert (HbR': lenz R < absent) by blia.
  assert (HRne: R <> []) by (intros HE; rewrite HE in HRlen; cbn in HRlen; blia).
  assert (Hmap: forall key e, lookup (build_map fl (c_events c)) key = Some e ->
            (key = fst (e_read e) /\ gp d (p_max_fake_terminal_exon_len P) n Lf Ef II e) \/
            (key = - snd (e_read e) - 1 /\ f_microintron fl = true /\ gf moe n Lf Ef II e)).
  { intros key e Hl. apply lookup_entry2 in Hl. destruct Hl as (Hin & Hun & Hkey). cbn [fst snd] in *.
    change (c_events c) with (compare_junctions_gene P K greg (Corrector.hull exons) R ireg II ++ extra) in Hin.
    rewrite Hhull in Hin. apply in_app_or in Hin. destruct Hin as [Hin|Hin].
    2:{ exfalso. rewrite Forall_forall in Hextra. specialize (Hextra e Hin). unfold no_read_region in Hextra. rewrite Hextra in Hun.
        vm_compute in Hun. discriminate Hun. }
    assert (Hdef: e_read e <> undefined_region) by (intros HE; rewrite HE in Hun; vm_compute in Hun; discriminate Hun).
    unfold compare_junctions_gene in Hin.
    pose proof (comparator_events_good P _ (Lf 0, Ef n) R ireg II e HRne HbR' HbI Hin Hdef) as Hg.
    destruct Hkey as [(Hk & Ha)|(Hk & Ha & Hm & T)].
    - left. split; [exact Hk|]. apply (ev_good_gp P Lf Ef n R ireg II e Hn HRlen HR Hg). exact Ha.
    - right. split; [exact Hk|]. split; [exact Hm|]. apply (ev_good_gf P Lf Ef n R ireg II e Hn HRlen HR Hg); [exact Ha|exact T]. }
  destruct (loop_events_wf vr fl d moe df (p_max_fake_terminal_exon_len P) n Lf Ef R CI II ireg (build_map fl (c_events c))
              Hn Hdf Hmoe HLE HEL HRlen HR HCIlen HCI HI1 HI2 HI3 Hdfm Hleft' Hmap) as (bs & Hb & W1 & W2 & W3 & W4).
  unfold c_blocks_v. change (c_delta c) with d. unfold c_region. change (c_exons c) with exons. rewrite Hhull.
  change (c_introns c) with R. change (c_isoreg c) with ireg. change (c_isointrons c) with II. fold CI. rewrite Hb.
  cbv zeta. change (Z.of_nat (length R)) with (lenz R). rewrite HRlen, W1, W2, W3, W4. reflexivity.
Qed.

(* ================================================================ main theorems *)
(* REPAIRED corrector (the default notations of Corrector.v): the comparator's events satisfy the hypothesis of C14's theorems *)
Theorem events_satisfy_corrector_hypothesis : forall P K greg exons ireg II extra orc fl,
  0 <= p_delta P -> 0 < p_minimal_exon_overlap P ->
  Corrector.sdg_b exons = true -> exons <> [] -> sizes_ok (p_delta P) exons = true ->
  junctions_wf II = true -> inside_region ireg II = true ->
  (Corrector.f_fuzzy fl = true -> Corrector.f_microintron fl = true -> p_delta P <= p_minimal_exon_overlap P + 1) ->
  lenz exons < absent -> lenz II < absent ->
  Forall no_read_region extra ->
  Corrector.events_wf fl (comparator_cin P K greg exons ireg II extra orc) = true.
Proof. intros P K greg exons ireg II extra orc fl Hd Hmoe Hsdg Hne Hsz HIIwf HIIin Hdm HbR HbI Hextra.
  unfold sizes_ok in Hsz. apply andb_true_iff in Hsz. destruct Hsz as (Hs1 & Hs2).
  apply (events_wf_core Corrector.repaired); try assumption; try (intros; assumption); intros; discriminate. Qed.

Theorem events_satisfy_corrector_hypothesis_nofuzzy : forall P K greg exons ireg II extra orc fl,
  Corrector.f_fuzzy fl = false ->
  0 <= p_delta P -> 0 < p_minimal_exon_overlap P ->
  Corrector.sdg_b exons = true -> exons <> [] ->
  forallb (fun e => 2 * p_delta P <? py_interval_len e) exons = true ->
  junctions_wf II = true -> inside_region ireg II = true ->
  lenz exons < absent -> lenz II < absent ->
  Forall no_read_region extra ->
  Corrector.events_wf fl (comparator_cin P K greg exons ireg II extra orc) = true.
Proof. intros P K greg exons ireg II extra orc fl Ff Hd Hmoe Hsdg Hne Hsz HIIwf HIIin HbR HbI Hextra.
  apply (events_wf_core Corrector.repaired); try assumption; try (intros C; rewrite Ff in C; discriminate C); intros; discriminate. Qed.

(* UNREPAIRED corrector (the code as it was): two more hypotheses are needed, see the refuted examples below *)
Theorem events_satisfy_corrector_hypothesis_unrepaired : forall P K greg exons ireg II extra orc fl,
  0 <= p_delta P -> 0 < p_minimal_exon_overlap P ->
  Corrector.sdg_b exons = true -> exons <> [] -> sizes_ok (p_delta P) exons = true ->
  (Corrector.f_fuzzy fl = true ->
     forallb wf_b K = true \/ forallb (fun i => 2 * p_delta P <? py_interval_len i) (jfb exons) = true) ->
  junctions_wf II = true -> inside_region ireg II = true ->
  (Corrector.f_fuzzy fl = true -> Corrector.f_microintron fl = true -> p_delta P <= p_minimal_exon_overlap P + 1) ->
  left_end_ok P fl exons II = true ->
  lenz exons < absent -> lenz II < absent ->
  Forall no_read_region extra ->
  Corrector.events_wf_v Corrector.unrepaired fl (comparator_cin P K greg exons ireg II extra orc) = true.
Proof. intros P K greg exons ireg II extra orc fl Hd Hmoe Hsdg Hne Hsz HK HIIwf HIIin Hdm Hleft HbR HbI Hextra.
  unfold sizes_ok in Hsz. apply andb_true_iff in Hsz. destruct Hsz as (Hs1 & Hs2).
  apply (events_wf_core Corrector.unrepaired); try assumption; intros; auto. Qed.

Theorem corrected_exons_wf_unconditional : forall P K greg exons ireg II extra orc fl,
  0 <= p_delta P -> 0 < p_minimal_exon_overlap P ->
  Corrector.sdg_b exons = true -> exons <> [] -> sizes_ok (p_delta P) exons = true ->
  junctions_wf II = true -> inside_region ireg II = true ->
  (Corrector.f_fuzzy fl = true -> Corrector.f_microintron fl = true -> p_delta P <= p_minimal_exon_overlap P + 1) ->
  lenz exons < absent -> lenz II < absent ->
  Forall no_read_region extra ->
  exists ex, Corrector.correct_assigned_read fl (comparator_cin P K greg exons ireg II extra orc) = Ok ex /\ Corrector.sd_b ex = true.
Proof. intros. pose proof (events_satisfy_corrector_hypothesis P K greg exons ireg II extra orc fl) as W.
  specialize (W ltac:(assumption) ltac:(assumption) ltac:(assumption) ltac:(assumption) ltac:(assumption) ltac:(assumption)
                ltac:(assumption) ltac:(assumption) ltac:(assumption) ltac:(assumption) ltac:(assumption)).
  destruct (events_wf_returns _ _ W) as (ex & Hex). exists ex. split; [exact Hex|]. apply sd_b_spec. eapply corrected_exons_wf; eauto. Qed.

Theorem corrected_exons_wf_unconditional_unrepaired : forall P K greg exons ireg II extra orc fl,
  0 <= p_delta P -> 0 < p_minimal_exon_overlap P ->
  Corrector.sdg_b exons = true -> exons <> [] -> sizes_ok (p_delta P) exons = true ->
  (Corrector.f_fuzzy fl = true ->
     forallb wf_b K = true \/ forallb (fun i => 2 * p_delta P <? py_interval_len i) (jfb exons) = true) ->
  junctions_wf II = true -> inside_region ireg II = true ->
  (Corrector.f_fuzzy fl = true -> Corrector.f_microintron fl = true -> p_delta P <= p_minimal_exon_overlap P + 1) ->
  left_end_ok P fl exons II = true ->
  lenz exons < absent -> lenz II < absent ->
  Forall no_read_region extra ->
  exists ex, Corrector.correct_assigned_read_v Corrector.unrepaired fl (comparator_cin P K greg exons ireg II extra orc) = Ok ex /\
             Corrector.sd_b ex = true.
Proof. intros. pose proof (events_satisfy_corrector_hypothesis_unrepaired P K greg exons ireg II extra orc fl) as W.
  specialize (W ltac:(assumption) ltac:(assumption) ltac:(assumption) ltac:(assumption) ltac:(assumption) ltac:(assumption)
                ltac:(assumption) ltac:(assumption) ltac:(assumption) ltac:(assumption) ltac:(assumption) ltac:(assumption) ltac:(assumption)).
  destruct (events_wf_returns_v _ _ _ W) as (ex & Hex). exists ex. split; [exact Hex|]. apply sd_b_spec. eapply corrected_exons_wf_v; eauto. Qed.

(* ================================================================ witnesses: every hypothesis is needed *)
Definition P0 := params_of MS_default.
Definition fl_ont := Corrector.strategy_flags Corrector.St_default_ont.

(* w1: unrepaired fuzzy junction beyond the read end (last exon of 5 bases; confirmed on the real ExonCorrector); the repair removes it *)
Definition ex_w1 := [(1000,1100);(1300,1304)].
Definition c_w1 := comparator_cin P0 [(1101,1305)] (1000,1500) ex_w1 (1000,1500) [(1101,1305)] [] [((0,0),(1,0))].
Example w1_fuzzy_beyond_read_end_refuted :
  Corrector.events_wf_v Corrector.unrepaired fl_ont c_w1 = false /\
  Corrector.correct_assigned_read_v Corrector.unrepaired fl_ont c_w1 = Ok [(1000,1100);(1306,1304)] /\
  sizes_ok 6 ex_w1 = false /\
  Corrector.events_wf fl_ont c_w1 = true /\ Corrector.correct_assigned_read fl_ont c_w1 = Ok [(1000,1100);(1300,1304)].
Proof. vm_compute. repeat split. Qed.

(* w2: no fuzzy flag, exons not longer than 2 delta: the isoform intron restored by terminal_exon_misalignment_left reaches the read end *)
Definition P_w2 := mkP 2 2 4 1 2 (1#1) 3 6 2 (1#2) 2 1 (1#2) 3 1.
Definition fl_w2 := Corrector.mkflags false false true true true true.
Definition ex_w2 := [(2,2);(6,6);(8,8)].
Definition c_w2 := comparator_cin P_w2 [(3,6);(5,8);(11,11)] (1,13) ex_w2 (3,12) [(5,8);(11,11)] [] [].
Example w2_short_exons_refuted :
  Corrector.c_events c_w2 = [mkev MES_terminal_exon_misalignment_left (0,0) (0,0)] /\
  Corrector.events_wf fl_w2 c_w2 = false /\ Corrector.events_wf_v Corrector.unrepaired fl_w2 c_w2 = false /\
  Corrector.correct_assigned_read fl_w2 c_w2 = Ok [(3,4);(8,8)] /\ sizes_ok 2 ex_w2 = false.
Proof. vm_compute. repeat split. Qed.

(* w3: fuzzy + micro-intron with delta = 4 > minimal_exon_overlap + 1 = 2: the fuzzy start 197 precedes the inserted micro-intron (198,198);
   all other hypotheses hold, and the repaired fuzzy does not help *)
Definition P_w3 := mkP 4 60 100 40 60 (1#1) 50 300 10 (1#5) 50 30 (1#5) 50 1.
Definition fl_w3 := Corrector.strategy_flags Corrector.St_default_pacbio.
Definition ex_w3 := [(100,200);(300,400)].
Definition c_w3 := comparator_cin P_w3 [(197,299)] (50,500) ex_w3 (50,500) [(198,198);(201,299)] [] [((1,0),(0,0))].
Example w3_delta_vs_minimal_exon_overlap_refuted :
  Corrector.c_events c_w3 = [mkev MES_fake_micro_intron_retention (0,0) (absent,0)] /\
  Corrector.c_blocks fl_w3 c_w3 = Ok [Corrector.mkblock 0 1 [(198,198)] [(197,299)] Corrector.NoUpd] /\
  Corrector.events_wf fl_w3 c_w3 = false /\ Corrector.events_wf_v Corrector.unrepaired fl_w3 c_w3 = false /\
  sizes_ok 4 ex_w3 = true /\ junctions_wf [(198,198);(201,299)] = true /\ inside_region (50,500) [(198,198);(201,299)] = true.
Proof. vm_compute. repeat split. Qed.

(* w4 (found during the proof): unrepaired, a micro-intron of the isoform well inside a SHORT first read exon is inserted although the
   same iteration drops that exon as a fake terminal exon; sizes_ok holds; the repaired branch (DropStart) removes it *)
Definition ex_w4 := [(100,139);(301,400)].
Definition c_w4 := comparator_cin P0 [] (50,1000) ex_w4 (50,1000) [(110,120)] [] [].
Example w4_micro_intron_in_fake_first_exon_refuted :
  Corrector.c_events c_w4 = [mkev MES_fake_micro_intron_retention (0,0) (absent,0); mkev MES_fake_terminal_exon_left extra_left_region (0,0)] /\
  Corrector.c_blocks_v Corrector.unrepaired fl_ont c_w4 = Ok [Corrector.mkblock 0 1 [(110,120)] [] (Corrector.SetStart 301)] /\
  Corrector.events_wf_v Corrector.unrepaired fl_ont c_w4 = false /\
  Corrector.correct_assigned_read_v Corrector.unrepaired fl_ont c_w4 = Ok [(301,109);(121,400)] /\
  sizes_ok 6 ex_w4 = true /\ left_end_ok P0 fl_ont ex_w4 [(110,120)] = false /\
  Corrector.events_wf fl_ont c_w4 = true /\ Corrector.correct_assigned_read fl_ont c_w4 = Ok [(301,400)].
Proof. vm_compute. repeat split. Qed.

(* w5 (found during the proof): unrepaired fuzzy with an ill-formed known intron (start > end) within delta of a read intron of
   7 bases (delta 6 < 7 <= 2 delta): the corrected intron is inverted and the exons overlap; sizes_ok holds *)
Definition ex_w5 := [(0,100);(108,300)].
Definition c_w5 := comparator_cin P0 [(107,101)] (0,1000) ex_w5 (0,1000) [] [] [((1,0),(1,0))].
Example w5_ill_formed_known_intron_refuted :
  Corrector.events_wf_v Corrector.unrepaired fl_ont c_w5 = false /\
  Corrector.correct_assigned_read_v Corrector.unrepaired fl_ont c_w5 = Ok [(0,106);(102,300)] /\
  sizes_ok 6 ex_w5 = true /\ forallb wf_b [(107,101)] = false /\
  forallb (fun i => 2 * 6 <? py_interval_len i) (jfb ex_w5) = false /\
  Corrector.events_wf fl_ont c_w5 = true /\ Corrector.correct_assigned_read fl_ont c_w5 = Ok [(0,100);(108,300)].
Proof. vm_compute. repeat split. Qed.

Print Assumptions events_satisfy_corrector_hypothesis.
Print Assumptions events_satisfy_corrector_hypothesis_nofuzzy.
Print Assumptions corrected_exons_wf_unconditional.
Print Assumptions events_satisfy_corrector_hypothesis_unrepaired.
Print Assumptions corrected_exons_wf_unconditional_unrepaired.
Print Assumptions loop_events_wf.
Print Assumptions comparator_events_good.

